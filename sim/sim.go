// Package sim is engine E1: a deterministic, single-threaded network of real
// pbft.ConsensusState instances. The harness is the network and the clock:
// every step is one of deliver / fire-timeout / internal-step / crash /
// restart / inject, chosen by a seeded adversary, and performs exactly the two
// statements of the corresponding receiveRoutine case through the verif shim.
package sim

import (
	"bytes"
	"crypto/sha256"
	"encoding/binary"
	"fmt"
	"os"
	"path/filepath"
	"sync"
	"time"

	"github.com/spf13/viper"
	"go.uber.org/zap"

	bc "github.com/dappledger/AnnChain/gemmill/blockchain"
	"github.com/dappledger/AnnChain/gemmill/consensus/pbft"
	crypto "github.com/dappledger/AnnChain/gemmill/go-crypto"
	"github.com/dappledger/AnnChain/gemmill/modules/go-clist"
	dbm "github.com/dappledger/AnnChain/gemmill/modules/go-db"
	events "github.com/dappledger/AnnChain/gemmill/modules/go-events"
	glog "github.com/dappledger/AnnChain/gemmill/modules/go-log"
	sm "github.com/dappledger/AnnChain/gemmill/state"
	"github.com/dappledger/AnnChain/gemmill/types"
)

var logOnce sync.Once

// Quiet installs a no-op logger (go-log prints every record otherwise).
func Quiet() {
	logOnce.Do(func() { glog.SetLog(zap.NewNop()) })
}

// Config describes one simulated network.
type Config struct {
	ChainID  string
	Powers   []int64 // voting power per node index; 0 = full node that is not a validator at genesis
	Real     []bool  // Real[i]: node i runs a real ConsensusState; otherwise the harness holds its key (Byzantine / puppet)
	Dir      string  // scratch directory (signer files, WAL directories)
	PartSize int
	TxBytes  int // > 0: every generated transaction is padded to this many bytes (large blocks / large WAL records)
	Label    string
}

// Commit is what a node made visible for one height.
type Commit struct {
	Height      int64
	Hash        []byte
	PartsHeader types.PartSetHeader
	LastBlockID types.BlockID
}

// MockApp is the deterministic application behind the three hook events. It is
// the node's "application disk": it survives Crash/Restart of the node.
type MockApp struct {
	Height       int64
	AppHash      []byte
	ReceiptsHash []byte
	History      []AppRecord // one per committed height, in order
	Anomalies    []string    // exactly-once / ordering violations seen at the app boundary
	staged       *types.Block
	ValChanges   bool // interpret "VC|" transactions as validator changes in EndBlock
}

type AppRecord struct {
	Height       int64
	BlockHash    []byte
	AppHash      []byte
	ReceiptsHash []byte
	NumTxs       int
}

func (a *MockApp) onExecute(h int64, b *types.Block) types.ExecuteResult {
	if h != a.Height+1 {
		a.Anomalies = append(a.Anomalies, fmt.Sprintf("execute of height %d while app is at %d", h, a.Height))
	}
	a.staged = b
	res := types.ExecuteResult{}
	for _, tx := range b.Data.Txs {
		if bytes.HasPrefix(tx, []byte("bad")) {
			res.InvalidTxs = append(res.InvalidTxs, types.ExecuteInvalidTx{Bytes: tx, Error: fmt.Errorf("bad tx")})
		} else {
			res.ValidTxs = append(res.ValidTxs, tx)
		}
	}
	return res
}

func (a *MockApp) onCommit(h int64, b *types.Block) types.CommitResult {
	if h != a.Height+1 {
		a.Anomalies = append(a.Anomalies, fmt.Sprintf("commit of height %d while app is at %d", h, a.Height))
	}
	if a.staged == nil || !bytes.Equal(a.staged.Hash(), b.Hash()) {
		a.Anomalies = append(a.Anomalies, fmt.Sprintf("commit of height %d without matching execute", h))
	}
	hh := sha256.New()
	hh.Write(a.AppHash)
	binary.Write(hh, binary.BigEndian, h)
	for _, tx := range b.Data.Txs {
		hh.Write(tx)
		hh.Write([]byte{0})
	}
	for _, tx := range b.Data.ExTxs {
		hh.Write(tx)
		hh.Write([]byte{1})
	}
	a.AppHash = hh.Sum(nil)
	rh := sha256.Sum256(append([]byte("receipts"), a.AppHash...))
	a.ReceiptsHash = rh[:]
	a.Height = h
	a.staged = nil
	a.History = append(a.History, AppRecord{h, b.Hash(), a.AppHash, a.ReceiptsHash, len(b.Data.Txs)})
	return types.CommitResult{AppHash: a.AppHash, ReceiptsHash: a.ReceiptsHash}
}

// MockPool is the tx pool handed to the consensus state.
type MockPool struct {
	node    int
	counter int
	TxsPer  int
	TxBytes int
	Extra   [][]byte // txs to include in the next proposal (e.g. validator changes)
}

func (p *MockPool) Lock()   {}
func (p *MockPool) Unlock() {}
func (p *MockPool) Reap(n int) []types.Tx {
	var out []types.Tx
	for i := 0; i < p.TxsPer && len(out) < n; i++ {
		p.counter++
		tx := []byte(fmt.Sprintf("tx-%d-%d", p.node, p.counter))
		for i := 0; len(tx) < p.TxBytes; i++ {
			tx = append(tx, byte('a'+(i+p.counter)%26))
		}
		out = append(out, types.Tx(tx))
	}
	for _, e := range p.Extra {
		out = append(out, types.Tx(e))
	}
	p.Extra = nil
	return out
}
func (p *MockPool) ReceiveTx(tx types.Tx) error               { return nil }
func (p *MockPool) Update(height int64, txs []types.Tx)       {}
func (p *MockPool) Size() int                                 { return 0 }
func (p *MockPool) TxsFrontWait() *clist.CElement             { return nil }
func (p *MockPool) Flush()                                    {}
func (p *MockPool) RegisterFilter(filter types.IFilter)       {}
func (p *MockPool) GetPendingMaxNonce([]byte) (uint64, error) { return 0, nil }

// blockExec is the IBlockExecutable handed to sm.State.
type blockExec struct {
	net  *Net
	node *Node
}

func (e *blockExec) BeginBlock(*types.Block, events.Fireable, *types.PartSetHeader) error { return nil }
func (e *blockExec) ExecBlock(*types.Block, events.Fireable, *types.ExecuteResult) error  { return nil }
func (e *blockExec) EndBlock(b *types.Block, _ events.Fireable, _ *types.PartSetHeader, _ []*types.ValidatorAttr, next *types.ValidatorSet) error {
	if !e.node.App.ValChanges {
		return nil
	}
	for _, tx := range b.Data.Txs {
		ApplyValChangeTx(e.net, tx, next)
	}
	return nil
}

// ApplyValChangeTx interprets "VC|<op>|<node index>|<power>" deterministically.
func ApplyValChangeTx(n *Net, tx []byte, next *types.ValidatorSet) {
	var op string
	var idx int
	var power int64
	if k, _ := fmt.Sscanf(string(bytes.Replace(tx, []byte("|"), []byte(" "), -1)), "VC %s %d %d", &op, &idx, &power); k != 3 {
		return
	}
	if idx < 0 || idx >= len(n.Keys) {
		return
	}
	pk := n.Keys[idx].PubKey()
	switch op {
	case "add":
		next.Add(types.NewValidator(pk, power, false))
	case "upd":
		if _, v := next.GetByAddress(pk.Address()); v != nil {
			v.VotingPower = power
			next.Update(v)
		}
	case "rem":
		if next.Size() > 1 {
			next.Remove(pk.Address())
		}
	}
}

// Node is one participant.
type Node struct {
	Idx      int
	Real     bool
	Key      crypto.PrivKeyEd25519
	Addr     []byte
	SignFile string
	WALDir   string
	StateDB  dbm.DB // survives crash (it is the node's disk)
	BlockDB  dbm.DB
	App      *MockApp
	Pool     *MockPool

	// volatile (rebuilt on restart)
	CS       *pbft.ConsensusState
	Priv     *types.PrivValidator
	Ticker   *pbft.VerifTicker
	Store    *bc.BlockStore
	Evsw     types.EventSwitch
	Timeouts []pbft.VerifTimeout
	Up       bool

	Shown      map[int64]Commit // what this node has made visible so far (monitor memory)
	Emitted    []*Env           // messages this node produced (own votes/proposals)
	Restarts   int
	ReplayErrs []string
}

// Env is a message in the global pool.
type Env struct {
	ID    int
	From  int
	Byz   bool
	Msg   pbft.ConsensusMessage
	Kind  string // proposal | part | prevote | precommit
	H, R  int64
	Block string // hex prefix of block hash voted/proposed ("" = nil)
}

// Net is the simulated network.
type Net struct {
	Cfg       Config
	Keys      []crypto.PrivKeyEd25519
	Nodes     []*Node
	Genesis   *types.GenesisDoc
	Pool      []*Env
	Deliv     []map[int]bool // Deliv[node][envID]
	Steps     int
	Trace     []string
	OnStep    func(n *Net, node int) // monitors
	OnBefore  func(n *Net, node int) // called before a node processes an input
	KeepTrace bool
}

func conf(chainID, walDir string, partSize int) *viper.Viper {
	c := viper.New()
	c.Set("chain_id", chainID)
	c.Set("cs_wal_dir", walDir)
	c.Set("cs_wal_light", false)
	c.Set("block_size", 100)
	c.Set("block_part_size", partSize)
	c.Set("timeout_propose", 30)
	c.Set("timeout_propose_delta", 5)
	c.Set("timeout_prevote", 10)
	c.Set("timeout_prevote_delta", 5)
	c.Set("timeout_precommit", 10)
	c.Set("timeout_precommit_delta", 5)
	c.Set("timeout_commit", 10)
	c.Set("skip_timeout_commit", false)
	return c
}

// NewNet builds the network and starts every real node.
func NewNet(cfg Config) (*Net, error) {
	Quiet()
	if cfg.PartSize == 0 {
		cfg.PartSize = 512
	}
	if cfg.ChainID == "" {
		cfg.ChainID = "simnet"
	}
	n := &Net{Cfg: cfg}
	gen := &types.GenesisDoc{GenesisTime: time.Unix(1500000000, 0), ChainID: cfg.ChainID, AppHash: []byte{}}
	for i := range cfg.Powers {
		k := crypto.GenPrivKeyEd25519FromSecret([]byte(fmt.Sprintf("%s-sim-key-%d", cfg.Label, i)))
		n.Keys = append(n.Keys, k)
		if cfg.Powers[i] > 0 {
			gen.Validators = append(gen.Validators, types.GenesisValidator{PubKey: k.PubKey(), Amount: cfg.Powers[i], Name: fmt.Sprintf("n%d", i), IsCA: true})
		}
	}
	n.Genesis = gen
	for i := range cfg.Powers {
		nd := &Node{Idx: i, Real: cfg.Real[i], Key: n.Keys[i], Addr: n.Keys[i].PubKey().Address(),
			Shown: map[int64]Commit{}}
		n.Nodes = append(n.Nodes, nd)
		n.Deliv = append(n.Deliv, map[int]bool{})
		if !nd.Real {
			continue
		}
		nd.SignFile = filepath.Join(cfg.Dir, fmt.Sprintf("priv_%d.json", i))
		nd.WALDir = filepath.Join(cfg.Dir, fmt.Sprintf("wal_%d", i))
		nd.StateDB = NewDiskDB()
		nd.BlockDB = NewDiskDB()
		nd.App = &MockApp{AppHash: []byte{}}
		nd.Pool = &MockPool{node: i, TxsPer: 2, TxBytes: cfg.TxBytes}
		pv, err := types.GenPrivValidator(crypto.CryptoTypeZhongAn, n.Keys[i])
		if err != nil {
			return nil, err
		}
		pv.SetFile(nd.SignFile)
		if err := pv.Save(); err != nil {
			return nil, err
		}
		st := sm.MakeGenesisState(nd.StateDB, gen)
		st.Save()
		if err := n.boot(nd); err != nil {
			return nil, err
		}
	}
	return n, nil
}

// boot (re)builds the volatile part of a node from its "disk".
func (n *Net) boot(nd *Node) error {
	st := sm.LoadState(nd.StateDB)
	if st == nil {
		return fmt.Errorf("node %d: no state", nd.Idx)
	}
	pv, err := types.LoadPrivValidator(nd.SignFile)
	if err != nil {
		return fmt.Errorf("node %d: signer file: %v", nd.Idx, err)
	}
	nd.Priv = pv
	nd.Store = bc.NewBlockStore(nd.BlockDB, nil)
	c := conf(n.Cfg.ChainID, nd.WALDir, n.Cfg.PartSize)
	cs := pbft.NewConsensusState(c, st, nd.Store, nd.Pool)
	if cs == nil {
		return fmt.Errorf("node %d: NewConsensusState failed", nd.Idx)
	}
	cs.SetPrivValidator(pv)
	nd.Ticker = pbft.NewVerifTicker()
	cs.SetTimeoutTicker(nd.Ticker)
	evsw := types.NewEventSwitch()
	evsw.Start()
	app := nd.App
	types.AddListenerForEvent(evsw, "sim", types.EventStringHookNewRound(), func(ed types.TMEventData) {
		ed.(types.EventDataHookNewRound).ResCh <- types.NewRoundResult{}
	})
	types.AddListenerForEvent(evsw, "sim", types.EventStringHookExecute(), func(ed types.TMEventData) {
		d := ed.(types.EventDataHookExecute)
		d.ResCh <- app.onExecute(d.Height, d.Block)
	})
	types.AddListenerForEvent(evsw, "sim", types.EventStringHookCommit(), func(ed types.TMEventData) {
		d := ed.(types.EventDataHookCommit)
		d.ResCh <- app.onCommit(d.Height, d.Block)
	})
	cs.SetEventSwitch(evsw)
	st.SetBlockExecutable(&blockExec{n, nd})
	st.SetBlockVerifier(cs)
	nd.CS, nd.Evsw = cs, evsw
	nd.Timeouts = nil
	replayErr, err := cs.VerifStart()
	if err != nil {
		return fmt.Errorf("node %d: start: %v", nd.Idx, err)
	}
	if replayErr != nil {
		nd.ReplayErrs = append(nd.ReplayErrs, replayErr.Error())
	}
	nd.Up = true
	n.collect(nd)
	return nil
}

// Crash kills a node between two steps: volatile state is dropped.
func (n *Net) Crash(i int) {
	nd := n.Nodes[i]
	if !nd.Real || !nd.Up {
		return
	}
	nd.CS.VerifClose()
	nd.Evsw.Stop()
	nd.CS, nd.Priv, nd.Ticker, nd.Store, nd.Evsw = nil, nil, nil, nil, nil
	nd.Timeouts = nil
	nd.Up = false
	n.trace("crash %d", i)
}

// Restart rebuilds a crashed node from WAL + stores + signer file.
func (n *Net) Restart(i int) error {
	nd := n.Nodes[i]
	if !nd.Real || nd.Up {
		return nil
	}
	nd.Restarts++
	n.trace("restart %d", i)
	err := n.boot(nd)
	if err == nil && n.OnStep != nil {
		n.OnStep(n, i)
	}
	return err
}

// Close releases every node's files.
func (n *Net) Close() {
	for i := range n.Nodes {
		n.Crash(i)
	}
}

func (n *Net) trace(f string, a ...interface{}) {
	if n.KeepTrace {
		n.Trace = append(n.Trace, fmt.Sprintf(f, a...))
	}
}

// collect moves newly scheduled timeouts to the node's pending list.
func (n *Net) collect(nd *Node) {
	nd.Timeouts = append(nd.Timeouts, nd.Ticker.Take()...)
}

func describe(msg pbft.ConsensusMessage) (kind string, h, r int64, block string) {
	switch m := msg.(type) {
	case *pbft.ProposalMessage:
		return "proposal", m.Proposal.Height, m.Proposal.Round, fmt.Sprintf("%X", m.Proposal.BlockPartsHeader.Hash)
	case *pbft.BlockPartMessage:
		return "part", m.Height, m.Round, ""
	case *pbft.VoteMessage:
		k := "prevote"
		if m.Vote.Type == types.VoteTypePrecommit {
			k = "precommit"
		}
		return k, m.Vote.Height, m.Vote.Round, fmt.Sprintf("%X", m.Vote.BlockID.Hash)
	}
	return "other", 0, 0, ""
}

// Publish adds a message to the global pool (it may now be delivered to anyone).
func (n *Net) Publish(from int, byz bool, msg pbft.ConsensusMessage) *Env {
	k, h, r, b := describe(msg)
	e := &Env{ID: len(n.Pool), From: from, Byz: byz, Msg: msg, Kind: k, H: h, R: r, Block: b}
	n.Pool = append(n.Pool, e)
	return e
}

func (n *Net) after(i int) {
	nd := n.Nodes[i]
	n.Steps++
	n.collect(nd)
	if n.OnStep != nil {
		n.OnStep(n, i)
	}
}

// StepInternal lets node i process one of its own queued messages; the message
// becomes visible to the network.
func (n *Net) StepInternal(i int) bool {
	nd := n.Nodes[i]
	if !nd.Up {
		return false
	}
	if nd.CS.VerifInternalLen() == 0 {
		return false
	}
	if n.OnBefore != nil {
		n.OnBefore(n, i)
	}
	msg, ok := nd.CS.VerifStepInternal()
	if !ok {
		return false
	}
	e := n.Publish(i, false, msg)
	nd.Emitted = append(nd.Emitted, e)
	n.Deliv[i][e.ID] = true
	n.trace("int %d %s %d/%d %.8s", i, e.Kind, e.H, e.R, e.Block)
	n.after(i)
	return true
}

// DrainInternal processes node i's internal queue until empty.
func (n *Net) DrainInternal(i int) int {
	c := 0
	for n.StepInternal(i) {
		c++
	}
	return c
}

// Deliver hands pool message id to node i as a peer message.
func (n *Net) Deliver(i, id int) bool {
	nd := n.Nodes[i]
	if !nd.Up || id < 0 || id >= len(n.Pool) {
		return false
	}
	e := n.Pool[id]
	n.Deliv[i][id] = true
	if n.OnBefore != nil {
		n.OnBefore(n, i)
	}
	nd.CS.VerifStepPeer(e.Msg, fmt.Sprintf("peer%d", e.From))
	n.trace("dlv %d<-%d #%d %s %d/%d %.8s", i, e.From, id, e.Kind, e.H, e.R, e.Block)
	n.after(i)
	return true
}

// Fire fires pending timeout k of node i.
func (n *Net) Fire(i, k int) bool {
	nd := n.Nodes[i]
	if !nd.Up || k < 0 || k >= len(nd.Timeouts) {
		return false
	}
	ti := nd.Timeouts[k]
	nd.Timeouts = append(nd.Timeouts[:k:k], nd.Timeouts[k+1:]...)
	if n.OnBefore != nil {
		n.OnBefore(n, i)
	}
	nd.CS.VerifStepTimeout(ti)
	n.trace("tmo %d %d/%d/%v", i, ti.Height, ti.Round, ti.Step)
	n.after(i)
	return true
}

// Height returns the height node i is working on (0 if down).
func (n *Net) Height(i int) int64 {
	nd := n.Nodes[i]
	if !nd.Up {
		return 0
	}
	return nd.CS.VerifRoundState().Height
}

// Undelivered lists pool ids not yet delivered to node i that can still matter
// to it (height >= its current height - 1).
func (n *Net) Undelivered(i int) []int {
	nd := n.Nodes[i]
	if !nd.Up {
		return nil
	}
	h := nd.CS.VerifRoundState().Height
	var out []int
	for _, e := range n.Pool {
		if n.Deliv[i][e.ID] || e.From == i && !e.Byz {
			continue
		}
		if e.H+1 < h {
			continue
		}
		out = append(out, e.ID)
	}
	return out
}

// ---- harness-side signing for nodes whose key the harness holds ----

// ValIndex returns the index of node i in the validator set vs (-1 if absent).
func (n *Net) ValIndex(vs *types.ValidatorSet, i int) int {
	addr := n.Nodes[i].Addr
	for k, v := range vs.Validators {
		if bytes.Equal(v.Address, addr) {
			return k
		}
	}
	return -1
}

// SignVote makes a vote signed with node i's key (no double-sign protection:
// this is the Byzantine / puppet signer).
func (n *Net) SignVote(vs *types.ValidatorSet, i int, h, r int64, typ byte, bid types.BlockID) *types.Vote {
	v := &types.Vote{ValidatorAddress: n.Nodes[i].Addr, ValidatorIndex: n.ValIndex(vs, i), Height: h, Round: r, Type: typ, BlockID: bid}
	v.Signature = n.Keys[i].Sign(types.SignBytes(n.Cfg.ChainID, v))
	return v
}

// SignProposal makes a proposal signed with node i's key.
func (n *Net) SignProposal(i int, h, r int64, psh types.PartSetHeader, polRound int64, polID types.BlockID) *types.Proposal {
	p := types.NewProposal(h, r, psh, polRound, polID)
	p.Signature = n.Keys[i].Sign(types.SignBytes(n.Cfg.ChainID, p))
	return p
}

// Digest is the RoundState digest used by C07/C08: everything the property
// lists (height, round, step, lock, proposal, parts bit-array, votes).
func Digest(cs *pbft.ConsensusState) string {
	rs := cs.VerifRoundState()
	var b bytes.Buffer
	fmt.Fprintf(&b, "H%d R%d S%d LR%d ", rs.Height, rs.Round, rs.Step, rs.LockedRound)
	if rs.LockedBlock != nil {
		fmt.Fprintf(&b, "LB%X ", rs.LockedBlock.Hash())
	}
	if rs.Proposal != nil {
		fmt.Fprintf(&b, "P%d/%d/%X/%d ", rs.Proposal.Height, rs.Proposal.Round, rs.Proposal.BlockPartsHeader.Hash, rs.Proposal.POLRound)
	}
	if rs.ProposalBlockParts != nil {
		fmt.Fprintf(&b, "PP%X:%v ", rs.ProposalBlockParts.Header().Hash, rs.ProposalBlockParts.BitArray())
	}
	if rs.ProposalBlock != nil {
		fmt.Fprintf(&b, "PB%X ", rs.ProposalBlock.Hash())
	}
	fmt.Fprintf(&b, "CR%d ", rs.CommitRound)
	if rs.Votes != nil {
		for r := int64(0); r <= rs.Votes.Round(); r++ {
			if pv := rs.Votes.Prevotes(r); pv != nil {
				id, ok := pv.TwoThirdsMajority()
				fmt.Fprintf(&b, "pv%d:%v:%v:%X ", r, pv.BitArray(), ok, id.Hash)
			}
			if pc := rs.Votes.Precommits(r); pc != nil {
				id, ok := pc.TwoThirdsMajority()
				fmt.Fprintf(&b, "pc%d:%v:%v:%X ", r, pc.BitArray(), ok, id.Hash)
			}
		}
	}
	if rs.LastCommit != nil {
		fmt.Fprintf(&b, "LC%v ", rs.LastCommit.BitArray())
	}
	return b.String()
}

// RemoveAll removes a scratch directory.
func RemoveAll(dir string) { os.RemoveAll(dir) }
