package sim

import (
	"fmt"
	"io"
	"io/ioutil"
	"os"
	"path/filepath"
	"sync"

	dbm "github.com/dappledger/AnnChain/gemmill/modules/go-db"
)

// DiskDB is the in-memory "disk" of a simulated node: a dbm.DB that can be
// cloned (snapshot of the durable state at a crash point).
type DiskDB struct {
	mtx sync.Mutex
	m   map[string][]byte
}

func NewDiskDB() *DiskDB { return &DiskDB{m: map[string][]byte{}} }

func (d *DiskDB) Get(k []byte) []byte {
	d.mtx.Lock()
	defer d.mtx.Unlock()
	return d.m[string(k)]
}
func (d *DiskDB) Set(k, v []byte) {
	d.mtx.Lock()
	d.m[string(k)] = append([]byte(nil), v...)
	d.mtx.Unlock()
}
func (d *DiskDB) SetSync(k, v []byte) { d.Set(k, v) }
func (d *DiskDB) Delete(k []byte) {
	d.mtx.Lock()
	delete(d.m, string(k))
	d.mtx.Unlock()
}
func (d *DiskDB) DeleteSync(k []byte)    { d.Delete(k) }
func (d *DiskDB) Close()                 {}
func (d *DiskDB) Print()                 {}
func (d *DiskDB) Iterator() dbm.Iterator { return nil }
func (d *DiskDB) NewBatch() dbm.Batch    { return &diskBatch{d: d} }

// Clone returns an independent copy.
func (d *DiskDB) Clone() *DiskDB {
	d.mtx.Lock()
	defer d.mtx.Unlock()
	c := NewDiskDB()
	for k, v := range d.m {
		c.m[k] = v // values are never mutated in place
	}
	return c
}

type diskBatch struct {
	d   *DiskDB
	ops []func()
}

func (b *diskBatch) Set(k, v []byte) {
	k2, v2 := append([]byte(nil), k...), append([]byte(nil), v...)
	b.ops = append(b.ops, func() { b.d.Set(k2, v2) })
}
func (b *diskBatch) Delete(k []byte) {
	k2 := append([]byte(nil), k...)
	b.ops = append(b.ops, func() { b.d.Delete(k2) })
}
func (b *diskBatch) Write() {
	for _, f := range b.ops {
		f()
	}
}

func copyFile(src, dst string) error {
	in, err := os.Open(src)
	if err != nil {
		return err
	}
	defer in.Close()
	out, err := os.Create(dst)
	if err != nil {
		return err
	}
	defer out.Close()
	_, err = io.Copy(out, in)
	return err
}

func copyDir(src, dst string) error {
	os.MkdirAll(dst, 0755)
	fis, err := ioutil.ReadDir(src)
	if err != nil {
		return err
	}
	for _, fi := range fis {
		if fi.IsDir() {
			continue
		}
		if err := copyFile(filepath.Join(src, fi.Name()), filepath.Join(dst, fi.Name())); err != nil {
			return err
		}
	}
	return nil
}

// Snapshot copies node i's durable artefacts (WAL files, signer file, stores,
// application record) into dir and returns a detached Node built on the copy.
// The node is not started; call BootDetached.
func (n *Net) Snapshot(i int, dir string) (*Node, error) {
	src := n.Nodes[i]
	if !src.Real {
		return nil, fmt.Errorf("node %d is not real", i)
	}
	return n.SnapshotNode(src, dir)
}

// SnapshotNode is Snapshot for any node object (also a detached one).
func (n *Net) SnapshotNode(src *Node, dir string) (*Node, error) {
	i := src.Idx
	nd := &Node{Idx: i, Real: true, Key: src.Key, Addr: src.Addr, Shown: map[int64]Commit{}}
	nd.SignFile = filepath.Join(dir, "priv.json")
	nd.WALDir = filepath.Join(dir, "wal")
	if err := copyFile(src.SignFile, nd.SignFile); err != nil {
		return nil, err
	}
	if err := copyDir(src.WALDir, nd.WALDir); err != nil {
		return nil, err
	}
	nd.StateDB = src.StateDB.(*DiskDB).Clone()
	nd.BlockDB = src.BlockDB.(*DiskDB).Clone()
	app := *src.App
	app.History = append([]AppRecord(nil), src.App.History...)
	app.Anomalies = nil
	nd.App = &app
	nd.Pool = &MockPool{node: i, TxsPer: src.Pool.TxsPer, TxBytes: src.Pool.TxBytes, counter: src.Pool.counter}
	return nd, nil
}

// BootDetached starts a node built by Snapshot (WAL replay included).
func (n *Net) BootDetached(nd *Node) error { return n.boot(nd) }

// CloseDetached releases a detached node's files.
func (n *Net) CloseDetached(nd *Node) {
	if nd.Up {
		nd.CS.VerifClose()
		nd.Evsw.Stop()
		nd.Up = false
	}
}
