package sim

import (
	"bytes"
	"fmt"
	"sort"

	"github.com/dappledger/AnnChain/gemmill/consensus/pbft"
	crypto "github.com/dappledger/AnnChain/gemmill/go-crypto"
	wire "github.com/dappledger/AnnChain/gemmill/go-wire"
	"github.com/dappledger/AnnChain/gemmill/types"
)

// Scripted attack templates, parameterised by the adversary's PRNG. They only
// use what a real network adversary controls: which messages reach whom and
// when, when timeouts fire, what the Byzantine keys sign, which honest node
// crashes. All judging is left to the monitors installed in Net.OnStep.

// Honest returns the indices of real validator nodes that are up.
func (a *Adversary) Honest() []int {
	var out []int
	for _, nd := range a.N.Nodes {
		if nd.Real && nd.Up && a.N.Cfg.Powers[nd.Idx] > 0 {
			out = append(out, nd.Idx)
		}
	}
	return out
}

// DeliverMatching delivers to node i every not yet delivered pool message for
// which f is true (pool order), draining i's internal queue after each.
func (n *Net) DeliverMatching(i int, f func(e *Env) bool) int {
	c := 0
	for id := 0; id < len(n.Pool); id++ {
		e := n.Pool[id]
		if n.Deliv[i][id] || (e.From == i && !e.Byz) || !f(e) {
			continue
		}
		if !n.Nodes[i].Up {
			return c
		}
		n.Deliver(i, id)
		n.DrainInternal(i)
		c++
	}
	return c
}

// FireStep fires node i's most recent pending timeout of the given step at its current height.
func (n *Net) FireStep(i int, step pbft.RoundStepType) bool {
	nd := n.Nodes[i]
	if !nd.Up {
		return false
	}
	h := nd.CS.VerifRoundState().Height
	for k := len(nd.Timeouts) - 1; k >= 0; k-- {
		if nd.Timeouts[k].Step == step && nd.Timeouts[k].Height == h {
			n.Fire(i, k)
			n.DrainInternal(i)
			return true
		}
	}
	return false
}

func (a *Adversary) nodeByAddr(addr []byte) int {
	for _, nd := range a.N.Nodes {
		if bytes.Equal(nd.Addr, addr) {
			return nd.Idx
		}
	}
	return -1
}

func (a *Adversary) isByz(i int) bool {
	for _, b := range a.Byz {
		if b == i {
			return true
		}
	}
	return false
}

// syncNewHeight lets the network finish (fairly) until every honest node works
// on the same height and returns that height and a reference node.
func (a *Adversary) syncNewHeight(maxSteps int) (int64, *Node, bool) {
	hon := a.Honest()
	if len(hon) == 0 {
		return 0, nil, false
	}
	var maxH int64
	for _, i := range hon {
		if h := a.N.Height(i); h > maxH {
			maxH = h
		}
	}
	if _, ok := a.FairSuffix(maxH-1, maxSteps); !ok {
		return 0, nil, false
	}
	for _, i := range a.Honest() {
		if a.N.Height(i) != maxH {
			// somebody ran ahead while the others finished: try once more from the new maximum
			return a.syncNewHeight(maxSteps / 2)
		}
	}
	return maxH, a.N.Nodes[a.Honest()[0]], true
}

func (a *Adversary) publishProposal(b int, h, r int64, parts *types.PartSet, polR int64, polID types.BlockID) {
	p := a.N.SignProposal(b, h, r, parts.Header(), polR, polID)
	a.N.Publish(b, true, &pbft.ProposalMessage{Proposal: p})
	for i := 0; i < parts.Total(); i++ {
		a.N.Publish(b, true, &pbft.BlockPartMessage{Height: h, Round: r, Part: parts.GetPart(i)})
	}
	a.ByzProposals++
	a.track()
}

func (a *Adversary) byzVotes(vs *types.ValidatorSet, h, r int64, typ byte, bid types.BlockID) {
	for _, b := range a.Byz {
		if a.N.ValIndex(vs, b) < 0 {
			continue
		}
		v := a.N.SignVote(vs, b, h, r, typ, bid)
		if a.Relabel {
			// the same signed vote (own address, own signature: neither field is covered by the sign
			// bytes) under the index of every other validator, and never under its own
			for k := 0; k < vs.Size(); k++ {
				if k != v.ValidatorIndex {
					c := *v
					c.ValidatorIndex = k
					a.N.Publish(b, true, &pbft.VoteMessage{Vote: &c})
					a.Relabelled++
				}
			}
			continue // and never under its own index
		}
		a.N.Publish(b, true, &pbft.VoteMessage{Vote: v})
		a.ByzVotes++
	}
}

func blockHex(id types.BlockID) string { return fmt.Sprintf("%X", id.Hash) }

// AttackEquivocation: a Byzantine proposer signs two blocks for one round and
// shows each to one half of the honest nodes, backing each half with its own
// (conflicting) prevotes and precommits. Returns whether the attack could be staged.
func (a *Adversary) AttackEquivocation(maxHeights int) bool {
	n := a.N
	for att := 0; att < maxHeights; att++ {
		h, ref, ok := a.syncNewHeight(8000)
		if !ok {
			return false
		}
		hon := a.Honest()
		for _, i := range hon {
			n.FireStep(i, pbft.RoundStepNewHeight)
		}
		rs := ref.CS.VerifRoundState()
		if rs.Height != h || rs.Round != 0 {
			continue
		}
		vs := rs.Validators
		p := a.nodeByAddr(vs.Proposer().Address)
		if p < 0 || !a.isByz(p) {
			if _, ok := a.FairSuffix(h, 8000); !ok {
				return false
			}
			continue
		}
		bx, px := a.MakeBlock(ref, p, []types.Tx{types.Tx(fmt.Sprintf("eqv-X-%d", h))})
		by, py := a.MakeBlock(ref, p, []types.Tx{types.Tx(fmt.Sprintf("eqv-Y-%d", h))})
		if bx == nil || by == nil {
			return false
		}
		X := types.BlockID{Hash: bx.Hash(), PartsHeader: px.Header()}
		Y := types.BlockID{Hash: by.Hash(), PartsHeader: py.Header()}
		a.publishProposal(p, h, 0, px, -1, types.BlockID{})
		a.publishProposal(p, h, 0, py, -1, types.BlockID{})
		// split the honest nodes
		grp := map[int]int{}
		for _, i := range hon {
			grp[i] = a.Rng.Intn(2)
		}
		grp[hon[a.Rng.Intn(len(hon))]] = 0
		want := func(i int) (types.BlockID, string) {
			if grp[i] == 0 {
				return X, fmt.Sprintf("%X", px.Header().Hash)
			}
			return Y, fmt.Sprintf("%X", py.Header().Hash)
		}
		partsOf := map[string]*types.PartSet{fmt.Sprintf("%X", px.Header().Hash): px, fmt.Sprintf("%X", py.Header().Hash): py}
		for _, i := range hon {
			_, ph := want(i)
			ps := partsOf[ph]
			n.DeliverMatching(i, func(e *Env) bool {
				if !e.Byz || e.H != h || e.R != 0 {
					return false
				}
				if e.Kind == "proposal" {
					return e.Block == ph
				}
				if e.Kind == "part" {
					m := e.Msg.(*pbft.BlockPartMessage)
					g := ps.GetPart(m.Part.Index)
					return g != nil && bytes.Equal(g.Hash(), m.Part.Hash())
				}
				return false
			})
		}
		for _, typ := range []byte{types.VoteTypePrevote, types.VoteTypePrecommit} {
			kind := "prevote"
			if typ == types.VoteTypePrecommit {
				kind = "precommit"
			}
			a.byzVotes(vs, h, 0, typ, X)
			a.byzVotes(vs, h, 0, typ, Y)
			for round := 0; round < 2; round++ {
				for _, i := range a.Rng.Perm(len(hon)) {
					node := hon[i]
					bid, _ := want(node)
					n.DeliverMatching(node, func(e *Env) bool {
						if e.H != h || e.R != 0 || e.Kind != kind {
							return false
						}
						if e.Byz {
							return e.Block == blockHex(bid)
						}
						return grp[e.From] == grp[node]
					})
				}
			}
		}
		// heal
		a.FairSuffix(h, 8000)
		return true
	}
	return false
}

// AttackLockAmnesia: all honest validators lock and precommit X in round 0; one
// of them sees +2/3 precommits and commits; the others only see enough
// precommits to move on to round 1 (optionally crashing and restarting on the
// way), where Byzantine validators push a different block Y.
func (a *Adversary) AttackLockAmnesia(crash bool) bool {
	n := a.N
	h, ref, ok := a.syncNewHeight(8000)
	if !ok {
		return false
	}
	hon := a.Honest()
	if len(hon) < 2 {
		return false
	}
	for _, i := range hon {
		n.FireStep(i, pbft.RoundStepNewHeight)
	}
	rs := ref.CS.VerifRoundState()
	if rs.Height != h || rs.Round != 0 {
		return false
	}
	vs := rs.Validators.Copy()
	total := vs.TotalVotingPower()
	p := a.nodeByAddr(vs.Proposer().Address)
	if p >= 0 && a.isByz(p) {
		_, px := a.MakeBlock(ref, p, []types.Tx{types.Tx(fmt.Sprintf("amn-X-%d", h))})
		if px == nil {
			return false
		}
		a.publishProposal(p, h, 0, px, -1, types.BlockID{})
	}
	a.track()
	// in half of the runs a message every honest node rejects reaches them first (a round-0 proposal
	// signed by a Byzantine validator that is not the proposer, or with a damaged signature if it is),
	// so that their WALs hold a rejected peer message ahead of everything that makes them lock
	rejectedFirst := false
	if len(a.Byz) > 0 && a.Rng.Intn(2) == 0 {
		z := a.Byz[a.Rng.Intn(len(a.Byz))]
		if _, junk := a.MakeBlock(ref, z, []types.Tx{types.Tx(fmt.Sprintf("amn-junk-%d", h))}); junk != nil {
			pj := n.SignProposal(z, h, 0, junk.Header(), -1, types.BlockID{})
			if sig, ok := pj.Signature.(crypto.SignatureEd25519); ok && z == p {
				sig[7] ^= 0x10
				pj.Signature = sig
			}
			n.Publish(z, true, &pbft.ProposalMessage{Proposal: pj})
			for _, i := range hon {
				n.DeliverMatching(i, func(e *Env) bool {
					m, ok := e.Msg.(*pbft.ProposalMessage)
					return ok && m.Proposal == pj
				})
			}
			a.RejectedFirst++
			rejectedFirst = true
		}
	}
	// round 0: proposal, parts and prevotes reach every honest node
	for pass := 0; pass < 3; pass++ {
		for _, i := range hon {
			n.DeliverMatching(i, func(e *Env) bool {
				return e.H == h && e.R == 0 && (e.Kind == "proposal" || e.Kind == "part" || (e.Kind == "prevote" && !e.Byz))
			})
		}
	}
	a.track()
	// which block did they lock?
	var X types.BlockID
	locked := 0
	for _, i := range hon {
		r := n.Nodes[i].CS.VerifRoundState()
		if r.Height == h && r.LockedBlock != nil {
			X = types.BlockID{Hash: r.LockedBlock.Hash(), PartsHeader: r.LockedBlockParts.Header()}
			locked++
		}
	}
	if locked == 0 {
		a.FairSuffix(h, 8000)
		return false
	}
	// committer A gets every honest precommit (+ Byzantine precommits for X)
	A := hon[a.Rng.Intn(len(hon))]
	a.byzVotes(vs, h, 0, types.VoteTypePrecommit, X)
	a.byzVotes(vs, h, 0, types.VoteTypePrecommit, types.BlockID{})
	n.DeliverMatching(A, func(e *Env) bool {
		return e.H == h && e.R == 0 && e.Kind == "precommit" && (!e.Byz || e.Block == blockHex(X))
	})
	// the others: Byzantine nil precommits first, then honest precommits for X
	// while X stays at or below 2/3, until any-power exceeds 2/3
	power := func(i int) int64 {
		if k := n.ValIndex(vs, i); k >= 0 {
			return vs.Validators[k].VotingPower
		}
		return 0
	}
	var others []int
	for _, i := range hon {
		if i != A {
			others = append(others, i)
		}
	}
	for _, B := range others {
		var anyP, xP int64
		anyP = power(B)
		xP = power(B)
		n.DeliverMatching(B, func(e *Env) bool {
			if e.H != h || e.R != 0 || e.Kind != "precommit" {
				return false
			}
			if e.Byz {
				if e.Block != "" {
					return false
				}
				anyP += power(e.From)
				return true
			}
			if anyP*3 > total*2 {
				return false
			}
			if (xP+power(e.From))*3 > total*2 {
				return false
			}
			xP += power(e.From)
			anyP += power(e.From)
			return true
		})
	}
	// move the others to round 1 (optionally through a crash); in the late variant they crash
	// only after they have signed something in round 1, so that the signer refuses to sign
	// the locking precommit again while the WAL is replayed
	late := crash && a.Rng.Intn(2) == 0 && !rejectedFirst
	for _, B := range others {
		// (with a rejected message at the head of their WALs every locked node restarts early, and the
		// Byzantine validators second what they prevote afterwards)
		if crash && !late && (rejectedFirst || a.Rng.Float64() < 0.6) {
			n.Crash(B)
			a.Crashes++
			if err := n.Restart(B); err != nil {
				panic(fmt.Sprintf("restart failed: %v", err))
			}
			n.DrainInternal(B)
			// the precommits the partition let through before the crash reach the restarted node
			// again (its peers send whatever it lacks): a node that replayed its WAL completely
			// drops them as duplicates, one that lost part of the height moves on to round 1 as
			// before the crash - the adversary keeps the round-0 proposal and prevotes away from it
			var again []int
			for id, d := range n.Deliv[B] {
				if d && n.Pool[id].H == h && n.Pool[id].R == 0 && n.Pool[id].Kind == "precommit" {
					again = append(again, id)
				}
			}
			sort.Ints(again)
			for _, id := range again {
				if n.Nodes[B].Up {
					n.Deliver(B, id)
					n.DrainInternal(B)
				}
			}
		}
		n.FireStep(B, pbft.RoundStepPrecommitWait)
	}
	// round 1: Byzantine validators push Y
	var r1 *Node
	for _, B := range others {
		if r := n.Nodes[B].CS.VerifRoundState(); r.Height == h && r.Round == 1 {
			r1 = n.Nodes[B]
		}
	}
	if r1 != nil && len(a.Byz) > 0 {
		vs1 := r1.CS.VerifRoundState().Validators
		p1 := a.nodeByAddr(vs1.Proposer().Address)
		pb := a.Byz[0]
		if p1 >= 0 && a.isByz(p1) {
			pb = p1
		}
		by, py := a.MakeBlock(r1, pb, []types.Tx{types.Tx(fmt.Sprintf("amn-Y-%d", h))})
		if by != nil {
			Y := types.BlockID{Hash: by.Hash(), PartsHeader: py.Header()}
			a.publishProposal(pb, h, 1, py, -1, types.BlockID{})
			a.byzVotes(vs1, h, 1, types.VoteTypePrevote, Y)
			a.byzVotes(vs1, h, 1, types.VoteTypePrecommit, Y)
			for pass := 0; pass < 3; pass++ {
				for _, B := range others {
					n.DeliverMatching(B, func(e *Env) bool { return e.H == h && e.R == 1 })
					n.FireStep(B, pbft.RoundStepPropose)
				}
			}
		}
	}
	if late {
		for _, B := range others {
			if !n.Nodes[B].Up {
				continue
			}
			n.Crash(B)
			a.Crashes++
			if err := n.Restart(B); err != nil {
				panic(fmt.Sprintf("restart failed: %v", err))
			}
			n.DrainInternal(B)
		}
		a.LateCrashes++
	}
	// after any crash (early or late) of the locked nodes, in half of the early runs and all late ones:
	if late || (crash && (rejectedFirst || a.Rng.Intn(2) == 0)) {
		// the partition stays: nothing from the committer A, and no round-0 precommit for X that
		// an honest validator has not seen yet, reaches the others; the Byzantine validators
		// second whatever other block an honest validator prevotes at this height (prevote
		// and precommit, once per round and block)
		isOther := map[int]bool{}
		seen := map[int]map[int]bool{}
		for _, B := range others {
			isOther[B] = true
			seen[B] = map[int]bool{}
			for id, d := range n.Deliv[B] {
				if d {
					seen[B][id] = true
				}
			}
		}
		a.Withhold = func(e *Env, to int) bool {
			if !isOther[to] || e.H != h {
				return false
			}
			if e.From == A && !e.Byz {
				return true
			}
			return e.R == 0 && e.Kind == "precommit" && e.Block == blockHex(X) && !seen[to][e.ID]
		}
		defer func() { a.Withhold = nil }()
		echoed := map[string]bool{}
		for chunk := 0; chunk < 250; chunk++ {
			done := true
			for _, B := range others {
				if n.Nodes[B].Store.Height() < h {
					done = false
				}
			}
			if done {
				break
			}
			a.FairSuffix(h, 40)
			for _, e := range n.Pool {
				if e.H != h || e.Byz || e.Kind != "prevote" || e.Block == "" || e.Block == blockHex(X) {
					continue
				}
				vm, ok := e.Msg.(*pbft.VoteMessage)
				if !ok || vm.Vote == nil {
					continue
				}
				key := fmt.Sprintf("%d/%X", e.R, vm.Vote.BlockID.Hash)
				if echoed[key] {
					continue
				}
				echoed[key] = true
				a.byzVotes(vs, h, e.R, types.VoteTypePrevote, vm.Vote.BlockID)
				a.byzVotes(vs, h, e.R, types.VoteTypePrecommit, vm.Vote.BlockID)
			}
		}
		return true
	}
	a.FairSuffix(h, 8000)
	return true
}

// AttackBadBlock waits (fairly) for a height whose round-0 proposer is
// Byzantine, lets mut alter an otherwise well-formed block, publishes the signed
// proposal and parts together with Byzantine prevotes and precommits for it, and
// then lets the network run fairly. mut returns false if it cannot apply.
func (a *Adversary) AttackBadBlock(maxHeights int, mut func(b *types.Block, ref *Node) bool) (staged bool, height int64, id types.BlockID) {
	n := a.N
	for att := 0; att < maxHeights; att++ {
		h, ref, ok := a.syncNewHeight(8000)
		if !ok {
			return false, 0, id
		}
		hon := a.Honest()
		for _, i := range hon {
			n.FireStep(i, pbft.RoundStepNewHeight)
		}
		rs := ref.CS.VerifRoundState()
		if rs.Height != h || rs.Round != 0 {
			continue
		}
		vs := rs.Validators
		p := a.nodeByAddr(vs.Proposer().Address)
		if p < 0 || !a.isByz(p) {
			if _, ok := a.FairSuffix(h, 8000); !ok {
				return false, 0, id
			}
			continue
		}
		b, _ := a.MakeBlock(ref, p, []types.Tx{types.Tx(fmt.Sprintf("bad-%d", h)), types.Tx(fmt.Sprintf("bad2-%d", h))})
		if b == nil {
			return false, 0, id
		}
		if !mut(b, ref) {
			a.FairSuffix(h, 8000)
			continue
		}
		var parts *types.PartSet
		func() {
			defer func() {
				if r := recover(); r != nil {
					parts = nil
				}
			}()
			parts = b.MakePartSet(n.Cfg.PartSize)
		}()
		if parts == nil || b.Hash() == nil {
			a.FairSuffix(h, 8000)
			continue
		}
		id = types.BlockID{Hash: b.Hash(), PartsHeader: parts.Header()}
		a.publishProposal(p, h, 0, parts, -1, types.BlockID{})
		a.byzVotes(vs, h, 0, types.VoteTypePrevote, id)
		a.byzVotes(vs, h, 0, types.VoteTypePrecommit, id)
		a.FairSuffix(h, 8000)
		return true, h, id
	}
	return false, 0, id
}

// AttackSplitLocks stages, with one Byzantine validator Z among four equal ones,
// two honest validators locked on different blocks in different rounds:
// round 0: A sees the polka for X and locks it, the others only see +2/3 of
// anything (Z prevotes nil) and precommit nil; round 1: a new block X' is
// proposed, Z's prevote for X' reaches only B, which locks X'; everybody moves on
// to round 2, and only then the round-1 polka for X' reaches A (a polka from a
// round that A has already left, later than its lock). Returns whether the
// situation could be staged. Progress afterwards needs A to give up its lock.
func (a *Adversary) AttackSplitLocks() bool {
	n := a.N
	if len(a.Byz) != 1 {
		return false
	}
	Z := a.Byz[0]
	h, ref, ok := a.syncNewHeight(8000)
	if !ok {
		return false
	}
	hon := a.Honest()
	if len(hon) != 3 {
		return false
	}
	for _, i := range hon {
		n.FireStep(i, pbft.RoundStepNewHeight)
	}
	rs := ref.CS.VerifRoundState()
	if rs.Height != h || rs.Round != 0 {
		return false
	}
	vs := rs.Validators.Copy()
	if vs.Size() != 4 || n.ValIndex(vs, Z) < 0 {
		return false
	}
	for _, v := range vs.Validators {
		if v.VotingPower != vs.Validators[0].VotingPower {
			return false
		}
	}
	p0 := a.nodeByAddr(vs.Proposer().Address)
	vs1 := vs.Copy()
	vs1.IncrementAccum(1)
	p1 := a.nodeByAddr(vs1.Proposer().Address)
	if p0 == Z {
		_, px := a.MakeBlock(ref, Z, []types.Tx{types.Tx(fmt.Sprintf("split-X-%d", h))})
		if px == nil {
			return false
		}
		a.publishProposal(Z, h, 0, px, -1, types.BlockID{})
	}
	a.track()
	// A: an honest validator that does not propose in round 1; B: the honest one that will lock X'
	var A, B, C = -1, -1, -1
	for _, i := range hon {
		if i != p1 && A < 0 {
			A = i
		}
	}
	for _, i := range hon {
		if i == A {
			continue
		}
		if B < 0 && (p1 == Z || i == p1) {
			B = i
		} else if C < 0 {
			C = i
		}
	}
	if A < 0 || B < 0 || C < 0 {
		return false
	}
	others := []int{B, C}
	// round 0: proposal and parts to every honest node; they prevote X
	for pass := 0; pass < 3; pass++ {
		for _, i := range hon {
			n.DeliverMatching(i, func(e *Env) bool { return e.H == h && e.R == 0 && (e.Kind == "proposal" || e.Kind == "part") })
		}
	}
	nilID := types.BlockID{}
	n.Publish(Z, true, &pbft.VoteMessage{Vote: n.SignVote(vs, Z, h, 0, types.VoteTypePrevote, nilID)})
	// A sees every honest prevote: polka, lock
	n.DeliverMatching(A, func(e *Env) bool { return e.H == h && e.R == 0 && e.Kind == "prevote" && !e.Byz })
	ra := n.Nodes[A].CS.VerifRoundState()
	if ra.LockedBlock == nil || ra.LockedRound != 0 {
		a.FairSuffix(h, 8000)
		return false
	}
	X := ra.LockedBlock.Hash()
	// the others see each other's prevotes and Z's nil: +2/3 of anything, no polka
	for _, i := range others {
		n.DeliverMatching(i, func(e *Env) bool { return e.H == h && e.R == 0 && e.Kind == "prevote" && e.From != A })
		n.FireStep(i, pbft.RoundStepPrevoteWait)
	}
	n.Publish(Z, true, &pbft.VoteMessage{Vote: n.SignVote(vs, Z, h, 0, types.VoteTypePrecommit, nilID)})
	for _, i := range hon {
		n.DeliverMatching(i, func(e *Env) bool { return e.H == h && e.R == 0 && e.Kind == "precommit" })
		n.FireStep(i, pbft.RoundStepPrecommitWait)
	}
	for _, i := range hon {
		if r := n.Nodes[i].CS.VerifRoundState(); r.Height != h || r.Round != 1 {
			a.FairSuffix(h, 8000)
			return false
		}
	}
	// round 1: X' (by the honest proposer B, or by Z)
	if p1 == Z {
		_, py := a.MakeBlock(n.Nodes[B], Z, []types.Tx{types.Tx(fmt.Sprintf("split-Y-%d", h))})
		if py == nil {
			a.FairSuffix(h, 8000)
			return false
		}
		a.publishProposal(Z, h, 1, py, -1, types.BlockID{})
	}
	for pass := 0; pass < 3; pass++ {
		for _, i := range hon {
			n.DeliverMatching(i, func(e *Env) bool { return e.H == h && e.R == 1 && (e.Kind == "proposal" || e.Kind == "part") })
		}
	}
	rb := n.Nodes[B].CS.VerifRoundState()
	if rb.ProposalBlock == nil || bytes.Equal(rb.ProposalBlock.Hash(), X) {
		a.FairSuffix(h, 8000)
		return false
	}
	Y := types.BlockID{Hash: rb.ProposalBlock.Hash(), PartsHeader: rb.ProposalBlockParts.Header()}
	zPrevote := n.Publish(Z, true, &pbft.VoteMessage{Vote: n.SignVote(vs1, Z, h, 1, types.VoteTypePrevote, Y)})
	// B: C's and Z's prevotes for X' -> polka, lock in round 1
	n.DeliverMatching(B, func(e *Env) bool {
		return e.H == h && e.R == 1 && e.Kind == "prevote" && (e.From == C || e.ID == zPrevote.ID)
	})
	// A and C: the three honest prevotes (X, X', X'): +2/3 of anything, no polka
	for _, i := range []int{A, C} {
		n.DeliverMatching(i, func(e *Env) bool { return e.H == h && e.R == 1 && e.Kind == "prevote" && !e.Byz })
		n.FireStep(i, pbft.RoundStepPrevoteWait)
	}
	rb = n.Nodes[B].CS.VerifRoundState()
	ra = n.Nodes[A].CS.VerifRoundState()
	if rb.LockedBlock == nil || rb.LockedRound != 1 || !bytes.Equal(rb.LockedBlock.Hash(), Y.Hash) || ra.LockedBlock == nil || !bytes.Equal(ra.LockedBlock.Hash(), X) {
		a.FairSuffix(h, 8000)
		return false
	}
	n.Publish(Z, true, &pbft.VoteMessage{Vote: n.SignVote(vs1, Z, h, 1, types.VoteTypePrecommit, nilID)})
	for _, i := range hon {
		n.DeliverMatching(i, func(e *Env) bool { return e.H == h && e.R == 1 && e.Kind == "precommit" })
		n.FireStep(i, pbft.RoundStepPrecommitWait)
	}
	ra = n.Nodes[A].CS.VerifRoundState()
	if ra.Height != h || ra.Round < 2 || ra.LockedBlock == nil {
		a.FairSuffix(h, 8000)
		return false
	}
	// only now the round-1 polka for X' reaches A
	n.DeliverMatching(A, func(e *Env) bool { return e.ID == zPrevote.ID })
	a.track()
	return true
}

// AttackStalePolka stages, with one Byzantine validator Z among four equal ones: H1 locks A in
// round 0 (only H1 sees Z's prevote for A; H3 prevoted nil), H2 and H3 lock B in round 1 and H2
// commits B (only H2 sees Z's precommit), H1 and H3 move on to round 2; only then Z's round-0
// prevote for A reaches H3 - a polka from a round EARLIER than H3's lock - and A is proposed
// again in round 2 with Z voting for it. H3 must keep its lock on B; if it gives it up, H1 and H3
// commit A while H2 has committed B. Returns whether the situation could be staged.
func (a *Adversary) AttackStalePolka() bool {
	n := a.N
	if len(a.Byz) != 1 {
		return false
	}
	Z := a.Byz[0]
	h, ref, ok := a.syncNewHeight(8000)
	if !ok {
		return false
	}
	hon := a.Honest()
	if len(hon) != 3 {
		return false
	}
	for _, i := range hon {
		n.FireStep(i, pbft.RoundStepNewHeight)
	}
	rs := ref.CS.VerifRoundState()
	if rs.Height != h || rs.Round != 0 {
		return false
	}
	vs := rs.Validators.Copy()
	if vs.Size() != 4 || n.ValIndex(vs, Z) < 0 {
		return false
	}
	for _, v := range vs.Validators {
		if v.VotingPower != vs.Validators[0].VotingPower {
			return false
		}
	}
	prop := func(k int64) int {
		c := vs.Copy()
		if k > 0 {
			c.IncrementAccum(k)
		}
		return a.nodeByAddr(c.Proposer().Address)
	}
	p0, p1, p2 := prop(0), prop(1), prop(2)
	H1, H2, H3 := -1, -1, -1
	for _, x := range hon {
		for _, y := range hon {
			for _, z := range hon {
				if H1 >= 0 || x == y || y == z || x == z || x == p1 || z == p0 || !(p2 == Z || p2 == x) {
					continue
				}
				H1, H2, H3 = x, y, z
			}
		}
	}
	if H1 < 0 {
		return false
	}
	fail := func() bool { a.FairSuffix(h, 8000); return false }
	nilID := types.BlockID{}
	vote := func(typ byte, r int64, id types.BlockID) *Env {
		a.ByzVotes++
		return n.Publish(Z, true, &pbft.VoteMessage{Vote: n.SignVote(vs, Z, h, r, typ, id)})
	}
	from := func(kind string, r int64, senders ...int) func(e *Env) bool {
		return func(e *Env) bool {
			if e.H != h || e.R != r || e.Kind != kind || e.Byz {
				return false
			}
			for _, s := range senders {
				if e.From == s {
					return true
				}
			}
			return false
		}
	}
	one := func(x *Env) func(e *Env) bool { return func(e *Env) bool { return e.ID == x.ID } }
	propAndParts := func(r int64) func(e *Env) bool {
		return func(e *Env) bool { return e.H == h && e.R == r && (e.Kind == "proposal" || e.Kind == "part") }
	}
	at := func(i int, r int64) bool {
		s := n.Nodes[i].CS.VerifRoundState()
		return s.Height == h && s.Round == r
	}
	lockedOn := func(i int, r int64, hash []byte) bool {
		s := n.Nodes[i].CS.VerifRoundState()
		return s.LockedBlock != nil && s.LockedRound == r && bytes.Equal(s.LockedBlock.Hash(), hash)
	}
	// ---- round 0
	if p0 == Z {
		_, px := a.MakeBlock(ref, Z, []types.Tx{types.Tx(fmt.Sprintf("stale-A-%d", h))})
		if px == nil {
			return false
		}
		a.publishProposal(Z, h, 0, px, -1, types.BlockID{})
	}
	n.FireStep(H3, pbft.RoundStepPropose) // H3 gives up waiting: prevotes nil
	for pass := 0; pass < 3; pass++ {
		n.DeliverMatching(H1, propAndParts(0))
		n.DeliverMatching(H2, propAndParts(0))
	}
	r1s := n.Nodes[H1].CS.VerifRoundState()
	if r1s.ProposalBlock == nil || r1s.ProposalBlockParts == nil || !r1s.ProposalBlockParts.IsComplete() {
		return fail()
	}
	A := types.BlockID{Hash: r1s.ProposalBlock.Hash(), PartsHeader: r1s.ProposalBlockParts.Header()}
	partsA := r1s.ProposalBlockParts
	zPV0 := vote(types.VoteTypePrevote, 0, A)
	n.DeliverMatching(H1, from("prevote", 0, H2))
	n.DeliverMatching(H1, one(zPV0))
	n.DeliverMatching(H2, from("prevote", 0, H1, H3))
	n.FireStep(H2, pbft.RoundStepPrevoteWait)
	n.DeliverMatching(H3, from("prevote", 0, H1, H2))
	n.FireStep(H3, pbft.RoundStepPrevoteWait)
	if !lockedOn(H1, 0, A.Hash) || n.Nodes[H2].CS.VerifRoundState().LockedBlock != nil || n.Nodes[H3].CS.VerifRoundState().LockedBlock != nil {
		return fail()
	}
	vote(types.VoteTypePrecommit, 0, nilID)
	for _, i := range hon {
		n.DeliverMatching(i, func(e *Env) bool { return e.H == h && e.R == 0 && e.Kind == "precommit" })
		n.FireStep(i, pbft.RoundStepPrecommitWait)
	}
	if !at(H1, 1) || !at(H2, 1) || !at(H3, 1) {
		return fail()
	}
	// ---- round 1
	if p1 == Z {
		_, py := a.MakeBlock(n.Nodes[H2], Z, []types.Tx{types.Tx(fmt.Sprintf("stale-B-%d", h))})
		if py == nil {
			return fail()
		}
		a.publishProposal(Z, h, 1, py, -1, types.BlockID{})
	}
	for pass := 0; pass < 3; pass++ {
		for _, i := range hon {
			n.DeliverMatching(i, propAndParts(1))
		}
	}
	r2s := n.Nodes[H2].CS.VerifRoundState()
	if r2s.ProposalBlock == nil || bytes.Equal(r2s.ProposalBlock.Hash(), A.Hash) {
		return fail()
	}
	B := types.BlockID{Hash: r2s.ProposalBlock.Hash(), PartsHeader: r2s.ProposalBlockParts.Header()}
	zPV1 := vote(types.VoteTypePrevote, 1, B)
	n.DeliverMatching(H2, from("prevote", 1, H3))
	n.DeliverMatching(H2, one(zPV1))
	n.DeliverMatching(H3, from("prevote", 1, H2))
	n.DeliverMatching(H3, one(zPV1))
	n.DeliverMatching(H1, from("prevote", 1, H2, H3))
	n.FireStep(H1, pbft.RoundStepPrevoteWait)
	if !lockedOn(H2, 1, B.Hash) || !lockedOn(H3, 1, B.Hash) || !lockedOn(H1, 0, A.Hash) {
		return fail()
	}
	zPC1 := vote(types.VoteTypePrecommit, 1, B)
	n.DeliverMatching(H2, from("precommit", 1, H3))
	n.DeliverMatching(H2, one(zPC1)) // H2 commits B
	n.DeliverMatching(H3, from("precommit", 1, H2, H1))
	n.FireStep(H3, pbft.RoundStepPrecommitWait)
	n.DeliverMatching(H1, from("precommit", 1, H2, H3))
	n.FireStep(H1, pbft.RoundStepPrecommitWait)
	if n.Nodes[H2].Store.Height() < h || !at(H1, 2) || !at(H3, 2) {
		return fail()
	}
	// ---- round 2: the straggler from round 0, and A again
	n.DeliverMatching(H3, one(zPV0))
	if p2 == Z {
		a.publishProposal(Z, h, 2, partsA, 0, A)
	}
	for pass := 0; pass < 3; pass++ {
		n.DeliverMatching(H1, propAndParts(2))
		n.DeliverMatching(H3, propAndParts(2))
	}
	vote(types.VoteTypePrevote, 2, A)
	vote(types.VoteTypePrecommit, 2, A)
	for pass := 0; pass < 3; pass++ {
		for _, i := range []int{H1, H3} {
			n.DeliverMatching(i, func(e *Env) bool { return e.H == h && e.R == 2 && (e.Kind == "prevote" || e.Kind == "precommit") })
		}
	}
	a.track()
	return true
}

// AttackEquivocalCommit: every honest validator precommits X; at H1 the Byzantine validator Z is
// first seen precommitting nil, then a peer claims +2/3 for X (what a VoteSetMaj23 message does),
// then Z's second, conflicting precommit for X arrives and counts, and one more honest precommit
// completes +2/3 for X with Z's vote needed. H1 commits; the commit it stores and later proposes as
// LastCommit must carry Z's precommit for X, not the nil one. Needs four equal validators, one Byzantine.
func (a *Adversary) AttackEquivocalCommit() bool {
	n := a.N
	if len(a.Byz) != 1 {
		return false
	}
	Z := a.Byz[0]
	h, ref, ok := a.syncNewHeight(8000)
	if !ok {
		return false
	}
	hon := a.Honest()
	if len(hon) != 3 {
		return false
	}
	for _, i := range hon {
		n.FireStep(i, pbft.RoundStepNewHeight)
	}
	rs := ref.CS.VerifRoundState()
	if rs.Height != h || rs.Round != 0 {
		return false
	}
	vs := rs.Validators.Copy()
	if vs.Size() != 4 || n.ValIndex(vs, Z) < 0 {
		return false
	}
	for _, v := range vs.Validators {
		if v.VotingPower != vs.Validators[0].VotingPower {
			return false
		}
	}
	if p0 := a.nodeByAddr(vs.Proposer().Address); p0 == Z {
		_, px := a.MakeBlock(ref, Z, []types.Tx{types.Tx(fmt.Sprintf("eqc-X-%d", h))})
		if px == nil {
			return false
		}
		a.publishProposal(Z, h, 0, px, -1, types.BlockID{})
	}
	for pass := 0; pass < 3; pass++ {
		for _, i := range hon {
			n.DeliverMatching(i, func(e *Env) bool {
				return e.H == h && e.R == 0 && (e.Kind == "proposal" || e.Kind == "part" || (e.Kind == "prevote" && !e.Byz))
			})
		}
	}
	H1 := hon[a.Rng.Intn(len(hon))]
	r1 := n.Nodes[H1].CS.VerifRoundState()
	if r1.Height != h || r1.LockedBlock == nil || r1.LockedBlockParts == nil {
		a.FairSuffix(h, 8000)
		return false
	}
	X := types.BlockID{Hash: r1.LockedBlock.Hash(), PartsHeader: r1.LockedBlockParts.Header()}
	zNil := n.Publish(Z, true, &pbft.VoteMessage{Vote: n.SignVote(vs, Z, h, 0, types.VoteTypePrecommit, types.BlockID{})})
	n.DeliverMatching(H1, func(e *Env) bool { return e.ID == zNil.ID })
	r1.Votes.SetPeerMaj23(0, types.VoteTypePrecommit, fmt.Sprintf("peer%d", Z), X)
	a.Claims++
	zX := n.Publish(Z, true, &pbft.VoteMessage{Vote: n.SignVote(vs, Z, h, 0, types.VoteTypePrecommit, X)})
	n.DeliverMatching(H1, func(e *Env) bool { return e.ID == zX.ID })
	a.ByzVotes += 2
	if a.Rng.Intn(2) == 0 {
		// the same signed vote arrives again and again (gossip re-delivery, or Z re-sending it): it
		// still is one vote of one validator
		for i := 0; i < 3 && n.Nodes[H1].Up; i++ {
			n.Deliver(H1, zX.ID)
			n.DrainInternal(H1)
			a.Dups++
		}
	}
	// one more honest precommit for X: +2/3 only together with Z's second vote
	done := false
	n.DeliverMatching(H1, func(e *Env) bool {
		if done || e.H != h || e.R != 0 || e.Kind != "precommit" || e.Byz || e.Block != blockHex(X) {
			return false
		}
		done = true
		return true
	})
	a.track()
	return n.Nodes[H1].Store.Height() >= h
}

// AttackBadBlockAfterValid: a malformed block offered after the honest validators validated a
// well-formed relative of it earlier in the same height. With two Byzantine validators among
// seven equal ones: the first Byzantine proposer of the height offers a well-formed block A; the
// adversary lets every honest validator receive, validate and prevote it, but lets nobody see a
// polka, so the round ends with nil precommits; rounds with honest proposers in between end the
// same way (their proposals reach nobody else); when the next Byzantine validator is proposer it
// offers B = mut(copy of A) — e.g. A's header, byte for byte, over another body — backed by
// Byzantine prevotes and precommits. Whatever a node remembered from validating A must not make
// it accept B. Returns whether B was offered, its height and id (the hash equals A's when mut
// leaves the header alone).
func (a *Adversary) AttackBadBlockAfterValid(mut func(b *types.Block, ref *Node) bool) (staged bool, height int64, id types.BlockID) {
	n := a.N
	if len(a.Byz) < 2 {
		return false, 0, id
	}
	h, ref, ok := a.syncNewHeight(8000)
	if !ok {
		return false, 0, id
	}
	hon := a.Honest()
	for _, i := range hon {
		n.FireStep(i, pbft.RoundStepNewHeight)
	}
	power := func(vs *types.ValidatorSet, i int) int64 {
		if k := n.ValIndex(vs, i); k >= 0 {
			return vs.Validators[k].VotingPower
		}
		return 0
	}
	inRound := func(r int64) bool {
		for _, i := range hon {
			rs := n.Nodes[i].CS.VerifRoundState()
			if rs.Height != h || rs.Round != r {
				return false
			}
		}
		return true
	}
	// every precommit of the round (all nil) reaches every honest validator: next round
	endRound := func(vs *types.ValidatorSet, r int64) {
		a.byzVotes(vs, h, r, types.VoteTypePrecommit, types.BlockID{})
		for pass := 0; pass < 2; pass++ {
			for _, i := range hon {
				n.DeliverMatching(i, func(e *Env) bool { return e.H == h && e.R == r && e.Kind == "precommit" && e.Block == "" })
			}
		}
	}
	var A *types.Block
	var validatedA map[int]bool
	for r := int64(0); r < 16; r++ {
		if !inRound(r) {
			break
		}
		rs := ref.CS.VerifRoundState()
		vs := rs.Validators.Copy()
		total := vs.TotalVotingPower()
		p := a.nodeByAddr(vs.Proposer().Address)
		if p < 0 {
			break
		}
		// B can only be committed by the Byzantine validators together with honest ones that still
		// remember A; when too many honest proposers came in between, start over with a fresh A
		// (the other Byzantine validator follows this one after the shorter gap)
		var support int64
		for _, b := range a.Byz {
			support += power(vs, b)
		}
		for i := range validatedA {
			support += power(vs, i)
		}
		switch {
		case a.isByz(p) && (A == nil || support*3 <= total*2):
			// a well-formed block; everybody validates and prevotes it, nobody sees a polka
			blk, parts := a.MakeBlock(ref, p, []types.Tx{types.Tx(fmt.Sprintf("valid-first-%d-%d", h, r))})
			if blk == nil {
				return false, 0, id
			}
			a.publishProposal(p, h, r, parts, -1, types.BlockID{})
			for _, i := range hon {
				n.DeliverMatching(i, func(e *Env) bool { return e.H == h && e.R == r && e.Byz && (e.Kind == "proposal" || e.Kind == "part") })
			}
			a.byzVotes(vs, h, r, types.VoteTypePrevote, types.BlockID{})
			validatedA = map[int]bool{}
			for _, i := range hon {
				anyP, forA := power(vs, i), power(vs, i)
				n.DeliverMatching(i, func(e *Env) bool {
					if e.H != h || e.R != r || e.Kind != "prevote" {
						return false
					}
					if e.Byz {
						if e.Block != "" {
							return false
						}
						anyP += power(vs, e.From)
						return true
					}
					if anyP*3 > total*2 || (forA+power(vs, e.From))*3 > total*2 {
						return false
					}
					forA += power(vs, e.From)
					anyP += power(vs, e.From)
					return true
				})
				validatedA[i] = true
				n.FireStep(i, pbft.RoundStepPrevoteWait)
			}
			endRound(vs, r)
			A = blk
		case !a.isByz(p):
			// an honest proposer whose proposal reaches nobody else: nil polka, nil precommits
			for _, i := range hon {
				if i != p {
					n.FireStep(i, pbft.RoundStepPropose)
				}
			}
			a.byzVotes(vs, h, r, types.VoteTypePrevote, types.BlockID{})
			for pass := 0; pass < 2; pass++ {
				for _, i := range hon {
					n.DeliverMatching(i, func(e *Env) bool { return e.H == h && e.R == r && e.Kind == "prevote" })
				}
			}
			for _, i := range hon {
				n.FireStep(i, pbft.RoundStepPrevoteWait)
			}
			endRound(vs, r)
			if validatedA != nil {
				delete(validatedA, p) // it has validated a block of its own since
			}
		default:
			// the next Byzantine proposer: a mutated copy of A
			var nn int
			var err error
			B := wire.ReadBinary(&types.Block{}, bytes.NewReader(wire.BinaryBytes(A)), 0, &nn, &err).(*types.Block)
			if err != nil || !mut(B, ref) {
				a.FairSuffix(h, 8000)
				return false, h, id
			}
			var parts *types.PartSet
			func() {
				defer func() { recover() }()
				parts = B.MakePartSet(n.Cfg.PartSize)
			}()
			if parts == nil || B.Hash() == nil {
				a.FairSuffix(h, 8000)
				return false, h, id
			}
			id = types.BlockID{Hash: B.Hash(), PartsHeader: parts.Header()}
			a.publishProposal(p, h, r, parts, -1, types.BlockID{})
			a.byzVotes(vs, h, r, types.VoteTypePrevote, id)
			a.byzVotes(vs, h, r, types.VoteTypePrecommit, id)
			a.AfterValidHolders = len(validatedA)
			a.FairSuffix(h, 8000)
			return true, h, id
		}
	}
	a.FairSuffix(h, 8000)
	return false, h, id
}
