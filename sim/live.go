package sim

import (
	"bytes"
	"fmt"
	"path/filepath"
	"sync"
	"sync/atomic"
	"time"

	"github.com/spf13/viper"

	bc "github.com/dappledger/AnnChain/gemmill/blockchain"
	"github.com/dappledger/AnnChain/gemmill/consensus/pbft"
	crypto "github.com/dappledger/AnnChain/gemmill/go-crypto"
	events "github.com/dappledger/AnnChain/gemmill/modules/go-events"
	"github.com/dappledger/AnnChain/gemmill/modules/verifhook"
	"github.com/dappledger/AnnChain/gemmill/p2p"
	sm "github.com/dappledger/AnnChain/gemmill/state"
	"github.com/dappledger/AnnChain/gemmill/types"
)

// Engine E2: real goroutines. N nodes with the genuine receiveRoutine, timeout
// ticker, ConsensusReactor gossip routines and MConnections over encrypted
// net.Pipe connections (p2p.MakeConnectedSwitches). Nothing is stepped; the
// monitors listen on each node's event switch.

type LiveConfig struct {
	N         int
	Powers    []int64
	Dir       string
	Label     string
	Heights   int64         // target height for every honest node
	Watchdog  time.Duration // wall-clock bound: expiry = inconclusive (goroutine dump decides deadlock vs slowness)
	Silent    int           // index of a validator that never proposes (-1 = none)
	NilVoter  int           // index of a validator that always prevotes nil (-1 = none)
	MaxRounds int64         // bound on rounds per height (logical)
	// late join: validator LateJoiner is connected to nobody until all others have committed JoinAfter
	// heights; at that moment validator Crasher is stopped for good (so that the others cannot go on
	// without the late joiner) and the late joiner is connected to the rest. -1 = not used.
	LateJoiner  int
	Crasher     int
	JoinAfter   int64
	GossipBound int64 // late join: bound on vote-gossip iterations until the late joiner has committed JoinAfter heights
	// hand-over: these validators start the way a node with fast_sync=true does - the consensus
	// reactor waits in fast-sync mode and the consensus state is started by the real
	// SwitchToConsensus event (what the block-sync reactor fires when it has caught up), not by
	// the reactor's OnStart. The others start directly.
	Handover []int
	// the proposer of height 1, round 0 never proposes (overrides Silent): the first height, the
	// one the handed-over validators entered through SwitchToConsensus, needs a round change
	SilentFirstProposer bool
}

type LiveResult struct {
	Reached    bool
	Fork       string
	MaxRound   int64
	Heights    []int64
	Commits    int
	Rounds     int
	TimedOut   bool
	RoundBound string
	Events     int
	Joined     bool // late join: the late joiner was connected
	// logical clock of the late-join scenario: iterations of the vote gossip routines (all nodes of
	// the process) between the connection of the late joiner and its commit of height JoinAfter
	CatchUpIters int64
	CatchUpBound string // set when the bound on that count was exceeded
}

type liveNode struct {
	idx   int
	cs    *pbft.ConsensusState
	conR  *pbft.ConsensusReactor
	store *bc.BlockStore
	app   *MockApp
	evsw  types.EventSwitch
}

// RunLive runs one live network until every honest node committed cfg.Heights
// blocks or the watchdog fires.
func RunLive(cfg LiveConfig) LiveResult {
	Quiet()
	var res LiveResult
	gen := &types.GenesisDoc{GenesisTime: time.Unix(1500000000, 0), ChainID: "livenet", AppHash: []byte{}}
	keys := make([]crypto.PrivKeyEd25519, cfg.N)
	for i := 0; i < cfg.N; i++ {
		keys[i] = crypto.GenPrivKeyEd25519FromSecret([]byte(fmt.Sprintf("%s-live-%d", cfg.Label, i)))
		gen.Validators = append(gen.Validators, types.GenesisValidator{PubKey: keys[i].PubKey(), Amount: cfg.Powers[i], Name: fmt.Sprintf("n%d", i), IsCA: true})
	}
	if cfg.SilentFirstProposer {
		first := sm.MakeGenesisState(NewDiskDB(), gen).Validators.Proposer()
		for i := 0; i < cfg.N; i++ {
			if first != nil && bytes.Equal(keys[i].PubKey().Address(), first.Address) {
				cfg.Silent = i
			}
		}
	}
	handover := map[int]bool{}
	for _, i := range cfg.Handover {
		handover[i] = true
	}
	var mtx sync.Mutex
	var gossipIters int64
	verifhook.SetPointFunc(func(site string) {
		if site == "pbft.gossipVotes" {
			atomic.AddInt64(&gossipIters, 1)
		}
	})
	defer verifhook.SetPointFunc(nil)
	byH := map[int64][]byte{}
	heights := make([]int64, cfg.N)
	done := make(chan struct{})
	closed := false
	nodes := make([]*liveNode, cfg.N)
	late := cfg.LateJoiner >= 0 && cfg.JoinAfter > 0
	honest := func(i int) bool { return i != cfg.Silent && i != cfg.NilVoter && !(late && i == cfg.Crasher) }
	check := func() {
		for i := 0; i < cfg.N; i++ {
			if honest(i) && heights[i] < cfg.Heights {
				return
			}
		}
		if !closed {
			closed = true
			close(done)
		}
	}
	for i := 0; i < cfg.N; i++ {
		i := i
		c := viper.New()
		c.Set("chain_id", gen.ChainID)
		c.Set("cs_wal_dir", filepath.Join(cfg.Dir, fmt.Sprintf("livewal_%d", i)))
		c.Set("cs_wal_light", false)
		c.Set("block_size", 100)
		c.Set("block_part_size", 512)
		c.Set("timeout_propose", 150)
		c.Set("timeout_propose_delta", 30)
		c.Set("timeout_prevote", 60)
		c.Set("timeout_prevote_delta", 20)
		c.Set("timeout_precommit", 60)
		c.Set("timeout_precommit_delta", 20)
		c.Set("timeout_commit", 20)
		c.Set("skip_timeout_commit", false)
		pv, _ := types.GenPrivValidator(crypto.CryptoTypeZhongAn, keys[i])
		pv.SetFile(filepath.Join(cfg.Dir, fmt.Sprintf("livepriv_%d.json", i)))
		pv.Save()
		sdb, bdb := NewDiskDB(), NewDiskDB()
		st := sm.MakeGenesisState(sdb, gen)
		st.Save()
		store := bc.NewBlockStore(bdb, nil)
		pool := &MockPool{node: i, TxsPer: 2}
		cs := pbft.NewConsensusState(c, st, store, pool)
		cs.SetPrivValidator(pv)
		conR := pbft.NewConsensusReactor(cs, handover[i])
		cs.BindReactor(conR)
		app := &MockApp{AppHash: []byte{}}
		evsw := types.NewEventSwitch()
		evsw.Start()
		types.AddListenerForEvent(evsw, "live", types.EventStringHookNewRound(), func(ed types.TMEventData) {
			d := ed.(types.EventDataHookNewRound)
			mtx.Lock()
			res.Rounds++
			if d.Round > res.MaxRound {
				res.MaxRound = d.Round
			}
			if cfg.MaxRounds > 0 && d.Round > cfg.MaxRounds && res.RoundBound == "" {
				res.RoundBound = fmt.Sprintf("node %d reached round %d at height %d", i, d.Round, d.Height)
			}
			mtx.Unlock()
			d.ResCh <- types.NewRoundResult{}
		})
		types.AddListenerForEvent(evsw, "live", types.EventStringHookExecute(), func(ed types.TMEventData) {
			d := ed.(types.EventDataHookExecute)
			d.ResCh <- app.onExecute(d.Height, d.Block)
		})
		types.AddListenerForEvent(evsw, "live", types.EventStringHookCommit(), func(ed types.TMEventData) {
			d := ed.(types.EventDataHookCommit)
			d.ResCh <- app.onCommit(d.Height, d.Block)
		})
		types.AddListenerForEvent(evsw, "live", types.EventStringNewBlock(), func(ed types.TMEventData) {
			b := ed.(types.EventDataNewBlock).Block
			mtx.Lock()
			res.Events++
			res.Commits++
			if first, ok := byH[b.Height]; ok {
				if !bytes.Equal(first, b.Hash()) && res.Fork == "" {
					res.Fork = fmt.Sprintf("height %d: %X vs %X (node %d)", b.Height, first, b.Hash(), i)
				}
			} else {
				byH[b.Height] = b.Hash()
			}
			if b.Height > heights[i] {
				heights[i] = b.Height
			}
			check()
			mtx.Unlock()
		})
		conR.SetEventSwitch(evsw)
		st.SetBlockExecutable(&liveExec{})
		st.SetBlockVerifier(cs)
		if i == cfg.Silent {
			cs.VerifSetBehaviour(func(cs *pbft.ConsensusState, h, r int64) {}, nil)
		}
		if i == cfg.NilVoter {
			cs.VerifSetBehaviour(nil, func(cs *pbft.ConsensusState, h, r int64) {
				cs.VerifSignAddVote(types.VoteTypePrevote, nil, types.PartSetHeader{})
			})
		}
		nodes[i] = &liveNode{idx: i, cs: cs, conR: conR, store: store, app: app, evsw: evsw}
	}
	swc := viper.New()
	var switches []*p2p.Switch
	switches = p2p.MakeConnectedSwitches(swc, cfg.N, func(i int, sw *p2p.Switch) *p2p.Switch {
		sw.AddReactor("CONSENSUS", nodes[i].conR)
		return sw
	}, func(sws []*p2p.Switch, i, j int) {
		if late && (i == cfg.LateJoiner || j == cfg.LateJoiner) {
			return
		}
		p2p.Connect2Switches(sws, i, j)
	})
	for i := range nodes {
		if handover[i] {
			types.FireEventSwitchToConsensus(nodes[i].evsw)
		}
	}
	if late {
		go func() {
			for {
				time.Sleep(20 * time.Millisecond)
				mtx.Lock()
				ready, over := true, closed
				for i := 0; i < cfg.N; i++ {
					if i != cfg.LateJoiner && heights[i] < cfg.JoinAfter {
						ready = false
					}
				}
				mtx.Unlock()
				if over {
					return
				}
				if !ready {
					continue
				}
				if cfg.Crasher >= 0 {
					switches[cfg.Crasher].Stop()
				}
				for j := 0; j < cfg.N; j++ {
					if j != cfg.LateJoiner && j != cfg.Crasher {
						p2p.Connect2Switches(switches, cfg.LateJoiner, j)
					}
				}
				mtx.Lock()
				res.Joined = true
				mtx.Unlock()
				at := atomic.LoadInt64(&gossipIters)
				for {
					time.Sleep(10 * time.Millisecond)
					used := atomic.LoadInt64(&gossipIters) - at
					mtx.Lock()
					caught, over := heights[cfg.LateJoiner] >= cfg.JoinAfter, closed
					if caught && res.CatchUpIters == 0 {
						res.CatchUpIters = used
					}
					if !caught && !over && cfg.GossipBound > 0 && used > cfg.GossipBound {
						res.CatchUpBound = fmt.Sprintf("the late joiner (validator %d) was connected at height %d while its peers were at heights %v; after %d iterations of the vote gossip routines it has still not committed height %d", cfg.LateJoiner, heights[cfg.LateJoiner]+1, heights, used, cfg.JoinAfter)
						if !closed {
							closed = true
							close(done)
						}
					}
					mtx.Unlock()
					if caught || over || res.CatchUpBound != "" {
						return
					}
				}
			}
		}()
	}
	reached, timedOut := false, false
	select {
	case <-done:
		reached = true
	case <-time.After(cfg.Watchdog):
		timedOut = true
	}
	mtx.Lock()
	if res.CatchUpBound != "" {
		reached = false
	}
	res.Reached, res.TimedOut = reached, timedOut
	res.Heights = append([]int64(nil), heights...)
	out := res
	mtx.Unlock()
	for _, sw := range switches {
		sw.Stop()
	}
	for _, n := range nodes {
		n.evsw.Stop()
	}
	return out
}

type liveExec struct{}

func (e *liveExec) BeginBlock(*types.Block, events.Fireable, *types.PartSetHeader) error { return nil }
func (e *liveExec) ExecBlock(*types.Block, events.Fireable, *types.ExecuteResult) error  { return nil }
func (e *liveExec) EndBlock(*types.Block, events.Fireable, *types.PartSetHeader, []*types.ValidatorAttr, *types.ValidatorSet) error {
	return nil
}
