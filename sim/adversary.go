package sim

import (
	"bytes"
	"fmt"
	"math/rand"

	"github.com/dappledger/AnnChain/gemmill/consensus/pbft"
	wire "github.com/dappledger/AnnChain/gemmill/go-wire"
	"github.com/dappledger/AnnChain/gemmill/types"
)

// BlockInfo is a block the harness has seen in full on the wire.
type BlockInfo struct {
	ID    types.BlockID
	Block *types.Block
	Parts *types.PartSet
	H     int64
}

// Tracker reassembles proposals' blocks from published parts so that the
// adversary knows which block ids exist (it never feeds an oracle).
type Tracker struct {
	sets   map[string]*types.PartSet // by parts-header hash
	height map[string]int64
	Blocks map[string]*BlockInfo // by block hash hex
	ByH    map[int64][]*BlockInfo
}

func NewTracker() *Tracker {
	return &Tracker{sets: map[string]*types.PartSet{}, height: map[string]int64{}, Blocks: map[string]*BlockInfo{}, ByH: map[int64][]*BlockInfo{}}
}

func (t *Tracker) See(msg pbft.ConsensusMessage) {
	defer func() { recover() }() // harness-side convenience only
	switch m := msg.(type) {
	case *pbft.ProposalMessage:
		k := string(m.Proposal.BlockPartsHeader.Hash)
		if _, ok := t.sets[k]; !ok && m.Proposal.BlockPartsHeader.Total > 0 && m.Proposal.BlockPartsHeader.Total < 1000 {
			t.sets[k] = types.NewPartSetFromHeader(m.Proposal.BlockPartsHeader)
			t.height[k] = m.Proposal.Height
		}
	case *pbft.BlockPartMessage:
		if m.Part == nil || m.Part.Index < 0 {
			return
		}
		for k, ps := range t.sets {
			if t.height[k] != m.Height || ps.IsComplete() {
				continue
			}
			if added, _ := ps.AddPart(m.Part, true); added && ps.IsComplete() {
				var n int
				var err error
				blk := wire.ReadBinary(&types.Block{}, ps.GetReader(), types.MaxBlockSize, &n, &err).(*types.Block)
				if err == nil && blk != nil && blk.Header != nil && blk.Data != nil && blk.LastCommit != nil && blk.Hash() != nil {
					bi := &BlockInfo{ID: types.BlockID{Hash: blk.Hash(), PartsHeader: ps.Header()}, Block: blk, Parts: ps, H: m.Height}
					hx := fmt.Sprintf("%X", blk.Hash())
					if _, dup := t.Blocks[hx]; !dup {
						t.Blocks[hx] = bi
						t.ByH[m.Height] = append(t.ByH[m.Height], bi)
					}
				}
			}
		}
	}
}

// Adversary drives a Net with a seeded random schedule.
type Adversary struct {
	N   *Net
	Rng *rand.Rand
	Trk *Tracker
	Byz []int // node indices whose keys the adversary uses to sign anything

	PInternal, PDeliver, PTimeout, PDup, PCrash, PRestart, PByz float64
	MaxCrashes                                                  int
	Crashes                                                     int
	LateCrashes                                                 int                       // template: crash after a later signature than the locking precommit
	Withhold                                                    func(e *Env, to int) bool // FairSuffix does not offer these (a partition kept up by a template)
	seenPool                                                    int
	offered                                                     map[int]map[int]string
	claimed                                                     map[string]bool

	// partitions: while PartLeft > 0 a real node only receives messages from
	// real nodes of its own group (Byzantine senders reach everybody).
	PPart    float64
	Group    []int
	PartLeft int
	PClaim   float64 // Byzantine peer claims a +2/3 majority (SetPeerMaj23), which makes conflicting votes count

	// statistics
	ByzVotes, ByzProposals, Dups, Fired, Partitions, Claims int
	AfterValidHolders                                       int  // bad-block-after-valid template: honest validators that validated A and nothing since, when B was offered
	Relabel                                                 bool // templates: every Byzantine vote is sent under the indices of the other validators only
	Relabelled                                              int
	RejectedFirst                                           int // amnesia template: runs whose honest WALs start the height with a rejected proposal
}

func NewAdversary(n *Net, rng *rand.Rand, byz []int) *Adversary {
	return &Adversary{N: n, Rng: rng, Trk: NewTracker(), Byz: byz,
		PInternal: 0.5, PDeliver: 0.38, PTimeout: 0.05, PDup: 0.02, PCrash: 0.004, PRestart: 0.05, PByz: 0.03, MaxCrashes: 3, PClaim: 0.15}
}

func (a *Adversary) track() {
	for ; a.seenPool < len(a.N.Pool); a.seenPool++ {
		a.Trk.See(a.N.Pool[a.seenPool].Msg)
	}
}

func (a *Adversary) upNodes() []int {
	var out []int
	for _, nd := range a.N.Nodes {
		if nd.Real && nd.Up {
			out = append(out, nd.Idx)
		}
	}
	return out
}

// pickUndelivered prefers recent messages.
func (a *Adversary) pickUndelivered(i int) int {
	u := a.N.Undelivered(i)
	if a.PartLeft > 0 && a.Group != nil {
		f := u[:0:0]
		for _, id := range u {
			e := a.N.Pool[id]
			if e.Byz || a.Group[e.From] == a.Group[i] {
				f = append(f, id)
			}
		}
		u = f
	}
	if len(u) == 0 {
		return -1
	}
	if a.Rng.Float64() < 0.6 {
		// bias to the oldest relevant ones so that parts/proposals arrive
		k := a.Rng.Intn(minInt(len(u), 6))
		return u[k]
	}
	return u[a.Rng.Intn(len(u))]
}

func minInt(a, b int) int {
	if a < b {
		return a
	}
	return b
}

// Step performs one adversary-chosen action. Returns false if nothing was possible.
func (a *Adversary) Step() bool {
	a.track()
	n := a.N
	if a.PartLeft > 0 {
		a.PartLeft--
	} else if a.PPart > 0 && a.Rng.Float64() < a.PPart {
		a.Group = make([]int, len(n.Nodes))
		for i := range a.Group {
			a.Group[i] = a.Rng.Intn(2)
		}
		a.PartLeft = 100 + a.Rng.Intn(500)
		a.Partitions++
	}
	for try := 0; try < 8; try++ {
		x := a.Rng.Float64()
		up := a.upNodes()
		switch {
		case x < a.PInternal:
			var c []int
			for _, i := range up {
				if n.Nodes[i].CS.VerifInternalLen() > 0 {
					c = append(c, i)
				}
			}
			if len(c) > 0 {
				return n.StepInternal(c[a.Rng.Intn(len(c))])
			}
		case x < a.PInternal+a.PDeliver:
			if len(up) == 0 {
				continue
			}
			i := up[a.Rng.Intn(len(up))]
			if id := a.pickUndelivered(i); id >= 0 {
				return n.Deliver(i, id)
			}
		case x < a.PInternal+a.PDeliver+a.PTimeout:
			var c []int
			for _, i := range up {
				if len(n.Nodes[i].Timeouts) > 0 {
					c = append(c, i)
				}
			}
			if len(c) > 0 {
				i := c[a.Rng.Intn(len(c))]
				k := len(n.Nodes[i].Timeouts) - 1
				if a.Rng.Float64() < 0.3 {
					k = a.Rng.Intn(len(n.Nodes[i].Timeouts))
				}
				a.Fired++
				return n.Fire(i, k)
			}
		case x < a.PInternal+a.PDeliver+a.PTimeout+a.PDup:
			if len(up) == 0 || len(n.Pool) == 0 {
				continue
			}
			i := up[a.Rng.Intn(len(up))]
			a.Dups++
			return n.Deliver(i, a.Rng.Intn(len(n.Pool)))
		case x < a.PInternal+a.PDeliver+a.PTimeout+a.PDup+a.PCrash:
			if len(up) > 0 && a.Crashes < a.MaxCrashes {
				a.Crashes++
				n.Crash(up[a.Rng.Intn(len(up))])
				return true
			}
		case x < a.PInternal+a.PDeliver+a.PTimeout+a.PDup+a.PCrash+a.PRestart:
			for _, nd := range n.Nodes {
				if nd.Real && !nd.Up {
					if err := n.Restart(nd.Idx); err != nil {
						panic(fmt.Sprintf("restart failed: %v", err))
					}
					return true
				}
			}
		default:
			if len(a.Byz) > 0 && a.byzAct() {
				return true
			}
		}
	}
	// fallback: anything deterministic that is possible
	for _, i := range a.upNodes() {
		if n.StepInternal(i) {
			return true
		}
	}
	for _, i := range a.upNodes() {
		if id := a.pickUndelivered(i); id >= 0 {
			return n.Deliver(i, id)
		}
	}
	for _, nd := range n.Nodes {
		if nd.Real && !nd.Up {
			if err := n.Restart(nd.Idx); err != nil {
				panic(fmt.Sprintf("restart failed: %v", err))
			}
			return true
		}
	}
	for _, i := range a.upNodes() {
		if len(n.Nodes[i].Timeouts) > 0 {
			a.Fired++
			return n.Fire(i, len(n.Nodes[i].Timeouts)-1)
		}
	}
	return false
}

// refNode returns some up real node (the adversary reads public knowledge from it).
func (a *Adversary) refNode() *Node {
	up := a.upNodes()
	if len(up) == 0 {
		return nil
	}
	return a.N.Nodes[up[a.Rng.Intn(len(up))]]
}

// byzAct signs and publishes one Byzantine message (vote or conflicting proposals).
func (a *Adversary) byzAct() bool {
	ref := a.refNode()
	if ref == nil {
		return false
	}
	rs := ref.CS.VerifRoundState()
	b := a.Byz[a.Rng.Intn(len(a.Byz))]
	vs := rs.Validators
	if a.N.ValIndex(vs, b) < 0 {
		return false
	}
	h := rs.Height
	r := rs.Round
	if a.Rng.Float64() < 0.3 {
		r += int64(a.Rng.Intn(3)) - 1
		if r < 0 {
			r = 0
		}
	}
	// Byzantine proposer for this round?
	if a.Rng.Float64() < 0.5 && r == rs.Round && bytes.Equal(vs.Proposer().Address, a.N.Nodes[b].Addr) {
		for k := 0; k < 2; k++ {
			blk, parts := a.MakeBlock(ref, b, []types.Tx{types.Tx(fmt.Sprintf("byz-%d-%d-%d-%d", b, h, r, a.Rng.Intn(1<<30)))})
			if blk == nil {
				return false
			}
			polR, polID := rs.Votes.POLInfo()
			if polR >= r {
				polR, polID = -1, types.BlockID{}
			}
			p := a.N.SignProposal(b, h, r, parts.Header(), polR, polID)
			a.N.Publish(b, true, &pbft.ProposalMessage{Proposal: p})
			for i := 0; i < parts.Total(); i++ {
				a.N.Publish(b, true, &pbft.BlockPartMessage{Height: h, Round: r, Part: parts.GetPart(i)})
			}
			a.ByzProposals++
		}
		return true
	}
	known := a.Trk.ByH[h]
	if a.PClaim > 0 && a.Rng.Float64() < a.PClaim && len(known) > 0 {
		// what the reactor does on a VoteSetMaj23Message from a peer
		typ := byte(types.VoteTypePrevote)
		if a.Rng.Float64() < 0.5 {
			typ = types.VoteTypePrecommit
		}
		func() {
			defer func() { recover() }()
			rs.Votes.SetPeerMaj23(r, typ, fmt.Sprintf("peer%d", b), known[a.Rng.Intn(len(known))].ID)
		}()
		a.Claims++
		return true
	}
	// a vote for any known block at this height, nil, or garbage
	var bid types.BlockID
	switch x := a.Rng.Float64(); {
	case x < 0.7 && len(known) > 0:
		bid = known[a.Rng.Intn(len(known))].ID
	case x < 0.9:
		// nil
	default:
		bid = types.BlockID{Hash: []byte(fmt.Sprintf("garbage-%020d", a.Rng.Intn(1000))), PartsHeader: types.PartSetHeader{Total: 1, Hash: []byte("garbagegarbagegarbage")}}
	}
	typ := types.VoteTypePrevote
	if a.Rng.Float64() < 0.5 {
		typ = types.VoteTypePrecommit
	}
	v := a.N.SignVote(vs, b, h, r, byte(typ), bid)
	a.N.Publish(b, true, &pbft.VoteMessage{Vote: v})
	a.ByzVotes++
	return true
}

// MakeBlock builds a well-formed block for ref's current height with proposer p.
func (a *Adversary) MakeBlock(ref *Node, p int, txs []types.Tx) (*types.Block, *types.PartSet) {
	rs := ref.CS.VerifRoundState()
	st := ref.CS.VerifState()
	var commit *types.Commit
	if rs.Height == 1 {
		commit = &types.Commit{}
	} else if rs.LastCommit != nil && rs.LastCommit.HasTwoThirdsMajority() {
		commit = rs.LastCommit.MakeCommit()
	} else {
		return nil, nil
	}
	return types.MakeBlock(rs.Height, st.ChainID, txs, nil, commit, a.N.Nodes[p].Addr,
		st.LastBlockID, st.Validators.Hash(), st.AppHash, st.ReceiptsHash, a.N.Cfg.PartSize)
}

// RunUntil steps until every up real node has committed `target` heights or
// maxSteps is reached. Returns true if the target was reached.
func (a *Adversary) RunUntil(target int64, maxSteps int) bool {
	for s := 0; s < maxSteps; s++ {
		if a.reached(target) {
			return true
		}
		if !a.Step() {
			return a.reached(target)
		}
	}
	return a.reached(target)
}

func (a *Adversary) reached(target int64) bool {
	any := false
	for _, nd := range a.N.Nodes {
		if !nd.Real {
			continue
		}
		if !nd.Up {
			return false
		}
		any = true
		if nd.Store.Height() < target {
			return false
		}
	}
	return any
}

// FairSuffix plays ideal gossip: every message any node produced (or a
// Byzantine key signed) for the height a node is working on (plus straggler
// precommits of the previous height) is offered to that node, and offered again
// whenever the node has moved to another round or step since (a real reactor
// keeps sending what the peer still lacks for its current height/round; a
// message that arrived too early and was ignored must come again). Proposals
// go before parts before votes. Scheduled timeouts fire in schedule order, and
// only when nothing else is possible. Used to let runs finish (C01) and as the
// fair suffix of C12.
func (a *Adversary) FairSuffix(target int64, maxSteps int) (steps int, ok bool) {
	n := a.N
	for _, nd := range n.Nodes {
		if nd.Real && !nd.Up {
			if err := n.Restart(nd.Idx); err != nil {
				panic(fmt.Sprintf("restart failed: %v", err))
			}
		}
	}
	if a.offered == nil {
		a.offered = map[int]map[int]string{}
	}
	rank := map[string]int{"proposal": 0, "part": 1, "prevote": 2, "precommit": 3}
	for steps = 0; steps < maxSteps; steps++ {
		if a.reached(target) {
			return steps, true
		}
		progressed := false
		for _, i := range a.upNodes() {
			if n.StepInternal(i) {
				progressed = true
				break
			}
		}
		if progressed {
			continue
		}
		for _, i := range a.upNodes() {
			rs := n.Nodes[i].CS.VerifRoundState()
			at := fmt.Sprintf("%d/%d/%d", rs.Height, rs.Round, rs.Step)
			if a.offered[i] == nil {
				a.offered[i] = map[int]string{}
			}
			if a.gossipClaims(i) {
				// a new majority claim makes conflicting votes for that block acceptable: offer votes again
				for id := range a.offered[i] {
					if k := n.Pool[id].Kind; k == "prevote" || k == "precommit" {
						delete(a.offered[i], id)
					}
				}
			}
			best := -1
			atOf := map[int]string{}
			for _, e := range n.Pool {
				if e.From == i && !e.Byz {
					continue
				}
				if !(e.H == rs.Height || (e.H+1 == rs.Height && e.Kind == "precommit")) {
					continue
				}
				// what "already offered" means depends on how old the message is for this node: stragglers
				// of the previous height are only ever accepted in the new-height step and are offered once
				// per height; votes and proposals of rounds the node left more than one round ago are
				// accepted whenever they come and are offered once per round of the node; everything
				// from the previous round on is offered again after every step change (it may have been
				// dropped as too early). A real reactor does not resend what the peer already has either;
				// resending a height's whole history at every step made a suffix after a 60-round height
				// spend its step budget on re-deliveries (seen in thorough).
				at := at
				if e.H+1 == rs.Height {
					at = fmt.Sprintf("%d", rs.Height)
				} else if e.R < rs.Round-1 {
					at = fmt.Sprintf("%d/%d", rs.Height, rs.Round)
				}
				if a.offered[i][e.ID] == at {
					continue
				}
				atOf[e.ID] = at
				if a.Withhold != nil && a.Withhold(e, i) {
					continue
				}
				if best < 0 || rank[e.Kind] < rank[n.Pool[best].Kind] {
					best = e.ID
				}
			}
			if best >= 0 {
				a.offered[i][best] = atOf[best]
				n.Deliver(i, best)
				progressed = true
				break
			}
		}
		if progressed {
			continue
		}
		// nothing in flight: the oldest scheduled timeout fires
		best, bi := -1, -1
		var bh, br int64
		for _, i := range a.upNodes() {
			nd := n.Nodes[i]
			for k, t := range nd.Timeouts {
				if best < 0 || t.Height < bh || (t.Height == bh && t.Round < br) {
					best, bi, bh, br = k, i, t.Height, t.Round
				}
			}
		}
		if best < 0 {
			return steps, a.reached(target)
		}
		n.Fire(bi, best)
	}
	return steps, a.reached(target)
}

// gossipClaims does for node i what the reactors of its honest peers do with
// VoteSetMaj23 messages: every peer that has a +2/3 majority in some round of
// the height i works on (or has already committed that height) tells i which
// block it is for, so that i accepts a second (conflicting) vote of an
// equivocating validator for exactly that block. Returns true if a new claim was made.
func (a *Adversary) gossipClaims(i int) bool {
	n := a.N
	if a.claimed == nil {
		a.claimed = map[string]bool{}
	}
	rs := n.Nodes[i].CS.VerifRoundState()
	h := rs.Height
	made := false
	claim := func(j int, r int64, typ byte, id types.BlockID) {
		if rs.Votes == nil || id.IsZero() {
			return
		}
		var vs *types.VoteSet
		if typ == types.VoteTypePrevote {
			vs = rs.Votes.Prevotes(r)
		} else {
			vs = rs.Votes.Precommits(r)
		}
		if vs == nil {
			return // round not tracked yet: claim again later
		}
		k := fmt.Sprintf("%d|%d|%d|%d|%d|%X", i, j, h, r, typ, id.Hash)
		if a.claimed[k] {
			return
		}
		a.claimed[k] = true
		rs.Votes.SetPeerMaj23(r, typ, fmt.Sprintf("peer%d", j), id)
		a.Claims++
		made = true
	}
	for _, j := range a.upNodes() {
		if j == i {
			continue
		}
		nj := n.Nodes[j]
		rj := nj.CS.VerifRoundState()
		if rj.Height == h && rj.Votes != nil {
			for r := int64(0); r <= rj.Round; r++ {
				if pv := rj.Votes.Prevotes(r); pv != nil {
					if id, ok := pv.TwoThirdsMajority(); ok {
						claim(j, r, types.VoteTypePrevote, id)
					}
				}
				if pc := rj.Votes.Precommits(r); pc != nil {
					if id, ok := pc.TwoThirdsMajority(); ok {
						claim(j, r, types.VoteTypePrecommit, id)
					}
				}
			}
		} else if nj.Store.Height() >= h {
			if c := nj.Store.LoadSeenCommit(h); c != nil && len(c.Precommits) > 0 && c.FirstPrecommit() != nil {
				claim(j, c.Round(), types.VoteTypePrecommit, c.BlockID)
			}
		}
	}
	return made
}
