package lib

import (
	"io/ioutil"
	"os"
	"os/exec"
	"syscall"
	"time"
)

// RunCmd runs a command with combined output going to logfile, under a
// wall-clock watchdog. On expiry the process gets SIGQUIT (goroutine dump for Go
// programs), then SIGKILL. Returns the output, whether the watchdog fired, and
// the exit error.
func RunCmd(watchdog time.Duration, logfile string, env []string, name string, args ...string) (string, bool, error) {
	f, err := os.Create(logfile)
	if err != nil {
		return "", false, err
	}
	cmd := exec.Command(name, args...)
	cmd.Stdout, cmd.Stderr = f, f
	cmd.Env = append(os.Environ(), env...)
	cmd.SysProcAttr = &syscall.SysProcAttr{Setpgid: true}
	if err := cmd.Start(); err != nil {
		f.Close()
		return "", false, err
	}
	done := make(chan error, 1)
	go func() { done <- cmd.Wait() }()
	timedOut := false
	var werr error
	select {
	case werr = <-done:
	case <-time.After(watchdog):
		timedOut = true
		cmd.Process.Signal(syscall.SIGQUIT)
		select {
		case werr = <-done:
		case <-time.After(5 * time.Second):
			syscall.Kill(-cmd.Process.Pid, syscall.SIGKILL)
			werr = <-done
		}
	}
	f.Close()
	b, _ := ioutil.ReadFile(logfile)
	return string(b), timedOut, werr
}
