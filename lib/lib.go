// Package lib: shared run protocol for all checks (seed/tier, counters,
// evidence file, known-findings matcher, VIOLATION lines, replay artefacts).
package lib

import (
	"crypto/sha256"
	"encoding/hex"
	"encoding/json"
	"fmt"
	"io/ioutil"
	"math/rand"
	"os"
	"path/filepath"
	"runtime"
	"sort"
	"strconv"
	"strings"
	"sync"
	"time"
)

const Root = "/verif"

// Seed returns VERIF_SEED (default 1).
func Seed() int64 {
	if v, err := strconv.ParseInt(os.Getenv("VERIF_SEED"), 10, 64); err == nil {
		return v
	}
	return 1
}

// Tier returns "quick" or "thorough" (VERIF_TIER, default quick).
func Tier() string {
	if os.Getenv("VERIF_TIER") == "thorough" {
		return "thorough"
	}
	return "quick"
}

// Thorough reports whether the thorough tier was requested.
func Thorough() bool { return Tier() == "thorough" }

// Pick returns q in the quick tier and t in the thorough tier.
func Pick(q, t int) int {
	if Thorough() {
		return t
	}
	return q
}

// Rand returns a PRNG determined by seed, the property id and a stream label.
func Rand(label string, n int64) *rand.Rand {
	h := sha256.Sum256([]byte(fmt.Sprintf("%d|%s|%d", Seed(), label, n)))
	var s int64
	for i := 0; i < 8; i++ {
		s = s<<8 | int64(h[i])
	}
	return rand.New(rand.NewSource(s))
}

// Finding is one entry of known_findings.json.
type Finding struct {
	Property string `json:"property"`
	Key      string `json:"key"`    // exact class key the check computes for this defect
	Status   string `json:"status"` // "open" (recorded, suppresses) or "fixed" (suppresses nothing)
	Commit   string `json:"commit,omitempty"`
	What     string `json:"what"`
}

type findingsFile struct {
	Findings []Finding `json:"findings"`
}

func loadFindings() []Finding {
	b, err := ioutil.ReadFile(filepath.Join(Root, "known_findings.json"))
	if err != nil {
		return nil
	}
	var f findingsFile
	if err := json.Unmarshal(b, &f); err != nil {
		fmt.Fprintf(os.Stderr, "known_findings.json unreadable: %v\n", err)
		return nil
	}
	return f.Findings
}

// Run collects what one check execution observed.
type Run struct {
	Prop  string
	Level string
	start time.Time

	mtx        sync.Mutex
	counters   map[string]int64
	distinct   map[string]map[string]struct{}
	samples    []interface{}
	maxSamples int
	violations int
	knownSeen  map[string]int
	findings   []Finding
	rule       string
	assume     []string
	extra      map[string]interface{}
	inconcl    []string
	exhaustive bool
	violKeys   map[string]int
}

// NewRun starts a run for property prop at the given claimed level.
func NewRun(prop, level string) *Run {
	return &Run{
		Prop: prop, Level: level, start: time.Now(),
		counters:   map[string]int64{},
		distinct:   map[string]map[string]struct{}{},
		maxSamples: 6,
		knownSeen:  map[string]int{},
		findings:   loadFindings(),
		extra:      map[string]interface{}{},
		violKeys:   map[string]int{},
	}
}

func (r *Run) SetRule(s string)     { r.rule = s }
func (r *Run) Assume(s ...string)   { r.assume = append(r.assume, s...) }
func (r *Run) SetExhaustive(b bool) { r.exhaustive = b }
func (r *Run) Extra(k string, v interface{}) {
	r.mtx.Lock()
	r.extra[k] = v
	r.mtx.Unlock()
}

// Count adds n to a named counter.
func (r *Run) Count(key string, n int64) {
	r.mtx.Lock()
	r.counters[key] += n
	r.mtx.Unlock()
}

// Get returns a counter value.
func (r *Run) Get(key string) int64 {
	r.mtx.Lock()
	defer r.mtx.Unlock()
	return r.counters[key]
}

// Eval counts one evaluated case.
func (r *Run) Eval() { r.Count("evaluations", 1) }

// Distinct records a value in a named set of distinct things seen; the set
// "nontrivial" feeds coverage.distinct_nontrivial.
func (r *Run) Distinct(set, val string) {
	if len(val) > 160 {
		h := sha256.Sum256([]byte(val))
		val = val[:120] + "#" + hex.EncodeToString(h[:6])
	}
	r.mtx.Lock()
	m := r.distinct[set]
	if m == nil {
		m = map[string]struct{}{}
		r.distinct[set] = m
	}
	m[val] = struct{}{}
	r.mtx.Unlock()
}

// Nontrivial records one distinct non-trivial case (by its identity string).
func (r *Run) Nontrivial(id string) { r.Distinct("nontrivial", id) }

// DistinctCount returns the size of a named set.
func (r *Run) DistinctCount(set string) int {
	r.mtx.Lock()
	defer r.mtx.Unlock()
	return len(r.distinct[set])
}

// Sample keeps up to a few actual cases for the evidence file.
func (r *Run) Sample(v interface{}) {
	r.mtx.Lock()
	if len(r.samples) < r.maxSamples {
		r.samples = append(r.samples, v)
	}
	r.mtx.Unlock()
}

// Inconclusive records a reason why the run cannot decide.
func (r *Run) Inconclusive(reason string) {
	r.mtx.Lock()
	r.inconcl = append(r.inconcl, reason)
	r.mtx.Unlock()
}

// Require marks the run inconclusive unless counter/set `name` reached min.
func (r *Run) Require(name string, min int64) {
	r.mtx.Lock()
	v := r.counters[name]
	if s, ok := r.distinct[name]; ok && int64(len(s)) > v {
		v = int64(len(s))
	}
	r.mtx.Unlock()
	if v < min {
		r.Inconclusive(fmt.Sprintf("%s=%d below minimum %d", name, v, min))
	}
}

// Violation reports a failing case. key is the defect-class key computed by the
// check (call site / input class / history shape). If known_findings.json lists
// (property,key) as open, a KNOWN-FINDING line is printed (once per key)
// instead. witness is written to a replay file. Returns true if it counted as a
// new violation.
func (r *Run) Violation(key, what string, witness interface{}) bool {
	r.mtx.Lock()
	defer r.mtx.Unlock()
	for _, f := range r.findings {
		if f.Property == r.Prop && f.Status == "open" && f.Key == key {
			if r.knownSeen[key] == 0 {
				fmt.Printf("KNOWN-FINDING: property=%s %s [%s]\n", r.Prop, f.What, key)
			}
			r.knownSeen[key]++
			return false
		}
	}
	r.violations++
	r.violKeys[key]++
	if r.violKeys[key] > 3 { // do not flood: first three witnesses per class
		return true
	}
	dir := filepath.Join(replayDir(), r.Prop)
	os.MkdirAll(dir, 0755)
	name := fmt.Sprintf("%s-seed%d-%s-%d.json", sanitize(key), Seed(), Tier(), r.violKeys[key])
	path := filepath.Join(dir, name)
	b, err := json.MarshalIndent(map[string]interface{}{
		"property": r.Prop, "key": key, "what": what, "seed": Seed(), "tier": Tier(), "witness": witness,
	}, "", " ")
	if err != nil {
		b = []byte(fmt.Sprintf("{\"property\":%q,\"key\":%q,\"what\":%q,\"witness\":%q}", r.Prop, key, what, fmt.Sprintf("%+v", witness)))
	}
	ioutil.WriteFile(path, b, 0644)
	fmt.Printf("VIOLATION property=%s replay=%s\n", r.Prop, path)
	fmt.Printf("  class=%s: %s\n", key, what)
	return true
}

func evidenceDir() string {
	if d := os.Getenv("VERIF_EVIDENCE_DIR"); d != "" {
		return d
	}
	return filepath.Join(Root, "evidence")
}

func replayDir() string {
	if d := os.Getenv("VERIF_REPLAY_DIR"); d != "" {
		return d
	}
	return filepath.Join(Root, "replays")
}

func sanitize(s string) string {
	var b strings.Builder
	for _, c := range s {
		if (c >= 'a' && c <= 'z') || (c >= 'A' && c <= 'Z') || (c >= '0' && c <= '9') || c == '-' || c == '_' || c == '.' {
			b.WriteRune(c)
		} else {
			b.WriteByte('_')
		}
	}
	if b.Len() > 80 {
		return b.String()[:80]
	}
	return b.String()
}

// Violations returns the number of (new) violations so far.
func (r *Run) Violations() int {
	r.mtx.Lock()
	defer r.mtx.Unlock()
	return r.violations
}

// Finish writes the evidence file, prints a summary and returns the exit code:
// 0 held (possibly with known findings), 1 violation, 2 inconclusive.
func (r *Run) Finish() int {
	r.mtx.Lock()
	defer r.mtx.Unlock()
	cov := map[string]interface{}{}
	for k, v := range r.extra {
		cov[k] = v
	}
	counters := map[string]int64{}
	for k, v := range r.counters {
		counters[k] = v
	}
	cov["counters"] = counters
	dist := map[string]int{}
	for k, v := range r.distinct {
		dist[k] = len(v)
	}
	cov["distinct_sets"] = dist
	small := map[string][]string{}
	for k, v := range r.distinct {
		if len(v) <= 12 && k != "nontrivial" {
			for x := range v {
				small[k] = append(small[k], x)
			}
			sort.Strings(small[k])
		}
	}
	cov["distinct_values"] = small
	cov["evaluations"] = r.counters["evaluations"]
	cov["distinct_nontrivial"] = len(r.distinct["nontrivial"])
	cov["rule"] = r.rule
	if len(r.samples) == 0 {
		cov["samples"] = []interface{}{}
	} else {
		cov["samples"] = r.samples
	}
	if r.exhaustive {
		cov["exhaustive"] = true
	}
	known := map[string]int{}
	for k, v := range r.knownSeen {
		known[k] = v
	}
	cov["known_findings_observed"] = known
	if len(r.inconcl) > 0 {
		cov["inconclusive"] = r.inconcl
	}
	ev := map[string]interface{}{
		"property_id": r.Prop,
		"tier":        Tier(),
		"seed":        Seed(),
		"level":       r.Level,
		"coverage":    cov,
		"assumptions": r.assume,
		"wall_s":      time.Since(r.start).Seconds(),
		"violations":  r.violations,
	}
	if r.assume == nil {
		ev["assumptions"] = []string{}
	}
	b, _ := json.MarshalIndent(ev, "", " ")
	os.MkdirAll(evidenceDir(), 0755)
	path := filepath.Join(evidenceDir(), r.Prop+".json")
	if err := ioutil.WriteFile(path, b, 0644); err != nil {
		fmt.Fprintf(os.Stderr, "cannot write evidence: %v\n", err)
	}
	keys := make([]string, 0, len(counters))
	for k := range counters {
		keys = append(keys, k)
	}
	sort.Strings(keys)
	fmt.Printf("%s %s seed=%d: evaluations=%d distinct_nontrivial=%d violations=%d known=%d wall=%.1fs\n",
		r.Prop, Tier(), Seed(), r.counters["evaluations"], len(r.distinct["nontrivial"]), r.violations, len(r.knownSeen), time.Since(r.start).Seconds())
	for _, k := range keys {
		fmt.Printf("  %-40s %d\n", k, counters[k])
	}
	dk := make([]string, 0, len(dist))
	for k := range dist {
		dk = append(dk, k)
	}
	sort.Strings(dk)
	for _, k := range dk {
		fmt.Printf("  distinct %-31s %d\n", k, dist[k])
	}
	if r.violations > 0 {
		return 1
	}
	if len(r.inconcl) > 0 {
		for _, s := range r.inconcl {
			fmt.Printf("INCONCLUSIVE property=%s %s\n", r.Prop, s)
		}
		return 2
	}
	return 0
}

// Scratch creates a scratch directory outside /repo and /verif.
func Scratch(prop string) string {
	base := os.Getenv("VERIF_SCRATCH")
	if base == "" {
		base = os.TempDir()
	}
	d, err := ioutil.TempDir(base, "verif-"+prop+"-")
	if err != nil {
		panic(err)
	}
	return d
}

// Parallel runs fn(i) for i in [0,n) on up to workers goroutines.
func Parallel(n, workers int, fn func(i int)) {
	if workers < 1 {
		workers = 1
	}
	var wg sync.WaitGroup
	ch := make(chan int)
	for w := 0; w < workers; w++ {
		wg.Add(1)
		go func() {
			defer wg.Done()
			for i := range ch {
				fn(i)
			}
		}()
	}
	for i := 0; i < n; i++ {
		ch <- i
	}
	close(ch)
	wg.Wait()
}

// Hash12 returns a short hex digest of the given parts.
func Hash12(parts ...interface{}) string {
	h := sha256.New()
	for _, p := range parts {
		fmt.Fprintf(h, "%v|", p)
	}
	return hex.EncodeToString(h.Sum(nil)[:6])
}

// ---- child-process mode ----------------------------------------------------
//
// Heavy or crash-prone workloads run in worker processes (re-exec of the same
// binary). A worker collects into a child Run and exports it; the parent
// imports the file: counters add up, distinct sets are united, violations are
// re-issued through the parent's Violation (known-findings matching, printing).

type childViolation struct {
	Key     string      `json:"key"`
	What    string      `json:"what"`
	Witness interface{} `json:"witness"`
}

type exported struct {
	Counters   map[string]int64    `json:"counters"`
	Distinct   map[string][]string `json:"distinct"`
	Samples    []interface{}       `json:"samples"`
	Violations []childViolation    `json:"violations"`
	Inconcl    []string            `json:"inconclusive"`
	Complete   bool                `json:"complete"`
}

// NewChildRun creates a Run for a worker process: Violation only records.
func NewChildRun(prop string) *Run {
	r := NewRun(prop, "")
	r.extra["__child"] = true
	return r
}

// ChildViolation records a violation in a worker (no printing, no files).
func (r *Run) ChildViolation(key, what string, witness interface{}) {
	r.mtx.Lock()
	defer r.mtx.Unlock()
	r.violKeys[key]++
	if r.violKeys[key] > 3 {
		r.counters["violations_suppressed_in_child"]++
		return
	}
	cv, _ := r.extra["__viol"].([]childViolation)
	r.extra["__viol"] = append(cv, childViolation{key, what, witness})
}

// ExportTo writes the worker's observations to path.
func (r *Run) ExportTo(path string) error {
	r.mtx.Lock()
	defer r.mtx.Unlock()
	e := exported{Counters: r.counters, Distinct: map[string][]string{}, Samples: r.samples, Inconcl: r.inconcl}
	for k, s := range r.distinct {
		for v := range s {
			e.Distinct[k] = append(e.Distinct[k], v)
		}
	}
	e.Violations, _ = r.extra["__viol"].([]childViolation)
	e.Complete, _ = r.extra["__complete"].(bool)
	b, err := json.Marshal(e)
	if err != nil {
		return err
	}
	return ioutil.WriteFile(path, b, 0644)
}

// MarkComplete flags a worker's export as final (the worker ran to its end).
func (r *Run) MarkComplete() { r.Extra("__complete", true) }

// Import merges a worker's export into the parent run.
func (r *Run) Import(path string) error {
	_, err := r.importFile(path)
	return err
}

func (r *Run) importFile(path string) (complete bool, err error) {
	b, err := ioutil.ReadFile(path)
	if err != nil {
		return false, err
	}
	var e exported
	if err := json.Unmarshal(b, &e); err != nil {
		return false, err
	}
	complete = e.Complete
	r.mtx.Lock()
	for k, v := range e.Counters {
		r.counters[k] += v
	}
	for k, vs := range e.Distinct {
		m := r.distinct[k]
		if m == nil {
			m = map[string]struct{}{}
			r.distinct[k] = m
		}
		for _, v := range vs {
			m[v] = struct{}{}
		}
	}
	for _, s := range e.Samples {
		if len(r.samples) < r.maxSamples {
			r.samples = append(r.samples, s)
		}
	}
	r.inconcl = append(r.inconcl, e.Inconcl...)
	r.mtx.Unlock()
	for _, v := range e.Violations {
		r.Violation(v.Key, v.What, v.Witness)
	}
	return complete, nil
}

// RunWorkers re-executes the current binary `workers` times with arguments
// ("worker", i, workers, outfile) plus extra, each under a wall-clock watchdog
// (inconclusive when it fires), and imports the results. The worker must call
// ExportTo(outfile). A worker that dies without exporting is reported through
// onCrash(i, combined output) — what that means is the check's decision.
func (r *Run) RunWorkers(workers int, watchdog time.Duration, extra []string, onCrash func(i int, output string)) {
	self := os.Getenv("VERIF_SELF")
	if self == "" {
		self, _ = os.Executable()
	}
	dir := Scratch(r.Prop + "-w")
	defer os.RemoveAll(dir)
	var wg sync.WaitGroup
	for i := 0; i < workers; i++ {
		wg.Add(1)
		go func(i int) {
			defer wg.Done()
			out := filepath.Join(dir, fmt.Sprintf("w%d.json", i))
			logf := filepath.Join(dir, fmt.Sprintf("w%d.log", i))
			args := append([]string{"worker", strconv.Itoa(i), strconv.Itoa(workers), out}, extra...)
			output, timedOut, err := RunCmd(watchdog, logf, nil, self, args...)
			if timedOut {
				r.Inconclusive(fmt.Sprintf("worker %d hit the %v watchdog", i, watchdog))
				return
			}
			complete, ierr := r.importFile(out)
			if ierr != nil || !complete {
				// the worker died (no export, or only the partial export it wrote before a later case killed it)
				if in, e2 := ioutil.ReadFile(out + ".inputs"); e2 == nil {
					output += "\n--- last logged inputs ---\n" + tail(string(in), 3000)
				}
				// keep the whole output: the reason of a death that does not reproduce is only there
				odir := filepath.Join(replayDir(), r.Prop, "observations")
				os.MkdirAll(odir, 0755)
				ofile := filepath.Join(odir, fmt.Sprintf("worker-%d-died-seed%d-%s.log", i, Seed(), Tier()))
				ioutil.WriteFile(ofile, []byte(output), 0644)
				if onCrash != nil {
					onCrash(i, tail(output, 8000))
				} else {
					r.Inconclusive(fmt.Sprintf("worker %d did not finish (%v; full output in %s): %s", i, err, ofile, crashHead(output)))
				}
			}
		}(i)
	}
	wg.Wait()
}

// crashHead returns the first lines of a Go panic / fatal error in a process output.
func crashHead(s string) string {
	for _, m := range []string{"\npanic: ", "\nfatal error: ", "panic: ", "fatal error: "} {
		if k := strings.Index(s, m); k >= 0 {
			e := k + 1500
			if e > len(s) {
				e = len(s)
			}
			return s[k:e]
		}
	}
	return tail(s, 600)
}

func tail(s string, n int) string {
	if len(s) > n {
		return s[len(s)-n:]
	}
	return s
}

// WriteObservation stores a non-verdict observation (e.g. a panic seen while
// checking another property) under the replay directory for later inspection.
func WriteObservation(prop, name string, v interface{}) {
	dir := filepath.Join(replayDir(), prop, "observations")
	os.MkdirAll(dir, 0755)
	b, err := json.MarshalIndent(v, "", " ")
	if err != nil {
		b = []byte(fmt.Sprintf("%+v", v))
	}
	ioutil.WriteFile(filepath.Join(dir, sanitize(name)+".json"), b, 0644)
}

// RemoveLater removes a per-case scratch directory, but not before 48 later calls: a stopped
// go-autofile Group (the WAL) may still have one tick pending in its ticker channel, and its
// goroutine panics ("open .../wal_0: no such file or directory") when the directory vanished
// before it handled that tick — which happens when a case lasted longer than the 5 s tick period
// (a loaded machine). Directories still queued when the process exits stay under the run's
// scratch base, which the parent removes.
func RemoveLater(dir string) {
	laterMtx.Lock()
	laterDirs = append(laterDirs, dir)
	var victim string
	if len(laterDirs) > 48 {
		victim = laterDirs[0]
		laterDirs = laterDirs[1:]
	}
	laterMtx.Unlock()
	if victim != "" {
		os.RemoveAll(victim)
	}
}

var (
	laterMtx  sync.Mutex
	laterDirs []string
)

// Guarded runs fn on its own goroutine. If fn has not returned after limit (a wall-clock watchdog
// that decides nothing by itself), the goroutine's stack is sampled twice, ten seconds apart:
// when both samples show it blocked in the acquisition of a sync.Mutex / sync.RWMutex
// ("[sync.Mutex.Lock]") with identical frames, the code under test is
// wedged on a lock nobody will release; wedgedAt then names the first frame of the repository
// under test on that stack and stack holds the sample. Anything else (still running, blocked on
// a channel, ...) leaves wedgedAt empty: the caller reports inconclusive. The goroutine is left
// behind in both cases.
func Guarded(limit time.Duration, fn func()) (finished bool, wedgedAt string, stack string) {
	done := make(chan struct{})
	idc := make(chan string, 1)
	go func() {
		defer close(done)
		idc <- goroutineID()
		fn()
	}()
	id := <-idc
	select {
	case <-done:
		return true, "", ""
	case <-time.After(limit):
	}
	s1 := stackOf(id)
	select {
	case <-done:
		return true, "", ""
	case <-time.After(10 * time.Second):
	}
	s2 := stackOf(id)
	h1, f1 := splitStack(s1)
	h2, f2 := splitStack(s2)
	// (the runtime prints how long a goroutine has waited only once a garbage collection has seen it
	// waiting, so the duration is not required)
	onLock := func(h string) bool {
		return strings.Contains(h, "sync.Mutex.Lock") || strings.Contains(h, "sync.RWMutex.")
	}
	if s1 != "" && onLock(h1) && onLock(h2) && f1 == f2 {
		for _, l := range strings.Split(f2, "\n") {
			if strings.HasPrefix(l, "github.com/dappledger/AnnChain/") {
				return false, strings.TrimPrefix(l, "github.com/dappledger/AnnChain/"), s2 // (splitStack dropped the arguments)
			}
		}
		return false, "unknown", s2
	}
	return false, "", s2
}

func goroutineID() string {
	buf := make([]byte, 64)
	buf = buf[:runtime.Stack(buf, false)]
	f := strings.Fields(string(buf))
	if len(f) >= 2 {
		return f[1]
	}
	return ""
}

// stackOf returns the block of goroutine id in a dump of all goroutines.
func stackOf(id string) string {
	buf := make([]byte, 8<<20)
	buf = buf[:runtime.Stack(buf, true)]
	for _, blk := range strings.Split(string(buf), "\n\n") {
		if strings.HasPrefix(blk, "goroutine "+id+" ") {
			return blk
		}
	}
	return ""
}

// splitStack separates the header line ("goroutine 7 [sync.Mutex.Lock, 2 minutes]:") from the
// frames, dropping argument values and pc offsets so that two samples compare equal.
func splitStack(s string) (header, frames string) {
	ls := strings.Split(s, "\n")
	if len(ls) == 0 {
		return "", ""
	}
	var out []string
	for _, l := range ls[1:] {
		if strings.HasPrefix(l, "\t") {
			continue
		}
		if k := strings.LastIndex(l, "("); k > 0 {
			l = l[:k]
		}
		out = append(out, l)
	}
	return ls[0], strings.Join(out, "\n")
}
