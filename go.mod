module verif

go 1.12

require (
	github.com/anishathalye/porcupine v1.3.0
	github.com/dappledger/AnnChain v0.0.0
	github.com/ethereum/go-ethereum v1.8.27
)

replace github.com/dappledger/AnnChain => /repo
