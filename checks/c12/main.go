// C12 — liveness as bounded progress.
//
// Restatement (an unbounded "eventually" cannot be decided by a finite run):
// after any finite adversarial prefix (arbitrary delivery order, drops,
// duplicates, partitions, premature timeouts, Byzantine messages with < 1/3
// power, honest crash/restart) followed by a FAIR SUFFIX in which every message
// any node produced is delivered to every node and scheduled timeouts fire in
// schedule order only when nothing else can happen, every honest validator
// commits the next height within B logical steps.
//
// Engine E1 (real ConsensusStates stepped deterministically). No wall clock is
// part of the verdict: B counts deliveries / timeouts / internal steps.
package main

import (
	"fmt"
	"os"
	"path/filepath"
	"runtime/debug"
	"strconv"
	"time"

	"verif/lib"
	"verif/sim"
)

const prop = "C12"

func bound(n int) int { return 6000 + 1500*n*n }

func runCase(run *lib.Run, c int64, base string) {
	rng := lib.Rand("c12", c)
	ns := []int{1, 2, 3, 4, 4, 4, 5}
	if lib.Thorough() {
		ns = append(ns, 7, 7)
	}
	n := ns[rng.Intn(len(ns))]
	split := c%8 == 5 // scripted prefix: two honest validators locked on different blocks
	if split {
		n = 4
	}
	p := make([]int64, n)
	for i := range p {
		switch {
		case split:
			p[i] = []int64{1, 10, 33}[(c/8)%3]
		case c%3 == 0:
			p[i] = 1
		case c%3 == 1:
			p[i] = int64(1 + rng.Intn(6))
		default:
			p[i] = int64(30 + rng.Intn(5))
		}
	}
	var total int64
	for _, v := range p {
		total += v
	}
	real := make([]bool, n)
	for i := range real {
		real[i] = true
	}
	var byz []int
	var bp int64
	if split {
		z := rng.Intn(n)
		byz, real[z] = []int{z}, false
	} else if rng.Float64() < 0.7 {
		for _, i := range rng.Perm(n) {
			if (bp+p[i])*3 < total && rng.Float64() < 0.8 {
				bp += p[i]
				byz = append(byz, i)
				real[i] = false
			}
		}
	}
	dir := filepath.Join(base, fmt.Sprintf("c%d", c))
	os.MkdirAll(dir, 0755)
	defer lib.RemoveLater(dir)
	run.Eval()
	net, err := sim.NewNet(sim.Config{Powers: p, Real: real, Dir: dir, Label: "c12"})
	if err != nil {
		run.Inconclusive(fmt.Sprintf("case %d: %v", c, err))
		return
	}
	net.KeepTrace = true
	profile := []string{"balanced", "timeouts", "crashy", "byzheavy", "lossy", "partition", "tmpl-eqv", "tmpl-amnesia-crash", "silent"}[rng.Intn(9)]
	if split {
		profile = "tmpl-split-locks"
	}
	defer func() {
		if r := recover(); r != nil {
			run.Count("runs_aborted_by_panic", 1)
			run.Distinct("panic_sites", fmt.Sprint(r))
			tr := net.Trace
			if len(tr) > 150 {
				tr = tr[len(tr)-150:]
			}
			lib.WriteObservation(prop, fmt.Sprintf("panic-case%d", c), map[string]interface{}{"panic": fmt.Sprint(r), "stack": string(debug.Stack()), "case": c, "profile": profile, "powers": p, "byz": byz, "trace_tail": tr})
		}
		func() { defer func() { recover() }(); net.Close() }()
	}()
	adv := sim.NewAdversary(net, rng, byz)
	switch profile {
	case "timeouts":
		adv.PTimeout = 0.2
	case "crashy":
		adv.PCrash, adv.PRestart, adv.MaxCrashes = 0.02, 0.06, 10
	case "byzheavy":
		adv.PByz = 0.15
	case "lossy":
		adv.PDeliver, adv.PTimeout = 0.15, 0.15
	case "partition":
		adv.PPart, adv.PTimeout = 0.01, 0.1
	case "tmpl-eqv":
		if len(byz) > 0 {
			adv.AttackEquivocation(6)
		}
	case "tmpl-amnesia-crash":
		if len(byz) > 0 {
			adv.AttackLockAmnesia(true)
		}
	case "tmpl-split-locks":
		adv.PByz = 0
		run.Count("split_lock_cases", 1)
		if adv.AttackSplitLocks() {
			run.Count("split_locks_staged", 1)
		}
	case "silent": // nothing is delivered for a while: only timeouts fire
		adv.PDeliver, adv.PTimeout, adv.PInternal = 0.02, 0.5, 0.4
	}
	if len(byz) == 0 {
		adv.PByz = 0
	}
	prefix := rng.Intn(lib.Pick(1500, 4000))
	if split {
		prefix = 0 // the scripted prefix is the adversarial part; the byzantine validator is silent from here on
	}
	for s := 0; s < prefix; s++ {
		if !adv.Step() {
			break
		}
	}
	// ---- fair suffix ----
	var base0 int64
	maxRound := int64(0)
	for _, nd := range net.Nodes {
		if nd.Real && nd.Up {
			if h := nd.Store.Height(); h > base0 {
				base0 = h
			}
			if r := nd.CS.VerifRoundState().Round; r > maxRound {
				maxRound = r
			}
		}
	}
	for _, nd := range net.Nodes { // crashed nodes restart (FairSuffix does it) - their stores count too
		if nd.Real && !nd.Up {
			run.Count("nodes_down_at_prefix_end", 1)
		}
	}
	target := base0 + 1
	// the backlog counts too: every round already spent at the height left a proposal, its parts and
	// 2n votes behind that the suffix has to deliver to everybody before anything new can happen
	B := bound(n) + int(maxRound)*n*60
	// ... and so does what the Byzantine validators signed for this height during the prefix (long
	// thorough prefixes leave more than a thousand equivocating votes behind): the suffix delivers
	// each of them to every node, some again after a round change, before the nodes can move on
	byzBacklog, reals := 0, 0
	for _, e := range net.Pool {
		if e.Byz && e.H >= target {
			byzBacklog++
		}
	}
	for _, nd := range net.Nodes {
		if nd.Real {
			reals++
		}
	}
	B += 3 * byzBacklog * reals
	before := net.Steps
	steps, ok := adv.FairSuffix(target, B)
	_ = steps
	used := net.Steps - before
	run.Count("fair_suffix_steps_total", int64(used))
	run.Distinct("fair_suffix_steps_bucket", strconv.Itoa(used/250*250))
	if maxRound > 0 {
		run.Count("suffixes_starting_in_round>0", 1)
	}
	if adv.Crashes > 0 {
		run.Count("cases_with_crashes", 1)
	}
	if ok {
		run.Count("progress_within_bound", 1)
		// a second height, to make sure the network is not left in a wedged-but-lucky state
		if _, ok2 := adv.FairSuffix(target+1, B); ok2 {
			run.Count("second_height_within_bound", 1)
		} else {
			ok = false
		}
	}
	if !ok {
		st := []string{}
		for _, nd := range net.Nodes {
			if !nd.Real {
				st = append(st, fmt.Sprintf("node %d: byzantine/silent (power %d)", nd.Idx, p[nd.Idx]))
				continue
			}
			rs := nd.CS.VerifRoundState()
			detail := fmt.Sprintf("commitRound=%d", rs.CommitRound)
			if rs.ProposalBlockParts != nil {
				detail += fmt.Sprintf(" parts=%X:%v", rs.ProposalBlockParts.Header().Hash, rs.ProposalBlockParts.BitArray())
			}
			if rs.Proposal != nil {
				detail += fmt.Sprintf(" proposal=%d/%d:%X", rs.Proposal.Height, rs.Proposal.Round, rs.Proposal.BlockPartsHeader.Hash)
			}
			if rs.Votes != nil && rs.CommitRound >= 0 {
				if pc := rs.Votes.Precommits(rs.CommitRound); pc != nil {
					id, ok := pc.TwoThirdsMajority()
					detail += fmt.Sprintf(" commitMaj23=%v:%X/%X", ok, id.Hash, id.PartsHeader.Hash)
				}
			}
			st = append(st, fmt.Sprintf("node %d: power %d store %d working on %d/%d/%v locked=%v proposal=%v pendingTimeouts=%d internalQueue=%d undelivered=%d restarts=%d %s",
				nd.Idx, p[nd.Idx], nd.Store.Height(), rs.Height, rs.Round, rs.Step, rs.LockedBlock != nil, rs.Proposal != nil, len(nd.Timeouts), nd.CS.VerifInternalLen(), len(net.Undelivered(nd.Idx)), nd.Restarts, detail))
		}
		tr := net.Trace
		if len(tr) > 400 {
			tr = tr[len(tr)-400:]
		}
		if os.Getenv("VERIF_CASE") != "" {
			for _, l := range net.Trace {
				fmt.Println("TRACE", l)
			}
		}
		key := "no-progress-in-fair-suffix"
		run.ChildViolation(key, fmt.Sprintf("case %d (%s, N=%d, byz=%v): after a prefix of %d steps the fair suffix did not bring every honest validator to height %d within %d steps", c, profile, n, byz, prefix, target+1, B),
			map[string]interface{}{"case": c, "seed": lib.Seed(), "profile": profile, "powers": p, "byz": byz, "prefix": prefix, "target": target, "nodes": st, "trace_tail": tr})
	}
	run.Count("steps", int64(net.Steps))
	run.Distinct("schedules", lib.Hash12(net.Trace))
	if prefix > 50 || split {
		run.Nontrivial(lib.Hash12(net.Trace))
	}
	if c < 2 {
		run.Sample(map[string]interface{}{"case": c, "profile": profile, "powers": p, "byz": byz, "prefix_steps": prefix, "fair_suffix_steps": used, "bound": B})
	}
}

func worker(args []string) {
	i, _ := strconv.Atoi(args[0])
	wn, _ := strconv.Atoi(args[1])
	out := args[2]
	run := lib.NewChildRun(prop)
	base := lib.Scratch(prop)
	defer os.RemoveAll(base)
	total := int64(lib.Pick(320, 16000))
	only, _ := strconv.ParseInt(os.Getenv("VERIF_CASE"), 10, 64) // replay of one case
	for c := int64(i); c < total; c += int64(wn) {
		if os.Getenv("VERIF_CASE") != "" && c != only {
			continue
		}
		runCase(run, c, base)
	}
	run.MarkComplete()
	if err := run.ExportTo(out); err != nil {
		fmt.Println("export failed:", err)
		os.Exit(1)
	}
}

func main() {
	if len(os.Args) > 1 && os.Args[1] == "worker" {
		worker(os.Args[2:])
		return
	}
	if len(os.Args) > 1 && os.Args[1] == "live" {
		liveChild(os.Args[2:])
		return
	}
	run := lib.NewRun(prop, "exploration")
	run.SetRule("seeded cases: 1-7 real ConsensusStates, Byzantine subset < 1/3, a random adversarial prefix of 0..1500 (quick) / 0..4000 (thorough) actions under nine profiles (balanced, premature timeouts, crash/restart, Byzantine-heavy, lossy, partitions, equivocation template, lock+crash template, silence with only timeouts), then a fair suffix (everything produced is delivered to everyone; timeouts fire in schedule order when nothing else is possible); required: every honest validator commits two further heights within B = 6000 + 1500*N^2 + 60*N*(highest round at the end of the prefix) + 3*(Byzantine messages of the current height)*(real nodes) logical steps each. Non-trivial = distinct action trace with a prefix of more than 50 actions.")
	run.Assume("liveness is decided as bounded progress after a finite adversarial prefix; unbounded 'eventually' is out of reach of any finite run", "the harness plays ideal gossip in the suffix: every message any node processed, or a Byzantine key signed, is offered to every node", "deadlocks between the real receive/timeout/gossip goroutines are not reachable in the single-threaded engine (steps that hang hit the worker watchdog = inconclusive)")
	run.RunWorkers(16, time.Duration(lib.Pick(20, 60))*time.Minute, nil, nil)
	runLive(run)
	run.Require("live_cases_reached_target", 2)
	run.Require("progress_within_bound", 200)
	run.Require("suffixes_starting_in_round>0", 50)
	run.Require("cases_with_crashes", 20)
	run.Require("split_locks_staged", 20)
	if n := run.Get("runs_aborted_by_panic"); n > 0 {
		// a case that ended in a panic of the code under test was not judged: never a silent pass
		// (what a peer can make a node panic with is C08's subject; the sites are in the evidence)
		run.Inconclusive(fmt.Sprintf("%d cases were aborted by a panic of the code under test and could not be judged (distinct sites: evidence, set panic_sites)", n))
	}
	os.Exit(run.Finish())
}
