package main

// Live part of C12 (engine E2): real receive / ticker / gossip goroutines over
// real MConnections, under the Go race detector, in a child process.

import (
	"encoding/json"
	"fmt"
	"io/ioutil"
	"os"
	"path/filepath"
	"strconv"
	"strings"
	"time"

	"verif/lib"
	"verif/sim"
)

type liveCase struct {
	Case     int64   `json:"case"`
	N        int     `json:"n"`
	Powers   []int64 `json:"powers"`
	Silent   int     `json:"silent"`
	NilVoter int     `json:"nil_voter"`
	Heights  int64   `json:"heights"`
	Late     int     `json:"late_joiner"` // -1 = none
	Crasher  int     `json:"crasher"`
	JoinAt   int64   `json:"join_after"`
	Handover []int   `json:"handover,omitempty"` // validators started through the SwitchToConsensus event
	SilentP1 bool    `json:"first_proposer_silent,omitempty"`
}

func genLive(c int64) liveCase {
	rng := lib.Rand("c12-live", c)
	lc := liveCase{Case: c, N: 4, Silent: -1, NilVoter: -1, Heights: int64(lib.Pick(6, 12)), Late: -1, Crasher: -1}
	if c%5 == 4 {
		// four equal validators, two of them started the way a node with fast_sync=true is (the
		// consensus state is handed the state by the SwitchToConsensus event), two directly; the
		// proposer of the first height's round 0 never proposes, so the height the handed-over
		// validators entered that way needs a round change
		lc.Powers = []int64{1, 1, 1, 1}
		lc.Handover = rng.Perm(4)[:2]
		lc.SilentP1 = true
		lc.Heights = 5
		return lc
	}
	if c%4 == 3 {
		// four equal validators: one is cut off until the others have committed two heights, then
		// another one crashes and the cut-off one (exactly two heights behind) is connected: the rest
		// can only go on when it catches up through the gossip routines
		lc.Powers = []int64{1, 1, 1, 1}
		p := rng.Perm(4)
		lc.Late, lc.Crasher, lc.JoinAt = p[0], p[1], 2
		lc.Heights = 5
		return lc
	}
	if c%3 == 2 {
		lc.N = 5
	}
	for i := 0; i < lc.N; i++ {
		lc.Powers = append(lc.Powers, int64(1+rng.Intn(3)))
	}
	var total int64
	for _, p := range lc.Powers {
		total += p
	}
	switch c % 3 {
	case 1:
		for _, i := range rng.Perm(lc.N) {
			if lc.Powers[i]*3 < total {
				lc.Silent = i
				break
			}
		}
	case 2:
		for _, i := range rng.Perm(lc.N) {
			if lc.Powers[i]*3 < total {
				lc.NilVoter = i
				break
			}
		}
	}
	return lc
}

func liveChild(args []string) {
	var lc liveCase
	b, _ := ioutil.ReadFile(args[0])
	json.Unmarshal(b, &lc)
	dir := lib.Scratch("C12-live")
	res := sim.RunLive(sim.LiveConfig{N: lc.N, Powers: lc.Powers, Dir: dir, Label: fmt.Sprintf("c12-%d", lc.Case), Heights: lc.Heights,
		Watchdog: 4 * time.Minute, Silent: lc.Silent, NilVoter: lc.NilVoter, MaxRounds: 25, LateJoiner: lc.Late, Crasher: lc.Crasher, JoinAfter: lc.JoinAt, GossipBound: 3000, Handover: lc.Handover, SilentFirstProposer: lc.SilentP1})
	jb, _ := json.Marshal(res)
	ioutil.WriteFile(args[1], jb, 0644)
	os.RemoveAll(dir) // the process ends here: nothing of it touches the directory afterwards
	os.Exit(0)
}

func runLive(run *lib.Run) {
	bin := os.Getenv("VERIF_RACE_BIN")
	if bin == "" {
		run.Inconclusive("no race binary")
		return
	}
	base := lib.Scratch(prop + "-live")
	defer os.RemoveAll(base)
	n := lib.Pick(5, 30)
	lib.Parallel(n, 3, func(i int) {
		lc := genLive(int64(i))
		cp := filepath.Join(base, fmt.Sprintf("case%d.json", i))
		op := filepath.Join(base, fmt.Sprintf("res%d.json", i))
		rl := filepath.Join(base, fmt.Sprintf("race%d", i))
		jb, _ := json.Marshal(lc)
		ioutil.WriteFile(cp, jb, 0644)
		out, to, _ := lib.RunCmd(6*time.Minute, filepath.Join(base, fmt.Sprintf("live%d.log", i)), []string{"GORACE=halt_on_error=0 log_path=" + rl}, bin, "live", cp, op)
		run.Count("live_cases", 1)
		var res sim.LiveResult
		rb, err := ioutil.ReadFile(op)
		if to || err != nil || json.Unmarshal(rb, &res) != nil {
			if strings.Contains(out, "state.(*TPSCalculator)") {
				// state.tpsc is a package-global statistics ring shared by all nodes of this process only
				// because the harness runs several nodes in one process: not a node defect
				run.Count("live_cases_lost_to_shared_tps_counter_artifact", 1)
				return
			}
			if strings.Contains(out, "panic:") || strings.Contains(out, "fatal error:") {
				k := strings.Index(out, "panic:")
				if k < 0 {
					k = strings.Index(out, "fatal error:")
				}
				head := out[k:]
				if len(head) > 3500 {
					head = head[:3500]
				}
				run.Violation("live-node-crashed", fmt.Sprintf("live case %d: the process running %d real nodes died: %s", i, lc.N, head), map[string]interface{}{"case": lc, "output_from_panic": head})
			} else {
				run.Inconclusive(fmt.Sprintf("live case %d produced no result (watchdog=%v)", i, to))
			}
			return
		}
		run.Count("live_commits_observed", int64(res.Commits))
		run.Count("live_rounds", int64(res.Rounds))
		run.Distinct("live_max_round", strconv.FormatInt(res.MaxRound, 10))
		if res.Fork != "" {
			run.Violation("live-fork", fmt.Sprintf("live case %d: %s", i, res.Fork), lc)
			return
		}
		if res.CatchUpBound != "" {
			run.Violation("live-late-joiner-not-served", fmt.Sprintf("live case %d: %s", i, res.CatchUpBound), map[string]interface{}{"case": lc, "result": res})
			return
		}
		if len(lc.Handover) > 0 {
			run.Count("live_handover_cases", 1)
		}
		if lc.Late >= 0 {
			run.Count("live_late_join_cases", 1)
			run.Count("live_late_join_catch_up_gossip_iterations", res.CatchUpIters)
		}
		if res.RoundBound != "" {
			run.Violation("live-no-progress-within-round-bound", fmt.Sprintf("live case %d (silent %d, nil-voter %d): %s", i, lc.Silent, lc.NilVoter, res.RoundBound), map[string]interface{}{"case": lc, "result": res})
			return
		}
		if res.TimedOut {
			run.Inconclusive(fmt.Sprintf("live case %d: wall-clock watchdog (heights %v of %d)", i, res.Heights, lc.Heights))
			return
		}
		run.Count("live_cases_reached_target", 1)
		run.Nontrivial(fmt.Sprintf("live-%d", i))
		// race reports
		files, _ := filepath.Glob(rl + ".*")
		for _, f := range files {
			b, _ := ioutil.ReadFile(f)
			for _, blk := range strings.Split(string(b), "==================") {
				if !strings.Contains(blk, "WARNING: DATA RACE") {
					continue
				}
				run.Count("live_race_reports", 1)
				pair := racePair(blk)
				if harnessRace(blk) {
					run.Count("live_race_reports_in_harness_code", 1)
					continue
				}
				if strings.Contains(pair, "TPSCalculator") {
					// package-global statistics counter shared only because several nodes run in one process
					run.Count("live_race_reports_filtered_harness_artifact", 1)
					continue
				}
				run.Distinct("live_race_pairs", pair)
				run.Violation("race:"+pair, fmt.Sprintf("live case %d: data race between goroutines of the real node: %s", i, pair), map[string]interface{}{"report": condenseRace(blk)})
			}
		}
		if i == 0 {
			run.Sample(map[string]interface{}{"live_case": lc, "result": res})
		}
	})
}

func tailOf(s string, n int) string {
	if len(s) > n {
		return s[len(s)-n:]
	}
	return s
}

// racePair names the two outermost AnnChain functions of a race report.
func racePair(blk string) string {
	var tops []string
	sections := strings.Split(blk, "\n\n")
	for _, sec := range sections {
		if !(strings.Contains(sec, "by goroutine") || strings.Contains(sec, "by main goroutine")) {
			continue
		}
		for _, l := range strings.Split(sec, "\n") {
			l = strings.TrimSpace(l)
			if strings.HasPrefix(l, "github.com/dappledger/AnnChain/") {
				f := strings.TrimPrefix(l, "github.com/dappledger/AnnChain/")
				if k := strings.LastIndex(f, "("); k > 0 {
					f = f[:k]
				}
				tops = append(tops, f)
				break
			}
		}
		if len(tops) == 2 {
			break
		}
	}
	return strings.Join(tops, "-vs-")
}

func condenseRace(blk string) string {
	var out []string
	lines := strings.Split(blk, "\n")
	for i, l := range lines {
		t := strings.TrimSpace(l)
		if strings.HasPrefix(t, "WARNING") || strings.HasPrefix(t, "Write") || strings.HasPrefix(t, "Read") || strings.HasPrefix(t, "Previous") || strings.HasPrefix(t, "Goroutine") {
			out = append(out, t)
		} else if strings.Contains(t, "/repo/") && i > 0 {
			out = append(out, "  "+strings.TrimSpace(lines[i-1])+"  "+t)
		}
	}
	if len(out) > 50 {
		out = out[:50]
	}
	return strings.Join(out, "\n")
}

// harnessRace: the racing access itself (first frame of a stack) is in harness code.
func harnessRace(blk string) bool {
	for _, sec := range strings.Split(blk, "\n\n") {
		if !(strings.Contains(sec, "by goroutine") || strings.Contains(sec, "by main goroutine")) {
			continue
		}
		lines := strings.Split(sec, "\n")
		for _, l := range lines[1:] {
			l = strings.TrimSpace(l)
			if l == "" || strings.HasPrefix(l, "/") {
				continue
			}
			if strings.HasPrefix(l, "verif/") || strings.HasPrefix(l, "main.") {
				return true
			}
			break
		}
	}
	return false
}
