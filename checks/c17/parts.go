package main

// (a) split / reassembly and (b) receiver soundness over the real
// types.PartSet. Every offer is judged against a small model of the receiver
// (which slots are filled, which *Part object sits there, the count).

import (
	"bytes"
	"encoding/hex"
	"fmt"
	"io"
	"io/ioutil"
	"math"
	"math/rand"
	"runtime/debug"
	"strings"
	"sync"
	"sync/atomic"

	hash "github.com/dappledger/AnnChain/gemmill/go-hash"
	wire "github.com/dappledger/AnnChain/gemmill/go-wire"
	merkle "github.com/dappledger/AnnChain/gemmill/modules/go-merkle"
	"github.com/dappledger/AnnChain/gemmill/types"

	"verif/lib"
)

type ctr map[string]int64

func (c ctr) add(k string, n int64) { c[k] += n }
func (c ctr) flush() {
	for k, v := range c {
		run.Count(k, v)
	}
}

type genuine struct {
	bytes []byte
	aunts [][]byte
}

type offer struct {
	Kind  string // mutation kind (finite label set, used for counters)
	Class string // input class used in violation class keys
	Index int
	Bytes []byte
	Aunts [][]byte
	Note  string
}

func (o *offer) part() *types.Part {
	// always a fresh object: Part caches its hash in an unexported field, a
	// receiver gets parts from the wire without that cache
	return &types.Part{Index: o.Index, Bytes: o.Bytes, Proof: merkle.SimpleProof{Aunts: o.Aunts}}
}

type caseCtx struct {
	S, L     int
	tag      string
	dataMode string
	data     []byte // reference copy, never handed to the code under test
	header   types.PartSetHeader
	g        []genuine
	c        ctr
	rng      *rand.Rand
}

func hexTrunc(b []byte, max int) string {
	if len(b) <= max {
		return hex.EncodeToString(b)
	}
	return hex.EncodeToString(b[:max]) + fmt.Sprintf("...(%d bytes)", len(b))
}

func auntsHex(a [][]byte) []string {
	out := make([]string, len(a))
	for i := range a {
		out[i] = hexTrunc(a[i], 40)
	}
	return out
}

func (cc *caseCtx) witness(o *offer, r *receiver, extra map[string]interface{}) map[string]interface{} {
	w := map[string]interface{}{
		"part_size":    cc.S,
		"data_len":     cc.L,
		"case":         cc.tag,
		"data_rule":    fmt.Sprintf("mkData(s=%d,L=%d) under VERIF_SEED=%d, mode %s", cc.S, cc.L, lib.Seed(), cc.dataMode),
		"data_hex":     hexTrunc(cc.data, 96),
		"header_total": cc.header.Total,
		"header_hash":  hex.EncodeToString(cc.header.Hash),
	}
	if o != nil {
		w["offer"] = map[string]interface{}{
			"mutation": o.Kind, "class": o.Class, "note": o.Note, "index": o.Index,
			"bytes_len": len(o.Bytes), "bytes_hex": hexTrunc(o.Bytes, 48), "aunts": auntsHex(o.Aunts),
		}
		if o.Index >= 0 && o.Index < len(cc.g) {
			w["genuine_at_offered_index"] = map[string]interface{}{
				"bytes_hex": hexTrunc(cc.g[o.Index].bytes, 48), "aunts": auntsHex(cc.g[o.Index].aunts),
			}
		}
	}
	if r != nil {
		w["receiver"] = map[string]interface{}{"kind": r.kind, "filled_before": bitsString(r.filled), "count_before": r.count}
	}
	for k, v := range extra {
		w[k] = v
	}
	return w
}

func bitsString(f []bool) string {
	var b strings.Builder
	for i, v := range f {
		if i >= 300 {
			b.WriteString("...")
			break
		}
		if v {
			b.WriteByte('X')
		} else {
			b.WriteByte('_')
		}
	}
	return b.String()
}

func shortStack() string {
	var keep []string
	for _, ln := range strings.Split(string(debug.Stack()), "\n") {
		if strings.Contains(ln, "AnnChain") || strings.Contains(ln, "/repo/") || strings.Contains(ln, "/gemmill/") {
			keep = append(keep, strings.TrimSpace(ln))
			if len(keep) >= 8 {
				break
			}
		}
	}
	return strings.Join(keep, " | ")
}

// violate reports a violation; the text and witness are only built for the
// first three reports of a class (lib keeps three replay files per class, the
// rest is only counted).
var (
	vmtx   sync.Mutex
	vcount = map[string]int{}
	stacks int32
)

func violate(key string, mk func() (string, interface{})) {
	vmtx.Lock()
	defer vmtx.Unlock()
	vcount[key]++
	if vcount[key] > 3 {
		run.Violation(key, "", nil)
		return
	}
	what, wit := mk()
	run.Violation(key, what, wit)
}

// panicStack: stack of the first few hundred panics only (debug.Stack is slow).
func panicStack() string {
	if atomic.AddInt32(&stacks, 1) > 300 {
		return "(stack not recorded)"
	}
	return shortStack()
}

func safeAdd(ps *types.PartSet, p *types.Part) (added bool, err error, pv interface{}, stack string) {
	defer func() {
		if r := recover(); r != nil {
			pv = r
			stack = panicStack()
		}
	}()
	added, err = ps.AddPart(p, true)
	return
}

// ---- receiver + model ----

type receiver struct {
	cc     *caseCtx
	kind   string
	init   []int
	ps     *types.PartSet
	filled []bool
	held   []*types.Part
	count  int
	resets int
}

func (cc *caseCtx) newReceiver(kind string, init []int) *receiver {
	r := &receiver{cc: cc, kind: kind, init: init}
	r.reset()
	return r
}

func (r *receiver) reset() {
	n := r.cc.header.Total
	r.ps = types.NewPartSetFromHeader(r.cc.header)
	r.filled = make([]bool, n)
	r.held = make([]*types.Part, n)
	r.count = 0
	for _, idx := range r.init {
		p := r.cc.genuineOffer(idx).part()
		added, _, pv, _ := safeAdd(r.ps, p)
		if pv == nil && added {
			r.filled[idx] = true
			r.held[idx] = p
			r.count++
		}
		// a genuine part refused here is reported by the judged offers of the same case
	}
}

// stateDiff compares the real set with the model through its public readers.
func (r *receiver) stateDiff() string {
	n := r.cc.header.Total
	ps := r.ps
	if ps.Count() != r.count {
		return fmt.Sprintf("count: Count()=%d, model %d", ps.Count(), r.count)
	}
	if ps.IsComplete() != (r.count == n) {
		return fmt.Sprintf("iscomplete: IsComplete()=%v with %d of %d parts", ps.IsComplete(), r.count, n)
	}
	ba := ps.BitArray()
	if ba == nil || ba.Bits != n {
		return "bitarray: wrong size"
	}
	for i := 0; i < n; i++ {
		bit := ba.Elems[i/64]>>(uint(i)%64)&1 == 1
		if bit != r.filled[i] {
			return fmt.Sprintf("bitarray: bit %d is %v, model %v", i, bit, r.filled[i])
		}
	}
	for i := 0; i < n; i++ {
		if ps.GetPart(i) != r.held[i] {
			return fmt.Sprintf("parts: GetPart(%d) is not the part the model holds there", i)
		}
	}
	if !ps.HasHeader(r.cc.header) || ps.Total() != n {
		return "header: header changed"
	}
	return ""
}

func (r *receiver) expectAccept(o *offer) bool {
	if o.Index < 0 || o.Index >= len(r.cc.g) || r.filled[o.Index] {
		return false
	}
	g := r.cc.g[o.Index]
	return bytes.Equal(o.Bytes, g.bytes) && auntsEqual(o.Aunts, g.aunts)
}

func panicKey(o *offer) string {
	switch o.Class {
	case "index-negative":
		return "addpart-negative-index-panic"
	case "index-ge-total":
		return "addpart-index-ge-total-panic"
	}
	return "addpart-panic-" + o.Class
}

// judge offers o to the receiver and decides the outcome against the model.
func (r *receiver) judge(o *offer) {
	cc := r.cc
	exp := r.expectAccept(o)
	isGenuine := o.Index >= 0 && o.Index < len(cc.g) && bytes.Equal(o.Bytes, cc.g[o.Index].bytes) && auntsEqual(o.Aunts, cc.g[o.Index].aunts)
	p := o.part()
	added, err, pv, stack := safeAdd(r.ps, p)
	cc.c.add("offers_total", 1)
	cc.c.add("offers["+o.Kind+"]", 1)
	cc.c.add("offers_to_receiver["+r.kind+"]", 1)
	switch {
	case pv != nil:
		cc.c.add("offers_panicked", 1)
		cc.c.add("panics["+o.Kind+"]", 1)
		violate(panicKey(o), func() (string, interface{}) {
			return fmt.Sprintf("AddPart panicked on offer %s (index %d, total %d): %v [%s]", o.Kind, o.Index, cc.header.Total, pv, stack),
				cc.witness(o, r, map[string]interface{}{"panic": fmt.Sprint(pv), "stack": stack})
		})
	case added && !exp:
		cc.c.add("offers_wrongly_accepted", 1)
		key := "addpart-accepts-" + o.Class
		if isGenuine {
			key = "addpart-accepts-duplicate"
		}
		violate(key, func() (string, interface{}) {
			return fmt.Sprintf("AddPart accepted offer %s (index %d, total %d, part size %d, data length %d) that is not the genuine part for an empty slot", o.Kind, o.Index, cc.header.Total, cc.S, cc.L),
				cc.witness(o, r, nil)
		})
		r.resets++
		r.reset()
		return
	case !added && exp:
		cc.c.add("offers_genuine_refused", 1)
		violate("addpart-rejects-genuine", func() (string, interface{}) {
			return fmt.Sprintf("AddPart refused the genuine part %d of %d (err=%v) offered as %s", o.Index, cc.header.Total, err, o.Kind), cc.witness(o, r, map[string]interface{}{"err": fmt.Sprint(err)})
		})
	case added:
		cc.c.add("offers_accepted", 1)
		if err != nil {
			run.Violation("addpart-added-with-error", fmt.Sprintf("AddPart returned added=true with err=%v", err), cc.witness(o, r, nil))
		}
		r.filled[o.Index] = true
		r.held[o.Index] = p
		r.count++
	default:
		if isGenuine {
			cc.c.add("offers_duplicate_ignored", 1)
			if err != nil {
				// a duplicate of a part already held is not an error in AddPart's contract; observed, not judged
				cc.c.add("duplicates_with_error", 1)
			}
		} else {
			cc.c.add("offers_rejected", 1)
			if err == nil {
				cc.c.add("rejected_without_error(slot already filled)", 1)
			} else if err == types.ErrPartSetUnexpectedIndex {
				cc.c.add("rejected_unexpected_index", 1)
			} else if err == types.ErrPartSetInvalidProof {
				cc.c.add("rejected_invalid_proof", 1)
			}
		}
	}
	if d := r.stateDiff(); d != "" {
		what := strings.SplitN(d, ":", 2)[0]
		key := "rejected-offer-changes-" + what
		if added && exp {
			key = "accepted-part-state-wrong-" + what
		} else if pv != nil {
			key = "panicking-offer-changes-" + what
		}
		cc.c.add("state_changes_by_refused_offers", 1)
		violate(key, func() (string, interface{}) {
			return fmt.Sprintf("after offer %s (index %d, added=%v, err=%v) the set differs from the model: %s", o.Kind, o.Index, added, err, d),
				cc.witness(o, r, map[string]interface{}{"state_diff": d})
		})
		r.resets++
		r.reset()
	}
}

// complete adds every missing genuine part in the given order and checks that
// the set completes to exactly the original bytes.
func (r *receiver) complete(order []int, why string) {
	cc := r.cc
	for _, idx := range order {
		if !r.filled[idx] {
			o := cc.genuineOffer(idx)
			o.Kind = "genuine(completion)"
			r.judge(o)
		}
	}
	cc.c.add("completions_checked", 1)
	if !r.ps.IsComplete() || r.count != cc.header.Total {
		run.Violation("completion-fails-"+why, fmt.Sprintf("set does not complete after all genuine parts were offered (%s): Count=%d total=%d", why, r.ps.Count(), cc.header.Total), cc.witness(nil, r, nil))
		return
	}
	got, perr := readAllSafe(r.ps.GetReader(), 512)
	if perr != "" {
		run.Violation("reader-panic", "GetReader/Read panicked on a complete set: "+perr, cc.witness(nil, r, nil))
		return
	}
	if !bytes.Equal(got, cc.data) {
		run.Violation("reassembled-bytes-differ-"+why, fmt.Sprintf("complete set reads %d bytes that differ from the %d original bytes (%s)", len(got), len(cc.data), why),
			cc.witness(nil, r, map[string]interface{}{"got_hex": hexTrunc(got, 96)}))
		return
	}
	if !bytes.Equal(r.ps.Hash(), cc.header.Hash) || !r.ps.HashesTo(cc.header.Hash) {
		run.Violation("reassembled-hash-differs", "complete set reports another hash than the header", cc.witness(nil, r, nil))
	}
	cc.c.add("reassemblies_identical", 1)
}

func readAllSafe(rd io.Reader, bufSize int) (out []byte, perr string) {
	defer func() {
		if r := recover(); r != nil {
			perr = fmt.Sprintf("%v [%s]", r, shortStack())
		}
	}()
	if bufSize <= 0 {
		b, err := ioutil.ReadAll(rd)
		if err != nil {
			return b, "read error: " + err.Error()
		}
		return b, ""
	}
	buf := make([]byte, bufSize)
	for guard := 0; guard < 1<<26; guard++ {
		n, err := rd.Read(buf)
		out = append(out, buf[:n]...)
		if err == io.EOF {
			return out, ""
		}
		if err != nil {
			return out, "read error: " + err.Error()
		}
		if n == 0 {
			// tolerated by io.Reader, but it must not go on forever
			if guard > len(out)+1024 {
				return out, "reader makes no progress"
			}
		}
	}
	return out, "reader does not end"
}

// ---- offers ----

func (cc *caseCtx) genuineOffer(i int) *offer {
	return &offer{Kind: "genuine", Class: "genuine", Index: i, Bytes: cc.g[i].bytes, Aunts: cc.g[i].aunts}
}

func flipBit(b []byte, pos, bit int) []byte {
	c := cloneBytes(b)
	c[pos] ^= 1 << uint(bit)
	return c
}

func pickPositions(rng *rand.Rand, n, all, extra int) []int {
	if n <= all {
		out := make([]int, n)
		for i := range out {
			out[i] = i
		}
		return out
	}
	if extra > n-2 {
		extra = n - 2
	}
	seen := map[int]bool{0: true, n - 1: true}
	out := []int{0, n - 1}
	for len(out) < extra+2 {
		p := rng.Intn(n)
		if !seen[p] {
			seen[p] = true
			out = append(out, p)
		}
	}
	return out
}

// mutations returns every single-field mutation of the genuine part i that the
// tier asks for. The index, the bytes and the proof are changed one at a time.
func (cc *caseCtx) mutations(i int) []*offer {
	n := cc.header.Total
	g := cc.g[i]
	rng := cc.rng
	var out []*offer
	add := func(kind, class string, idx int, b []byte, a [][]byte, note string) {
		out = append(out, &offer{Kind: kind, Class: class, Index: idx, Bytes: b, Aunts: a, Note: note})
	}
	// --- index ---
	seenIdx := map[int]bool{i: true}
	idxMut := func(label string, v int) {
		if seenIdx[v] {
			return
		}
		seenIdx[v] = true
		class := "index-other-valid"
		if v < 0 {
			class = "index-negative"
		} else if v >= n {
			class = "index-ge-total"
		}
		add(label, class, v, g.bytes, g.aunts, fmt.Sprintf("genuine part %d offered with index %d", i, v))
	}
	idxMut("index=-1", -1)
	idxMut("index=-total", -n)
	idxMut("index=total", n)
	idxMut("index=total+1", n+1)
	idxMut("index=MaxInt", math.MaxInt64)
	idxMut("index=MinInt", math.MinInt64)
	if n <= 40 {
		for j := 0; j < n; j++ {
			idxMut("index=other-valid", j)
		}
	} else {
		for _, j := range []int{0, n - 1, i - 1, i + 1, i ^ 1, n / 2} {
			if j >= 0 && j < n {
				idxMut("index=other-valid", j)
			}
		}
		for k := 0; k < lib.Pick(8, 40); k++ {
			idxMut("index=other-valid", rng.Intn(n))
		}
	}
	// --- bytes ---
	L := len(g.bytes)
	var positions []int
	allBits := false
	if lib.Thorough() {
		positions = pickPositions(rng, L, 64, 128)
		allBits = L <= 64
	} else {
		positions = pickPositions(rng, L, 16, 6)
		allBits = L <= 4
	}
	for _, pos := range positions {
		if allBits {
			for bit := 0; bit < 8; bit++ {
				add("bytes-bitflip", "bytes-changed", i, flipBit(g.bytes, pos, bit), g.aunts, fmt.Sprintf("byte %d bit %d", pos, bit))
			}
		} else {
			bit := rng.Intn(8)
			add("bytes-bitflip", "bytes-changed", i, flipBit(g.bytes, pos, bit), g.aunts, fmt.Sprintf("byte %d bit %d", pos, bit))
		}
	}
	add("bytes-truncated", "bytes-changed", i, cloneBytes(g.bytes[:L-1]), g.aunts, "last byte dropped")
	add("bytes-first-dropped", "bytes-changed", i, cloneBytes(g.bytes[1:]), g.aunts, "first byte dropped")
	add("bytes-extended", "bytes-changed", i, append(cloneBytes(g.bytes), 0), g.aunts, "zero byte appended")
	if L > 1 {
		add("bytes-empty", "bytes-changed", i, []byte{}, g.aunts, "no bytes")
	}
	for j := 0; j < n && j < 40; j++ {
		if j != i && !bytes.Equal(cc.g[j].bytes, g.bytes) {
			add("bytes-of-other-part", "bytes-changed", i, cc.g[j].bytes, g.aunts, fmt.Sprintf("bytes of part %d", j))
		}
	}
	// --- proof ---
	d := len(g.aunts)
	for a := 0; a < d; a++ {
		al := len(g.aunts[a])
		var bits []int
		if lib.Thorough() && n <= 8 && cc.S <= 64 {
			for b := 0; b < al*8; b++ {
				bits = append(bits, b)
			}
		} else {
			bits = []int{0, al*8 - 1}
			for k := 0; k < lib.Pick(2, 8); k++ {
				bits = append(bits, rng.Intn(al*8))
			}
		}
		for _, b := range bits {
			m := cloneAunts(g.aunts)
			m[a][b/8] ^= 1 << uint(b%8)
			add("aunt-bitflip", "aunt-changed", i, g.bytes, m, fmt.Sprintf("aunt %d bit %d", a, b))
		}
		m := cloneAunts(g.aunts)
		m[a] = m[a][:al-1]
		add("aunt-truncated", "aunt-changed", i, g.bytes, m, fmt.Sprintf("aunt %d last byte dropped", a))
		m = cloneAunts(g.aunts)
		m[a] = append(m[a], 0)
		add("aunt-extended", "aunt-changed", i, g.bytes, m, fmt.Sprintf("aunt %d zero byte appended", a))
		m = cloneAunts(g.aunts)
		m[a] = []byte{}
		add("aunt-emptied", "aunt-changed", i, g.bytes, m, fmt.Sprintf("aunt %d emptied", a))
		m = cloneAunts(g.aunts)
		m[a] = hash.DoHash(g.bytes)
		add("aunt-replaced-by-leaf-hash", "aunt-changed", i, g.bytes, m, fmt.Sprintf("aunt %d = hash of the part", a))
		// missing
		m = append(cloneAunts(g.aunts[:a]), cloneAunts(g.aunts[a+1:])...)
		add("aunts-missing-one", "aunts-missing", i, g.bytes, m, fmt.Sprintf("aunt %d removed", a))
		// swapped
		if a+1 < d {
			m = cloneAunts(g.aunts)
			m[a], m[a+1] = m[a+1], m[a]
			add("aunts-swapped-adjacent", "aunts-swapped", i, g.bytes, m, fmt.Sprintf("aunts %d,%d swapped", a, a+1))
		}
	}
	if d >= 2 {
		add("aunts-missing-all", "aunts-missing", i, g.bytes, [][]byte{}, "no aunts")
		add("aunts-missing-all(nil)", "aunts-missing", i, g.bytes, nil, "nil aunts")
	}
	if d >= 3 {
		m := cloneAunts(g.aunts)
		for x, y := 0, d-1; x < y; x, y = x+1, y-1 {
			m[x], m[y] = m[y], m[x]
		}
		add("aunts-reversed", "aunts-swapped", i, g.bytes, m, "aunts reversed")
		m = cloneAunts(g.aunts)
		m[0], m[d-1] = m[d-1], m[0]
		add("aunts-swapped-ends", "aunts-swapped", i, g.bytes, m, "first and last aunt swapped")
	}
	// extra
	rnd := make([]byte, 20)
	rng.Read(rnd)
	leafH := hash.DoHash(g.bytes)
	var lastOrLeaf []byte
	if d > 0 {
		lastOrLeaf = g.aunts[d-1]
	} else {
		lastOrLeaf = leafH
	}
	add("aunts-extra-appended-copy", "aunts-extra", i, g.bytes, append(cloneAunts(g.aunts), cloneBytes(lastOrLeaf)), "copy of last aunt (or leaf hash) appended")
	add("aunts-extra-appended-random", "aunts-extra", i, g.bytes, append(cloneAunts(g.aunts), rnd), "random aunt appended")
	add("aunts-extra-appended-empty", "aunts-extra", i, g.bytes, append(cloneAunts(g.aunts), []byte{}), "empty aunt appended")
	add("aunts-extra-appended-root", "aunts-extra", i, g.bytes, append(cloneAunts(g.aunts), cloneBytes(cc.header.Hash)), "root appended")
	add("aunts-extra-prepended-random", "aunts-extra", i, g.bytes, append([][]byte{rnd}, cloneAunts(g.aunts)...), "random aunt prepended")
	add("aunts-extra-prepended-leaf", "aunts-extra", i, g.bytes, append([][]byte{leafH}, cloneAunts(g.aunts)...), "leaf hash prepended")
	// proof of another part
	for j := 0; j < n && j < 40; j++ {
		if j != i && !auntsEqual(cc.g[j].aunts, g.aunts) {
			add("proof-of-other-part", "aunt-changed", i, g.bytes, cc.g[j].aunts, fmt.Sprintf("proof of part %d", j))
		}
	}
	return out
}

// ---- permutations ----

func allPerms(n int) [][]int {
	var out [][]int
	p := make([]int, n)
	used := make([]bool, n)
	var rec func(k int)
	rec = func(k int) {
		if k == n {
			out = append(out, append([]int(nil), p...))
			return
		}
		for v := 0; v < n; v++ {
			if !used[v] {
				used[v] = true
				p[k] = v
				rec(k + 1)
				used[v] = false
			}
		}
	}
	rec(0)
	return out
}

// ---- one (part size, data length) case ----

func mkData(s, L int) ([]byte, string) {
	rng := lib.Rand("c17-data", int64(s)*1000003+int64(L))
	data := make([]byte, L)
	switch rng.Intn(8) {
	case 0:
		return data, "all-zero (identical parts)"
	case 1:
		pat := make([]byte, s)
		rng.Read(pat)
		for i := range data {
			data[i] = pat[i%s]
		}
		return data, "period = part size (identical full parts)"
	}
	rng.Read(data)
	return data, "random"
}

type caseSpec struct {
	S, L int
	Tag  string
}

func checkCase(cs caseSpec) {
	c := ctr{}
	defer c.flush()
	run.Eval()
	data, mode := mkData(cs.S, cs.L)
	cc := &caseCtx{S: cs.S, L: cs.L, tag: cs.Tag, dataMode: mode, data: cloneBytes(data), c: c,
		rng: lib.Rand("c17-case", int64(cs.S)*1000003+int64(cs.L))}
	chunks := refSplit(cc.data, cs.S)
	n := len(chunks)
	c.add("split_cases", 1)
	c.add(fmt.Sprintf("split_cases[s=%d]", cs.S), 1)
	run.Distinct("part_counts", fmt.Sprint(n))
	if n >= 2 {
		run.Nontrivial(fmt.Sprintf("split:s=%d,len=%d", cs.S, cs.L))
	}

	// ---- step 1: the sender's set against the reference ----
	var ps0 *types.PartSet
	func() {
		defer func() {
			if r := recover(); r != nil {
				run.Violation("split-panic", fmt.Sprintf("NewPartSetFromData(len %d, part size %d) panicked: %v [%s]", cs.L, cs.S, r, shortStack()), cc.witness(nil, nil, nil))
				ps0 = nil
			}
		}()
		ps0 = types.NewPartSetFromData(data, cs.S)
	}()
	if ps0 == nil {
		return
	}
	cc.header = ps0.Header()
	leaves := make([][]byte, n)
	for i := range chunks {
		leaves[i] = hash.DoHash(chunks[i])
	}
	if ps0.Total() != n || cc.header.Total != n {
		run.Violation("split-wrong-total", fmt.Sprintf("len %d, part size %d: %d parts, expected %d", cs.L, cs.S, ps0.Total(), n), cc.witness(nil, nil, nil))
		return
	}
	root := refRoot(leaves)
	if !bytes.Equal(cc.header.Hash, root) {
		run.Violation("split-root-differs-from-reference", fmt.Sprintf("len %d, part size %d: header hash %X, reference root %X", cs.L, cs.S, cc.header.Hash, root), cc.witness(nil, nil, nil))
		return
	}
	if !ps0.IsComplete() || ps0.Count() != n {
		run.Violation("split-sender-set-incomplete", "NewPartSetFromData returned an incomplete set", cc.witness(nil, nil, nil))
		return
	}
	cc.g = make([]genuine, n)
	for i := 0; i < n; i++ {
		p := ps0.GetPart(i)
		if p == nil || p.Index != i || !bytes.Equal(p.Bytes, chunks[i]) {
			run.Violation("split-wrong-part-bytes", fmt.Sprintf("part %d of len %d / part size %d differs from the reference chunk", i, cs.L, cs.S), cc.witness(nil, nil, nil))
			return
		}
		ra, _ := refProof(leaves, i)
		if !auntsEqual(p.Proof.Aunts, ra) {
			run.Violation("split-proof-differs-from-reference", fmt.Sprintf("proof of part %d of %d differs from the reference", i, n), cc.witness(nil, nil, map[string]interface{}{"got": auntsHex(p.Proof.Aunts), "ref": auntsHex(ra)}))
			return
		}
		// receivers get deep copies, nothing aliases the sender's buffers
		cc.g[i] = genuine{bytes: cloneBytes(p.Bytes), aunts: cloneAunts(p.Proof.Aunts)}
	}
	c.add("parts_checked_against_reference", int64(n))
	for _, bs := range []int{0, 1, 3, cs.S + 1, 512} {
		got, perr := readAllSafe(ps0.GetReader(), bs)
		c.add("reader_passes", 1)
		if perr != "" {
			run.Violation("reader-panic", fmt.Sprintf("reading the sender's set with buffer %d: %s", bs, perr), cc.witness(nil, nil, nil))
			return
		}
		if !bytes.Equal(got, cc.data) {
			run.Violation("reader-bytes-differ", fmt.Sprintf("reading the sender's set with buffer size %d gives %d bytes, original %d", bs, len(got), cs.L), cc.witness(nil, nil, map[string]interface{}{"got_hex": hexTrunc(got, 96), "buffer": bs}))
			return
		}
	}
	// determinism of the split
	if h2 := types.NewPartSetFromData(cloneBytes(cc.data), cs.S).Header(); !h2.Equals(cc.header) {
		run.Violation("split-nondeterministic", "the same data and part size give another header", cc.witness(nil, nil, nil))
		return
	}
	// the wire form of a part carries exactly index, bytes and aunts
	func() {
		defer func() {
			if r := recover(); r != nil {
				run.Violation("part-wire-roundtrip-panic", fmt.Sprint(r), cc.witness(nil, nil, nil))
			}
		}()
		k := cc.rng.Intn(n)
		bz := wire.BinaryBytes(ps0.GetPart(k))
		var nn int
		var err error
		dec := wire.ReadBinary(&types.Part{}, bytes.NewReader(bz), 0, &nn, &err).(*types.Part)
		c.add("wire_roundtrips", 1)
		if err != nil || dec.Index != k || !bytes.Equal(dec.Bytes, cc.g[k].bytes) || !auntsEqual(dec.Proof.Aunts, cc.g[k].aunts) {
			run.Violation("part-wire-roundtrip-differs", fmt.Sprintf("part %d decoded from its wire bytes differs (err=%v)", k, err), cc.witness(nil, nil, nil))
			return
		}
		rcv := types.NewPartSetFromHeader(cc.header)
		if added, err := rcv.AddPart(dec, true); !added || err != nil {
			run.Violation("addpart-rejects-genuine", fmt.Sprintf("part %d decoded from the wire refused: %v", k, err), cc.witness(nil, nil, nil))
		}
	}()

	// ---- step 2 (a): arrival orders with duplicates ----
	var perms [][]int
	if n <= 6 {
		perms = allPerms(n)
		c.add("permutations_exhaustive", int64(len(perms)))
	} else {
		np := lib.Pick(12, 60)
		for k := 0; k < np; k++ {
			p := cc.rng.Perm(n)
			switch k {
			case 0:
				for i := range p {
					p[i] = i
				}
			case 1:
				for i := range p {
					p[i] = n - 1 - i
				}
			}
			perms = append(perms, p)
		}
		c.add("permutations_random", int64(len(perms)))
	}
	for pi, perm := range perms {
		r := cc.newReceiver("arrival", nil)
		for k, idx := range perm {
			r.judge(cc.genuineOffer(idx))
			c.add("arrival_offers", 1)
			if cc.rng.Intn(2) == 0 {
				dup := cc.genuineOffer(perm[cc.rng.Intn(k+1)])
				dup.Kind = "genuine(duplicate)"
				r.judge(dup)
				c.add("arrival_duplicates", 1)
			}
		}
		if pi == 0 { // every part a second time on the complete set
			for _, idx := range perm {
				dup := cc.genuineOffer(idx)
				dup.Kind = "genuine(duplicate)"
				r.judge(dup)
				c.add("arrival_duplicates", 1)
			}
		}
		r.complete(perm, "arrival-order")
		if pi == 0 && r.ps.IsComplete() {
			got, _ := readAllSafe(r.ps.GetReader(), 0)
			if h3 := types.NewPartSetFromData(got, cs.S).Header(); !h3.Equals(cc.header) {
				run.Violation("reassembled-hash-differs", "splitting the reassembled bytes again gives another header", cc.witness(nil, r, nil))
			}
		}
	}

	// ---- step 3 (b): every single-field mutation, three receiver states ----
	var targets []int
	if n <= 8 {
		for i := 0; i < n; i++ {
			targets = append(targets, i)
		}
	} else {
		seen := map[int]bool{}
		for _, t := range []int{0, 1, n / 2, n - 2, n - 1} {
			if !seen[t] {
				seen[t] = true
				targets = append(targets, t)
			}
		}
		for len(targets) < lib.Pick(7, 16) && len(targets) < n {
			t := cc.rng.Intn(n)
			if !seen[t] {
				seen[t] = true
				targets = append(targets, t)
			}
		}
	}
	rEmpty := cc.newReceiver("empty", nil)
	var half []int
	for i := 0; i < n; i++ {
		if cc.rng.Intn(2) == 0 {
			half = append(half, i)
		}
	}
	rHalf := cc.newReceiver("partly-filled", half)
	for _, t := range targets {
		var others []int
		for i := 0; i < n; i++ {
			if i != t {
				others = append(others, i)
			}
		}
		rOthers := cc.newReceiver("all-but-target", others)
		muts := cc.mutations(t)
		c.add("mutated_parts", 1)
		for _, o := range muts {
			rEmpty.judge(o)
			rOthers.judge(o)
			rHalf.judge(o)
		}
		rOthers.complete([]int{t}, "after-refused-offers")
	}
	rEmpty.complete(cc.rng.Perm(n), "after-refused-offers")
	rHalf.complete(cc.rng.Perm(n), "after-refused-offers")
	c.add("receiver_resets", int64(rEmpty.resets+rHalf.resets))
	for i := range chunks { // nothing handed to AddPart may have been modified
		if !bytes.Equal(cc.g[i].bytes, chunks[i]) {
			run.Violation("addpart-modifies-offered-bytes", fmt.Sprintf("bytes of part %d changed while being offered", i), cc.witness(nil, nil, nil))
		}
	}
	if cs.S == 7 && cs.L == 22 || cs.S == 4096 && cs.L == 3*4096+1 {
		muts := cc.mutations(0)
		var examples []map[string]interface{}
		seenClass := map[string]bool{}
		for _, o := range muts {
			if seenClass[o.Class] {
				continue
			}
			seenClass[o.Class] = true
			added, err, pv, _ := safeAdd(types.NewPartSetFromHeader(cc.header), o.part())
			examples = append(examples, map[string]interface{}{"mutation": o.Kind, "note": o.Note, "index": o.Index, "added": added, "err": fmt.Sprint(err), "panic": fmt.Sprint(pv)})
		}
		run.Sample(map[string]interface{}{"part_size": cs.S, "data_len": cs.L, "parts": n, "header_hash": hex.EncodeToString(cc.header.Hash),
			"proof_of_part_0": auntsHex(cc.g[0].aunts), "permutations": len(perms), "mutations_of_part_0": len(muts), "offers_to_an_empty_receiver": examples})
	}
}
