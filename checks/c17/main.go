// C17 — block parts and Merkle proofs: only genuine parts accepted, exact
// reassembly.
//
// Monitors over the real types.PartSet / merkle.SimpleProof:
//
//	(a) data split with part size s and reassembled from its parts in any
//	    arrival order, with duplicates, reads back the identical bytes and
//	    reports the identical hash (all permutations for <= 6 parts, seeded
//	    random orders beyond);
//	(b) a receiver built from the PartSetHeader alone accepts an offered part
//	    iff it equals the genuine part at the offered index (bytes and aunts) and
//	    that slot is empty; every single-field mutation of index, bytes or proof
//	    is refused, does not panic, and leaves Count(), BitArray(), IsComplete(),
//	    GetPart() and later completion unchanged (three receiver states: empty,
//	    all-but-the-target, a seeded half);
//	(c) Merkle roots are deterministic and equal to an independent
//	    re-implementation (ref.go); every generated proof verifies; no proof
//	    verifies for another leaf, index or total (cross-verification matrix);
//	(d) one writer goroutine adding parts while readers call BitArray / GetPart /
//	    IsComplete / Count / HasHeader, in a -race build of this binary.
//
// Data length 0, part size <= 0 and headers with Total <= 0 are outside the
// domain: observed and counted, not judged.
package main

import (
	"bytes"
	"encoding/hex"
	"fmt"
	"os"
	"sort"
	"time"

	wire "github.com/dappledger/AnnChain/gemmill/go-wire"
	glog "github.com/dappledger/AnnChain/gemmill/modules/go-log"
	merkle "github.com/dappledger/AnnChain/gemmill/modules/go-merkle"
	"github.com/dappledger/AnnChain/gemmill/types"
	"go.uber.org/zap"

	"verif/lib"
)

var run *lib.Run

func buildCases() []caseSpec {
	var cases []caseSpec
	seen := map[[2]int]bool{}
	add := func(s, L int, tag string) {
		if L < 1 || seen[[2]int{s, L}] {
			return
		}
		seen[[2]int{s, L}] = true
		cases = append(cases, caseSpec{S: s, L: L, Tag: tag})
	}
	for _, s := range []int{1, 2, 3, 4, 7, 64, 4096} {
		if s == 4096 && !lib.Thorough() {
			for L := 1; L <= 8; L++ {
				add(s, L, "design-grid(boundary)")
			}
			for m := 1; m <= 3; m++ {
				for d := -2; d <= 2; d++ {
					if m*s+d <= 3*s+1 {
						add(s, m*s+d, "design-grid(boundary)")
					}
				}
			}
			rng := lib.Rand("c17-4096-lengths", 0)
			for k := 0; k < 600; k++ {
				add(s, 1+rng.Intn(3*s+1), "design-grid(seeded)")
			}
			continue
		}
		for L := 1; L <= 3*s+1; L++ {
			add(s, L, "design-grid")
		}
	}
	if lib.Thorough() { // further part sizes around the powers of two and a mid-sized one
		for _, s := range []int{5, 6, 8, 15, 16, 17, 63, 65, 100, 1024} {
			for L := 1; L <= 3*s+1; L++ {
				add(s, L, "extra-grid")
			}
		}
	}
	// more than four parts: all orders for 5 and 6 parts, seeded orders beyond
	totals := []int{5, 6, 7, 8, 9, 15, 16, 17, 31, 32, 33, 63, 64, 65, 100, 127, 128, 129, 255, 256, 257}
	for _, s := range []int{1, 2, 3, 7, 64} {
		for _, t := range totals {
			for _, tail := range []int{1, s - 1, s} {
				if tail >= 1 {
					add(s, (t-1)*s+tail, fmt.Sprintf("many-parts(%d)", t))
				}
			}
		}
	}
	// the part size nodes are configured with
	big := []int{1, 65535, 65536, 65537, 3*65536 + 1}
	if lib.Thorough() {
		big = append(big, 2*65536-1, 2*65536, 2*65536+1, 3*65536-1, 3*65536, 5*65536+17, 9*65536)
	}
	for _, L := range big {
		add(65536, L, "default-part-size")
	}
	// heavy cases first (better balance across workers)
	sort.SliceStable(cases, func(i, j int) bool { return cases[i].L > cases[j].L })
	return cases
}

// checkBlock: a real block through MakePartSet, an out-of-order receiver, and
// the decoding consensus performs on completion.
func checkBlock(k int) {
	c := ctr{}
	defer c.flush()
	run.Eval()
	rng := lib.Rand("c17-block", int64(k))
	ntx := rng.Intn(120)
	txs := make([]types.Tx, ntx)
	for i := range txs {
		txs[i] = make([]byte, 1+rng.Intn(400))
		rng.Read(txs[i])
	}
	rh := func(n int) []byte { b := make([]byte, n); rng.Read(b); return b }
	block := &types.Block{
		Header: &types.Header{
			ChainID: "c17", Height: int64(1 + rng.Intn(1000)), Time: time.Unix(1500000000+int64(k), 0).UTC(), NumTxs: int64(ntx),
			LastBlockID:    types.BlockID{Hash: rh(20), PartsHeader: types.PartSetHeader{Total: 1, Hash: rh(20)}},
			ValidatorsHash: rh(20), AppHash: rh(20), ReceiptsHash: rh(20), ProposerAddress: rh(20),
		},
		Data:       &types.Data{Txs: txs},
		LastCommit: &types.Commit{},
	}
	sizes := []int{64, 1000, 4096, 65536}
	s := sizes[rng.Intn(len(sizes))]
	var failed string
	func() {
		defer func() {
			if r := recover(); r != nil {
				failed = fmt.Sprintf("%v [%s]", r, shortStack())
			}
		}()
		block.FillHeader()
		ps := block.MakePartSet(s)
		raw := wire.BinaryBytes(block)
		n := ps.Total()
		run.Nontrivial(fmt.Sprintf("block:%d", k))
		rcv := types.NewPartSetFromHeader(ps.Header())
		for _, idx := range rng.Perm(n) {
			p := ps.GetPart(idx)
			fresh := &types.Part{Index: p.Index, Bytes: cloneBytes(p.Bytes), Proof: merkle.SimpleProof{Aunts: cloneAunts(p.Proof.Aunts)}}
			if added, err := rcv.AddPart(fresh, true); !added || err != nil {
				run.Violation("addpart-rejects-genuine", fmt.Sprintf("block case %d: genuine part %d of %d refused: %v", k, idx, n, err), map[string]interface{}{"block_case": k, "part_size": s})
				return
			}
			c.add("block_parts_added", 1)
		}
		if !rcv.IsComplete() {
			run.Violation("completion-fails-block", "block part set not complete after all parts", map[string]interface{}{"block_case": k, "part_size": s})
			return
		}
		got, perr := readAllSafe(rcv.GetReader(), 0)
		if perr != "" || !bytes.Equal(got, raw) {
			run.Violation("reassembled-bytes-differ-block", fmt.Sprintf("block case %d: reassembled bytes differ from the block's wire bytes (%s)", k, perr), map[string]interface{}{"block_case": k, "part_size": s, "len": len(raw)})
			return
		}
		var nn int
		var err error
		dec := wire.ReadBinary(&types.Block{}, rcv.GetReader(), types.MaxBlockSize, &nn, &err).(*types.Block)
		if err != nil || !bytes.Equal(dec.Hash(), block.Hash()) || !bytes.Equal(wire.BinaryBytes(dec), raw) {
			run.Violation("reassembled-block-differs", fmt.Sprintf("block case %d: block decoded from the complete set differs (err=%v)", k, err), map[string]interface{}{"block_case": k, "part_size": s})
			return
		}
		c.add("blocks_reassembled_and_decoded", 1)
		if k == 0 {
			run.Sample(map[string]interface{}{"block_case": k, "txs": ntx, "wire_len": len(raw), "part_size": s, "parts": n, "block_hash": hex.EncodeToString(block.Hash())})
		}
	}()
	if failed != "" {
		run.Violation("block-partset-panic", "block case panicked: "+failed, map[string]interface{}{"block_case": k, "part_size": s})
	}
}

// observeOOD records what the code does outside the property's domain.
func observeOOD() {
	var obs []map[string]interface{}
	try := func(name string, f func() string) {
		res := ""
		func() {
			defer func() {
				if r := recover(); r != nil {
					res = fmt.Sprintf("panic: %v", r)
					run.Count("out_of_domain_panics", 1)
				}
			}()
			res = f()
		}()
		run.Count("out_of_domain_observations", 1)
		if len(res) > 160 {
			res = res[:160]
		}
		obs = append(obs, map[string]interface{}{"input": name, "observed": res})
	}
	for _, s := range []int{1, 4, 4096} {
		s := s
		try(fmt.Sprintf("NewPartSetFromData(len 0, part size %d)", s), func() string {
			ps := types.NewPartSetFromData([]byte{}, s)
			return fmt.Sprintf("total=%d hash=%X complete=%v", ps.Total(), ps.Hash(), ps.IsComplete())
		})
		try(fmt.Sprintf("NewPartSetFromData(len 0, part size %d).GetReader()", s), func() string {
			b, perr := readAllSafe(types.NewPartSetFromData([]byte{}, s).GetReader(), 0)
			return fmt.Sprintf("read %d bytes %s", len(b), perr)
		})
	}
	for _, s := range []int{0, -1, -4} {
		for _, L := range []int{0, 1, 5} {
			s, L := s, L
			try(fmt.Sprintf("NewPartSetFromData(len %d, part size %d)", L, s), func() string {
				ps := types.NewPartSetFromData(make([]byte, L), s)
				return fmt.Sprintf("total=%d complete=%v", ps.Total(), ps.IsComplete())
			})
		}
	}
	for _, t := range []int{0, -1} {
		t := t
		try(fmt.Sprintf("NewPartSetFromHeader(Total %d) + AddPart(index 0)", t), func() string {
			ps := types.NewPartSetFromHeader(types.PartSetHeader{Total: t, Hash: []byte{1}})
			added, err := ps.AddPart(&types.Part{Index: 0, Bytes: []byte{1}}, true)
			return fmt.Sprintf("complete=%v added=%v err=%v", ps.IsComplete(), added, err)
		})
	}
	sp := &merkle.SimpleProof{}
	for _, it := range [][2]int{{0, 0}, {-1, 0}, {0, -1}, {-6, -5}} {
		it := it
		try(fmt.Sprintf("SimpleProof{}.Verify(index %d, total %d)", it[0], it[1]), func() string {
			return fmt.Sprintf("verifies=%v", sp.Verify(it[0], it[1], []byte{1}, []byte{1}))
		})
	}
	try("SimpleProofsFromHashables(no items)", func() string {
		r, p := merkle.SimpleProofsFromHashables(nil)
		return fmt.Sprintf("root=%X proofs=%d", r, len(p))
	})
	run.Extra("out_of_domain", obs)
}

func main() {
	glog.SetLog(zap.NewNop())
	if len(os.Args) > 1 && os.Args[1] == "race-child" {
		os.Exit(raceChild(os.Args[2:]))
	}
	run = lib.NewRun("C17", "exploration")
	run.SetRule("part sets: every data length 1..3s+1 for part sizes s in {1,2,3,4,7,64,4096} (quick: 4096 at its boundaries plus 600 seeded lengths; thorough adds s in {5,6,8,15,16,17,63,65,100,1024}), plus 5..257 parts at s in {1,2,3,7,64} with full/short last part and part size 65536; data seeded (random, all-zero or periodic so that identical parts occur). Per case: the sender's set against a reference split and reference Merkle tree; all arrival permutations (<=6 parts) or seeded ones, with duplicates; for every part (sampled beyond 8 parts) every single-field mutation of index/bytes/aunts offered to an empty, an all-but-target and a half-filled receiver, each offer judged against a model and followed by a full state comparison, then completion. Merkle trees of 1..257 items (20- and 32-byte leaves): full (index',total') matrix for <=33 items (thorough <=128), sampled beyond. Non-trivial: a part set with >=2 parts or a tree with >=2 items (distinct by sizes).")
	run.Assume(
		"hash.DoHash (RIPEMD-160, the hasher every node configures) is trusted as the primitive; the reference tree in checks/c17/ref.go shares nothing else with go-merkle",
		"the receiver is given a correct PartSetHeader (in consensus it comes from the signed proposal); headers with Total<=0 are out of domain",
		"an offer counts as genuine iff its bytes and aunts equal those of the genuine part at the offered index; a duplicate of a held part must be ignored (added=false), its error value is not judged",
		"SimpleProof has a single field (Aunts): there are no proof Index/Total fields to mutate",
		"race reports are attributed only when an access lies in part_set.go, bit_array.go or go-merkle",
	)
	run.Extra("proof_fields", "merkle.SimpleProof{Aunts [][]byte} only")

	raceDone := make(chan struct{})
	go func() {
		defer close(raceDone)
		runRace(lib.Pick(150, 1500))
	}()

	observeOOD()

	// the smallest cases first and one after the other, so that the first
	// witnesses of a defect class are minimal inputs; then the rest in parallel
	cases := buildCases()
	var small, rest []caseSpec
	for _, cs := range cases {
		if cs.L <= 13 && cs.S <= 4 {
			small = append(small, cs)
		} else {
			rest = append(rest, cs)
		}
	}
	sort.SliceStable(small, func(i, j int) bool {
		if small[i].L != small[j].L {
			return small[i].L < small[j].L
		}
		return small[i].S < small[j].S
	})
	for _, cs := range small {
		checkCase(cs)
	}
	lib.Parallel(len(rest), 16, func(i int) { checkCase(rest[i]) })

	// (c) Merkle trees
	type treeSpec struct {
		n, leafLen int
		full       bool
	}
	var trees []treeSpec
	fullMax := lib.Pick(33, 128)
	for n := 1; n <= 257; n++ {
		if n <= fullMax {
			trees = append(trees, treeSpec{n, 20, true})
			continue
		}
		trees = append(trees, treeSpec{n, 20, false})
	}
	for _, n := range []int{1, 2, 3, 4, 5, 6, 7, 8, 9, 13, 16, 17, 31, 32, 33} {
		trees = append(trees, treeSpec{n, 32, true})
	}
	if !lib.Thorough() {
		// quick: every tree up to 33 in full, beyond that a fixed boundary list plus seeded sizes
		keep := map[int]bool{}
		for _, n := range []int{34, 47, 48, 49, 63, 64, 65, 96, 100, 127, 128, 129, 191, 192, 193, 255, 256, 257} {
			keep[n] = true
		}
		rng := lib.Rand("c17-tree-sizes", 0)
		for len(keep) < 48 {
			keep[34+rng.Intn(224)] = true
		}
		var t2 []treeSpec
		for _, t := range trees {
			if t.n <= fullMax || keep[t.n] {
				t2 = append(t2, t)
			}
		}
		trees = t2
	}
	sort.SliceStable(trees, func(i, j int) bool { return trees[i].n > trees[j].n })
	var bigTrees []treeSpec
	for i := len(trees) - 1; i >= 0; i-- { // smallest trees first, sequentially (minimal witnesses)
		if trees[i].n <= 8 {
			checkTree(trees[i].n, trees[i].full, trees[i].leafLen)
		} else {
			bigTrees = append(bigTrees, trees[i])
		}
	}
	sort.SliceStable(bigTrees, func(i, j int) bool { return bigTrees[i].n > bigTrees[j].n })
	lib.Parallel(len(bigTrees), 16, func(i int) { checkTree(bigTrees[i].n, bigTrees[i].full, bigTrees[i].leafLen) })
	for n := 1; n <= 40; n++ {
		checkEqualLeavesTree(n)
	}

	nb := lib.Pick(24, 200)
	lib.Parallel(nb, 16, func(i int) { checkBlock(i) })

	<-raceDone

	run.Require("split_cases", int64(lib.Pick(1000, 16000)))
	run.Require("offers_total", int64(lib.Pick(1000000, 10000000)))
	run.Require("offers_rejected", int64(lib.Pick(600000, 8000000)))
	run.Require("offers_accepted", 200000)
	run.Require("offers[index=-1]", 8000)
	run.Require("offers[index=total]", 8000)
	run.Require("offers[index=MaxInt]", 8000)
	run.Require("offers[index=MinInt]", 8000)
	run.Require("offers[index=other-valid]", 50000)
	run.Require("offers[bytes-bitflip]", 80000)
	run.Require("offers[aunt-bitflip]", 100000)
	run.Require("offers[aunts-missing-one]", 25000)
	run.Require("offers[aunts-swapped-adjacent]", 15000)
	run.Require("offers[aunts-extra-appended-copy]", 8000)
	run.Require("permutations_exhaustive", 10000)
	run.Require("permutations_random", 2000)
	run.Require("arrival_duplicates", 100000)
	run.Require("completions_checked", 15000)
	run.Require("trees", 90)
	run.Require("generated_proofs", 6000)
	run.Require("matrix_cells", int64(lib.Pick(2000000, 50000000)))
	run.Require("field_mutations", 50000)
	run.Require("blocks_reassembled_and_decoded", int64(nb))
	run.Require("race_writer_offers", int64(lib.Pick(2000, 20000)))
	run.Require("race_reader_calls_while_writer_active", 100000)
	for _, k := range []string{"BitArray", "GetPart", "IsComplete", "Count", "HasHeader", "BitArray+GetPart"} {
		run.Require("race_reader_calls["+k+"]", 10000)
	}
	os.Exit(run.Finish())
}
