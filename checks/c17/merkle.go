package main

// (c) simple Merkle tree: deterministic roots equal to the reference, every
// generated proof verifies, and the cross-verification matrix: the proof of
// leaf i in a tree of n leaves must verify for (index', total', leaf') only
// when index'=i, total'=n, leaf'=leaf i.

import (
	"bytes"
	"encoding/hex"
	"fmt"
	"math"
	"sort"

	merkle "github.com/dappledger/AnnChain/gemmill/modules/go-merkle"

	"verif/lib"
)

type leafH []byte

func (l leafH) Hash() []byte { return l }

func safeVerify(p *merkle.SimpleProof, i, n int, leaf, root []byte) (ok bool, pv interface{}, stack string) {
	defer func() {
		if r := recover(); r != nil {
			pv = r
			stack = panicStack()
		}
	}()
	ok = p.Verify(i, n, leaf, root)
	return
}

func totalsFor(n int, full bool, rngSeed int64) []int {
	set := map[int]bool{}
	if full {
		for t := 1; t <= n+3; t++ {
			set[t] = true
		}
		for t := 34; t <= 36; t++ { // the matrix of every small tree reaches at least 36
			set[t] = true
		}
		for _, t := range []int{2*n - 1, 2 * n, 2*n + 1, 4 * n} {
			set[t] = true
		}
	} else {
		for _, t := range []int{1, 2, 3, n/2 - 1, n / 2, n/2 + 1, 2*n - 1, 2 * n, 2*n + 1} {
			set[t] = true
		}
		for t := n - 3; t <= n+3; t++ {
			set[t] = true
		}
		p := 1
		for p < n {
			p *= 2
		}
		for _, t := range []int{p - 1, p, p + 1, p/2 - 1, p / 2, p/2 + 1} {
			set[t] = true
		}
		rng := lib.Rand("c17-totals", rngSeed)
		for k := 0; k < lib.Pick(8, 24); k++ {
			set[1+rng.Intn(2*n)] = true
		}
	}
	var out []int
	for t := range set {
		if t >= 1 {
			out = append(out, t)
		}
	}
	sort.Ints(out)
	return out
}

func checkTree(n int, full bool, leafLen int) {
	c := ctr{}
	defer c.flush()
	run.Eval()
	if n >= 2 {
		run.Nontrivial(fmt.Sprintf("tree:n=%d,leaf=%d", n, leafLen))
	}
	c.add("trees", 1)
	rng := lib.Rand("c17-leaves", int64(n)*100+int64(leafLen))
	leaves := make([][]byte, n)
	items := make([]merkle.Hashable, n)
	for i := range leaves {
		leaves[i] = make([]byte, leafLen)
		rng.Read(leaves[i])
		items[i] = leafH(leaves[i])
	}
	wit := func(extra map[string]interface{}) map[string]interface{} {
		w := map[string]interface{}{"items": n, "leaf_len": leafLen, "leaves_rule": fmt.Sprintf("lib.Rand(\"c17-leaves\", %d) under VERIF_SEED=%d", n*100+leafLen, lib.Seed())}
		if n <= 8 {
			var l []string
			for _, x := range leaves {
				l = append(l, hex.EncodeToString(x))
			}
			w["leaves"] = l
		}
		for k, v := range extra {
			w[k] = v
		}
		return w
	}
	ref := refRoot(leaves)
	var root []byte
	var proofs []*merkle.SimpleProof
	ok := func() (ok bool) {
		defer func() {
			if r := recover(); r != nil {
				run.Violation("merkle-build-panic", fmt.Sprintf("building a tree of %d items panicked: %v [%s]", n, r, shortStack()), wit(nil))
				ok = false
			}
		}()
		r1 := merkle.SimpleHashFromHashables(items)
		r2 := merkle.SimpleHashFromHashes(leaves)
		r3, p3 := merkle.SimpleProofsFromHashables(items)
		r4, p4 := merkle.SimpleProofsFromHashables(items)
		r5 := merkle.SimpleHashFromHashables(items)
		c.add("roots_computed", 5)
		if !bytes.Equal(r1, r5) || !bytes.Equal(r3, r4) {
			run.Violation("root-nondeterministic", fmt.Sprintf("two computations over the same %d items give different roots", n), wit(nil))
			return false
		}
		if !bytes.Equal(r1, r2) || !bytes.Equal(r1, r3) {
			run.Violation("root-apis-disagree", fmt.Sprintf("SimpleHashFromHashables / SimpleHashFromHashes / SimpleProofsFromHashables disagree for %d items", n), wit(nil))
			return false
		}
		if !bytes.Equal(r1, ref) {
			run.Violation("root-differs-from-reference", fmt.Sprintf("%d items: root %X, reference %X", n, r1, ref), wit(nil))
			return false
		}
		if len(p3) != n || len(p4) != n {
			run.Violation("proof-count-wrong", fmt.Sprintf("%d proofs for %d items", len(p3), n), wit(nil))
			return false
		}
		for i := range p3 {
			if !auntsEqual(p3[i].Aunts, p4[i].Aunts) {
				run.Violation("proof-nondeterministic", fmt.Sprintf("proof %d of %d differs between two runs", i, n), wit(nil))
				return false
			}
		}
		root, proofs = r3, p3
		return true
	}()
	if !ok {
		return
	}
	c.add("roots_equal_reference", 1)

	verify := func(p *merkle.SimpleProof, i, t int, leaf, rt []byte, ctx string) (bool, bool) {
		v, pv, st := safeVerify(p, i, t, leaf, rt)
		c.add("verify_calls", 1)
		if pv != nil {
			key := "verify-panic"
			if i < 0 {
				key = "verify-negative-index-panic"
			}
			violate(key, func() (string, interface{}) {
				return fmt.Sprintf("Verify(index %d, total %d) panicked (%s): %v [%s]", i, t, ctx, pv, st), wit(map[string]interface{}{"index": i, "total": t, "ctx": ctx})
			})
			return false, false
		}
		return v, true
	}

	shapes := make([]string, n)
	for i := 0; i < n; i++ {
		ra, sh := refProof(leaves, i)
		shapes[i] = sh
		if !auntsEqual(proofs[i].Aunts, ra) {
			run.Violation("proof-differs-from-reference", fmt.Sprintf("proof of item %d of %d differs from the reference", i, n), wit(map[string]interface{}{"got": auntsHex(proofs[i].Aunts), "ref": auntsHex(ra)}))
			return
		}
		v, _ := verify(proofs[i], i, n, leaves[i], root, "own cell")
		c.add("generated_proofs", 1)
		if !v {
			run.Violation("generated-proof-does-not-verify", fmt.Sprintf("proof of item %d of %d does not verify", i, n), wit(map[string]interface{}{"index": i}))
			return
		}
		c.add("generated_proofs_verified", 1)
		if !refVerify(i, n, leaves[i], proofs[i].Aunts, root) {
			run.Violation("generated-proof-fails-reference-verifier", fmt.Sprintf("proof of item %d of %d fails the reference verifier", i, n), wit(nil))
			return
		}
		if gr := proofs[i].GenRoot(i, n, leaves[i]); !bytes.Equal(gr, root) {
			run.Violation("genroot-differs", fmt.Sprintf("GenRoot of item %d of %d is not the root", i, n), wit(nil))
		}
	}

	// which proofs go through the matrix
	var targets []int
	if full || n <= 12 {
		for i := 0; i < n; i++ {
			targets = append(targets, i)
		}
	} else {
		seen := map[int]bool{}
		for _, t := range []int{0, 1, (n+1)/2 - 1, (n + 1) / 2, n - 2, n - 1} {
			if t >= 0 && t < n && !seen[t] {
				seen[t] = true
				targets = append(targets, t)
			}
		}
		for len(targets) < lib.Pick(9, 20) && len(targets) < n {
			t := rng.Intn(n)
			if !seen[t] {
				seen[t] = true
				targets = append(targets, t)
			}
		}
	}
	totals := totalsFor(n, full, int64(n))
	for _, i := range targets {
		p := proofs[i]
		// --- (index', total') matrix with the genuine leaf ---
		for _, t := range totals {
			idxs := make([]int, 0, t+9)
			for x := -2; x <= t+1; x++ {
				idxs = append(idxs, x)
			}
			for _, x := range []int{-t, -t - 1, math.MinInt64, math.MaxInt64, math.MinInt64 + 1} {
				if x < -2 || x > t+1 {
					idxs = append(idxs, x)
				}
			}
			for _, x := range idxs {
				if x == i && t == n {
					continue
				}
				v, okc := verify(p, x, t, leaves[i], root, "matrix")
				c.add("matrix_cells", 1)
				if !okc || !v {
					continue
				}
				c.add("matrix_cells_wrongly_verified", 1)
				var key string
				sameShape := refShape(x, t) == shapes[i]
				switch {
				case x < 0:
					key = "proof-verifies-under-negative-index"
					c.add("verified[negative index]", 1)
				case x >= t:
					key = "proof-verifies-under-index-ge-total"
				case t == n:
					key = "proof-verifies-under-other-index"
				case sameShape:
					key = "proof-verifies-under-other-total"
					c.add("verified[other total, same path shape]", 1)
				default:
					key = "proof-verifies-under-other-total-different-path-shape"
				}
				x, t := x, t
				violate(key, func() (string, interface{}) {
					return fmt.Sprintf("proof of item %d in a tree of %d items (path %q) also verifies as (index %d, total %d) (path %q) against the same root", i, n, shapes[i], x, t, refShape(x, t)),
						wit(map[string]interface{}{"proof_index": i, "proof_total": n, "path": shapes[i], "verified_index": x, "verified_total": t, "verified_path": refShape(x, t),
							"leaf": hex.EncodeToString(leaves[i]), "aunts": auntsHex(p.Aunts), "root": hex.EncodeToString(root)})
				})
			}
		}
		// --- other leaves ---
		for j := 0; j < n; j++ {
			if j == i {
				continue
			}
			if v, _ := verify(p, i, n, leaves[j], root, "other leaf"); v {
				run.Violation("proof-verifies-for-other-leaf", fmt.Sprintf("proof of item %d of %d verifies leaf %d at index %d", i, n, j, i), wit(map[string]interface{}{"proof_index": i, "leaf_index": j}))
			}
			if v, _ := verify(p, j, n, leaves[j], root, "other leaf at its index"); v {
				run.Violation("proof-verifies-for-other-leaf", fmt.Sprintf("proof of item %d of %d verifies leaf %d at index %d", i, n, j, j), wit(map[string]interface{}{"proof_index": i, "leaf_index": j}))
			}
			c.add("other_leaf_cells", 2)
		}
		// --- single-field changes of leaf, root and aunts ---
		for b := 0; b < leafLen*8; b += 1 + (leafLen*8)/16 {
			ml := cloneBytes(leaves[i])
			ml[b/8] ^= 1 << uint(b%8)
			c.add("field_mutations", 1)
			if v, _ := verify(p, i, n, ml, root, "leaf bit"); v {
				run.Violation("proof-verifies-for-other-leaf", fmt.Sprintf("proof of item %d of %d verifies a leaf with bit %d flipped", i, n, b), wit(nil))
			}
			mr := cloneBytes(root)
			mr[(b/8)%len(mr)] ^= 1 << uint(b%8)
			c.add("field_mutations", 1)
			if v, _ := verify(p, i, n, leaves[i], mr, "root bit"); v {
				run.Violation("proof-verifies-against-other-root", fmt.Sprintf("proof of item %d of %d verifies against a root with a bit flipped", i, n), wit(nil))
			}
		}
		for a := range p.Aunts {
			for _, b := range []int{0, 7, len(p.Aunts[a])*8 - 1, rng.Intn(len(p.Aunts[a]) * 8)} {
				m := &merkle.SimpleProof{Aunts: cloneAunts(p.Aunts)}
				m.Aunts[a][b/8] ^= 1 << uint(b%8)
				c.add("field_mutations", 1)
				if v, _ := verify(m, i, n, leaves[i], root, "aunt bit"); v {
					run.Violation("proof-with-changed-aunt-verifies", fmt.Sprintf("proof of item %d of %d verifies with aunt %d bit %d flipped", i, n, a, b), wit(nil))
				}
			}
			m := &merkle.SimpleProof{Aunts: append(cloneAunts(p.Aunts[:a]), cloneAunts(p.Aunts[a+1:])...)}
			c.add("field_mutations", 1)
			if v, _ := verify(m, i, n, leaves[i], root, "aunt missing"); v {
				run.Violation("proof-with-missing-aunt-verifies", fmt.Sprintf("proof of item %d of %d verifies without aunt %d", i, n, a), wit(nil))
			}
			if a+1 < len(p.Aunts) && !bytes.Equal(p.Aunts[a], p.Aunts[a+1]) {
				m := &merkle.SimpleProof{Aunts: cloneAunts(p.Aunts)}
				m.Aunts[a], m.Aunts[a+1] = m.Aunts[a+1], m.Aunts[a]
				c.add("field_mutations", 1)
				if v, _ := verify(m, i, n, leaves[i], root, "aunts swapped"); v {
					run.Violation("proof-with-swapped-aunts-verifies", fmt.Sprintf("proof of item %d of %d verifies with aunts %d,%d swapped", i, n, a, a+1), wit(nil))
				}
			}
		}
		for _, extra := range [][]byte{leaves[i], root, {}, bytes.Repeat([]byte{0}, leafLen)} {
			m := &merkle.SimpleProof{Aunts: append(cloneAunts(p.Aunts), cloneBytes(extra))}
			c.add("field_mutations", 1)
			if v, _ := verify(m, i, n, leaves[i], root, "aunt appended"); v {
				run.Violation("proof-with-extra-aunt-verifies", fmt.Sprintf("proof of item %d of %d verifies with an extra aunt appended", i, n), wit(nil))
			}
			m = &merkle.SimpleProof{Aunts: append([][]byte{cloneBytes(extra)}, cloneAunts(p.Aunts)...)}
			c.add("field_mutations", 1)
			if v, _ := verify(m, i, n, leaves[i], root, "aunt prepended"); v {
				run.Violation("proof-with-extra-aunt-verifies", fmt.Sprintf("proof of item %d of %d verifies with an extra aunt prepended", i, n), wit(nil))
			}
		}
	}
	if n == 7 && leafLen == 20 {
		run.Sample(map[string]interface{}{"tree_items": n, "root": hex.EncodeToString(root), "paths": shapes, "proof_of_item_6": auntsHex(proofs[6].Aunts), "totals_in_matrix": totals})
	}
}

// trees whose leaves are all equal: positive statements only (a "different
// leaf" does not exist there).
func checkEqualLeavesTree(n int) {
	c := ctr{}
	defer c.flush()
	run.Eval()
	leaf := bytes.Repeat([]byte{0xab}, 20)
	leaves := make([][]byte, n)
	items := make([]merkle.Hashable, n)
	for i := range leaves {
		leaves[i] = leaf
		items[i] = leafH(leaf)
	}
	defer func() {
		if r := recover(); r != nil {
			run.Violation("merkle-build-panic", fmt.Sprintf("equal-leaves tree of %d items panicked: %v", n, r), map[string]interface{}{"items": n})
		}
	}()
	root, proofs := merkle.SimpleProofsFromHashables(items)
	c.add("equal_leaf_trees", 1)
	if !bytes.Equal(root, refRoot(leaves)) {
		run.Violation("root-differs-from-reference", fmt.Sprintf("equal-leaves tree of %d items: root differs from reference", n), map[string]interface{}{"items": n, "leaf": hex.EncodeToString(leaf)})
		return
	}
	for i, p := range proofs {
		c.add("generated_proofs", 1)
		if !p.Verify(i, n, leaf, root) {
			run.Violation("generated-proof-does-not-verify", fmt.Sprintf("equal-leaves tree: proof %d of %d does not verify", i, n), map[string]interface{}{"items": n, "index": i})
			return
		}
		c.add("generated_proofs_verified", 1)
	}
}
