package main

// (d) one consensus-style writer adds parts while reader goroutines use the
// accessors other goroutines of a node use. The child (a -race build of this
// binary) runs the workload; the parent counts and attributes the race
// detector's reports.

import (
	"bytes"
	"encoding/json"
	"fmt"
	"os"
	"os/exec"
	"path/filepath"
	"regexp"
	"runtime"
	"sort"
	"strconv"
	"strings"
	"sync"
	"sync/atomic"
	"time"

	merkle "github.com/dappledger/AnnChain/gemmill/modules/go-merkle"
	"github.com/dappledger/AnnChain/gemmill/types"

	"verif/lib"
)

type raceResult struct {
	Rounds       int              `json:"rounds"`
	Calls        map[string]int64 `json:"reader_calls"`
	WriterOffers int64            `json:"writer_offers"`
	WriterAdded  int64            `json:"writer_added"`
	WriterRefuse int64            `json:"writer_refused"`
	Semantic     []string         `json:"semantic_violations"`
	Overlapped   int64            `json:"reader_calls_while_writer_active"`
}

func raceChild(args []string) int {
	rounds := 50
	if len(args) > 0 {
		if v, err := strconv.Atoi(args[0]); err == nil {
			rounds = v
		}
	}
	res := raceResult{Rounds: rounds, Calls: map[string]int64{}}
	var resMtx sync.Mutex
	semantic := func(s string) {
		resMtx.Lock()
		if len(res.Semantic) < 20 {
			res.Semantic = append(res.Semantic, s)
		}
		resMtx.Unlock()
	}
	for r := 0; r < rounds; r++ {
		rng := lib.Rand("c17-race", int64(r))
		n := 1 + rng.Intn(24)
		s := 1 + rng.Intn(64)
		L := (n-1)*s + 1 + rng.Intn(s)
		data := make([]byte, L)
		rng.Read(data)
		ps0 := types.NewPartSetFromData(cloneBytes(data), s)
		header := ps0.Header()
		gen := make([]genuine, n)
		for i := 0; i < n; i++ {
			p := ps0.GetPart(i)
			gen[i] = genuine{bytes: cloneBytes(p.Bytes), aunts: cloneAunts(p.Proof.Aunts)}
		}
		rcv := types.NewPartSetFromHeader(header)
		// the writer's script: every genuine part once in a seeded order, with
		// duplicates and refused offers in between (no offer that would panic)
		type wo struct {
			p      *types.Part
			expect bool
		}
		var script []wo
		mk := func(i int, b []byte, a [][]byte) *types.Part {
			return &types.Part{Index: i, Bytes: b, Proof: merkle.SimpleProof{Aunts: a}}
		}
		perm := rng.Perm(n)
		for k, idx := range perm {
			switch rng.Intn(4) {
			case 0:
				bad := cloneBytes(gen[idx].bytes)
				bad[rng.Intn(len(bad))] ^= 0x10
				script = append(script, wo{mk(idx, bad, gen[idx].aunts), false})
			case 1:
				script = append(script, wo{mk(n, gen[idx].bytes, gen[idx].aunts), false})
			}
			script = append(script, wo{mk(idx, gen[idx].bytes, gen[idx].aunts), true})
			if rng.Intn(3) == 0 {
				d := perm[rng.Intn(k+1)]
				script = append(script, wo{mk(d, gen[d].bytes, gen[d].aunts), false})
			}
		}
		var done int32
		var started, wg sync.WaitGroup
		calls := make([]int64, 6)
		overl := make([]int64, 6)
		kinds := []string{"BitArray", "GetPart", "IsComplete", "Count", "HasHeader", "BitArray+GetPart"}
		const minIter = 300
		for k := range kinds {
			wg.Add(1)
			started.Add(1)
			go func(k int) {
				defer wg.Done()
				prevCount, prevComplete := 0, false
				var prevBits []uint64
				lr := lib.Rand("c17-race-reader", int64(r*10+k))
				started.Done()
				for it := 0; ; it++ {
					fin := atomic.LoadInt32(&done) == 1
					if fin && it >= minIter {
						break
					}
					if !fin {
						overl[k]++
					}
					calls[k]++
					switch k {
					case 0:
						ba := rcv.BitArray()
						if ba == nil || ba.Bits != n {
							semantic("BitArray(): wrong size")
							return
						}
						for e := range ba.Elems {
							if prevBits != nil && prevBits[e]&^ba.Elems[e] != 0 {
								semantic(fmt.Sprintf("BitArray(): a bit that was set is clear again (round %d)", r))
								return
							}
						}
						prevBits = ba.Elems
					case 1:
						i := lr.Intn(n)
						if p := rcv.GetPart(i); p != nil {
							if p.Index != i || !bytes.Equal(p.Bytes, gen[i].bytes) || !auntsEqual(p.Proof.Aunts, gen[i].aunts) {
								semantic(fmt.Sprintf("GetPart(%d) returned a part that is not the genuine one (round %d)", i, r))
								return
							}
						}
					case 2:
						c := rcv.IsComplete()
						if prevComplete && !c {
							semantic("IsComplete() went back to false")
							return
						}
						prevComplete = c
					case 3:
						c := rcv.Count()
						if c < prevCount || c > n {
							semantic(fmt.Sprintf("Count() went from %d to %d of %d", prevCount, c, n))
							return
						}
						prevCount = c
					case 4:
						if !rcv.HasHeader(header) {
							semantic("HasHeader(header) false")
							return
						}
					case 5: // what gossipDataRoutine does: pick a set bit, fetch the part
						ba := rcv.BitArray()
						for i := 0; i < n; i++ {
							if ba.Elems[i/64]>>(uint(i)%64)&1 == 1 {
								if p := rcv.GetPart(i); p == nil {
									semantic(fmt.Sprintf("bit %d set in BitArray() but GetPart(%d) is nil (round %d)", i, i, r))
									return
								} else if !bytes.Equal(p.Bytes, gen[i].bytes) {
									semantic(fmt.Sprintf("bit %d set, GetPart(%d) holds other bytes (round %d)", i, i, r))
									return
								}
							}
						}
					}
					if it%4 == 3 {
						runtime.Gosched()
					}
				}
			}(k)
		}
		started.Wait()
		for _, w := range script {
			added, _ := rcv.AddPart(w.p, true)
			res.WriterOffers++
			if added {
				res.WriterAdded++
			} else {
				res.WriterRefuse++
			}
			if added != w.expect {
				semantic(fmt.Sprintf("writer: AddPart(index %d) added=%v, expected %v (round %d)", w.p.Index, added, w.expect, r))
			}
			runtime.Gosched()
		}
		if !rcv.IsComplete() {
			semantic(fmt.Sprintf("writer: set not complete after all parts (round %d)", r))
		}
		atomic.StoreInt32(&done, 1)
		wg.Wait()
		for k, name := range kinds {
			res.Calls[name] += calls[k]
			res.Overlapped += overl[k]
		}
	}
	b, _ := json.Marshal(res)
	fmt.Println("RACE-CHILD-RESULT " + string(b))
	return 0
}

// ---- parent side ----

type raceReport struct {
	A, B       string // first frame of each access (function, line-stripped file)
	Attributed bool
	Text       string
}

var (
	reAccess = regexp.MustCompile(`(?m)^(Read|Write|Previous read|Previous write|Atomic read|Atomic write|Previous atomic read|Previous atomic write) at 0x[0-9a-f]+ by .*:$`)
)

func shortFunc(fn string) string {
	fn = strings.TrimSpace(fn)
	if i := strings.LastIndex(fn, "/"); i >= 0 {
		fn = fn[i+1:]
	}
	if i := strings.Index(fn, "("); i >= 0 && strings.HasSuffix(fn, ")") && !strings.HasPrefix(fn[i:], "(*") {
		fn = fn[:i]
	}
	fn = strings.TrimSuffix(fn, "()")
	fn = strings.Replace(fn, "(*", "", -1)
	fn = strings.Replace(fn, ")", "", -1)
	return fn
}

func parseRaceReports(stderr string) []raceReport {
	var out []raceReport
	for _, blk := range strings.Split(stderr, "==================") {
		if !strings.Contains(blk, "WARNING: DATA RACE") {
			continue
		}
		lines := strings.Split(blk, "\n")
		var firsts []string
		var files []string
		for i, ln := range lines {
			if reAccess.MatchString(ln) {
				// the first frame whose file is not the Go runtime / sync package
				for j := i + 1; j+1 < len(lines) && strings.TrimSpace(lines[j]) != ""; j += 2 {
					file := strings.TrimSpace(lines[j+1])
					if strings.Contains(file, "/src/runtime/") || strings.Contains(file, "/src/sync/") || strings.Contains(file, "/src/internal/") {
						continue
					}
					firsts = append(firsts, shortFunc(lines[j]))
					files = append(files, file)
					break
				}
			}
		}
		rep := raceReport{Text: strings.TrimSpace(blk)}
		if len(firsts) >= 2 {
			rep.A, rep.B = firsts[0], firsts[1]
		} else if len(firsts) == 1 {
			rep.A, rep.B = firsts[0], "?"
		} else {
			rep.A, rep.B = "?", "?"
		}
		for _, f := range files {
			if strings.Contains(f, "/gemmill/types/part_set.go") || strings.Contains(f, "/go-common/bit_array.go") || strings.Contains(f, "/go-merkle/") {
				rep.Attributed = true
			}
		}
		out = append(out, rep)
	}
	return out
}

func runRace(rounds int) {
	bin := os.Getenv("VERIF_RACE_BIN")
	if bin == "" {
		run.Inconclusive("VERIF_RACE_BIN not set: the -race child was not run (start the check through ./check)")
		return
	}
	scratch := lib.Scratch("C17")
	defer os.RemoveAll(scratch)
	var stdout, stderr []byte
	var timedOut bool
	allow := 6 * time.Minute
	for attempt := 0; attempt < 2; attempt++ {
		outF := filepath.Join(scratch, fmt.Sprintf("race-%d.out", attempt))
		errF := filepath.Join(scratch, fmt.Sprintf("race-%d.err", attempt))
		of, _ := os.Create(outF)
		ef, _ := os.Create(errF)
		cmd := exec.Command(bin, "race-child", strconv.Itoa(rounds))
		cmd.Env = append(os.Environ(), "GORACE=halt_on_error=0 exitcode=0")
		cmd.Stdout, cmd.Stderr = of, ef
		timedOut = false
		if err := cmd.Start(); err != nil {
			run.Inconclusive("cannot start the -race child: " + err.Error())
			return
		}
		doneCh := make(chan error, 1)
		go func() { doneCh <- cmd.Wait() }()
		select {
		case <-doneCh:
		case <-time.After(allow):
			timedOut = true
			cmd.Process.Kill()
			<-doneCh
		}
		of.Close()
		ef.Close()
		stdout, _ = readFile(outF)
		stderr, _ = readFile(errF)
		if !timedOut {
			break
		}
		allow *= 2
	}
	if timedOut {
		run.Inconclusive("the -race child did not finish within the watchdog allowance (twice)")
		return
	}
	var res raceResult
	found := false
	for _, ln := range strings.Split(string(stdout), "\n") {
		if strings.HasPrefix(ln, "RACE-CHILD-RESULT ") {
			if json.Unmarshal([]byte(strings.TrimPrefix(ln, "RACE-CHILD-RESULT ")), &res) == nil {
				found = true
			}
		}
	}
	if !found {
		tail := string(stderr)
		if len(tail) > 1500 {
			tail = tail[len(tail)-1500:]
		}
		run.Violation("race-child-crashed", "the concurrent writer/readers workload ended without a result (crash): "+lastLines(tail, 12), map[string]interface{}{"stderr_tail": tail, "stdout": string(stdout)})
		return
	}
	run.Count("race_rounds", int64(res.Rounds))
	run.Count("race_writer_offers", res.WriterOffers)
	run.Count("race_writer_added", res.WriterAdded)
	run.Count("race_writer_refused", res.WriterRefuse)
	run.Count("race_reader_calls_while_writer_active", res.Overlapped)
	var names []string
	for k := range res.Calls {
		names = append(names, k)
	}
	sort.Strings(names)
	for _, k := range names {
		run.Count("race_reader_calls["+k+"]", res.Calls[k])
		run.Count("race_reader_calls", res.Calls[k])
	}
	for _, s := range res.Semantic {
		what := "reader"
		if strings.HasPrefix(s, "writer") {
			what = "writer"
		} else if strings.Contains(s, "GetPart(") && strings.Contains(s, "nil") {
			what = "bit-set-without-part"
		}
		run.Violation("concurrent-"+what+"-observation-wrong", "under concurrent readers: "+s, map[string]interface{}{"observations": res.Semantic, "workload": "race-child " + strconv.Itoa(rounds)})
	}
	reports := parseRaceReports(string(stderr))
	run.Count("race_reports", int64(len(reports)))
	type agg struct {
		n    int
		text string
	}
	byKey := map[string]*agg{}
	var order []string
	for _, rp := range reports {
		pair := []string{rp.A, rp.B}
		sort.Strings(pair)
		key := "race-" + pair[0] + "-vs-" + pair[1]
		key = strings.Replace(key, "types.", "", -1)
		key = strings.Replace(key, "common.", "", -1)
		if !rp.Attributed {
			key = "unattributed:" + key
		}
		if byKey[key] == nil {
			byKey[key] = &agg{text: rp.Text}
			order = append(order, key)
		}
		byKey[key].n++
	}
	var summary []map[string]interface{}
	for _, key := range order {
		a := byKey[key]
		summary = append(summary, map[string]interface{}{"key": key, "reports": a.n})
		if strings.HasPrefix(key, "unattributed:") {
			run.Count("race_reports_unattributed", int64(a.n))
			run.Inconclusive("race report outside part_set.go / bit_array.go / go-merkle (harness?): " + key)
			fmt.Println(a.text)
			continue
		}
		run.Count("race_reports_attributed", int64(a.n))
		txt := a.text
		if len(txt) > 2500 {
			txt = txt[:2500] + "\n..."
		}
		run.Violation(key, fmt.Sprintf("data race reported by the Go race detector (%d report(s)) between a consensus-style AddPart writer and a concurrent reader: %s", a.n, strings.TrimPrefix(key, "race-")),
			map[string]interface{}{"report": txt, "workload": fmt.Sprintf("$VERIF_RACE_BIN race-child %d with GORACE=halt_on_error=0", rounds), "seed": lib.Seed()})
	}
	run.Extra("race", map[string]interface{}{"child": "race-child " + strconv.Itoa(rounds), "reports": len(reports), "by_pair": summary, "reader_calls": res.Calls})
}

func readFile(p string) ([]byte, error) {
	f, err := os.Open(p)
	if err != nil {
		return nil, err
	}
	defer f.Close()
	var buf bytes.Buffer
	_, err = buf.ReadFrom(f)
	return buf.Bytes(), err
}

func lastLines(s string, n int) string {
	ls := strings.Split(strings.TrimSpace(s), "\n")
	if len(ls) > n {
		ls = ls[len(ls)-n:]
	}
	return strings.Join(ls, " / ")
}
