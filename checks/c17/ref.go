package main

// Independent reference for the simple Merkle tree and for splitting data into
// parts. Written from the documented shape only ("left may be one greater":
// the left subtree of n items holds (n+1)/2 of them; an inner node hashes the
// length-prefixed left hash followed by the length-prefixed right hash). The
// only thing shared with the code under test is the hash primitive
// hash.DoHash (RIPEMD-160 on every node, see go-crypto/node.go).

import (
	"bytes"

	hash "github.com/dappledger/AnnChain/gemmill/go-hash"
)

// refVarint is go-wire's varint for a non-negative int: one size byte followed
// by the minimal big-endian representation (0 -> 0x00).
func refVarint(n int) []byte {
	if n == 0 {
		return []byte{0}
	}
	var be []byte
	for v := uint64(n); v > 0; v >>= 8 {
		be = append([]byte{byte(v)}, be...)
	}
	return append([]byte{byte(len(be))}, be...)
}

func refInner(l, r []byte) []byte {
	buf := make([]byte, 0, len(l)+len(r)+6)
	buf = append(buf, refVarint(len(l))...)
	buf = append(buf, l...)
	buf = append(buf, refVarint(len(r))...)
	buf = append(buf, r...)
	return hash.DoHash(buf)
}

// refRoot: root over leaf hashes [lo,hi).
func refRoot(leaves [][]byte) []byte {
	switch len(leaves) {
	case 0:
		return nil
	case 1:
		return leaves[0]
	}
	k := (len(leaves) + 1) / 2
	return refInner(refRoot(leaves[:k]), refRoot(leaves[k:]))
}

// refProof returns the aunts of leaf i ordered from the leaf's sibling up to a
// child of the root, and the path shape from the root down ("L"/"R" per level).
func refProof(leaves [][]byte, i int) (aunts [][]byte, shape string) {
	lo, hi := 0, len(leaves)
	var topDown [][]byte
	for hi-lo > 1 {
		k := (hi - lo + 1) / 2
		if i-lo < k {
			topDown = append(topDown, refRoot(leaves[lo+k:hi]))
			shape += "L"
			hi = lo + k
		} else {
			topDown = append(topDown, refRoot(leaves[lo:lo+k]))
			shape += "R"
			lo = lo + k
		}
	}
	aunts = make([][]byte, len(topDown))
	for j := range topDown {
		aunts[len(topDown)-1-j] = topDown[j]
	}
	return aunts, shape
}

// refShape: path shape of index i in a tree of n leaves; "!" when i is not a
// valid index of such a tree.
func refShape(i, n int) string {
	if n < 1 || i < 0 || i >= n {
		return "!"
	}
	lo, hi := 0, n
	s := ""
	for hi-lo > 1 {
		k := (hi - lo + 1) / 2
		if i-lo < k {
			s += "L"
			hi = lo + k
		} else {
			s += "R"
			lo = lo + k
		}
	}
	return s
}

// refVerify recomputes the root from leaf, aunts and the path of (i,n).
func refVerify(i, n int, leaf []byte, aunts [][]byte, root []byte) bool {
	sh := refShape(i, n)
	if sh == "!" || len(sh) != len(aunts) {
		return false
	}
	cur := leaf
	// aunts[0] is the leaf's sibling, it belongs to the deepest level = last shape letter
	for j := 0; j < len(aunts); j++ {
		if sh[len(sh)-1-j] == 'L' {
			cur = refInner(cur, aunts[j])
		} else {
			cur = refInner(aunts[j], cur)
		}
	}
	return bytes.Equal(cur, root)
}

// refSplit cuts data into chunks of size s (s >= 1, len(data) >= 1).
func refSplit(data []byte, s int) [][]byte {
	var out [][]byte
	for off := 0; off < len(data); off += s {
		end := off + s
		if end > len(data) {
			end = len(data)
		}
		c := make([]byte, end-off)
		copy(c, data[off:end])
		out = append(out, c)
	}
	return out
}

func auntsEqual(a, b [][]byte) bool {
	if len(a) != len(b) {
		return false
	}
	for i := range a {
		if !bytes.Equal(a[i], b[i]) {
			return false
		}
	}
	return true
}

func cloneBytes(b []byte) []byte {
	c := make([]byte, len(b))
	copy(c, b)
	return c
}

func cloneAunts(a [][]byte) [][]byte {
	c := make([][]byte, len(a))
	for i := range a {
		c[i] = cloneBytes(a[i])
	}
	return c
}
