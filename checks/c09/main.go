// C09 — transaction execution is total, atomic and replay-protected.
//
// Engine E4 (real EVM application in child processes; every block is on disk
// before it is executed, so a crash leaves its input behind).
//
//	(a) total: the child that executes the blocks survives whatever bytes the
//	    transactions are; a dead child is a violation keyed by panic site.
//	(b) atomic: a twin run of the same blocks WITHOUT the transactions that
//	    were reported invalid yields the same AppHash after every block, the
//	    same queried nonces / key-value entries, and position-independent
//	    receipt contents; every valid non-key-value tx has a receipt.
//	(c) replay protection: sequential model nonce[sender]: a tx reported valid
//	    must carry nonce == model, which then advances by exactly one; invalid
//	    txs leave it; after each block the queried nonce equals the model.
package main

import (
	"bytes"
	"crypto/ecdsa"
	"encoding/hex"
	"encoding/json"
	"fmt"
	"io/ioutil"
	"math/big"
	"math/rand"
	"os"
	"path/filepath"
	"regexp"
	"strings"
	"syscall"
	"time"

	ctypes "github.com/dappledger/AnnChain/chain/types"
	"github.com/dappledger/AnnChain/eth/common"
	etypes "github.com/dappledger/AnnChain/eth/core/types"
	"github.com/dappledger/AnnChain/eth/rlp"

	"verif/evmdrive"
	"verif/lib"
)

const prop = "C09"

type caseFile struct {
	Blocks [][]string `json:"blocks"`
	Kinds  [][]string `json:"kinds"`
	Addrs  []string   `json:"addrs"` // accounts whose nonce is queried after every block
	Keys   []string   `json:"keys"`
}

type blockObs struct {
	H        int      `json:"h"`
	Valid    []string `json:"valid"`   // hex of valid tx bytes in reported order
	Invalid  []string `json:"invalid"` // hex
	App      string   `json:"app"`
	Nonces   []uint64 `json:"nonces"`
	KVs      []string `json:"kvs"`
	Receipts []string `json:"receipts"` // per valid tx: position-independent projection ("" = none)
}

var signer = etypes.HomesteadSigner{}

func projection(raw []byte) string {
	if len(raw) == 0 {
		return ""
	}
	var r etypes.ReceiptForStorage
	if err := rlp.DecodeBytes(raw, &r); err != nil {
		return "undecodable:" + lib.Hash12(hex.EncodeToString(raw))
	}
	var b strings.Builder
	fmt.Fprintf(&b, "st%d gas%d ca%x", r.Status, r.GasUsed, r.ContractAddress.Bytes())
	for _, l := range r.Logs {
		fmt.Fprintf(&b, " log[%x", l.Address.Bytes())
		for _, t := range l.Topics {
			fmt.Fprintf(&b, " %x", t.Bytes())
		}
		fmt.Fprintf(&b, " %x]", l.Data)
	}
	return b.String()
}

// ---- child -------------------------------------------------------------------------

func child(args []string) {
	dir, casePath, outPath := args[0], args[1], args[2]
	var lim syscall.Rlimit
	lim.Cur, lim.Max = 8<<30, 8<<30
	syscall.Setrlimit(syscall.RLIMIT_AS, &lim)
	var cf caseFile
	b, _ := ioutil.ReadFile(casePath)
	json.Unmarshal(b, &cf)
	app, err := evmdrive.Open(dir, 0)
	if err != nil {
		fmt.Println("open:", err)
		os.Exit(3)
	}
	out, _ := os.OpenFile(outPath, os.O_CREATE|os.O_WRONLY|os.O_TRUNC, 0644)
	for h := 1; h <= len(cf.Blocks); h++ {
		var txs [][]byte
		for _, hx := range cf.Blocks[h-1] {
			t, _ := hex.DecodeString(hx)
			txs = append(txs, t)
		}
		fmt.Fprintf(os.Stderr, "EXECUTING block %d of %s\n", h, casePath)
		res, err := app.Exec(int64(h), txs)
		if err != nil {
			fmt.Fprintf(os.Stderr, "exec error: %v\n", err)
			os.Exit(4)
		}
		o := blockObs{H: h, App: hex.EncodeToString(res.AppHash)}
		for _, t := range res.Valid {
			o.Valid = append(o.Valid, hex.EncodeToString(t))
			o.Receipts = append(o.Receipts, projection(app.Receipt(t)))
		}
		for _, t := range res.Invalid {
			o.Invalid = append(o.Invalid, hex.EncodeToString(t))
		}
		for _, ax := range cf.Addrs {
			a, _ := hex.DecodeString(ax)
			n, _ := app.Nonce(common.BytesToAddress(a))
			o.Nonces = append(o.Nonces, n)
		}
		for _, kx := range cf.Keys {
			k, _ := hex.DecodeString(kx)
			v, ok := app.KeyValue(k)
			o.KVs = append(o.KVs, fmt.Sprintf("%v:%x", ok, v))
		}
		jb, _ := json.Marshal(o)
		out.Write(append(jb, '\n'))
	}
	out.Close()
	app.Close()
}

// ---- generator ----------------------------------------------------------------------

func genCase(c int64) caseFile {
	rng := lib.Rand("c09", c)
	labels := []string{"a", "b", "c"}
	keys := map[string]*ecdsa.PrivateKey{}
	nonce := map[string]uint64{}
	var cf caseFile
	for _, l := range labels {
		keys[l] = evmdrive.Key(fmt.Sprintf("c09-%d-%s", c, l))
		cf.Addrs = append(cf.Addrs, hex.EncodeToString(evmdrive.Addr(keys[l]).Bytes()))
	}
	var contracts []common.Address
	var prev [][]byte // earlier txs (for repetition)
	kvKeys := [][]byte{}
	focus := c % 7 // each case leans to one family so that all get volume
	nb := 1 + rng.Intn(5)
	for b := 0; b < nb; b++ {
		var txs, kinds []string
		ntx := 1 + rng.Intn(7)
		for t := 0; t < ntx; t++ {
			l := labels[rng.Intn(len(labels))]
			k := keys[l]
			var tx []byte
			kind := ""
			x := rng.Float64()
			fam := int(focus)
			if x < 0.45 {
				fam = rng.Intn(7)
			}
			if fam == 6 {
				// combination: a state-changing tx and a tx of the SAME sender that fails half-way
				// (value > balance: the nonce is bumped before the transfer fails), in either order
				to := evmdrive.Addr(keys[labels[rng.Intn(len(labels))]])
				mk := func(good bool) ([]byte, string) {
					if !good {
						if rng.Intn(3) == 0 {
							// the whole gas range is bought before the transfer fails: nothing of it may be missing afterwards
							return evmdrive.SignedTx(k, nonce[l], &to, 1+int64(rng.Intn(9)), ^uint64(0), 0, nil), "combo-value-unaffordable-max-gas"
						}
						return evmdrive.SignedTx(k, nonce[l], &to, 1+int64(rng.Intn(9)), 21000, 0, nil), "combo-value-unaffordable"
					}
					var t []byte
					kd := ""
					switch rng.Intn(3) {
					case 0:
						key := []byte(fmt.Sprintf("kc%d-%d", c, len(kvKeys)))
						kvKeys = append(kvKeys, key)
						t, kd = evmdrive.KVTx(k, nonce[l], key, []byte("combo")), "combo-kv"
					case 1:
						t, kd = evmdrive.SignedTx(k, nonce[l], nil, 0, 3000000, 0, evmdrive.Deploy(evmdrive.CounterRuntime)), "combo-create"
						contracts = append(contracts, evmdrive.ContractAddr(evmdrive.Addr(k), nonce[l]))
					default:
						t, kd = evmdrive.SignedTx(k, nonce[l], &to, 0, 21000, 0, []byte{1, 2, 3}), "combo-transfer0"
					}
					nonce[l]++
					return t, kd
				}
				order := []bool{true, false}
				if rng.Intn(2) == 0 {
					order = []bool{false, true}
				}
				if rng.Intn(3) == 0 {
					order = append(order, rng.Intn(2) == 0)
				}
				for _, g := range order {
					t, kd := mk(g)
					prev = append(prev, t)
					txs = append(txs, hex.EncodeToString(t))
					kinds = append(kinds, kd)
				}
				continue
			}
			switch fam {
			case 0: // garbage
				switch rng.Intn(4) {
				case 0:
					tx, kind = []byte{}, "empty"
				case 1:
					tx = make([]byte, 1+rng.Intn(120))
					rng.Read(tx)
					kind = "random-bytes"
				case 2:
					to := evmdrive.Addr(keys["a"])
					tx = evmdrive.SignedTx(k, nonce[l], &to, 0, 21000, 0, nil)
					tx = tx[:rng.Intn(len(tx))]
					kind = "truncated"
				default:
					to := evmdrive.Addr(keys["a"])
					tx = evmdrive.SignedTx(k, nonce[l], &to, 0, 21000, 0, nil)
					tx[rng.Intn(len(tx))] ^= byte(1 << uint(rng.Intn(8)))
					kind = "bitflip"
				}
			case 1: // precompiles incl. governance address, hostile payload lengths
				addrs := []byte{1, 2, 3, 4, 5, 6, 7, 8, 0xfe, 0xfe, 0xfe}
				to := common.BytesToAddress([]byte{addrs[rng.Intn(len(addrs))]})
				n := []int{0, 1, 3, 31, 32, 33, 51, 52, 53, 64, 96, 128, 192, 256}[rng.Intn(14)]
				data := make([]byte, n)
				switch rng.Intn(3) {
				case 0:
					rng.Read(data)
				case 1:
					for i := range data {
						data[i] = 0xff
					}
				}
				tx = evmdrive.SignedTx(k, nonce[l], &to, 0, 3000000, 0, data)
				nonce[l]++
				kind = fmt.Sprintf("precompile-%x-len%d", to.Bytes()[19], n)
			case 2: // contracts
				if rng.Float64() < 0.12 {
					// value the sender cannot pay, on a creation or on a call to a contract: invalid, nonce must not move
					code := evmdrive.Deploy(evmdrive.CounterRuntime)
					var to *common.Address
					kind = "create-value-unaffordable"
					if len(contracts) > 0 && rng.Intn(2) == 0 {
						a := contracts[rng.Intn(len(contracts))]
						to, code, kind = &a, nil, "call-value-unaffordable"
					}
					tx = evmdrive.SignedTx(k, nonce[l], to, 1+int64(rng.Intn(100)), 3000000, 0, code)
					break
				}
				if len(contracts) == 0 || rng.Float64() < 0.3 {
					rts := [][]byte{evmdrive.CounterRuntime, evmdrive.LoggerRuntime, evmdrive.StoreRuntime, evmdrive.SuicideRuntime, evmdrive.RevertRuntime}
					code := evmdrive.Deploy(rts[rng.Intn(len(rts))])
					if rng.Float64() < 0.35 {
						// a contract that does nothing but call: k calls of one kind (CALL / CALLCODE /
						// DELEGATECALL / STATICCALL) with a chosen value, gas operand and target
						code = evmdrive.Deploy(callStorm(rng, contracts))
						kind = "create-callstorm"
					}
					if rng.Float64() < 0.15 { // init code that is garbage
						code = make([]byte, 1+rng.Intn(40))
						rng.Read(code)
					}
					tx = evmdrive.SignedTx(k, nonce[l], nil, 0, 3000000, 0, code)
					contracts = append(contracts, evmdrive.ContractAddr(evmdrive.Addr(k), nonce[l]))
					if kind != "create-callstorm" {
						kind = "create"
					}
				} else {
					to := contracts[rng.Intn(len(contracts))]
					data := make([]byte, []int{0, 32, 64}[rng.Intn(3)])
					rng.Read(data)
					tx = evmdrive.SignedTx(k, nonce[l], &to, 0, 3000000, 0, data)
					kind = "call"
				}
				nonce[l]++
			case 3: // key-value transactions
				var key []byte
				if len(kvKeys) > 0 && rng.Float64() < 0.5 {
					key = kvKeys[rng.Intn(len(kvKeys))]
				} else {
					key = []byte(fmt.Sprintf("k%d-%d", c, len(kvKeys)))
					kvKeys = append(kvKeys, key)
				}
				switch rng.Intn(5) {
				case 0: // malformed payload
					to := common.HexToAddress("0xaa")
					tx = evmdrive.SignedTx(k, nonce[l], &to, 0, 100000, 0, append(append([]byte{}, ctypes.KVTxType...), 0xc1, 0xff, 0x00))
					kind = "kv-malformed"
				case 1: // oversize value
					tx = evmdrive.KVTx(k, nonce[l], key, bytes.Repeat([]byte{7}, 5000))
					nonce[l]++
					kind = "kv-oversize"
				case 2: // wrong nonce
					tx = evmdrive.KVTx(k, nonce[l]+uint64(1+rng.Intn(5)), key, []byte("future"))
					kind = "kv-future-nonce"
				case 3:
					n := uint64(0)
					if nonce[l] > 0 {
						n = nonce[l] - 1
					}
					tx = evmdrive.KVTx(k, n, key, []byte("stale"))
					kind = "kv-stale-nonce"
					if nonce[l] == 0 {
						nonce[l]++
						kind = "kv"
					}
				default:
					tx = evmdrive.KVTx(k, nonce[l], key, []byte(fmt.Sprintf("v%d", rng.Intn(100))))
					nonce[l]++
					kind = "kv"
				}
			case 4: // nonce / gas / value extremes
				to := evmdrive.Addr(keys[labels[rng.Intn(len(labels))]])
				switch rng.Intn(7) {
				case 0:
					tx = evmdrive.SignedTx(k, nonce[l]+uint64(1+rng.Intn(3)), &to, 0, 21000, 0, nil)
					kind = "future-nonce"
				case 1:
					n := uint64(0)
					if nonce[l] > 0 {
						n = nonce[l] - 1
					}
					tx = evmdrive.SignedTx(k, n, &to, 0, 21000, 0, []byte{1})
					kind = "stale-nonce"
					if nonce[l] == 0 {
						nonce[l]++
						kind = "transfer0"
					}
				case 2:
					tx = evmdrive.SignedTx(k, nonce[l], &to, 0, 0, 0, nil)
					kind = "gas-0"
				case 3:
					tx = evmdrive.SignedTx(k, nonce[l], &to, 0, ^uint64(0), 0, nil)
					nonce[l]++
					kind = "gas-max"
				case 4:
					tx = evmdrive.SignedTx(k, nonce[l], &to, 0, 21000, 1, nil)
					kind = "gasprice-unaffordable"
				case 5:
					gas := uint64(21000)
					kind = "value-unaffordable"
					if rng.Intn(2) == 0 {
						gas = []uint64{^uint64(0), ^uint64(0), ^uint64(0) - 21000, 1 << 63, 1<<63 - 1<<20, 1 << 62}[rng.Intn(6)]
						kind = "value-unaffordable-huge-gas"
					}
					tx = evmdrive.SignedTx(k, nonce[l], &to, 1+int64(rng.Intn(100)), gas, 0, nil)
				default:
					tx = evmdrive.SignedTx(k, nonce[l], &to, 0, 21000, 0, nil)
					nonce[l]++
					kind = "transfer0"
				}
			default: // repetition of an earlier transaction (same block or later block)
				if len(prev) > 0 {
					tx = prev[rng.Intn(len(prev))]
					kind = "repeat"
				} else {
					to := evmdrive.Addr(keys["b"])
					tx = evmdrive.SignedTx(k, nonce[l], &to, 0, 21000, 0, nil)
					nonce[l]++
					kind = "transfer0"
				}
			}
			prev = append(prev, tx)
			txs = append(txs, hex.EncodeToString(tx))
			kinds = append(kinds, kind)
		}
		cf.Blocks = append(cf.Blocks, txs)
		cf.Kinds = append(cf.Kinds, kinds)
	}
	for _, k := range kvKeys {
		cf.Keys = append(cf.Keys, hex.EncodeToString(k))
	}
	return cf
}

// ---- parent --------------------------------------------------------------------------

var panicLine = regexp.MustCompile(`(?m)^(panic: .*|fatal error: .*)$`)
var frameLine = regexp.MustCompile(`(?m)^github.com/dappledger/AnnChain/([^\s(]+(?:\(\*?[A-Za-z0-9_]+\))?[^\s(]*)\(`)

func crashSite(out string) (string, string) {
	msg := panicLine.FindString(out)
	i := strings.Index(out, "goroutine ")
	site := "unknown"
	if i >= 0 {
		for _, m := range frameLine.FindAllStringSubmatch(out[i:], -1) {
			if strings.Contains(m[1], "go-common.Panic") {
				continue
			}
			site = m[1]
			break
		}
	}
	return site, msg
}

func runChild(dir string, cf caseFile, tag string) ([]blockObs, string, bool) {
	os.MkdirAll(dir, 0755)
	casePath := filepath.Join(dir, "case-"+tag+".json")
	jb, _ := json.Marshal(cf)
	ioutil.WriteFile(casePath, jb, 0644)
	outPath := filepath.Join(dir, "obs-"+tag+".jsonl")
	out, timedOut, err := lib.RunCmd(5*time.Minute, filepath.Join(dir, "child-"+tag+".log"), nil, os.Getenv("VERIF_SELF"), "child", filepath.Join(dir, "data-"+tag), casePath, outPath)
	if timedOut {
		return nil, "watchdog", true
	}
	var res []blockObs
	b, _ := ioutil.ReadFile(outPath)
	for _, line := range strings.Split(strings.TrimSpace(string(b)), "\n") {
		var o blockObs
		if line != "" && json.Unmarshal([]byte(line), &o) == nil {
			res = append(res, o)
		}
	}
	if err != nil {
		return res, out, false
	}
	return res, "", false
}

func txInfo(raw []byte) (from common.Address, nonce uint64, isKV bool, ok bool) {
	tx := new(etypes.Transaction)
	if len(raw) == 0 || rlp.DecodeBytes(raw, tx) != nil {
		return
	}
	f, err := etypes.Sender(signer, tx)
	if err != nil {
		return
	}
	return f, tx.Nonce(), bytes.HasPrefix(tx.Data(), ctypes.KVTxType), true
}

func runCase(run *lib.Run, c int64, base string) {
	cf := genCase(c)
	dir := filepath.Join(base, fmt.Sprintf("c%d", c))
	defer os.RemoveAll(dir)
	run.Eval()
	for _, ks := range cf.Kinds {
		for _, k := range ks {
			kk := k
			if strings.HasPrefix(k, "precompile-") {
				kk = k[:strings.LastIndex(k, "-")]
			}
			run.Count("tx_"+kk, 1)
			run.Distinct("tx_kinds", k)
		}
	}
	run.Count("blocks", int64(len(cf.Blocks)))
	witness := func(extra map[string]interface{}) map[string]interface{} {
		m := map[string]interface{}{"case": c, "seed": lib.Seed(), "blocks_hex": cf.Blocks, "kinds": cf.Kinds}
		for k, v := range extra {
			m[k] = v
		}
		return m
	}
	// (a) total
	A, crash, inconcl := runChild(dir, cf, "A")
	if inconcl {
		run.Inconclusive(fmt.Sprintf("case %d: %s", c, crash))
		return
	}
	if crash != "" {
		site, msg := crashSite(crash)
		blk := len(A) + 1
		kinds := []string{}
		if blk <= len(cf.Kinds) {
			kinds = cf.Kinds[blk-1]
		}
		run.Violation("executor-crash:"+site, fmt.Sprintf("case %d: executing block %d killed the process: %s (tx kinds in the block: %v)", c, blk, msg, kinds),
			witness(map[string]interface{}{"block": blk, "output_tail": tailStr(crash, 2500)}))
		return
	}
	if len(A) != len(cf.Blocks) {
		run.Inconclusive(fmt.Sprintf("case %d: %d of %d blocks observed", c, len(A), len(cf.Blocks)))
		return
	}
	// (c) replay model
	model := map[common.Address]uint64{}
	for bi, o := range A {
		if len(o.Valid)+len(o.Invalid) != len(cf.Blocks[bi]) {
			run.Violation("tx-neither-valid-nor-invalid", fmt.Sprintf("case %d block %d: %d txs in, %d valid + %d invalid out", c, bi+1, len(cf.Blocks[bi]), len(o.Valid), len(o.Invalid)), witness(map[string]interface{}{"block": bi + 1}))
			return
		}
		for vi, hx := range o.Valid {
			raw, _ := hex.DecodeString(hx)
			from, n, isKV, ok := txInfo(raw)
			run.Count("valid_txs", 1)
			if !ok {
				run.Violation("undecodable-or-unsigned-tx-reported-valid", fmt.Sprintf("case %d block %d: a tx that does not decode / recover a sender was reported valid", c, bi+1), witness(map[string]interface{}{"tx": hx}))
				return
			}
			if n != model[from] {
				cls := "valid-tx-with-wrong-nonce"
				if isKV {
					cls = "kv-tx-valid-with-wrong-nonce"
				}
				run.Violation(cls, fmt.Sprintf("case %d block %d: tx with nonce %d applied while the sender's nonce is %d (replay / out of order)", c, bi+1, n, model[from]), witness(map[string]interface{}{"tx": hx, "sender": from.Hex()}))
				return
			}
			model[from]++
			if !isKV && o.Receipts[vi] == "" {
				run.Violation("valid-tx-without-receipt", fmt.Sprintf("case %d block %d: valid tx has no receipt", c, bi+1), witness(map[string]interface{}{"tx": hx}))
				return
			}
		}
		run.Count("invalid_txs", int64(len(o.Invalid)))
		for ai, ax := range cf.Addrs {
			a, _ := hex.DecodeString(ax)
			if o.Nonces[ai] != model[common.BytesToAddress(a)] {
				run.Violation("nonce-differs-from-model", fmt.Sprintf("case %d after block %d: account %s has nonce %d, %d of its txs were applied", c, bi+1, ax, o.Nonces[ai], model[common.BytesToAddress(a)]), witness(map[string]interface{}{"block": bi + 1}))
				return
			}
		}
	}
	// (b) atomic: twin run without the invalid txs
	twin := caseFile{Addrs: cf.Addrs, Keys: cf.Keys}
	anyInvalid := false
	for bi, o := range A {
		inv := map[string]int{}
		for _, hx := range o.Invalid {
			inv[hx]++
		}
		var keep []string
		for _, hx := range cf.Blocks[bi] {
			if inv[hx] > 0 {
				inv[hx]--
				anyInvalid = true
				continue
			}
			keep = append(keep, hx)
		}
		twin.Blocks = append(twin.Blocks, keep)
	}
	// identical bytes reported both valid and invalid in one block: the reported lists do not say
	// which occurrence was which, so no exact twin can be built (replay rule (c) still judged them)
	ambiguous := false
	for _, o := range A {
		v := map[string]bool{}
		for _, hx := range o.Valid {
			v[hx] = true
		}
		for _, hx := range o.Invalid {
			if v[hx] {
				ambiguous = true
			}
		}
	}
	if ambiguous {
		run.Count("twin_skipped_ambiguous_duplicates", 1)
	}
	if anyInvalid && !ambiguous {
		T, crash, inconcl := runChild(dir, twin, "T")
		if inconcl || crash != "" || len(T) != len(A) {
			run.Inconclusive(fmt.Sprintf("case %d: twin run did not complete: %s", c, tailStr(crash, 300)))
			return
		}
		run.Count("twin_runs", 1)
		for bi := range A {
			a, t := A[bi], T[bi]
			d := ""
			switch {
			case len(t.Invalid) != 0:
				d = "twin-reports-invalid"
			case a.App != t.App:
				d = "apphash"
			case fmt.Sprint(a.Nonces) != fmt.Sprint(t.Nonces):
				d = "nonces"
			case fmt.Sprint(a.KVs) != fmt.Sprint(t.KVs):
				d = "kv"
			case fmt.Sprint(a.Valid) != fmt.Sprint(t.Valid):
				d = "valid-list"
			case fmt.Sprint(a.Receipts) != fmt.Sprint(t.Receipts):
				d = "receipt-contents"
			}
			run.Count("twin_blocks_compared", 1)
			if d != "" {
				run.Violation("invalid-tx-left-a-trace:"+d, fmt.Sprintf("case %d block %d: %s differs between the block with its invalid txs and the same block without them", c, bi+1, d),
					witness(map[string]interface{}{"block": bi + 1, "with_invalid": a, "without_invalid": t}))
				return
			}
		}
	}
	// (b') a second twin: the same blocks without the transactions that cannot be valid whatever else
	// the block holds (value or gas price the sender cannot pay: every balance is 0). Taking them out
	// must change nothing, in particular not which of the other transactions are valid.
	certain := map[string]bool{"value-unaffordable": true, "value-unaffordable-huge-gas": true, "create-value-unaffordable": true, "call-value-unaffordable": true, "gasprice-unaffordable": true, "combo-value-unaffordable": true, "combo-value-unaffordable-max-gas": true}
	tw := caseFile{Addrs: cf.Addrs, Keys: cf.Keys}
	removed := 0
	removedHex := map[string]bool{}
	for bi := range cf.Blocks {
		var keep []string
		for ti, hx := range cf.Blocks[bi] {
			if bi < len(cf.Kinds) && ti < len(cf.Kinds[bi]) && certain[cf.Kinds[bi][ti]] {
				removed++
				removedHex[hx] = true
				continue
			}
			keep = append(keep, hx)
		}
		tw.Blocks = append(tw.Blocks, keep)
	}
	// a later "repeat" of removed bytes would stay in: leave such cases to the other rules
	repeated := false
	for _, b := range tw.Blocks {
		for _, hx := range b {
			if removedHex[hx] {
				repeated = true
			}
		}
	}
	if removed > 0 && !repeated {
		U, crash, inconcl := runChild(dir, tw, "U")
		if inconcl || crash != "" || len(U) != len(A) {
			run.Inconclusive(fmt.Sprintf("case %d: second twin run did not complete: %s", c, tailStr(crash, 300)))
			return
		}
		run.Count("second_twin_runs", 1)
		for bi := range A {
			a, u := A[bi], U[bi]
			d := ""
			switch {
			case fmt.Sprint(a.Valid) != fmt.Sprint(u.Valid):
				d = "valid-list"
			case a.App != u.App:
				d = "apphash"
			case fmt.Sprint(a.Nonces) != fmt.Sprint(u.Nonces):
				d = "nonces"
			}
			run.Count("second_twin_blocks_compared", 1)
			if d != "" {
				run.Violation("validity-of-others-depends-on-an-invalid-tx:"+d, fmt.Sprintf("case %d block %d: %s differs between the chain with its unaffordable-value / unaffordable-gas-price transactions (%d in the case) and the same chain without them", c, bi+1, d, removed),
					witness(map[string]interface{}{"block": bi + 1, "with": a, "without": u}))
				return
			}
		}
	}
	run.Nontrivial(fmt.Sprintf("%d", c))
	if c < 2 {
		run.Sample(map[string]interface{}{"case": c, "kinds": cf.Kinds, "valid_per_block": lens(A, true), "invalid_per_block": lens(A, false)})
	}
}

func lens(a []blockObs, valid bool) []int {
	var out []int
	for _, o := range a {
		if valid {
			out = append(out, len(o.Valid))
		} else {
			out = append(out, len(o.Invalid))
		}
	}
	return out
}

func tailStr(s string, n int) string {
	if len(s) > n {
		return s[len(s)-n:]
	}
	return s
}

// callStorm builds a runtime of k consecutive calls: operands retSize retOff inSize inOff [value]
// target gas, each result popped.
func callStorm(rng *rand.Rand, contracts []common.Address) []byte {
	k := []int{1, 3, 9, 10, 11, 12, 25, 40, 120}[rng.Intn(9)]
	op := []byte{0xf1, 0xf1, 0xf1, 0xf2, 0xf4, 0xfa}[rng.Intn(6)]
	var target []byte
	switch rng.Intn(5) {
	case 0:
		target = []byte{0x61, 0x12, 0x34} // an account without code
	case 1:
		target = []byte{0x60, byte(1 + rng.Intn(8))} // a precompile
	case 2:
		target = []byte{0x30} // ADDRESS: itself
	case 3:
		if len(contracts) > 0 {
			target = append([]byte{0x73}, contracts[rng.Intn(len(contracts))].Bytes()...)
		} else {
			target = []byte{0x60, 0xfe}
		}
	default:
		target = []byte{0x33} // CALLER
	}
	value := [][]byte{{0x60, 0x00}, {0x60, 0x01}, {0x60, 0x01}, {0x7f, 0x80, 0, 0, 0, 0, 0, 0, 0, 0, 0, 0, 0, 0, 0, 0, 0, 0, 0, 0, 0, 0, 0, 0, 0, 0, 0, 0, 0, 0, 0, 0, 0}}[rng.Intn(4)]
	gas := [][]byte{{0x60, 0x00}, {0x5a}, {0x61, 0xff, 0xff}, {0x63, 0x7f, 0xff, 0xff, 0xff}}[rng.Intn(4)]
	var rt []byte
	for i := 0; i < k; i++ {
		rt = append(rt, 0x60, 0x00, 0x60, 0x00, 0x60, 0x00, 0x60, 0x00)
		if op == 0xf1 || op == 0xf2 {
			rt = append(rt, value...)
		}
		rt = append(rt, target...)
		rt = append(rt, gas...)
		rt = append(rt, op, 0x50)
	}
	return append(rt, 0x00)
}

func main() {
	if len(os.Args) > 1 && os.Args[1] == "child" {
		child(os.Args[2:])
		return
	}
	evmdrive.Quiet()
	run := lib.NewRun(prop, "exploration")
	run.SetRule("seeded cases of 1-5 blocks with 1-7 txs each, executed by the real EVM application in a child process: garbage (empty, random bytes, truncated and bit-flipped signed txs), signed txs to every precompile 1-8 and the governance address 0xfe with payload lengths 0..256, contract creations (incl. garbage init code) and calls, key-value txs (well-formed, malformed payload, oversize, stale and future nonce), nonce/gas/value extremes (gas 0 and MaxUint64, unaffordable gas price or value), and repetitions of earlier txs in the same or a later block. Twin run without the reported-invalid txs. Non-trivial = distinct case that ran to completion through all three oracles.")
	run.Assume("receipts are compared position-independently (status, gas used, contract address, log address/topics/data): block hash and tx index legitimately change when invalid txs are removed", "the sender of a tx is recovered with the Homestead signer the application uses", "gas accounting is the documented per-transaction budget")
	_ = big.NewInt
	base := lib.Scratch(prop)
	defer os.RemoveAll(base)
	n := lib.Pick(120, 6000)
	lib.Parallel(n, 12, func(i int) { runCase(run, int64(i), base) })
	run.Require("valid_txs", 300)
	run.Require("invalid_txs", 200)
	run.Require("twin_blocks_compared", 100)
	run.Require("tx_kinds", 40)
	run.Require("tx_create-value-unaffordable", 5)
	os.Exit(run.Finish())
}
