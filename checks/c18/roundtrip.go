package main

// Monitor (a): decode(encode(v)) == v, encoding deterministic and idempotent,
// for go-wire binary / JSON and for RLP.

import (
	"bytes"
	"fmt"
	"io/ioutil"
	"math/big"
	"path/filepath"
	"reflect"
	"runtime"
	"runtime/debug"
	"strings"
	"sync"
	"sync/atomic"

	chaintypes "github.com/dappledger/AnnChain/chain/types"
	ethcmn "github.com/dappledger/AnnChain/eth/common"
	etypes "github.com/dappledger/AnnChain/eth/core/types"
	ethcrypto "github.com/dappledger/AnnChain/eth/crypto"
	"github.com/dappledger/AnnChain/eth/rlp"
	"github.com/dappledger/AnnChain/gemmill/blockchain"
	"github.com/dappledger/AnnChain/gemmill/consensus/pbft"
	crypto "github.com/dappledger/AnnChain/gemmill/go-crypto"
	wire "github.com/dappledger/AnnChain/gemmill/go-wire"
	"github.com/dappledger/AnnChain/gemmill/mempool"
	dbm "github.com/dappledger/AnnChain/gemmill/modules/go-db"
	"github.com/dappledger/AnnChain/gemmill/p2p"
	sm "github.com/dappledger/AnnChain/gemmill/state"
	"github.com/dappledger/AnnChain/gemmill/types"

	"verif/lib"
)

// structural twins of unexported wire structs (go-wire encodes structure only)
type authSigTwin struct { // p2p/secret_connection.go authSigMessage
	Key crypto.PubKey
	Sig crypto.Signature
}
type msgPacketTwin struct { // p2p/connection.go msgPacket
	ChannelID byte
	EOF       byte
	Bytes     []byte
}

type wtype struct {
	name     string
	rt       reflect.Type
	bin      bool
	json     bool
	variants int                                   // >0: number of concrete types of the wrapped interface, each is forced in turn
	decBin   func(b []byte) (reflect.Value, error) // real decoder of the binary form (nil: wire.ReadBinary with limit 0)
	decLimit func(b []byte, lmt int) (err error)   // decoder with caller limit (robust monitor)
	fixedLmt int                                   // >0: the real decoder has a built-in limit (DecodeMessage)
	decJSON  func(b []byte) (reflect.Value, error) // nil: wire.ReadJSON
	encBin   func(v reflect.Value) []byte          // nil: wire.BinaryBytes(ptr)
}

func nVariants(wrapper interface{}) int {
	return len(concreteTypes(reflect.TypeOf(wrapper).Field(0).Type))
}

func wrapDecode(rt reflect.Type, f func(bz []byte) (interface{}, error)) func(b []byte) (reflect.Value, error) {
	return func(b []byte) (reflect.Value, error) {
		out := reflect.New(rt).Elem()
		m, err := f(b)
		if err != nil {
			return out, err
		}
		if m != nil {
			out.Field(0).Set(reflect.ValueOf(m))
		}
		return out, nil
	}
}

var wireTypes []*wtype

func init() {
	add := func(name string, proto interface{}, bin, json bool) *wtype {
		w := &wtype{name: name, rt: reflect.TypeOf(proto), bin: bin, json: json}
		wireTypes = append(wireTypes, w)
		return w
	}
	add("types.Block", types.Block{}, true, true)
	add("types.Header", types.Header{}, true, true)
	add("types.Data", types.Data{}, true, true)
	add("types.Commit", types.Commit{}, true, true)
	add("types.Vote", types.Vote{}, true, true)
	add("types.Proposal", types.Proposal{}, true, true)
	add("types.Part", types.Part{}, true, true)
	add("types.PartSetHeader", types.PartSetHeader{}, true, true)
	add("types.BlockID", types.BlockID{}, true, true)
	add("types.Validator", types.Validator{}, true, true)
	add("types.ValidatorSet", types.ValidatorSet{}, true, true)
	add("types.BlockMeta", types.BlockMeta{}, true, true)
	add("types.GenesisDoc", types.GenesisDoc{}, true, true)
	add("types.ValidatorAttr", types.ValidatorAttr{}, true, true)
	add("types.EventDataRoundState", types.EventDataRoundState{}, true, true)
	add("sm.State", sm.State{}, true, false)
	w := add("pbft.TimedWALMessage", pbft.TimedWALMessage{}, false, true)
	w.variants = nVariants(struct{ pbft.WALMessage }{})
	w = add("pbft.ConsensusMessage", struct{ pbft.ConsensusMessage }{}, true, true)
	w.variants = nVariants(struct{ pbft.ConsensusMessage }{})
	w.fixedLmt = 1048576
	w.decBin = wrapDecode(w.rt, func(bz []byte) (interface{}, error) { _, m, err := pbft.DecodeMessage(bz); return m, err })
	w = add("blockchain.BlockchainMessage", struct{ blockchain.BlockchainMessage }{}, true, false)
	w.variants = nVariants(struct{ blockchain.BlockchainMessage }{})
	w.fixedLmt = types.MaxBlockSize + 2
	w.decBin = wrapDecode(w.rt, func(bz []byte) (interface{}, error) { _, m, err := blockchain.DecodeMessage(bz); return m, err })
	w = add("mempool.MempoolMessage", struct{ mempool.MempoolMessage }{}, true, false)
	w.variants = nVariants(struct{ mempool.MempoolMessage }{})
	w.fixedLmt = 1048576
	w.decBin = wrapDecode(w.rt, func(bz []byte) (interface{}, error) { _, m, err := mempool.DecodeMessage(bz); return m, err })
	w = add("p2p.PexMessage", struct{ p2p.PexMessage }{}, true, false)
	w.variants = nVariants(struct{ p2p.PexMessage }{})
	w.fixedLmt = 1048576
	w.decBin = wrapDecode(w.rt, func(bz []byte) (interface{}, error) { _, m, err := p2p.DecodeMessage(bz); return m, err })
	add("p2p.NodeInfo", p2p.NodeInfo{}, true, true)
	add("p2p.ExchangeData", p2p.ExchangeData{}, true, false)
	add("p2p.authSigMessage(twin)", authSigTwin{}, true, false)
	add("p2p.msgPacket(twin)", msgPacketTwin{}, true, false)
	add("types.PrivValidator", types.PrivValidator{}, false, true)
	w = add("crypto.PubKey", struct{ crypto.PubKey }{}, true, true)
	w.variants = 2
	w = add("crypto.Signature", struct{ crypto.Signature }{}, true, true)
	w.variants = 2
	w = add("crypto.PrivKey", struct{ crypto.PrivKey }{}, true, true)
	w.variants = 2
}

func wtypeByName(n string) *wtype {
	for _, w := range wireTypes {
		if w.name == n {
			return w
		}
	}
	return nil
}

// genWire generates value number n of a wire type (addressable value of w.rt).
func genWire(w *wtype, n int64) (reflect.Value, *gen) {
	rng := lib.Rand("c18-gen-"+w.name, n)
	g := newGen(rng, n)
	v := reflect.New(w.rt).Elem()
	pick := -1
	if w.variants > 0 {
		pick = int((n / 4) % int64(w.variants+1)) // the extra slot leaves the choice (incl. nil) to the generator
		if pick == w.variants {
			pick = -1
		}
	}
	g.value(v, &pick)
	return v, g
}

type panicInfo struct {
	Value string
	Site  string
	Stack string
}

// site of a panic: first frame below the runtime's panic machinery.
func panicSite(stack string) string {
	lines := strings.Split(stack, "\n")
	seenPanic := false
	for i := 0; i+1 < len(lines); i++ {
		l := lines[i]
		if strings.HasPrefix(l, "panic(") || strings.HasPrefix(l, "runtime.gopanic") {
			seenPanic = true
			continue
		}
		if !seenPanic || strings.HasPrefix(l, "\t") || strings.HasPrefix(l, "goroutine ") {
			continue
		}
		if strings.HasPrefix(l, "runtime.") && !strings.HasPrefix(l, "runtime.panicmakeslice") {
			// runtime.goPanicIndex, runtime.panicdivide ...: the next frame is the site
			continue
		}
		fn := l
		if k := strings.LastIndex(fn, "("); k > 0 {
			fn = fn[:k]
		}
		fn = strings.TrimPrefix(fn, "github.com/dappledger/AnnChain/")
		fn = strings.TrimPrefix(fn, "github.com/ethereum/go-ethereum/")
		// skip the go-common panic helpers: the caller is the site
		if strings.Contains(fn, "go-common.Panic") {
			continue
		}
		return fn
	}
	return "unknown"
}

var siteSeen sync.Map // panic site -> *int32 (how often a full stack was recorded)

// siteFromPCs: the first function below the runtime's panic machinery (and below the
// go-common Panic* helpers), named like panicSite does from a stack text.
func siteFromPCs(pcs []uintptr) string {
	frames := runtime.CallersFrames(pcs)
	seenPanic := false
	for {
		fr, more := frames.Next()
		fn := fr.Function
		switch {
		case fn == "runtime.gopanic":
			seenPanic = true
		case !seenPanic:
		case strings.HasPrefix(fn, "runtime."):
		case strings.Contains(fn, "go-common.Panic"):
		case fn == "":
		default:
			fn = strings.TrimPrefix(fn, "github.com/dappledger/AnnChain/")
			fn = strings.TrimPrefix(fn, "github.com/ethereum/go-ethereum/")
			return fn
		}
		if !more {
			return "unknown"
		}
	}
}

// protect runs f and turns a panic into a panicInfo with its site. The site comes from
// the program counters (cheap: robust-decoding workloads panic hundreds of thousands of
// times on an unrepaired tree); the full stack text is recorded the first few times per site.
func protect(f func()) (pi *panicInfo) {
	defer func() {
		if r := recover(); r != nil {
			var pcs [64]uintptr
			n := runtime.Callers(1, pcs[:])
			pi = &panicInfo{Value: short(r), Site: siteFromPCs(pcs[:n])}
			c, _ := siteSeen.LoadOrStore(pi.Site, new(int32))
			if atomic.AddInt32(c.(*int32), 1) <= 6 {
				pi.Stack = string(debug.Stack())
			}
		}
	}()
	f()
	return nil
}

func encBinary(w *wtype, v reflect.Value) (b []byte, pi *panicInfo) {
	pi = protect(func() {
		if w.name == "sm.State" {
			b = v.Addr().Interface().(*sm.State).Bytes()
			return
		}
		if w.rt.Name() == "" { // anonymous wrapper struct: encoded by value, as the reactors do
			b = wire.BinaryBytes(v.Interface())
			return
		}
		b = wire.BinaryBytes(v.Addr().Interface())
	})
	return
}

func decBinary(w *wtype, b []byte) (out reflect.Value, err error, pi *panicInfo) {
	pi = protect(func() {
		if w.decBin != nil {
			out, err = w.decBin(b)
			return
		}
		var n int
		if w.rt.Name() == "" { // anonymous wrapper struct: by value, as the reactors' DecodeMessage do
			out = reflect.New(w.rt).Elem()
			out.Set(reflect.ValueOf(wire.ReadBinary(reflect.Zero(w.rt).Interface(), bytes.NewReader(b), 2*len(b)+64, &n, &err)))
			return
		}
		p := reflect.New(w.rt)
		// as the real call sites do: wire.ReadBinary(&T{}, r, limit, &n, &err). The limit is a
		// generous multiple of the encoding's size (never 0: a mis-decoded length must not
		// take the checking process down).
		wire.ReadBinary(p.Interface(), bytes.NewReader(b), 2*len(b)+64, &n, &err)
		out = p.Elem()
	})
	return
}

func encJSON(w *wtype, v reflect.Value) (b []byte, pi *panicInfo) {
	pi = protect(func() {
		if w.rt.Name() == "" {
			b = wire.JSONBytes(v.Interface())
			return
		}
		b = wire.JSONBytes(v.Addr().Interface())
	})
	return
}

func decJSON(w *wtype, b []byte) (out reflect.Value, err error, pi *panicInfo) {
	pi = protect(func() {
		p := reflect.New(w.rt)
		wire.ReadJSON(p.Interface(), b, &err) // as replay.go / priv_validator.go do: a non-nil pointer
		out = p.Elem()
	})
	return
}

func hexCap(b []byte, n int) string {
	if len(b) > n {
		return fmt.Sprintf("%X...(%d bytes)", b[:n], len(b))
	}
	return fmt.Sprintf("%X", b)
}

// judgeDiffs reports every judged differing leaf; returns number judged.
func judgeDiffs(w *wtype, codec string, n int64, diffs []leafDiff, enc []byte) int {
	judged := 0
	for _, d := range diffs {
		j, class := classify(codec, d)
		if !j {
			run.Count("rt_observed_lossy_"+codec+"_"+class, 1)
			continue
		}
		judged++
		var key string
		if class == "int-above-2^53" {
			// one defect class whatever the carrying type: JSON numbers are read through float64
			// (json-file: PrivValidator.Save -> wire.JSONBytesPretty re-marshals through float64 as well)
			key = "roundtrip/" + codec + "/int-above-2^53/" + d.Kind
			run.Count("rt_json_int_precision_lost", 1)
			run.Distinct("rt_json_int_precision_fields", w.name+d.Path)
		} else {
			key = "roundtrip/" + codec + "/" + w.name + d.Path + "/" + class
		}
		enc2 := enc
		if len(enc2) > 4096 {
			enc2 = enc2[:4096]
		}
		wit := map[string]interface{}{"type": w.name, "codec": codec, "case": n, "leaf": d, "encoding_len": len(enc)}
		if strings.HasPrefix(codec, "json") {
			wit["encoding"] = string(enc2)
		} else {
			wit["encoding_hex"] = fmt.Sprintf("%X", enc2)
		}
		run.Violation(key, fmt.Sprintf("%s %s round trip: %s (%s) was %s, decoded %s", w.name, codec, d.At, d.Kind, d.Orig, d.Got), wit)
	}
	return judged
}

func rtPanic(w *wtype, codec, stage string, n int64, pi *panicInfo, enc []byte) {
	run.Violation("roundtrip/"+codec+"/"+w.name+"/"+stage+"-panic/"+pi.Site,
		fmt.Sprintf("%s %s %s of a generated value panicked: %s", w.name, codec, stage, pi.Value),
		map[string]interface{}{"type": w.name, "case": n, "panic": pi, "encoding_hex": hexCap(enc, 4096)})
}

var scratchDir string

// roundTripWire runs monitor (a) for one generated value.
func roundTripWire(w *wtype, n int64) {
	v, g := genWire(w, n)
	run.Eval()
	run.Count("rt_values_"+w.name, 1)
	if g.profile == profExtreme {
		run.Count("rt_values_extreme_profile", 1)
	}
	if w.bin {
		run.Count("rt_binary_values", 1)
		enc, pi := encBinary(w, v)
		if pi != nil {
			rtPanic(w, "binary", "encode", n, pi, nil)
		} else {
			enc2, _ := encBinary(w, v)
			if !bytes.Equal(enc, enc2) {
				run.Violation("roundtrip/binary/"+w.name+"/nondeterministic-encoding", "two encodings of the same value differ", map[string]interface{}{"type": w.name, "case": n, "a": hexCap(enc, 2048), "b": hexCap(enc2, 2048)})
			}
			if len(enc) > 1024*8 {
				run.Count("rt_binary_large_encodings", 1)
			}
			run.Nontrivial("bin:" + w.name + ":" + lib.Hash12(enc))
			dec, err, pi := decBinary(w, enc)
			if pi != nil {
				rtPanic(w, "binary", "decode", n, pi, enc)
			} else if err != nil {
				run.Violation("roundtrip/binary/"+w.name+"/decode-error", fmt.Sprintf("decoding the encoding of a generated %s failed: %v", w.name, err),
					map[string]interface{}{"type": w.name, "case": n, "error": err.Error(), "encoding_hex": hexCap(enc, 4096)})
			} else {
				var diffs []leafDiff
				diffValues(v, dec, "", "", &diffs)
				judgeDiffs(w, "binary", n, diffs, enc)
				enc3, pi := encBinary(w, dec)
				if pi != nil {
					rtPanic(w, "binary", "re-encode", n, pi, enc)
				} else if !bytes.Equal(enc, enc3) {
					run.Violation("roundtrip/binary/"+w.name+"/not-idempotent", "encode(decode(encode(v))) != encode(v)", map[string]interface{}{"type": w.name, "case": n, "first": hexCap(enc, 2048), "second": hexCap(enc3, 2048)})
				}
				if w.name == "sm.State" {
					stateViaDB(w, n, v, enc)
				}
			}
		}
	}
	if w.json {
		run.Count("rt_json_values", 1)
		enc, pi := encJSON(w, v)
		if pi != nil {
			rtPanic(w, "json", "encode", n, pi, nil)
			return
		}
		enc2, _ := encJSON(w, v)
		if !bytes.Equal(enc, enc2) {
			run.Violation("roundtrip/json/"+w.name+"/nondeterministic-encoding", "two encodings of the same value differ", map[string]interface{}{"type": w.name, "case": n, "a": string(enc), "b": string(enc2)})
		}
		run.Nontrivial("json:" + w.name + ":" + lib.Hash12(enc))
		dec, err, pi := decJSON(w, enc)
		if pi != nil {
			rtPanic(w, "json", "decode", n, pi, enc)
			return
		}
		if err != nil {
			e := enc
			if len(e) > 4096 {
				e = e[:4096]
			}
			run.Violation("roundtrip/json/"+w.name+"/decode-error", fmt.Sprintf("decoding the JSON of a generated %s failed: %v", w.name, err),
				map[string]interface{}{"type": w.name, "case": n, "error": err.Error(), "encoding": string(e)})
			return
		}
		var diffs []leafDiff
		diffValues(v, dec, "", "", &diffs)
		judgeDiffs(w, "json", n, diffs, enc)
		enc3, pi := encJSON(w, dec)
		if pi != nil {
			rtPanic(w, "json", "re-encode", n, pi, enc)
		} else if !bytes.Equal(enc, enc3) {
			// a second pass must be a fixed point even where the first is lossy
			dec2, err2, _ := decJSON(w, enc3)
			var enc4 []byte
			if err2 == nil {
				enc4, _ = encJSON(w, dec2)
			}
			lossy := len(diffs) > 0
			if !lossy || !bytes.Equal(enc3, enc4) {
				run.Violation("roundtrip/json/"+w.name+"/not-idempotent", "encode(decode(encode(v))) != encode(v) although the decoded value equals v, or the lossy mapping is not a fixed point", map[string]interface{}{"type": w.name, "case": n, "first": string(enc), "second": string(enc3)})
			}
		}
		if w.name == "types.PrivValidator" && (n/4)%2 == 0 { // all four value profiles
			privValViaFile(w, n, v)
		}
	}
}

// stateViaDB: the real persistence path State.Save -> LoadState on a MemDB.
func stateViaDB(w *wtype, n int64, v reflect.Value, enc []byte) {
	db := dbm.NewMemDB()
	gd := &types.GenesisDoc{ChainID: "c18", Validators: []types.GenesisValidator{{PubKey: crypto.GenPrivKeyEd25519FromSecret([]byte("c18")).PubKey(), Amount: 1}}}
	st := sm.MakeGenesisState(db, gd)
	src := v.Addr().Interface().(*sm.State)
	st.GenesisDoc, st.ChainID, st.LastBlockHeight, st.LastBlockID, st.LastBlockTime = src.GenesisDoc, src.ChainID, src.LastBlockHeight, src.LastBlockID, src.LastBlockTime
	st.Validators, st.LastValidators, st.LastNonEmptyHeight, st.AppHash, st.ReceiptsHash = src.Validators, src.LastValidators, src.LastNonEmptyHeight, src.AppHash, src.ReceiptsHash
	var loaded *sm.State
	pi := protect(func() {
		st.Save()
		loaded = sm.LoadState(db) // would exit the process on a decode error; the same bytes were decoded without error just before
	})
	run.Count("rt_state_save_load", 1)
	if pi != nil {
		rtPanic(w, "binary", "save-load", n, pi, enc)
		return
	}
	if loaded == nil {
		run.Violation("roundtrip/binary/sm.State/load-nil", "LoadState returned nil after Save", map[string]interface{}{"case": n})
		return
	}
	var diffs []leafDiff
	diffValues(v, reflect.ValueOf(loaded).Elem(), "", "", &diffs)
	judgeDiffs(w, "binary", n, diffs, enc)
	if !bytes.Equal(loaded.Bytes(), enc) {
		run.Violation("roundtrip/binary/sm.State/not-idempotent", "LoadState(Save(s)).Bytes() != s.Bytes()", map[string]interface{}{"case": n})
	}
}

// privValViaFile: the real persistence path PrivValidator.Save -> LoadPrivValidator.
func privValViaFile(w *wtype, n int64, v reflect.Value) {
	pv := v.Addr().Interface().(*types.PrivValidator)
	path := filepath.Join(scratchDir, fmt.Sprintf("pv-%d.json", n))
	pv.SetFile(path)
	var loaded *types.PrivValidator
	var err error
	pi := protect(func() {
		if err = pv.Save(); err != nil {
			return
		}
		loaded, err = types.LoadPrivValidator(path)
	})
	run.Count("rt_privval_save_load", 1)
	fileBytes, _ := ioutil.ReadFile(path)
	if pi != nil {
		rtPanic(w, "json", "save-load", n, pi, fileBytes)
		return
	}
	if err != nil {
		run.Violation("roundtrip/json/types.PrivValidator/file-load-error", fmt.Sprintf("LoadPrivValidator(Save(pv)) failed: %v", err), map[string]interface{}{"case": n, "file": string(fileBytes)})
		return
	}
	var diffs []leafDiff
	diffValues(v, reflect.ValueOf(loaded).Elem(), "", "", &diffs)
	judgeDiffs(w, "json-file", n, diffs, fileBytes) // own key family: the file goes through wire.JSONBytesPretty
}

// ---------------------------------------------------------------- RLP

type rlpCase struct {
	name string
	run  func(n int64) // generates value n, round-trips it, reports
}

func bigFrom(g *gen) *big.Int {
	r := g.rng
	switch r.Intn(5) {
	case 0:
		return new(big.Int)
	case 1:
		return big.NewInt(int64(r.Intn(256)))
	case 2:
		return new(big.Int).SetUint64(r.Uint64())
	case 3:
		b := make([]byte, 1+r.Intn(32))
		r.Read(b)
		return new(big.Int).SetBytes(b)
	default:
		b := make([]byte, 33+r.Intn(40))
		r.Read(b)
		b[0] |= 1
		return new(big.Int).SetBytes(b)
	}
}

func rlpRT(name string, n int64, v interface{}, fresh func() interface{}, equal func(a, b interface{}) string) {
	run.Eval()
	run.Count("rt_values_rlp:"+name, 1)
	run.Count("rt_rlp_values", 1)
	var enc, enc2, enc3 []byte
	var err error
	pi := protect(func() {
		enc, err = rlp.EncodeToBytes(v)
		if err != nil {
			return
		}
		enc2, _ = rlp.EncodeToBytes(v)
	})
	key := "roundtrip/rlp/" + name + "/"
	if pi != nil {
		run.Violation(key+"encode-panic/"+pi.Site, "RLP encoding panicked: "+pi.Value, map[string]interface{}{"case": n, "panic": pi})
		return
	}
	if err != nil {
		run.Violation(key+"encode-error", "RLP encoding of a generated value failed: "+err.Error(), map[string]interface{}{"case": n, "value": fmt.Sprintf("%+v", v)})
		return
	}
	if !bytes.Equal(enc, enc2) {
		run.Violation(key+"nondeterministic-encoding", "two RLP encodings differ", map[string]interface{}{"case": n, "a": hexCap(enc, 2048), "b": hexCap(enc2, 2048)})
	}
	run.Nontrivial("rlp:" + name + ":" + lib.Hash12(enc))
	out := fresh()
	pi = protect(func() { err = rlp.DecodeBytes(enc, out) })
	if pi != nil {
		run.Violation(key+"decode-panic/"+pi.Site, "RLP decoding panicked: "+pi.Value, map[string]interface{}{"case": n, "panic": pi, "encoding_hex": hexCap(enc, 4096)})
		return
	}
	if err != nil {
		run.Violation(key+"decode-error", "RLP decoding of an encoded value failed: "+err.Error(), map[string]interface{}{"case": n, "encoding_hex": hexCap(enc, 4096)})
		return
	}
	if d := equal(v, out); d != "" {
		run.Violation(key+"value-differs", "RLP round trip changed the value: "+d, map[string]interface{}{"case": n, "encoding_hex": hexCap(enc, 4096), "diff": d})
	}
	enc3, err = rlp.EncodeToBytes(out)
	if err != nil || !bytes.Equal(enc, enc3) {
		run.Violation(key+"not-idempotent", "encode(decode(encode(v))) != encode(v)", map[string]interface{}{"case": n, "first": hexCap(enc, 2048), "second": hexCap(enc3, 2048)})
	}
}

func structDiff(a, b interface{}) string {
	var diffs []leafDiff
	va, vb := reflect.ValueOf(a), reflect.ValueOf(b)
	diffValues(va, vb, "", "", &diffs)
	if len(diffs) == 0 {
		return ""
	}
	return fmt.Sprintf("%s: %s -> %s", diffs[0].At, diffs[0].Orig, diffs[0].Got)
}

func genLog(g *gen) *etypes.Log {
	r := g.rng
	l := &etypes.Log{}
	r.Read(l.Address[:])
	nt := r.Intn(5)
	if r.Intn(4) == 0 {
		nt = 0
	}
	for i := 0; i < nt; i++ {
		var h ethcmn.Hash
		r.Read(h[:])
		l.Topics = append(l.Topics, h)
	}
	l.Data = g.bytes()
	return l
}

func txFields(tx *etypes.Transaction) string {
	v, r, s := tx.RawSignatureValues()
	to := "nil"
	if tx.To() != nil {
		to = tx.To().Hex()
	}
	return fmt.Sprintf("nonce=%d price=%v gas=%d to=%s value=%v data=%X v=%v r=%v s=%v", tx.Nonce(), tx.GasPrice(), tx.Gas(), to, tx.Value(), tx.Data(), v, r, s)
}

type rlpGenerated struct {
	name  string
	v     interface{}
	fresh func() interface{}
	equal func(a, b interface{}) string
}

func rlpRoundTrip(kind int, n int64) {
	x := rlpGen(kind, n)
	rlpRT(x.name, n, x.v, x.fresh, x.equal)
}

func rlpGen(kind int, n int64) (out rlpGenerated) {
	rlpRT := func(name string, _ int64, v interface{}, fresh func() interface{}, equal func(a, b interface{}) string) {
		out = rlpGenerated{name, v, fresh, equal}
	}
	rng := lib.Rand("c18-rlp-rt", n*16+int64(kind))
	g := newGen(rng, n)
	r := rng
	switch kind {
	case 0: // eth Transaction (unsigned, homestead-signed, EIP155-signed, contract creation)
		var to ethcmn.Address
		r.Read(to[:])
		var tx *etypes.Transaction
		nonce := g.uint64()
		gas := g.uint64()
		if r.Intn(4) == 0 {
			tx = etypes.NewContractCreation(nonce, bigFrom(g), gas, bigFrom(g), g.bytes())
		} else {
			tx = etypes.NewTransaction(nonce, to, bigFrom(g), gas, bigFrom(g), g.bytes())
		}
		switch r.Intn(3) {
		case 1:
			key, _ := ethcrypto.ToECDSA(ethcrypto.Keccak256([]byte(fmt.Sprintf("c18-key-%d", r.Intn(4)))))
			stx, err := etypes.SignTx(tx, etypes.HomesteadSigner{}, key)
			if err == nil {
				tx = stx
			}
		case 2:
			key, _ := ethcrypto.ToECDSA(ethcrypto.Keccak256([]byte(fmt.Sprintf("c18-key-%d", r.Intn(4)))))
			stx, err := etypes.SignTx(tx, etypes.NewEIP155Signer(big.NewInt(int64(1+r.Intn(1000)))), key)
			if err == nil {
				tx = stx
			}
		}
		rlpRT("etypes.Transaction", n, tx, func() interface{} { return new(etypes.Transaction) }, func(a, b interface{}) string {
			fa, fb := txFields(a.(*etypes.Transaction)), txFields(b.(*etypes.Transaction))
			if fa != fb {
				return fa + " != " + fb
			}
			if a.(*etypes.Transaction).Hash() != b.(*etypes.Transaction).Hash() {
				return "hash differs"
			}
			return ""
		})
	case 1, 2: // Receipt (consensus form) and ReceiptForStorage
		rc := &etypes.Receipt{}
		if r.Intn(3) == 0 {
			rc.PostState = make([]byte, 32)
			r.Read(rc.PostState)
		} else {
			rc.Status = uint64(r.Intn(3)) // failed / successful / failed-out-of-gas (AnnChain addition)
		}
		rc.CumulativeGasUsed = g.uint64()
		nl := r.Intn(4)
		for i := 0; i < nl; i++ {
			rc.Logs = append(rc.Logs, genLog(g))
		}
		rc.Bloom = etypes.CreateBloom(etypes.Receipts{rc})
		if kind == 1 {
			rlpRT("etypes.Receipt", n, rc, func() interface{} { return new(etypes.Receipt) }, func(a, b interface{}) string {
				x, y := a.(*etypes.Receipt), b.(*etypes.Receipt)
				if !bytes.Equal(x.PostState, y.PostState) || x.Status != y.Status || x.CumulativeGasUsed != y.CumulativeGasUsed || x.Bloom != y.Bloom || len(x.Logs) != len(y.Logs) {
					return fmt.Sprintf("%+v != %+v", x, y)
				}
				for i := range x.Logs {
					if x.Logs[i].Address != y.Logs[i].Address || !reflect.DeepEqual(append([]ethcmn.Hash{}, x.Logs[i].Topics...), append([]ethcmn.Hash{}, y.Logs[i].Topics...)) || !bytes.Equal(x.Logs[i].Data, y.Logs[i].Data) {
						return fmt.Sprintf("log %d differs", i)
					}
				}
				return ""
			})
		} else {
			r.Read(rc.TxHash[:])
			r.Read(rc.ContractAddress[:])
			rc.GasUsed = g.uint64()
			for _, l := range rc.Logs {
				l.BlockNumber = g.uint64()
				r.Read(l.TxHash[:])
				l.TxIndex = uint(r.Intn(1000))
				r.Read(l.BlockHash[:])
				l.Index = uint(r.Intn(1000))
			}
			rlpRT("etypes.ReceiptForStorage", n, (*etypes.ReceiptForStorage)(rc), func() interface{} { return new(etypes.ReceiptForStorage) }, func(a, b interface{}) string {
				x, y := (*etypes.Receipt)(a.(*etypes.ReceiptForStorage)), (*etypes.Receipt)(b.(*etypes.ReceiptForStorage))
				if !bytes.Equal(x.PostState, y.PostState) || x.Status != y.Status || x.CumulativeGasUsed != y.CumulativeGasUsed || x.Bloom != y.Bloom || len(x.Logs) != len(y.Logs) ||
					x.TxHash != y.TxHash || x.ContractAddress != y.ContractAddress || x.GasUsed != y.GasUsed {
					return fmt.Sprintf("%+v != %+v", x, y)
				}
				for i := range x.Logs {
					if d := structDiff(*x.Logs[i], *y.Logs[i]); d != "" {
						return fmt.Sprintf("log %d: %s", i, d)
					}
				}
				return ""
			})
		}
	case 3: // chain/types KV (key-value transaction payload and stored form)
		kv := &chaintypes.KV{Key: g.bytes(), Value: g.bytes()}
		rlpRT("chaintypes.KV", n, kv, func() interface{} { return new(chaintypes.KV) }, func(a, b interface{}) string { return structDiff(a, b) })
	case 4:
		var kvs chaintypes.KVs
		for i := r.Intn(5); i > 0; i-- {
			kvs = append(kvs, &chaintypes.KV{Key: g.bytes(), Value: g.bytes()})
		}
		rlpRT("chaintypes.KVs", n, kvs, func() interface{} { return new(chaintypes.KVs) }, func(a, b interface{}) string {
			return structDiff(a, *(b.(*chaintypes.KVs)))
		})
	case 5: // chain/types Transaction (TxData)
		td := &chaintypes.TxData{PublicKey: g.bytes(), Signature: g.bytes(), TimeStamp: g.uint64(), CryptoType: g.str()}
		r.Read(td.Caller[:])
		rlpRT("chaintypes.TxData", n, td, func() interface{} { return new(chaintypes.TxData) }, func(a, b interface{}) string { return structDiff(a, b) })
	case 6: // gemmill/types TxExecutionResult (RLP via ToBytes/FromBytes)
		te := &types.TxExecutionResult{Height: g.uint64(), BlockHash: g.bytes(), Index: g.uint64()}
		rlpRT("types.TxExecutionResult", n, te, func() interface{} { return new(types.TxExecutionResult) }, func(a, b interface{}) string { return structDiff(a, b) })
	case 7: // key-value history records (RLP, evm/kv.go)
		h := &types.KeyValueHistory{Key: g.bytes()}
		v := reflect.New(reflect.TypeOf(types.ValueUpdateHistory{})).Elem()
		gg := *g
		gg.profile = profExtreme
		gg.value(v, nil)
		vu := v.Interface().(types.ValueUpdateHistory)
		h.ValueUpdateHistory = &vu
		rlpRT("types.KeyValueHistory", n, h, func() interface{} { return new(types.KeyValueHistory) }, func(a, b interface{}) string { return structDiff(a, b) })
	}
	return
}

const rlpRTKinds = 8
