package main

// Reflection-driven value generator for go-wire types. The field selection
// rule is go-wire's documented one (exported fields, `json:"-"` skipped); it is
// re-stated here, not taken from go-wire's TypeInfo, so that the comparator
// does not inherit a field-selection bug of the codec.

import (
	"math"
	"math/rand"
	"reflect"
	"sort"
	"time"

	wire "github.com/dappledger/AnnChain/gemmill/go-wire"
)

var timeType = reflect.TypeOf(time.Time{})

// profile of a generated value
const (
	profPlain   = 0 // integers within +-2^53, valid UTF-8 strings, millisecond times inside the int64-nanosecond range
	profExtreme = 1 // extreme integers, invalid UTF-8, zero / sub-millisecond / out-of-range times
)

type gen struct {
	rng     *rand.Rand
	profile int
	large   bool // allow large slices / byte strings
	budget  int  // remaining number of slice elements / bytes that may still be produced (bounds total size)
}

func wireField(f reflect.StructField) bool {
	if f.PkgPath != "" { // unexported
		return false
	}
	if tag := f.Tag.Get("json"); tag == "-" {
		return false
	}
	return true
}

var plainInts = []int64{0, 1, -1, 2, 7, 127, 128, 255, 256, -128, -129, 65535, 65536, 1<<31 - 1, -(1 << 31), 1 << 32, 1<<53 - 1, -(1<<53 - 1), 1 << 53, -(1 << 53)}
var extremeInts = []int64{math.MaxInt64, math.MinInt64, math.MaxInt64 - 1, math.MinInt64 + 1, 1<<53 + 1, -(1<<53 + 1), 1 << 62, -(1 << 62), 1<<63 - 1025}

func (g *gen) int64() int64 {
	r := g.rng
	if g.profile == profExtreme && r.Intn(3) == 0 {
		if r.Intn(2) == 0 {
			return extremeInts[r.Intn(len(extremeInts))]
		}
		return int64(r.Uint64())
	}
	switch r.Intn(4) {
	case 0:
		return plainInts[r.Intn(len(plainInts))]
	case 1:
		return int64(r.Intn(1000))
	case 2:
		return r.Int63n(1<<40) - 1<<39
	default:
		return r.Int63n(1<<53) - 1<<52
	}
}

func (g *gen) uint64() uint64 {
	r := g.rng
	if g.profile == profExtreme && r.Intn(3) == 0 {
		switch r.Intn(4) {
		case 0:
			return math.MaxUint64
		case 1:
			return 1 << 63
		case 2:
			return 1<<53 + 1
		default:
			return r.Uint64()
		}
	}
	v := g.int64()
	if v < 0 {
		if v == math.MinInt64 {
			return 0
		}
		v = -v
	}
	return uint64(v)
}

var plainStrings = []string{"", "a", "annchain-test", "chain id with space", "链-ü-\U0001F600", "q\"uote", "back\\slash", "{\"brace\":[1,2]}", "ctl\x00\x01\x1f\n\t\r", "<html>&amp;", "  ", "�", "\\u0041", "'single'", "\x7f"}
var badUTF8Strings = []string{"\xff", "\xfe\xff", "a\xc3", "\xed\xa0\x80", "ok\x80ok", "\xf8\x88\x80\x80\x80"}

func (g *gen) str() string {
	r := g.rng
	if g.profile == profExtreme && r.Intn(4) == 0 {
		return badUTF8Strings[r.Intn(len(badUTF8Strings))]
	}
	switch r.Intn(5) {
	case 0, 1:
		return plainStrings[r.Intn(len(plainStrings))]
	case 2:
		n := r.Intn(24)
		b := make([]byte, n)
		for i := range b {
			b[i] = byte(32 + r.Intn(95))
		}
		return string(b)
	case 3:
		n := r.Intn(12)
		rs := make([]rune, n)
		for i := range rs {
			switch r.Intn(4) {
			case 0:
				rs[i] = rune(r.Intn(0x80))
			case 1:
				rs[i] = rune(0x80 + r.Intn(0x780))
			case 2:
				rs[i] = rune(0x4e00 + r.Intn(0x5000))
			default:
				rs[i] = rune(0x1F300 + r.Intn(0x300))
			}
		}
		return string(rs)
	default:
		if g.large && g.budget > 5000 && r.Intn(4) == 0 {
			n := 256 + r.Intn(4000)
			g.budget -= n
			b := make([]byte, n)
			for i := range b {
				b[i] = byte(97 + r.Intn(26))
			}
			return string(b)
		}
		return "x"
	}
}

func (g *gen) bytesLen() int {
	r := g.rng
	switch r.Intn(8) {
	case 0:
		return -1 // nil
	case 1:
		return 0
	case 2:
		return 1
	case 3:
		return 20
	case 4:
		return 32
	case 5:
		return r.Intn(64)
	case 6:
		if g.large && g.budget > 70000 {
			ls := []int{255, 256, 1023, 1024, 1025, 4096, 65535, 65536, 65537}
			return ls[r.Intn(len(ls))]
		}
		return 33
	default:
		if g.large && g.budget > 300000 && r.Intn(8) == 0 {
			return 100000 + r.Intn(150000)
		}
		return r.Intn(200)
	}
}

func (g *gen) bytes() []byte {
	n := g.bytesLen()
	if n < 0 {
		return nil
	}
	g.budget -= n
	b := make([]byte, n)
	g.rng.Read(b)
	return b
}

func (g *gen) sliceLen() int {
	r := g.rng
	switch r.Intn(8) {
	case 0:
		return -1
	case 1:
		return 0
	case 2:
		return 1
	case 3, 4:
		return 2 + r.Intn(5)
	case 5:
		return r.Intn(40)
	default:
		if g.large && g.budget > 4000 && r.Intn(3) == 0 {
			ls := []int{1023, 1024, 1025, 2047, 2048, 2049, 3000}
			return ls[r.Intn(len(ls))]
		}
		return r.Intn(4)
	}
}

var timeRangeLo = time.Unix(0, math.MinInt64/1000000*1000000)
var timeRangeHi = time.Unix(0, math.MaxInt64/1000000*1000000)

func (g *gen) time() time.Time {
	r := g.rng
	var t time.Time
	if g.profile == profExtreme && r.Intn(3) == 0 {
		switch r.Intn(5) {
		case 0:
			return time.Time{} // zero value: outside the int64-nanosecond range
		case 1:
			return time.Unix(1500000000+r.Int63n(1e8), r.Int63n(1e9)) // sub-millisecond precision
		case 2:
			return time.Unix(-r.Int63n(1e9), r.Int63n(1e9)) // before the epoch, sub-millisecond
		case 3:
			return time.Date(1600+r.Intn(50), 3, 4, 5, 6, 7, 0, time.UTC) // before 1678
		default:
			return time.Date(2300+r.Intn(500), 3, 4, 5, 6, 7, 0, time.UTC) // after 2262
		}
	}
	switch r.Intn(8) {
	case 0:
		t = time.Unix(0, 0)
	case 1:
		t = time.Unix(0, 1000000)
	case 2:
		t = time.Unix(0, -1000000)
	case 3:
		t = timeRangeLo
	case 4:
		t = timeRangeHi
	case 5:
		t = time.Unix(0, (r.Int63()-(1<<62))/1000000*1000000)
	default:
		t = time.Unix(1400000000+r.Int63n(4e8), r.Int63n(1000)*1000000)
	}
	switch r.Intn(3) {
	case 0:
		t = t.UTC()
	case 1:
		t = t.In(time.FixedZone("x", 3600*(r.Intn(25)-12)))
	}
	return t
}

// registered concrete types of an interface, ordered by type byte
func concreteTypes(rt reflect.Type) []reflect.Type {
	info := wire.GetTypeInfo(rt)
	if !info.IsRegisteredInterface {
		return nil
	}
	var bs []int
	for b := range info.ByteToType {
		bs = append(bs, int(b))
	}
	sort.Ints(bs)
	out := make([]reflect.Type, len(bs))
	for i, b := range bs {
		out[i] = info.ByteToType[byte(b)]
	}
	return out
}

// value fills rv (settable) with a generated value of its type. pick >= 0
// forces the pick-th concrete type at the first registered interface met.
func (g *gen) value(rv reflect.Value, pick *int) {
	rt := rv.Type()
	r := g.rng
	switch rt.Kind() {
	case reflect.Interface:
		cts := concreteTypes(rt)
		if len(cts) == 0 {
			return // unregistered interface: cannot be decoded, leave nil
		}
		var ct reflect.Type
		if pick != nil && *pick >= 0 {
			ct = cts[*pick%len(cts)]
			*pick = -1
		} else {
			if r.Intn(8) == 0 {
				return // nil interface
			}
			ct = cts[r.Intn(len(cts))]
		}
		if ct.Kind() == reflect.Ptr {
			p := reflect.New(ct.Elem())
			g.value(p.Elem(), pick)
			rv.Set(p)
		} else {
			c := reflect.New(ct).Elem()
			g.value(c, pick)
			rv.Set(c)
		}
	case reflect.Ptr:
		if (pick == nil || *pick < 0) && r.Intn(7) == 0 {
			return
		}
		p := reflect.New(rt.Elem())
		g.value(p.Elem(), pick)
		rv.Set(p)
	case reflect.Struct:
		if rt == timeType {
			rv.Set(reflect.ValueOf(g.time()))
			return
		}
		for i := 0; i < rt.NumField(); i++ {
			if !wireField(rt.Field(i)) {
				continue
			}
			g.value(rv.Field(i), pick)
		}
	case reflect.Slice:
		if rt.Elem().Kind() == reflect.Uint8 {
			b := g.bytes()
			if b == nil {
				return
			}
			rv.Set(reflect.ValueOf(b).Convert(rt))
			return
		}
		n := g.sliceLen()
		if n < 0 {
			return
		}
		if n > g.budget/8 {
			n = g.budget / 8
			if n < 0 {
				n = 0
			}
		}
		g.budget -= 8 * n
		s := reflect.MakeSlice(rt, n, n)
		small := *g
		for i := 0; i < n; i++ {
			if n > 64 {
				// elements of a large slice are kept small
				small.large = false
				small.budget = g.budget
				small.value(s.Index(i), nil)
				g.budget = small.budget
			} else {
				g.value(s.Index(i), nil)
			}
		}
		rv.Set(s)
	case reflect.Array:
		if rt.Elem().Kind() == reflect.Uint8 {
			b := make([]byte, rt.Len())
			if r.Intn(6) != 0 {
				r.Read(b)
			}
			reflect.Copy(rv, reflect.ValueOf(b))
			return
		}
		for i := 0; i < rt.Len(); i++ {
			g.value(rv.Index(i), nil)
		}
	case reflect.String:
		rv.SetString(g.str())
	case reflect.Int64, reflect.Int:
		rv.SetInt(g.int64())
	case reflect.Int32:
		rv.SetInt(int64(int32(g.int64())))
	case reflect.Int16:
		rv.SetInt(int64(int16(g.int64())))
	case reflect.Int8:
		rv.SetInt(int64(int8(g.int64())))
	case reflect.Uint64, reflect.Uint:
		rv.SetUint(g.uint64())
	case reflect.Uint32:
		rv.SetUint(uint64(uint32(g.uint64())))
	case reflect.Uint16:
		rv.SetUint(uint64(uint16(g.uint64())))
	case reflect.Uint8:
		rv.SetUint(uint64(uint8(g.uint64())))
	case reflect.Bool:
		rv.SetBool(r.Intn(2) == 0)
	}
}

// newGen makes the generator of case number n of a stream.
func newGen(rng *rand.Rand, n int64) *gen {
	g := &gen{rng: rng, budget: 3000}
	switch n % 4 {
	case 1:
		g.profile = profExtreme
	case 2:
		g.large = true
		g.budget = 400000
	case 3:
		g.large = true
		g.profile = profExtreme
		g.budget = 60000
	}
	return g
}

// newGenRobust: seeds of the robust-decoding monitor; large values (slices crossing
// go-wire's 1024-element chunk) are one seed in four, and smaller than in monitor (a).
func newGenRobust(rng *rand.Rand, n int64) *gen {
	g := &gen{rng: rng, budget: 2000}
	switch n % 8 {
	case 1, 5:
		g.profile = profExtreme
	case 2:
		g.large = true
		g.budget = 12000
	case 6:
		g.large = true
		g.profile = profExtreme
		g.budget = 5000
	}
	return g
}
