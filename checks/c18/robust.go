package main

// Monitor (b): robust decoding. Runs in single-threaded child processes:
// every input is written to a file before it is decoded, the decode is wrapped
// in recover, heap allocation is measured as the runtime.MemStats.TotalAlloc
// delta of the call, and RLIMIT_AS makes an absurd allocation kill the child
// (the parent then reads the last logged input) instead of the machine.

import (
	"bufio"
	"bytes"
	"encoding/hex"
	"encoding/json"
	"fmt"
	"io/ioutil"
	"math/rand"
	"os"
	"os/exec"
	"path/filepath"
	"reflect"
	"regexp"
	"runtime"
	"runtime/debug"
	"strconv"
	"strings"
	"syscall"
	"time"

	chaintypes "github.com/dappledger/AnnChain/chain/types"
	etypes "github.com/dappledger/AnnChain/eth/core/types"
	"github.com/dappledger/AnnChain/eth/rlp"
	"github.com/dappledger/AnnChain/gemmill/blockchain"
	"github.com/dappledger/AnnChain/gemmill/consensus/pbft"
	crypto "github.com/dappledger/AnnChain/gemmill/go-crypto"
	wire "github.com/dappledger/AnnChain/gemmill/go-wire"
	"github.com/dappledger/AnnChain/gemmill/mempool"
	"github.com/dappledger/AnnChain/gemmill/p2p"
	sm "github.com/dappledger/AnnChain/gemmill/state"
	"github.com/dappledger/AnnChain/gemmill/types"

	"verif/lib"
)

var limits = []int{1, 16, 256, 4096, 1 << 20}

const (
	limCaller = 0 // decoder takes the caller's limit: every input is offered with each of `limits`
	limFixed  = 1 // decoder has a built-in limit (reactor DecodeMessage functions)
	limNone   = 2 // decoder has no limit parameter (JSON, RLP, crypto.*FromBytes): the input length is the only bound
)

type decoder struct {
	name    string
	codec   string // binary | json | rlp
	limKind int
	fixed   int
	seed    func(n int64) []byte                 // a valid encoding
	dec     func(in []byte, lmt int) (err error) // the decode under test
}

var decoders []*decoder

func seedBinary(w *wtype) func(n int64) []byte {
	return func(n int64) []byte {
		for k := int64(0); k < 8; k++ {
			rng := lib.Rand("c18-robust-seed-"+w.name, n*8+k)
			g := newGenRobust(rng, n)
			v := reflect.New(w.rt).Elem()
			pick := -1
			if w.variants > 0 {
				pick = int((n / 4) % int64(w.variants))
			}
			g.value(v, &pick)
			b, pi := encBinary(w, v)
			if pi == nil {
				return b
			}
		}
		return []byte{0}
	}
}

func seedJSON(w *wtype) func(n int64) []byte {
	return func(n int64) []byte {
		rng := lib.Rand("c18-robust-seedj-"+w.name, n)
		g := newGenRobust(rng, n)
		if g.large {
			g.budget /= 3
		}
		v := reflect.New(w.rt).Elem()
		pick := -1
		if w.variants > 0 {
			pick = int((n / 4) % int64(w.variants))
		}
		g.value(v, &pick)
		b, pi := encJSON(w, v)
		if pi != nil {
			return []byte("{}")
		}
		return b
	}
}

func buildDecoders() {
	if decoders != nil {
		return
	}
	for _, w0 := range wireTypes {
		w := w0
		if w.bin {
			d := &decoder{name: "wire.ReadBinary/" + w.name, codec: "binary", limKind: limCaller, seed: seedBinary(w)}
			switch {
			case w.name == "sm.State":
				d.dec = func(in []byte, lmt int) (err error) {
					s := &sm.State{}
					var n int
					wire.ReadBinaryPtr(&s, bytes.NewReader(in), lmt, &n, &err) // as state.loadState does
					return
				}
			case w.rt.Name() == "":
				zero := reflect.Zero(w.rt).Interface()
				d.dec = func(in []byte, lmt int) (err error) {
					var n int
					wire.ReadBinary(zero, bytes.NewReader(in), lmt, &n, &err) // by value, as the reactors' DecodeMessage do
					return
				}
			default:
				rt := w.rt
				d.dec = func(in []byte, lmt int) (err error) {
					var n int
					wire.ReadBinary(reflect.New(rt).Interface(), bytes.NewReader(in), lmt, &n, &err)
					return
				}
			}
			decoders = append(decoders, d)
		}
		if w.json {
			rt := w.rt
			d := &decoder{name: "wire.ReadJSON/" + w.name, codec: "json", limKind: limNone, seed: seedJSON(w)}
			d.dec = func(in []byte, lmt int) (err error) {
				wire.ReadJSON(reflect.New(rt).Interface(), in, &err)
				return
			}
			if w.name == "types.GenesisDoc" {
				d.name = "types.GenesisDocFromJSONRet"
				d.dec = func(in []byte, lmt int) (err error) { _, err = types.GenesisDocFromJSONRet(in); return }
			}
			decoders = append(decoders, d)
		}
	}
	fixed := func(name, wname string, lmt int, f func(in []byte) error) {
		decoders = append(decoders, &decoder{name: name, codec: "binary", limKind: limFixed, fixed: lmt, seed: seedBinary(wtypeByName(wname)), dec: func(in []byte, _ int) error { return f(in) }})
	}
	fixed("pbft.DecodeMessage", "pbft.ConsensusMessage", 1048576, func(in []byte) error { _, _, err := pbft.DecodeMessage(in); return err })
	fixed("blockchain.DecodeMessage", "blockchain.BlockchainMessage", types.MaxBlockSize+2, func(in []byte) error { _, _, err := blockchain.DecodeMessage(in); return err })
	fixed("mempool.DecodeMessage", "mempool.MempoolMessage", 1048576, func(in []byte) error { _, _, err := mempool.DecodeMessage(in); return err })
	fixed("p2p.DecodeMessage", "p2p.PexMessage", 1048576, func(in []byte) error { _, _, err := p2p.DecodeMessage(in); return err })
	nolimit := func(name, codec string, seed func(n int64) []byte, f func(in []byte) error) {
		decoders = append(decoders, &decoder{name: name, codec: codec, limKind: limNone, seed: seed, dec: func(in []byte, _ int) error { return f(in) }})
	}
	nolimit("crypto.PubKeyFromBytes", "binary", seedBinary(wtypeByName("crypto.PubKey")), func(in []byte) error { _, err := crypto.PubKeyFromBytes(in); return err })
	nolimit("crypto.SignatureFromBytes", "binary", seedBinary(wtypeByName("crypto.Signature")), func(in []byte) error { _, err := crypto.SignatureFromBytes(in); return err })
	nolimit("crypto.PrivKeyFromBytes", "binary", seedBinary(wtypeByName("crypto.PrivKey")), func(in []byte) error { _, err := crypto.PrivKeyFromBytes(in); return err })
	// RLP decoders: seeds are encodings produced by the generators of monitor (a)
	rlpSeed := func(kind int) func(n int64) []byte {
		return func(n int64) []byte { return rlpSeedBytes(kind, n) }
	}
	nolimit("rlp.DecodeBytes/etypes.Transaction", "rlp", rlpSeed(0), func(in []byte) error { return rlp.DecodeBytes(in, new(etypes.Transaction)) })
	nolimit("rlp.DecodeBytes/etypes.Receipt", "rlp", rlpSeed(1), func(in []byte) error { return rlp.DecodeBytes(in, new(etypes.Receipt)) })
	nolimit("rlp.DecodeBytes/etypes.ReceiptForStorage", "rlp", rlpSeed(2), func(in []byte) error { return rlp.DecodeBytes(in, new(etypes.ReceiptForStorage)) })
	nolimit("rlp.DecodeBytes/chaintypes.KV", "rlp", rlpSeed(3), func(in []byte) error { return rlp.DecodeBytes(in, new(chaintypes.KV)) })
	nolimit("rlp.DecodeBytes/chaintypes.KVs", "rlp", rlpSeed(4), func(in []byte) error { return rlp.DecodeBytes(in, new(chaintypes.KVs)) })
	nolimit("chaintypes.Transaction.DecodeRLP", "rlp", rlpSeed(5), func(in []byte) error { return new(chaintypes.Transaction).DecodeRLP(in) })
	nolimit("types.TxExecutionResult.FromBytes", "rlp", rlpSeed(6), func(in []byte) error { return new(types.TxExecutionResult).FromBytes(in) })
	nolimit("rlp.DecodeBytes/types.KeyValueHistory", "rlp", rlpSeed(7), func(in []byte) error { return rlp.DecodeBytes(in, new(types.KeyValueHistory)) })
}

func rlpSeedBytes(kind int, n int64) []byte {
	x := rlpGen(kind, n)
	b, err := rlp.EncodeToBytes(x.v)
	if err != nil {
		return []byte{0xc0}
	}
	return b
}

// ------------------------------------------------------------ mutations

// ladder: go-wire varint length prefixes of growing magnitude. The steps of a
// ladder are offered at the same offset in this order; once one step made the
// decoder allocate beyond the bound (reported), the larger steps at the same
// offset and limit are skipped: they would show the same unchecked length prefix
// again, at the cost of a dead child each.
var ladder = [][]byte{
	{0x02, 0xff, 0xff},                                     // 64 Ki
	{0x03, 0x10, 0x00, 0x01},                               // 1 Mi + 1
	{0x03, 0xff, 0xff, 0xff},                               // 16 Mi
	{0x04, 0x08, 0x00, 0x00, 0x00},                         // 128 Mi: above the bound of the largest caller limit (1 MiB), still allocatable
	{0x04, 0x40, 0x00, 0x00, 0x00},                         // 1 Gi
	{0x04, 0xff, 0xff, 0xff, 0xff},                         // 4 Gi
	{0x06, 0x01, 0x00, 0x00, 0x00, 0x00, 0x00},             // 2^40
	{0x08, 0x00, 0x00, 0x00, 0x01, 0x00, 0x00, 0x00, 0x00}, // 2^32, non-minimal
	{0x08, 0x7f, 0xff, 0xff, 0xff, 0xff, 0xff, 0xff, 0xff}, // MaxInt64
}
var headLadder = [][]byte{ladder[0], ladder[2], ladder[3], ladder[5], ladder[8]}

// other length / type-prefix patterns, each an independent mutant
var bombs = [][]byte{
	{0x08, 0x80, 0x00, 0x00, 0x00, 0x00, 0x00, 0x00, 0x00}, // MinInt64 as unsigned
	{0xf8, 0x7f, 0xff, 0xff, 0xff, 0xff, 0xff, 0xff, 0xff}, // -MaxInt64
	{0xf1, 0x01}, // -1
	{0xf0},       // negative zero
	{0x09, 0x01, 0x01, 0x01, 0x01, 0x01, 0x01, 0x01, 0x01, 0x01}, // size byte 9
}
var rlpBombs = [][]byte{
	{0xb9, 0xff, 0xff},                                     // RLP string 64 Ki
	{0xf9, 0xff, 0xff},                                     // RLP list 64 Ki
	{0xba, 0xff, 0xff, 0xff},                               // RLP string 16 Mi
	{0xbb, 0xff, 0xff, 0xff, 0xff},                         // RLP string, 4-byte length 4 Gi
	{0xfb, 0xff, 0xff, 0xff, 0xff},                         // RLP list, 4-byte length
	{0xbf, 0x7f, 0xff, 0xff, 0xff, 0xff, 0xff, 0xff, 0xff}, // RLP string, 8-byte length
	{0xff, 0x7f, 0xff, 0xff, 0xff, 0xff, 0xff, 0xff, 0xff}, // RLP list, 8-byte length
}

var substBytes = []byte{0x00, 0x01, 0x02, 0x03, 0x04, 0x08, 0x10, 0x11, 0x14, 0x20, 0x7f, 0x80, 0xf1, 0xff}

type mutant struct {
	kind   string
	steps  []func() []byte // one input per step; >1 only for ladders
	ladder bool
}

func overwrite(seed []byte, off int, pat []byte) []byte {
	out := append([]byte{}, seed...)
	if off+len(pat) > len(out) {
		out = append(out[:off], pat...)
	} else {
		copy(out[off:], pat)
	}
	return out
}

func insertAt(seed []byte, off int, pat []byte) []byte {
	out := make([]byte, 0, len(seed)+len(pat))
	out = append(out, seed[:off]...)
	out = append(out, pat...)
	out = append(out, seed[off:]...)
	return out
}

var jsonSubst = []string{"null", "[]", "{}", "\"\"", "\"zz\"", "0", "-1", "1.5", "1e300", "-1e300", "18446744073709551616", "true", "[null]", "[1,null]", "[255,{}]", "[0,{}]", "[1]", "[1,2,3]", "{\"a\":1}", "\"0G\"", "\"ABC\"", "[[[[[[[[[[]]]]]]]]]]", "\"2017-01-01T00:00:00.000Z\"", "\"0001-01-01T00:00:00.0000001Z\""}

// mutateJSON replaces one random node of the parsed document.
func mutateJSON(rng *rand.Rand, seed []byte) []byte {
	var doc interface{}
	dec := json.NewDecoder(bytes.NewReader(seed))
	dec.UseNumber()
	if dec.Decode(&doc) != nil {
		return nil
	}
	var nodes int
	var count func(v interface{})
	count = func(v interface{}) {
		nodes++
		switch t := v.(type) {
		case []interface{}:
			for _, e := range t {
				count(e)
			}
		case map[string]interface{}:
			for _, e := range t {
				count(e)
			}
		}
	}
	count(doc)
	target := rng.Intn(nodes)
	repl := json.RawMessage(jsonSubst[rng.Intn(len(jsonSubst))])
	idx := 0
	var walk func(v interface{}) interface{}
	walk = func(v interface{}) interface{} {
		me := idx
		idx++
		if me == target {
			return repl
		}
		switch t := v.(type) {
		case []interface{}:
			for i, e := range t {
				t[i] = walk(e)
			}
		case map[string]interface{}:
			keys := make([]string, 0, len(t))
			for k := range t {
				keys = append(keys, k)
			}
			sortStrings(keys)
			for _, k := range keys {
				t[k] = walk(t[k])
			}
		}
		return v
	}
	doc = walk(doc)
	out, err := json.Marshal(doc)
	if err != nil {
		return nil
	}
	return out
}

func sortStrings(s []string) {
	for i := 1; i < len(s); i++ {
		for j := i; j > 0 && s[j] < s[j-1]; j-- {
			s[j], s[j-1] = s[j-1], s[j]
		}
	}
}

// mutants builds the fixed mutant list of one group (materialised lazily).
// full: exhaustive offsets for short seeds and no sampling; otherwise a seeded
// sample worth about `sample` inputs. headSweep: a ladder at every offset of the
// first 64 bytes, never sampled away.
func mutants(rng *rand.Rand, d *decoder, seed, other []byte, full, headSweep bool, sample int) []mutant {
	var ms []mutant
	add := func(kind string, f func() []byte) { ms = append(ms, mutant{kind: kind, steps: []func() []byte{f}}) }
	// how: 0 overwrite at o, 1 insert at o, 2 cut: the valid prefix seed[:o], the pattern, end of input
	// (the shortest input that carries this length prefix, hence the smallest allowance)
	addLadder := func(kind string, o int, pats [][]byte, how int) {
		m := mutant{kind: kind, ladder: true}
		for _, p := range pats {
			p := p
			switch how {
			case 1:
				m.steps = append(m.steps, func() []byte { return insertAt(seed, o, p) })
			case 2:
				m.steps = append(m.steps, func() []byte { return append(append([]byte{}, seed[:o]...), p...) })
			default:
				m.steps = append(m.steps, func() []byte { return overwrite(seed, o, p) })
			}
		}
		ms = append(ms, m)
	}
	add("valid", func() []byte { return seed })
	add("empty", func() []byte { return []byte{} })
	L := len(seed)
	if headSweep && d.codec == "binary" {
		for o := 0; o < L && o < 64; o++ {
			addLadder("length-bomb-head", o, headLadder, 0)
			addLadder("length-bomb-head-cut", o, headLadder, 2)
		}
	}
	protected := len(ms)
	offs := func(max int) []int {
		if L == 0 {
			return []int{0}
		}
		if L <= max {
			o := make([]int, L)
			for i := range o {
				o[i] = i
			}
			return o
		}
		o := make([]int, max)
		for i := range o {
			if i < max/4 {
				o[i] = i // the head of a message holds type bytes and the first length prefixes
			} else {
				o[i] = rng.Intn(L)
			}
		}
		return o
	}
	exh := 24
	if full {
		exh = 128
	}
	for _, o := range offs(exh * 2) {
		o := o
		add("truncate", func() []byte { return seed[:o] })
	}
	if d.codec != "json" {
		for _, o := range offs(exh) {
			if d.codec == "binary" || rng.Intn(4) == 0 {
				if rng.Intn(2) == 0 {
					addLadder("length-bomb", o, ladder, 0)
				} else {
					addLadder("length-bomb-cut", o, ladder, 2)
				}
			}
			pats := bombs
			if d.codec == "rlp" {
				pats = rlpBombs
			}
			for _, p := range pats {
				o, p := o, p
				add("length-pattern", func() []byte { return overwrite(seed, o, p) })
			}
			if d.codec == "binary" && rng.Intn(4) == 0 {
				p := rlpBombs[rng.Intn(len(rlpBombs))]
				o := o
				add("length-pattern", func() []byte { return overwrite(seed, o, p) })
			}
		}
	}
	for _, o := range offs(exh) {
		for _, s := range substBytes {
			if L > 0 && seed[o] != s {
				o, s := o, s
				add("byte-subst", func() []byte { b := append([]byte{}, seed...); b[o] = s; return b })
			}
		}
	}
	for i := 0; i < exh*2 && L > 0; i++ {
		bit := rng.Intn(L * 8)
		add("bit-flip", func() []byte { b := append([]byte{}, seed...); b[bit/8] ^= 1 << uint(bit%8); return b })
	}
	for i := 0; i < exh/2 && d.codec != "json"; i++ {
		o := 0
		if L > 0 {
			o = rng.Intn(L + 1)
		}
		if d.codec == "rlp" {
			p := rlpBombs[rng.Intn(len(rlpBombs))]
			add("insert-bomb", func() []byte { return insertAt(seed, o, p) })
		} else {
			addLadder("insert-bomb", o, headLadder, 1)
		}
	}
	for _, n := range []int{1, 2, 3, 5, 9, 17, 64, 300, 5000} {
		n := n
		s := rng.Int63()
		add("random", func() []byte { b := make([]byte, n); rand.New(rand.NewSource(s)).Read(b); return b })
		if n <= 17 {
			add("zeros", func() []byte { return make([]byte, n) })
			add("ones", func() []byte { return bytes.Repeat([]byte{0xff}, n) })
			add("0x01s", func() []byte { return bytes.Repeat([]byte{0x01}, n) })
		}
	}
	if L > 1 && len(other) > 1 {
		for i := 0; i < 6; i++ {
			a, b := rng.Intn(L), rng.Intn(len(other))
			add("splice", func() []byte { return append(append([]byte{}, seed[:a]...), other[b:]...) })
		}
	}
	if d.codec == "json" {
		for i := 0; i < exh*4; i++ {
			s := rng.Int63()
			add("json-node", func() []byte {
				if m := mutateJSON(rand.New(rand.NewSource(s)), seed); m != nil {
					return m
				}
				return []byte("null")
			})
		}
		add("json-deep", func() []byte { return []byte(strings.Repeat("[", 20000)) })
		add("json-deep-obj", func() []byte { return []byte(strings.Repeat("{\"a\":", 5000)) })
	}
	if !full {
		// keep the protected head (valid, empty, head sweep) and a seeded sample of the rest
		// worth about `sample` inputs (a ladder counts with all its steps)
		rest := ms[protected:]
		rng.Shuffle(len(rest), func(i, j int) { rest[i], rest[j] = rest[j], rest[i] })
		n, steps := 0, 0
		for n < len(rest) && steps < sample {
			steps += len(rest[n].steps)
			n++
		}
		ms = ms[:protected+n]
	}
	return ms
}

// ------------------------------------------------------------ child

type robustViol struct {
	Key     string `json:"key"`
	What    string `json:"what"`
	Decoder string `json:"decoder"`
	Limit   int    `json:"limit"`
	Mutant  string `json:"mutant"`
	Group   int64  `json:"group"`
	Unit    int    `json:"unit"`
	Input   string `json:"input_hex"`
	InputLn int    `json:"input_len"`
	Alloc   uint64 `json:"alloc_bytes,omitempty"`
	Bound   uint64 `json:"bound_bytes,omitempty"`
	Panic   string `json:"panic,omitempty"`
	Stack   string `json:"stack,omitempty"`
}

type groupRec struct {
	Type     string             `json:"type"` // "group" | "done"
	Group    int64              `json:"group"`
	Counters map[string]int64   `json:"counters,omitempty"`
	MaxRatio map[string]float64 `json:"max_ratio,omitempty"` // per decoder: max over inputs of allocated bytes / allowed bytes
	Viols    []robustViol       `json:"viols,omitempty"`
	Decoder  string             `json:"decoder,omitempty"`
	Millis   int64              `json:"ms,omitempty"` // informational only
	Units    int                `json:"units,omitempty"`
}

const hdrLen = 160

// A shard gives up (its part of the list is then reported as not finished => inconclusive
// unless violations make the run fail anyway) after this many process deaths / restarts,
// or this many allocations above 16 MiB inside one process: only a tree whose decoders are
// broadly unguarded gets there, and finishing the list on it would take hours.
const maxBigEvents = 150

// RLIMIT_AS of a child. A Go process maps about 1.2 GiB of address space at start; the
// remaining ~0.8 GiB is far above anything a legitimate decode of the inputs used here
// needs, and allocations of 1 GiB and more fail at once instead of being zero-filled.
const asLimit = 2 << 30

func allocBound(d *decoder, lmt, inLen int) uint64 {
	m := uint64(inLen)
	switch d.limKind {
	case limCaller:
		if uint64(lmt) > m {
			m = uint64(lmt)
		}
		return 64*m + 64<<10
	case limFixed:
		if uint64(d.fixed) > m {
			m = uint64(d.fixed)
		}
		return 64*m + 64<<10
	default:
		return 1024*m + 1<<20
	}
}

// groupsPerChild: VERIF_C18_SCALE (percent, default 100) only exists to shorten debugging runs.
func groupsPerChild() int {
	n := lib.Pick(2400, 12000)
	if s, err := strconv.Atoi(os.Getenv("VERIF_C18_SCALE")); err == nil && s > 0 {
		n = n * s / 100
	}
	return n
}

// groupPlan: which decoder and seed number a (shard, j) group uses.
func groupPlan(shard, nshards, j int) (g int64, d *decoder, seedNo int64, full bool) {
	D := len(decoders)
	g = int64(j)*int64(nshards) + int64(shard)
	di := (j + shard*7) % D
	d = decoders[di]
	seedNo = int64(j/D)*int64(nshards) + int64(shard)
	round := j / D
	full = (di+shard)%4 == 0 && (round == 0 || (lib.Thorough() && round%8 == 0)) // exhaustive offsets; applies to short seeds only (see childMain)
	return
}

func childMain(args []string) int {
	// args: shard nshards fromJ fromUnit outfile inputfile
	shard, _ := strconv.Atoi(args[0])
	nshards, _ := strconv.Atoi(args[1])
	fromJ, _ := strconv.Atoi(args[2])
	fromUnit, _ := strconv.Atoi(args[3])
	runtime.GOMAXPROCS(1)
	// few, large GC cycles: the live heap is tiny, so collect only when 128 MiB of garbage piled up
	debug.SetGCPercent(-1)
	debug.SetMemoryLimit(128 << 20)
	var lim syscall.Rlimit
	lim.Cur, lim.Max = asLimit, asLimit
	if err := syscall.Setrlimit(syscall.RLIMIT_AS, &lim); err != nil {
		fmt.Fprintf(os.Stderr, "setrlimit: %v\n", err)
		return 3
	}
	buildDecoders()
	out, err := os.OpenFile(args[4], os.O_CREATE|os.O_WRONLY|os.O_APPEND, 0644)
	if err != nil {
		fmt.Fprintln(os.Stderr, err)
		return 3
	}
	defer out.Close()
	inf, err := os.OpenFile(args[5], os.O_CREATE|os.O_RDWR, 0644)
	if err != nil {
		fmt.Fprintln(os.Stderr, err)
		return 3
	}
	defer inf.Close()
	w := bufio.NewWriter(out)
	M := groupsPerChild()
	sample := lib.Pick(90, 200)
	var ms1, ms2 runtime.MemStats
	hdr := make([]byte, 0, hdrLen+64)
	bigAllocs := 0
	for j := fromJ; j < M; j++ {
		g, d, seedNo, full := groupPlan(shard, nshards, j)
		rng := lib.Rand("c18-robust-group", g)
		seed := d.seed(seedNo)
		od := decoders[rng.Intn(len(decoders))]
		var other []byte
		if od.codec == d.codec {
			other = od.seed(seedNo)
		}
		if len(seed) > 192 {
			full = false
		}
		protect(func() { d.dec(seed, 1<<20) }) // warm-up, not measured: type information caches
		muts := mutants(rng, d, seed, other, full, j < len(decoders), sample)
		rec := groupRec{Type: "group", Group: g, Counters: map[string]int64{}, MaxRatio: map[string]float64{}, Decoder: d.name}
		gStart := time.Now()
		needRestart := false
		lims := limits
		if d.limKind != limCaller {
			lims = []int{0}
		}
		unit := 0
		inKey := make([]string, len(lims))
		for li, lmt := range lims {
			inKey[li] = "in|" + d.name
			if d.limKind == limCaller {
				inKey[li] = fmt.Sprintf("in|%s|limit=%d", d.name, lmt)
			}
		}
		panicKey, errKey, valKey := "panic|"+d.name, "err|"+d.name, "val|"+d.name
		for mi, mu := range muts {
			violated := make([]bool, len(lims)) // ladder: a smaller step already over-allocated at this limit
			for _, mkData := range mu.steps {
				m := struct {
					kind string
					data []byte
				}{mu.kind, nil}
				if j > fromJ || (unit+len(lims)) > fromUnit {
					m.data = mkData()
				}
				wroteData := false
				for li, lmt := range lims {
					unit++
					if j == fromJ && unit <= fromUnit {
						continue
					}
					if mu.ladder && violated[li] {
						rec.Counters["skip|ladder-step-after-overalloc"]++
						continue
					}
					if !wroteData {
						inf.WriteAt(m.data, hdrLen)
						wroteData = true
					}
					h := hdr[:0]
					for _, x := range [5]int{j, unit, lmt, len(m.data), mi} {
						h = strconv.AppendInt(h, int64(x), 10)
						h = append(h, ' ')
					}
					h = append(h, m.kind...)
					h = append(h, ' ')
					h = append(h, d.name...)
					for len(h) < hdrLen-1 {
						h = append(h, ' ')
					}
					h = append(h, '\n')
					inf.WriteAt(h[:hdrLen], 0)
					var derr error
					runtime.ReadMemStats(&ms1)
					pi := protect(func() { derr = d.dec(m.data, lmt) })
					runtime.ReadMemStats(&ms2)
					delta := ms2.TotalAlloc - ms1.TotalAlloc
					if pi == nil && delta > allocBound(d, lmt, len(m.data)) && delta < 64<<20 {
						// measure once more and keep the smaller figure: one-time lazy initialisation
						// (go-wire builds its per-type info on first use) is not the input's allocation
						runtime.ReadMemStats(&ms1)
						protect(func() { d.dec(m.data, lmt) })
						runtime.ReadMemStats(&ms2)
						if d2 := ms2.TotalAlloc - ms1.TotalAlloc; d2 < delta {
							delta = d2
						}
						rec.Counters["remeasured|"+d.name]++
					}
					rec.Counters[inKey[li]]++
					rec.Counters[mutKey(m.kind)]++
					mk := func(key, what string) robustViol {
						in := m.data
						if len(in) > 2048 {
							in = in[:2048]
						}
						return robustViol{Key: key, What: what, Decoder: d.name, Limit: lmt, Mutant: m.kind, Group: g, Unit: unit, Input: hex.EncodeToString(in), InputLn: len(m.data)}
					}
					if pi != nil {
						rec.Counters[panicKey]++
						v := mk("robust/"+d.name+"/panic/"+pi.Site, fmt.Sprintf("%s panicked on a %d-byte input (%s): %s", d.name, len(m.data), m.kind, pi.Value))
						v.Panic, v.Stack = pi.Value, pi.Stack
						if len(v.Stack) > 3000 {
							v.Stack = v.Stack[:3000]
						}
						rec.Viols = appendViol(rec.Viols, v)
						continue
					}
					if derr != nil {
						rec.Counters[errKey]++
					} else {
						rec.Counters[valKey]++
					}
					bnd := allocBound(d, lmt, len(m.data))
					if ratio := float64(delta) / float64(bnd); ratio > rec.MaxRatio[d.name] {
						rec.MaxRatio[d.name] = ratio
					}
					if delta > 256<<20 {
						needRestart = true // checked after this unit's verdicts
					} else if delta > 16<<20 {
						runtime.GC() // free the big block now so that the next one reuses its address space
						if bigAllocs++; bigAllocs > maxBigEvents {
							// decoders that allocate tens of MiB on thousands of inputs make the list
							// unaffordable: stop this shard (the parent reports it as not finished)
							rec.Units = unit
							b, _ := json.Marshal(rec)
							w.Write(b)
							w.WriteByte('\n')
							w.Flush()
							return 76
						}
					}
					if delta > bnd {
						violated[li] = true
						rec.Counters["overalloc|"+d.name]++
						lclass := "caller-limit"
						if d.limKind == limFixed {
							lclass = "built-in-limit"
						} else if d.limKind == limNone {
							lclass = "no-limit"
						}
						v := mk("robust/"+d.name+"/alloc-over-bound/"+lclass, fmt.Sprintf("%s allocated %d bytes decoding a %d-byte input with limit %d (bound %d)", d.name, delta, len(m.data), lmt, bnd))
						v.Alloc, v.Bound = delta, bnd
						rec.Viols = appendViol(rec.Viols, v)
					}
					if needRestart {
						// a huge allocation succeeded: its address space stays mapped and would make a
						// later, innocent input hit RLIMIT_AS. Continue in a fresh process after this unit.
						rec.Units = unit
						b, _ := json.Marshal(rec)
						w.Write(b)
						w.WriteByte('\n')
						w.Flush()
						return 75
					}
				}
			}
		}
		rec.Millis = int64(time.Since(gStart) / time.Millisecond)
		rec.Units = unit
		b, _ := json.Marshal(rec)
		w.Write(b)
		w.WriteByte('\n')
		w.Flush()
	}
	b, _ := json.Marshal(groupRec{Type: "done"})
	w.Write(b)
	w.WriteByte('\n')
	w.Flush()
	return 0
}

var mutKeys = map[string]string{}

func mutKey(kind string) string {
	k, ok := mutKeys[kind]
	if !ok {
		k = "mut|" + kind
		mutKeys[kind] = k
	}
	return k
}

// per group keep at most 2 witnesses per key
func appendViol(vs []robustViol, v robustViol) []robustViol {
	n := 0
	for _, x := range vs {
		if x.Key == v.Key {
			n++
		}
	}
	if n >= 2 {
		return vs
	}
	return append(vs, v)
}

// ------------------------------------------------------------ parent

func runRobust(nshards int) {
	buildDecoders()
	self := os.Getenv("VERIF_SELF")
	if self == "" {
		self, _ = os.Executable()
	}
	maxRatio := map[string]float64{}
	msByDecoder := map[string]int64{}
	type res struct {
		recs                   []groupRec
		deaths                 []map[string]interface{}
		incon                  string
		restarts, unattributed int
		ndeaths                int
		abandoned              int
		cutGroups              []int64
		deathsBy               map[string]int
	}
	results := make([]res, nshards)
	wall := time.Duration(lib.Pick(30, 150)) * time.Minute // safety net only: a child needs well under a minute (quick) / 10 minutes (thorough) of CPU
	lib.Parallel(nshards, nshards, func(s int) {
		outf := filepath.Join(scratchDir, fmt.Sprintf("robust-%d.out", s))
		inf := filepath.Join(scratchDir, fmt.Sprintf("robust-%d.input", s))
		fromJ, fromUnit := 0, 0
		restarts := 0
		deathGroup, deathsInGroup := -1, 0
		retryJ, retryUnit := -1, -1
		retryN := 0
		for {
			var stderr bytes.Buffer
			cmd := exec.Command(self, "child", strconv.Itoa(s), strconv.Itoa(nshards), strconv.Itoa(fromJ), strconv.Itoa(fromUnit), outf, inf)
			cmd.Stderr = &stderr
			cmd.Stdout = &stderr
			// MALLOC_ARENA_MAX=1: the binary links cgo code; glibc otherwise reserves a 64 MiB arena of
			// address space per OS thread, and the number of threads depends on machine load - under
			// RLIMIT_AS that made small requests fail at random (seen once in a thorough run)
			cmd.Env = append(os.Environ(), "GOTRACEBACK=single", "MALLOC_ARENA_MAX=1")
			if err := cmd.Start(); err != nil {
				results[s].incon = "cannot start child: " + err.Error()
				return
			}
			done := make(chan error, 1)
			go func() { done <- cmd.Wait() }()
			var werr error
			select {
			case werr = <-done:
			case <-time.After(wall):
				cmd.Process.Signal(syscall.SIGQUIT)
				time.Sleep(2 * time.Second)
				cmd.Process.Kill()
				<-done
				h, _ := readInputFile(inf)
				results[s].incon = fmt.Sprintf("robust child %d exceeded the wall-clock watchdog (%v); last logged input: %v", s, wall, h)
				return
			}
			if werr == nil {
				break
			}
			h, data := readInputFile(inf)
			if ee, ok := werr.(*exec.ExitError); ok && ee.ExitCode() == 76 {
				results[s].incon = fmt.Sprintf("robust child %d stopped after more than %d allocations above 16 MiB (decoders too broadly unguarded to finish the list)", s, maxBigEvents)
				break
			}
			if ee, ok := werr.(*exec.ExitError); ok && ee.ExitCode() == 75 && h != nil {
				// voluntary restart after a huge (already reported) allocation
				results[s].restarts++
				fromJ, fromUnit = h.J, h.Unit
				if results[s].restarts+results[s].ndeaths > maxBigEvents {
					results[s].incon = fmt.Sprintf("robust child %d stopped after %d deaths and %d restarts after huge allocations", s, results[s].ndeaths, results[s].restarts)
					break
				}
				continue
			}
			// the child died: the last logged input is the witness
			st := stderr.String()
			if m := allocReq.FindStringSubmatch(st); m != nil && h != nil {
				// Memory exhaustion is attributable to the logged input only if the failing request is
				// one large object (runtime allocLarge; a small-object refill asks for a 4 MiB heap chunk
				// whatever the object) that exceeds what this input may allocate. Otherwise the address
				// space was used up by earlier inputs of this process: run the same input again in a
				// fresh process; if it kills that one too, it is the input's doing.
				req, _ := strconv.ParseUint(m[1], 10, 64)
				d := decoderByName(h.Decoder)
				attributable := d != nil && strings.Contains(st, "allocLarge") && req > allocBound(d, h.Limit, h.Len)
				if !attributable && retryJ == h.J && retryUnit == h.Unit && retryN < 3 {
					// died again in a fresh process, still on a request that is not the input's: once more;
					// only a third death in a row on this input counts
					retryN++
					results[s].unattributed++
					fromJ, fromUnit = h.J, h.Unit-1
					continue
				}
				if !attributable && !(retryJ == h.J && retryUnit == h.Unit) {
					retryN = 1
					retryJ, retryUnit = h.J, h.Unit
					results[s].unattributed++
					fromJ, fromUnit = h.J, h.Unit-1
					if results[s].unattributed > 25 {
						results[s].incon = fmt.Sprintf("robust child %d ran out of address space %d times on requests that are not attributable to the logged input (last: %d bytes while decoding %s)", s, results[s].unattributed, req, h.Decoder)
						break
					}
					continue
				}
			}
			if len(st) > 3000 {
				st = st[:3000]
			}
			d := map[string]interface{}{"exit": werr.Error(), "header": h, "stderr": st, "shard": s}
			if data != nil {
				in := data
				if len(in) > 2048 {
					in = in[:2048]
				}
				d["input_hex"] = hex.EncodeToString(in)
				d["input_len"] = len(data)
			}
			results[s].ndeaths++
			dk := "?"
			if h != nil {
				dk = h.Decoder
			}
			if results[s].deathsBy == nil {
				results[s].deathsBy = map[string]int{}
			}
			results[s].deathsBy[dk]++
			if results[s].deathsBy[dk] <= 3 {
				results[s].deaths = append(results[s].deaths, d)
			}
			restarts++
			if h == nil || results[s].restarts+results[s].ndeaths > maxBigEvents {
				results[s].incon = fmt.Sprintf("robust child %d stopped after %d deaths and %d restarts after huge allocations (last: %v)", s, results[s].ndeaths, results[s].restarts, werr)
				break
			}
			fromJ, fromUnit = h.J, h.Unit // resume after the killing input
			if h.J != deathGroup {
				deathGroup, deathsInGroup = h.J, 0
			}
			deathsInGroup++
			if deathsInGroup >= 60 {
				// this decoder is in violation many times over already: bound the time a badly
				// broken tree costs by skipping the rest of this one group (counted)
				results[s].abandoned++
				results[s].cutGroups = append(results[s].cutGroups, int64(h.J)*int64(nshards)+int64(s))
				fromJ, fromUnit = h.J+1, 0
			}
		}
		f, err := os.Open(outf)
		if err != nil {
			results[s].incon = "no child output: " + err.Error()
			return
		}
		defer f.Close()
		sc := bufio.NewScanner(f)
		sc.Buffer(make([]byte, 1<<20), 64<<20)
		done := false
		for sc.Scan() {
			var r groupRec
			if json.Unmarshal(sc.Bytes(), &r) != nil {
				continue
			}
			if r.Type == "done" {
				done = true
				continue
			}
			results[s].recs = append(results[s].recs, r)
		}
		if !done && results[s].incon == "" {
			results[s].incon = fmt.Sprintf("robust child %d did not finish its group list", s)
		}
	})
	for s := range results {
		r := &results[s]
		if r.incon != "" {
			run.Inconclusive(r.incon)
		}
		for _, d := range r.deaths {
			h, _ := d["header"].(*inputHeader)
			dec, kind := "unknown", "unknown"
			lmt := 0
			if h != nil {
				dec, kind, lmt = h.Decoder, h.Kind, h.Limit
			}
			reason := "died"
			st, _ := d["stderr"].(string)
			switch {
			case strings.Contains(st, "out of memory") || strings.Contains(st, "cannot allocate memory"):
				reason = "out-of-memory"
			case strings.Contains(st, "stack overflow") || strings.Contains(st, "stack exceeds"):
				reason = "stack-overflow"
			case strings.Contains(st, "fatal error"):
				reason = "fatal-error"
			}
			run.Violation("robust/"+dec+"/child-death/"+reason, fmt.Sprintf("the decoding process died (%s) while %s decoded a %s input with limit %d", reason, dec, kind, lmt), d)
		}
		run.Count("robust_child_deaths", int64(r.ndeaths))
		run.Count("robust_groups_cut_short_after_60_deaths", int64(r.abandoned))
		for _, g := range r.cutGroups {
			run.Distinct("robust_groups", fmt.Sprintf("g%d", g))
		}
		run.Count("robust_child_restarts_after_huge_alloc", int64(r.restarts))
		run.Count("robust_child_oom_unattributed", int64(r.unattributed))
		for _, rec := range r.recs {
			run.Distinct("robust_groups", fmt.Sprintf("g%d", rec.Group))
			msByDecoder[rec.Decoder] += rec.Millis
			for k, v := range rec.Counters {
				p := strings.SplitN(k, "|", 2)
				switch p[0] {
				case "in":
					run.Count("robust_inputs", v)
					run.Count("robust_in:"+p[1], v)
					run.Count("evaluations", v)
				case "mut":
					run.Count("robust_mutant:"+p[1], v)
				case "err":
					run.Count("robust_errors", v)
					run.Count("robust_err:"+p[1], v)
				case "val":
					run.Count("robust_values", v)
					run.Count("robust_val:"+p[1], v)
				case "panic":
					run.Count("robust_panics", v)
				case "overalloc":
					run.Count("robust_overalloc", v)
				case "skip":
					run.Count("robust_ladder_steps_skipped_after_overalloc", v)
				case "remeasured":
					run.Count("robust_alloc_remeasured", v)
				}
			}
			for k, v := range rec.MaxRatio {
				if v > maxRatio[k] {
					maxRatio[k] = v
				}
			}
			for _, v := range rec.Viols {
				run.Violation(v.Key, v.What, v)
			}
			run.Nontrivial(fmt.Sprintf("robust-group:%d", rec.Group))
		}
	}
	var top float64
	rounded := map[string]float64{}
	for k, v := range maxRatio {
		rounded[k] = float64(int(v*1000)) / 1000
		d := decoderByName(k)
		if d != nil && d.limKind == limCaller && v > top {
			top = v
		}
	}
	run.Extra("robust_max_alloc_over_bound_ratio_by_decoder", rounded)
	run.Extra("robust_max_alloc_over_bound_ratio_caller_limit_decoders", float64(int(top*1000))/1000)
	run.Extra("robust_decoders", len(decoders))
	run.Extra("robust_child_ms_by_decoder_informational", msByDecoder)
}

var allocReq = regexp.MustCompile(`cannot allocate (\d+)-byte block`)

func decoderByName(n string) *decoder {
	for _, d := range decoders {
		if d.name == n {
			return d
		}
	}
	return nil
}

type inputHeader struct {
	J       int    `json:"j"`
	Unit    int    `json:"unit"`
	Limit   int    `json:"limit"`
	Len     int    `json:"len"`
	Mutant  int    `json:"mutant_index"`
	Kind    string `json:"mutant_kind"`
	Decoder string `json:"decoder"`
}

func readInputFile(path string) (*inputHeader, []byte) {
	b, err := ioutil.ReadFile(path)
	if err != nil || len(b) < hdrLen {
		return nil, nil
	}
	f := strings.Fields(string(b[:hdrLen]))
	if len(f) < 7 {
		return nil, nil
	}
	h := &inputHeader{}
	h.J, _ = strconv.Atoi(f[0])
	h.Unit, _ = strconv.Atoi(f[1])
	h.Limit, _ = strconv.Atoi(f[2])
	h.Len, _ = strconv.Atoi(f[3])
	h.Mutant, _ = strconv.Atoi(f[4])
	h.Kind = f[5]
	h.Decoder = strings.Join(f[6:], " ")
	data := b[hdrLen:]
	if len(data) > h.Len {
		data = data[:h.Len]
	}
	return h, data
}
