package main

// Monitor (d): the canonical bytes validators sign are injective in
// (chain id, height, round, type, block id) for votes and in
// (chain id, height, round, block parts header, POL round, POL block id) for
// proposals; equal fields give equal bytes.
//
// Identity of a field tuple: block ids / part-set headers are compared the way
// BlockID.Equals does (bytes.Equal: nil == empty), because both wire formats
// decode a nil hash as an empty one.

import (
	"bytes"
	"fmt"
	"math"
	"sync"
	"unicode/utf8"

	crypto "github.com/dappledger/AnnChain/gemmill/go-crypto"
	wire "github.com/dappledger/AnnChain/gemmill/go-wire"
	"github.com/dappledger/AnnChain/gemmill/types"

	"verif/lib"
)

type sbValue struct {
	Kind    string          `json:"kind"` // vote | proposal
	ChainID string          `json:"chain_id"`
	ChainHx string          `json:"chain_id_hex"`
	Vote    *types.Vote     `json:"vote,omitempty"`
	Prop    *types.Proposal `json:"proposal,omitempty"`
	ident   string
	validCh bool
}

func pshID(p types.PartSetHeader) string { return fmt.Sprintf("%d:%x", p.Total, p.Hash) }
func bidID(b types.BlockID) string       { return fmt.Sprintf("%x/%s", b.Hash, pshID(b.PartsHeader)) }

func voteValue(chain string, v *types.Vote) *sbValue {
	return &sbValue{Kind: "vote", ChainID: chain, ChainHx: fmt.Sprintf("%x", chain), Vote: v, validCh: utf8.ValidString(chain),
		ident: fmt.Sprintf("vote|%x|%d|%d|%d|%s", chain, v.Height, v.Round, v.Type, bidID(v.BlockID))}
}

func propValue(chain string, p *types.Proposal) *sbValue {
	return &sbValue{Kind: "proposal", ChainID: chain, ChainHx: fmt.Sprintf("%x", chain), Prop: p, validCh: utf8.ValidString(chain),
		ident: fmt.Sprintf("proposal|%x|%d|%d|%s|%d|%s", chain, p.Height, p.Round, pshID(p.BlockPartsHeader), p.POLRound, bidID(p.POLBlockID))}
}

func (s *sbValue) signBytes() (b []byte, pi *panicInfo) {
	pi = protect(func() {
		if s.Vote != nil {
			b = types.SignBytes(s.ChainID, s.Vote)
		} else {
			b = types.SignBytes(s.ChainID, s.Prop)
		}
	})
	return
}

type sbTable struct {
	mtx sync.Mutex
	m   map[string]*sbValue // sign-bytes -> first value that produced them
	n   int64
}

// add records a value; a second value with the same bytes and another identity
// is a collision.
func (t *sbTable) add(s *sbValue) {
	b, pi := s.signBytes()
	if pi != nil {
		run.Violation("signbytes/"+s.Kind+"/panic/"+pi.Site, "SignBytes panicked: "+pi.Value, map[string]interface{}{"value": s, "panic": pi})
		return
	}
	t.mtx.Lock()
	t.n++
	prev, ok := t.m[string(b)]
	if !ok {
		t.m[string(b)] = s
	}
	t.mtx.Unlock()
	if !ok || prev.ident == s.ident {
		return
	}
	reportCollision(prev, s, b)
}

func reportCollision(a, b *sbValue, bz []byte) {
	if !a.validCh || !b.validCh {
		// chain ids that are not valid UTF-8 cannot come out of a genesis document (JSON);
		// encoding/json coerces them to U+FFFD. Observed, not judged.
		run.Count("signbytes_collisions_invalid_utf8_chain_id_observed", 1)
		return
	}
	differs := "fields"
	switch {
	case a.Kind != b.Kind:
		differs = "vote-vs-proposal"
	case a.ChainID != b.ChainID:
		differs = "chain-id"
	}
	run.Violation("signbytes/collision/"+a.Kind+"/"+differs, fmt.Sprintf("two %ss that differ in %s share the sign-bytes %s", a.Kind, differs, string(bz)),
		map[string]interface{}{"a": a, "b": b, "sign_bytes": string(bz), "ident_a": a.ident, "ident_b": b.ident})
}

var nastyChainIDs = []string{
	"", "a", "annchain", "test-chain-7", " ", "a ", " a", "A", "a\x00", "a\x00b", "\x00", "\x01", "\x1f", "\x7f", "\n", "a\nb", "\t", "\r\n",
	"\"", "\\\"", "\\", "\\\\", "a\"b", "a\\\"b", "a\\u0022b", "\\u0022", "\uff02", "{", "}", "{}", "[", "]", ":", ",", "\",\"", "\":\"",
	"<", ">", "&", "\\u003c", "\u2028", "\\u2028", "\u2029", "\u00e9", "e\u0301", "\u94fe", "\U0001F600", "\ufffd", "\\ufffd", "\ufeff", "a\ufeff",
	"null", "true", "0", "-1", "1e3", "\"\"", "''",
}

var badChainIDs = []string{"\xff", "\xfe", "\xff\xff", "a\xffb", "a\xfeb", "\xc3", "\xed\xa0\x80", "\xef\xbf"}

func sbHashes(r func(n int) []byte) [][]byte {
	return [][]byte{nil, {}, {0}, {1}, {0, 0}, r(20), r(20), r(32), {0xab}, {0xab, 0xcd}, bytes.Repeat([]byte{0}, 20), bytes.Repeat([]byte{0xff}, 20)}
}

var sbInts = []int64{0, 1, -1, 2, 10, 100, 255, 256, 1 << 31, 1<<53 - 1, 1 << 53, 1<<53 + 1, math.MaxInt64, math.MinInt64, math.MaxInt64 - 1}

func runSignBytes() {
	rng := lib.Rand("c18-signbytes", 0)
	rb := func(n int) []byte { b := make([]byte, n); rng.Read(b); return b }
	hashes := sbHashes(rb)
	var pshs []types.PartSetHeader
	for _, tot := range []int{0, 1, 2, -1, 10, math.MaxInt32, math.MaxInt64, math.MinInt64} {
		for _, h := range [][]byte{nil, {}, {0}, hashes[5], {0xab}} {
			pshs = append(pshs, types.PartSetHeader{Total: tot, Hash: h})
		}
	}
	var bids []types.BlockID
	for _, h := range hashes {
		for _, p := range pshs {
			bids = append(bids, types.BlockID{Hash: h, PartsHeader: p})
		}
	}
	run.Count("signbytes_block_ids", int64(len(bids)))
	// chain ids: the fixed nasty list, then ids that embed the JSON of the other fields
	chains := append([]string{}, nastyChainIDs...)
	base := &types.Vote{Height: 1, Round: 0, Type: types.VoteTypePrevote}
	for _, c := range []string{"a", "", "x\""} {
		sb := string(types.SignBytes(c, base))
		// everything after the chain id's opening quote, with and without the closing brace
		tail := sb[len(`{"chain_id":"`):]
		chains = append(chains, tail, tail[:len(tail)-1], tail[:len(tail)-2], c+`","vote":{"block_id":{},"height":1,"round":0,"type":1}}`,
			c+`","vote":{"block_id":{},"height":1,"round":0,"type":1},"x":"`, sb, `"`+sb, c+`\","vote":{}`, c+`\\","vote":{}`)
		pb := string(types.SignBytes(c, &types.Proposal{Height: 1, POLRound: -1}))
		chains = append(chains, pb[len(`{"chain_id":"`):], c+`","proposal":{"block_parts_header":{"hash":"","total":0},"height":1,"pol_block_id":{},"pol_round":-1,"round":0}}`)
	}
	nRandChains := lib.Pick(40, 200)
	for i := 0; i < nRandChains; i++ {
		g := newGen(lib.Rand("c18-sb-chain", int64(i)), 0)
		chains = append(chains, g.str())
	}
	seen := map[string]bool{}
	var uniq []string
	for _, c := range chains {
		if !seen[c] {
			seen[c] = true
			uniq = append(uniq, c)
		}
	}
	chains = uniq
	allChains := append(append([]string{}, chains...), badChainIDs...)
	run.Count("signbytes_chain_ids", int64(len(allChains)))
	run.Distinct("signbytes_chain_id_classes", "quotes,backslashes,braces,unicode,control,json-mimic,invalid-utf8")

	types_ := []byte{0, 1, 2, 3, 0xff}
	tbl := &sbTable{m: map[string]*sbValue{}}

	// --- product A (votes): every chain id x a small field grid; all pairs are compared through the table
	gridH := []int64{0, 1, -1, 10, 1 << 53, 1<<53 + 1, math.MaxInt64, math.MinInt64}
	gridR := []int64{0, 1, -1, 10, math.MaxInt64}
	gridB := []types.BlockID{{}, {Hash: []byte{}}, {Hash: hashes[5]}, {Hash: hashes[5], PartsHeader: types.PartSetHeader{Total: 1, Hash: hashes[6]}},
		{PartsHeader: types.PartSetHeader{Total: 1, Hash: hashes[6]}}, {PartsHeader: types.PartSetHeader{Total: 0, Hash: hashes[6]}}, {Hash: hashes[6], PartsHeader: types.PartSetHeader{Total: 1, Hash: hashes[5]}}}
	lib.Parallel(len(allChains), 16, func(ci int) {
		c := allChains[ci]
		for _, h := range gridH {
			for _, r := range gridR {
				for _, ty := range types_ {
					for _, b := range gridB {
						tbl.add(voteValue(c, &types.Vote{Height: h, Round: r, Type: ty, BlockID: b}))
					}
				}
			}
		}
		for _, h := range gridH[:4] {
			for _, r := range gridR[:3] {
				for _, pr := range []int64{-1, 0, 1, math.MaxInt64} {
					for _, b := range gridB {
						for _, ph := range []types.PartSetHeader{{}, {Total: 1, Hash: hashes[5]}, {Total: 0, Hash: hashes[5]}} {
							tbl.add(propValue(c, &types.Proposal{Height: h, Round: r, BlockPartsHeader: ph, POLRound: pr, POLBlockID: b}))
						}
					}
				}
			}
		}
	})
	// --- product B: one chain id, the full block-id grid x heights x rounds x types
	lib.Parallel(len(bids), 16, func(bi int) {
		b := bids[bi]
		for _, h := range sbInts {
			for _, r := range []int64{0, 1, -1, math.MaxInt64} {
				for _, ty := range types_[:3] {
					tbl.add(voteValue("annchain", &types.Vote{Height: h, Round: r, Type: ty, BlockID: b}))
				}
			}
		}
		for _, ph := range pshs {
			tbl.add(propValue("annchain", &types.Proposal{Height: 7, Round: 1, BlockPartsHeader: ph, POLRound: 0, POLBlockID: b}))
			tbl.add(propValue("annchain", &types.Proposal{Height: 7, Round: 1, BlockPartsHeader: b.PartsHeader, POLRound: 0, POLBlockID: types.BlockID{Hash: b.Hash, PartsHeader: ph}}))
		}
	})
	{
		a := voteValue("a\"b", &types.Vote{Height: 1, Round: 0, Type: types.VoteTypePrevote, BlockID: gridB[3]})
		b := voteValue("a\\\"b", &types.Vote{Height: 1, Round: 0, Type: types.VoteTypePrevote, BlockID: gridB[3]})
		ba, _ := a.signBytes()
		bb, _ := b.signBytes()
		run.Sample(map[string]interface{}{"monitor": "sign-bytes", "chain_id_a": a.ChainID, "sign_bytes_a": string(ba), "chain_id_b": b.ChainID, "sign_bytes_b": string(bb)})
	}
	run.Count("signbytes_values_in_collision_table", tbl.n)
	run.Count("signbytes_distinct_sign_bytes", int64(len(tbl.m)))
	run.Count("evaluations", tbl.n)

	// --- explicit pairs: a random base value and a copy that differs in exactly one signed field
	nPairs := lib.Pick(60000, 1500000)
	signer := crypto.GenPrivKeyEd25519FromSecret([]byte("c18-sb"))
	lib.Parallel(nPairs/100, 16, func(blk int) {
		for k := 0; k < 100; k++ {
			i := int64(blk*100 + k)
			r := lib.Rand("c18-sb-pair", i)
			pickInt := func() int64 {
				if r.Intn(2) == 0 {
					return sbInts[r.Intn(len(sbInts))]
				}
				return r.Int63n(1000)
			}
			chain := allChains[r.Intn(len(allChains))]
			if i%2 == 0 {
				v := &types.Vote{ValidatorAddress: []byte{1, 2, 3}, ValidatorIndex: r.Intn(10), Height: pickInt(), Round: pickInt(), Type: types_[r.Intn(len(types_))], BlockID: bids[r.Intn(len(bids))]}
				w := *v
				c2 := chain
				field := []string{"chain_id", "height", "round", "type", "block_id.hash", "block_id.parts.total", "block_id.parts.hash", "none"}[r.Intn(8)]
				switch field {
				case "chain_id":
					c2 = allChains[r.Intn(len(allChains))]
				case "height":
					w.Height = pickInt()
				case "round":
					w.Round = pickInt()
				case "type":
					w.Type = types_[r.Intn(len(types_))]
				case "block_id.hash":
					w.BlockID.Hash = hashes[r.Intn(len(hashes))]
				case "block_id.parts.total":
					w.BlockID.PartsHeader.Total = pshs[r.Intn(len(pshs))].Total
				case "block_id.parts.hash":
					w.BlockID.PartsHeader.Hash = hashes[r.Intn(len(hashes))]
				case "none":
					// unsigned fields may differ: the bytes must not
					w.ValidatorAddress = []byte{9}
					w.ValidatorIndex = 77
					w.Signature = signer.Sign([]byte("x"))
				}
				comparePair(voteValue(chain, v), voteValue(c2, &w), field)
				if i%16 == 0 {
					signBytesSurviveWire(chain, v)
				}
			} else {
				p := &types.Proposal{Height: pickInt(), Round: pickInt(), BlockPartsHeader: pshs[r.Intn(len(pshs))], POLRound: pickInt(), POLBlockID: bids[r.Intn(len(bids))]}
				w := *p
				c2 := chain
				field := []string{"chain_id", "height", "round", "block_parts_header.total", "block_parts_header.hash", "pol_round", "pol_block_id.hash", "pol_block_id.parts", "none"}[r.Intn(9)]
				switch field {
				case "chain_id":
					c2 = allChains[r.Intn(len(allChains))]
				case "height":
					w.Height = pickInt()
				case "round":
					w.Round = pickInt()
				case "block_parts_header.total":
					w.BlockPartsHeader.Total = pshs[r.Intn(len(pshs))].Total
				case "block_parts_header.hash":
					w.BlockPartsHeader.Hash = hashes[r.Intn(len(hashes))]
				case "pol_round":
					w.POLRound = pickInt()
				case "pol_block_id.hash":
					w.POLBlockID.Hash = hashes[r.Intn(len(hashes))]
				case "pol_block_id.parts":
					w.POLBlockID.PartsHeader = pshs[r.Intn(len(pshs))]
				case "none":
					w.Signature = signer.Sign([]byte("x"))
				}
				comparePair(propValue(chain, p), propValue(c2, &w), field)
			}
		}
	})
}

func comparePair(a, b *sbValue, field string) {
	ba, p1 := a.signBytes()
	bb, p2 := b.signBytes()
	if p1 != nil || p2 != nil {
		pi := p1
		if pi == nil {
			pi = p2
		}
		run.Violation("signbytes/"+a.Kind+"/panic/"+pi.Site, "SignBytes panicked: "+pi.Value, map[string]interface{}{"a": a, "b": b, "panic": pi})
		return
	}
	run.Eval()
	same := bytes.Equal(ba, bb)
	if a.ident == b.ident {
		run.Count("signbytes_pairs_equal_fields", 1)
		if !same {
			run.Violation("signbytes/"+a.Kind+"/equal-fields-different-bytes", fmt.Sprintf("two %ss with equal signed fields have different sign-bytes: %s vs %s", a.Kind, ba, bb),
				map[string]interface{}{"a": a, "b": b, "sign_bytes_a": string(ba), "sign_bytes_b": string(bb)})
		}
		return
	}
	run.Count("signbytes_pairs_differing", 1)
	run.Count("signbytes_pairs_differing_in:"+field, 1)
	run.Nontrivial("sbpair:" + lib.Hash12(a.ident, b.ident))
	if same {
		reportCollision(a, b, ba)
	}
}

// signBytesSurviveWire: the sign-bytes of a vote are the same after the vote
// went through the binary wire format (nil hashes come back as empty ones).
func signBytesSurviveWire(chain string, v *types.Vote) {
	var err error
	var n int
	enc := wire.BinaryBytes(v)
	dec := wire.ReadBinary(&types.Vote{}, bytes.NewReader(enc), 0, &n, &err).(*types.Vote)
	if err != nil {
		return // reported by monitor (a)
	}
	run.Count("signbytes_after_wire_round_trip", 1)
	a, b := types.SignBytes(chain, v), types.SignBytes(chain, dec)
	if !bytes.Equal(a, b) {
		run.Violation("signbytes/vote/changed-by-wire-round-trip", fmt.Sprintf("sign-bytes before %s and after %s a binary round trip differ", a, b),
			map[string]interface{}{"chain_id": chain, "vote": v, "before": string(a), "after": string(b)})
	}
}
