// C18 — Codecs: round-trip, bounded robust decoding, injective sign-bytes.
//
// Monitors over the real codecs (go-wire binary / JSON, eth/rlp, types.SignBytes):
//
//	(a) round trip: decode(encode(v)) == v, encoding deterministic and
//	    idempotent, for generated values of every consensus-critical wire type
//	    (incl. the real persistence paths State.Save/LoadState,
//	    PrivValidator.Save/LoadPrivValidator and the reactors' DecodeMessage);
//	(b) robust decoding in single-threaded child processes: valid encodings
//	    mutated (truncation, bit flips, huge length prefixes, wrong type bytes,
//	    JSON node substitution) and random bytes into every decoder with the
//	    limits {1,16,256,4096,1 MiB}: error or value, never a panic, never an
//	    allocation beyond 64*max(limit,len(input))+64 KiB;
//	(c) in-tree eth/rlp == reference go-ethereum v1.8.27 rlp on every input and
//	    target type (accept/reject, decoded value, re-encoding);
//	(d) sign-bytes of votes and proposals are injective in the signed fields.
package main

import (
	"fmt"
	"os"
	"strconv"
	"time"

	glog "github.com/dappledger/AnnChain/gemmill/modules/go-log"
	"go.uber.org/zap"

	"verif/lib"
)

var run *lib.Run

func main() {
	glog.SetLog(zap.NewNop())
	if len(os.Args) > 1 && os.Args[1] == "child" {
		os.Exit(childMain(os.Args[2:]))
	}
	run = lib.NewRun("C18", "exploration")
	run.SetRule("Fixed case lists from VERIF_SEED/tier. (a) per wire type a list of reflection-generated values in four profiles (plain / extreme integers, invalid UTF-8 and out-of-range times / large slices crossing go-wire's 1024-element chunk and 64 KiB byte strings / both), every registered concrete type of every message interface forced in turn; (b) per decoder groups of one valid encoding plus its mutants (truncations; at every offset of a short seed, at every offset of the first 64 bytes and at sampled offsets otherwise: a ladder of huge varint length prefixes 64 Ki .. MaxInt64 in growing order - after a step that over-allocates (reported) the larger steps at that offset and limit are skipped - plus negative / invalid / RLP-shaped prefixes and wrong type bytes; bit flips, insertions, splices, random bytes, JSON node substitutions), each offered with the limits 1,16,256,4096,1 MiB; (c) all inputs of <=2 bytes (<=3 thorough) plus structured canonical / deliberately non-canonical / byte-mutated RLP into 30 target types; (d) a collision table over the product of hostile chain ids (quotes, backslashes, braces, control, unicode, JSON that mimics the remaining fields) x heights x rounds x types x block ids, plus explicit one-field-differs pairs. Non-trivial: a distinct encoding round-tripped, a distinct robust group, a distinct RLP input, a distinct differing pair.")
	run.Assume(
		"nil slice == empty slice after a round trip: both go-wire formats and RLP carry only a length (byteslice.go ReadByteSlice returns make([]byte,0); JSON \"\" / []); nil pointers and nil interfaces are distinct from non-nil ones and must survive",
		"only exported fields without json:\"-\" are part of the go-wire formats (reflect.go MakeTypeInfo); caches such as Commit.hash or ValidatorSet.proposer are not compared",
		"go-wire time is 'nanoseconds since epoch but with millisecond precision' (time.go): a decoded time must equal the original within 1 ms and exactly for millisecond times; times outside the int64-nanosecond range (before 1678 / after 2262, incl. the zero time.Time, for which time.UnixNano is undefined) are outside the binary format's domain: observed and counted, not judged; the location of a time is not encoded",
		"go-wire JSON strings go through encoding/json, which coerces invalid UTF-8 to U+FFFD (documented there): strings that are not valid UTF-8 are judged for the binary format only; chain ids that are not valid UTF-8 (they cannot come out of a JSON genesis document) are observed, not judged, in the sign-bytes monitor",
		"idempotence (a second encode-decode-encode pass is a fixed point) is demanded even for those lossy inputs",
		"allocation bound: go-wire binary decoders with a caller limit 64*max(limit,len)+64 KiB; reactors' DecodeMessage with their built-in limit in place of the caller's; decoders without any limit parameter (JSON, RLP, crypto.*FromBytes) 1024*len+1 MiB (the input length is their only bound). TotalAlloc deltas are exact because the child runs with GOMAXPROCS=1 and nothing else allocates; every decoder is warmed up with a valid input first and a decode that exceeds the bound is measured a second time (the smaller figure counts) so that go-wire's lazily built per-type information is not charged to an input",
		"a child that dies is restarted after the killing input; after 60 deaths inside one group (one seed and its mutants) the rest of that group is skipped and counted (robust_groups_cut_short_after_60_deaths): its decoder is in violation many times over by then; a shard stops after 150 deaths / restarts / allocations above 16 MiB (a tree whose decoders are broadly unguarded would need hours) and its unfinished part makes the run inconclusive unless violations fail it anyway",
		"unexported wire structs (p2p authSigMessage, msgPacket) are exercised through structural twins; unexported registered message types (WAL msgInfo/timeoutInfo, blockchain and PEX messages) are built by reflection from go-wire's own registry",
		"sign-bytes identity of a block id / part-set header is BlockID.Equals (bytes.Equal: nil == empty hash)",
		"the reference is github.com/ethereum/go-ethereum v1.8.27 rlp from the module cache; only rlp-level target types are compared (core/types is not linked twice)",
	)
	scratchDir = lib.Scratch("C18")

	t0 := time.Now()
	phase := func(name string) {
		fmt.Printf("[c18] %-12s done at %.1fs\n", name, time.Since(t0).Seconds())
	}

	// (a) round trip
	scale := 100
	if s, err := strconv.Atoi(os.Getenv("VERIF_C18_SCALE")); err == nil && s > 0 {
		scale = s // debugging only
	}
	perType := lib.Pick(1200, 15000) * scale / 100
	for _, w0 := range wireTypes {
		w := w0
		n := perType
		if w.name == "types.Block" || w.name == "sm.State" || w.name == "blockchain.BlockchainMessage" {
			n = perType / 2
		}
		lib.Parallel(n/50, 16, func(blk int) {
			for k := 0; k < 50; k++ {
				roundTripWire(w, int64(blk*50+k))
			}
		})
	}
	perRLP := lib.Pick(3000, 40000)
	lib.Parallel(perRLP/50, 16, func(blk int) {
		for k := 0; k < 50; k++ {
			for kind := 0; kind < rlpRTKinds; kind++ {
				rlpRoundTrip(kind, int64(blk*50+k))
			}
		}
	})
	phase("round-trip")

	// (d) sign-bytes
	runSignBytes()
	phase("sign-bytes")

	// (c) RLP against the reference
	runRLPDiff()
	phase("rlp-ref")

	// (b) robust decoding in child processes
	runRobust(16)
	phase("robust")

	// samples
	for i, name := range []string{"types.Vote", "types.Proposal", "pbft.ConsensusMessage"} {
		w := wtypeByName(name)
		v, _ := genWire(w, int64(4*i))
		b, _ := encBinary(w, v)
		j, _ := encJSON(w, v)
		run.Sample(map[string]interface{}{"monitor": "round-trip", "type": name, "binary_hex": hexCap(b, 200), "json": string(j)})
	}

	for _, w := range wireTypes {
		run.Require("rt_values_"+w.name, int64(lib.Pick(500, 7000)))
	}
	run.Require("rt_binary_values", int64(lib.Pick(20000, 250000)))
	run.Require("rt_json_values", int64(lib.Pick(15000, 200000)))
	run.Require("rt_rlp_values", int64(lib.Pick(20000, 300000)))
	run.Require("rt_binary_large_encodings", 100)
	run.Require("rt_state_save_load", 100)
	run.Require("rt_privval_save_load", 50)
	run.Require("robust_inputs", int64(lib.Pick(5000000, 100000000)))
	run.Require("robust_errors", 100000)
	run.Require("robust_values", 10000)
	run.Require("robust_groups", int64(16*groupsPerChild()))
	for _, d := range decoders {
		if d.limKind == limCaller {
			for _, l := range limits {
				run.Require(fmt.Sprintf("robust_in:%s|limit=%d", d.name, l), int64(lib.Pick(1000, 100000)))
			}
		} else {
			run.Require("robust_in:"+d.name, int64(lib.Pick(1000, 100000)))
		}
		run.Require("robust_val:"+d.name, 10)
	}
	run.Require("rlp_ref_decodes_compared", int64(lib.Pick(2000000, 100000000)))
	run.Require("rlp_ref_both_accept", int64(lib.Pick(100000, 2000000)))
	run.Require("rlp_ref_both_reject", 100000)
	run.Require("rlp_noncanonical:int-leading-zero", 100)
	run.Require("rlp_noncanonical:single-byte-as-string", 100)
	run.Require("rlp_noncanonical:long-form-for-short", 100)
	run.Require("signbytes_values_in_collision_table", 100000)
	run.Require("signbytes_pairs_differing", int64(lib.Pick(30000, 700000)))
	run.Require("signbytes_pairs_equal_fields", 1000)
	code := run.Finish()
	os.RemoveAll(scratchDir)
	os.Exit(code)
}
