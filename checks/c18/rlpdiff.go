package main

// Monitor (c): the in-tree eth/rlp against reference go-ethereum v1.8.27 rlp on
// the same inputs and target types: same accept/reject, same decoded value,
// same re-encoding; plus the raw helpers (Split, SplitList, SplitString,
// CountValues) and the Stream API.

import (
	"bytes"
	"encoding/binary"
	"fmt"
	"math/big"
	"math/rand"
	"reflect"

	inrlp "github.com/dappledger/AnnChain/eth/rlp"
	refrlp "github.com/ethereum/go-ethereum/rlp"

	"verif/lib"
)

type tSimple struct {
	A uint64
	B []byte
	C string
}
type tTail struct {
	A    uint
	Rest []uint64 `rlp:"tail"`
}
type tOpt struct {
	A *uint64  `rlp:"nil"`
	B *[]byte  `rlp:"nil"`
	C *tSimple `rlp:"nil"`
	D uint64
	x int
	E uint16 `rlp:"-"`
}
type tNested struct {
	H tSimple
	L [][]uint64
	P *tSimple
	Q []*tSimple
	R [2][]byte
}
type tRec struct {
	V     uint64
	Child []tRec
}
type tBig struct {
	P *big.Int
	V big.Int
	L []*big.Int
}
type tTx struct { // structural twin of core/types txdata
	AccountNonce uint64
	Price        *big.Int
	GasLimit     uint64
	Recipient    *[20]byte `rlp:"nil"`
	Amount       *big.Int
	Payload      []byte
	V            *big.Int
	R            *big.Int
	S            *big.Int
}
type tRawIn struct {
	A inrlp.RawValue
	B uint64
	C []inrlp.RawValue
}
type tRawRef struct {
	A refrlp.RawValue
	B uint64
	C []refrlp.RawValue
}

type rlpTarget struct {
	name  string
	mkIn  func() interface{}
	mkRef func() interface{}
	core  bool // used for the exhaustive 3-byte sweep
}

var rlpTargets []*rlpTarget

func init() {
	same := func(name string, core bool, mk func() interface{}) {
		rlpTargets = append(rlpTargets, &rlpTarget{name: name, mkIn: mk, mkRef: mk, core: core})
	}
	same("uint64", true, func() interface{} { return new(uint64) })
	same("uint32", false, func() interface{} { return new(uint32) })
	same("uint16", false, func() interface{} { return new(uint16) })
	same("uint8", false, func() interface{} { return new(uint8) })
	same("uint", false, func() interface{} { return new(uint) })
	same("bool", false, func() interface{} { return new(bool) })
	same("*big.Int", true, func() interface{} { return new(*big.Int) })
	same("big.Int", false, func() interface{} { return new(big.Int) })
	same("[]byte", true, func() interface{} { return new([]byte) })
	same("[4]byte", false, func() interface{} { return new([4]byte) })
	same("[32]byte", false, func() interface{} { return new([32]byte) })
	same("string", true, func() interface{} { return new(string) })
	same("[][]byte", true, func() interface{} { return new([][]byte) })
	same("[]uint64", false, func() interface{} { return new([]uint64) })
	same("[3]uint64", false, func() interface{} { return new([3]uint64) })
	same("[]string", false, func() interface{} { return new([]string) })
	same("[][][]byte", false, func() interface{} { return new([][][]byte) })
	same("*uint64", false, func() interface{} { return new(*uint64) })
	same("struct-simple", true, func() interface{} { return new(tSimple) })
	same("struct-tail", true, func() interface{} { return new(tTail) })
	same("struct-optional", true, func() interface{} { return new(tOpt) })
	same("struct-nested", false, func() interface{} { return new(tNested) })
	same("struct-recursive", false, func() interface{} { return new(tRec) })
	same("struct-big", false, func() interface{} { return new(tBig) })
	same("tx-twin", false, func() interface{} { return new(tTx) })
	same("interface{}", true, func() interface{} { return new(interface{}) })
	same("[]interface{}", false, func() interface{} { return new([]interface{}) })
	rlpTargets = append(rlpTargets,
		&rlpTarget{name: "RawValue", core: true, mkIn: func() interface{} { return new(inrlp.RawValue) }, mkRef: func() interface{} { return new(refrlp.RawValue) }},
		&rlpTarget{name: "[]RawValue", mkIn: func() interface{} { return new([]inrlp.RawValue) }, mkRef: func() interface{} { return new([]refrlp.RawValue) }},
		&rlpTarget{name: "struct-raw", mkIn: func() interface{} { return new(tRawIn) }, mkRef: func() interface{} { return new(tRawRef) }},
	)
}

// norm converts package-specific RawValue types into plain bytes so that both
// sides can be compared with reflect.DeepEqual.
func norm(v interface{}) interface{} {
	switch t := v.(type) {
	case *inrlp.RawValue:
		return []byte(*t)
	case *refrlp.RawValue:
		return []byte(*t)
	case *[]inrlp.RawValue:
		out := make([][]byte, len(*t))
		for i, x := range *t {
			out[i] = []byte(x)
		}
		return out
	case *[]refrlp.RawValue:
		out := make([][]byte, len(*t))
		for i, x := range *t {
			out[i] = []byte(x)
		}
		return out
	case *tRawIn:
		c := make([][]byte, len(t.C))
		for i, x := range t.C {
			c[i] = []byte(x)
		}
		return []interface{}{[]byte(t.A), t.B, c}
	case *tRawRef:
		c := make([][]byte, len(t.C))
		for i, x := range t.C {
			c[i] = []byte(x)
		}
		return []interface{}{[]byte(t.A), t.B, c}
	}
	return v
}

func errStr(e error) string {
	if e == nil {
		return ""
	}
	return e.Error()
}

func rlpViol(kind string, t *rlpTarget, in []byte, what string, extra map[string]interface{}) {
	w := map[string]interface{}{"target": t.name, "input_hex": fmt.Sprintf("%X", in), "input_len": len(in)}
	for k, v := range extra {
		w[k] = v
	}
	run.Violation("rlp-ref/"+t.name+"/"+kind, fmt.Sprintf("in-tree rlp differs from reference on input %s into %s: %s", hexCap(in, 48), t.name, what), w)
}

// rlpCompare decodes one input into one target with both implementations.
// Returns whether both accepted.
func rlpCompare(t *rlpTarget, in []byte, c *rlpCounts) bool {
	c.inputs++
	vi, vr := t.mkIn(), t.mkRef()
	var ei, er error
	var pi, pr *panicInfo
	pi = protect(func() { ei = inrlp.DecodeBytes(in, vi) })
	pr = protect(func() { er = refrlp.DecodeBytes(in, vr) })
	if pi != nil || pr != nil {
		if (pi != nil) != (pr != nil) {
			rlpViol("panic-one-side", t, in, "one implementation panicked", map[string]interface{}{"in_tree_panic": pi, "reference_panic": pr})
		} else {
			// both panic: a robustness defect of RLP itself (monitor b's class), reported here by site
			run.Violation("robust/rlp.DecodeBytes/"+t.name+"/panic/"+pi.Site, "both rlp implementations panicked: "+pi.Value, map[string]interface{}{"input_hex": fmt.Sprintf("%X", in), "panic": pi})
		}
		return false
	}
	if (ei == nil) != (er == nil) {
		rlpViol("accept-reject", t, in, fmt.Sprintf("in-tree err=%q reference err=%q", errStr(ei), errStr(er)), nil)
		return false
	}
	if ei != nil {
		c.rejected++
		if ei.Error() != er.Error() {
			c.errTextDiffers++
		}
	} else {
		c.accepted++
		ni, nr := norm(vi), norm(vr)
		if !reflect.DeepEqual(ni, nr) {
			rlpViol("decoded-value", t, in, fmt.Sprintf("in-tree %+v reference %+v", deref(ni), deref(nr)), nil)
		}
		bi, e1 := inrlp.EncodeToBytes(vi)
		br, e2 := refrlp.EncodeToBytes(vr)
		if (e1 == nil) != (e2 == nil) || !bytes.Equal(bi, br) {
			rlpViol("re-encoding", t, in, fmt.Sprintf("in-tree %X (%v) reference %X (%v)", bi, e1, br, e2), nil)
		}
	}
	// Stream API with an input limit: trailing bytes are tolerated here, the limit is enforced
	vi2, vr2 := t.mkIn(), t.mkRef()
	si := inrlp.NewStream(bytes.NewReader(in), uint64(len(in)))
	sr := refrlp.NewStream(bytes.NewReader(in), uint64(len(in)))
	var e1, e2 error
	p1 := protect(func() { e1 = si.Decode(vi2) })
	p2 := protect(func() { e2 = sr.Decode(vr2) })
	if p1 != nil || p2 != nil {
		if (p1 != nil) != (p2 != nil) {
			rlpViol("stream-panic-one-side", t, in, "one implementation panicked in Stream.Decode", map[string]interface{}{"in_tree_panic": p1, "reference_panic": p2})
		} else {
			run.Violation("robust/rlp.Stream.Decode/"+t.name+"/panic/"+p1.Site, "both rlp implementations panicked: "+p1.Value, map[string]interface{}{"input_hex": fmt.Sprintf("%X", in), "panic": p1})
		}
		return ei == nil
	}
	if (e1 == nil) != (e2 == nil) {
		rlpViol("stream-accept-reject", t, in, fmt.Sprintf("Stream.Decode: in-tree err=%q reference err=%q", errStr(e1), errStr(e2)), nil)
	} else if e1 == nil && !reflect.DeepEqual(norm(vi2), norm(vr2)) {
		rlpViol("stream-decoded-value", t, in, "Stream.Decode values differ", nil)
	}
	return ei == nil
}

func deref(v interface{}) interface{} {
	rv := reflect.ValueOf(v)
	for rv.Kind() == reflect.Ptr && !rv.IsNil() {
		rv = rv.Elem()
	}
	if !rv.IsValid() {
		return nil
	}
	return rv.Interface()
}

// rlpRawCompare: the raw-value helpers.
func rlpRawCompare(in []byte, c *rlpCounts) {
	t := &rlpTarget{name: "raw-helpers"}
	k1, c1, r1, e1 := inrlp.Split(in)
	k2, c2, r2, e2 := refrlp.Split(in)
	if int(k1) != int(k2) || !bytes.Equal(c1, c2) || !bytes.Equal(r1, r2) || errStr(e1) != errStr(e2) {
		rlpViol("Split", t, in, fmt.Sprintf("(%v,%X,%X,%v) vs (%v,%X,%X,%v)", k1, c1, r1, e1, k2, c2, r2, e2), nil)
	}
	a1, b1, e1 := inrlp.SplitString(in)
	a2, b2, e2 := refrlp.SplitString(in)
	if !bytes.Equal(a1, a2) || !bytes.Equal(b1, b2) || (e1 == nil) != (e2 == nil) {
		rlpViol("SplitString", t, in, "results differ", nil)
	}
	a1, b1, e1 = inrlp.SplitList(in)
	a2, b2, e2 = refrlp.SplitList(in)
	if !bytes.Equal(a1, a2) || !bytes.Equal(b1, b2) || (e1 == nil) != (e2 == nil) {
		rlpViol("SplitList", t, in, "results differ", nil)
	}
	n1, e1 := inrlp.CountValues(in)
	n2, e2 := refrlp.CountValues(in)
	if n1 != n2 || (e1 == nil) != (e2 == nil) {
		rlpViol("CountValues", t, in, fmt.Sprintf("%d,%v vs %d,%v", n1, e1, n2, e2), nil)
	}
	c.raw++
}

type rlpCounts struct {
	inputs, accepted, rejected, errTextDiffers, raw, encodings int64
}

func (c *rlpCounts) flush() {
	run.Count("rlp_ref_decodes_compared", c.inputs)
	run.Count("rlp_ref_both_accept", c.accepted)
	run.Count("rlp_ref_both_reject", c.rejected)
	run.Count("rlp_ref_error_text_differs_observed", c.errTextDiffers)
	run.Count("rlp_ref_raw_helper_inputs", c.raw)
	run.Count("rlp_ref_encodings_compared", c.encodings)
	run.Count("evaluations", c.inputs)
}

// ---- structured RLP input generator with deliberate non-canonical forms

type rlpForm struct {
	rng       *rand.Rand
	nonCanonP int // probability (per mille) of a non-canonical choice at an item
	used      []string
}

func (f *rlpForm) head(base byte, n int, content []byte) []byte {
	r := f.rng
	nc := r.Intn(1000) < f.nonCanonP
	put := func(lenBytes []byte) []byte {
		out := []byte{base + 55 + byte(len(lenBytes))}
		out = append(out, lenBytes...)
		return append(out, content...)
	}
	minimal := func(x uint64) []byte {
		var b [8]byte
		binary.BigEndian.PutUint64(b[:], x)
		i := 0
		for i < 7 && b[i] == 0 {
			i++
		}
		return b[i:]
	}
	if nc {
		switch r.Intn(6) {
		case 0: // long form although short
			f.used = append(f.used, "long-form-for-short")
			return put(minimal(uint64(n)))
		case 1: // leading zero in the length
			f.used = append(f.used, "length-leading-zero")
			return put(append([]byte{0}, minimal(uint64(n))...))
		case 2: // declared length one more than content
			f.used = append(f.used, "length+1")
			n++
		case 3:
			f.used = append(f.used, "length-1")
			if n > 0 {
				n--
			}
		case 4: // huge declared length
			f.used = append(f.used, "huge-length")
			return put(minimal(uint64(1)<<uint(20+r.Intn(43)) + uint64(r.Intn(7))))
		case 5:
			f.used = append(f.used, "8-byte-length")
			var b [8]byte
			binary.BigEndian.PutUint64(b[:], uint64(n))
			return put(b[:])
		}
	}
	if n < 56 {
		return append([]byte{base + byte(n)}, content...)
	}
	return put(minimal(uint64(n)))
}

func (f *rlpForm) str(b []byte) []byte {
	r := f.rng
	if len(b) == 1 && b[0] < 0x80 {
		if r.Intn(1000) < f.nonCanonP {
			f.used = append(f.used, "single-byte-as-string")
			return []byte{0x81, b[0]}
		}
		return b
	}
	return f.head(0x80, len(b), b)
}

func (f *rlpForm) list(items ...[]byte) []byte {
	var c []byte
	for _, it := range items {
		c = append(c, it...)
	}
	return f.head(0xc0, len(c), c)
}

func (f *rlpForm) uintItem(x uint64) []byte {
	r := f.rng
	var b [8]byte
	binary.BigEndian.PutUint64(b[:], x)
	i := 0
	for i < 8 && b[i] == 0 {
		i++
	}
	m := append([]byte{}, b[i:]...)
	if r.Intn(1000) < f.nonCanonP {
		f.used = append(f.used, "int-leading-zero")
		m = append(make([]byte, 1+r.Intn(2)), m...)
	}
	return f.str(m)
}

func (f *rlpForm) bytesItem() []byte {
	r := f.rng
	ls := []int{0, 1, 1, 2, 3, 4, 8, 20, 32, 33, 55, 56, 57, 60, 255, 256, 300}
	n := ls[r.Intn(len(ls))]
	b := make([]byte, n)
	r.Read(b)
	if n == 1 && r.Intn(2) == 0 {
		b[0] &= 0x7f
	}
	return f.str(b)
}

func (f *rlpForm) item(depth int) []byte {
	r := f.rng
	switch k := r.Intn(10); {
	case k < 3:
		vals := []uint64{0, 1, 127, 128, 255, 256, 65535, 1 << 32, 1<<64 - 1, r.Uint64(), uint64(r.Intn(1000))}
		return f.uintItem(vals[r.Intn(len(vals))])
	case k < 6 || depth > 3:
		return f.bytesItem()
	default:
		n := r.Intn(5)
		if r.Intn(8) == 0 {
			n = 10 + r.Intn(50)
		}
		items := make([][]byte, n)
		for i := range items {
			items[i] = f.item(depth + 1)
		}
		return f.list(items...)
	}
}

// shaped returns an input shaped for a given target (so that most canonical
// inputs are accepted), with non-canonical choices sprinkled in.
func (f *rlpForm) shaped(t *rlpTarget) []byte {
	r := f.rng
	u := func() []byte {
		vals := []uint64{0, 1, 2, 127, 128, 255, 256, 65535, 65536, 1<<32 - 1, 1 << 32, 1<<63 - 1, 1 << 63, 1<<64 - 1, r.Uint64(), uint64(r.Intn(300))}
		return f.uintItem(vals[r.Intn(len(vals))])
	}
	bigItem := func() []byte {
		n := []int{0, 1, 8, 9, 31, 32, 33, 64}[r.Intn(8)]
		b := make([]byte, n)
		r.Read(b)
		if n > 0 && r.Intn(1000) >= f.nonCanonP {
			b[0] |= 1
		} else if n > 0 {
			f.used = append(f.used, "bigint-maybe-leading-zero")
			b[0] = 0
		}
		return f.str(b)
	}
	simple := func() []byte { return f.list(u(), f.bytesItem(), f.bytesItem()) }
	many := func(g func() []byte) []byte {
		n := r.Intn(5)
		items := make([][]byte, n)
		for i := range items {
			items[i] = g()
		}
		return f.list(items...)
	}
	switch t.name {
	case "uint64", "uint32", "uint16", "uint8", "uint", "bool", "*uint64":
		return u()
	case "*big.Int", "big.Int":
		return bigItem()
	case "[]byte", "string", "[4]byte", "[32]byte":
		if t.name == "[4]byte" || t.name == "[32]byte" {
			n := 4
			if t.name == "[32]byte" {
				n = 32
			}
			b := make([]byte, n+r.Intn(3)-1)
			r.Read(b)
			return f.str(b)
		}
		return f.bytesItem()
	case "[][]byte", "[]string":
		return many(f.bytesItem)
	case "[]uint64":
		return many(u)
	case "[3]uint64":
		return f.list(u(), u(), u())
	case "[][][]byte":
		return many(func() []byte { return many(f.bytesItem) })
	case "struct-simple":
		return simple()
	case "struct-tail":
		items := [][]byte{u()}
		for i := r.Intn(4); i > 0; i-- {
			items = append(items, u())
		}
		return f.list(items...)
	case "struct-optional":
		opt := func(g func() []byte, empty []byte) []byte {
			if r.Intn(2) == 0 {
				return empty
			}
			return g()
		}
		return f.list(opt(u, []byte{0x80}), opt(f.bytesItem, []byte{0x80}), opt(simple, []byte{0xc0}), u())
	case "struct-nested":
		return f.list(simple(), many(func() []byte { return many(u) }), simple(), many(simple), f.list(f.bytesItem(), f.bytesItem()))
	case "struct-recursive":
		var rec func(d int) []byte
		rec = func(d int) []byte {
			n := 0
			if d < 3 {
				n = r.Intn(3)
			}
			ch := make([][]byte, n)
			for i := range ch {
				ch[i] = rec(d + 1)
			}
			return f.list(u(), f.list(ch...))
		}
		return rec(0)
	case "struct-big":
		return f.list(bigItem(), bigItem(), many(bigItem))
	case "tx-twin":
		to := []byte{0x80}
		if r.Intn(3) != 0 {
			b := make([]byte, 20)
			r.Read(b)
			to = f.str(b)
		}
		return f.list(u(), bigItem(), u(), to, bigItem(), f.bytesItem(), bigItem(), bigItem(), bigItem())
	case "struct-raw":
		return f.list(f.item(0), u(), many(func() []byte { return f.item(1) }))
	}
	return f.item(0)
}

// byte-level mutation of an input
func rlpByteMutate(r *rand.Rand, in []byte) []byte {
	out := append([]byte{}, in...)
	switch r.Intn(6) {
	case 0:
		if len(out) > 0 {
			return out[:r.Intn(len(out))]
		}
	case 1:
		if len(out) > 0 {
			bit := r.Intn(len(out) * 8)
			out[bit/8] ^= 1 << uint(bit%8)
		}
	case 2:
		out = append(out, byte(r.Intn(256)))
	case 3:
		if len(out) > 0 {
			o := r.Intn(len(out))
			out[o] = []byte{0x00, 0x7f, 0x80, 0x81, 0xb7, 0xb8, 0xbf, 0xc0, 0xc1, 0xf7, 0xf8, 0xff}[r.Intn(12)]
		}
	case 4:
		if len(out) > 0 {
			o := r.Intn(len(out))
			out = insertAt(out, o, rlpBombs[r.Intn(len(rlpBombs))])
		}
	default:
		if len(out) > 1 {
			o := r.Intn(len(out) - 1)
			out = append(out[:o], out[o+1:]...)
		}
	}
	return out
}

// rlpEncodeCompare: both encoders on the same Go value.
func rlpEncodeCompare(name string, v interface{}, c *rlpCounts) {
	bi, e1 := inrlp.EncodeToBytes(v)
	br, e2 := refrlp.EncodeToBytes(v)
	c.encodings++
	if (e1 == nil) != (e2 == nil) || !bytes.Equal(bi, br) {
		run.Violation("rlp-ref/"+name+"/encoding", fmt.Sprintf("encoders disagree on %s %+v: in-tree %X (%v) reference %X (%v)", name, v, bi, e1, br, e2), map[string]interface{}{"type": name, "value": fmt.Sprintf("%+v", v), "in_tree": fmt.Sprintf("%X", bi), "reference": fmt.Sprintf("%X", br)})
	}
}

func runRLPDiff() {
	workers := 16
	// 1. exhaustive short inputs
	var all1and2 [][]byte
	all1and2 = append(all1and2, []byte{})
	for a := 0; a < 256; a++ {
		all1and2 = append(all1and2, []byte{byte(a)})
	}
	lib.Parallel(256, workers, func(a int) {
		c := &rlpCounts{}
		for b := 0; b < 256; b++ {
			in := []byte{byte(a), byte(b)}
			for _, t := range rlpTargets {
				rlpCompare(t, in, c)
			}
			rlpRawCompare(in, c)
		}
		c.flush()
	})
	{
		c := &rlpCounts{}
		for _, in := range all1and2 {
			for _, t := range rlpTargets {
				rlpCompare(t, in, c)
			}
			rlpRawCompare(in, c)
		}
		c.flush()
	}
	run.Count("rlp_ref_exhaustive_upto_bytes", 2)
	if lib.Thorough() {
		lib.Parallel(65536, workers, func(ab int) {
			c := &rlpCounts{}
			for b := 0; b < 256; b++ {
				in := []byte{byte(ab >> 8), byte(ab), byte(b)}
				for _, t := range rlpTargets {
					if t.core {
						rlpCompare(t, in, c)
					}
				}
			}
			c.flush()
		})
		run.Count("rlp_ref_exhaustive_upto_bytes", 1)
	}
	// 2. structured inputs, canonical and deliberately non-canonical, every input into every target
	nStruct := lib.Pick(100000, 2500000)
	lib.Parallel(nStruct/100, workers, func(blk int) {
		c := &rlpCounts{}
		for k := 0; k < 100; k++ {
			i := int64(blk*100 + k)
			rng := lib.Rand("c18-rlp-struct", i)
			f := &rlpForm{rng: rng}
			switch i % 4 {
			case 1:
				f.nonCanonP = 60
			case 2:
				f.nonCanonP = 250
			}
			home := rlpTargets[int(i/4)%len(rlpTargets)]
			in := f.shaped(home)
			if i%4 == 3 {
				in = rlpByteMutate(rng, in)
				if rng.Intn(2) == 0 {
					in = rlpByteMutate(rng, in)
				}
			}
			ok := rlpCompare(home, in, c)
			if ok {
				run.Count("rlp_ref_shaped_accepted", 1)
			}
			for _, u := range f.used {
				run.Count("rlp_noncanonical:"+u, 1)
			}
			// the same input into a rotating set of other targets
			for j := 0; j < 5; j++ {
				rlpCompare(rlpTargets[rng.Intn(len(rlpTargets))], in, c)
			}
			rlpRawCompare(in, c)
			if i < 2 {
				run.Sample(map[string]interface{}{"monitor": "rlp-ref", "target": home.name, "input_hex": fmt.Sprintf("%X", in), "non_canonical": f.used, "accepted": ok})
			}
			run.Nontrivial("rlp:" + lib.Hash12(in))
		}
		c.flush()
	})
	// 3. encoders on the same values
	nEnc := lib.Pick(20000, 400000)
	lib.Parallel(nEnc/100, workers, func(blk int) {
		c := &rlpCounts{}
		for k := 0; k < 100; k++ {
			i := int64(blk*100 + k)
			rng := lib.Rand("c18-rlp-enc", i)
			g := newGen(rng, i)
			g.profile = profExtreme
			switch i % 8 {
			case 0:
				rlpEncodeCompare("uint64", g.uint64(), c)
			case 1:
				rlpEncodeCompare("*big.Int", bigFrom(g), c)
			case 2:
				rlpEncodeCompare("[]byte", g.bytes(), c)
			case 3:
				rlpEncodeCompare("string", g.str(), c)
			case 4:
				v := tSimple{A: g.uint64(), B: g.bytes(), C: g.str()}
				rlpEncodeCompare("struct-simple", v, c)
				rlpEncodeCompare("*struct-simple", &v, c)
			case 5:
				v := tTail{A: uint(g.uint64())}
				for n := rng.Intn(5); n > 0; n-- {
					v.Rest = append(v.Rest, g.uint64())
				}
				rlpEncodeCompare("struct-tail", v, c)
			case 6:
				var v tOpt
				if rng.Intn(2) == 0 {
					x := g.uint64()
					v.A = &x
				}
				if rng.Intn(2) == 0 {
					x := g.bytes()
					v.B = &x
				}
				if rng.Intn(2) == 0 {
					v.C = &tSimple{A: g.uint64(), B: g.bytes()}
				}
				v.D = g.uint64()
				rlpEncodeCompare("struct-optional", v, c)
			case 7:
				var l []interface{}
				for n := rng.Intn(5); n > 0; n-- {
					switch rng.Intn(4) {
					case 0:
						l = append(l, g.uint64())
					case 1:
						l = append(l, g.bytes())
					case 2:
						l = append(l, []interface{}{g.str(), bigFrom(g)})
					default:
						l = append(l, [][]byte{g.bytes(), g.bytes()})
					}
				}
				rlpEncodeCompare("[]interface{}", l, c)
			}
		}
		c.flush()
	})
}
