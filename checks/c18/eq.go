package main

// Structural comparison of an original value with its decoded copy.
// Equivalence demanded:
//   - exported wire fields only (unexported fields and `json:"-"` fields are not
//     part of either wire format);
//   - nil slice == empty slice (both formats carry only a length);
//   - nil pointer / nil interface are distinct from non-nil ones;
//   - time.Time compared as instants (the location is not encoded), equal within
//     the documented millisecond precision.
// Every differing leaf is collected (up to a cap) so that one known lossy leaf
// cannot hide another difference.

import (
	"bytes"
	"fmt"
	"math"
	"reflect"
	"time"
	"unicode/utf8"
)

type leafDiff struct {
	Path  string `json:"path"`  // field path, slice indices replaced by []
	At    string `json:"at"`    // field path with indices
	Kind  string `json:"kind"`  // Go kind / type of the leaf
	Class string `json:"class"` // what differs
	Orig  string `json:"orig"`
	Got   string `json:"got"`
	orig  reflect.Value
}

const maxDiffs = 12

func short(v interface{}) string {
	s := fmt.Sprintf("%v", v)
	if b, ok := v.([]byte); ok {
		s = fmt.Sprintf("%X", b)
	}
	if str, ok := v.(string); ok {
		s = fmt.Sprintf("%q", str)
	}
	if len(s) > 120 {
		s = s[:120] + "..."
	}
	return s
}

func diffValues(a, b reflect.Value, path, at string, out *[]leafDiff) {
	if len(*out) >= maxDiffs {
		return
	}
	add := func(kind, class string, o, g interface{}) {
		*out = append(*out, leafDiff{Path: path, At: at, Kind: kind, Class: class, Orig: short(o), Got: short(g), orig: a})
	}
	rt := a.Type()
	if b.Type() != rt {
		add(rt.String(), "type-differs", rt.String(), b.Type().String())
		return
	}
	switch rt.Kind() {
	case reflect.Interface:
		if a.IsNil() || b.IsNil() {
			if a.IsNil() != b.IsNil() {
				add("interface", "nil-vs-non-nil", a.IsNil(), b.IsNil())
			}
			return
		}
		ca, cb := a.Elem(), b.Elem()
		if ca.Type() != cb.Type() {
			add("interface", "concrete-type", ca.Type().String(), cb.Type().String())
			return
		}
		diffValues(ca, cb, path+"("+ca.Type().String()+")", at+"("+ca.Type().String()+")", out)
	case reflect.Ptr:
		if a.IsNil() || b.IsNil() {
			if a.IsNil() != b.IsNil() {
				add("ptr", "nil-vs-non-nil", a.IsNil(), b.IsNil())
			}
			return
		}
		diffValues(a.Elem(), b.Elem(), path, at, out)
	case reflect.Struct:
		if rt == timeType {
			ta, tb := a.Interface().(time.Time), b.Interface().(time.Time)
			d := ta.Sub(tb)
			if d < 0 {
				d = -d
			}
			if d >= time.Millisecond || (ta.IsZero() != tb.IsZero()) {
				add("time.Time", "instant-differs", ta.UTC().Format(time.RFC3339Nano), tb.UTC().Format(time.RFC3339Nano))
			}
			return
		}
		for i := 0; i < rt.NumField(); i++ {
			f := rt.Field(i)
			if !wireField(f) {
				continue
			}
			diffValues(a.Field(i), b.Field(i), path+"."+f.Name, at+"."+f.Name, out)
		}
	case reflect.Slice:
		if rt.Elem().Kind() == reflect.Uint8 {
			ba, bb := a.Bytes(), b.Bytes()
			if !bytes.Equal(ba, bb) {
				add("[]byte", "bytes-differ", ba, bb)
			}
			return
		}
		if a.Len() != b.Len() {
			add("slice", "length-differs", a.Len(), b.Len())
			return
		}
		for i := 0; i < a.Len(); i++ {
			diffValues(a.Index(i), b.Index(i), path+"[]", fmt.Sprintf("%s[%d]", at, i), out)
			if len(*out) >= maxDiffs {
				return
			}
		}
	case reflect.Array:
		if rt.Elem().Kind() == reflect.Uint8 {
			ba := make([]byte, rt.Len())
			bb := make([]byte, rt.Len())
			reflect.Copy(reflect.ValueOf(ba), a)
			reflect.Copy(reflect.ValueOf(bb), b)
			if !bytes.Equal(ba, bb) {
				add("[n]byte", "bytes-differ", ba, bb)
			}
			return
		}
		for i := 0; i < rt.Len(); i++ {
			diffValues(a.Index(i), b.Index(i), path+"[]", fmt.Sprintf("%s[%d]", at, i), out)
		}
	case reflect.String:
		if a.String() != b.String() {
			add("string", "string-differs", a.String(), b.String())
		}
	case reflect.Int, reflect.Int8, reflect.Int16, reflect.Int32, reflect.Int64:
		if a.Int() != b.Int() {
			add(rt.Kind().String(), "int-differs", a.Int(), b.Int())
		}
	case reflect.Uint, reflect.Uint8, reflect.Uint16, reflect.Uint32, reflect.Uint64:
		if a.Uint() != b.Uint() {
			add(rt.Kind().String(), "uint-differs", a.Uint(), b.Uint())
		}
	case reflect.Bool:
		if a.Bool() != b.Bool() {
			add("bool", "bool-differs", a.Bool(), b.Bool())
		}
	default:
		if !reflect.DeepEqual(a.Interface(), b.Interface()) {
			add(rt.Kind().String(), "differs", a.Interface(), b.Interface())
		}
	}
}

const two53 = int64(1) << 53

// classify decides whether a differing leaf is inside the documented domain of
// the codec. Returns (judged, classKeyPart).
//
//	not judged (documented lossy encodings, counted as observations):
//	  binary time outside the int64-nanosecond range (go-wire time.go:
//	    "Writes nanoseconds since epoch", time.Time.UnixNano is undefined there,
//	    this includes the zero time.Time);
//	  JSON string that is not valid UTF-8 (encoding/json coerces to U+FFFD).
func classify(codec string, d leafDiff) (judged bool, class string) {
	origLeaf := d.orig
	if codec == "json-file" {
		codec = "json"
	}
	switch d.Kind {
	case "time.Time":
		t := origLeaf.Interface().(time.Time)
		if t.Before(timeRangeLo) || t.After(timeRangeHi) {
			if codec == "json" {
				// JSON writes a calendar date, it has no such range limit
				return true, "time-out-of-int64ns-range"
			}
			return false, "time-out-of-int64ns-range"
		}
		return true, "time"
	case "string":
		if codec == "json" && !utf8.ValidString(origLeaf.String()) {
			return false, "string-invalid-utf8"
		}
		return true, "string"
	case "int", "int64":
		v := origLeaf.Int()
		if codec == "json" && (v > two53 || v < -two53) {
			return true, "int-above-2^53"
		}
		return true, d.Kind
	case "uint", "uint64":
		if codec == "json" && origLeaf.Uint() > uint64(two53) {
			return true, "int-above-2^53"
		}
		return true, d.Kind
	}
	return true, d.Class
}

var _ = math.MaxInt64
