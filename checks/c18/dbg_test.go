package main

import (
	"fmt"
	"testing"

	wire "github.com/dappledger/AnnChain/gemmill/go-wire"
	"github.com/dappledger/AnnChain/gemmill/types"
)

func TestDbg(t *testing.T) {
	w := wtypeByName("types.Block")
	v, _ := genWire(w, 142)
	b := v.Addr().Interface().(*types.Block)
	fmt.Printf("header=%v data=%+v lc=%+v\n", b.Header, b.Data, b.LastCommit)
	fmt.Printf("%X\n", wire.BinaryBytes(b))
	if b.Data != nil {
		fmt.Printf("txs=%#v extxs=%#v\n", b.Data.Txs, b.Data.ExTxs)
	}
}
