package main

import (
	"fmt"
	"math/rand"
	"sort"

	"github.com/dappledger/AnnChain/eth/common"
	"github.com/dappledger/AnnChain/eth/crypto"
	"github.com/dappledger/AnnChain/eth/ethdb"
	"github.com/dappledger/AnnChain/eth/trie"

	refcommon "github.com/ethereum/go-ethereum/common"
	refethdb "github.com/ethereum/go-ethereum/ethdb"
	reftrie "github.com/ethereum/go-ethereum/trie"

	"verif/lib"
)

var emptyRoot = common.HexToHash("56e81f171bcc55a6ff8345e692c0f86e5b48e01b996cadc001622fb5e363b421")

// itrie drives the in-tree trie (plain or secure) on its own in-memory databases.
type itrie struct {
	secure bool
	t      *trie.Trie
	s      *trie.SecureTrie
	tdb    *trie.Database
	disk   *ethdb.MemDatabase
	climit uint16
}

func newITrie(secure bool, climit uint16) *itrie {
	x := &itrie{secure: secure, climit: climit, disk: ethdb.NewMemDatabase()}
	x.tdb = trie.NewDatabase(x.disk)
	if err := x.open(common.Hash{}); err != nil {
		panic(err)
	}
	return x
}

func (x *itrie) open(root common.Hash) error {
	if x.secure {
		s, err := trie.NewSecure(root, x.tdb, x.climit)
		if err != nil {
			return err
		}
		x.s = s
		return nil
	}
	t, err := trie.New(root, x.tdb)
	if err != nil {
		return err
	}
	t.SetCacheLimit(x.climit)
	x.t = t
	return nil
}

func (x *itrie) update(k, v []byte) error {
	if x.secure {
		return x.s.TryUpdate(k, v)
	}
	return x.t.TryUpdate(k, v)
}

func (x *itrie) del(k []byte) error {
	if x.secure {
		return x.s.TryDelete(k)
	}
	return x.t.TryDelete(k)
}

func (x *itrie) get(k []byte) ([]byte, error) {
	if x.secure {
		return x.s.TryGet(k)
	}
	return x.t.TryGet(k)
}

func (x *itrie) hash() common.Hash {
	if x.secure {
		return x.s.Hash()
	}
	return x.t.Hash()
}

func (x *itrie) commit() (common.Hash, error) {
	if x.secure {
		return x.s.Commit(nil)
	}
	return x.t.Commit(nil)
}

// flush writes everything reachable from root to the disk database
// (trie.Database.Commit) and replaces the trie database by a fresh one over
// the same disk, so that later reads only see what Commit wrote.
func (x *itrie) flushAndReopen(root common.Hash, withCleanCache bool) error {
	if err := x.tdb.Commit(root, false); err != nil {
		return err
	}
	if withCleanCache {
		x.tdb = trie.NewDatabaseWithCache(x.disk, 1)
	} else {
		x.tdb = trie.NewDatabase(x.disk)
	}
	return x.open(root)
}

func (x *itrie) nodeIterator() trie.NodeIterator {
	if x.secure {
		return x.s.NodeIterator(nil)
	}
	return x.t.NodeIterator(nil)
}

// trieKey is the key as stored in the underlying trie.
func (x *itrie) trieKey(k []byte) []byte {
	if x.secure {
		return crypto.Keccak256(k)
	}
	return k
}

func (x *itrie) prove(k []byte, db ethdb.Putter) error {
	if x.secure {
		return x.s.Prove(crypto.Keccak256(k), 0, db)
	}
	return x.t.Prove(k, 0, db)
}

// ---- reference trie ----

type rtrie struct {
	secure bool
	t      *reftrie.Trie
	s      *reftrie.SecureTrie
}

func newRTrie(secure bool) *rtrie {
	db := reftrie.NewDatabase(refethdb.NewMemDatabase())
	r := &rtrie{secure: secure}
	if secure {
		r.s, _ = reftrie.NewSecure(refcommon.Hash{}, db, 0)
	} else {
		r.t, _ = reftrie.New(refcommon.Hash{}, db)
	}
	return r
}

func (r *rtrie) apply(o top) {
	switch o.Kind {
	case 'u':
		if r.secure {
			r.s.Update(o.Key, o.Val)
		} else {
			r.t.Update(o.Key, o.Val)
		}
	case 'd':
		if r.secure {
			r.s.Delete(o.Key)
		} else {
			r.t.Delete(o.Key)
		}
	}
}

func (r *rtrie) hash() common.Hash {
	if r.secure {
		return common.Hash(r.s.Hash())
	}
	return common.Hash(r.t.Hash())
}

// ---- one trie case: monitors (a)-(e) ----

type trieCase struct {
	No     int
	Secure bool
	Mode   string
	Seed   int64
	Tier   string
	ops    []top
	pool   [][]byte
}

func (c *trieCase) witness(extra map[string]interface{}) map[string]interface{} {
	w := map[string]interface{}{
		"case": c.No, "secure": c.Secure, "keymode": c.Mode, "seed": c.Seed, "tier": c.Tier,
		"regenerate": fmt.Sprintf("VERIF_SEED=%d ./check C11 %s -trie-case %d -secure=%v", c.Seed, c.Tier, c.No, c.Secure),
		"n_ops":      len(c.ops), "ops": opStrings(c.ops, 400),
	}
	for k, v := range extra {
		w[k] = v
	}
	return w
}

func monitorName(secure bool, m string) string {
	if secure {
		return "e/" + m
	}
	return m
}

func runTrieCase(no int, secure bool) {
	label := "c11-trie"
	if secure {
		label = "c11-secure"
	}
	rng := lib.Rand(label, int64(no))
	c := &trieCase{No: no, Secure: secure, Seed: lib.Seed(), Tier: lib.Tier()}
	// key mode and pool
	if secure {
		c.Mode = []string{modeFixed32, modeVarLen, modeSeq, modeVarLen}[no%4]
	} else {
		c.Mode = []string{modeFixed32, modeVarLen, modeDense, modeFixed32, modeVarLen, modeSeq, modeFixed32, modeDense}[no%8]
	}
	n := numOps(rng)
	psz := 2 + rng.Intn(n/2+2)
	if rng.Intn(3) == 0 {
		psz = 2 + rng.Intn(n+1)
	}
	if psz > 500 {
		psz = 500
	}
	c.pool = genPool(rng, c.Mode, psz, (no/8)%65)
	c.ops = genOps(rng, c.pool, n, no%16 == 0)
	cnt := ctr{}
	defer cnt.flush()
	run.Eval()
	guard(monitorName(secure, "trie"), func() interface{} { return c.witness(nil) }, func() { trieMonitors(c, rng, cnt) })
}

func trieMonitors(c *trieCase, rng *rand.Rand, cnt ctr) {
	secure := c.Secure
	mon := func(m string) string { return monitorName(secure, m) }
	cnt.add("trie_histories", 1)
	if secure {
		cnt.add("secure_trie_histories", 1)
	}
	viol := func(key, what string, extra map[string]interface{}) {
		run.Violation(key+"/"+c.Mode, what, c.witness(extra))
	}

	// ---- H1: the history itself; gets are checked against the model on the fly
	model := map[string][]byte{}
	h1 := newITrie(secure, 0)
	ref := newRTrie(secure)
	collapses := 0
	for i, o := range c.ops {
		switch o.Kind {
		case 'u':
			if _, in := model[string(o.Key)]; in && len(o.Val) > 0 {
				cnt.add("ops_overwrite", 1)
			}
			if len(o.Val) == 0 {
				cnt.add("ops_update_empty_value", 1)
			}
			cnt.add("ops_update", 1)
			if err := h1.update(o.Key, o.Val); err != nil {
				viol(mon("a")+"/update-error", fmt.Sprintf("op %d: TryUpdate error %v", i, err), nil)
				return
			}
		case 'd':
			if _, in := model[string(o.Key)]; in {
				cnt.add("ops_delete_present", 1)
				collapses++
			} else {
				cnt.add("ops_delete_absent", 1)
			}
			if err := h1.del(o.Key); err != nil {
				viol(mon("a")+"/delete-error", fmt.Sprintf("op %d: TryDelete error %v", i, err), nil)
				return
			}
		case 'g':
			cnt.add("ops_get", 1)
			got, err := h1.get(o.Key)
			if err != nil || !eqBytes(got, model[string(o.Key)]) {
				viol(mon("a")+"/get-differs-from-model", fmt.Sprintf("op %d: Get(%x) = %x, %v; model has %x", i, o.Key, got, err, model[string(o.Key)]), map[string]interface{}{"failed_at_op": i})
				return
			}
		}
		applyModel(model, o)
		ref.apply(o)
	}
	keys := sortedKeys(model)
	root1 := h1.hash()
	cnt.add("roots_computed", 1)

	// coverage: shared prefix lengths between keys that are present together
	if !secure {
		lcps := map[int]bool{}
		for i := 1; i < len(keys); i++ {
			a, b := []byte(keys[i-1]), []byte(keys[i])
			l := lcpNibbles(a, b)
			lcps[l] = true
			if l == 2*len(a) && len(b) > len(a) {
				cnt.add("present_key_is_prefix_of_present_key", 1)
			}
		}
		for l := range lcps {
			run.Distinct("lcp_nibbles_between_present_keys", fmt.Sprint(l))
			if c.Mode == modeFixed32 {
				run.Distinct("lcp_nibbles_between_present_32byte_keys", fmt.Sprint(l))
			}
		}
	}
	if len(keys) == 0 {
		cnt.add("final_content_empty", 1)
	}
	if len(keys) >= 2 || collapses > 0 {
		run.Nontrivial(fmt.Sprintf("trie:%v:%d", secure, c.No))
	}

	// ---- (b) reference roots
	refRoot := ref.hash()
	cnt.add("roots_compared_with_reference", 1)
	if refRoot != root1 {
		viol(mon("b")+"/reference-root-differs", fmt.Sprintf("history root %x, reference trie fed the same operations %x (%d keys)", root1, refRoot, len(keys)), map[string]interface{}{"content": contentStrings(model, 50)})
		return
	}
	refSorted := newRTrie(secure)
	for _, k := range keys {
		refSorted.apply(top{Kind: 'u', Key: []byte(k), Val: model[k]})
	}
	cnt.add("roots_compared_with_reference", 1)
	if r := refSorted.hash(); r != root1 {
		viol(mon("b")+"/reference-sorted-insert-root-differs", fmt.Sprintf("history root %x, reference trie built from sorted content %x", root1, r), map[string]interface{}{"content": contentStrings(model, 50)})
		return
	}
	// sorted insert into a fresh in-tree trie
	h5 := newITrie(secure, 0)
	for _, k := range keys {
		h5.update([]byte(k), model[k])
	}
	cnt.add("roots_compared_histories", 1)
	if r := h5.hash(); r != root1 {
		viol(mon("b")+"/sorted-insert-root-differs", fmt.Sprintf("history root %x, sorted insert into fresh trie %x", root1, r), map[string]interface{}{"content": contentStrings(model, 50)})
		return
	}

	// ---- (a) H2: shuffled insert of the final content
	h2 := newITrie(secure, 0)
	for _, i := range rng.Perm(len(keys)) {
		h2.update([]byte(keys[i]), model[keys[i]])
	}
	cnt.add("roots_compared_histories", 1)
	if r := h2.hash(); r != root1 {
		viol(mon("a")+"/shuffled-insert-root-differs", fmt.Sprintf("history root %x, shuffled insert of the same content %x", root1, r), map[string]interface{}{"content": contentStrings(model, 50)})
		return
	}

	// ---- (a) H3: the history with insert+delete / update+restore noise
	h3 := newITrie(secure, 0)
	m3 := map[string][]byte{}
	var noiseLog []string
	noise := func() {
		depth := 1 + rng.Intn(3)
		type undo struct {
			k    []byte
			prev []byte
		}
		var st []undo
		for d := 0; d < depth; d++ {
			var k []byte
			switch rng.Intn(3) {
			case 0:
				k = c.pool[rng.Intn(len(c.pool))]
			case 1:
				e := c.pool[rng.Intn(len(c.pool))]
				if len(e) > 0 {
					k = sibling(rng, e, rng.Intn(2*len(e)))
				} else {
					k = []byte{byte(rng.Intn(256))}
				}
			default:
				e := c.pool[rng.Intn(len(c.pool))]
				if c.Mode == modeFixed32 || c.Mode == modeSeq {
					k = cp(e)
					if len(k) > 0 {
						k[len(k)-1] ^= byte(1 + rng.Intn(255))
					}
				} else if rng.Intn(2) == 0 && len(e) > 0 {
					k = cp(e[:rng.Intn(len(e))])
				} else {
					k = append(cp(e), byte(rng.Intn(256)))
				}
			}
			dup := false
			for _, u := range st {
				if eqBytes(u.k, k) {
					dup = true
				}
			}
			if dup {
				continue
			}
			v := genVal(rng, false)
			prev, in := m3[string(k)]
			if in && eqBytes(prev, v) {
				continue
			}
			h3.update(k, v)
			st = append(st, undo{k, prev})
			cnt.add("noise_inserts", 1)
			if len(noiseLog) < 40 {
				noiseLog = append(noiseLog, fmt.Sprintf("noise update %x <%d bytes>", k, len(v)))
			}
		}
		if rng.Intn(2) == 0 { // undo in insertion order instead of reverse order
			for i, j := 0, len(st)-1; i < j; i, j = i+1, j-1 {
				st[i], st[j] = st[j], st[i]
			}
		}
		for i := len(st) - 1; i >= 0; i-- {
			u := st[i]
			if u.prev == nil {
				if rng.Intn(2) == 0 {
					h3.del(u.k)
				} else {
					h3.update(u.k, nil)
				}
			} else {
				h3.update(u.k, u.prev)
			}
		}
	}
	pNoise := 30
	if len(c.ops) > 300 {
		pNoise = 8
	}
	for _, o := range c.ops {
		if rng.Intn(100) < pNoise {
			noise()
		}
		switch o.Kind {
		case 'u':
			h3.update(o.Key, o.Val)
		case 'd':
			h3.del(o.Key)
		case 'g':
			h3.get(o.Key)
		}
		applyModel(m3, o)
	}
	if rng.Intn(2) == 0 {
		noise()
	}
	cnt.add("roots_compared_histories", 1)
	if r := h3.hash(); r != root1 {
		viol(mon("a")+"/noise-history-root-differs", fmt.Sprintf("history root %x, same history with insert+delete noise %x", root1, r), map[string]interface{}{"noise": noiseLog, "content": contentStrings(model, 50)})
		return
	}

	// ---- (a) H4: the history with Hash / Commit / reopen sprinkled in
	climit := []uint16{0, 0, 1, 2, 120}[rng.Intn(5)]
	h4 := newITrie(secure, climit)
	m4 := map[string][]byte{}
	var actions []string
	pAct := 6
	if len(c.ops) < 40 {
		pAct = 25
	} else if len(c.ops) > 500 {
		pAct = 2
	}
	for i, o := range c.ops {
		if rng.Intn(100) < pAct {
			act := rng.Intn(5)
			switch act {
			case 0:
				h4.hash()
				cnt.add("intermediate_hash", 1)
				actions = append(actions, fmt.Sprintf("before op %d: Hash", i))
			case 1:
				if _, err := h4.commit(); err != nil {
					viol(mon("a")+"/intermediate-commit-error", err.Error(), nil)
					return
				}
				cnt.add("intermediate_commit", 1)
				actions = append(actions, fmt.Sprintf("before op %d: Commit", i))
			case 2:
				r, err := h4.commit()
				if err == nil {
					err = h4.open(r)
				}
				if err != nil {
					viol(mon("c")+"/reopen-same-db-error", fmt.Sprintf("before op %d: %v", i, err), map[string]interface{}{"actions": actions})
					return
				}
				cnt.add("intermediate_commit_reopen_same_db", 1)
				actions = append(actions, fmt.Sprintf("before op %d: Commit+reopen(same trie database)", i))
			default:
				r, err := h4.commit()
				if err == nil {
					err = h4.flushAndReopen(r, act == 4 && rng.Intn(40) == 0) // rarely with a clean-node cache (bigcache is costly to set up)
				}
				if err != nil {
					viol(mon("c")+"/reopen-from-disk-error", fmt.Sprintf("before op %d: %v", i, err), map[string]interface{}{"actions": actions})
					return
				}
				cnt.add("intermediate_commit_flush_reopen_from_disk", 1)
				actions = append(actions, fmt.Sprintf("before op %d: Commit+Database.Commit+reopen(fresh trie database over the disk)", i))
			}
		}
		switch o.Kind {
		case 'u':
			if err := h4.update(o.Key, o.Val); err != nil {
				viol(mon("a")+"/update-error-after-reopen", fmt.Sprintf("op %d: %v", i, err), map[string]interface{}{"actions": actions})
				return
			}
		case 'd':
			if err := h4.del(o.Key); err != nil {
				viol(mon("a")+"/delete-error-after-reopen", fmt.Sprintf("op %d: %v", i, err), map[string]interface{}{"actions": actions})
				return
			}
		case 'g':
			got, err := h4.get(o.Key)
			if err != nil || !eqBytes(got, m4[string(o.Key)]) {
				viol(mon("a")+"/get-differs-from-model-after-reopen", fmt.Sprintf("op %d: Get(%x) = %x, %v; model has %x", i, o.Key, got, err, m4[string(o.Key)]), map[string]interface{}{"actions": actions, "failed_at_op": i})
				return
			}
		}
		applyModel(m4, o)
	}
	hashBefore := h4.hash()
	root4, err := h4.commit()
	if err != nil {
		viol(mon("a")+"/commit-error", err.Error(), map[string]interface{}{"actions": actions})
		return
	}
	cnt.add("roots_compared_histories", 2)
	if hashBefore != root4 {
		viol(mon("a")+"/hash-differs-from-commit", fmt.Sprintf("Hash() %x then Commit() %x on the same trie", hashBefore, root4), map[string]interface{}{"actions": actions})
		return
	}
	if root4 != root1 {
		viol(mon("a")+"/commit-reopen-history-root-differs", fmt.Sprintf("history root %x, same history with Hash/Commit/reopen in between %x (cache limit %d)", root1, root4, climit), map[string]interface{}{"actions": actions, "content": contentStrings(model, 50)})
		return
	}

	// ---- (c) commit -> reopen -> read back, on H1 (single commit) and H4
	rootC, err := h1.commit()
	if err != nil || rootC != root1 {
		viol(mon("a")+"/hash-differs-from-commit", fmt.Sprintf("Hash() %x then Commit() %x, %v", root1, rootC, err), nil)
		return
	}
	absent := absentCandidates(rng, model, c.pool, c.Mode == modeFixed32 || c.Mode == modeSeq, 24)
	for _, tr := range []struct {
		x    *itrie
		name string
	}{{h1, "single-commit"}, {h4, "many-commits"}} {
		x := tr.x
		// same trie database (nodes still in the dirty cache unless flushed earlier)
		if err := x.open(root1); err != nil {
			viol(mon("c")+"/reopen-same-db-error", fmt.Sprintf("%s: %v", tr.name, err), map[string]interface{}{"actions": actions})
			return
		}
		if !readBack(c, x, model, keys, absent, "reopen-same-db", cnt, viol, mon) {
			return
		}
		// disk that only received trie.Database.Commit output
		if err := x.flushAndReopen(root1, false); err != nil {
			viol(mon("c")+"/reopen-from-disk-error", fmt.Sprintf("%s: %v", tr.name, err), map[string]interface{}{"actions": actions})
			return
		}
		if !readBack(c, x, model, keys, absent, "reopen-from-disk", cnt, viol, mon) {
			return
		}
	}
	// shape of the committed trie, read through Database.Node from the disk
	sh := &shape{}
	if msg := sh.walk(h1.tdb, root1); msg != "" {
		viol(mon("c")+"/stored-node-"+msg, "walking the committed trie through Database.Node: "+msg, nil)
		return
	}
	if sh.Leaves+sh.BranchValues != len(keys) {
		viol(mon("c")+"/stored-leaf-count", fmt.Sprintf("stored trie has %d values, content has %d", sh.Leaves+sh.BranchValues, len(keys)), nil)
		return
	}
	cnt.add("db_nodes_read_and_rehashed", int64(sh.HashedNodes))
	cnt.add("shape_full_nodes", int64(sh.Full))
	cnt.add("shape_ext_nodes", int64(sh.Ext))
	cnt.add("shape_leaf_nodes", int64(sh.Leaves))
	cnt.add("shape_embedded_nodes", int64(sh.Embedded))
	cnt.add("shape_embedded_full_nodes", int64(sh.EmbeddedFull))
	cnt.add("shape_branch_values", int64(sh.BranchValues))
	cnt.add("shape_min_compact_key_1byte", int64(sh.OneByteCompact))
	run.Distinct("trie_shapes", sh.signature())
	if sh.MaxDepth > 0 {
		run.Distinct("trie_depths", fmt.Sprint(sh.MaxDepth))
	}

	// ---- (d) proofs, on the trie reopened from disk and on a live (uncommitted) trie
	maxProofs := 6
	if len(keys) <= 12 {
		maxProofs = 12
	}
	proofMonitor(c, h1, root1, model, keys, absent, maxProofs, rng, cnt, viol, mon)
	proofMonitor(c, h2, root1, model, keys, absent, 3, rng, cnt, viol, mon) // h2 never committed: nodes live in memory

	if c.No < 2 {
		run.Sample(map[string]interface{}{"monitor": "trie", "secure": secure, "case": c.No, "keymode": c.Mode, "ops": opStrings(c.ops, 12), "final_keys": len(keys), "root": fmt.Sprintf("%x", root1), "shape": sh.signature()})
	}
}

func contentStrings(m map[string][]byte, max int) []string {
	var out []string
	for i, k := range sortedKeys(m) {
		if i >= max {
			out = append(out, fmt.Sprintf("... %d more", len(m)-max))
			break
		}
		v := m[k]
		if len(v) > 40 {
			out = append(out, fmt.Sprintf("%x = <%d bytes %x..>", k, len(v), v[:8]))
		} else {
			out = append(out, fmt.Sprintf("%x = %x", k, v))
		}
	}
	return out
}

// readBack: every key of the content reads back, absent keys read absent,
// the iterator yields exactly the content.
func readBack(c *trieCase, x *itrie, model map[string][]byte, keys []string, absent [][]byte, stage string, cnt ctr,
	viol func(string, string, map[string]interface{}), mon func(string) string) bool {
	for _, k := range keys {
		got, err := x.get([]byte(k))
		cnt.add("reopen_reads", 1)
		if err != nil {
			viol(mon("c")+"/"+stage+"/read-error", fmt.Sprintf("Get(%x): %v", k, err), nil)
			return false
		}
		if !eqBytes(got, model[k]) {
			kind := "wrong-value"
			if len(got) == 0 {
				kind = "present-key-reads-absent"
			}
			viol(mon("c")+"/"+stage+"/"+kind, fmt.Sprintf("Get(%x) = %x, content has %x", k, got, model[k]), nil)
			return false
		}
	}
	for _, k := range absent {
		got, err := x.get(k)
		cnt.add("reopen_absent_reads", 1)
		if err != nil || len(got) != 0 {
			viol(mon("c")+"/"+stage+"/absent-key-reads-present", fmt.Sprintf("Get(%x) = %x, %v; key is not in the content", k, got, err), nil)
			return false
		}
	}
	// iteration
	it := trie.NewIterator(x.nodeIterator())
	seen := map[string]bool{}
	want := map[string][]byte{}
	for _, k := range keys {
		want[string(x.trieKey([]byte(k)))] = model[k]
	}
	for it.Next() {
		cnt.add("iterator_leaves", 1)
		k := string(it.Key)
		if seen[k] {
			viol(mon("c")+"/"+stage+"/iterator-duplicate-key", fmt.Sprintf("iterator yields %x twice", k), nil)
			return false
		}
		seen[k] = true
		w, in := want[k]
		if !in {
			viol(mon("c")+"/"+stage+"/iterator-extra-key", fmt.Sprintf("iterator yields %x = %x which is not in the content", k, it.Value), nil)
			return false
		}
		if !eqBytes(w, it.Value) {
			viol(mon("c")+"/"+stage+"/iterator-wrong-value", fmt.Sprintf("iterator yields %x = %x, content has %x", k, it.Value, w), nil)
			return false
		}
	}
	if it.Err != nil {
		viol(mon("c")+"/"+stage+"/iterator-error", it.Err.Error(), nil)
		return false
	}
	if len(seen) != len(want) {
		var missing []string
		for k := range want {
			if !seen[k] {
				missing = append(missing, fmt.Sprintf("%x", k))
			}
		}
		sort.Strings(missing)
		viol(mon("c")+"/"+stage+"/iterator-misses-key", fmt.Sprintf("iterator yields %d of %d keys; missing e.g. %s", len(seen), len(want), missing[0]), nil)
		return false
	}
	cnt.add("iterations_complete", 1)
	return true
}

// proofDB: content-addressed node set as a verifier builds it from a list of
// proof nodes (key = keccak256(node)).
func nodeSet(nodes [][]byte) *ethdb.MemDatabase {
	db := ethdb.NewMemDatabase()
	for _, n := range nodes {
		db.Put(crypto.Keccak256(n), n)
	}
	return db
}

func proofMonitor(c *trieCase, x *itrie, root common.Hash, model map[string][]byte, keys []string, absent [][]byte, max int, rng *rand.Rand, cnt ctr,
	viol func(string, string, map[string]interface{}), mon func(string) string) {
	type target struct {
		k       []byte
		present bool
	}
	var targets []target
	for n, i := range rng.Perm(len(keys)) {
		if n >= max {
			break
		}
		targets = append(targets, target{[]byte(keys[i]), true})
	}
	for n, k := range absent {
		if n >= max {
			break
		}
		targets = append(targets, target{k, false})
	}
	var prevNodes [][]byte // proof of the previous target, for the cross-key test
	emptyReported := false
	for _, tg := range targets {
		pdb := ethdb.NewMemDatabase()
		if err := x.prove(tg.k, pdb); err != nil {
			viol(mon("d")+"/prove-error", fmt.Sprintf("Prove(%x): %v", tg.k, err), nil)
			return
		}
		var nodes [][]byte
		for _, hk := range pdb.Keys() {
			v, _ := pdb.Get(hk)
			if !eqBytes(crypto.Keccak256(v), hk) {
				viol(mon("d")+"/proof-node-not-keyed-by-hash", fmt.Sprintf("Prove(%x) stored a node under %x whose hash is %x", tg.k, hk, crypto.Keccak256(v)), nil)
				return
			}
			nodes = append(nodes, v)
		}
		sort.Slice(nodes, func(i, j int) bool { return string(nodes[i]) < string(nodes[j]) })
		tk := x.trieKey(tg.k)
		val, _, err := trie.VerifyProof(root, tk, pdb)
		want := model[string(tg.k)]
		kind := "present"
		if !tg.present {
			kind = "absent"
		}
		if err != nil {
			if len(keys) == 0 && root == emptyRoot && len(nodes) == 0 {
				// one class for plain and secure tries and all key modes: Prove and VerifyProof are shared code
				cnt.add("proofs_empty_trie_unverifiable", 1)
				if emptyReported {
					continue
				}
				emptyReported = true
				run.Violation("d/absent-key-proof-of-empty-trie-does-not-verify", fmt.Sprintf("empty trie (root %x): Prove(%x) gives no nodes and VerifyProof fails: %v", root, tg.k, err), c.witness(nil))
				continue
			}
			viol(mon("d")+"/"+kind+"-key-proof-does-not-verify", fmt.Sprintf("Prove(%x) gave %d nodes; VerifyProof against root %x: %v", tg.k, len(nodes), root, err), map[string]interface{}{"proof_nodes": hexList(nodes), "content": contentStrings(model, 30)})
			return
		}
		if !eqBytes(val, want) {
			viol(mon("d")+"/"+kind+"-key-proof-yields-wrong-value", fmt.Sprintf("VerifyProof(%x) = %x, content has %x", tg.k, val, want), map[string]interface{}{"proof_nodes": hexList(nodes)})
			return
		}
		cnt.add("proofs_verified_"+kind, 1)
		if len(nodes) == 0 {
			continue // empty trie: nothing to hand to the reference verifier or to mutate
		}
		// the reference verifier accepts the in-tree proof too
		rdb := refethdb.NewMemDatabase()
		for _, nd := range nodes {
			rdb.Put(crypto.Keccak256(nd), nd)
		}
		rval, _, rerr := reftrie.VerifyProof(refcommon.Hash(root), tk, rdb)
		cnt.add("proofs_verified_by_reference", 1)
		if rerr != nil || !eqBytes(rval, want) {
			viol(mon("d")+"/reference-verifier-rejects-proof", fmt.Sprintf("reference VerifyProof(%x) = %x, %v", tg.k, rval, rerr), map[string]interface{}{"proof_nodes": hexList(nodes)})
			return
		}

		// mutations: every node removed; every node with one bit flipped /
		// truncated / extended (stored under the hash of the mutated bytes, as
		// a verifier that hashes what it received would do)
		check := func(mut string, db *ethdb.MemDatabase) bool {
			var v []byte
			var e error
			if guard(mon("d")+"/verify-mutated-proof", func() interface{} { return c.witness(map[string]interface{}{"mutation": mut, "key": hx(tg.k)}) }, func() {
				v, _, e = trie.VerifyProof(root, tk, db)
			}) {
				return false
			}
			cnt.add("mutated_proofs_checked", 1)
			if e != nil {
				cnt.add("mutated_proofs_rejected", 1)
				return true
			}
			if !eqBytes(v, want) {
				viol(mon("d")+"/mutated-proof-yields-wrong-value/"+mut, fmt.Sprintf("key %x: mutated proof (%s) verifies and yields %x, content has %x", tg.k, mut, v, want), map[string]interface{}{"proof_nodes": hexList(nodes)})
				return false
			}
			cnt.add("mutated_proofs_accepted_with_true_value", 1)
			return true
		}
		for j := range nodes {
			if j >= 8 {
				break
			}
			var rest [][]byte
			rest = append(rest, nodes[:j]...)
			rest = append(rest, nodes[j+1:]...)
			if !check("node-removed", nodeSet(rest)) {
				return
			}
			for m := 0; m < 3; m++ {
				mn := cp(nodes[j])
				var mut string
				switch m {
				case 0:
					mn[rng.Intn(len(mn))] ^= byte(1 << uint(rng.Intn(8)))
					mut = "bit-flipped"
				case 1:
					mn = mn[:rng.Intn(len(mn))]
					mut = "truncated"
				default:
					mn = append(mn, byte(rng.Intn(256)))
					mut = "extended"
				}
				if !check("node-"+mut, nodeSet(append(append([][]byte{}, rest...), mn))) {
					return
				}
			}
		}
		// wrong root: the proof must not say anything under another root
		other := root
		other[rng.Intn(32)] ^= 1
		if v, _, e := trie.VerifyProof(other, tk, pdb); e == nil {
			viol(mon("d")+"/proof-verifies-under-other-root", fmt.Sprintf("key %x: proof verifies under root %x (real root %x) yielding %x", tg.k, other, root, v), nil)
			return
		}
		cnt.add("other_root_rejected", 1)
		// a proof made for another key: either rejected, or it yields the truth about this key
		if prevNodes != nil {
			v, _, e := trie.VerifyProof(root, tk, nodeSet(prevNodes))
			cnt.add("other_key_proofs_checked", 1)
			if e == nil && !eqBytes(v, want) {
				viol(mon("d")+"/proof-of-other-key-yields-wrong-value", fmt.Sprintf("key %x: the proof made for another key verifies and yields %x, content has %x", tg.k, v, want), map[string]interface{}{"proof_nodes": hexList(prevNodes)})
				return
			}
			if e == nil {
				cnt.add("other_key_proofs_sufficient", 1)
			}
		}
		prevNodes = nodes
	}
}

func hexList(nodes [][]byte) []string {
	var out []string
	for _, n := range nodes {
		if len(n) > 600 {
			out = append(out, fmt.Sprintf("%x..(%d bytes)", n[:64], len(n)))
		} else {
			out = append(out, hx(n))
		}
	}
	return out
}
