package main

import (
	"bytes"
	"fmt"

	"github.com/dappledger/AnnChain/eth/common"
	"github.com/dappledger/AnnChain/eth/crypto"
	"github.com/dappledger/AnnChain/eth/rlp"
	"github.com/dappledger/AnnChain/eth/trie"
)

// shape is a node-kind histogram of a committed trie, obtained by reading the
// stored node encodings through trie.Database.Node and parsing the RLP here
// (independent of the trie package's decoder).
type shape struct {
	Full, Ext, Leaves int
	Embedded          int // nodes stored inside their parent (RLP < 32 bytes)
	EmbeddedFull      int
	BranchValues      int // full nodes carrying a value in slot 16
	HashedNodes       int
	OneByteCompact    int // short nodes whose compact key is a single byte
	MaxDepth          int
}

func bucket(n int) string {
	switch {
	case n == 0:
		return "0"
	case n == 1:
		return "1"
	case n <= 3:
		return "2-3"
	case n <= 8:
		return "4-8"
	case n <= 30:
		return "9-30"
	case n <= 120:
		return "31-120"
	}
	return ">120"
}

func (s *shape) signature() string {
	return fmt.Sprintf("full=%s ext=%s leaf=%s emb=%s embfull=%s bval=%s depth=%d",
		bucket(s.Full), bucket(s.Ext), bucket(s.Leaves), bucket(s.Embedded), bucket(s.EmbeddedFull), bucket(s.BranchValues), s.MaxDepth)
}

// walk returns "" or a short failure kind.
func (s *shape) walk(db *trie.Database, root common.Hash) string {
	if root == emptyRoot {
		return ""
	}
	return s.walkHash(db, root, 1)
}

func (s *shape) walkHash(db *trie.Database, h common.Hash, depth int) string {
	blob, err := db.Node(h)
	if err != nil || len(blob) == 0 {
		return "missing"
	}
	if !bytes.Equal(crypto.Keccak256(blob), h[:]) {
		return "hash-mismatch"
	}
	if len(blob) < 32 && depth > 1 {
		return "small-node-stored-by-hash" // a non-root node below 32 bytes must be embedded
	}
	s.HashedNodes++
	return s.walkNode(db, blob, depth, false)
}

func (s *shape) walkNode(db *trie.Database, enc []byte, depth int, embedded bool) string {
	if depth > s.MaxDepth {
		s.MaxDepth = depth
	}
	content, _, err := rlp.SplitList(enc)
	if err != nil {
		return "not-a-list"
	}
	n, err := rlp.CountValues(content)
	if err != nil {
		return "bad-rlp"
	}
	if embedded {
		s.Embedded++
	}
	child := func(item []byte, kind rlp.Kind, raw []byte) string {
		switch {
		case kind == rlp.List:
			if len(raw) >= 32 {
				return "large-node-embedded"
			}
			return s.walkNode(db, raw, depth+1, true)
		case len(item) == 0:
			return ""
		case len(item) == 32:
			return s.walkHash(db, common.BytesToHash(item), depth+1)
		}
		return "bad-child-reference"
	}
	switch n {
	case 2:
		k, key, rest, err := rlp.Split(content)
		if err != nil || k == rlp.List || len(key) == 0 {
			return "bad-short-key"
		}
		if len(key) == 1 {
			s.OneByteCompact++
		}
		leaf := key[0]&0x20 != 0
		if leaf {
			k2, _, _, err := rlp.Split(rest)
			if err != nil || k2 == rlp.List {
				return "bad-leaf-value"
			}
			s.Leaves++
			return ""
		}
		s.Ext++
		k2, item, _, err := rlp.Split(rest)
		if err != nil {
			return "bad-rlp"
		}
		if k2 != rlp.List && len(item) != 32 {
			return "extension-without-node-child"
		}
		return child(item, k2, rest)
	case 17:
		s.Full++
		if embedded {
			s.EmbeddedFull++
		}
		rest := content
		nchildren := 0
		for i := 0; i < 17; i++ {
			k, item, r2, err := rlp.Split(rest)
			if err != nil {
				return "bad-rlp"
			}
			raw := rest[:len(rest)-len(r2)]
			rest = r2
			if i == 16 {
				if len(item) > 0 || k == rlp.List {
					s.BranchValues++
					nchildren++
				}
				break
			}
			if k == rlp.List || len(item) > 0 {
				nchildren++
			}
			if msg := child(item, k, raw); msg != "" {
				return msg
			}
		}
		if nchildren < 2 {
			return "full-node-with-less-than-two-children"
		}
		return ""
	}
	return "bad-node-arity"
}
