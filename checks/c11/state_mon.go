package main

import (
	"bytes"
	"fmt"
	"math/big"
	"math/rand"
	"sort"
	"strings"

	"github.com/dappledger/AnnChain/eth/common"
	"github.com/dappledger/AnnChain/eth/core/state"
	"github.com/dappledger/AnnChain/eth/core/types"
	"github.com/dappledger/AnnChain/eth/crypto"
	"github.com/dappledger/AnnChain/eth/ethdb"
	"github.com/dappledger/AnnChain/eth/rlp"

	refcommon "github.com/ethereum/go-ethereum/common"
	refstate "github.com/ethereum/go-ethereum/core/state"
	reftypes "github.com/ethereum/go-ethereum/core/types"
	refethdb "github.com/ethereum/go-ethereum/ethdb"

	"verif/lib"
)

var emptyCodeHash = crypto.Keccak256Hash(nil)

// ---- operations ----

type sop struct {
	Kind   string
	A      int      // address index
	S      int      // storage key index
	Val    [32]byte // SetState value
	Amount *big.Int
	Nonce  uint64
	Code   []byte
	Gas    uint64
	Topics int
	Data   []byte
	Hash   [32]byte // AddPreimage hash / Prepare thash
	TxIdx  int
	Flag   bool // deleteEmptyObjects
}

func (o *sop) String() string {
	switch o.Kind {
	case "AddBalance", "SubBalance", "SetBalance":
		return fmt.Sprintf("%s a%d %s", o.Kind, o.A, o.Amount)
	case "SetNonce":
		return fmt.Sprintf("SetNonce a%d %d", o.A, o.Nonce)
	case "SetCode":
		if len(o.Code) > 16 {
			return fmt.Sprintf("SetCode a%d <%d bytes %x..>", o.A, len(o.Code), o.Code[:8])
		}
		return fmt.Sprintf("SetCode a%d %x", o.A, o.Code)
	case "SetState":
		return fmt.Sprintf("SetState a%d k%d %x", o.A, o.S, o.Val)
	case "GetState":
		return fmt.Sprintf("GetState a%d k%d", o.A, o.S)
	case "AddLog":
		return fmt.Sprintf("AddLog a%d topics=%d data=%x", o.A, o.Topics, o.Data)
	case "AddRefund", "SubRefund":
		return fmt.Sprintf("%s %d", o.Kind, o.Gas)
	case "AddPreimage":
		return fmt.Sprintf("AddPreimage %x <%d bytes>", o.Hash[:4], len(o.Data))
	case "Prepare":
		return fmt.Sprintf("Prepare thash=%x.. txindex=%d", o.Hash[:4], o.TxIdx)
	case "IntermediateRoot", "Commit":
		return fmt.Sprintf("%s(%v)", o.Kind, o.Flag)
	case "Snapshot", "RevertToSnapshot":
		return fmt.Sprintf("%s #%d", o.Kind, o.A)
	case "Continue":
		return []string{"continue on the same StateDB", "continue on state.New(root, same database)", "TrieDB().Commit(root); continue on state.New(root, fresh database over the disk)"}[o.A]
	}
	return fmt.Sprintf("%s a%d", o.Kind, o.A)
}

// ---- model ----

type macct struct {
	nonce    uint64
	bal      *big.Int
	code     []byte
	storage  map[int][32]byte
	suicided bool
}

func (a *macct) empty() bool { return a.nonce == 0 && a.bal.Sign() == 0 && len(a.code) == 0 }

func (a *macct) copy() *macct {
	c := &macct{nonce: a.nonce, bal: new(big.Int).Set(a.bal), code: a.code, suicided: a.suicided, storage: map[int][32]byte{}}
	for k, v := range a.storage {
		c.storage[k] = v
	}
	return c
}

type mlog struct {
	A       int
	Topics  int
	Data    []byte
	TxIndex int
	Index   uint
}

type model struct {
	accts     map[int]*macct
	touched   map[int]bool // EIP-161 "touched since the last finalisation"
	refund    uint64
	logs      map[[32]byte][]mlog
	logSize   uint
	preimages map[[32]byte][]byte
	thash     [32]byte
	txIndex   int
}

func newModel() *model {
	return &model{accts: map[int]*macct{}, touched: map[int]bool{}, logs: map[[32]byte][]mlog{}, preimages: map[[32]byte][]byte{}}
}

func (m *model) copy() *model {
	c := newModel()
	for k, v := range m.accts {
		c.accts[k] = v.copy()
	}
	for k := range m.touched {
		c.touched[k] = true
	}
	c.refund = m.refund
	for k, v := range m.logs {
		c.logs[k] = append([]mlog{}, v...)
	}
	c.logSize = m.logSize
	for k, v := range m.preimages {
		c.preimages[k] = v
	}
	c.thash, c.txIndex = m.thash, m.txIndex
	return c
}

func (m *model) getOrNew(a int) *macct {
	if acc, ok := m.accts[a]; ok {
		return acc
	}
	acc := &macct{bal: new(big.Int), storage: map[int][32]byte{}}
	m.accts[a] = acc
	m.touched[a] = true
	return acc
}

// apply a mutating operation; returns the expected return value for Suicide.
func (m *model) apply(o *sop) bool {
	switch o.Kind {
	case "AddBalance":
		acc := m.getOrNew(o.A)
		if o.Amount.Sign() == 0 {
			if acc.empty() {
				m.touched[o.A] = true
			}
			return true
		}
		acc.bal = new(big.Int).Add(acc.bal, o.Amount)
		m.touched[o.A] = true
	case "SubBalance":
		acc := m.getOrNew(o.A)
		if o.Amount.Sign() == 0 {
			return true
		}
		acc.bal = new(big.Int).Sub(acc.bal, o.Amount)
		m.touched[o.A] = true
	case "SetBalance":
		acc := m.getOrNew(o.A)
		acc.bal = new(big.Int).Set(o.Amount)
		m.touched[o.A] = true
	case "SetNonce":
		m.getOrNew(o.A).nonce = o.Nonce
		m.touched[o.A] = true
	case "SetCode":
		m.getOrNew(o.A).code = o.Code
		m.touched[o.A] = true
	case "SetState":
		acc := m.getOrNew(o.A)
		if acc.storage[o.S] == o.Val {
			return true
		}
		if o.Val == ([32]byte{}) {
			delete(acc.storage, o.S)
		} else {
			acc.storage[o.S] = o.Val
		}
		m.touched[o.A] = true
	case "Suicide":
		acc, ok := m.accts[o.A]
		if !ok {
			return false
		}
		acc.suicided = true
		acc.bal = new(big.Int)
		m.touched[o.A] = true
		return true
	case "CreateAccount":
		old, ok := m.accts[o.A]
		acc := &macct{bal: new(big.Int), storage: map[int][32]byte{}}
		if ok {
			acc.bal = new(big.Int).Set(old.bal)
		}
		m.accts[o.A] = acc
		m.touched[o.A] = true
	case "AddLog":
		m.logs[m.thash] = append(m.logs[m.thash], mlog{A: o.A, Topics: o.Topics, Data: o.Data, TxIndex: m.txIndex, Index: m.logSize})
		m.logSize++
	case "AddRefund":
		m.refund += o.Gas
	case "SubRefund":
		m.refund -= o.Gas
	case "AddPreimage":
		if _, ok := m.preimages[o.Hash]; !ok {
			m.preimages[o.Hash] = o.Data
		}
	case "Prepare":
		m.thash, m.txIndex = o.Hash, o.TxIdx
	}
	return true
}

// finalise: what the end of a transaction does to the content.
func (m *model) finalise(deleteEmpty bool) {
	for a := range m.touched {
		acc, ok := m.accts[a]
		if !ok {
			continue
		}
		if acc.suicided || (deleteEmpty && acc.empty()) {
			delete(m.accts, a)
		}
	}
	m.touched = map[int]bool{}
	m.refund = 0
}

// ---- the two implementations behind one small surface ----

type world struct {
	addrs []common.Address
	skeys []common.Hash
}

func (w *world) applyIn(s *state.StateDB, o *sop) (ret bool) {
	a := w.addrs[o.A%len(w.addrs)]
	switch o.Kind {
	case "AddBalance":
		s.AddBalance(a, o.Amount)
	case "SubBalance":
		s.SubBalance(a, o.Amount)
	case "SetBalance":
		s.SetBalance(a, o.Amount)
	case "SetNonce":
		s.SetNonce(a, o.Nonce)
	case "SetCode":
		s.SetCode(a, o.Code)
	case "SetState":
		s.SetState(a, w.skeys[o.S], common.Hash(o.Val))
	case "Suicide":
		return s.Suicide(a)
	case "CreateAccount":
		s.CreateAccount(a)
	case "AddLog":
		tp := make([]common.Hash, o.Topics)
		for i := range tp {
			tp[i] = w.skeys[i%len(w.skeys)]
		}
		s.AddLog(&types.Log{Address: a, Topics: tp, Data: o.Data})
	case "AddRefund":
		s.AddRefund(o.Gas)
	case "SubRefund":
		s.SubRefund(o.Gas)
	case "AddPreimage":
		s.AddPreimage(common.Hash(o.Hash), o.Data)
	case "Prepare":
		s.Prepare(common.Hash(o.Hash), common.Hash{}, o.TxIdx)
	}
	return true
}

func (w *world) applyRef(s *refstate.StateDB, o *sop) {
	a := refcommon.Address(w.addrs[o.A%len(w.addrs)])
	switch o.Kind {
	case "AddBalance":
		s.AddBalance(a, o.Amount)
	case "SubBalance":
		s.SubBalance(a, o.Amount)
	case "SetBalance":
		s.SetBalance(a, o.Amount)
	case "SetNonce":
		s.SetNonce(a, o.Nonce)
	case "SetCode":
		s.SetCode(a, o.Code)
	case "SetState":
		s.SetState(a, refcommon.Hash(w.skeys[o.S]), refcommon.Hash(o.Val))
	case "Suicide":
		s.Suicide(a)
	case "CreateAccount":
		s.CreateAccount(a)
	case "AddLog":
		tp := make([]refcommon.Hash, o.Topics)
		for i := range tp {
			tp[i] = refcommon.Hash(w.skeys[i%len(w.skeys)])
		}
		s.AddLog(&reftypes.Log{Address: a, Topics: tp, Data: o.Data})
	case "AddRefund":
		s.AddRefund(o.Gas)
	case "SubRefund":
		s.SubRefund(o.Gas)
	case "AddPreimage":
		s.AddPreimage(refcommon.Hash(o.Hash), o.Data)
	case "Prepare":
		s.Prepare(refcommon.Hash(o.Hash), refcommon.Hash{}, o.TxIdx)
	}
}

// ---- comparison of the live StateDB with the model ----

type mismatch struct {
	Field string
	Addr  int
	What  string
}

// rlpOfSlot is what the storage trie holds for a slot value.
func rlpOfSlot(v [32]byte) common.Hash {
	enc, _ := rlp.EncodeToBytes(bytes.TrimLeft(v[:], "\x00"))
	return common.BytesToHash(enc)
}

// compare: storageIter additionally walks ForEachStorage; if it yields the RLP
// encoding of a slot instead of its value, *rlpQuirk is set and the walk goes on.
func (w *world) compare(s *state.StateDB, m *model, journalParts bool, storageIter bool, rlpQuirk *string) *mismatch {
	for i, a := range w.addrs {
		acc, ok := m.accts[i]
		if s.Exist(a) != ok {
			return &mismatch{"exist", i, fmt.Sprintf("Exist(a%d)=%v, model %v", i, s.Exist(a), ok)}
		}
		wantEmpty := !ok || acc.empty()
		if s.Empty(a) != wantEmpty {
			return &mismatch{"empty", i, fmt.Sprintf("Empty(a%d)=%v, model %v", i, s.Empty(a), wantEmpty)}
		}
		if !ok {
			acc = &macct{bal: new(big.Int)}
		}
		if b := s.GetBalance(a); b.Cmp(acc.bal) != 0 {
			return &mismatch{"balance", i, fmt.Sprintf("GetBalance(a%d)=%v, model %v", i, b, acc.bal)}
		}
		if n := s.GetNonce(a); n != acc.nonce {
			return &mismatch{"nonce", i, fmt.Sprintf("GetNonce(a%d)=%d, model %d", i, n, acc.nonce)}
		}
		if c := s.GetCode(a); !eqBytes(c, acc.code) {
			return &mismatch{"code", i, fmt.Sprintf("GetCode(a%d)=<%d bytes>, model <%d bytes>", i, len(c), len(acc.code))}
		}
		if n := s.GetCodeSize(a); n != len(acc.code) {
			return &mismatch{"codesize", i, fmt.Sprintf("GetCodeSize(a%d)=%d, model %d", i, n, len(acc.code))}
		}
		wantHash := common.Hash{}
		if ok {
			wantHash = crypto.Keccak256Hash(acc.code)
		}
		if h := s.GetCodeHash(a); h != wantHash {
			return &mismatch{"codehash", i, fmt.Sprintf("GetCodeHash(a%d)=%x, model %x", i, h, wantHash)}
		}
		if sd := s.HasSuicided(a); sd != acc.suicided {
			return &mismatch{"suicided", i, fmt.Sprintf("HasSuicided(a%d)=%v, model %v", i, sd, acc.suicided)}
		}
		for k, sk := range w.skeys {
			want := common.Hash(acc.storage[k])
			if v := s.GetState(a, sk); v != want {
				return &mismatch{"storage", i, fmt.Sprintf("GetState(a%d,k%d)=%x, model %x", i, k, v, want)}
			}
		}
		if storageIter && ok {
			n := 0
			bad := ""
			s.ForEachStorage(a, func(key, value common.Hash) bool {
				n++
				found := false
				for k, sk := range w.skeys {
					if sk == key {
						found = true
						if common.Hash(acc.storage[k]) != value {
							if rlpQuirk != nil && value == rlpOfSlot(acc.storage[k]) {
								if *rlpQuirk == "" {
									*rlpQuirk = fmt.Sprintf("ForEachStorage(a%d) yields slot k%d = %x; GetState and the model say %x (the callback gets the RLP encoding stored in the trie)", i, k, value, acc.storage[k])
								}
							} else {
								bad = fmt.Sprintf("slot k%d = %x, model %x", k, value, acc.storage[k])
							}
						}
					}
				}
				if !found {
					bad = fmt.Sprintf("slot %x = %x is not in the model", key, value)
				}
				return true
			})
			if bad == "" && n != len(acc.storage) {
				bad = fmt.Sprintf("%d slots stored, model has %d", n, len(acc.storage))
			}
			if bad != "" {
				return &mismatch{"storage-iteration", i, fmt.Sprintf("ForEachStorage(a%d): %s", i, bad)}
			}
		}
	}
	if !journalParts {
		return nil
	}
	if r := s.GetRefund(); r != m.refund {
		return &mismatch{"refund", -1, fmt.Sprintf("GetRefund()=%d, model %d", r, m.refund)}
	}
	total := 0
	for th, want := range m.logs {
		got := s.GetLogs(common.Hash(th))
		total += len(want)
		if len(got) != len(want) {
			return &mismatch{"logs", -1, fmt.Sprintf("GetLogs(%x..) has %d logs, model %d", th[:4], len(got), len(want))}
		}
		for i, l := range got {
			wl := want[i]
			if l.Address != w.addrs[wl.A] || len(l.Topics) != wl.Topics || !eqBytes(l.Data, wl.Data) || l.Index != wl.Index || l.TxIndex != uint(wl.TxIndex) || l.TxHash != common.Hash(th) {
				return &mismatch{"logs", -1, fmt.Sprintf("log %d of tx %x..: got addr=%x topics=%d data=%x index=%d txindex=%d, model a%d topics=%d data=%x index=%d txindex=%d", i, th[:4], l.Address[:4], len(l.Topics), l.Data, l.Index, l.TxIndex, wl.A, wl.Topics, wl.Data, wl.Index, wl.TxIndex)}
			}
		}
	}
	if n := len(s.Logs()); n != total {
		return &mismatch{"logs", -1, fmt.Sprintf("Logs() has %d logs, model %d", n, total)}
	}
	pi := s.Preimages()
	if len(pi) != len(m.preimages) {
		return &mismatch{"preimages", -1, fmt.Sprintf("%d preimages, model %d", len(pi), len(m.preimages))}
	}
	for h, want := range m.preimages {
		if !eqBytes(pi[common.Hash(h)], want) {
			return &mismatch{"preimages", -1, fmt.Sprintf("preimage %x.. differs from model", h[:4])}
		}
	}
	return nil
}

// rebuildRoot: the root of a fresh in-tree StateDB that is given the model's
// content directly (accounts in shuffled order), committed with the same flag.
func (w *world) rebuildRoot(m *model, deleteEmpty bool, rng *rand.Rand) (common.Hash, error) {
	s, err := state.New(common.Hash{}, state.NewDatabase(ethdb.NewMemDatabase()))
	if err != nil {
		return common.Hash{}, err
	}
	idx := make([]int, 0, len(m.accts))
	for a := range m.accts {
		idx = append(idx, a)
	}
	sort.Ints(idx)
	rng.Shuffle(len(idx), func(i, j int) { idx[i], idx[j] = idx[j], idx[i] })
	for _, a := range idx {
		acc := m.accts[a]
		addr := w.addrs[a]
		s.AddBalance(addr, new(big.Int)) // creates the account
		if acc.bal.Sign() != 0 {
			s.SetBalance(addr, new(big.Int).Set(acc.bal))
		}
		if acc.nonce != 0 {
			s.SetNonce(addr, acc.nonce)
		}
		if len(acc.code) != 0 {
			s.SetCode(addr, acc.code)
		}
		ks := make([]int, 0, len(acc.storage))
		for k := range acc.storage {
			ks = append(ks, k)
		}
		sort.Ints(ks)
		for _, k := range ks {
			s.SetState(addr, w.skeys[k], common.Hash(acc.storage[k]))
		}
	}
	return s.Commit(deleteEmpty)
}

// counterfactual replays the surviving operations on a fresh StateDB and adds
// SetNonce(addr, 0) (no content change, but a journal entry that marks the
// address dirty) after every CreateAccount over an existing account; returns the
// last root, the state, its database and the number of such CreateAccount calls.
func (w *world) counterfactual(surv []*sop) (common.Hash, *state.StateDB, state.Database, int) {
	db := state.NewDatabase(ethdb.NewMemDatabase())
	s, err := state.New(common.Hash{}, db)
	if err != nil {
		return common.Hash{}, nil, nil, 0
	}
	var root common.Hash
	n := 0
	for _, o := range surv {
		switch o.Kind {
		case "IntermediateRoot":
			root = s.IntermediateRoot(o.Flag)
		case "Commit":
			root, _ = s.Commit(o.Flag)
		case "CreateAccount":
			a := w.addrs[o.A]
			existed := s.Exist(a)
			w.applyIn(s, o)
			if existed {
				s.SetNonce(a, 0)
				n++
			}
		default:
			w.applyIn(s, o)
		}
	}
	return root, s, db, n
}

// counterfactualRef: the same replay on the reference StateDB.
func (w *world) counterfactualRef(surv []*sop) (refcommon.Hash, int) {
	s, err := refstate.New(refcommon.Hash{}, refstate.NewDatabase(refethdb.NewMemDatabase()))
	if err != nil {
		return refcommon.Hash{}, 0
	}
	var root refcommon.Hash
	n := 0
	for _, o := range surv {
		switch o.Kind {
		case "IntermediateRoot":
			root = s.IntermediateRoot(o.Flag)
		case "Commit":
			root, _ = s.Commit(o.Flag)
		case "CreateAccount":
			a := refcommon.Address(w.addrs[o.A])
			existed := s.Exist(a)
			w.applyRef(s, o)
			if existed {
				s.SetNonce(a, 0)
				n++
			}
		default:
			w.applyRef(s, o)
		}
	}
	return root, n
}

// explained: does the counterfactual run agree with the model at this stage?
func (w *world) explained(surv []*sop, m *model, stage string) (ok bool) {
	defer func() {
		if recover() != nil {
			ok = false
		}
	}()
	root, s, db, n := w.counterfactual(surv)
	if n == 0 || s == nil {
		return false
	}
	if strings.HasPrefix(stage, "reopen") {
		re, err := state.New(root, db)
		if err != nil {
			return false
		}
		s = re
	}
	return w.compare(s, m, false, false, nil) == nil
}

// ---- generation ----

var mutKinds = []string{"AddBalance", "AddBalance", "SubBalance", "SetBalance", "SetNonce", "SetCode", "SetState", "SetState", "SetState", "Suicide", "CreateAccount", "AddLog", "AddRefund", "SubRefund", "AddPreimage"}
var readKinds = []string{"Exist", "Empty", "GetBalance", "GetNonce", "GetCode", "GetCodeSize", "GetCodeHash", "GetState", "HasSuicided"}

func genAmount(rng *rand.Rand) *big.Int {
	switch rng.Intn(6) {
	case 0:
		return new(big.Int)
	case 1:
		return big.NewInt(int64(1 + rng.Intn(3)))
	case 2:
		return big.NewInt(int64(rng.Intn(1 << 30)))
	case 3:
		return new(big.Int).Lsh(big.NewInt(1), uint(64+rng.Intn(150)))
	case 4:
		b := make([]byte, 1+rng.Intn(31))
		rng.Read(b)
		return new(big.Int).SetBytes(b)
	}
	return big.NewInt(127 + int64(rng.Intn(3))) // 0x7f/0x80 rlp boundary
}

func genCode(rng *rand.Rand) []byte {
	var n int
	switch rng.Intn(8) {
	case 0:
		n = 0
	case 1:
		n = 1
	case 2:
		n = 31 + rng.Intn(3)
	case 3:
		n = 500 + rng.Intn(2000)
	case 4:
		n = 24576 + rng.Intn(3)
	default:
		n = 2 + rng.Intn(100)
	}
	c := make([]byte, n)
	rng.Read(c)
	return c
}

func genStorageVal(rng *rand.Rand) (v [32]byte) {
	switch rng.Intn(7) {
	case 0: // zero: deletes the slot
	case 1:
		v[31] = byte(1 + rng.Intn(255))
	case 2:
		v[31] = byte(0x7f + rng.Intn(2))
	case 3:
		rng.Read(v[:])
		v[0] |= 1
	case 4:
		rng.Read(v[16+rng.Intn(15):]) // leading zero bytes are trimmed
	case 5:
		v[0] = byte(1 + rng.Intn(255)) // trailing zeros
	default:
		rng.Read(v[:])
	}
	return v
}

// ---- one StateDB case: monitor (f) ----

type stateCase struct {
	No   int
	Flag bool
	// BareCreate: CreateAccount over an existing account is not followed by
	// anything (1 history in 8); otherwise SetNonce(addr, 1) follows, as in evm.create.
	BareCreate bool
	w          *world
	trace      []string // every step taken, for the witness
}

func (c *stateCase) witness(extra map[string]interface{}) map[string]interface{} {
	addrs := map[string]string{}
	for i, a := range c.w.addrs {
		addrs[fmt.Sprintf("a%d", i)] = fmt.Sprintf("%x", a)
	}
	keys := map[string]string{}
	for i, k := range c.w.skeys {
		keys[fmt.Sprintf("k%d", i)] = fmt.Sprintf("%x", k)
	}
	tr := c.trace
	if len(tr) > 600 {
		tr = append([]string{fmt.Sprintf("... %d earlier steps omitted", len(tr)-600)}, tr[len(tr)-600:]...)
	}
	wit := map[string]interface{}{
		"case": c.No, "seed": lib.Seed(), "tier": lib.Tier(), "delete_empty_objects": c.Flag, "bare_create_account": c.BareCreate,
		"regenerate": fmt.Sprintf("VERIF_SEED=%d ./check C11 %s -state-case %d", lib.Seed(), lib.Tier(), c.No),
		"addresses":  addrs, "storage_keys": keys, "steps": tr,
	}
	for k, v := range extra {
		wit[k] = v
	}
	return wit
}

func runStateCase(no int) {
	rng := lib.Rand("c11-state", int64(no))
	w := &world{}
	na := 3 + rng.Intn(10)
	for i := 0; i < na; i++ {
		var a common.Address
		rng.Read(a[:])
		if i == 1 && rng.Intn(2) == 0 {
			a = common.Address{} // the zero address
		}
		w.addrs = append(w.addrs, a)
	}
	nk := 2 + rng.Intn(8)
	for i := 0; i < nk; i++ {
		var k common.Hash
		switch {
		case i == 0:
		case i < 3:
			k[31] = byte(i)
		default:
			rng.Read(k[:])
		}
		w.skeys = append(w.skeys, k)
	}
	c := &stateCase{No: no, Flag: no%2 == 0, w: w, BareCreate: no%8 == 5}
	cnt := ctr{}
	defer cnt.flush()
	run.Eval()
	guard("f/statedb", func() interface{} { return c.witness(nil) }, func() { stateMonitor(c, rng, cnt) })
}

type snapEntry struct {
	id      int
	m       *model
	pending int
}

func stateMonitor(c *stateCase, rng *rand.Rand, cnt ctr) {
	w := c.w
	F := c.Flag
	cnt.add("state_histories", 1)
	if F {
		cnt.add("state_histories_delete_empty_true", 1)
	} else {
		cnt.add("state_histories_delete_empty_false", 1)
	}
	disk := ethdb.NewMemDatabase()
	sdbDB := state.NewDatabase(disk)
	sdb, err := state.New(common.Hash{}, sdbDB)
	if err != nil {
		panic(err)
	}
	rdisk := refethdb.NewMemDatabase()
	rdbDB := refstate.NewDatabase(rdisk)
	rdb, _ := refstate.New(refcommon.Hash{}, rdbDB)

	m := newModel()
	var snaps []snapEntry
	var surv []*sop // all surviving operations of the history (reverted ones are cut off)
	fed := 0        // how many of them the reference has been given
	// per address: the kind of the last surviving mutating operation (for class keys)
	lastOp := map[int]string{}
	createdOver := map[int]bool{} // CreateAccount hit an existing account since the last finalisation
	type lastSnap struct {
		lastOp      map[int]string
		createdOver map[int]bool
	}
	var diag []lastSnap
	cpS := func(x map[int]string) map[int]string {
		o := map[int]string{}
		for k, v := range x {
			o[k] = v
		}
		return o
	}
	cpB := func(x map[int]bool) map[int]bool {
		o := map[int]bool{}
		for k, v := range x {
			o[k] = v
		}
		return o
	}
	step := func(s string) { c.trace = append(c.trace, s) }
	failed := false
	const quirkKey = "f/CreateAccount-over-existing-account-not-marked-dirty"
	report := func(stage string, mm *mismatch) {
		failed = true
		if mm.Addr >= 0 && w.explained(surv, m, stage) {
			run.Violation(quirkKey, fmt.Sprintf("StateDB %s: %s. The same surviving operations with SetNonce(addr, 0) added after every CreateAccount over an existing account match the model: CreateAccount over an existing account leaves the address clean, so IntermediateRoot/Commit neither write the reset account nor delete it when it is empty.", stage, mm.What), c.witness(map[string]interface{}{"stage": stage, "mismatch": mm.What}))
			return
		}
		ctx := ""
		if mm.Addr >= 0 {
			ctx = fmt.Sprintf(" (last surviving operation on a%d since the last finalisation: %q)", mm.Addr, lastOp[mm.Addr])
		}
		run.Violation("f/"+stage+"/"+mm.Field, fmt.Sprintf("StateDB %s: %s%s", stage, mm.What, ctx), c.witness(map[string]interface{}{"stage": stage, "mismatch": mm.What}))
	}
	rlpQuirk := ""
	reportQuirk := func() {
		if rlpQuirk != "" {
			run.Violation("f/ForEachStorage-yields-rlp-encoded-value", rlpQuirk, c.witness(nil))
			cnt.add("foreachstorage_rlp_values", 1)
			rlpQuirk = "reported"
		}
	}
	defer reportQuirk()
	check := func(stage string, storageIter bool) bool {
		cnt.add("model_comparisons", 1)
		if mm := w.compare(sdb, m, true, storageIter, nil); mm != nil {
			report(stage, mm)
			return false
		}
		return true
	}
	txCounter := 0
	maxDepth := 0
	flushRef := func() {
		for _, o := range surv[fed:] {
			w.applyRef(rdb, o)
			cnt.add("surviving_ops_fed_to_reference", 1)
		}
		fed = len(surv)
	}
	// finalisation point: IntermediateRoot or Commit, on both implementations
	finalise := func(commit bool, last bool) bool {
		if !check("before-finalise", false) {
			return false
		}
		flushRef()
		var root common.Hash
		var rroot refcommon.Hash
		name := "IntermediateRoot"
		if commit {
			name = "Commit"
			var err error
			root, err = sdb.Commit(F)
			if err != nil {
				failed = true
				run.Violation("f/commit-error", err.Error(), c.witness(nil))
				return false
			}
			rroot, _ = rdb.Commit(F)
			cnt.add("commits", 1)
		} else {
			root = sdb.IntermediateRoot(F)
			rroot = rdb.IntermediateRoot(F)
			cnt.add("intermediate_roots", 1)
		}
		step(fmt.Sprintf("%s(%v) -> %x", name, F, root))
		snaps, diag = nil, nil
		cnt.add("state_roots_compared_with_reference", 1)
		if common.Hash(rroot) != root {
			failed = true
			key := "f/" + name + "-root-differs-from-reference"
			what := fmt.Sprintf("%s(%v) = %x, reference StateDB fed the surviving operations = %x", name, F, root, rroot)
			if cf, n := w.counterfactualRef(append(surv, &sop{Kind: name, Flag: F})); n > 0 && common.Hash(cf) == root {
				// only possible on a tree where CreateAccount over an existing account marks the address dirty
				key = "f/reference-root-differs-only-because-reference-leaves-CreateAccount-over-existing-account-clean"
				what += "; the reference agrees once it is given SetNonce(addr, 0) after every CreateAccount over an existing account"
			}
			run.Violation(key, what, c.witness(nil))
			return false
		}
		surv = append(surv, &sop{Kind: name, Flag: F})
		fed = len(surv)
		m.finalise(F)
		if !check("after-"+name, false) {
			return false
		}
		// the root is a function of the content: rebuild from the model
		if commit || rng.Intn(3) == 0 {
			rb, err := w.rebuildRoot(m, F, rng)
			cnt.add("state_roots_compared_with_rebuild", 1)
			if err != nil || rb != root {
				failed = true
				// attribution by a counterfactual run: the same surviving operations on a
				// fresh StateDB, with an explicit SetNonce(addr, 0) (no content change, but a
				// journal entry that marks the address dirty) after every CreateAccount that
				// hits an existing account.
				key := "f/" + name + "-root-differs-from-rebuilt-content"
				if cf, _, _, n := w.counterfactual(surv); n > 0 && cf == rb {
					key = quirkKey
				}
				run.Violation(key, fmt.Sprintf("%s(%v) = %x, a fresh StateDB given the same content = %x (%v)", name, F, root, rb, err), c.witness(map[string]interface{}{"content": modelStrings(m, w)}))
				return false
			}
		}
		if commit {
			// reopen at the root on the same database
			re, err := state.New(root, sdbDB)
			if err != nil {
				failed = true
				run.Violation("f/reopen-same-db/open-error", err.Error(), c.witness(nil))
				return false
			}
			cnt.add("state_reopens", 1)
			if mm := w.compare(re, m, false, true, &rlpQuirk); mm != nil {
				report("reopen-same-db", mm)
				return false
			}
			if last || rng.Intn(2) == 0 {
				if err := sdbDB.TrieDB().Commit(root, false); err != nil {
					failed = true
					run.Violation("f/triedb-commit-error", err.Error(), c.witness(nil))
					return false
				}
				rdbDB.TrieDB().Commit(rroot, false)
				step("TrieDB().Commit(root)")
				fresh := state.NewDatabase(disk)
				re2, err := state.New(root, fresh)
				if err != nil {
					failed = true
					run.Violation("f/reopen-from-disk/open-error", err.Error(), c.witness(nil))
					return false
				}
				cnt.add("state_reopens_from_disk", 1)
				if mm := w.compare(re2, m, false, true, &rlpQuirk); mm != nil {
					report("reopen-from-disk", mm)
					return false
				}
				if !last && rng.Intn(2) == 0 {
					// next "block" on the fresh database, as the application does
					sdbDB, sdb = fresh, re2
					rdbDB = refstate.NewDatabase(rdisk)
					rdb, _ = refstate.New(rroot, rdbDB)
					m.logs, m.logSize, m.preimages = map[[32]byte][]mlog{}, 0, map[[32]byte][]byte{}
					step("continue on state.New(root, fresh database over the disk)")
					cnt.add("continue_on_fresh_database", 1)
				}
			} else if rng.Intn(2) == 0 {
				sdb = re
				rdb, _ = refstate.New(rroot, rdbDB)
				m.logs, m.logSize, m.preimages = map[[32]byte][]mlog{}, 0, map[[32]byte][]byte{}
				step("continue on state.New(root, same database)")
				cnt.add("continue_on_reopened_state", 1)
			}
		}
		lastOp = map[int]string{}
		createdOver = map[int]bool{}
		// new transaction context
		txCounter++
		var th [32]byte
		copy(th[:], crypto.Keccak256([]byte(fmt.Sprintf("tx-%d-%d", c.No, txCounter))))
		o := &sop{Kind: "Prepare", Hash: th, TxIdx: txCounter}
		w.applyIn(sdb, o)
		m.apply(o)
		surv = append(surv, o)
		return true
	}

	n := numOps(rng)
	pSnap, pRevert, pFinal := 8, 6, 3
	if n < 30 {
		pFinal = 8
	}
	if c.No%5 == 0 { // snapshot-heavy histories
		pSnap, pRevert = 18, 14
	}
	if c.No%7 == 3 { // a single block: no finalisation before the end (as the application runs a block)
		pFinal = 0
	}
	for i := 0; i < n && !failed; i++ {
		r := rng.Intn(100)
		switch {
		case r < pSnap:
			id := sdb.Snapshot()
			snaps = append(snaps, snapEntry{id: id, m: m.copy(), pending: len(surv)})
			diag = append(diag, lastSnap{cpS(lastOp), cpB(createdOver)})
			step(fmt.Sprintf("Snapshot #%d", id))
			cnt.add("snapshots", 1)
			if len(snaps) > 1 {
				cnt.add("snapshots_nested", 1)
			}
			if len(snaps) > maxDepth {
				maxDepth = len(snaps)
				run.Distinct("snapshot_depths", fmt.Sprint(maxDepth))
			}
		case r < pSnap+pRevert:
			if len(snaps) == 0 {
				continue
			}
			j := len(snaps) - 1
			if rng.Intn(3) == 0 {
				j = rng.Intn(len(snaps)) // revert through several nested snapshots at once
			}
			undone := len(surv) - snaps[j].pending
			sdb.RevertToSnapshot(snaps[j].id)
			step(fmt.Sprintf("RevertToSnapshot #%d (undoes %d operations, %d snapshots)", snaps[j].id, undone, len(snaps)-j))
			m = snaps[j].m
			surv = surv[:snaps[j].pending]
			lastOp, createdOver = diag[j].lastOp, diag[j].createdOver
			if len(snaps)-j > 1 {
				cnt.add("reverts_through_nested_snapshots", 1)
			}
			snaps, diag = snaps[:j], diag[:j]
			cnt.add("reverts", 1)
			cnt.add("operations_reverted", int64(undone))
			if !check("after-revert", false) {
				return
			}
		case r < pSnap+pRevert+pFinal:
			if !finalise(rng.Intn(2) == 0, false) {
				return
			}
		case r < pSnap+pRevert+pFinal+18:
			// read
			o := &sop{Kind: readKinds[rng.Intn(len(readKinds))], A: rng.Intn(len(w.addrs)), S: rng.Intn(len(w.skeys))}
			cnt.add("reads", 1)
			a := w.addrs[o.A]
			acc, ok := m.accts[o.A]
			if !ok {
				acc = &macct{bal: new(big.Int)}
			}
			var got, want interface{}
			switch o.Kind {
			case "Exist":
				got, want = sdb.Exist(a), ok
			case "Empty":
				got, want = sdb.Empty(a), !ok || acc.empty()
			case "GetBalance":
				got, want = sdb.GetBalance(a).String(), acc.bal.String()
			case "GetNonce":
				got, want = sdb.GetNonce(a), acc.nonce
			case "GetCode":
				got, want = hx(sdb.GetCode(a)), hx(acc.code)
			case "GetCodeSize":
				got, want = sdb.GetCodeSize(a), len(acc.code)
			case "GetCodeHash":
				h := common.Hash{}
				if ok {
					h = crypto.Keccak256Hash(acc.code)
				}
				got, want = sdb.GetCodeHash(a), h
			case "GetState":
				got, want = sdb.GetState(a, w.skeys[o.S]), common.Hash(acc.storage[o.S])
			case "HasSuicided":
				got, want = sdb.HasSuicided(a), acc.suicided
			}
			step(o.String())
			if got != want {
				report("read", &mismatch{o.Kind, o.A, fmt.Sprintf("%s = %v, model %v", o, got, want)})
				return
			}
		default:
			o := &sop{Kind: mutKinds[rng.Intn(len(mutKinds))], A: rng.Intn(len(w.addrs)), S: rng.Intn(len(w.skeys))}
			if rng.Intn(3) != 0 && len(m.accts) > 0 && (o.Kind == "Suicide" || o.Kind == "CreateAccount" || o.Kind == "SubBalance" || o.Kind == "SetState") {
				// prefer existing accounts for operations that are only interesting there
				ex := make([]int, 0, len(m.accts))
				for a := range m.accts {
					ex = append(ex, a)
				}
				sort.Ints(ex)
				o.A = ex[rng.Intn(len(ex))]
			}
			switch o.Kind {
			case "AddBalance", "SetBalance":
				o.Amount = genAmount(rng)
			case "SubBalance":
				bal := new(big.Int)
				if acc, ok := m.accts[o.A]; ok {
					bal = acc.bal
				}
				switch rng.Intn(3) {
				case 0:
					o.Amount = new(big.Int).Set(bal) // down to zero: the account may become empty
				case 1:
					o.Amount = new(big.Int)
				default:
					o.Amount = new(big.Int).Div(bal, big.NewInt(int64(1+rng.Intn(4))))
				}
			case "SetNonce":
				o.Nonce = []uint64{0, 1, 2, 127, 128, 1 << 40, ^uint64(0)}[rng.Intn(7)]
			case "SetCode":
				o.Code = genCode(rng)
			case "SetState":
				o.Val = genStorageVal(rng)
				if acc, ok := m.accts[o.A]; ok && rng.Intn(6) == 0 {
					o.Val = acc.storage[o.S] // same value: no journal entry
				}
			case "AddLog":
				o.Topics = rng.Intn(4)
				o.Data = make([]byte, rng.Intn(40))
				rng.Read(o.Data)
			case "AddRefund":
				o.Gas = uint64(rng.Intn(50000))
			case "SubRefund":
				if m.refund == 0 {
					continue
				}
				o.Gas = uint64(rng.Int63n(int64(m.refund) + 1))
			case "AddPreimage":
				o.Data = make([]byte, 1+rng.Intn(40))
				rng.Read(o.Data)
				if len(m.preimages) > 0 && rng.Intn(3) == 0 {
					hs := make([]string, 0) // an already known hash: the call is ignored
					for h := range m.preimages {
						hs = append(hs, string(h[:]))
					}
					sort.Strings(hs)
					copy(o.Hash[:], hs[rng.Intn(len(hs))])
				} else {
					copy(o.Hash[:], crypto.Keccak256(o.Data))
				}
			}
			_, existed := m.accts[o.A]
			step(o.String())
			cnt.add("ops_"+o.Kind, 1)
			ret := w.applyIn(sdb, o)
			want := m.apply(o)
			surv = append(surv, o)
			if o.Kind == "CreateAccount" && existed && !c.BareCreate {
				// as the EVM's create does (post-EIP-158): the new account's nonce is set right away
				o2 := &sop{Kind: "SetNonce", A: o.A, Nonce: 1}
				step(o2.String() + "   (EVM-like create)")
				w.applyIn(sdb, o2)
				m.apply(o2)
				surv = append(surv, o2)
			}
			switch o.Kind {
			case "AddLog", "AddRefund", "SubRefund", "AddPreimage":
			default:
				lastOp[o.A] = o.Kind
				if o.Kind == "CreateAccount" && existed {
					createdOver[o.A] = true
					cnt.add("ops_CreateAccount_over_existing", 1)
					if c.BareCreate {
						cnt.add("ops_CreateAccount_over_existing_bare", 1)
					}
				}
				if o.Kind == "Suicide" && !existed {
					delete(lastOp, o.A)
				}
			}
			if o.Kind == "Suicide" && ret != want {
				report("op-result", &mismatch{"Suicide-return", o.A, fmt.Sprintf("Suicide(a%d) returned %v, model %v", o.A, ret, want)})
				return
			}
			if rng.Intn(12) == 0 {
				if !check("after-op", false) {
					return
				}
			}
		}
	}
	if failed {
		return
	}
	// end of history: commit, reopen from both databases
	if !finalise(true, true) {
		return
	}
	run.Nontrivial(fmt.Sprintf("state:%d", c.No))
	if c.No < 2 {
		tr := c.trace
		if len(tr) > 14 {
			tr = tr[:14]
		}
		run.Sample(map[string]interface{}{"monitor": "statedb", "case": c.No, "delete_empty_objects": F, "first_steps": tr, "final_accounts": len(m.accts)})
	}
}

func modelStrings(m *model, w *world) []string {
	var out []string
	idx := make([]int, 0)
	for a := range m.accts {
		idx = append(idx, a)
	}
	sort.Ints(idx)
	for _, a := range idx {
		acc := m.accts[a]
		s := fmt.Sprintf("a%d nonce=%d balance=%v code=<%d bytes> suicided=%v", a, acc.nonce, acc.bal, len(acc.code), acc.suicided)
		ks := make([]int, 0)
		for k := range acc.storage {
			ks = append(ks, k)
		}
		sort.Ints(ks)
		for _, k := range ks {
			s += fmt.Sprintf(" k%d=%x", k, acc.storage[k])
		}
		out = append(out, s)
	}
	return out
}
