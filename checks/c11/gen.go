package main

import (
	"bytes"
	"encoding/hex"
	"fmt"
	"math/rand"
	"runtime"
	"sort"
	"strings"
)

// ---- local counters (flushed into the run once per case) ----

type ctr map[string]int64

func (c ctr) add(k string, n int64) { c[k] += n }

func (c ctr) flush() {
	for k, v := range c {
		run.Count(k, v)
	}
}

// guard runs fn and turns a panic into a violation whose class names the
// monitor and the first frame inside the code under test.
func guard(monitor string, witness func() interface{}, fn func()) (panicked bool) {
	defer func() {
		if r := recover(); r != nil {
			panicked = true
			site := panicSite()
			run.Violation(monitor+"/panic@"+site, fmt.Sprintf("panic in %s: %v", monitor, r),
				map[string]interface{}{"panic": fmt.Sprint(r), "site": site, "case": witness()})
		}
	}()
	fn()
	return false
}

// panicSite returns "func:line" of the innermost frame that belongs to the
// repository under test (eth/...), seen from inside a deferred recover.
func panicSite() string {
	pcs := make([]uintptr, 64)
	n := runtime.Callers(3, pcs)
	frames := runtime.CallersFrames(pcs[:n])
	for {
		f, more := frames.Next()
		if strings.Contains(f.Function, "dappledger/AnnChain/") {
			fn := f.Function[strings.LastIndex(f.Function, "/")+1:]
			return fmt.Sprintf("%s:%d", fn, f.Line)
		}
		if !more {
			break
		}
	}
	return "unknown"
}

// ---- nibble helpers ----

func nibbles(k []byte) []byte {
	out := make([]byte, 0, len(k)*2)
	for _, b := range k {
		out = append(out, b>>4, b&15)
	}
	return out
}

func lcpNibbles(a, b []byte) int {
	na, nb := nibbles(a), nibbles(b)
	i := 0
	for i < len(na) && i < len(nb) && na[i] == nb[i] {
		i++
	}
	return i
}

func setNibble(k []byte, i int, v byte) {
	if i&1 == 0 {
		k[i/2] = k[i/2]&0x0f | v<<4
	} else {
		k[i/2] = k[i/2]&0xf0 | v&15
	}
}

func getNibble(k []byte, i int) byte {
	if i&1 == 0 {
		return k[i/2] >> 4
	}
	return k[i/2] & 15
}

func cp(b []byte) []byte {
	o := make([]byte, len(b))
	copy(o, b)
	return o
}

func hx(b []byte) string { return hex.EncodeToString(b) }

// ---- key pools ----

const (
	modeFixed32 = "fixed32" // 32-byte keys sharing nibble prefixes of every length
	modeVarLen  = "varlen"  // keys of 0..34 bytes, keys that are prefixes/extensions of other keys
	modeDense   = "dense"   // 1-2 byte keys over a tiny alphabet: full branches, embedded nodes
	modeSeq     = "seq"     // counters (8 byte big endian / 32 byte left padded)
)

var denseAlphabet = []byte{0x00, 0x01, 0x0f, 0x10, 0x11, 0x1f, 0x20, 0x80, 0xf0, 0xff}

// sibling returns a key of the same length as e that shares exactly L nibbles
// with e (L < 2*len(e)); the rest is random.
func sibling(rng *rand.Rand, e []byte, L int) []byte {
	k := make([]byte, len(e))
	rng.Read(k)
	for i := 0; i < L; i++ {
		setNibble(k, i, getNibble(e, i))
	}
	old := getNibble(e, L)
	nv := byte(rng.Intn(15))
	if nv >= old {
		nv++
	}
	setNibble(k, L, nv)
	return k
}

func genPool(rng *rand.Rand, mode string, n int, focusL int) [][]byte {
	seen := map[string]bool{}
	var pool [][]byte
	add := func(k []byte) {
		if !seen[string(k)] {
			seen[string(k)] = true
			pool = append(pool, k)
		}
	}
	switch mode {
	case modeFixed32:
		base := make([]byte, 32)
		rng.Read(base)
		add(base)
		if focusL < 64 {
			add(sibling(rng, base, focusL))
		}
		for tries := 0; len(pool) < n && tries < 4*n+8; tries++ {
			e := pool[rng.Intn(len(pool))]
			var L int
			switch rng.Intn(4) {
			case 0:
				L = rng.Intn(64)
			case 1:
				L = 48 + rng.Intn(16) // deep: short leaf remainders -> embedded nodes
			case 2:
				L = rng.Intn(6)
			default:
				L = focusL % 64
			}
			add(sibling(rng, e, L))
		}
	case modeVarLen:
		base := make([]byte, 1+rng.Intn(34))
		rng.Read(base)
		add(base)
		add([]byte{})
		for tries := 0; len(pool) < n && tries < 4*n+8; tries++ {
			e := pool[rng.Intn(len(pool))]
			switch rng.Intn(6) {
			case 0: // strict prefix of an existing key
				if len(e) > 0 {
					add(cp(e[:rng.Intn(len(e))]))
				}
			case 1: // extension of an existing key
				ext := make([]byte, 1+rng.Intn(3))
				rng.Read(ext)
				if rng.Intn(2) == 0 {
					ext[0] = denseAlphabet[rng.Intn(len(denseAlphabet))]
				}
				if len(e)+len(ext) <= 40 {
					add(append(cp(e), ext...))
				}
			case 2: // same length, shares L nibbles
				if len(e) > 0 {
					add(sibling(rng, e, rng.Intn(2*len(e))))
				}
			case 3: // short key over the tiny alphabet
				k := make([]byte, 1+rng.Intn(3))
				for i := range k {
					k[i] = denseAlphabet[rng.Intn(len(denseAlphabet))]
				}
				add(k)
			case 4:
				k := make([]byte, rng.Intn(35))
				rng.Read(k)
				add(k)
			default: // differs only in the last nibble / last byte
				if len(e) > 0 {
					k := cp(e)
					k[len(k)-1] ^= byte(1 << uint(rng.Intn(8)))
					add(k)
				}
			}
		}
	case modeDense:
		for tries := 0; len(pool) < n && tries < 6*n+8; tries++ {
			l := 1 + rng.Intn(2)
			if rng.Intn(8) == 0 {
				l = 3
			}
			k := make([]byte, l)
			for i := range k {
				if rng.Intn(3) == 0 {
					k[i] = byte(rng.Intn(16)) << 4 // all 16 first nibbles: full branches
				} else {
					k[i] = denseAlphabet[rng.Intn(len(denseAlphabet))]
				}
			}
			add(k)
		}
	default: // modeSeq
		width := 8
		if rng.Intn(2) == 0 {
			width = 32
		}
		start := uint64(rng.Intn(70000))
		step := uint64(1)
		if rng.Intn(3) == 0 {
			step = uint64(1 + rng.Intn(300))
		}
		for i := 0; len(pool) < n; i++ {
			k := make([]byte, width)
			v := start + uint64(i)*step
			for j := 0; j < 8; j++ {
				k[width-1-j] = byte(v >> (8 * uint(j)))
			}
			add(k)
		}
	}
	return pool
}

// ---- values ----

func genVal(rng *rand.Rand, allowHuge bool) []byte {
	var n int
	switch r := rng.Intn(100); {
	case r < 14:
		n = 1
	case r < 30:
		n = 2 + rng.Intn(29) // 2..30
	case r < 40:
		n = 31
	case r < 54:
		n = 32
	case r < 64:
		n = 33
	case r < 70:
		n = 55 + rng.Intn(2) // rlp short/long string boundary
	case r < 85:
		n = 34 + rng.Intn(200)
	case r < 96:
		n = 300 + rng.Intn(1200)
	default:
		n = 2000 + rng.Intn(4000)
		if allowHuge && rng.Intn(4) == 0 {
			n = 65000 + rng.Intn(3000) // beyond uint16 (cachedNode.size)
		}
	}
	v := make([]byte, n)
	switch rng.Intn(10) {
	case 0: // all zero bytes
	case 1:
		for i := range v {
			v[i] = 0x7f
		}
	case 2:
		for i := range v {
			v[i] = 0x80
		}
	default:
		rng.Read(v)
	}
	return v
}

// ---- trie histories ----

type top struct {
	Kind byte // 'u' update, 'd' delete, 'g' get
	Key  []byte
	Val  []byte // for 'u'; len 0 means delete (empty-value update)
}

func (o top) String() string {
	switch o.Kind {
	case 'u':
		if len(o.Val) > 40 {
			return fmt.Sprintf("update %s <%d bytes %s..>", hx(o.Key), len(o.Val), hx(o.Val[:8]))
		}
		return fmt.Sprintf("update %s %s", hx(o.Key), hx(o.Val))
	case 'd':
		return "delete " + hx(o.Key)
	}
	return "get " + hx(o.Key)
}

func opStrings(ops []top, max int) []string {
	var out []string
	for i, o := range ops {
		if i >= max {
			out = append(out, fmt.Sprintf("... %d more", len(ops)-max))
			break
		}
		out = append(out, o.String())
	}
	return out
}

func numOps(rng *rand.Rand) int {
	switch r := rng.Intn(100); {
	case r < 30:
		return 1 + rng.Intn(12)
	case r < 65:
		return 13 + rng.Intn(108)
	case r < 90:
		return 121 + rng.Intn(480)
	default:
		return 601 + rng.Intn(1400)
	}
}

// genOps: phases of growing / shrinking / churning over the pool.
func genOps(rng *rand.Rand, pool [][]byte, n int, allowHuge bool) []top {
	ops := make([]top, 0, n)
	present := map[string]bool{}
	var presentList [][]byte // may contain stale entries; filtered on use
	phaseLeft := 0
	var pu, pd int
	for len(ops) < n {
		if phaseLeft == 0 {
			phaseLeft = 1 + rng.Intn(n)
			switch rng.Intn(4) {
			case 0, 1:
				pu, pd = 80, 8 // grow
			case 2:
				pu, pd = 12, 78 // shrink: collapses branch -> short
			default:
				pu, pd = 45, 40 // churn
			}
		}
		phaseLeft--
		pick := func(wantPresent bool) []byte {
			if wantPresent && len(presentList) > 0 {
				for t := 0; t < 4; t++ {
					k := presentList[rng.Intn(len(presentList))]
					if present[string(k)] {
						return k
					}
				}
			}
			return pool[rng.Intn(len(pool))]
		}
		r := rng.Intn(100)
		switch {
		case r < pu:
			k := pick(rng.Intn(4) == 0) // 1/4: overwrite an existing key
			var v []byte
			if rng.Intn(20) != 0 {
				v = genVal(rng, allowHuge)
			}
			ops = append(ops, top{Kind: 'u', Key: k, Val: v})
			if len(v) > 0 {
				if !present[string(k)] {
					presentList = append(presentList, k)
				}
				present[string(k)] = true
			} else {
				delete(present, string(k))
			}
		case r < pu+pd:
			k := pick(rng.Intn(8) != 0) // mostly delete what exists
			ops = append(ops, top{Kind: 'd', Key: k})
			delete(present, string(k))
		default:
			ops = append(ops, top{Kind: 'g', Key: pick(rng.Intn(2) == 0)})
		}
	}
	return ops
}

func applyModel(m map[string][]byte, o top) {
	switch o.Kind {
	case 'u':
		if len(o.Val) == 0 {
			delete(m, string(o.Key))
		} else {
			m[string(o.Key)] = o.Val
		}
	case 'd':
		delete(m, string(o.Key))
	}
}

func sortedKeys(m map[string][]byte) []string {
	ks := make([]string, 0, len(m))
	for k := range m {
		ks = append(ks, k)
	}
	sort.Strings(ks)
	return ks
}

// absentCandidates: keys near the content that are not in it.
func absentCandidates(rng *rand.Rand, m map[string][]byte, pool [][]byte, fixedLen bool, max int) [][]byte {
	var out [][]byte
	seen := map[string]bool{}
	add := func(k []byte) {
		if _, in := m[string(k)]; !in && !seen[string(k)] && len(out) < max {
			seen[string(k)] = true
			out = append(out, k)
		}
	}
	for _, i := range rng.Perm(len(pool)) {
		add(pool[i])
		if len(out) >= max/2 {
			break
		}
	}
	ks := sortedKeys(m)
	for _, i := range rng.Perm(len(ks)) {
		if len(out) >= max {
			break
		}
		k := []byte(ks[i])
		if len(k) > 0 {
			f := cp(k)
			f[len(f)-1] ^= 1 // last nibble differs
			add(f)
			f2 := cp(k)
			f2[rng.Intn(len(f2))] ^= byte(1 << uint(rng.Intn(8)))
			add(f2)
		}
		if !fixedLen {
			if len(k) > 0 {
				add(cp(k[:len(k)-1])) // strict prefix
			}
			add(append(cp(k), 0x00)) // extension
			add(append(cp(k), byte(rng.Intn(256))))
		}
	}
	r := make([]byte, 32)
	rng.Read(r)
	add(r)
	if !fixedLen {
		add([]byte{})
	}
	return out
}

func eqBytes(a, b []byte) bool { return bytes.Equal(a, b) }
