// C11 — state trie and state DB: the root is a function of the content;
// commit / reopen / revert are exact; proofs verify.
//
// Monitors over the real in-tree eth/trie and eth/core/state:
//
//	(a) history independence: a random history of update/delete/get, a shuffled
//	    insert of its final content, the history with insert+delete noise, and
//	    the history with Hash/Commit/reopen-from-database sprinkled in all give
//	    the same root
//	(b) that root equals the reference go-ethereum v1.8.27 trie's root and the
//	    root of a sorted insert into a fresh trie
//	(c) Commit -> reopen at the root (same trie database; fresh trie database
//	    over a disk that only received Database.Commit output): every key reads
//	    back, absent keys read absent, the iterator yields exactly the content
//	(d) Prove/VerifyProof for present and absent keys; mutated proofs never
//	    yield a wrong value
//	(e) the same for SecureTrie
//	(f) StateDB against a map model with nested snapshots/reverts, against the
//	    reference StateDB fed the surviving operations, against a rebuild from
//	    the content, and against reopening after Commit.
package main

import (
	"flag"
	"fmt"
	"os"

	"github.com/dappledger/AnnChain/eth/common"
	"github.com/dappledger/AnnChain/eth/crypto"
	"github.com/dappledger/AnnChain/eth/ethdb"
	"github.com/dappledger/AnnChain/eth/rlp"
	"github.com/dappledger/AnnChain/eth/trie"
	glog "github.com/dappledger/AnnChain/gemmill/modules/go-log"
	"go.uber.org/zap"

	refcommon "github.com/ethereum/go-ethereum/common"
	refethdb "github.com/ethereum/go-ethereum/ethdb"
	reftrie "github.com/ethereum/go-ethereum/trie"

	"verif/lib"
)

var run *lib.Run

// guardProbes records (as evidence, not as a verdict) how the in-tree trie and
// the reference behave at the two places where eth/trie lacks a guard that
// go-ethereum v1.8.27 has. Neither input can be produced through the trie API
// from honest content, so C11 does not judge them.
func guardProbes() {
	try := func(fn func() string) (out string) {
		defer func() {
			if r := recover(); r != nil {
				out = fmt.Sprintf("panic: %v", r)
			}
		}()
		return fn()
	}
	// 1. encoding.go compactToHex(empty): a short node whose compact key is the empty string
	blob, _ := rlp.EncodeToBytes([]interface{}{[]byte{}, []byte("v")})
	h := crypto.Keccak256(blob)
	in1 := try(func() string {
		db := ethdb.NewMemDatabase()
		db.Put(h, blob)
		v, _, err := trie.VerifyProof(common.BytesToHash(h), []byte("k"), db)
		return fmt.Sprintf("value=%x err=%v", v, err)
	})
	ref1 := try(func() string {
		db := refethdb.NewMemDatabase()
		db.Put(h, blob)
		v, _, err := reftrie.VerifyProof(refcommon.BytesToHash(h), []byte("k"), db)
		return fmt.Sprintf("value=%x err=%v", v, err)
	})
	// 2. database.go Database.Node(common.Hash{}): the meta root
	in2 := try(func() string {
		b, err := trie.NewDatabase(ethdb.NewMemDatabase()).Node(common.Hash{})
		return fmt.Sprintf("blob=%x err=%v", b, err)
	})
	ref2 := try(func() string {
		b, err := reftrie.NewDatabase(refethdb.NewMemDatabase()).Node(refcommon.Hash{})
		return fmt.Sprintf("blob=%x err=%v", b, err)
	})
	run.Extra("guard_probe_short_node_with_empty_compact_key", map[string]string{"in_tree": in1, "reference": ref1})
	run.Extra("guard_probe_Database.Node_of_zero_hash", map[string]string{"in_tree": in2, "reference": ref2})
	fmt.Printf("guard probe (evidence only): VerifyProof over a short node with empty compact key: in-tree %q, reference %q\n", in1, ref1)
	fmt.Printf("guard probe (evidence only): Database.Node(zero hash): in-tree %q, reference %q\n", in2, ref2)
}

func main() {
	glog.SetLog(zap.NewNop())
	fs := flag.NewFlagSet("c11", flag.ExitOnError)
	oneTrie := fs.Int("trie-case", -1, "run only this trie case")
	oneSecure := fs.Bool("secure", false, "with -trie-case: the SecureTrie case")
	oneState := fs.Int("state-case", -1, "run only this StateDB case")
	fs.Parse(os.Args[1:])

	run = lib.NewRun("C11", "exploration")
	run.SetRule("Fixed case lists from VERIF_SEED and tier. Trie case i: key mode by i%8 (32-byte keys built as siblings sharing 0..63 nibbles, forced prefix length (i/8)%65; variable-length keys incl. the empty key and keys that are prefixes/extensions of other keys; dense 1-3 byte keys; counters), pool of 2..500 keys, 1..2000 update/delete/get operations in grow/shrink/churn phases, values of 0(=delete),1,2-30,31,32,33,55/56,34-233,300-1500,2000-6000 (68k rarely) bytes; every case runs monitors (a)-(d) (SecureTrie cases: the same as (e)). StateDB case j: 3-12 addresses, 2-9 storage slots, 1..2000 steps of AddBalance/SubBalance/SetBalance/SetNonce/SetCode/SetState/Suicide/CreateAccount/AddLog/AddRefund/SubRefund/AddPreimage, reads, nested Snapshot/RevertToSnapshot, IntermediateRoot/Commit(+TrieDB().Commit, continue on a reopened state); deleteEmptyObjects = (j even). Non-trivial: a trie case whose final content has >=2 keys or that deleted a present key; every completed StateDB case.")
	run.Assume(
		"the reference is go-ethereum v1.8.27 from the module cache (trie, core/state), linked into the same binary",
		"proof node sets are content addressed (key = keccak256(node)), as a verifier that hashes what it receives builds them; a node set that maps a hash to other bytes is outside the DatabaseReader contract",
		"deleteEmptyObjects is constant within one StateDB history (it is a chain rule, the application always passes true); address 0x03 (RIPEMD precompile, whose touch survives a revert on purpose) is not in the address pool",
		"the model follows EIP-161: an account is touched by every operation that creates or modifies it, touched accounts that are suicided (or empty, when deleteEmptyObjects) disappear at IntermediateRoot/Commit, which also zero the refund counter and invalidate snapshots",
		"trie shapes are observed by parsing the stored node encodings (read through trie.Database.Node) with a parser written in the check",
	)

	if *oneTrie >= 0 || *oneState >= 0 {
		// replay of a single case: do not overwrite the evidence of the full run
		scratch := ""
		if os.Getenv("VERIF_EVIDENCE_DIR") == "" {
			scratch = lib.Scratch("C11-replay")
			os.Setenv("VERIF_EVIDENCE_DIR", scratch)
		}
		if *oneTrie >= 0 {
			runTrieCase(*oneTrie, *oneSecure)
		} else {
			runStateCase(*oneState)
		}
		code := run.Finish()
		if scratch != "" {
			os.RemoveAll(scratch)
		}
		os.Exit(code)
	}

	guardProbes()
	fixedCases()

	nTrie := lib.Pick(9000, 150000)
	nSecure := lib.Pick(3000, 40000)
	nState := lib.Pick(6000, 80000)
	// interleave the three lists so that the work is spread evenly
	total := nTrie + nSecure + nState
	lib.Parallel(total, 16, func(i int) {
		switch {
		case i < nTrie:
			runTrieCase(i, false)
		case i < nTrie+nSecure:
			runTrieCase(i-nTrie, true)
		default:
			runStateCase(i - nTrie - nSecure)
		}
	})

	run.Require("trie_histories", int64(nTrie+nSecure))
	run.Require("state_histories", int64(nState))
	run.Require("lcp_nibbles_between_present_32byte_keys", 64) // shared prefixes of 0..63 nibbles (64 = same key, see ops_overwrite)
	run.Require("lcp_nibbles_between_present_keys", 70)        // longer ones come from variable-length keys
	run.Require("ops_overwrite", 1000)
	run.Require("present_key_is_prefix_of_present_key", 500)
	run.Require("ops_delete_present", 10000)
	run.Require("roots_compared_with_reference", int64(nTrie+nSecure))
	run.Require("reopen_reads", 50000)
	run.Require("iterations_complete", int64(nTrie+nSecure))
	run.Require("proofs_verified_present", 10000)
	run.Require("proofs_verified_absent", 10000)
	run.Require("mutated_proofs_rejected", 50000)
	run.Require("shape_embedded_nodes", 1000)
	run.Require("shape_embedded_full_nodes", 50)
	run.Require("shape_branch_values", 500)
	run.Require("trie_shapes", 100)
	run.Require("snapshots", 5000)
	run.Require("snapshots_nested", 1000)
	run.Require("reverts", 3000)
	run.Require("reverts_through_nested_snapshots", 200)
	run.Require("state_roots_compared_with_reference", int64(nState))
	run.Require("state_reopens_from_disk", int64(nState)/2)
	run.Require("ops_Suicide", 500)
	run.Require("ops_CreateAccount", 500)
	os.Exit(run.Finish())
}
