package main

import (
	"fmt"
	"math/big"

	"github.com/dappledger/AnnChain/eth/common"
	"github.com/dappledger/AnnChain/eth/core/state"
	"github.com/dappledger/AnnChain/eth/ethdb"
	"github.com/dappledger/AnnChain/eth/trie"
)

// fixedCases: hand-written minimal inputs, run before the generated lists so
// that the first witness of a class is as small as it can be. They use the same
// class keys as the generated cases and report only what they observe.
func fixedCases() {
	cnt := ctr{}
	defer cnt.flush()

	// 1. proof of absence in the empty trie
	guard("d/fixed-empty-trie", func() interface{} { return "fixed case 1" }, func() {
		run.Eval()
		t, _ := trie.New(common.Hash{}, trie.NewDatabase(ethdb.NewMemDatabase()))
		pdb := ethdb.NewMemDatabase()
		err := t.Prove([]byte("k"), 0, pdb)
		root := t.Hash()
		v, _, verr := trie.VerifyProof(root, []byte("k"), pdb)
		cnt.add("fixed_cases", 1)
		if err != nil || verr != nil || len(v) != 0 {
			run.Violation("d/absent-key-proof-of-empty-trie-does-not-verify",
				fmt.Sprintf("empty trie (root %x): Prove(\"k\") returns %v and stores %d nodes; VerifyProof(root, \"k\", nodes) = %x, %v", root, err, pdb.Len(), v, verr),
				map[string]interface{}{"steps": []string{"t := trie.New(common.Hash{}, trie.NewDatabase(memdb))", "t.Prove([]byte(\"k\"), 0, proofDb)", "trie.VerifyProof(t.Hash(), []byte(\"k\"), proofDb)"}})
		}
	})

	addr := common.HexToAddress("0x00000000000000000000000000000000000000aa")
	slot := common.HexToHash("0x01")
	val := common.HexToHash("0x80")

	// 2. CreateAccount over an existing account, nothing else, then Commit
	for _, F := range []bool{false, true} {
		F := F
		guard("f/fixed-create-over-existing", func() interface{} { return "fixed case 2" }, func() {
			run.Eval()
			cnt.add("fixed_cases", 1)
			db := state.NewDatabase(ethdb.NewMemDatabase())
			s, _ := state.New(common.Hash{}, db)
			s.SetNonce(addr, 7)
			s.SetState(addr, slot, val)
			r0, _ := s.Commit(F)
			s.CreateAccount(addr)
			liveNonce, liveSlot := s.GetNonce(addr), s.GetState(addr, slot)
			r1, _ := s.Commit(F)
			re, err := state.New(r1, db)
			if err != nil {
				run.Violation("f/reopen-same-db/open-error", err.Error(), nil)
				return
			}
			// what the content is according to the getters before the commit: nonce 0, no storage
			// (and, with deleteEmptyObjects, the now empty touched account is gone)
			okContent := re.GetNonce(addr) == 0 && re.GetState(addr, slot) == (common.Hash{}) && (!F || !re.Exist(addr))
			if liveNonce == 0 && liveSlot == (common.Hash{}) && !okContent {
				// counterfactual: the same with a journal entry that marks the address dirty
				db2 := state.NewDatabase(ethdb.NewMemDatabase())
				s2, _ := state.New(common.Hash{}, db2)
				s2.SetNonce(addr, 7)
				s2.SetState(addr, slot, val)
				s2.Commit(F)
				s2.CreateAccount(addr)
				s2.SetNonce(addr, 0)
				r2, _ := s2.Commit(F)
				re2, _ := state.New(r2, db2)
				key := "f/reopen-same-db/nonce"
				if re2 != nil && re2.GetNonce(addr) == 0 && re2.GetState(addr, slot) == (common.Hash{}) && (!F || !re2.Exist(addr)) {
					key = "f/CreateAccount-over-existing-account-not-marked-dirty"
				}
				run.Violation(key,
					fmt.Sprintf("deleteEmptyObjects=%v: after CreateAccount over an existing account the live StateDB reads nonce %d / slot %x, but Commit returns the unchanged root (%x == %x: %v) and a StateDB reopened there reads nonce %d / slot %x / Exist %v", F, liveNonce, liveSlot, r1, r0, r1 == r0, re.GetNonce(addr), re.GetState(addr, slot), re.Exist(addr)),
					map[string]interface{}{"delete_empty_objects": F, "steps": []string{
						"s := state.New(common.Hash{}, state.NewDatabase(memdb))",
						"s.SetNonce(0x..aa, 7)", "s.SetState(0x..aa, 0x01, 0x80)", fmt.Sprintf("r0 := s.Commit(%v)", F),
						"s.CreateAccount(0x..aa)   // live getters now: nonce 0, slot 0",
						fmt.Sprintf("r1 := s.Commit(%v)     // == r0", F),
						"state.New(r1, db).GetNonce(0x..aa)   // 7, expected 0"}})
			}
		})
	}

	// 3. ForEachStorage after commit + reopen
	guard("f/fixed-foreachstorage", func() interface{} { return "fixed case 3" }, func() {
		run.Eval()
		cnt.add("fixed_cases", 1)
		db := state.NewDatabase(ethdb.NewMemDatabase())
		s, _ := state.New(common.Hash{}, db)
		s.SetBalance(addr, big.NewInt(1))
		s.SetState(addr, slot, val)
		r, _ := s.Commit(false)
		re, err := state.New(r, db)
		if err != nil {
			run.Violation("f/reopen-same-db/open-error", err.Error(), nil)
			return
		}
		var got []common.Hash
		re.ForEachStorage(addr, func(k, v common.Hash) bool {
			if k == slot {
				got = append(got, v)
			}
			return true
		})
		if len(got) != 1 || got[0] != val {
			key := "f/reopen-same-db/storage-iteration"
			if len(got) == 1 && got[0] == rlpOfSlot(val) && re.GetState(addr, slot) == val {
				key = "f/ForEachStorage-yields-rlp-encoded-value"
			}
			run.Violation(key, fmt.Sprintf("slot 0x01 was set to %x; after Commit and reopen GetState reads %x but ForEachStorage yields %x", val, re.GetState(addr, slot), got),
				map[string]interface{}{"steps": []string{"s.SetBalance(0x..aa, 1)", "s.SetState(0x..aa, 0x01, 0x80)", "r := s.Commit(false)", "state.New(r, db).ForEachStorage(0x..aa, cb)   // cb gets 0x8180"}})
		}
	})
}
