package main

import "verif/lib"

// Part B of C08: hostile input to the block-sync, mempool and peer-exchange
// reactors (child processes: a panic outside a recover domain kills the node).

// runReactorParts is called by main after the consensus-channel part.
func runReactorParts(run *lib.Run) {}

// reactorWorker is the child-process entry ("rworker" argument).
func reactorWorker(args []string) {}
