package main

// Part B of C08: hostile input to the block-sync, mempool and peer-exchange
// reactors and to the MConnection packet layer.
//
// Every scenario runs a REAL p2p.Switch with the real reactor(s) under test.
// The harness is the remote side of real TCP connections on 127.0.0.1: it does
// the secret-connection and node-info handshakes itself and then reads and
// writes msgPackets directly (rawPeer), so that every byte a peer can send is
// under its control. On the node's side the connection is handed to
// Switch.AddPeerWithConnection exactly as listenerRoutine does.
//
// Where a panic lands decides:
//   - inside a reactor's Receive (or anywhere below MConnection.recvRoutine):
//     recovered by MConnection._recover, the peer is dropped. Allowed; counted
//     with its site (observed through Reactor.RemovePeer's reason).
//   - anywhere else (fast-sync poolRoutine, requester routines, mempool
//     broadcast routines, PEX ensure-peers routine, a panic inside the recover
//     handler itself, the listener routine): the process dies. Scenarios run in
//     child processes; every hostile input is written to <out>.inputs before it
//     is sent, so the parent reports the crash site (class key) with the last
//     logged inputs as witness, then restarts a child behind the scenario that
//     died.
//   - the listener-routine part (AddPeerWithConnection) is called by the
//     harness, which recovers there to classify the site without losing the
//     child.

import (
	"bufio"
	"bytes"
	"errors"
	"fmt"
	"io"
	"io/ioutil"
	"net"
	"os"
	"path/filepath"
	"reflect"
	"runtime/debug"
	"runtime/pprof"
	"strconv"
	"strings"
	"sync"
	"sync/atomic"
	"syscall"
	"time"

	"github.com/spf13/viper"
	"go.uber.org/zap"

	crypto "github.com/dappledger/AnnChain/gemmill/go-crypto"
	wire "github.com/dappledger/AnnChain/gemmill/go-wire"
	gcmn "github.com/dappledger/AnnChain/gemmill/modules/go-common"
	glog "github.com/dappledger/AnnChain/gemmill/modules/go-log"
	"github.com/dappledger/AnnChain/gemmill/p2p"

	"verif/lib"
)

// ---- families ---------------------------------------------------------------------

type family struct {
	name     string
	children int                               // parallel child processes
	total    func() int                        // number of scenarios (fixed by tier)
	run      func(cr *childRun, sid int)       // one scenario, inside a child
	watchdog func(nScen int) time.Duration     // per child
	crashKey func(site, routine string) string // violation class for a dead child
	after    func(run *lib.Run, totalScen int) // Require()s in the parent
}

func families() []*family {
	return []*family{bcFamily(), mpFamily(), pexFamily(), connFamily()}
}

// ---- parent -----------------------------------------------------------------------

// runReactorParts is called by main after the consensus-channel part.
func runReactorParts(run *lib.Run) {
	self := os.Getenv("VERIF_SELF")
	if self == "" {
		self, _ = os.Executable()
	}
	dir := lib.Scratch(prop + "-r")
	defer lib.RemoveLater(dir)
	var wg sync.WaitGroup
	for _, f := range families() {
		n := f.total()
		for c := 0; c < f.children; c++ {
			wg.Add(1)
			go func(f *family, c, n int) {
				defer wg.Done()
				superviseChild(run, self, dir, f, c, n)
			}(f, c, n)
		}
	}
	wg.Wait()
	for _, f := range families() {
		f.after(run, f.total())
	}
	run.Extra("rule_part_b", "seeded scenario lists per reactor family, each scenario in a real p2p.Switch reached over real TCP connections whose remote side is the harness (own secret-connection and node-info handshake, raw msgPackets). bc: a real BlockchainReactor in fast sync, a 6-block source chain with real commits (1-7 validators), 49 mutations of the answer to a block request (every structural nil, wrong height/chain id, altered transactions with stale or fresh data hash, LastCommit for another block/height, exactly 2/3, non-validators, duplicated vote, nil or foreign signatures, forged first block with a second block that does not justify it, absurd counts and part totals, truncated/bit-flipped/length-inflated encodings, absurd status and request heights, raw bytes, unsolicited response floods while a block is executed, a bad block whose sender is dropped during verification) x target height 1/2/3 x honest peer silent or serving during the burst, plus mixed bursts from up to two hostile peers; non-trivial = hostile input delivered and the sync afterwards completed by the honest peer. mp: 16 kinds of hostile TxMessage/raw input against the real mempool reactor with a connected observer peer. pex: hostile listen addresses in the node info and 14 kinds of pexRequest/pexAddrs input against the real PEX reactor and address book. conn: 15 kinds of hostile msgPackets and handshake node-info messages against MConnection/Switch.")
	run.Assume("part B: a panic below MConnection.recvRoutine is recovered by the connection (peer dropped): allowed and counted with its site; every other panic kills the child process and is a violation keyed by crash site",
		"part B: the block verifier is what angine.go installs (ValidatorSet.VerifyCommit of a fixed validator set); the executer records, judges with the harness's own tally of precommit signatures, and saves to a real BlockStore",
		"part B progress bound: after the hostile peers disconnected, an honest peer that answers every request re-announces its height every 250 ms (stand-in for the 10 s status ticker) at most 160 times; the pool's own timers (250 ms request interval, 100 ms sync tick, 15 s peer timeout) run in real time",
		"part B mempool: the harness's block commit (Mempool.Update with everything reaped) comes 100 ms after the last transaction it removes was seen in the pool, as a commit in a running chain comes at least a consensus round later; an immediate Update is a schedule of the harness's own making that trips go-clist's WaitGroup reuse check in the broadcast routine",
		"part B: the two-minute address-book save ticker is only waited for in the thorough tier; AddrBook.Stop() blocks forever (BaseService.Stop calls OnStop before closing Quit) and angine.go never starts the book")
}

// superviseChild runs the scenarios c, c+children, c+2*children, ... of a family
// in a child process; when the child dies it reports the crash and starts a new
// child behind the scenario that was in flight.
func superviseChild(run *lib.Run, self, dir string, f *family, c, n int) {
	from := c
	for attempt := 0; from < n; attempt++ {
		if attempt > 12 {
			run.Inconclusive(fmt.Sprintf("%s child %d: more than 12 crashes, scenarios from %d on were not run", f.name, c, from))
			return
		}
		out := filepath.Join(dir, fmt.Sprintf("%s-%d-%d.json", f.name, c, attempt))
		logf := filepath.Join(dir, fmt.Sprintf("%s-%d-%d.log", f.name, c, attempt))
		nScen := (n - from + f.children - 1) / f.children
		wd := f.watchdog(nScen)
		output, timedOut, err := lib.RunCmd(wd, logf, nil, self, "rworker", f.name, out, strconv.Itoa(from), strconv.Itoa(f.children), strconv.Itoa(n))
		inputs, _ := ioutil.ReadFile(out + ".inputs")
		complete := false
		if b, e := ioutil.ReadFile(out); e == nil {
			complete = bytes.Contains(b, []byte(`"complete":true`))
			if ie := run.Import(out); ie != nil {
				run.Inconclusive(fmt.Sprintf("%s child %d: cannot import %s: %v", f.name, c, out, ie))
			}
		}
		if complete {
			return
		}
		inflight, lastInputs := inFlight(string(inputs))
		if timedOut {
			lib.WriteObservation(prop, fmt.Sprintf("watchdog-%s-child%d-scenario%d-seed%d", f.name, c, inflight, lib.Seed()), map[string]interface{}{"goroutine_dump": dumpFrom(output, 80000), "last_logged_inputs": lastInputs})
			run.Inconclusive(fmt.Sprintf("%s child %d hit the %v watchdog in scenario %d: %s", f.name, c, wd, inflight, tailLines(output, 6)))
			if inflight < 0 {
				return
			}
			from = inflight + f.children
			continue
		}
		// the node process died
		site, routine, crash := crashSite(output)
		key := f.crashKey(site, routine)
		run.Count(f.name+"_child_crashes", 1)
		run.Violation(key, fmt.Sprintf("%s scenario %d: the node process died (%v) in %s at %s; last inputs: %s", f.name, inflight, err, routine, site, tailLines(lastInputs, 3)),
			map[string]interface{}{"family": f.name, "scenario": inflight, "seed": lib.Seed(), "crash_site": site, "crashed_routine": routine, "crash_output": crash, "last_logged_inputs": lastInputs,
				"replay": fmt.Sprintf("VERIF_SEED=%d VERIF_TIER=%s bin/c08 rworker %s /tmp/out.json %d 1 %d", lib.Seed(), lib.Tier(), f.name, inflight, inflight+1)})
		if inflight < 0 {
			run.Inconclusive(fmt.Sprintf("%s child %d died before its first scenario: %s", f.name, c, tailLines(output, 6)))
			return
		}
		from = inflight + f.children
	}
}

// dumpFrom returns up to n bytes of a child's output starting at its SIGQUIT goroutine dump.
func dumpFrom(s string, n int) string {
	if i := strings.Index(s, "SIGQUIT"); i >= 0 {
		s = s[i:]
	}
	if len(s) > n {
		return s[:n]
	}
	return s
}

// inFlight parses the input log: the scenario that was begun and not ended, and
// the inputs logged for it.
func inFlight(log string) (int, string) {
	cur := -1
	var lines []string
	for _, l := range strings.Split(log, "\n") {
		if strings.HasPrefix(l, "BEGIN ") {
			cur, _ = strconv.Atoi(strings.Fields(l)[1])
			lines = lines[:0]
		} else if strings.HasPrefix(l, "END ") {
			// keep cur: a crash after END and before the next BEGIN belongs to background routines of that scenario
			lines = append(lines, l)
		} else if l != "" {
			lines = append(lines, l)
		}
	}
	if len(lines) > 40 {
		lines = lines[len(lines)-40:]
	}
	for i, l := range lines {
		if len(l) > 1500 {
			lines[i] = l[:1500] + "...(truncated)"
		}
	}
	return cur, strings.Join(lines, "\n")
}

// crashSite extracts, from a dead Go process's output, the innermost AnnChain
// frame of the panicking goroutine (class key) and the goroutine's entry
// function (which routine died).
func crashSite(output string) (site, routine, crash string) {
	i := strings.LastIndex(output, "\npanic: ")
	if j := strings.LastIndex(output, "fatal error: "); j > i {
		i = j
	}
	if i < 0 {
		if k := strings.LastIndex(output, "panic: "); k >= 0 {
			i = k
		} else {
			return "unknown", "unknown", tailLines(output, 30)
		}
	}
	crash = output[i:]
	if len(crash) > 12000 {
		crash = crash[:12000]
	}
	// first goroutine block
	g := crash
	if k := strings.Index(g, "\ngoroutine "); k >= 0 {
		g = g[k+1:]
		if e := strings.Index(g, "\n\n"); e >= 0 {
			g = g[:e]
		}
	}
	var kept []string
	for _, l := range strings.Split(g, "\n") {
		if strings.Contains(l, "go-common.Panic") || strings.Contains(l, "go-common.panicLog") {
			continue
		}
		kept = append(kept, l)
	}
	site = panicSite(strings.Join(kept, "\n"))
	routine = "unknown"
	for _, l := range kept {
		if strings.HasPrefix(l, "created by ") {
			routine = strings.TrimPrefix(l, "created by ")
			if k := strings.Index(routine, " in goroutine"); k >= 0 {
				routine = routine[:k]
			}
			if j := strings.LastIndex(routine, "AnnChain/"); j >= 0 {
				routine = routine[j+len("AnnChain/"):]
			}
		}
	}
	// the outermost AnnChain function of that goroutine says which routine it is
	for k := len(kept) - 1; k >= 0; k-- {
		l := kept[k]
		if strings.Contains(l, "AnnChain/") && !strings.HasPrefix(l, "\t") && !strings.HasPrefix(l, "created by") {
			if j := strings.LastIndex(l, "("); j > 0 {
				l = l[:j]
			}
			if j := strings.LastIndex(l, "AnnChain/"); j >= 0 {
				l = l[j+len("AnnChain/"):]
			}
			routine = l
			break
		}
	}
	return
}

// ---- child ------------------------------------------------------------------------

type childRun struct {
	run   *lib.Run
	fam   *family
	inlog *os.File
	base  string
	sid   int
	mtx   sync.Mutex
}

// logInput writes a hostile input to disk before it is delivered.
func (cr *childRun) logInput(who, desc string, ch byte, b []byte) {
	cr.mtx.Lock()
	if len(b) > 6000 {
		fmt.Fprintf(cr.inlog, "S%d %s ch=%02X %s len=%d head=%X\n", cr.sid, who, ch, desc, len(b), b[:6000])
	} else {
		fmt.Fprintf(cr.inlog, "S%d %s ch=%02X %s len=%d bytes=%X\n", cr.sid, who, ch, desc, len(b), b)
	}
	cr.mtx.Unlock()
}

func (cr *childRun) note(format string, a ...interface{}) {
	cr.mtx.Lock()
	fmt.Fprintf(cr.inlog, "S%d # %s\n", cr.sid, fmt.Sprintf(format, a...))
	cr.mtx.Unlock()
}

// reactorWorker is the child-process entry: rworker <family> <out> <from> <stride> <n>.
func reactorWorker(args []string) {
	if len(args) < 5 {
		fmt.Println("usage: rworker <family> <out> <from> <stride> <n>")
		os.Exit(2)
	}
	var lim syscall.Rlimit
	lim.Cur, lim.Max = 6<<30, 6<<30
	syscall.Setrlimit(syscall.RLIMIT_AS, &lim)
	glog.SetLog(zap.NewNop())
	glog.SetAuditLog(zap.NewNop())
	var fam *family
	for _, f := range families() {
		if f.name == args[0] {
			fam = f
		}
	}
	if fam == nil {
		fmt.Println("unknown family", args[0])
		os.Exit(2)
	}
	out := args[1]
	from, _ := strconv.Atoi(args[2])
	stride, _ := strconv.Atoi(args[3])
	n, _ := strconv.Atoi(args[4])
	if stride < 1 {
		stride = 1
	}
	run := lib.NewChildRun(prop)
	base := out + ".scratch" // inside the parent's scratch directory: removed there even if this process dies
	os.MkdirAll(base, 0755)
	defer os.RemoveAll(base)
	inlogPath := out + ".inputs"
	inlog, err := os.Create(inlogPath)
	if err != nil {
		fmt.Println("cannot create input log:", err)
		os.Exit(2)
	}
	cr := &childRun{run: run, fam: fam, inlog: inlog, base: base}
	for sid := from; sid < n; sid += stride {
		cr.sid = sid
		fmt.Fprintf(inlog, "BEGIN %d %s\n", sid, fam.name)
		run.Eval()
		t0 := time.Now()
		fam.run(cr, sid)
		if os.Getenv("C08B_TIMING") != "" {
			fmt.Printf("scenario %s %d took %v\n", fam.name, sid, time.Since(t0))
		}
		cr.mtx.Lock()
		fmt.Fprintf(inlog, "END %d\n", sid)
		cr.mtx.Unlock()
		run.ExportTo(out) // keep what was observed if a later scenario kills the process
	}
	// background routines of the last scenarios get a moment to die on their own
	time.Sleep(150 * time.Millisecond)
	inlog.Close()
	run.MarkComplete()
	if err := run.ExportTo(out); err != nil {
		fmt.Println("export failed:", err)
		os.RemoveAll(base)
		os.Exit(1)
	}
	os.Remove(inlogPath)
}

// ---- a node under test ---------------------------------------------------------------

// observer is a channel-less reactor on the node's switch: it sees why peers are removed.
type observer struct {
	p2p.BaseReactor
	cr      *childRun
	prefix  string
	added   int64
	removed int64
}

func newObserver(cr *childRun, prefix string) *observer {
	o := &observer{cr: cr, prefix: prefix}
	o.BaseReactor = *p2p.NewBaseReactor("VerifObserver", o)
	return o
}

func (o *observer) AddPeer(peer *p2p.Peer) { atomic.AddInt64(&o.added, 1) }

func (o *observer) RemovePeer(peer *p2p.Peer, reason interface{}) {
	atomic.AddInt64(&o.removed, 1)
	if se, ok := reason.(gcmn.StackError); ok {
		// a panic below recvRoutine/sendRoutine was recovered: the peer is dropped (allowed)
		o.cr.run.Count(o.prefix+"_panics_inside_connection_recover_domain", 1)
		o.cr.run.Distinct(o.prefix+"_recovered_panic_sites", stackSite(string(se.Stack)))
	} else if reason != nil {
		o.cr.run.Count(o.prefix+"_peers_dropped_with_error", 1)
	}
}

func stackSite(stack string) string {
	var kept []string
	for _, l := range strings.Split(stack, "\n") {
		if strings.Contains(l, "go-common.Panic") || strings.Contains(l, "go-common.panicLog") || strings.Contains(l, "_recover") || strings.Contains(l, "debug.Stack") {
			continue
		}
		kept = append(kept, l)
	}
	return panicSite(strings.Join(kept, "\n"))
}

type rnode struct {
	cr   *childRun
	sw   *p2p.Switch
	cfg  *viper.Viper
	obs  *observer
	priv crypto.PrivKeyEd25519
	pfx  string
}

// newRNode makes a switch for the node under test; the caller adds reactors and starts it.
func newRNode(cr *childRun, prefix string, cfg *viper.Viper, listenAddr string) *rnode {
	n := &rnode{cr: cr, cfg: cfg, pfx: prefix}
	n.sw = p2p.NewSwitch(cfg)
	n.priv = crypto.GenPrivKeyEd25519()
	n.sw.SetNodeInfo(&p2p.NodeInfo{PubKey: n.priv.PubKey(), Moniker: "node-under-test", Network: "c08", Version: "1.0.0", ListenAddr: listenAddr})
	n.sw.SetNodePrivKey(n.priv)
	n.obs = newObserver(cr, prefix)
	n.sw.AddReactor("VERIF-OBSERVER", n.obs)
	return n
}

// stop tears the node down. Teardown is not under test: Switch.Stop can block (RepeatTimer.Stop
// waits for a fire routine that waits for a reader that is gone), so it gets a bounded wait.
func (n *rnode) stop() {
	done := make(chan struct{})
	go func() {
		defer close(done)
		defer func() { recover() }()
		n.sw.Stop()
	}()
	select {
	case <-done:
	case <-time.After(5 * time.Second):
		n.cr.run.Count(n.pfx+"_teardown_abandoned", 1)
	}
}

// inbound does what Switch.listenerRoutine does with an accepted connection. That
// routine has no recover: a panic here kills a real node.
func (n *rnode) inbound(c net.Conn, what string) (err error) {
	defer func() {
		if r := recover(); r != nil {
			stack := string(debug.Stack())
			site := stackSite(stack)
			n.cr.run.ChildViolation("listener-routine-panic:"+site, fmt.Sprintf("%s scenario %d: %s made Switch.AddPeerWithConnection panic; the listener routine has no recover: the node dies: %v", n.cr.fam.name, n.cr.sid, what, r),
				map[string]interface{}{"scenario": n.cr.sid, "seed": lib.Seed(), "input": what, "panic": fmt.Sprint(r), "stack": stack})
			err = fmt.Errorf("panic: %v", r)
			c.Close()
		}
	}()
	_, err = n.sw.AddPeerWithConnection(c, false)
	return err
}

func tcpPair() (net.Conn, net.Conn, error) {
	l, err := net.Listen("tcp", "127.0.0.1:0")
	if err != nil {
		return nil, nil, err
	}
	defer l.Close()
	type acc struct {
		c net.Conn
		e error
	}
	ch := make(chan acc, 1)
	go func() {
		c, e := l.Accept()
		ch <- acc{c, e}
	}()
	c2, err := net.DialTimeout("tcp", l.Addr().String(), 5*time.Second)
	if err != nil {
		return nil, nil, err
	}
	a := <-ch
	if a.e != nil {
		c2.Close()
		return nil, nil, a.e
	}
	return a.c, c2, nil
}

// ---- the harness side of a connection ---------------------------------------------------

type xPacket struct {
	ChannelID byte
	EOF       byte
	Bytes     []byte
}

type inMsg struct {
	ch byte
	b  []byte
}

type rawPeer struct {
	name    string
	priv    crypto.PrivKeyEd25519
	info    *p2p.NodeInfo
	conn    net.Conn
	rd      *bufio.Reader
	wmtx    sync.Mutex
	in      chan inMsg
	closed  chan struct{}
	once    sync.Once
	recving map[byte][]byte
	theirs  *p2p.NodeInfo
}

func newIdentity(name string) (crypto.PrivKeyEd25519, *p2p.NodeInfo) {
	priv := crypto.GenPrivKeyEd25519FromSecret([]byte(name))
	return priv, &p2p.NodeInfo{PubKey: priv.PubKey(), Moniker: name, Network: "c08", Version: "1.0.0", ListenAddr: "127.0.0.1:1"}
}

// connect opens a connection to the node as peer `name` (handshakes included).
func (n *rnode) connect(name string, info *p2p.NodeInfo, priv crypto.PrivKeyEd25519) (*rawPeer, error) {
	return n.connectX(name, info, priv, nil)
}

// connectRetry is connect for a peer that comes back right after it was dropped: the
// node may still be removing the old connection ("Duplicate peer").
func (n *rnode) connectRetry(name string, info *p2p.NodeInfo, priv crypto.PrivKeyEd25519) (rp *rawPeer, err error) {
	for try := 0; try < 80; try++ {
		rp, err = n.connect(name, info, priv)
		if err == nil || !strings.Contains(err.Error(), "Duplicate") {
			return
		}
		time.Sleep(25 * time.Millisecond)
	}
	return
}

// connectX: infoBytes, when not nil, is written instead of the encoding of info.
func (n *rnode) connectX(name string, info *p2p.NodeInfo, priv crypto.PrivKeyEd25519, infoBytes []byte) (*rawPeer, error) {
	c1, c2, err := tcpPair()
	if err != nil {
		return nil, err
	}
	done := make(chan error, 1)
	go func() { done <- n.inbound(c1, fmt.Sprintf("peer %s with node info %+v", name, *info)) }()
	rp := &rawPeer{name: name, priv: priv, info: info, in: make(chan inMsg, 4096), closed: make(chan struct{}), recving: map[byte][]byte{}}
	fail := func(e error) (*rawPeer, error) {
		c2.Close()
		select {
		case <-done:
		case <-time.After(25 * time.Second):
		}
		return nil, e
	}
	c2.SetDeadline(time.Now().Add(20 * time.Second))
	sc, err := p2p.MakeSecretConnection(c2, priv)
	if err != nil {
		return fail(err)
	}
	// node info both ways
	theirs := new(p2p.NodeInfo)
	var e1, e2 error
	gcmn.Parallel(func() {
		var k int
		if infoBytes != nil {
			_, e1 = sc.Write(infoBytes)
			return
		}
		wire.WriteBinary(info, sc, &k, &e1)
	}, func() {
		var k int
		wire.ReadBinary(theirs, sc, 10240, &k, &e2)
	})
	if e1 != nil || e2 != nil {
		return fail(fmt.Errorf("node info exchange: %v %v", e1, e2))
	}
	// exchange data both ways
	gcmn.Parallel(func() {
		var k int
		wire.WriteBinary(&p2p.ExchangeData{}, sc, &k, &e1)
	}, func() {
		var k int
		wire.ReadBinary(new(p2p.ExchangeData), sc, 10240, &k, &e2)
	})
	if e1 != nil || e2 != nil {
		return fail(fmt.Errorf("exchange data: %v %v", e1, e2))
	}
	select {
	case e := <-done:
		if e != nil {
			c2.Close()
			return nil, e
		}
	case <-time.After(25 * time.Second):
		return fail(errors.New("node did not finish adding the peer"))
	}
	c2.SetDeadline(time.Time{})
	rp.conn, rp.rd, rp.theirs = sc, bufio.NewReaderSize(sc, 65536), theirs
	go rp.readLoop()
	return rp, nil
}

func (rp *rawPeer) close() {
	rp.once.Do(func() {
		close(rp.closed)
		rp.conn.Close()
	})
}

func (rp *rawPeer) isClosed() bool {
	select {
	case <-rp.closed:
		return true
	default:
		return false
	}
}

func (rp *rawPeer) readLoop() {
	defer rp.close()
	for {
		var n int
		var err error
		t := wire.ReadByte(rp.rd, &n, &err)
		if err != nil {
			return
		}
		switch t {
		case 0x01: // ping
			rp.writeRaw([]byte{0x02})
		case 0x02:
		case 0x03:
			pkt := wire.ReadBinary(xPacket{}, rp.rd, 0, &n, &err).(xPacket)
			if err != nil {
				return
			}
			rp.recving[pkt.ChannelID] = append(rp.recving[pkt.ChannelID], pkt.Bytes...)
			if pkt.EOF == 1 {
				m := inMsg{pkt.ChannelID, rp.recving[pkt.ChannelID]}
				rp.recving[pkt.ChannelID] = nil
				select {
				case rp.in <- m:
				default: // the harness does not keep up: drop (a peer may)
				}
			}
		default:
			return
		}
	}
}

func (rp *rawPeer) writeRaw(b []byte) error {
	rp.wmtx.Lock()
	defer rp.wmtx.Unlock()
	if rp.isClosed() {
		return io.ErrClosedPipe
	}
	rp.conn.SetWriteDeadline(time.Now().Add(10 * time.Second))
	_, err := rp.conn.Write(b)
	if err != nil {
		go rp.close()
	}
	return err
}

// send delivers a whole message on a channel as well-formed msgPackets.
func (rp *rawPeer) send(ch byte, msg []byte) error {
	var buf bytes.Buffer
	for {
		k := len(msg)
		if k > 1024 {
			k = 1024
		}
		eof := byte(0)
		if k == len(msg) {
			eof = 1
		}
		buf.WriteByte(0x03)
		buf.Write(wire.BinaryBytes(xPacket{ch, eof, msg[:k]}))
		msg = msg[k:]
		if eof == 1 {
			break
		}
	}
	return rp.writeRaw(buf.Bytes())
}

// waitClosed waits (bounded) until the node has dropped the connection.
func (rp *rawPeer) waitClosed(d time.Duration) bool {
	select {
	case <-rp.closed:
		return true
	case <-time.After(d):
		return false
	}
}

// ---- helpers ----------------------------------------------------------------------------

// rawValue makes a value whose go-wire encoding is exactly b (a byte array).
func rawValue(b []byte) interface{} {
	v := reflect.New(reflect.ArrayOf(len(b), reflect.TypeOf(byte(0)))).Elem()
	reflect.Copy(v, reflect.ValueOf(b))
	return v.Interface()
}

func goroutineDump(filter ...string) string {
	var buf bytes.Buffer
	pprof.Lookup("goroutine").WriteTo(&buf, 2)
	// one representative per (state, stack of function names), with a count
	type rep struct {
		text string
		n    int
	}
	seen := map[string]*rep{}
	var order []string
	for _, g := range strings.Split(buf.String(), "\n\n") {
		ok := len(filter) == 0
		for _, f := range filter {
			if strings.Contains(g, f) {
				ok = true
			}
		}
		if !ok {
			continue
		}
		lines := strings.Split(g, "\n")
		state := ""
		if i := strings.Index(lines[0], "["); i >= 0 {
			state = strings.SplitN(strings.Trim(lines[0][i:], "[]:"), ",", 2)[0]
		}
		sig := state
		for _, l := range lines[1:] {
			if !strings.HasPrefix(l, "\t") {
				if j := strings.LastIndex(l, "("); j > 0 {
					l = l[:j]
				}
				sig += "|" + l
			}
		}
		if r := seen[sig]; r != nil {
			r.n++
			continue
		}
		if len(g) > 3000 {
			g = g[:3000] + "\n..."
		}
		seen[sig] = &rep{g, 1}
		order = append(order, sig)
	}
	var keep []string
	for _, sig := range order {
		keep = append(keep, fmt.Sprintf("(%d goroutines like this)\n%s", seen[sig].n, seen[sig].text))
		if len(keep) >= 30 {
			break
		}
	}
	return strings.Join(keep, "\n\n")
}

func waitUntil(d time.Duration, cond func() bool) bool {
	deadline := time.Now().Add(d)
	for {
		if cond() {
			return true
		}
		if time.Now().After(deadline) {
			return cond()
		}
		time.Sleep(5 * time.Millisecond)
	}
}
