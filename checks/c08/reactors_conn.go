package main

// Part B, connection layer: hostile msgPackets against MConnection.recvRoutine
// (unknown packet types and channel ids, oversize packets, absurd length
// prefixes, odd EOF bytes, messages that never end) and hostile node-info
// messages in the handshake that Switch.listenerRoutine performs without a
// recover (nil public key, absurd lengths, listen addresses that collide with
// other peers' keys in the peer table). The node carries the real mempool
// reactor so that honest traffic can show progress afterwards. Ping floods are
// out of scope.

import (
	"bytes"
	"fmt"
	"time"

	"github.com/spf13/viper"

	wire "github.com/dappledger/AnnChain/gemmill/go-wire"
	"github.com/dappledger/AnnChain/gemmill/mempool"
	"github.com/dappledger/AnnChain/gemmill/p2p"
	"github.com/dappledger/AnnChain/gemmill/types"

	"verif/lib"
)

var connKinds = []string{
	"unknown-packet-type", "unknown-channel", "oversize-packet", "absurd-length-prefix", "negative-length-prefix", "odd-eof-bytes",
	"message-never-ends", "truncated-packet-then-close", "garbage-after-handshake",
	"nodeinfo-nil-pubkey", "nodeinfo-absurd-lengths", "nodeinfo-garbage", "nodeinfo-foreign-pubkey",
	"listen-addr-equals-honest-peer-key", "listen-addr-equals-honest-listen-addr",
}

func varintBytes(v int64) []byte {
	var buf bytes.Buffer
	var n int
	var err error
	wire.WriteVarint(int(v), &buf, &n, &err)
	return buf.Bytes()
}

func connScenario(cr *childRun, sid int) {
	rng := lib.Rand("c08conn", int64(sid))
	kind := connKinds[sid%len(connKinds)]
	cfg := viper.New()
	cfg.Set("mempool_broadcast", true)
	cfg.Set("mempool_wal_dir", "")
	cfg.Set("block_size", 100)
	cfg.Set("handshake_timeout_seconds", 2)
	pool := mempool.NewMempool(cfg)
	memR := mempool.NewTxReactor(cfg, pool)
	node := newRNode(cr, "conn", cfg, "127.0.0.1:26656")
	node.sw.AddReactor("MEMPOOL", memR)
	if _, err := node.sw.Start(); err != nil {
		cr.run.Inconclusive("conn: switch start: " + err.Error())
		return
	}
	defer node.stop()
	cr.run.Distinct("conn_input_kinds", kind)
	viol := func(key, what string, extra map[string]interface{}) {
		m := map[string]interface{}{"scenario": sid, "seed": lib.Seed(), "family": "conn", "kind": kind,
			"replay": fmt.Sprintf("VERIF_SEED=%d VERIF_TIER=%s bin/c08 rworker conn /tmp/out.json %d 1 %d", lib.Seed(), lib.Tier(), sid, sid+1)}
		for k, v := range extra {
			m[k] = v
		}
		cr.run.ChildViolation(key, fmt.Sprintf("conn scenario %d (%s): %s", sid, kind, what), m)
	}
	hpriv, hinfo := newIdentity(fmt.Sprintf("c08-conn-honest-%d", sid))
	hinfo.ListenAddr = "9.8.7.6:26656"
	h, err := node.connect("honest", hinfo, hpriv)
	if err != nil {
		cr.run.Inconclusive(fmt.Sprintf("conn scenario %d: honest peer cannot connect: %v", sid, err))
		return
	}
	defer h.close()
	xpriv, xinfo := newIdentity(fmt.Sprintf("c08-conn-hostile-%d", sid))
	hostileConn := func() *rawPeer {
		p, err := node.connect("hostile", xinfo, xpriv)
		if err != nil {
			return nil
		}
		return p
	}
	sendRaw := func(p *rawPeer, desc string, b []byte) {
		cr.logInput("hostile", kind+": "+desc, 0xFF, b)
		cr.run.Count("conn_hostile_inputs", 1)
		cr.run.Count("conn_in_"+kind, 1)
		p.writeRaw(b)
	}
	pkt := func(ch, eof byte, b []byte) []byte {
		return append([]byte{0x03}, wire.BinaryBytes(xPacket{ch, eof, b})...)
	}
	handshake := func(desc string, info *p2p.NodeInfo, raw []byte) {
		cr.logInput("hostile", kind+": "+desc, 0xFE, raw)
		cr.run.Count("conn_hostile_inputs", 1)
		cr.run.Count("conn_in_"+kind, 1)
		if p, err := node.connectX("hostile-handshake", info, xpriv, raw); err == nil {
			p.close()
		}
	}
	switch kind {
	case "unknown-packet-type":
		for _, t := range []byte{0x00, 0x04, 0x7f, 0xff} {
			if p := hostileConn(); p != nil {
				sendRaw(p, fmt.Sprintf("packet type %02X", t), []byte{t, 1, 2, 3})
				p.waitClosed(300 * time.Millisecond)
				p.close()
			}
		}
	case "unknown-channel":
		for _, c := range []byte{0x01, 0x20, 0x40, 0xff} {
			if p := hostileConn(); p != nil {
				sendRaw(p, fmt.Sprintf("msgPacket for channel %02X", c), pkt(c, 1, []byte("hello")))
				p.waitClosed(300 * time.Millisecond)
				p.close()
			}
		}
	case "oversize-packet":
		for _, l := range []int{1025, 1034, 1035, 4096, 1 << 20} {
			if p := hostileConn(); p != nil {
				sendRaw(p, fmt.Sprintf("msgPacket with %d payload bytes", l), pkt(mpCh, 1, bytes.Repeat([]byte{1}, l)))
				p.waitClosed(300 * time.Millisecond)
				p.close()
			}
		}
	case "absurd-length-prefix", "negative-length-prefix":
		vals := []int64{1 << 31, 1 << 40, 1<<62 - 1, 1<<63 - 1}
		if kind == "negative-length-prefix" {
			vals = []int64{-1, -1 << 31, -1 << 62}
		}
		for _, v := range vals {
			if p := hostileConn(); p != nil {
				b := append([]byte{0x03, mpCh, 0x01}, varintBytes(v)...)
				sendRaw(p, fmt.Sprintf("msgPacket whose byte-slice length prefix is %d", v), append(b, []byte("tail")...))
				p.waitClosed(300 * time.Millisecond)
				p.close()
			}
		}
	case "odd-eof-bytes":
		if p := hostileConn(); p != nil {
			for _, e := range []byte{0x02, 0x7f, 0xff, 0x00, 0x00} {
				sendRaw(p, fmt.Sprintf("msgPacket EOF byte %02X", e), pkt(mpCh, e, []byte{0x01, 0x01, 0x03, 'a', 'b', 'c'}))
			}
			sendRaw(p, "closing packet", pkt(mpCh, 1, nil))
			p.waitClosed(300 * time.Millisecond)
			p.close()
		}
	case "message-never-ends":
		if p := hostileConn(); p != nil {
			total := lib.Pick(3<<20, 23<<20)
			chunk := bytes.Repeat([]byte{0x55}, 1024)
			cr.logInput("hostile", fmt.Sprintf("%s: %d msgPackets of 1024 bytes with EOF=0 on the mempool channel", kind, total/1024), 0xFF, nil)
			cr.run.Count("conn_hostile_inputs", int64(total/1024))
			cr.run.Count("conn_in_"+kind, int64(total/1024))
			var buf bytes.Buffer
			for i := 0; i < total/1024 && !p.isClosed(); i++ {
				buf.Write(pkt(mpCh, 0, chunk))
				if buf.Len() > 1<<16 {
					if p.writeRaw(buf.Bytes()) != nil {
						break
					}
					buf.Reset()
				}
			}
			p.writeRaw(buf.Bytes())
			sendRaw(p, "finally an EOF packet", pkt(mpCh, 1, []byte("end")))
			p.waitClosed(500 * time.Millisecond)
			p.close()
		}
	case "truncated-packet-then-close":
		for k := 0; k < 6; k++ {
			if p := hostileConn(); p != nil {
				full := pkt(mpCh, 1, encTx(types.Tx("cut off in the middle of a packet")))
				sendRaw(p, "truncated msgPacket", full[:1+rng.Intn(len(full)-1)])
				time.Sleep(20 * time.Millisecond)
				p.close()
			}
		}
	case "garbage-after-handshake":
		for k := 0; k < 8; k++ {
			if p := hostileConn(); p != nil {
				b := make([]byte, 1+rng.Intn(3000))
				rng.Read(b)
				if k%2 == 0 {
					b[0] = 0x03
				}
				sendRaw(p, "random bytes after the handshake", b)
				p.waitClosed(200 * time.Millisecond)
				p.close()
			}
		}
	case "nodeinfo-nil-pubkey":
		bad := *xinfo
		bad.PubKey = nil
		handshake("node info with nil PubKey", &bad, wire.BinaryBytes(&bad))
	case "nodeinfo-absurd-lengths":
		good := wire.BinaryBytes(xinfo)
		// the encoding is: pointer byte, PubKey (type byte + 32), then length-prefixed strings
		for _, v := range []int64{1 << 32, 1<<63 - 1, -1} {
			b := append(append([]byte{}, good[:1+1+32]...), varintBytes(v)...)
			handshake(fmt.Sprintf("node info whose first string length prefix is %d", v), xinfo, append(b, []byte("x")...))
		}
		// absurd element count of Other []string
		withOther := *xinfo
		withOther.Other = []string{"a"}
		enc := wire.BinaryBytes(&withOther)
		cut := len(enc) - len(varintBytes(1)) - len(varintBytes(1)) - 1
		b := append(append([]byte{}, enc[:cut]...), varintBytes(1<<40)...)
		handshake("node info whose Other slice announces 2^40 elements", xinfo, append(b, 0x01, 0x01, 'a'))
	case "nodeinfo-garbage":
		for k := 0; k < 6; k++ {
			b := make([]byte, 1+rng.Intn(400))
			rng.Read(b)
			if k%2 == 0 {
				b[0] = 0x01
			}
			handshake("random bytes as node info", xinfo, b)
		}
		handshake("short node info", xinfo, wire.BinaryBytes(xinfo)[:20])
	case "nodeinfo-foreign-pubkey":
		bad := *xinfo
		bad.PubKey = hinfo.PubKey
		handshake("node info professing the honest peer's public key", &bad, wire.BinaryBytes(&bad))
	case "listen-addr-equals-honest-peer-key", "listen-addr-equals-honest-listen-addr":
		// three connections: A (first in the peer list), the honest peer (already connected, before A? no: after), X
		apriv, ainfo := newIdentity(fmt.Sprintf("c08-conn-hostileA-%d", sid))
		ainfo.ListenAddr = "10.1.1.1:1"
		a, err := node.connect("hostileA", ainfo, apriv)
		if err != nil {
			break
		}
		// a second honest peer that is the LAST entry of the peer list when X comes and goes
		h2priv, h2info := newIdentity(fmt.Sprintf("c08-conn-honest2-%d", sid))
		h2info.ListenAddr = "9.8.7.5:26656"
		h2, err := node.connect("honest2", h2info, h2priv)
		if err != nil {
			a.close()
			break
		}
		defer h2.close()
		bad := *xinfo
		if kind == "listen-addr-equals-honest-peer-key" {
			bad.ListenAddr = h2info.PubKey.KeyString()
		} else {
			bad.ListenAddr = h2info.ListenAddr
		}
		cr.logInput("hostile", fmt.Sprintf("%s: connect with node info listen address %q, then disconnect", kind, bad.ListenAddr), 0xFE, []byte(bad.ListenAddr))
		cr.run.Count("conn_hostile_inputs", 1)
		cr.run.Count("conn_in_"+kind, 1)
		if x, err := node.connect("hostileX", &bad, xpriv); err == nil {
			x.close()
			waitUntil(2*time.Second, func() bool { return !node.sw.Peers().Has(xinfo.PubKey.KeyString()) })
		}
		// while honest2 is connected the node must be able to address it
		if !h2.isClosed() && node.sw.Peers().Get(h2info.PubKey.KeyString()) == nil {
			viol("peer-table-loses-honest-peer-after-hostile-listen-addr", fmt.Sprintf("after a peer announced listen address %q and left, Switch.Peers().Get(<honest peer key>) is nil although the honest peer is still connected: requests addressed to it are silently dropped", bad.ListenAddr), nil)
		}
		// A now makes its reactor panic (recovered by the connection): the switch removes A from the table
		sendRaw(a, "empty message on the mempool channel (panics in Receive, recovered)", pkt(mpCh, 1, nil))
		a.waitClosed(500 * time.Millisecond)
		a.close()
		time.Sleep(100 * time.Millisecond)
	}
	// progress: an honest transaction is accepted afterwards, through a fresh connection and the old one
	tx1 := types.Tx(fmt.Sprintf("conn-honest-old-%d", sid))
	tx2 := types.Tx(fmt.Sprintf("conn-honest-new-%d", sid))
	h.send(mpCh, encTx(tx1))
	npriv, ninfo := newIdentity(fmt.Sprintf("c08-conn-honest-new-%d", sid))
	nh, err := node.connect("honest-new", ninfo, npriv)
	if err != nil {
		viol("conn-honest-peer-cannot-connect-after-hostile-input", err.Error(), nil)
		return
	}
	defer nh.close()
	nh.send(mpCh, encTx(tx2))
	if !waitUntil(10*time.Second, func() bool { r := pool.Reap(-1); return containsTx(r, tx1) && containsTx(r, tx2) }) {
		viol("conn-honest-tx-not-accepted-after-hostile-input", fmt.Sprintf("honest transactions were not accepted (old connection closed: %v)", h.isClosed()), map[string]interface{}{"goroutines": goroutineDump("p2p.", "mempool.")})
		return
	}
	cr.run.Count("conn_controls_passed", 1)
	cr.run.Nontrivial(fmt.Sprintf("conn/%d/%s", sid, kind))
}

func connFamily() *family {
	return &family{
		name:     "conn",
		children: 1,
		total:    func() int { return lib.Pick(len(connKinds), len(connKinds)*8) },
		run:      connScenario,
		watchdog: func(n int) time.Duration { return time.Duration(120+n*40) * time.Second },
		crashKey: func(site, routine string) string { return "connection-panic-outside-recover:" + routine + ":" + site },
		after: func(run *lib.Run, total int) {
			run.Require("conn_input_kinds", int64(len(connKinds)))
			run.Require("conn_controls_passed", int64(total*7/10))
		},
	}
}
