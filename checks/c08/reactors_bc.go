package main

// Part B, block sync: a real BlockchainReactor (fast sync on) in a real Switch.
// The harness plays every peer: an honest one that serves a valid source chain
// (blocks with real commits signed by keys the harness holds) and one or two
// hostile ones that answer block requests with mutated blocks, announce absurd
// heights and send raw bytes.
//
// Oracle:
//   - the process stays alive (poolRoutine and the requester routines have no
//     recover; the parent turns a dead child into blocksync-panic:<site>);
//   - the block executer is only ever called with the source chain's block of
//     the next height together with a commit that carries +2/3 valid precommits
//     for it (checked with the harness's own tally): forged-block-executed:<mutation>;
//   - after the hostile peers are gone, an honest peer that answers every request
//     and announces its height completes the sync: blocksync-wedged:<mutation>.

import (
	"bytes"
	"fmt"
	"math"
	"math/rand"
	"strings"
	"sync"
	"sync/atomic"
	"time"

	"github.com/spf13/viper"

	"github.com/dappledger/AnnChain/gemmill/archive"
	"github.com/dappledger/AnnChain/gemmill/blockchain"
	crypto "github.com/dappledger/AnnChain/gemmill/go-crypto"
	wire "github.com/dappledger/AnnChain/gemmill/go-wire"
	dbm "github.com/dappledger/AnnChain/gemmill/modules/go-db"
	"github.com/dappledger/AnnChain/gemmill/types"

	"verif/lib"
)

const bcCh = byte(0x40)

// mirrors of the (unexported) block-sync messages: same type bytes, same field order
type BcMsg interface{}
type xBlockRequest struct{ Height int64 }
type xBlockResponse struct{ Block *types.Block }
type xStatusResponse struct{ Height int64 }
type xStatusRequest struct{ Height int64 }

var _ = wire.RegisterInterface(
	struct{ BcMsg }{},
	wire.ConcreteType{&xBlockRequest{}, 0x10},
	wire.ConcreteType{&xBlockResponse{}, 0x11},
	wire.ConcreteType{&xStatusResponse{}, 0x20},
	wire.ConcreteType{&xStatusRequest{}, 0x21},
)

func encBC(m BcMsg) []byte { return wire.BinaryBytes(struct{ BcMsg }{m}) }

func decBC(b []byte) (m BcMsg) {
	defer func() {
		if r := recover(); r != nil {
			m = nil
		}
	}()
	if len(b) == 0 {
		return nil
	}
	var n int
	var err error
	m = wire.ReadBinary(struct{ BcMsg }{}, bytes.NewReader(b), 0, &n, &err).(struct{ BcMsg }).BcMsg
	if err != nil {
		return nil
	}
	return m
}

// ---- source chain ------------------------------------------------------------------

type bcChain struct {
	id       string
	keys     []crypto.PrivKeyEd25519 // by validator-set index
	foreign  []crypto.PrivKeyEd25519 // keys of nobody
	vals     *types.ValidatorSet
	n        int
	top      int64
	blocks   map[int64]*types.Block
	ids      map[int64]types.BlockID
	commits  map[int64]*types.Commit
	partSize int
}

func (c *bcChain) vote(key crypto.PrivKeyEd25519, idx int, h, round int64, typ byte, bid types.BlockID) *types.Vote {
	var addr []byte
	if idx >= 0 && idx < c.n {
		addr = c.vals.Validators[idx].Address
	}
	v := &types.Vote{ValidatorAddress: addr, ValidatorIndex: idx, Height: h, Round: round, Type: typ, BlockID: bid}
	v.Signature = key.Sign(types.SignBytes(c.id, v))
	return v
}

// commit signs precommits for bid by the validators in signers (nil slot otherwise).
func (c *bcChain) commit(h, round int64, bid types.BlockID, signers []bool, keys []crypto.PrivKeyEd25519) *types.Commit {
	cm := &types.Commit{BlockID: bid, Precommits: make([]*types.Vote, c.n)}
	for i := 0; i < c.n; i++ {
		if signers == nil || signers[i] {
			cm.Precommits[i] = c.vote(keys[i], i, h, round, types.VoteTypePrecommit, bid)
		}
	}
	return cm
}

func buildChain(label string, rng *rand.Rand, nVals int, top int64, partSize int) *bcChain {
	c := &bcChain{id: "c08-sync-" + label, n: nVals, top: top, partSize: partSize, blocks: map[int64]*types.Block{}, ids: map[int64]types.BlockID{}, commits: map[int64]*types.Commit{}}
	var vl []*types.Validator
	byAddr := map[string]crypto.PrivKeyEd25519{}
	for i := 0; i < nVals; i++ {
		k := crypto.GenPrivKeyEd25519FromSecret([]byte(fmt.Sprintf("c08-val-%s-%d", label, i)))
		pk := k.PubKey()
		vl = append(vl, &types.Validator{Address: pk.Address(), PubKey: pk, VotingPower: 10})
		byAddr[string(pk.Address())] = k
		c.foreign = append(c.foreign, crypto.GenPrivKeyEd25519FromSecret([]byte(fmt.Sprintf("c08-foreign-%s-%d", label, i))))
	}
	c.vals = types.NewValidatorSet(vl)
	for _, v := range c.vals.Validators {
		c.keys = append(c.keys, byAddr[string(v.Address)])
	}
	prev := types.BlockID{}
	last := &types.Commit{}
	for h := int64(1); h <= top; h++ {
		txs := []types.Tx{types.Tx(fmt.Sprintf("%s-tx-%d-a-%d", label, h, rng.Intn(1<<30))), types.Tx(fmt.Sprintf("%s-tx-%d-b", label, h))}
		if partSize < 4096 {
			txs = append(txs, types.Tx(bytes.Repeat([]byte{byte(h)}, 900)))
		}
		b, ps := types.MakeBlock(h, c.id, txs, nil, last, c.vals.Validators[int(h)%nVals].Address, prev, c.vals.Hash(), []byte("c08-app-hash-0123456"), []byte("c08-receipts-hash-01"), partSize)
		bid := types.BlockID{Hash: b.Hash(), PartsHeader: ps.Header()}
		// one validator sometimes misses the commit (still +2/3)
		var signers []bool
		if nVals >= 4 && rng.Intn(2) == 0 {
			signers = make([]bool, nVals)
			for i := range signers {
				signers[i] = true
			}
			signers[rng.Intn(nVals)] = false
		}
		cm := c.commit(h, 0, bid, signers, c.keys)
		c.blocks[h], c.ids[h], c.commits[h] = b, bid, cm
		prev, last = bid, cm
	}
	return c
}

func cloneBlock(b *types.Block) *types.Block {
	var n int
	var err error
	r := wire.ReadBinary(&types.Block{}, bytes.NewReader(wire.BinaryBytes(b)), 0, &n, &err)
	if err != nil {
		panic("harness: cannot clone block: " + err.Error())
	}
	return r.(*types.Block)
}

// tally is the harness's own count of valid precommits for bid at height h.
func (c *bcChain) tally(h int64, bid types.BlockID, cm *types.Commit) (int64, int64) {
	total := int64(0)
	for _, v := range c.vals.Validators {
		total += v.VotingPower
	}
	if cm == nil {
		return 0, total
	}
	got := int64(0)
	for i, pc := range cm.Precommits {
		if pc == nil || i >= c.n || pc.Height != h || pc.Type != types.VoteTypePrecommit || !pc.BlockID.Equals(bid) || pc.Signature == nil {
			continue
		}
		if c.keys[i].PubKey().VerifyBytes(types.SignBytes(c.id, pc), pc.Signature) {
			got += c.vals.Validators[i].VotingPower
		}
	}
	return got, total
}

// ---- mutations -----------------------------------------------------------------------

type outMsg struct {
	ch   byte
	b    []byte
	desc string
}

type bcMut struct {
	name     string
	vals     int                               // force this many validators (0 = any)
	slowExec bool                              // the executer takes 300 ms per block (as ApplyBlock does on a real chain); the hostile peers start when it is first entered
	repeat   int                               // unsolicited batch is sent this many more times, each after a fresh height announcement
	peers    int                               // hostile peers (default 1)
	drop     bool                              // after answering, get dropped (empty message) while the answer is being verified
	pair     bool                              // also answers the request for T+1
	resp     func(s *bcScen, h int64) [][]byte // hostile answers to a block request for height h
	unsol    func(s *bcScen) []outMsg          // unsolicited messages, sent once after connecting
}

func (s *bcScen) src(h int64) *types.Block {
	if h < 1 {
		h = 1
	}
	if h > s.chain.top {
		h = s.chain.top
	}
	return cloneBlock(s.chain.blocks[h])
}

func resp(b *types.Block) [][]byte { return [][]byte{encBC(&xBlockResponse{b})} }

// mutB answers with the source block of that height after f has been applied to a copy.
func mutB(name string, f func(s *bcScen, h int64, b *types.Block)) *bcMut {
	return &bcMut{name: name, resp: func(s *bcScen, h int64) [][]byte {
		b := s.src(h)
		hc := b.Header.Height // h clamped to the source chain
		f(s, hc, b)
		if hc != h && b.Header != nil && b.Header.Height == hc {
			b.Header.Height = h // asked beyond the chain: still answer for that height
		}
		return resp(b)
	}}
}

// mutLC mutates the LastCommit (the commit for h-1) of the served block.
func mutLC(name string, f func(s *bcScen, h int64, b *types.Block, lc *types.Commit)) *bcMut {
	return mutB(name, func(s *bcScen, h int64, b *types.Block) {
		if b.LastCommit == nil {
			b.LastCommit = &types.Commit{}
		}
		f(s, h, b, b.LastCommit)
	})
}

// forged builds an alternative block for height h (other transactions, consistent
// hashes) and the block h+1 that commits to it with the given last commit.
func (s *bcScen) forged(h int64) (*types.Block, types.BlockID) {
	c := s.chain
	o := c.blocks[h]
	txs := []types.Tx{types.Tx(fmt.Sprintf("forged-tx-%d", h))}
	b, ps := types.MakeBlock(h, c.id, txs, nil, cloneBlock(o).LastCommit, o.ProposerAddress, o.LastBlockID, c.vals.Hash(), o.AppHash, o.ReceiptsHash, c.partSize)
	return b, types.BlockID{Hash: b.Hash(), PartsHeader: ps.Header()}
}

func (s *bcScen) forgedNext(h int64, lc *types.Commit, fid types.BlockID) *types.Block {
	c := s.chain
	o := c.blocks[h+1]
	b, _ := types.MakeBlock(h+1, c.id, []types.Tx{types.Tx("forged-next")}, nil, lc, o.ProposerAddress, fid, c.vals.Hash(), o.AppHash, o.ReceiptsHash, c.partSize)
	return b
}

func forgedPair(name string, commitFor func(s *bcScen, h int64, fid types.BlockID) *types.Commit) *bcMut {
	return &bcMut{name: name, pair: true, resp: func(s *bcScen, h int64) [][]byte {
		T := s.T
		if T >= s.chain.top {
			T = s.chain.top - 1
		}
		fb, fid := s.forged(T)
		if h == T {
			return resp(fb)
		}
		return resp(s.forgedNext(T, commitFor(s, T, fid), fid))
	}}
}

func bcMutations() []*bcMut {
	ms := []*bcMut{
		{name: "control-honest", resp: func(s *bcScen, h int64) [][]byte { return resp(s.src(h)) }},
		// structural nils
		{name: "nil-block", resp: func(s *bcScen, h int64) [][]byte { return resp(nil) }},
		mutB("nil-header", func(s *bcScen, h int64, b *types.Block) { b.Header = nil }),
		mutB("nil-data", func(s *bcScen, h int64, b *types.Block) { b.Data = nil }),
		mutB("nil-lastcommit", func(s *bcScen, h int64, b *types.Block) { b.LastCommit = nil }),
		mutB("nil-data-and-lastcommit", func(s *bcScen, h int64, b *types.Block) { b.Data, b.LastCommit = nil, nil }),
		mutLC("lastcommit-all-precommit-slots-nil", func(s *bcScen, h int64, b *types.Block, lc *types.Commit) {
			lc.Precommits = make([]*types.Vote, s.chain.n)
		}),
		mutLC("lastcommit-empty", func(s *bcScen, h int64, b *types.Block, lc *types.Commit) { b.LastCommit = &types.Commit{} }),
		mutLC("lastcommit-one-slot-short", func(s *bcScen, h int64, b *types.Block, lc *types.Commit) {
			if len(lc.Precommits) > 0 {
				lc.Precommits = lc.Precommits[:len(lc.Precommits)-1]
			}
		}),
		mutLC("lastcommit-one-slot-too-many", func(s *bcScen, h int64, b *types.Block, lc *types.Commit) {
			if len(lc.Precommits) > 0 {
				lc.Precommits = append(lc.Precommits, lc.Precommits[0])
			}
		}),
		mutLC("lastcommit-10000-nil-slots", func(s *bcScen, h int64, b *types.Block, lc *types.Commit) {
			lc.Precommits = make([]*types.Vote, 10000)
		}),
		// wrong identity
		{name: "block-of-another-height", resp: func(s *bcScen, h int64) [][]byte {
			return resp(s.src([]int64{h + 1, h - 1, s.chain.top}[s.rng.Intn(3)]))
		}},
		mutB("header-height-absurd", func(s *bcScen, h int64, b *types.Block) {
			b.Header.Height = []int64{0, -1, math.MaxInt64, math.MinInt64, h + 1, h + 299}[s.rng.Intn(6)]
		}),
		mutB("wrong-chain-id", func(s *bcScen, h int64, b *types.Block) { b.Header.ChainID = "another-chain" }),
		mutB("altered-txs-stale-datahash", func(s *bcScen, h int64, b *types.Block) {
			b.Data.Txs = append(types.Txs{types.Tx("smuggled-tx")}, b.Data.Txs...)
		}),
		mutB("altered-txs-fresh-datahash", func(s *bcScen, h int64, b *types.Block) {
			b.Data.Txs = types.Txs{types.Tx("smuggled-tx")}
			b.Header.DataHash = nil
			b.Header.NumTxs = 1
			b.FillHeader()
		}),
		mutB("extxs-smuggled", func(s *bcScen, h int64, b *types.Block) { b.Data.ExTxs = types.Txs{types.Tx("smuggled-extx")} }),
		mutB("huge-numtxs", func(s *bcScen, h int64, b *types.Block) { b.Header.NumTxs = math.MaxInt64 }),
		mutB("negative-numtxs", func(s *bcScen, h int64, b *types.Block) { b.Header.NumTxs = math.MinInt64 }),
		mutB("empty-validators-hash", func(s *bcScen, h int64, b *types.Block) { b.Header.ValidatorsHash = nil }),
		mutB("extra-field-64k", func(s *bcScen, h int64, b *types.Block) { b.Header.Extra = bytes.Repeat([]byte{0xEE}, 65536) }),
		mutB("one-megabyte-tx", func(s *bcScen, h int64, b *types.Block) {
			b.Data.Txs = append(b.Data.Txs, types.Tx(bytes.Repeat([]byte{0x41}, 1<<20)))
		}),
		mutB("absurd-parts-totals", func(s *bcScen, h int64, b *types.Block) {
			b.Header.LastBlockID.PartsHeader.Total = []int{math.MaxInt64, -1, math.MinInt64}[s.rng.Intn(3)]
			if b.LastCommit != nil {
				b.LastCommit.BlockID.PartsHeader.Total = []int{math.MaxInt64, -1, math.MinInt64}[s.rng.Intn(3)]
				for _, pc := range b.LastCommit.Precommits {
					if pc != nil {
						pc.BlockID.PartsHeader.Total = math.MaxInt64
					}
				}
			}
		}),
		// commits that do not justify the previous block
		mutLC("lastcommit-for-another-block", func(s *bcScen, h int64, b *types.Block, lc *types.Commit) {
			other := types.BlockID{Hash: []byte("another-block-hash-0"), PartsHeader: types.PartSetHeader{Total: 1, Hash: []byte("another-parts-hash-0")}}
			*lc = *s.chain.commit(h-1, 0, other, nil, s.chain.keys)
		}),
		mutLC("lastcommit-of-older-height", func(s *bcScen, h int64, b *types.Block, lc *types.Commit) {
			if h >= 3 {
				*lc = *cloneBlock(s.chain.blocks[h-1]).LastCommit
			} else {
				*lc = *s.chain.commit(h+5, 0, s.chain.ids[h], nil, s.chain.keys)
			}
		}),
		mutLC("lastcommit-signed-at-another-height", func(s *bcScen, h int64, b *types.Block, lc *types.Commit) {
			*lc = *s.chain.commit(h+5, 0, s.chain.ids[maxI64(h-1, 1)], nil, s.chain.keys)
		}),
		withVals(3, mutLC("lastcommit-exactly-two-thirds-or-less", func(s *bcScen, h int64, b *types.Block, lc *types.Commit) {
			signers := make([]bool, s.chain.n)
			for i := 0; i < s.chain.n*2/3; i++ {
				signers[i] = true
			}
			*lc = *s.chain.commit(h-1, 0, s.chain.ids[maxI64(h-1, 1)], signers, s.chain.keys)
		})),
		mutLC("lastcommit-signed-by-non-validators", func(s *bcScen, h int64, b *types.Block, lc *types.Commit) {
			*lc = *s.chain.commit(h-1, 0, s.chain.ids[maxI64(h-1, 1)], nil, s.chain.foreign)
		}),
		mutLC("lastcommit-one-vote-in-every-slot", func(s *bcScen, h int64, b *types.Block, lc *types.Commit) {
			v := s.chain.vote(s.chain.keys[0], 0, h-1, 0, types.VoteTypePrecommit, s.chain.ids[maxI64(h-1, 1)])
			for i := range lc.Precommits {
				lc.Precommits[i] = v
			}
		}),
		mutLC("precommit-nil-signature", func(s *bcScen, h int64, b *types.Block, lc *types.Commit) {
			for _, pc := range lc.Precommits {
				if pc != nil {
					pc.Signature = nil
				}
			}
		}),
		mutLC("precommit-secp256k1-signature", func(s *bcScen, h int64, b *types.Block, lc *types.Commit) {
			for _, pc := range lc.Precommits {
				if pc != nil {
					pc.Signature = crypto.SignatureSecp256k1(bytes.Repeat([]byte{7}, 70))
				}
			}
		}),
		mutLC("precommits-are-prevotes", func(s *bcScen, h int64, b *types.Block, lc *types.Commit) {
			for i := range lc.Precommits {
				lc.Precommits[i] = s.chain.vote(s.chain.keys[i%s.chain.n], i, h-1, 0, types.VoteTypePrevote, s.chain.ids[maxI64(h-1, 1)])
			}
		}),
		mutLC("precommit-absurd-validator-index", func(s *bcScen, h int64, b *types.Block, lc *types.Commit) {
			for i := range lc.Precommits {
				lc.Precommits[i] = s.chain.vote(s.chain.keys[i%s.chain.n], []int{-1, math.MaxInt64, math.MinInt64, s.chain.n}[s.rng.Intn(4)], h-1, 0, types.VoteTypePrecommit, s.chain.ids[maxI64(h-1, 1)])
			}
		}),
		mutLC("precommit-rounds-disagree", func(s *bcScen, h int64, b *types.Block, lc *types.Commit) {
			for i := range lc.Precommits {
				lc.Precommits[i] = s.chain.vote(s.chain.keys[i%s.chain.n], i, h-1, int64(i)*math.MaxInt32, types.VoteTypePrecommit, s.chain.ids[maxI64(h-1, 1)])
			}
		}),
		mutLC("precommit-first-slot-height-absurd", func(s *bcScen, h int64, b *types.Block, lc *types.Commit) {
			if len(lc.Precommits) > 0 {
				lc.Precommits[0] = s.chain.vote(s.chain.keys[0], 0, math.MaxInt64, 0, types.VoteTypePrecommit, s.chain.ids[maxI64(h-1, 1)])
			}
		}),
		// a forged first block with a second block that does not justify it
		forgedPair("forged-pair-signed-by-byzantine-minority", func(s *bcScen, h int64, fid types.BlockID) *types.Commit {
			signers := make([]bool, s.chain.n)
			for i := 0; i < (s.chain.n-1)/3; i++ {
				signers[i] = true
			}
			if s.chain.n == 1 {
				return &types.Commit{BlockID: fid, Precommits: make([]*types.Vote, 1)}
			}
			return s.chain.commit(h, 0, fid, signers, s.chain.keys)
		}),
		forgedPair("forged-pair-signed-by-non-validators", func(s *bcScen, h int64, fid types.BlockID) *types.Commit {
			return s.chain.commit(h, 0, fid, nil, s.chain.foreign)
		}),
		forgedPair("forged-pair-with-honest-commit-for-the-real-block", func(s *bcScen, h int64, fid types.BlockID) *types.Commit {
			return cloneBlock(s.chain.blocks[h+1]).LastCommit
		}),
		forgedPair("forged-pair-minority-signs-rest-votes-nil-block", func(s *bcScen, h int64, fid types.BlockID) *types.Commit {
			cm := s.chain.commit(h, 0, types.BlockID{}, nil, s.chain.keys) // honest nil-precommits could exist
			for i := 0; i < (s.chain.n-1)/3; i++ {
				cm.Precommits[i] = s.chain.vote(s.chain.keys[i], i, h, 0, types.VoteTypePrecommit, fid)
			}
			cm.BlockID = fid
			return cm
		}),
		// a bad first block, and its sender is dropped while poolRoutine verifies it
		{name: "bad-3MB-block-then-dropped-during-verification", drop: true, resp: func(s *bcScen, h int64) [][]byte {
			b := s.src(h)
			hc := b.Header.Height
			b.Data.Txs = append(b.Data.Txs, types.Tx(bytes.Repeat([]byte{0x42}, 3<<20)))
			if hc != h {
				b.Header.Height = h
			}
			return resp(b)
		}},
		// encodings
		{name: "response-truncated", resp: func(s *bcScen, h int64) [][]byte {
			b := encBC(&xBlockResponse{s.src(h)})
			return [][]byte{b[:1+s.rng.Intn(len(b)-1)]}
		}},
		{name: "response-bitflips", resp: func(s *bcScen, h int64) [][]byte {
			var out [][]byte
			for k := 0; k < 4; k++ {
				b := encBC(&xBlockResponse{s.src(h)})
				for j := 0; j < 1+s.rng.Intn(3); j++ {
					b[1+s.rng.Intn(len(b)-1)] ^= byte(1 << uint(s.rng.Intn(8)))
				}
				out = append(out, b)
			}
			return out
		}},
		{name: "response-length-inflation", resp: func(s *bcScen, h int64) [][]byte {
			b := encBC(&xBlockResponse{s.src(h)})
			i := 1 + s.rng.Intn(len(b)-1)
			return [][]byte{append(append(append([]byte{}, b[:i]...), 0x08, 0x7f, 0xff, 0xff, 0xff, 0xff, 0xff, 0xff, 0xff), b[i:]...)}
		}},
		// unsolicited
		{name: "status-absurd-heights", unsol: func(s *bcScen) []outMsg {
			var out []outMsg
			for _, v := range ints {
				out = append(out, outMsg{bcCh, encBC(&xStatusResponse{v}), fmt.Sprintf("status response height %d", v)})
			}
			out = append(out, outMsg{bcCh, encBC(&xStatusResponse{s.chain.top}), "status response (true height)"})
			return out
		}},
		{name: "status-request-absurd-heights", unsol: func(s *bcScen) []outMsg {
			var out []outMsg
			for _, v := range ints {
				out = append(out, outMsg{bcCh, encBC(&xStatusRequest{v}), fmt.Sprintf("status request height %d", v)})
			}
			return out
		}},
		{name: "block-request-absurd-heights", unsol: func(s *bcScen) []outMsg {
			var out []outMsg
			for _, v := range append([]int64{3, 300}, ints...) {
				out = append(out, outMsg{bcCh, encBC(&xBlockRequest{v}), fmt.Sprintf("block request height %d", v)})
			}
			return out
		}},
		{name: "raw-bytes", unsol: func(s *bcScen) []outMsg {
			out := []outMsg{{bcCh, []byte{}, "empty message"}}
			for k := 0; k < 10; k++ {
				b := make([]byte, 1+s.rng.Intn(300))
				s.rng.Read(b)
				if k%2 == 0 {
					b[0] = []byte{0x10, 0x11, 0x20, 0x21}[s.rng.Intn(4)]
				}
				out = append(out, outMsg{bcCh, b, "random bytes"})
			}
			return out
		}},
		{name: "unsolicited-responses-for-every-height", peers: 2, unsol: func(s *bcScen) []outMsg {
			var out []outMsg
			for h := int64(1); h <= 320; h++ {
				b := s.src(h)
				b.Header.Height = h
				out = append(out, outMsg{bcCh, encBC(&xBlockResponse{b}), fmt.Sprintf("unsolicited block response height %d", h)})
			}
			return out
		}},
		{name: "unsolicited-response-floods-while-a-block-is-executed", peers: 3, repeat: 2, slowExec: true, unsol: func(s *bcScen) []outMsg {
			var out []outMsg
			for h := int64(1); h <= 200; h++ {
				b := s.src(h)
				b.Header.Height = h
				if h > s.chain.top {
					b.Data.Txs = nil // small
				} else if h >= 2 {
					// never justifies the block before it: every verification fails, the sender is
					// removed from the pool, all its requesters ask again at once
					b.LastCommit = s.chain.commit(h-1, 0, s.chain.ids[h-1], nil, s.chain.foreign)
				}
				out = append(out, outMsg{bcCh, encBC(&xBlockResponse{b}), fmt.Sprintf("unsolicited block response height %d", h)})
			}
			return out
		}},
	}
	return ms
}

func withVals(n int, m *bcMut) *bcMut {
	m.vals = n
	return m
}

func maxI64(a, b int64) int64 {
	if a > b {
		return a
	}
	return b
}

// ---- scenario --------------------------------------------------------------------------

type bcScen struct {
	cr    *childRun
	sid   int
	rng   *rand.Rand
	rmtx  sync.Mutex
	chain *bcChain
	node  *rnode
	bcR   *blockchain.BlockchainReactor
	store *blockchain.BlockStore

	base  *bcMut
	T     int64
	late  bool
	mixed bool
	muts  []*bcMut
	claim int64

	mtx         sync.Mutex
	executed    []int64
	lastMut     map[int64]string
	failed      bool
	switched    int32
	delivered   int32 // hostile messages sent
	poolSaw     int32 // verifier calls that saw hostile material
	stopHost    chan struct{}
	execOnce    sync.Once
	execEntered chan struct{}
}

func (s *bcScen) viol(key, what string, extra map[string]interface{}) {
	s.mtx.Lock()
	if s.failed {
		s.mtx.Unlock()
		return
	}
	s.failed = true
	s.mtx.Unlock()
	m := map[string]interface{}{"scenario": s.sid, "seed": lib.Seed(), "family": "bc", "mutation": s.base.name, "target_height": s.T, "honest_peer_late": s.late, "mixed": s.mixed, "validators": s.chain.n,
		"replay": fmt.Sprintf("VERIF_SEED=%d VERIF_TIER=%s bin/c08 rworker bc /tmp/out.json %d 1 %d  (inputs in /tmp/out.json.inputs)", lib.Seed(), lib.Tier(), s.sid, s.sid+1)}
	for k, v := range extra {
		m[k] = v
	}
	s.cr.run.ChildViolation(key, fmt.Sprintf("bc scenario %d (%s at height %d): %s", s.sid, s.base.name, s.T, what), m)
}

// verifier is what angine.go installs: the real ValidatorSet.VerifyCommit.
func (s *bcScen) verifier(bID types.BlockID, h int64, lc *types.Commit) error {
	s.cr.run.Count("bc_reached_pool_routine", 1)
	hostile := !bID.Equals(s.chain.ids[h])
	if !hostile {
		if want := s.chain.commits[h]; want == nil || lc == nil || !bytes.Equal(wire.BinaryBytes(want), wire.BinaryBytes(lc)) {
			hostile = true
		}
	}
	if hostile {
		atomic.AddInt32(&s.poolSaw, 1)
		s.cr.run.Count("bc_pool_routine_saw_hostile_material", 1)
	}
	err := s.chain.vals.VerifyCommit(s.chain.id, bID, h, lc)
	if err != nil {
		s.cr.run.Count("bc_verifier_rejected", 1)
	}
	return err
}

// executer records what the reactor hands over for execution, judges it, and
// saves it like the real executer does.
func (s *bcScen) executer(blk *types.Block, ps *types.PartSet, cm *types.Commit) error {
	s.cr.run.Count("bc_executed_blocks", 1)
	s.mtx.Lock()
	next := int64(len(s.executed)) + 1
	var h int64 = -1
	if blk != nil && blk.Header != nil {
		h = blk.Height
	}
	mut := s.lastMut[h]
	if mut == "" {
		mut = s.lastMut[h+1]
	}
	if mut == "" {
		mut = s.base.name
	}
	s.mtx.Unlock()
	if h != next {
		s.viol("block-executed-out-of-order:"+mut, fmt.Sprintf("the executer was given height %d, expected %d", h, next), nil)
		return nil
	}
	got := types.BlockID{Hash: blk.Hash(), PartsHeader: ps.Header()}
	want := s.chain.ids[h]
	if !got.Equals(want) || !bytes.Equal(wire.BinaryBytes(blk), wire.BinaryBytes(s.chain.blocks[h])) {
		s.viol("forged-block-executed:"+mut, fmt.Sprintf("the executer was given a block for height %d that is not the source chain's block (%v, want %v)", h, got, want),
			map[string]interface{}{"executed_block": fmt.Sprintf("%v", blk), "commit": fmt.Sprintf("%v", cm)})
		return nil
	}
	if g, total := s.chain.tally(h, want, cm); g*3 <= total*2 {
		s.viol("block-executed-without-two-thirds-commit:"+mut, fmt.Sprintf("height %d was executed with a commit carrying %d of %d voting power", h, g, total), map[string]interface{}{"commit": fmt.Sprintf("%v", cm)})
		return nil
	}
	if s.base.slowExec {
		s.execOnce.Do(func() { close(s.execEntered) })
		time.Sleep(300 * time.Millisecond) // stand-in for State.ApplyBlock
	}
	s.store.SaveBlock(blk, ps, cm)
	s.mtx.Lock()
	s.executed = append(s.executed, h)
	s.mtx.Unlock()
	return nil
}

func (s *bcScen) done() bool {
	s.mtx.Lock()
	defer s.mtx.Unlock()
	return s.failed || int64(len(s.executed)) >= s.chain.top-1
}

func (s *bcScen) nExecuted() int {
	s.mtx.Lock()
	defer s.mtx.Unlock()
	return len(s.executed)
}

func (s *bcScen) rint(n int) int {
	s.rmtx.Lock()
	defer s.rmtx.Unlock()
	return s.rng.Intn(n)
}

// hostile is one hostile peer's life: connect, announce, answer requests with
// mutations, reconnect when dropped, leave when its budget is spent.
func (s *bcScen) hostile(name string, budget int, wg *sync.WaitGroup) {
	defer wg.Done()
	priv, info := newIdentity(fmt.Sprintf("c08-bc-%s-%d", name, s.sid))
	var rp *rawPeer
	reconnects := 0
	first := true
	connect := func() bool {
		for try := 0; try < 40; try++ {
			nrp, err := s.node.connect(name, info, priv)
			if err == nil {
				rp = nrp
				if first && s.base.slowExec {
					// connected but silent until the node is busy executing a block
					select {
					case <-s.execEntered:
					case <-time.After(8 * time.Second):
					}
				}
				first = false
				rp.send(bcCh, encBC(&xStatusResponse{s.claim}))
				return true
			}
			if !strings.Contains(err.Error(), "Duplicate") {
				s.cr.note("%s cannot connect: %v", name, err)
				return false
			}
			time.Sleep(25 * time.Millisecond) // the node has not finished removing the old connection
		}
		return false
	}
	if !connect() {
		return
	}
	defer func() { rp.close() }()
	deliver := func(kind string, m outMsg) {
		s.cr.logInput(name, m.desc, m.ch, m.b)
		s.cr.run.Count("bc_hostile_inputs", 1)
		s.cr.run.Count("bc_in_"+kind, 1)
		atomic.AddInt32(&s.delivered, 1)
		rp.send(m.ch, m.b)
	}
	if s.base.unsol != nil {
		s.rmtx.Lock()
		msgs := s.base.unsol(s)
		s.rmtx.Unlock()
		for _, m := range msgs {
			if rp.isClosed() {
				// dropped for an earlier message: a hostile peer comes back
				if reconnects++; reconnects > 12 || !connect() {
					return
				}
				s.cr.run.Count("bc_hostile_reconnects", 1)
			}
			deliver(s.base.name, m)
			if len(m.b) == 0 || m.desc == "random bytes" {
				rp.waitClosed(40 * time.Millisecond)
			}
		}
		for k := 0; k < s.base.repeat && !rp.isClosed(); k++ {
			time.Sleep(time.Duration(20+s.rint(120)) * time.Millisecond)
			rp.send(bcCh, encBC(&xStatusResponse{s.claim}))
			for _, m := range msgs {
				deliver(s.base.name, m)
			}
		}
		budget -= 1
	}
	idle := time.NewTimer(350 * time.Millisecond)
	defer idle.Stop()
	for budget > 0 {
		select {
		case <-s.stopHost:
			return
		case <-idle.C:
			return // nobody asks this peer anything any more
		case <-rp.closed:
			if reconnects++; reconnects > 12 {
				return
			}
			s.cr.run.Count("bc_hostile_reconnects", 1)
			if !connect() {
				return
			}
		case m := <-rp.in:
			if !idle.Stop() {
				select {
				case <-idle.C:
				default:
				}
			}
			idle.Reset(350 * time.Millisecond)
			switch msg := decBC(m.b).(type) {
			case *xStatusRequest:
				rp.send(bcCh, encBC(&xStatusResponse{s.claim}))
			case *xBlockRequest:
				h := msg.Height
				var mut *bcMut
				if s.mixed {
					mut = s.muts[s.rint(len(s.muts))]
					for mut.resp == nil {
						mut = s.muts[s.rint(len(s.muts))]
					}
				} else if s.base.resp != nil && (h == s.T || (s.base.pair && h == s.T+1)) {
					mut = s.base
				}
				if mut == nil || mut.name == "control-honest" {
					if h >= 1 && h <= s.chain.top {
						rp.send(bcCh, encBC(&xBlockResponse{s.src(h)}))
					}
					continue
				}
				if h < 1 || h > s.chain.top+2 && s.rint(10) != 0 {
					continue // far beyond the chain: nothing there is ever verified; do not spend the burst on it
				}
				s.rmtx.Lock()
				bs := mut.resp(s, h)
				s.rmtx.Unlock()
				s.mtx.Lock()
				s.lastMut[h] = mut.name
				s.mtx.Unlock()
				for _, b := range bs {
					deliver(mut.name, outMsg{bcCh, b, fmt.Sprintf("%s in answer to request for height %d", mut.name, h)})
				}
				budget--
				if mut.drop {
					time.Sleep(time.Duration(s.rint(140)) * time.Millisecond)
					deliver(mut.name, outMsg{bcCh, []byte{}, "empty message (panics in Receive: the peer is dropped)"})
					continue
				}
				// stay in the pool: a peer that is blamed is only removed from the pool, not disconnected
				rp.send(bcCh, encBC(&xStatusResponse{s.claim}))
			}
		}
	}
}

// honest serves the source chain; before release it only collects requests (a slow peer).
type bcHonest struct {
	s       *bcScen
	rp      *rawPeer
	release chan struct{}
	quit    chan struct{}
	served  int32
}

func (hp *bcHonest) loop() {
	var queued []int64
	released := false
	rel := hp.release
	serve := func(h int64) {
		if h >= 1 && h <= hp.s.chain.top {
			hp.rp.send(bcCh, encBC(&xBlockResponse{hp.s.src(h)}))
			atomic.AddInt32(&hp.served, 1)
		}
	}
	for {
		select {
		case <-hp.quit:
			return
		case <-hp.rp.closed:
			return
		case <-rel:
			released, rel = true, nil
			for _, h := range queued {
				serve(h)
			}
			queued = nil
		case m := <-hp.rp.in:
			switch msg := decBC(m.b).(type) {
			case *xStatusRequest:
				if released {
					hp.rp.send(bcCh, encBC(&xStatusResponse{hp.s.chain.top}))
				}
			case *xBlockRequest:
				if released {
					serve(msg.Height)
				} else {
					queued = append(queued, msg.Height)
				}
			}
		}
	}
}

// surgical variants: the height whose request the hostile peer answers with the
// mutation (1 = verified as first block, 2 = second block whose LastCommit must
// justify block 1 and first block afterwards, 3 = after some progress), and
// whether the honest peer only starts to talk after the burst.
var bcVariants = []struct {
	T    int64
	late bool
}{{2, true}, {1, true}, {3, true}, {2, false}, {1, false}, {3, false}}

func bcScenario(cr *childRun, sid int) {
	muts := bcMutations()
	rng := lib.Rand("c08bc", int64(sid))
	s := &bcScen{cr: cr, sid: sid, rng: rng, muts: muts, lastMut: map[int64]string{}, stopHost: make(chan struct{}), execEntered: make(chan struct{})}
	nSurgical := len(muts) * lib.Pick(4, len(bcVariants))
	if sid < nSurgical {
		s.base = muts[sid%len(muts)]
		v := bcVariants[sid/len(muts)]
		s.T, s.late = v.T, v.late
	} else {
		s.mixed = true
		s.base = muts[1+rng.Intn(len(muts)-1)]
		s.T = int64(1 + rng.Intn(3))
		s.late = rng.Intn(2) == 0
	}
	if s.base.slowExec {
		s.late = false // the honest peer must be serving for a block to be executed
	}
	nVals := []int{4, 4, 7, 1, 3}[rng.Intn(5)]
	if s.base.vals > 0 && !s.mixed {
		nVals = s.base.vals
	}
	partSize := []int{65536, 65536, 512}[rng.Intn(3)]
	s.chain = buildChain(fmt.Sprintf("%d", sid), rng, nVals, 6, partSize)
	s.claim = s.chain.top
	if s.mixed && rng.Intn(3) == 0 || s.base.peers > 1 {
		s.claim = []int64{math.MaxInt64, 1 << 40, s.chain.top + 250}[rng.Intn(3)]
	}
	cr.run.Distinct("bc_scenario_shapes", fmt.Sprintf("%s|T%d|late=%v|mixed=%v", s.base.name, s.T, s.late, s.mixed))

	cfg := viper.New()
	cfg.Set("chain_id", s.chain.id)
	cfg.Set("block_part_size", partSize)
	s.node = newRNode(cr, "bc", cfg, "127.0.0.1:26656")
	s.store = blockchain.NewBlockStore(dbm.NewMemDB(), dbm.NewMemDB())
	s.bcR = blockchain.NewBlockchainReactor(cfg, 0, s.store, true, &archive.Archive{})
	s.bcR.SetBlockVerifier(s.verifier)
	s.bcR.SetBlockExecuter(s.executer)
	evsw := types.NewEventSwitch()
	evsw.Start()
	defer func() { go evsw.Stop() }()
	s.bcR.SetEventSwitch(evsw)
	types.AddListenerForEvent(evsw, "c08", types.EventStringSwitchToConsensus(), func(types.TMEventData) { atomic.StoreInt32(&s.switched, 1) })
	s.node.sw.AddReactor("BLOCKCHAIN", s.bcR)
	if _, err := s.node.sw.Start(); err != nil {
		cr.run.Inconclusive("bc: switch start: " + err.Error())
		return
	}
	defer s.node.stop()

	// the honest peer
	hpriv, hinfo := newIdentity(fmt.Sprintf("c08-bc-honest-%d", sid))
	hrp, err := s.node.connect("honest", hinfo, hpriv)
	if err != nil {
		cr.run.Inconclusive(fmt.Sprintf("bc scenario %d: honest peer cannot connect: %v", sid, err))
		return
	}
	hp := &bcHonest{s: s, rp: hrp, release: make(chan struct{}), quit: make(chan struct{})}
	go hp.loop()
	defer func() { close(hp.quit); hp.rp.close() }()
	if !s.late {
		close(hp.release)
		hrp.send(bcCh, encBC(&xStatusResponse{s.chain.top}))
	}

	// the hostile burst
	var wg sync.WaitGroup
	nHostile := 1
	if s.mixed && rng.Intn(2) == 0 {
		nHostile = 2
	}
	if s.base.peers > nHostile {
		nHostile = s.base.peers
	}
	budget := 4
	if s.base.drop {
		budget = 6 // each answer is one try at the verification window
	}
	if s.mixed {
		budget = 10 + rng.Intn(10)
	}
	for i := 0; i < nHostile; i++ {
		wg.Add(1)
		go s.hostile(fmt.Sprintf("hostile%d", i), budget, &wg)
	}
	burstDone := make(chan struct{})
	go func() { wg.Wait(); close(burstDone) }()
	select {
	case <-burstDone:
	case <-time.After(12 * time.Second):
		close(s.stopHost)
		<-burstDone
	}
	if atomic.LoadInt32(&s.delivered) > 0 {
		cr.run.Count("bc_scenarios_with_hostile_input_delivered", 1)
	}

	// progress: only the honest peer is left; it answers everything and announces its height
	if s.late {
		close(hp.release)
	}
	rounds := 0
	for ; rounds < 160 && !s.done() && atomic.LoadInt32(&s.switched) == 0; rounds++ {
		if hp.rp.isClosed() {
			// the node dropped the honest peer (e.g. pool timeout): it dials again
			nrp, err := s.node.connectRetry("honest", hinfo, hpriv)
			if err != nil {
				time.Sleep(100 * time.Millisecond)
				continue
			}
			cr.run.Count("bc_honest_reconnects", 1)
			rel := make(chan struct{})
			close(rel)
			hp = &bcHonest{s: s, rp: nrp, release: rel, quit: hp.quit, served: atomic.LoadInt32(&hp.served)}
			go hp.loop()
		}
		hp.rp.send(bcCh, encBC(&xStatusResponse{s.chain.top}))
		waitUntil(250*time.Millisecond, func() bool { return s.done() || atomic.LoadInt32(&s.switched) != 0 })
	}
	cr.run.Count("bc_progress_rounds", int64(rounds))
	s.mtx.Lock()
	failed := s.failed
	s.mtx.Unlock()
	switch {
	case failed:
	case s.done():
		cr.run.Count("bc_sync_completed", 1)
		if rounds > 60 {
			cr.run.Count("bc_progress_only_after_timeouts", 1)
		}
		if s.base.name == "control-honest" && !s.mixed {
			cr.run.Count("bc_controls_passed", 1)
		}
		if atomic.LoadInt32(&s.delivered) > 0 {
			cr.run.Nontrivial(fmt.Sprintf("bc/%d/%s", sid, s.base.name))
		}
		if atomic.LoadInt32(&s.poolSaw) > 0 {
			cr.run.Count("bc_scenarios_hostile_material_reached_pool_routine", 1)
			cr.run.Distinct("bc_mutations_that_reached_pool_routine", s.base.name)
		}
	case atomic.LoadInt32(&s.switched) != 0:
		// the pool decided it had caught up (peers' claimed heights): consensus takes over; no verdict here
		cr.run.Count("bc_left_fast_sync_before_completion", 1)
	default:
		dump := goroutineDump("blockchain.")
		where := "no-progress"
		if strings.Contains(dump, "setBlock") && strings.Contains(dump, "chan send") {
			where = "AddBlock-blocked-on-gotBlockCh-holding-pool-mutex"
		}
		s.viol("blocksync-wedged:"+s.base.name+":"+where, fmt.Sprintf("after the hostile peers left, an honest peer that answered every request (%d served) and announced its height %d times did not get the node past height %d of %d", atomic.LoadInt32(&hp.served), rounds, s.nExecuted(), s.chain.top-1),
			map[string]interface{}{"executed": s.nExecuted(), "goroutines": dump})
	}
	if sid < 3 {
		cr.run.Sample(map[string]interface{}{"family": "bc", "scenario": sid, "mutation": s.base.name, "target": s.T, "late": s.late, "executed": s.nExecuted(), "hostile_messages": atomic.LoadInt32(&s.delivered)})
	}
}

func bcFamily() *family {
	return &family{
		name:     "bc",
		children: 10,
		total:    func() int { return lib.Pick(len(bcMutations())*4+30, len(bcMutations())*6+3000) },
		run:      bcScenario,
		watchdog: func(n int) time.Duration { return time.Duration(120+n*10) * time.Second },
		crashKey: func(site, routine string) string {
			if strings.Contains(routine, "poolRoutine") {
				return "blocksync-panic:" + site
			}
			return "blocksync-panic-outside-recover:" + routine + ":" + site
		},
		after: func(run *lib.Run, total int) {
			run.Require("bc_controls_passed", int64(lib.Pick(4, 6)))
			run.Require("bc_hostile_inputs", int64(total))
			run.Require("bc_reached_pool_routine", int64(total))
			run.Require("bc_sync_completed", int64(total*6/10))
			run.Require("bc_scenario_shapes", int64(len(bcMutations())*3))
			run.Require("bc_mutations_that_reached_pool_routine", 12)
		},
	}
}
