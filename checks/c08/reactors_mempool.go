package main

// Part B, mempool: the real MempoolReactor + Mempool in a real Switch. A hostile
// peer sends TxMessage encodings (nil, empty, random, huge, duplicated
// transactions) and raw bytes on the mempool channel; an honest observer peer
// is connected all the time (the node's per-peer broadcast routine, which has
// no recover, serves it).
//
// Oracle: the process stays alive; with mempool_enable_txs_limits the pool never
// holds more than the configured limit (+1 for the comparison the code uses, +1
// per concurrently sending peer); after the burst (and a block commit that
// removes what was reaped) honest transactions are accepted, reaped, and
// broadcast to the observer.

import (
	"bytes"
	"fmt"
	"path/filepath"
	"strings"
	"time"

	"github.com/spf13/viper"

	wire "github.com/dappledger/AnnChain/gemmill/go-wire"
	"github.com/dappledger/AnnChain/gemmill/mempool"
	"github.com/dappledger/AnnChain/gemmill/types"

	"verif/lib"
)

const mpCh = byte(0x30)

func encTx(tx types.Tx) []byte {
	return wire.BinaryBytes(struct{ mempool.MempoolMessage }{&mempool.TxMessage{Tx: tx}})
}

func decTx(b []byte) (tx types.Tx, ok bool) {
	defer func() {
		if r := recover(); r != nil {
			ok = false
		}
	}()
	if len(b) == 0 {
		return nil, false
	}
	_, m, err := mempool.DecodeMessage(b)
	if err != nil {
		return nil, false
	}
	if t, is := m.(*mempool.TxMessage); is {
		return t.Tx, true
	}
	return nil, false
}

func mpScenario(cr *childRun, sid int) {
	rng := lib.Rand("c08mp", int64(sid))
	cfg := viper.New()
	cfg.Set("mempool_broadcast", true)
	limits := sid%3 != 0
	cfg.Set("mempool_enable_txs_limits", limits)
	blockSize := 25
	cfg.Set("block_size", blockSize)
	if sid%2 == 1 {
		cfg.Set("mempool_wal_dir", filepath.Join(cr.base, fmt.Sprintf("mpwal-%d", sid)))
	} else {
		cfg.Set("mempool_wal_dir", "")
	}
	pool := mempool.NewMempool(cfg)
	memR := mempool.NewTxReactor(cfg, pool)
	node := newRNode(cr, "mp", cfg, "127.0.0.1:26656")
	node.sw.AddReactor("MEMPOOL", memR)
	if _, err := node.sw.Start(); err != nil {
		cr.run.Inconclusive("mp: switch start: " + err.Error())
		return
	}
	defer node.stop()
	viol := func(key, what string, extra map[string]interface{}) {
		m := map[string]interface{}{"scenario": sid, "seed": lib.Seed(), "family": "mp", "limits": limits,
			"replay": fmt.Sprintf("VERIF_SEED=%d VERIF_TIER=%s bin/c08 rworker mp /tmp/out.json %d 1 %d", lib.Seed(), lib.Tier(), sid, sid+1)}
		for k, v := range extra {
			m[k] = v
		}
		cr.run.ChildViolation(key, fmt.Sprintf("mp scenario %d: %s", sid, what), m)
	}

	opriv, oinfo := newIdentity(fmt.Sprintf("c08-mp-observer-%d", sid))
	obs, err := node.connect("observer", oinfo, opriv)
	if err != nil {
		cr.run.Inconclusive(fmt.Sprintf("mp scenario %d: observer cannot connect: %v", sid, err))
		return
	}
	defer obs.close()
	xpriv, xinfo := newIdentity(fmt.Sprintf("c08-mp-hostile-%d", sid))
	x, err := node.connectRetry("hostile", xinfo, xpriv)
	if err != nil {
		cr.run.Inconclusive(fmt.Sprintf("mp scenario %d: hostile peer cannot connect: %v", sid, err))
		return
	}
	defer func() { x.close() }()
	reconnects := 0
	ensure := func() bool {
		if !x.isClosed() {
			return true
		}
		if reconnects++; reconnects > 60 {
			return false
		}
		cr.run.Count("mp_hostile_reconnects", 1)
		nx, err := node.connectRetry("hostile", xinfo, xpriv)
		if err != nil {
			return false
		}
		x = nx
		return true
	}
	txLimit := blockSize * 2
	maxSeen := 0
	var earlier []types.Tx
	nIn := lib.Pick(120, 500)
	for k := 0; k < nIn; k++ {
		if !ensure() {
			break
		}
		var b []byte
		var kind string
		mayDrop := false
		switch g := rng.Intn(16); g {
		case 0:
			kind, b = "nil-tx", encTx(nil)
		case 1:
			kind, b = "empty-tx", encTx(types.Tx{})
		case 2, 3:
			tx := make([]byte, 1+rng.Intn(200))
			rng.Read(tx)
			earlier = append(earlier, tx)
			kind, b = "random-tx", encTx(tx)
		case 4:
			if len(earlier) > 0 {
				kind, b = "duplicate-tx", encTx(earlier[rng.Intn(len(earlier))])
			} else {
				kind, b = "empty-tx", encTx(types.Tx{})
			}
		case 5:
			if rng.Intn(4) == 0 {
				kind, b = "tx-100k", encTx(bytes.Repeat([]byte{byte(k)}, 100000))
			} else {
				kind, b = "tx-with-high-bytes", encTx(types.Tx(fmt.Sprintf("\xff\xfe\x80-%d", k)))
			}
		case 6:
			if rng.Intn(10) == 0 {
				kind, b = "tx-just-under-1MB", encTx(bytes.Repeat([]byte{byte(k)}, 1048576-16))
			} else {
				kind, b = "tx-with-newlines-and-nul", encTx(types.Tx(fmt.Sprintf("a\nb\x00c\r\n%d", k)))
			}
		case 7:
			if rng.Intn(10) == 0 {
				kind, b = "tx-over-1MB-limit", encTx(bytes.Repeat([]byte{byte(k)}, 1048576+4096))
			} else {
				kind, b = "tx-length-prefix-absurd", append([]byte{0x01, 0x08, 0x7f, 0xff, 0xff, 0xff, 0xff, 0xff, 0xff, 0xff}, []byte("short")...)
			}
			mayDrop = true
		case 8:
			b = make([]byte, 1+rng.Intn(200))
			rng.Read(b)
			kind, mayDrop = "random-bytes", true
		case 9:
			b = make([]byte, 1+rng.Intn(50))
			rng.Read(b)
			b[0] = 0x01
			kind, mayDrop = "type-byte-plus-garbage", true
		case 10:
			full := encTx(types.Tx("a transaction that is cut off"))
			kind, b, mayDrop = "truncated-tx-message", full[:1+rng.Intn(len(full)-1)], true
		case 11:
			kind, b, mayDrop = "empty-message", []byte{}, true
		case 12:
			kind, b, mayDrop = "unknown-type-byte", append([]byte{byte(2 + rng.Intn(250))}, []byte("payload")...), true
		case 13:
			kind, b = "tx-negative-length-prefix", []byte{0x01, 0xF1, 0x01}
			mayDrop = true
		default:
			// many distinct small transactions: push against the limit
			for j := 0; j < 12; j++ {
				tx := types.Tx(fmt.Sprintf("flood-%d-%d-%d", sid, k, j))
				cr.logInput("hostile", "flood-tx", mpCh, encTx(tx))
				x.send(mpCh, encTx(tx))
				cr.run.Count("mp_hostile_inputs", 1)
			}
			kind, b = "flood-tx", encTx(types.Tx(fmt.Sprintf("flood-%d-%d-last", sid, k)))
		}
		cr.logInput("hostile", kind, mpCh, b)
		cr.run.Count("mp_hostile_inputs", 1)
		cr.run.Count("mp_in_"+kind, 1)
		cr.run.Distinct("mp_input_kinds", kind)
		x.send(mpCh, b)
		if mayDrop {
			x.waitClosed(30 * time.Millisecond)
		}
		if sz := pool.Size(); sz > maxSeen {
			maxSeen = sz
		}
	}
	// everything the hostile peer sent has been handled when a marker it sends last shows up (or it was dropped)
	// commit is the stand-in for a block commit that removes what was reaped. A real commit
	// comes at least a consensus round after the transactions arrived: without the pause the
	// harness itself produces the schedule "list becomes non-empty and empty again before a
	// waiter in clist.FrontWait has returned", which panics in sync.WaitGroup (see report).
	commit := func(h int64) {
		time.Sleep(100 * time.Millisecond)
		pool.Update(h, pool.Reap(-1))
	}
	if ensure() {
		commit(1)
		marker := types.Tx(fmt.Sprintf("marker-%d", sid))
		x.send(mpCh, encTx(marker))
		waitUntil(8*time.Second, func() bool { return containsTx(pool.Reap(-1), marker) || x.isClosed() })
	}
	if sz := pool.Size(); sz > maxSeen {
		maxSeen = sz
	}
	if limits {
		cr.run.Count("mp_scenarios_with_limit", 1)
		if maxSeen > txLimit+1+2 {
			viol("mempool-size-exceeds-configured-limit", fmt.Sprintf("mempool_enable_txs_limits is on with limit %d but the pool held %d transactions", txLimit, maxSeen), map[string]interface{}{"limit": txLimit, "seen": maxSeen})
		}
	}
	x.close()

	// a block is committed with everything reaped, then honest traffic
	commit(2)
	if pool.Size() != 0 {
		viol("mempool-not-emptied-by-update", fmt.Sprintf("after Update with all reaped transactions the pool still holds %d", pool.Size()), nil)
	}
	for len(obs.in) > 0 {
		<-obs.in
	}
	hpriv, hinfo := newIdentity(fmt.Sprintf("c08-mp-honest-%d", sid))
	h, err := node.connect("honest", hinfo, hpriv)
	if err != nil {
		viol("mempool-honest-peer-cannot-connect-after-burst", err.Error(), nil)
		return
	}
	defer h.close()
	var honest []types.Tx
	for j := 0; j < 5; j++ {
		tx := types.Tx(fmt.Sprintf("honest-tx-%d-%d", sid, j))
		honest = append(honest, tx)
		h.send(mpCh, encTx(tx))
	}
	ok := waitUntil(10*time.Second, func() bool {
		r := pool.Reap(-1)
		for _, tx := range honest {
			if !containsTx(r, tx) {
				return false
			}
		}
		return true
	})
	if !ok {
		viol("mempool-honest-txs-not-accepted-after-hostile-burst", fmt.Sprintf("5 honest transactions sent after the burst; the pool reaps %d transactions and not all of them", len(pool.Reap(-1))), map[string]interface{}{"goroutines": goroutineDump("mempool.")})
		return
	}
	cr.run.Count("mp_honest_txs_accepted_and_reaped", int64(len(honest)))
	// the broadcast routine of the observer peer must still be alive
	seen := map[string]bool{}
	deadline := time.Now().Add(10 * time.Second)
	for len(seen) < len(honest) && time.Now().Before(deadline) && !obs.isClosed() {
		select {
		case m := <-obs.in:
			if tx, ok := decTx(m.b); ok && strings.HasPrefix(string(tx), "honest-tx-") {
				seen[string(tx)] = true
			}
		case <-time.After(50 * time.Millisecond):
		}
	}
	if len(seen) < len(honest) {
		viol("mempool-broadcast-stalled-after-hostile-burst", fmt.Sprintf("the observer peer received %d of %d honest transactions from the node's broadcast routine", len(seen), len(honest)), map[string]interface{}{"observer_closed": obs.isClosed(), "goroutines": goroutineDump("mempool.")})
		return
	}
	cr.run.Count("mp_honest_txs_broadcast_to_observer", int64(len(seen)))
	cr.run.Count("mp_controls_passed", 1)
	cr.run.Nontrivial(fmt.Sprintf("mp/%d", sid))
	if sid < 1 {
		cr.run.Sample(map[string]interface{}{"family": "mp", "scenario": sid, "inputs": nIn, "max_pool_size": maxSeen, "limits": limits})
	}
}

func containsTx(txs []types.Tx, tx types.Tx) bool {
	for _, t := range txs {
		if bytes.Equal(t, tx) {
			return true
		}
	}
	return false
}

func mpFamily() *family {
	return &family{
		name:     "mp",
		children: 2,
		total:    func() int { return lib.Pick(8, 160) },
		run:      mpScenario,
		watchdog: func(n int) time.Duration { return time.Duration(120+n*40) * time.Second },
		crashKey: func(site, routine string) string { return "mempool-panic-outside-recover:" + routine + ":" + site },
		after: func(run *lib.Run, total int) {
			run.Require("mp_hostile_inputs", int64(total*100))
			run.Require("mp_controls_passed", int64(total*8/10))
			run.Require("mp_input_kinds", 13)
		},
	}
}
