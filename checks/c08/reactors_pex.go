package main

// Part B, peer exchange: the real PEXReactor with a real AddrBook (temp file) in a
// real Switch. Hostile peers connect with hostile listen addresses in their node
// info (PEXReactor.AddPeer runs on the listener routine, which has no recover) and
// send pexRequest / pexAddrs messages: nil addresses, IPs of every length,
// ports 0 and 65535, the node's own address, thousands of addresses, absurd
// counts, raw bytes.
//
// Oracle: the process stays alive (the harness recovers only in its stand-in for
// the listener routine, to name the site); the address book stays within its
// bucket capacity; after the burst an honest pexRequest is answered with at most
// 250 addresses; the book can be saved and the saved file can be loaded again
// (loadFromFile panics on a file it cannot read: the node would not restart).

import (
	"bytes"
	"fmt"
	"math"
	"net"
	"os"
	"path/filepath"
	"runtime/debug"
	"time"

	"github.com/spf13/viper"

	wire "github.com/dappledger/AnnChain/gemmill/go-wire"
	"github.com/dappledger/AnnChain/gemmill/p2p"

	"verif/lib"
)

const pexCh = byte(0x00)

type PexMsg interface{}
type xPexRequest struct{}
type xPexAddrs struct{ Addrs []*p2p.NetAddress }

var _ = wire.RegisterInterface(
	struct{ PexMsg }{},
	wire.ConcreteType{&xPexRequest{}, 0x01},
	wire.ConcreteType{&xPexAddrs{}, 0x02},
)

func encPex(m PexMsg) []byte { return wire.BinaryBytes(struct{ PexMsg }{m}) }

func decPex(b []byte) (m PexMsg) {
	defer func() {
		if r := recover(); r != nil {
			m = nil
		}
	}()
	if len(b) == 0 {
		return nil
	}
	var n int
	var err error
	m = wire.ReadBinary(struct{ PexMsg }{}, bytes.NewReader(b), 0, &n, &err).(struct{ PexMsg }).PexMsg
	if err != nil {
		return nil
	}
	return m
}

var pexListenAddrs = []string{
	"5.6.7.8:26656", "", "no-port-at-all", ":0", ":26656", "300.1.1.1:80", "[::1]:26656", "1.2.3.4:99999", "1.2.3.4:-1", "\x00\x01:1",
	"1.2.3.4:26656:extra", "[fe80::1%lo0]:1", "0.0.0.0:0", "255.255.255.255:65535", "NODE-LISTEN-ADDR", "HONEST-PEER-KEY", "1.2.3.4:", "[]:1",
}

const pexBookCapacity = 256*65 + 64*65

func pexScenario(cr *childRun, sid int) {
	rng := lib.Rand("c08pex", int64(sid))
	strict := sid%2 == 1
	started := sid == 1 && lib.Thorough() // see "save and reload" below
	file := filepath.Join(cr.base, fmt.Sprintf("addrbook-%d.json", sid))
	book := p2p.NewAddrBook(file, strict)
	if started {
		book.Start()
	}
	pexR := p2p.NewPEXReactor(book)
	cfg := viper.New()
	cfg.Set("dial_timeout_seconds", 1)
	nodeListen := "127.0.0.1:26656"
	node := newRNode(cr, "pex", cfg, nodeListen)
	node.sw.AddReactor("PEX", pexR)
	t0 := time.Now()
	if _, err := node.sw.Start(); err != nil {
		cr.run.Inconclusive("pex: switch start: " + err.Error())
		return
	}
	defer node.stop()
	viol := func(key, what string, extra map[string]interface{}) {
		m := map[string]interface{}{"scenario": sid, "seed": lib.Seed(), "family": "pex", "addrbook_strict": strict, "addrbook_started": started,
			"replay": fmt.Sprintf("VERIF_SEED=%d VERIF_TIER=%s bin/c08 rworker pex /tmp/out.json %d 1 %d", lib.Seed(), lib.Tier(), sid, sid+1)}
		for k, v := range extra {
			m[k] = v
		}
		cr.run.ChildViolation(key, fmt.Sprintf("pex scenario %d: %s", sid, what), m)
	}
	hpriv, hinfo := newIdentity(fmt.Sprintf("c08-pex-honest-%d", sid))
	hinfo.ListenAddr = "9.8.7.6:26656"
	h, err := node.connect("honest", hinfo, hpriv)
	if err != nil {
		cr.run.Inconclusive(fmt.Sprintf("pex scenario %d: honest peer cannot connect: %v", sid, err))
		return
	}
	defer h.close()

	// hostile peers with hostile listen addresses (AddPeer runs on the listener routine)
	var x *rawPeer
	nla := 3
	if sid == 0 {
		nla = len(pexListenAddrs)
	}
	for k := 0; k < nla; k++ {
		la := pexListenAddrs[(sid*3+k)%len(pexListenAddrs)]
		switch la {
		case "NODE-LISTEN-ADDR":
			la = nodeListen
		case "HONEST-PEER-KEY":
			la = hinfo.PubKey.KeyString()
		}
		xpriv, xinfo := newIdentity(fmt.Sprintf("c08-pex-hostile-%d-%d", sid, k))
		xinfo.ListenAddr = la
		cr.logInput("hostile", fmt.Sprintf("connect with node info listen address %q", la), pexCh, []byte(la))
		cr.run.Count("pex_hostile_inputs", 1)
		cr.run.Count("pex_in_listen-addr", 1)
		p, err := node.connect(fmt.Sprintf("hostile%d", k), xinfo, xpriv)
		if err != nil {
			cr.run.Count("pex_hostile_connects_refused", 1)
			continue
		}
		if x != nil {
			x.close()
		}
		x = p
	}
	xpriv, xinfo := newIdentity(fmt.Sprintf("c08-pex-hostile-%d", sid))
	xinfo.ListenAddr = "5.6.7.8:26656"
	ensure := func() bool {
		if x != nil && !x.isClosed() {
			return true
		}
		cr.run.Count("pex_hostile_reconnects", 1)
		p, err := node.connectRetry("hostile", xinfo, xpriv)
		if err != nil {
			return false
		}
		x = p
		return true
	}
	defer func() {
		if x != nil {
			x.close()
		}
	}()
	routable := func() *p2p.NetAddress {
		ip := net.IPv4(byte(11+rng.Intn(200)), byte(rng.Intn(256)), byte(rng.Intn(256)), byte(1+rng.Intn(250)))
		if rng.Intn(4) == 0 {
			ip = ip.To4()
		}
		return p2p.NewNetAddressIPPort(ip, uint16(1+rng.Intn(65535)))
	}
	nIn := lib.Pick(90, 300)
	for k := 0; k < nIn; k++ {
		if !ensure() {
			break
		}
		var b []byte
		var kind string
		switch g := rng.Intn(15); g {
		case 0:
			kind, b = "request", encPex(&xPexRequest{})
		case 1:
			kind, b = "addrs-nil-entry", encPex(&xPexAddrs{[]*p2p.NetAddress{routable(), nil, routable()}})
		case 2:
			kind, b = "addrs-empty", encPex(&xPexAddrs{})
		case 3:
			var as []*p2p.NetAddress
			for _, l := range []int{0, 1, 3, 4, 5, 15, 16, 17, 100} {
				ip := make(net.IP, l)
				rng.Read(ip)
				as = append(as, &p2p.NetAddress{IP: ip, Port: uint16(rng.Intn(65536))})
			}
			kind, b = "addrs-ip-of-every-length", encPex(&xPexAddrs{as})
		case 4:
			kind, b = "addrs-nil-ip", encPex(&xPexAddrs{[]*p2p.NetAddress{{IP: nil, Port: 1}, {IP: net.IP{}, Port: 0}}})
		case 5:
			kind, b = "addrs-ports-0-and-65535", encPex(&xPexAddrs{[]*p2p.NetAddress{p2p.NewNetAddressIPPort(net.ParseIP("8.8.8.8"), 0), p2p.NewNetAddressIPPort(net.ParseIP("8.8.4.4"), 65535)}})
		case 6:
			own, _ := p2p.NewNetAddressString(nodeListen)
			kind, b = "addrs-own-and-special", encPex(&xPexAddrs{[]*p2p.NetAddress{own, p2p.NewNetAddressIPPort(net.ParseIP("0.0.0.0"), 1), p2p.NewNetAddressIPPort(net.ParseIP("255.255.255.255"), 1),
				p2p.NewNetAddressIPPort(net.ParseIP("::"), 1), p2p.NewNetAddressIPPort(net.ParseIP("2001:db8::1"), 1), p2p.NewNetAddressIPPort(net.ParseIP("2002:0102:0304::1"), 1),
				p2p.NewNetAddressIPPort(net.ParseIP("2001:0:1::1"), 1), p2p.NewNetAddressIPPort(net.ParseIP("64:ff9b::102:304"), 1), p2p.NewNetAddressIPPort(net.ParseIP("fe80::1"), 1), p2p.NewNetAddressIPPort(net.ParseIP("2001:470::1"), 1)}})
		case 7, 8, 9:
			var as []*p2p.NetAddress
			for j := 0; j < 250; j++ {
				as = append(as, routable())
			}
			kind, b = "addrs-250-routable", encPex(&xPexAddrs{as})
		case 10:
			var as []*p2p.NetAddress
			a := routable()
			for j := 0; j < 3000; j++ {
				as = append(as, a)
			}
			kind, b = "addrs-3000-times-the-same", encPex(&xPexAddrs{as})
		case 11:
			var as []*p2p.NetAddress
			for j := 0; j < 20000; j++ {
				as = append(as, routable())
			}
			kind, b = "addrs-20000", encPex(&xPexAddrs{as})
		case 12:
			kind, b = "addrs-absurd-count", append([]byte{0x02, 0x08, 0x7f, 0xff, 0xff, 0xff, 0xff, 0xff, 0xff, 0xff}, []byte{1, 1, 4, 1, 2, 3, 4, 0, 80}...)
		case 13:
			b = make([]byte, rng.Intn(120))
			rng.Read(b)
			kind = "random-bytes"
		default:
			full := encPex(&xPexAddrs{[]*p2p.NetAddress{routable(), routable()}})
			if rng.Intn(2) == 0 {
				kind, b = "addrs-truncated", full[:1+rng.Intn(len(full)-1)]
			} else {
				full[1+rng.Intn(len(full)-1)] ^= byte(1 << uint(rng.Intn(8)))
				kind, b = "addrs-bitflip", full
			}
		}
		cr.logInput("hostile", kind, pexCh, b)
		cr.run.Count("pex_hostile_inputs", 1)
		cr.run.Count("pex_in_"+kind, 1)
		cr.run.Distinct("pex_input_kinds", kind)
		x.send(pexCh, b)
		if kind == "random-bytes" || kind == "addrs-nil-entry" || kind == "addrs-truncated" || kind == "addrs-absurd-count" {
			x.waitClosed(30 * time.Millisecond)
		}
		if sz := book.Size(); sz > pexBookCapacity || sz < 0 {
			viol("pex-addrbook-size-out-of-bounds", fmt.Sprintf("address book size %d outside [0, %d] after %s", sz, pexBookCapacity, kind), nil)
			break
		}
	}
	if sid == 0 {
		// let the ensure-peers routine (no recover) run at least once over the hostile book
		for time.Since(t0) < 16*time.Second {
			time.Sleep(100 * time.Millisecond)
		}
		cr.run.Count("pex_ensure_peers_routine_ran_over_hostile_book", 1)
	}
	// progress: an honest request is answered
	for len(h.in) > 0 {
		<-h.in
	}
	h.send(pexCh, encPex(&xPexRequest{}))
	answered := false
	deadline := time.Now().Add(10 * time.Second)
	for !answered && time.Now().Before(deadline) && !h.isClosed() {
		select {
		case m := <-h.in:
			if a, ok := decPex(m.b).(*xPexAddrs); ok {
				answered = true
				cr.run.Count("pex_honest_requests_answered", 1)
				if len(a.Addrs) > 250 {
					viol("pex-selection-larger-than-250", fmt.Sprintf("the answer to a pexRequest carries %d addresses", len(a.Addrs)), nil)
				}
			}
		case <-time.After(50 * time.Millisecond):
		}
	}
	sz := book.Size()
	cr.run.Count("pex_book_size_sum", int64(sz))
	if sz > pexBookCapacity || sz < 0 {
		viol("pex-addrbook-size-out-of-bounds", fmt.Sprintf("address book size %d outside [0, %d]", sz, pexBookCapacity), nil)
	}
	if !answered && sz > 0 {
		viol("pex-honest-request-not-answered-after-hostile-burst", fmt.Sprintf("an honest pexRequest got no answer (book size %d, honest connection closed: %v)", sz, h.isClosed()), map[string]interface{}{"goroutines": goroutineDump("p2p.(*PEXReactor)", "p2p.(*AddrBook)")})
		return
	}
	// save and reload. AddrBook.Stop() cannot be used to force a save: BaseService.Stop calls
	// OnStop (which waits for saveRoutine) before it closes Quit (which saveRoutine waits for),
	// so it blocks forever; and angine.go never starts the book. The only reachable save is
	// saveRoutine's two-minute ticker: waited for in one thorough scenario.
	if started {
		func() {
			defer func() {
				if r := recover(); r != nil {
					fileHead, _ := readHead(file, 3000)
					viol("pex-saved-addrbook-cannot-be-loaded:"+stackSite(string(debug.Stack())), fmt.Sprintf("the address book file written after the hostile burst makes the next start panic: %v", r), map[string]interface{}{"stack": string(debug.Stack()), "file_head": fileHead})
				}
			}()
			for time.Since(t0) < 125*time.Second {
				time.Sleep(200 * time.Millisecond)
			}
			waitUntil(10*time.Second, func() bool { _, err := os.Stat(file); return err == nil })
			if _, err := os.Stat(file); err != nil {
				if sz > 0 {
					cr.run.Count("pex_book_not_saved", 1)
				}
				return
			}
			cr.run.Count("pex_book_saved", 1)
			b2 := p2p.NewAddrBook(file, strict)
			b2.Start()
			cr.run.Count("pex_book_reloaded", 1)
			if b2.Size() > pexBookCapacity {
				viol("pex-addrbook-size-out-of-bounds", fmt.Sprintf("reloaded address book size %d", b2.Size()), nil)
			}
		}()
	}
	cr.run.Count("pex_controls_passed", 1)
	cr.run.Nontrivial(fmt.Sprintf("pex/%d", sid))
	if sid < 1 {
		cr.run.Sample(map[string]interface{}{"family": "pex", "scenario": sid, "inputs": nIn, "book_size": sz, "strict": strict})
	}
	_ = math.MaxInt64
}

func readHead(path string, n int) (string, error) {
	f, err := os.Open(path)
	if err != nil {
		return "", err
	}
	defer f.Close()
	b := make([]byte, n)
	k, _ := f.Read(b)
	return string(b[:k]), nil
}

func pexFamily() *family {
	return &family{
		name:     "pex",
		children: 3,
		total:    func() int { return lib.Pick(18, 360) },
		run:      pexScenario,
		watchdog: func(n int) time.Duration { return time.Duration(150+n*40) * time.Second },
		crashKey: func(site, routine string) string { return "pex-panic-outside-recover:" + routine + ":" + site },
		after: func(run *lib.Run, total int) {
			run.Require("pex_hostile_inputs", int64(total*60))
			run.Require("pex_controls_passed", int64(total*7/10))
			run.Require("pex_input_kinds", 13)
			if lib.Thorough() {
				run.Require("pex_book_reloaded", 1)
			}
		},
	}
}
