// C08 — no peer input can crash or wedge an honest node (consensus channels).
//
// One real ConsensusState V behind its real ConsensusReactor. Hostile bytes go
// through the real path: ConsensusReactor.Receive (decode, peer-state updates,
// queueing) and then the consensus goroutine's handling of the queued message
// (stepped through the verif shim). All other validators are puppets of the
// harness; they behave honestly, except one Byzantine validator B (< 1/3
// power) whose key signs the hostile messages.
//
// Oracle:
//
//	(a) a panic inside Receive is inside the per-connection recover domain (the
//	    peer is dropped: allowed, counted). A panic while the consensus
//	    goroutine handles a queued message kills the node: VIOLATION, keyed by
//	    panic site. A child process that dies (fatal error, OOM under the
//	    address-space limit) with its last logged input: VIOLATION.
//	(b) messages built to fail validation (forged signature, index out of
//	    range, foreign height, tampered part) leave the RoundState digest
//	    unchanged.
//	(c) after the hostile burst, honest traffic makes V commit the height within
//	    a bound of steps.
package main

import (
	"bytes"
	"fmt"
	"io/ioutil"
	"math"
	"math/rand"
	"os"
	"path/filepath"
	"runtime/debug"
	"strconv"
	"strings"
	"syscall"
	"time"

	"github.com/spf13/viper"

	"github.com/dappledger/AnnChain/gemmill/consensus/pbft"
	crypto "github.com/dappledger/AnnChain/gemmill/go-crypto"
	wire "github.com/dappledger/AnnChain/gemmill/go-wire"
	gcmn "github.com/dappledger/AnnChain/gemmill/modules/go-common"
	"github.com/dappledger/AnnChain/gemmill/p2p"
	"github.com/dappledger/AnnChain/gemmill/types"

	"verif/lib"
	"verif/sim"
)

const prop = "C08"

type blk struct {
	id    types.BlockID
	parts *types.PartSet
	block *types.Block
}

type world struct {
	run       *lib.Run
	c         int64
	rng       *rand.Rand
	net       *sim.Net
	adv       *sim.Adversary
	V, B      int // node under test, Byzantine puppet
	vnode     *sim.Node
	n         int
	powers    []int64
	conR      *pbft.ConsensusReactor
	peer      *p2p.Peer
	inlog     *os.File
	state     string
	failed    bool
	nmsg      int
	commitBlk *blk
	voted     map[string]bool // honest puppets: one vote per (height, round, type, puppet)
	far       map[int64]bool  // rounds far ahead for which this peer sent votes that fail validation (at height farH)
	farH      int64
}

func (w *world) rs() *pbft.RoundState { return w.vnode.CS.VerifRoundState() }

func panicSite(stack string) string {
	lines := strings.Split(stack, "\n")
	for i, l := range lines {
		if strings.Contains(l, "AnnChain/") && !strings.Contains(l, "PanicSanity") && !strings.Contains(l, "PanicCrisis") && !strings.Contains(l, "PanicConsensus") && !strings.Contains(l, "verif_shim") && !strings.HasPrefix(l, "\t") {
			l = strings.TrimSpace(l)
			if k := strings.Index(l, "("); k > 0 && strings.HasSuffix(l, ")") {
				// keep receiver type, drop arguments
				if j := strings.LastIndex(l, "("); j > 0 {
					l = l[:j]
				}
			}
			if j := strings.LastIndex(l, "AnnChain/"); j >= 0 {
				l = l[j+len("AnnChain/"):]
			}
			_ = i
			return l
		}
	}
	return "unknown"
}

func (w *world) viol(key, what string, extra map[string]interface{}) {
	if w.failed {
		return
	}
	w.failed = true
	tr := w.net.Trace
	if len(tr) > 60 {
		tr = tr[len(tr)-60:]
	}
	m := map[string]interface{}{"case": w.c, "seed": lib.Seed(), "powers": w.powers, "V": w.V, "byzantine": w.B, "receiver_state": w.state, "trace_tail": tr}
	for k, v := range extra {
		m[k] = v
	}
	w.run.ChildViolation(key, fmt.Sprintf("case %d (receiver state %s): %s", w.c, w.state, what), m)
}

// drain lets V process everything queued (own messages).
func (w *world) drain() {
	for w.net.StepInternal(w.V) {
	}
}

// ---- honest puppet traffic ---------------------------------------------------

func (w *world) proposerAt(r int64) int {
	rs := w.rs()
	vs := rs.Validators.Copy()
	if r > rs.Round {
		vs.IncrementAccum(r - rs.Round)
	}
	addr := vs.Proposer().Address
	for _, nd := range w.net.Nodes {
		if bytes.Equal(nd.Addr, addr) {
			return nd.Idx
		}
	}
	return -1
}

func (w *world) honestDeliver(msg pbft.ConsensusMessage, from int) {
	e := w.net.Publish(from, false, msg)
	w.net.Deliver(w.V, e.ID)
	w.drain()
}

func (w *world) newBlock(proposer int) *blk {
	b, ps := w.adv.MakeBlock(w.vnode, proposer, []types.Tx{types.Tx(fmt.Sprintf("c08-%d-%d", w.c, w.rng.Intn(1<<30)))})
	if b == nil {
		return nil
	}
	return &blk{id: types.BlockID{Hash: b.Hash(), PartsHeader: ps.Header()}, parts: ps, block: b}
}

func (w *world) honestVotes(typ byte, r int64, b *blk, skipV bool) {
	rs := w.rs()
	h := rs.Height
	var bid types.BlockID
	if b != nil {
		bid = b.id
	}
	for j := 0; j < w.n; j++ {
		if j == w.V {
			continue
		}
		k := fmt.Sprintf("%d/%d/%d/%d", h, r, typ, j)
		if w.voted[k] {
			continue
		}
		if w.rs().Height != h {
			return
		}
		w.voted[k] = true
		w.honestDeliver(&pbft.VoteMessage{Vote: w.net.SignVote(w.rs().Validators, j, h, r, typ, bid)}, j)
	}
}

func (w *world) fire(step pbft.RoundStepType) bool {
	nd := w.vnode
	h := w.rs().Height
	for k := len(nd.Timeouts) - 1; k >= 0; k-- {
		if nd.Timeouts[k].Step == step && nd.Timeouts[k].Height == h {
			w.net.Fire(w.V, k)
			w.drain()
			return true
		}
	}
	return false
}

// ownBlock returns V's own complete proposal block, if any.
func (w *world) ownBlock() *blk {
	rs := w.rs()
	if rs.ProposalBlock != nil && rs.ProposalBlockParts != nil && rs.ProposalBlockParts.IsComplete() {
		return &blk{id: types.BlockID{Hash: rs.ProposalBlock.Hash(), PartsHeader: rs.ProposalBlockParts.Header()}, parts: rs.ProposalBlockParts, block: rs.ProposalBlock}
	}
	return nil
}

// propose makes the round's proposal reach V (V proposes itself when it is its turn).
func (w *world) propose(sendParts int) *blk {
	rs := w.rs()
	r := rs.Round
	p := w.proposerAt(r)
	if p == w.V {
		w.drain()
		return w.ownBlock()
	}
	if p < 0 {
		return nil
	}
	b := w.newBlock(p)
	if b == nil {
		return nil
	}
	w.honestDeliver(&pbft.ProposalMessage{Proposal: w.net.SignProposal(p, rs.Height, r, b.parts.Header(), -1, types.BlockID{})}, p)
	for i := 0; i < b.parts.Total() && i < sendParts; i++ {
		w.honestDeliver(&pbft.BlockPartMessage{Height: rs.Height, Round: r, Part: b.parts.GetPart(i)}, p)
	}
	return b
}

// finishHeight completes the current height with honest traffic; returns whether V committed.
func (w *world) finishHeight() bool {
	h := w.rs().Height
	if b := w.commitBlk; b != nil && w.rs().Step == pbft.RoundStepCommit {
		// V waits for the block that +2/3 precommitted: its peers serve the parts
		for i := 0; i < b.parts.Total() && w.rs().Height == h; i++ {
			w.honestDeliver(&pbft.BlockPartMessage{Height: h, Round: w.rs().CommitRound, Part: b.parts.GetPart(i)}, w.B)
		}
	}
	w.commitBlk = nil
	for round := 0; round < 12 && w.rs().Height == h; round++ {
		w.fire(pbft.RoundStepNewHeight)
		if w.rs().Height != h {
			break
		}
		rs := w.rs()
		r := rs.Round
		var b *blk
		if rs.LockedBlock != nil {
			b = &blk{id: types.BlockID{Hash: rs.LockedBlock.Hash(), PartsHeader: rs.LockedBlockParts.Header()}, parts: rs.LockedBlockParts, block: rs.LockedBlock}
		} else if ob := w.ownBlock(); ob != nil {
			b = ob
		} else if rs.Step <= pbft.RoundStepPropose && rs.Proposal == nil {
			b = w.propose(1 << 30)
		}
		if b == nil {
			// nobody can agree on a block in this round: everybody votes nil and moves on
			w.fire(pbft.RoundStepPropose)
			w.honestVotes(types.VoteTypePrevote, r, nil, true)
			w.fire(pbft.RoundStepPrevoteWait)
			w.honestVotes(types.VoteTypePrecommit, r, nil, true)
			w.fire(pbft.RoundStepPrecommitWait)
			continue
		}
		// make sure V has the parts
		for i := 0; i < b.parts.Total() && w.rs().Height == h; i++ {
			w.honestDeliver(&pbft.BlockPartMessage{Height: h, Round: r, Part: b.parts.GetPart(i)}, w.B)
		}
		w.fire(pbft.RoundStepPropose)
		w.honestVotes(types.VoteTypePrevote, r, b, true)
		w.fire(pbft.RoundStepPrevoteWait)
		w.honestVotes(types.VoteTypePrecommit, r, b, true)
		if w.rs().Height == h {
			for i := 0; i < b.parts.Total() && w.rs().Height == h; i++ {
				w.honestDeliver(&pbft.BlockPartMessage{Height: h, Round: r, Part: b.parts.GetPart(i)}, w.B)
			}
		}
		if w.rs().Height == h {
			w.fire(pbft.RoundStepPrecommitWait)
		}
	}
	return w.rs().Height > h
}

// reach drives V into one of the receiver states.
func (w *world) reach(state string) {
	w.state = state
	switch state {
	case "newheight":
		// nothing: V waits for the NewHeight timeout (LastCommit is nil at height 1)
	case "propose-empty":
		w.fire(pbft.RoundStepNewHeight)
	case "propose-missing-parts":
		w.fire(pbft.RoundStepNewHeight)
		w.propose(0)
	case "prevote":
		w.fire(pbft.RoundStepNewHeight)
		w.propose(1 << 30)
		w.fire(pbft.RoundStepPropose)
	case "prevotewait":
		w.fire(pbft.RoundStepNewHeight)
		w.fire(pbft.RoundStepPropose)
		w.honestVotes(types.VoteTypePrevote, w.rs().Round, nil, true)
	case "precommit-locked":
		w.fire(pbft.RoundStepNewHeight)
		b := w.propose(1 << 30)
		w.fire(pbft.RoundStepPropose)
		if b != nil {
			w.honestVotes(types.VoteTypePrevote, w.rs().Round, b, true)
		}
	case "precommitwait":
		w.fire(pbft.RoundStepNewHeight)
		w.fire(pbft.RoundStepPropose)
		w.honestVotes(types.VoteTypePrevote, w.rs().Round, nil, true)
		w.fire(pbft.RoundStepPrevoteWait)
		w.honestVotes(types.VoteTypePrecommit, w.rs().Round, nil, true)
	case "commit-waiting-for-block":
		w.fire(pbft.RoundStepNewHeight)
		r := w.rs().Round
		if p := w.proposerAt(r); p >= 0 && p != w.V {
			if b := w.newBlock(p); b != nil {
				w.commitBlk = b
				w.honestVotes(types.VoteTypePrecommit, r, b, true) // +2/3 precommits for a block V has never seen
			}
		}
	}
}

// ---- hostile input ------------------------------------------------------------

type hostile struct {
	ch      byte
	bytes   []byte
	desc    string
	invalid bool // built to fail validation: digest must not change
}

func enc(msg pbft.ConsensusMessage) []byte {
	return wire.BinaryBytes(struct{ pbft.ConsensusMessage }{msg})
}

var ints = []int64{-1, 0, 1, 2, math.MinInt64, math.MaxInt64, math.MaxInt32, -math.MaxInt32, 1 << 40, 99}

func (w *world) pickInt() int64 { return ints[w.rng.Intn(len(ints))] }

func (w *world) byzVote(h, r int64, typ byte, bid types.BlockID, idx int, addr []byte, forge bool) *types.Vote {
	v := &types.Vote{ValidatorAddress: addr, ValidatorIndex: idx, Height: h, Round: r, Type: typ, BlockID: bid}
	k := w.net.Keys[w.B]
	if forge {
		k = crypto.GenPrivKeyEd25519FromSecret([]byte("c08-forger"))
	}
	v.Signature = k.Sign(types.SignBytes(w.net.Cfg.ChainID, v))
	return v
}

func (w *world) genHostile() hostile {
	rs := w.rs()
	h, r := rs.Height, rs.Round
	bIdx := w.net.ValIndex(rs.Validators, w.B)
	bAddr := w.net.Nodes[w.B].Addr
	someID := types.BlockID{Hash: []byte("hostile-block-hash-0"), PartsHeader: types.PartSetHeader{Total: 1, Hash: []byte("hostile-parts-hash-0")}}
	if rs.ProposalBlockParts != nil && w.rng.Float64() < 0.5 {
		someID.PartsHeader = rs.ProposalBlockParts.Header()
		if rs.ProposalBlock != nil {
			someID.Hash = rs.ProposalBlock.Hash()
		}
	}
	typ := []byte{types.VoteTypePrevote, types.VoteTypePrecommit}[w.rng.Intn(2)]
	switch k := w.rng.Intn(24); k {
	case 22, 23: // a copy of a vote the receiver already holds, with the signature removed / replaced
		var held []*types.Vote
		if rs.Votes != nil {
			for rr := int64(0); rr <= rs.Round; rr++ {
				for _, vs := range []*types.VoteSet{rs.Votes.Prevotes(rr), rs.Votes.Precommits(rr)} {
					if vs == nil {
						continue
					}
					for i := 0; i < w.n; i++ {
						if v := vs.GetByIndex(i); v != nil {
							held = append(held, v)
						}
					}
				}
			}
		}
		if len(held) == 0 {
			return hostile{pbft.VoteChannel, enc(&pbft.VoteMessage{}), "nil vote", false}
		}
		cp := *held[w.rng.Intn(len(held))]
		if k == 22 {
			cp.Signature = nil
			return hostile{pbft.VoteChannel, enc(&pbft.VoteMessage{Vote: &cp}), "heldvote copy without signature", true}
		}
		cp.Signature = crypto.GenPrivKeyEd25519FromSecret([]byte("c08-forger")).Sign([]byte("something else"))
		return hostile{pbft.VoteChannel, enc(&pbft.VoteMessage{Vote: &cp}), "heldvote copy with another signature", true}
	case 0: // random bytes on a random channel
		b := make([]byte, 1+w.rng.Intn(200))
		w.rng.Read(b)
		return hostile{[]byte{pbft.StateChannel, pbft.DataChannel, pbft.VoteChannel, pbft.VoteSetBitsChannel, 0x77}[w.rng.Intn(5)], b, "random bytes", false}
	case 1: // valid type byte followed by garbage
		b := make([]byte, 1+w.rng.Intn(100))
		w.rng.Read(b)
		b[0] = []byte{0x01, 0x02, 0x11, 0x12, 0x13, 0x14, 0x15, 0x16, 0x17}[w.rng.Intn(9)]
		return hostile{[]byte{pbft.StateChannel, pbft.DataChannel, pbft.VoteChannel, pbft.VoteSetBitsChannel}[w.rng.Intn(4)], b, "type byte + garbage", false}
	case 2: // vote with hostile index
		idx := int(w.pickInt())
		return hostile{pbft.VoteChannel, enc(&pbft.VoteMessage{Vote: w.byzVote(h, r, typ, someID, idx, bAddr, false)}), fmt.Sprintf("vote index %d", idx), idx != bIdx}
	case 3: // vote with empty / wrong address
		addr := [][]byte{nil, {}, []byte("short"), w.net.Nodes[w.V].Addr}[w.rng.Intn(4)]
		return hostile{pbft.VoteChannel, enc(&pbft.VoteMessage{Vote: w.byzVote(h, r, typ, someID, bIdx, addr, false)}), fmt.Sprintf("vote address %X", addr), true}
	case 4: // vote with hostile height
		hh := w.pickInt()
		return hostile{pbft.VoteChannel, enc(&pbft.VoteMessage{Vote: w.byzVote(hh, r, typ, someID, bIdx, bAddr, false)}), fmt.Sprintf("vote height %d", hh), hh != h && hh != h-1}
	case 5: // vote for the previous height (LastCommit may be nil at height 1)
		return hostile{pbft.VoteChannel, enc(&pbft.VoteMessage{Vote: w.byzVote(h-1, w.pickInt(), types.VoteTypePrecommit, someID, bIdx, bAddr, false)}), "precommit for height-1", false}
	case 6: // vote with hostile round
		rr := w.pickInt()
		return hostile{pbft.VoteChannel, enc(&pbft.VoteMessage{Vote: w.byzVote(h, rr, typ, someID, bIdx, bAddr, false)}), fmt.Sprintf("vote round %d", rr), false}
	case 7: // vote with hostile type
		tt := byte(w.rng.Intn(256))
		return hostile{pbft.VoteChannel, enc(&pbft.VoteMessage{Vote: w.byzVote(h, r, tt, someID, bIdx, bAddr, false)}), fmt.Sprintf("vote type %d", tt), false}
	case 8: // forged signature
		return hostile{pbft.VoteChannel, enc(&pbft.VoteMessage{Vote: w.byzVote(h, r, typ, someID, bIdx, bAddr, true)}), "vote forged signature", true}
	case 9: // nil vote
		return hostile{pbft.VoteChannel, enc(&pbft.VoteMessage{}), "nil vote", false}
	case 10: // vote with hostile parts header
		id := someID
		id.PartsHeader.Total = int(w.pickInt())
		return hostile{pbft.VoteChannel, enc(&pbft.VoteMessage{Vote: w.byzVote(h, r, typ, id, bIdx, bAddr, false)}), fmt.Sprintf("vote parts total %d", id.PartsHeader.Total), false}
	case 11: // proposal by B with hostile part-set total (valid signature only helps when B is the proposer)
		tot := int(w.pickInt())
		p := w.net.SignProposal(w.B, h, r, types.PartSetHeader{Total: tot, Hash: []byte("hostile-parts-hash-1")}, -1, types.BlockID{})
		return hostile{pbft.DataChannel, enc(&pbft.ProposalMessage{Proposal: p}), fmt.Sprintf("proposal parts total %d", tot), false}
	case 12: // proposal with hostile POL round / height / round
		p := w.net.SignProposal(w.B, []int64{h, w.pickInt()}[w.rng.Intn(2)], []int64{r, w.pickInt()}[w.rng.Intn(2)], types.PartSetHeader{Total: 1, Hash: []byte("hostile-parts-hash-2")}, w.pickInt(), someID)
		return hostile{pbft.DataChannel, enc(&pbft.ProposalMessage{Proposal: p}), fmt.Sprintf("proposal %d/%d pol %d", p.Height, p.Round, p.POLRound), false}
	case 13: // nil proposal
		return hostile{pbft.DataChannel, enc(&pbft.ProposalMessage{}), "nil proposal", false}
	case 14: // block part with hostile index / nil part / tampered bytes
		part := &types.Part{Index: int(w.pickInt()), Bytes: []byte("hostile part bytes")}
		inv := true
		if rs.ProposalBlockParts != nil && rs.ProposalBlockParts.Total() > 0 {
			for i := 0; i < rs.ProposalBlockParts.Total(); i++ {
				if g := rs.ProposalBlockParts.GetPart(i); g != nil {
					cp := *g
					switch w.rng.Intn(3) {
					case 0:
						cp.Index = int(w.pickInt())
					case 1:
						cp.Bytes = append([]byte{0xff}, cp.Bytes...)
					default:
						cp.Proof.Aunts = append([][]byte{[]byte("extra-aunt-extra-aunt")}, cp.Proof.Aunts...)
					}
					part = &cp
					break
				}
			}
		}
		hh := []int64{h, h, w.pickInt()}[w.rng.Intn(3)]
		return hostile{pbft.DataChannel, enc(&pbft.BlockPartMessage{Height: hh, Round: []int64{r, w.pickInt()}[w.rng.Intn(2)], Part: part}), fmt.Sprintf("block part index %d height %d", part.Index, hh), inv}
	case 15:
		return hostile{pbft.DataChannel, enc(&pbft.BlockPartMessage{Height: h, Round: r}), "nil block part", false}
	case 16: // round-step message with hostile values
		m := &pbft.NewRoundStepMessage{Height: w.pickInt(), Round: w.pickInt(), Step: pbft.RoundStepType(w.rng.Intn(256)), SecondsSinceStartTime: int(w.pickInt()), LastCommitRound: w.pickInt()}
		return hostile{pbft.StateChannel, enc(m), "new round step", true}
	case 17: // has-vote with hostile index
		m := &pbft.HasVoteMessage{Height: []int64{h, w.pickInt()}[w.rng.Intn(2)], Round: []int64{r, w.pickInt()}[w.rng.Intn(2)], Type: typ, Index: int(w.pickInt())}
		return hostile{pbft.StateChannel, enc(m), fmt.Sprintf("has vote index %d", m.Index), true}
	case 18: // maj23 claim with hostile round / type
		m := &pbft.VoteSetMaj23Message{Height: h, Round: w.pickInt(), Type: []byte{typ, byte(w.rng.Intn(256))}[w.rng.Intn(2)], BlockID: someID}
		return hostile{pbft.StateChannel, enc(m), fmt.Sprintf("maj23 claim round %d type %d", m.Round, m.Type), false}
	case 19: // vote-set-bits with a bit array of the wrong size
		ba := gcmn.NewBitArray([]int{0, 1, w.n, w.n + 1, 1000}[w.rng.Intn(5)])
		if ba != nil {
			for i := 0; i < ba.Size(); i++ {
				ba.SetIndex(i, w.rng.Intn(2) == 0)
			}
		}
		m := &pbft.VoteSetBitsMessage{Height: []int64{h, w.pickInt()}[w.rng.Intn(2)], Round: []int64{r, w.pickInt()}[w.rng.Intn(2)], Type: typ, BlockID: someID, Votes: ba}
		return hostile{pbft.VoteSetBitsChannel, enc(m), "vote set bits", true}
	case 20: // commit-step / proposal-POL with hostile bit arrays
		if w.rng.Intn(2) == 0 {
			m := &pbft.CommitStepMessage{Height: []int64{h, w.pickInt()}[w.rng.Intn(2)], BlockPartsHeader: types.PartSetHeader{Total: int(w.pickInt()), Hash: []byte("x")}, BlockParts: gcmn.NewBitArray(w.rng.Intn(5))}
			return hostile{pbft.StateChannel, enc(m), "commit step", true}
		}
		m := &pbft.ProposalPOLMessage{Height: []int64{h, w.pickInt()}[w.rng.Intn(2)], ProposalPOLRound: w.pickInt(), ProposalPOL: gcmn.NewBitArray(w.rng.Intn(5))}
		return hostile{pbft.DataChannel, enc(m), "proposal POL", true}
	default: // mutate the encoding of a valid vote: flips, truncation
		b := enc(&pbft.VoteMessage{Vote: w.byzVote(h, r, typ, someID, bIdx, bAddr, false)})
		switch w.rng.Intn(3) {
		case 0:
			b = b[:w.rng.Intn(len(b))]
		case 1:
			b[w.rng.Intn(len(b))] ^= byte(1 << uint(w.rng.Intn(8)))
		default:
			i := w.rng.Intn(len(b))
			b = append(append(append([]byte{}, b[:i]...), 0xff, 0xff, 0xff, 0x7f), b[i:]...)
		}
		return hostile{pbft.VoteChannel, b, "mutated vote encoding", false}
	}
}

// farVote is a vote for a round well ahead of the receiver's that fails validation
// (forged signature, foreign address, another validator's index). The receiver may
// set up at most two catch-up rounds per peer and height (HeightVoteSet.AddVote);
// a peer whose votes are all rejected must not be able to make it track more.
func (w *world) farVote() (hostile, int64) {
	rs := w.rs()
	if w.far == nil || w.farH != rs.Height {
		w.far, w.farH = map[int64]bool{}, rs.Height
	}
	r := rs.Round + 2 + int64(len(w.far))*3 + int64(w.rng.Intn(3))
	bIdx := w.net.ValIndex(rs.Validators, w.B)
	bAddr := w.net.Nodes[w.B].Addr
	id := types.BlockID{Hash: []byte("hostile-block-hash-0"), PartsHeader: types.PartSetHeader{Total: 1, Hash: []byte("hostile-parts-hash-0")}}
	typ := []byte{types.VoteTypePrevote, types.VoteTypePrecommit}[w.rng.Intn(2)]
	var v *types.Vote
	kind := ""
	switch w.rng.Intn(3) {
	case 0:
		v, kind = w.byzVote(rs.Height, r, typ, id, bIdx, bAddr, true), "forged-signature"
	case 1:
		v, kind = w.byzVote(rs.Height, r, typ, id, bIdx, w.net.Nodes[w.V].Addr, false), "foreign-address"
	default:
		v, kind = w.byzVote(rs.Height, r, typ, id, (bIdx+1)%w.n, bAddr, false), "other-index"
	}
	return hostile{pbft.VoteChannel, enc(&pbft.VoteMessage{Vote: v}), fmt.Sprintf("farvote %s round %d", kind, r), true}, r
}

// farBurst offers k such votes and judges the bound after each.
func (w *world) farBurst(k int) {
	for i := 0; i < k && !w.failed; i++ {
		hm, r := w.farVote()
		h0 := w.rs().Height
		w.offer(hm)
		if w.failed || w.rs().Height != h0 {
			return
		}
		w.far[r] = true
		w.run.Count("far_round_rejected_votes", 1)
		if n, rounds := w.farTracked(); n > 2 {
			w.viol("catchup-rounds-unbounded:rejected-votes-of-one-peer", fmt.Sprintf("after %d votes from one peer that all failed validation (%s last) the receiver tracks vote sets for %d rounds ahead of its own (%v); the bound is two catch-up rounds per peer", len(w.far), hm.desc, n, rounds),
				map[string]interface{}{"rounds": rounds, "offered": len(w.far), "last_input_hex": fmt.Sprintf("%X", hm.bytes)})
			return
		} else if n > 0 {
			w.run.Count("far_rounds_tracked_within_bound", 1)
		}
	}
}

// farTracked counts the far rounds of rejected votes the receiver has set up vote sets for.
func (w *world) farTracked() (int, []int64) {
	rs := w.rs()
	if rs.Height != w.farH || rs.Votes == nil {
		return 0, nil
	}
	var rounds []int64
	for r := range w.far {
		if r > rs.Round+1 && rs.Votes.Prevotes(r) != nil {
			rounds = append(rounds, r)
		}
	}
	return len(rounds), rounds
}

// offer sends one hostile message through the real path and judges (a) and (b).
func (w *world) offer(hm hostile) {
	w.nmsg++
	fmt.Fprintf(w.inlog, "case %d state %s msg %d ch %X %s %X\n", w.c, w.state, w.nmsg, hm.ch, hm.desc, hm.bytes)
	before := sim.Digest(w.vnode.CS)
	w.run.Count("hostile_inputs", 1)
	w.run.Count("hostile_"+strings.SplitN(hm.desc, " ", 3)[0], 1)
	w.run.Distinct("input_classes", w.state+"|"+strings.Join(strings.Fields(hm.desc)[:minInt(2, len(strings.Fields(hm.desc)))], " "))
	// reactor part: runs inside the connection's recover domain
	func() {
		defer func() {
			if r := recover(); r != nil {
				w.run.Count("panics_inside_receive_recover_domain", 1)
				w.run.Distinct("receive_panic_sites", panicSite(string(debug.Stack())))
			}
		}()
		if len(hm.bytes) == 0 {
			return
		}
		w.conR.Receive(hm.ch, w.peer, hm.bytes)
	}()
	// consensus goroutine part
	for !w.failed {
		var stack string
		var pv interface{}
		more := false
		func() {
			defer func() {
				if r := recover(); r != nil {
					pv, stack = r, string(debug.Stack())
				}
			}()
			_, _, more = w.vnode.CS.VerifStepPeerQueue()
		}()
		if pv != nil {
			site := panicSite(stack)
			w.viol("consensus-goroutine-panic:"+site, fmt.Sprintf("hostile input (%s) panicked on the consensus goroutine: %v", hm.desc, pv),
				map[string]interface{}{"input_hex": fmt.Sprintf("%X", hm.bytes), "channel": hm.ch, "desc": hm.desc, "panic": fmt.Sprint(pv), "stack": stack})
			return
		}
		if !more {
			break
		}
		w.run.Count("reached_consensus_goroutine", 1)
	}
	w.drain()
	if hm.invalid {
		w.run.Count("invalid_by_construction", 1)
		if after := sim.Digest(w.vnode.CS); after != before {
			w.viol("invalid-message-changed-state:"+strings.SplitN(hm.desc, " ", 3)[0], fmt.Sprintf("a message built to fail validation (%s) changed the consensus state", hm.desc),
				map[string]interface{}{"input_hex": fmt.Sprintf("%X", hm.bytes), "before": before, "after": after})
		}
	}
}

func minInt(a, b int) int {
	if a < b {
		return a
	}
	return b
}

var states = []string{"newheight", "propose-empty", "propose-missing-parts", "prevote", "prevotewait", "precommit-locked", "precommitwait", "commit-waiting-for-block"}

func runCase(run *lib.Run, c int64, base string, inlog *os.File) {
	rng := lib.Rand("c08", c)
	n := []int{4, 4, 5, 7}[rng.Intn(4)]
	powers := make([]int64, n)
	for i := range powers {
		powers[i] = []int64{1, 10, int64(5 + rng.Intn(5))}[c%3]
	}
	V := rng.Intn(n)
	B := (V + 1 + rng.Intn(n-1)) % n
	real := make([]bool, n)
	real[V] = true
	dir := filepath.Join(base, fmt.Sprintf("c%d", c))
	os.MkdirAll(dir, 0755)
	defer lib.RemoveLater(dir)
	run.Eval()
	net, err := sim.NewNet(sim.Config{Powers: powers, Real: real, Dir: dir, Label: "c08"})
	if err != nil {
		run.Inconclusive(fmt.Sprintf("case %d: %v", c, err))
		return
	}
	net.KeepTrace = true
	w := &world{run: run, c: c, rng: rng, net: net, V: V, B: B, vnode: net.Nodes[V], n: n, powers: powers, inlog: inlog, voted: map[string]bool{}}
	defer func() {
		if r := recover(); r != nil {
			// a panic outside the two judged places (harness-driven honest traffic)
			run.Count("runs_aborted_by_panic_in_honest_traffic", 1)
			site := panicSite(string(debug.Stack()))
			run.Distinct("honest_traffic_panic_sites", site)
			w.viol("panic-during-honest-traffic-after-hostile-input:"+site, fmt.Sprintf("panic while honest traffic was processed: %v", r), map[string]interface{}{"panic": fmt.Sprint(r), "stack": string(debug.Stack())})
		}
		func() { defer func() { recover() }(); net.Close() }()
	}()
	var byz []int
	for i := 0; i < n; i++ {
		if i != V {
			byz = append(byz, i)
		}
	}
	w.adv = sim.NewAdversary(net, rng, byz)
	// the real reactor in front of V
	conR := pbft.NewConsensusReactor(w.vnode.CS, false)
	w.vnode.CS.BindReactor(conR)
	sw := p2p.NewSwitch(viper.New())
	conR.SetSwitch(sw)
	conR.SetEventSwitch(w.vnode.Evsw)
	if err := conR.VerifStartReactorOnly(); err != nil {
		run.Inconclusive("reactor start: " + err.Error())
		return
	}
	w.conR = conR
	w.peer = &p2p.Peer{Key: "hostile-peer", Data: gcmn.NewCMap(), NodeInfo: &p2p.NodeInfo{}}
	w.peer.Data.Set(types.PeerStateKey, pbft.NewPeerState(w.peer))
	heights := 2
	burst := lib.Pick(40, 60)
	for hgt := 0; hgt < heights && !w.failed; hgt++ {
		st := states[(int(c)+hgt*3)%len(states)]
		if hgt == 0 && c%5 == 0 {
			st = "newheight"
		}
		w.reach(st)
		rs := w.rs()
		w.run.Distinct("receiver_states_reached", fmt.Sprintf("%s@step%d", st, rs.Step))
		h0 := rs.Height
		if (int(c)+hgt)%2 == 0 {
			w.farBurst(5)
		}
		for k := 0; k < burst && !w.failed; k++ {
			w.offer(w.genHostile())
			if w.rs().Height != h0 {
				break
			}
		}
		if !w.failed && (int(c)+hgt)%2 == 1 && w.rs().Height == h0 {
			w.farBurst(5)
		}
		if w.failed {
			break
		}
		// (c) progress with honest traffic
		before := net.Steps
		ok := w.rs().Height > h0 || w.finishHeight()
		w.run.Count("progress_steps", int64(net.Steps-before))
		if !ok {
			rs := w.rs()
			w.viol("wedged-after-hostile-input", fmt.Sprintf("V did not commit height %d with honest traffic after the hostile burst (at %d/%d/%v, locked=%v, proposal=%v)", h0, rs.Height, rs.Round, rs.Step, rs.LockedBlock != nil, rs.Proposal != nil), nil)
			break
		}
		w.run.Count("heights_committed_after_burst", 1)
		w.run.Nontrivial(fmt.Sprintf("%d/%s", c, st))
	}
	if c < 2 {
		run.Sample(map[string]interface{}{"case": c, "powers": powers, "V": V, "byzantine": B, "messages": w.nmsg})
	}
}

func worker(args []string) {
	i, _ := strconv.Atoi(args[0])
	wn, _ := strconv.Atoi(args[1])
	out := args[2]
	// an absurd allocation must die here, not take the machine down
	var lim syscall.Rlimit
	lim.Cur, lim.Max = 6<<30, 6<<30
	syscall.Setrlimit(syscall.RLIMIT_AS, &lim)
	run := lib.NewChildRun(prop)
	base := lib.Scratch(prop)
	defer os.RemoveAll(base)
	inlogPath := out + ".inputs"
	inlog, _ := os.Create(inlogPath)
	total := int64(lib.Pick(1600, 160000))
	stuck := 0
	for c := int64(i); c < total; c += int64(wn) {
		c := c
		if stuck >= 2 {
			run.Count("cases_skipped_after_two_cases_that_did_not_return", 1)
			continue
		}
		// a case whose stepping never returns: decided by where its goroutine sits, not by the clock
		if finished, wedgedAt, stack := lib.Guarded(150*time.Second, func() { runCase(run, c, base, inlog) }); !finished {
			stuck++
			if wedgedAt != "" {
				run.ChildViolation("node-wedged-on-a-lock:"+wedgedAt, fmt.Sprintf("case %d: after the hostile inputs of this case the node's own processing blocks for good in the acquisition of a lock (%s); the inputs are the last lines of the input log", c, wedgedAt), map[string]interface{}{"case": c, "blocked_goroutine": stack, "last_logged_inputs": lastLines(inlogPath, 60)})
			} else {
				lib.WriteObservation(prop, fmt.Sprintf("case-%d-did-not-return", c), map[string]interface{}{"goroutine": stack})
				run.Inconclusive(fmt.Sprintf("case %d did not return within the watchdog and its goroutine is not blocked on a lock", c))
			}
		}
		run.ExportTo(out) // keep what was observed so far if a later case kills the process
	}
	inlog.Close()
	run.MarkComplete()
	if err := run.ExportTo(out); err != nil {
		fmt.Println("export failed:", err)
		os.Exit(1)
	}
	os.Remove(inlogPath)
}

func main() {
	if len(os.Args) > 1 && os.Args[1] == "worker" {
		worker(os.Args[2:])
		return
	}
	if len(os.Args) > 1 && os.Args[1] == "rworker" {
		reactorWorker(os.Args[2:])
		return
	}
	run := lib.NewRun(prop, "exploration")
	run.SetRule("seeded cases: one real ConsensusState behind its real ConsensusReactor among 4-7 validators; V is driven by honest puppet traffic into one of 8 receiver states (new height incl. height 1 with nil LastCommit, propose without proposal, proposal with missing parts, prevote, prevote-wait, precommit while locked, precommit-wait, commit step waiting for the block), then receives a burst of 40-60 hostile inputs through ConsensusReactor.Receive on all four consensus channels (22 generators: random bytes, type byte + garbage, every message type with boundary values for index/height/round/type/totals/POL round/bit-array sizes, nil sub-objects, forged signatures, tampered parts, mutated encodings), signed where needed by one Byzantine validator; each input is logged to disk before delivery. Non-trivial = (case, receiver state) whose height was afterwards committed with honest traffic.")
	run.Assume("a panic inside Receive is inside MConnection's recover domain (peer dropped): allowed by the property and only counted", "the hand-made Peer has no connection: VoteSetMaj23 replies panic in TrySend inside Receive (counted in the recover domain)", "honest puppets never equivocate; only one validator (< 1/3 power) is Byzantine", "digest-unchanged is only required for inputs that fail validation by construction")
	run.RunWorkers(16, time.Duration(lib.Pick(20, 60))*time.Minute, nil, func(i int, output string) {
		// a worker died: the last logged input is the witness
		run.Violation("node-process-died", fmt.Sprintf("worker %d died while handling hostile input: %s", i, tailLines(output, 12)), map[string]interface{}{"output_tail": output})
	})
	runReactorParts(run)
	run.Require("hostile_inputs", 10000)
	run.Require("reached_consensus_goroutine", 1000)
	run.Require("heights_committed_after_burst", 400)
	run.Require("receiver_states_reached", 8)
	os.Exit(run.Finish())
}

func lastLines(path string, n int) []string {
	b, _ := ioutil.ReadFile(path)
	l := strings.Split(strings.TrimSpace(string(b)), "\n")
	if len(l) > n {
		l = l[len(l)-n:]
	}
	return l
}

func tailLines(s string, n int) string {
	l := strings.Split(strings.TrimSpace(s), "\n")
	if len(l) > n {
		l = l[len(l)-n:]
	}
	return strings.Join(l, " | ")
}

var _ = ioutil.ReadFile
