// C16 — proposer selection is deterministic and proportional to voting power.
//
// Monitors over the real types.ValidatorSet:
//
//	(a1) IncrementAccum(k) ≡ k × IncrementAccum(1) (proposer and accums)
//	(a2) a set rebuilt from its persisted bytes (go-wire binary / JSON, as
//	     State.Save/Load does) names the same proposer now and for the next
//	     2·T single increments; (a3) the same for Copy()
//	(b)  in every window of T consecutive single increments each validator is
//	     proposer exactly VotingPower times (unchanged set)
//	(c)  Add/Update/Remove interleaved with Copy(): strictly sorted, no
//	     duplicates, matches a reference map model, copies are independent,
//	     equal operation sequences give equal Hash().
package main

import (
	"bytes"
	"fmt"
	"os"
	"sort"
	"strings"

	crypto "github.com/dappledger/AnnChain/gemmill/go-crypto"
	wire "github.com/dappledger/AnnChain/gemmill/go-wire"
	dbm "github.com/dappledger/AnnChain/gemmill/modules/go-db"
	events "github.com/dappledger/AnnChain/gemmill/modules/go-events"
	sm "github.com/dappledger/AnnChain/gemmill/state"
	"github.com/dappledger/AnnChain/gemmill/types"

	"verif/lib"
)

var run *lib.Run

var keyCache = map[int]crypto.PubKey{}

func pub(i int) crypto.PubKey {
	if k, ok := keyCache[i]; ok {
		return k
	}
	k := crypto.GenPrivKeyEd25519FromSecret([]byte(fmt.Sprintf("c16-key-%d", i))).PubKey()
	keyCache[i] = k
	return k
}

func mkSet(powers []int64) *types.ValidatorSet {
	vals := make([]*types.Validator, len(powers))
	for i, p := range powers {
		vals[i] = types.NewValidator(pub(i), p, i == 0)
	}
	return types.NewValidatorSet(vals)
}

type snap struct {
	Proposer string
	Accums   []int64
}

func snapshot(vs *types.ValidatorSet) snap {
	s := snap{Proposer: fmt.Sprintf("%X", vs.Proposer().Address)}
	for _, v := range vs.Validators {
		s.Accums = append(s.Accums, v.Accum)
	}
	return s
}

// snapshot0: accums only (works for the empty set too)
func snapshot0(vs *types.ValidatorSet) []int64 {
	var a []int64
	for _, v := range vs.Validators {
		a = append(a, v.Accum)
	}
	return a
}

func sameAccums(a, b []int64) bool {
	if len(a) != len(b) {
		return false
	}
	for i := range a {
		if a[i] != b[i] {
			return false
		}
	}
	return true
}

func total(powers []int64) int64 {
	var t int64
	for _, p := range powers {
		t += p
	}
	return t
}

func reloadBinary(vs *types.ValidatorSet) (*types.ValidatorSet, error) {
	bz := wire.BinaryBytes(vs)
	var n int
	var err error
	out := wire.ReadBinary(&types.ValidatorSet{}, bytes.NewReader(bz), 0, &n, &err).(*types.ValidatorSet)
	return out, err
}

// reloadState persists the set the way a node does (State.Save -> state DB -> LoadState).
func reloadState(vs *types.ValidatorSet, asLast bool) (*types.ValidatorSet, error) {
	db := dbm.NewMemDB()
	other := mkSet([]int64{1})
	st := &sm.State{GenesisDoc: &types.GenesisDoc{ChainID: "c16"}, ChainID: "c16", Validators: vs, LastValidators: other, AppHash: []byte{}}
	if asLast {
		st.Validators, st.LastValidators = other, vs
	}
	st2 := sm.MakeGenesisState(db, &types.GenesisDoc{ChainID: "c16", Validators: []types.GenesisValidator{{PubKey: pub(0), Amount: 1}}})
	st2.Validators, st2.LastValidators = st.Validators, st.LastValidators
	st2.Save()
	ld := sm.LoadState(db)
	if ld == nil {
		return nil, fmt.Errorf("LoadState returned nil")
	}
	if asLast {
		return ld.LastValidators, nil
	}
	return ld.Validators, nil
}

// reloadIntermediate: the other way a node gets a validator set back from disk. ExecBlock saved
// the state of height h under the intermediate key (SaveIntermediate), the process died before
// State.Save; on restart the state of h-1 is loaded and LoadIntermediate brings it to h
// (Angine.RecoverFromCrash). vs is the set in force after h.
func reloadIntermediate(vs *types.ValidatorSet) (out *types.ValidatorSet, err error) {
	defer func() {
		if r := recover(); r != nil {
			err = fmt.Errorf("LoadIntermediate panicked: %v", r)
		}
	}()
	db := dbm.NewMemDB()
	prev := mkSet([]int64{2, 1})
	st1 := sm.MakeGenesisState(db, &types.GenesisDoc{ChainID: "c16", Validators: []types.GenesisValidator{{PubKey: pub(0), Amount: 1}}})
	st1.LastBlockHeight = 5
	st1.Validators, st1.LastValidators = prev, mkSet([]int64{1})
	st1.Save()
	st2 := st1.Copy()
	st2.LastBlockHeight = 6
	st2.Validators, st2.LastValidators = vs, prev
	st2.SaveIntermediate()
	ld := sm.LoadState(db)
	if ld == nil {
		return nil, fmt.Errorf("LoadState returned nil")
	}
	ld.LoadIntermediate()
	return ld.Validators, nil
}

// ---- the state machine's own step: State.ExecBlock on replicas that committed in different rounds

type nopExec struct{}

func (nopExec) BeginBlock(*types.Block, events.Fireable, *types.PartSetHeader) error { return nil }
func (nopExec) ExecBlock(*types.Block, events.Fireable, *types.ExecuteResult) error  { return nil }
func (nopExec) EndBlock(*types.Block, events.Fireable, *types.PartSetHeader, []*types.ValidatorAttr, *types.ValidatorSet) error {
	return nil
}

type nopVerifier struct{}

func (nopVerifier) ValidateBlock(*types.Block) error { return nil }

// checkExecRounds: replicas apply the same two blocks through the real State.ExecBlock; the round
// argument is whatever their caller has at hand (the replica's local round when it finalizes, -1
// from fast sync, 0 from crash recovery): the validator set of the next height must not depend on it.
func checkExecRounds(powers []int64) {
	gen := &types.GenesisDoc{ChainID: "c16", AppHash: []byte{}}
	for i, p := range powers {
		gen.Validators = append(gen.Validators, types.GenesisValidator{PubKey: pub(i), Amount: p, IsCA: true})
	}
	evsw := types.NewEventSwitch()
	evsw.Start()
	defer evsw.Stop()
	types.AddListenerForEvent(evsw, "c16", types.EventStringHookExecute(), func(ed types.TMEventData) {
		ed.(types.EventDataHookExecute).ResCh <- types.ExecuteResult{}
	})
	var ref snap
	for ri, round := range []int64{0, 1, 2, 7, -1} {
		st := sm.MakeGenesisState(dbm.NewMemDB(), gen)
		st.SetBlockExecutable(nopExec{})
		st.SetBlockVerifier(nopVerifier{})
		var got snap
		failed := ""
		func() {
			defer func() {
				if r := recover(); r != nil {
					failed = fmt.Sprint(r)
				}
			}()
			for h := int64(1); h <= 2; h++ {
				blk, parts := types.MakeBlock(h, "c16", []types.Tx{types.Tx(fmt.Sprintf("tx-%d", h))}, nil, &types.Commit{}, st.Validators.Proposer().Address, st.LastBlockID, st.Validators.Hash(), st.AppHash, st.ReceiptsHash, 4096)
				r := round
				if h == 1 {
					r = 0
				}
				if err := st.ExecBlock(evsw, blk, parts.Header(), r); err != nil {
					failed = err.Error()
					return
				}
			}
			got = snapshot(st.Validators)
		}()
		if failed != "" {
			run.Count("exec_rounds_not_executed", 1)
			return
		}
		if ri == 0 {
			ref = got
			continue
		}
		run.Count("exec_rounds_replicas_compared", 1)
		if got.Proposer != ref.Proposer || !sameAccums(got.Accums, ref.Accums) {
			run.Violation("next-validator-set-depends-on-the-round-a-replica-committed-in", fmt.Sprintf("powers %v: a replica whose caller passed round %d to State.ExecBlock for block 2 holds proposer %s accums %v afterwards, the one that passed 0 holds %s %v", powers, round, got.Proposer[:8], got.Accums, ref.Proposer[:8], ref.Accums),
				map[string]interface{}{"powers": powers, "round": round, "replica": got, "reference": ref})
			return
		}
	}
}

func reloadJSON(vs *types.ValidatorSet) (*types.ValidatorSet, error) {
	bz := wire.JSONBytes(vs)
	var err error
	out := wire.ReadJSON(&types.ValidatorSet{}, bz, &err).(*types.ValidatorSet)
	return out, err
}

// checkSet runs (a1)-(a3),(b) for one power vector. j0max: how many initial
// single increments to explore as starting states; kmax: batch sizes.
func checkSet(powers []int64, j0max, kmax int64, label string) {
	checkExecRounds(powers)
	T := total(powers)
	run.Eval()
	nontrivial := len(powers) >= 2
	if nontrivial {
		run.Nontrivial("set:" + fmt.Sprint(powers))
	}
	base := mkSet(powers)
	// (b) proportionality over j0max+2T single increments
	L := j0max + 2*T
	seq := make([]string, 0, L)
	cur := base.Copy()
	states := []*types.ValidatorSet{cur.Copy()}
	for i := int64(0); i < L; i++ {
		seq = append(seq, string(cur.Proposer().Address))
		cur.IncrementAccum(1)
		if i < j0max {
			states = append(states, cur.Copy())
		}
	}
	addrPower := map[string]int64{}
	for _, v := range base.Validators {
		addrPower[string(v.Address)] = v.VotingPower
	}
	if T > 0 && T <= L {
		cnt := map[string]int64{}
		for i := int64(0); i < T; i++ {
			cnt[seq[i]]++
		}
		for w := int64(0); ; w++ {
			run.Count("windows_checked", 1)
			ok := true
			for a, p := range addrPower {
				if cnt[a] != p {
					ok = false
				}
			}
			if !ok {
				run.Violation("proportionality-fresh-set", fmt.Sprintf("window at %d of %d selections: counts differ from powers %v", w, T, powers),
					map[string]interface{}{"powers": powers, "window_start": w, "label": label})
				break
			}
			if w+T >= L {
				break
			}
			cnt[seq[w]]--
			cnt[seq[w+T]]++
		}
	}
	// (a1) batched vs repeated, (a2) reload, (a3) copy — from each start state
	for j, st := range states {
		live := st
		for k := int64(1); k <= kmax; k++ {
			b := live.Copy()
			b.IncrementAccum(k)
			r := live.Copy()
			for i := int64(0); i < k; i++ {
				r.IncrementAccum(1)
			}
			run.Count("batched_vs_repeated", 1)
			sb, sr := snapshot(b), snapshot(r)
			if sb.Proposer != sr.Proposer || !sameAccums(sb.Accums, sr.Accums) {
				run.Count("batched_differs", 1)
				run.Violation("batched-increment-differs", fmt.Sprintf("IncrementAccum(%d) != %d x IncrementAccum(1) for powers %v after %d increments: proposer %s vs %s accums %v vs %v", k, k, powers, j, sb.Proposer[:8], sr.Proposer[:8], sb.Accums, sr.Accums),
					map[string]interface{}{"powers": powers, "start_increments": j, "k": k, "batched": sb, "repeated": sr})
			}
		}
		for _, mode := range []string{"state", "state-last", "state-intermediate", "copy", "bare-binary", "bare-json"} {
			var re *types.ValidatorSet
			var err error
			switch mode {
			case "state":
				re, err = reloadState(live, false)
			case "state-intermediate":
				re, err = reloadIntermediate(live)
			case "state-last":
				re, err = reloadState(live, true)
			case "bare-binary":
				re, err = reloadBinary(live)
			case "bare-json":
				re, err = reloadJSON(live)
			default:
				re = live.Copy()
			}
			if strings.HasPrefix(mode, "bare-") {
				// the bare go-wire encoding of a ValidatorSet carries no proposer; a node never reloads a set
				// this way (State.Save adds the proposers): observed as a metric, not judged
				run.Count("reload_"+mode, 1)
				if err == nil && re.Size() > 0 && !bytes.Equal(re.Proposer().Address, live.Proposer().Address) {
					run.Count("bare_wire_round_trip_names_other_proposer", 1)
				}
				continue
			}
			run.Count("reload_"+mode, 1)
			if err != nil {
				run.Violation("reload-error-"+mode, fmt.Sprintf("round trip failed: %v", err), map[string]interface{}{"powers": powers})
				continue
			}
			a := live.Copy()
			bset := re
			steps := 2 * T
			if steps > 64 {
				steps = 64
			}
			for i := int64(0); i <= steps; i++ {
				sa, sb := snapshot(a), snapshot(bset)
				if sa.Proposer != sb.Proposer || !sameAccums(sa.Accums, sb.Accums) {
					key := "reload-" + mode + "-diverges"
					if i == 0 && sameAccums(sa.Accums, sb.Accums) && mode != "copy" {
						// live (cached) proposer vs. recomputed proposer of an identical set
						key = "reloaded-set-names-other-proposer"
						run.Count("reload_proposer_differs", 1)
					}
					run.Violation(key, fmt.Sprintf("%s round trip of set %v after %d increments: at +%d increments live proposer %s accums %v, reloaded proposer %s accums %v", mode, powers, j, i, sa.Proposer[:8], sa.Accums, sb.Proposer[:8], sb.Accums),
						map[string]interface{}{"powers": powers, "start_increments": j, "mode": mode, "after": i, "live": sa, "reloaded": sb})
					if key != "reloaded-set-names-other-proposer" {
						break
					}
					// identical accums: keep following both sets, later selections must agree
				}
				a.IncrementAccum(1)
				bset.IncrementAccum(1)
			}
		}
	}
	run.Sample(map[string]interface{}{"powers": powers, "T": T, "first_proposers": hexs(seq, 8)})
}

func hexs(seq []string, n int) []string {
	var out []string
	for i, s := range seq {
		if i >= n {
			break
		}
		out = append(out, fmt.Sprintf("%X", s)[:8])
	}
	return out
}

// ---- (c) membership operations against a map model ----

type model map[string]*types.Validator // addr -> validator

func checkStructure(vs *types.ValidatorSet, m model, ctx func() interface{}) bool {
	if len(vs.Validators) != len(m) {
		run.Violation("membership-size", fmt.Sprintf("set has %d validators, model %d", len(vs.Validators), len(m)), ctx())
		return false
	}
	for i, v := range vs.Validators {
		if i > 0 && bytes.Compare(vs.Validators[i-1].Address, v.Address) >= 0 {
			run.Violation("membership-unsorted", "addresses not strictly increasing", ctx())
			return false
		}
		mv, ok := m[string(v.Address)]
		if !ok || mv.VotingPower != v.VotingPower || mv.IsCA != v.IsCA {
			run.Violation("membership-content", fmt.Sprintf("validator %X differs from model", v.Address), ctx())
			return false
		}
	}
	var t int64
	for _, v := range m {
		t += v.VotingPower
	}
	if vs.TotalVotingPower() != t {
		run.Violation("total-power-stale", fmt.Sprintf("TotalVotingPower %d, model %d", vs.TotalVotingPower(), t), ctx())
		return false
	}
	return true
}

type frozen struct {
	set   *types.ValidatorSet
	hash  []byte
	prop  []byte
	vals  []string
	atOp  int
	total int64
}

func freeze(vs *types.ValidatorSet, at int) *frozen {
	c := vs.Copy()
	f := &frozen{set: c, hash: c.Hash(), atOp: at, total: c.TotalVotingPower()}
	if p := c.Proposer(); p != nil {
		f.prop = p.Address
	}
	for _, v := range c.Validators {
		f.vals = append(f.vals, fmt.Sprintf("%X/%d/%d", v.Address, v.VotingPower, v.Accum))
	}
	return f
}

func (f *frozen) intact() string {
	if !bytes.Equal(f.set.Hash(), f.hash) {
		return "hash changed"
	}
	if len(f.set.Validators) != len(f.vals) {
		return "size changed"
	}
	for i, v := range f.set.Validators {
		if fmt.Sprintf("%X/%d/%d", v.Address, v.VotingPower, v.Accum) != f.vals[i] {
			return "validator changed"
		}
	}
	if p := f.set.Proposer(); (p == nil) != (f.prop == nil) || (p != nil && !bytes.Equal(p.Address, f.prop)) {
		return "proposer changed"
	}
	if f.set.TotalVotingPower() != f.total {
		return "total power changed"
	}
	return ""
}

type op struct {
	Kind  string
	Key   int
	Power int64
}

func applyOp(vs *types.ValidatorSet, m model, o op) {
	switch o.Kind {
	case "add":
		v := types.NewValidator(pub(o.Key), o.Power, o.Key%2 == 0)
		added := vs.Add(v)
		_, exists := m[string(v.Address)]
		if added == exists {
			run.Violation("add-result", fmt.Sprintf("Add returned %v but model exists=%v", added, exists), o)
		}
		if !exists {
			m[string(v.Address)] = v.Copy()
		}
	case "update":
		v := types.NewValidator(pub(o.Key), o.Power, o.Key%2 == 0)
		upd := vs.Update(v)
		_, exists := m[string(v.Address)]
		if upd != exists {
			run.Violation("update-result", fmt.Sprintf("Update returned %v but model exists=%v", upd, exists), o)
		}
		if exists {
			m[string(v.Address)] = v.Copy()
		}
	case "remove":
		addr := pub(o.Key).Address()
		_, rem := vs.Remove(addr)
		_, exists := m[string(addr)]
		if rem != exists {
			run.Violation("remove-result", fmt.Sprintf("Remove returned %v but model exists=%v", rem, exists), o)
		}
		delete(m, string(addr))
	case "incr":
		if len(vs.Validators) > 0 {
			vs.IncrementAccum(1)
		}
	case "batch", "batch-as-singles":
		// rounds skipped at once (enterNewRound: Copy(); IncrementAccum(k)) vs. entered one by one
		if len(vs.Validators) > 0 {
			if o.Kind == "batch" {
				vs.IncrementAccum(o.Power)
			} else {
				for i := int64(0); i < o.Power; i++ {
					vs.IncrementAccum(1)
				}
			}
		}
	}
}

func checkOps(caseNo int64) {
	rng := lib.Rand("c16-ops", caseNo)
	n0 := 1 + rng.Intn(5)
	powers := make([]int64, n0)
	for i := range powers {
		powers[i] = int64(1 + rng.Intn(9))
	}
	nops := 3 + rng.Intn(14)
	ops := make([]op, nops)
	kinds := []string{"add", "update", "remove", "incr", "incr", "batch"}
	for i := range ops {
		ops[i] = op{Kind: kinds[rng.Intn(len(kinds))], Key: rng.Intn(8), Power: int64(1 + rng.Intn(9))}
		if (ops[i].Kind == "add" || ops[i].Kind == "update") && rng.Intn(5) == 0 {
			ops[i].Power = 0 // a plain peer: the chain keeps members without voting power in the set
			run.Count("ops_with_zero_power_member", 1)
		}
		if ops[i].Kind == "batch" {
			ops[i].Power = int64(1 + rng.Intn(60)) // up to several times the total power of these small sets
		}
	}
	if caseNo%4 == 0 && n0 >= 2 {
		// scripted start: one validator holds most of the power, loses it after a few rounds (its
		// accum stays far from the new distribution), then many rounds are skipped at once
		var others int64 = 1
		for _, p := range powers[:n0-1] {
			others += p
		}
		powers[n0-1] = 2*others*others + int64(rng.Intn(50)) // its leftover accum takes more than one period of the new set to drain
		pre := []op{}
		for i := 0; i < 1+rng.Intn(3); i++ {
			pre = append(pre, op{Kind: "incr"})
		}
		pre = append(pre, op{Kind: "update", Key: n0 - 1, Power: 1}, op{Kind: "incr"})
		var t int64 = 1
		for _, p := range powers[:n0-1] {
			t += p
		}
		pre = append(pre, op{Kind: "batch", Power: t + 1 + int64(rng.Intn(int(2*t)))}, op{Kind: "batch", Power: 1 + int64(rng.Intn(int(t)))})
		ops = append(pre, ops...)
		nops = len(ops)
		run.Count("ops_cases_power_drop_then_skipped_rounds", 1)
	}
	copyAt := map[int]bool{}
	for i := 0; i < 1+rng.Intn(4); i++ {
		copyAt[rng.Intn(nops)] = true
	}
	run.Eval()
	run.Nontrivial("ops:" + fmt.Sprint(powers, ops))
	// replica A: takes copies at copyAt and keeps working on the original;
	// replica B: no copies; replica C: continues on the copy each time.
	mk := func() (*types.ValidatorSet, model) {
		vs := mkSet(powers)
		m := model{}
		for _, v := range vs.Validators {
			m[string(v.Address)] = v.Copy()
		}
		return vs, m
	}
	A, mA := mk()
	B, mB := mk()
	C, mC := mk()
	// replica D restarts: at seeded points it persists its set the way a node does
	// (State.Save -> LoadState) and goes on with the reloaded set, copied as ExecBlock does.
	D, mD := mk()
	restartAt := map[int]bool{}
	for i := 0; i < 1+rng.Intn(3); i++ {
		restartAt[rng.Intn(nops)] = true
	}
	var frozenSets []*frozen
	ctx := func() interface{} { return map[string]interface{}{"powers": powers, "ops": ops, "case": caseNo} }
	for i, o := range ops {
		if copyAt[i] {
			frozenSets = append(frozenSets, freeze(A, i))
			C = C.Copy()
			run.Count("copies_taken", 1)
		}
		applyOp(A, mA, o)
		ob := o
		if o.Kind == "batch" {
			ob.Kind = "batch-as-singles" // replicas B and D enter every round, A and C skip
		}
		applyOp(B, mB, ob)
		applyOp(C, mC, o)
		if restartAt[i] && len(D.Validators) > 0 {
			re, err := reloadState(D, false)
			if i%2 == 1 {
				re, err = reloadIntermediate(D) // a restart after a crash between the application's commit and State.Save
				run.Count("ops_restarts_through_intermediate_state", 1)
			}
			if err != nil {
				run.Violation("reload-error-state", fmt.Sprintf("round trip failed before op %d: %v", i, err), ctx())
				return
			}
			D = re.Copy().Copy()
			run.Count("ops_restarts", 1)
		}
		applyOp(D, mD, ob)
		run.Count("ops_"+o.Kind, 1)
		if !checkStructure(A, mA, ctx) {
			return
		}
		for _, f := range frozenSets {
			if why := f.intact(); why != "" {
				run.Violation("copy-not-independent", fmt.Sprintf("copy taken before op %d changed after op %d (%s): %s", f.atOp, i, o.Kind, why), ctx())
				return
			}
		}
		// mutate a frozen copy's clone and make sure the original is unaffected
		if len(frozenSets) > 0 && len(A.Validators) > 0 {
			before := freeze(A, i)
			cl := frozenSets[len(frozenSets)-1].set.Copy()
			if len(cl.Validators) > 0 {
				cl.IncrementAccum(1)
				cl.Remove(cl.Validators[0].Address)
			}
			before.set = A
			if why := before.intact(); why != "" {
				run.Violation("original-affected-by-copy", "mutating a copy changed the original: "+why, ctx())
				return
			}
		}
		if !bytes.Equal(A.Hash(), B.Hash()) || !bytes.Equal(A.Hash(), C.Hash()) {
			run.Violation("replica-hash-differs", fmt.Sprintf("equal operation sequences give different Hash() after op %d", i), ctx())
			return
		}
		if sa, sb := snapshot0(A), snapshot0(B); !sameAccums(sa, sb) || (len(A.Validators) > 0 && !bytes.Equal(A.Proposer().Address, B.Proposer().Address)) {
			pa, pb := "", ""
			if len(A.Validators) > 0 {
				pa, pb = fmt.Sprintf("%X", A.Proposer().Address[:4]), fmt.Sprintf("%X", B.Proposer().Address[:4])
			}
			run.Violation("skipped-rounds-differ-from-entered-rounds", fmt.Sprintf("after op %d (%s %d) the replica that skipped rounds (IncrementAccum(k)) has proposer %s accums %v, the one that entered every round proposer %s accums %v", i, o.Kind, o.Power, pa, sa, pb, sb), ctx())
			return
		}
		if !checkStructure(D, mD, ctx) {
			return
		}
		if len(A.Validators) == 0 {
			continue
		}
		if sa, sd := snapshot(A), snapshot(D); !bytes.Equal(A.Hash(), D.Hash()) || !sameAccums(sa.Accums, sd.Accums) || sa.Proposer != sd.Proposer {
			run.Violation("restarted-replica-differs", fmt.Sprintf("a replica that persisted and reloaded its set (State.Save/LoadState) differs from the running one after op %d (%s): running proposer %s accums %v, restarted proposer %s accums %v", i, o.Kind, sa.Proposer, sa.Accums, sd.Proposer, sd.Accums), ctx())
			return
		}
		if len(A.Validators) > 0 {
			pa, pb, pc := A.Proposer().Address, B.Proposer().Address, C.Proposer().Address
			if !bytes.Equal(pa, pb) || !bytes.Equal(pa, pc) {
				key := "replica-proposer-differs-after-copy"
				run.Violation(key, fmt.Sprintf("replicas applying the same operations name different proposers after op %d (%s): %X %X %X", i, o.Kind, pa[:4], pb[:4], pc[:4]), ctx())
				return
			}
		}
	}
	if caseNo < 3 {
		run.Sample(map[string]interface{}{"powers": powers, "ops": ops})
	}
}

func enumPowers(n int, maxP int64, f func([]int64)) {
	p := make([]int64, n)
	var rec func(i int)
	rec = func(i int) {
		if i == n {
			c := make([]int64, n)
			copy(c, p)
			f(c)
			return
		}
		for v := int64(1); v <= maxP; v++ {
			p[i] = v
			rec(i + 1)
		}
	}
	rec(0)
}

func main() {
	run = lib.NewRun("C16", "exploration")
	run.SetRule("power vectors: exhaustive for n<=3 (quick) / n<=4 (thorough) with powers<=6, plus seeded random vectors (n<=10, powers to 1e9); for each, every start state after 0..j single increments, every batch size k<=2T (capped), State.Save/LoadState (as Validators and as LastValidators) and Copy() round trips followed for 2T increments (bare go-wire round trips of the set alone are observed as a metric), all T-windows; plus seeded random Add/Update/Remove/Copy sequences on three replicas. Non-trivial: >=2 validators (distinct power vector) or a distinct operation sequence.")
	run.Assume("proposer agreement is judged on Proposer().Address and all Accum values", "persistence = State.Save -> state DB -> LoadState, and SaveIntermediate -> LoadState(h-1) + LoadIntermediate (recovery after a crash between the application's commit and State.Save): the two ways a node reloads a validator set", "proportionality (b) is judged on sets built by NewValidatorSet (accums start at 0); windows after a membership change are observed separately")
	maxN := lib.Pick(3, 4)
	for n := 1; n <= maxN; n++ {
		enumPowers(n, 6, func(p []int64) {
			T := total(p)
			kmax := 2 * T
			if kmax > 12 {
				kmax = 12
			}
			checkSet(p, T, kmax, "exhaustive")
		})
	}
	run.SetExhaustive(false)
	nrand := lib.Pick(300, 20000)
	for i := 0; i < nrand; i++ {
		rng := lib.Rand("c16-rand", int64(i))
		n := 1 + rng.Intn(10)
		p := make([]int64, n)
		mode := rng.Intn(4)
		for j := range p {
			switch mode {
			case 0:
				p[j] = int64(1 + rng.Intn(10))
			case 1:
				p[j] = int64(1 + rng.Intn(1000))
			case 2:
				p[j] = int64(1 + rng.Int63n(1000000000))
			default:
				p[j] = 1
				if j == 0 {
					p[j] = int64(1 + rng.Intn(50))
				}
			}
		}
		T := total(p)
		j0 := T
		if j0 > 20 {
			j0 = 20
		}
		if T > 2000 { // windows of T selections are too long to enumerate: only replica agreement
			checkSetNoWindow(p, j0)
			continue
		}
		checkSet(p, j0, 8, "random")
	}
	nops := lib.Pick(3000, 300000)
	for i := 0; i < nops; i++ {
		checkOps(int64(i))
	}
	run.Require("batched_vs_repeated", 1000)
	run.Require("windows_checked", 1000)
	run.Require("copies_taken", 100)
	os.Exit(run.Finish())
}

// checkSetNoWindow: replica-agreement oracles only (huge total power).
func checkSetNoWindow(powers []int64, j0 int64) {
	run.Eval()
	run.Nontrivial("bigset:" + fmt.Sprint(powers))
	st := mkSet(powers)
	for j := int64(0); j < j0; j++ {
		for k := int64(1); k <= 6; k++ {
			b := st.Copy()
			b.IncrementAccum(k)
			r := st.Copy()
			for i := int64(0); i < k; i++ {
				r.IncrementAccum(1)
			}
			run.Count("batched_vs_repeated", 1)
			sb, sr := snapshot(b), snapshot(r)
			if sb.Proposer != sr.Proposer || !sameAccums(sb.Accums, sr.Accums) {
				run.Count("batched_differs", 1)
				run.Violation("batched-increment-differs", fmt.Sprintf("IncrementAccum(%d) != %d x IncrementAccum(1) for powers %v", k, k, powers),
					map[string]interface{}{"powers": powers, "start_increments": j, "k": k, "batched": sb, "repeated": sr})
			}
		}
		re, err := reloadState(st, false)
		run.Count("reload_state", 1)
		if err == nil {
			sa, sb := snapshot(st), snapshot(re)
			if sa.Proposer != sb.Proposer && sameAccums(sa.Accums, sb.Accums) {
				run.Count("reload_proposer_differs", 1)
				run.Violation("reloaded-set-names-other-proposer", fmt.Sprintf("state save/load of %v after %d increments names %s, live %s", powers, j, sb.Proposer[:8], sa.Proposer[:8]), map[string]interface{}{"powers": powers, "start_increments": j})
			}
		}
		st.IncrementAccum(1)
	}
	_ = sort.Ints
}
