package main

// Workload kind "valset": every block carries one administrative request that
// changes the validator set through the governance precompile 0xfe (signed by
// the node's own validator key, which holds more than 2/3 of the power at all
// times), so that every durable write of a commit that also changes the set is
// a crash point. The request is a function of the submitting account's nonce
// alone:
//
//	nonce % 4 == 0   add_peer    X with power 1   (X never runs; < 1/3)
//	nonce % 4 == 1   update_node X to power 2
//	nonce % 4 == 2   update_node SELF to power 10 + (nonce/4) % 5
//	nonce % 4 == 3   remove_node X
//
// Oracle (in addition to the common ones): the validator sets of the recovered
// state (State.Validators, State.LastValidators) equal the sets an uncrashed
// replica derives by re-executing the recovered chain from genesis through the
// real application and the real plugin, and equal the request model below.

import (
	"crypto/ed25519"
	"crypto/sha256"
	"encoding/binary"
	"encoding/hex"
	"encoding/json"
	"fmt"
	"sort"
	"time"

	"github.com/spf13/viper"

	"github.com/dappledger/AnnChain/eth/common"
	"github.com/dappledger/AnnChain/eth/core/vm"
	crypto "github.com/dappledger/AnnChain/gemmill/go-crypto"
	dbm "github.com/dappledger/AnnChain/gemmill/modules/go-db"
	"github.com/dappledger/AnnChain/gemmill/p2p"
	"github.com/dappledger/AnnChain/gemmill/plugin"
	"github.com/dappledger/AnnChain/gemmill/refuse_list"
	sm "github.com/dappledger/AnnChain/gemmill/state"
	gtypes "github.com/dappledger/AnnChain/gemmill/types"

	"verif/evmdrive"
)

// wire format of an administrative request (as the operators' client writes it)
type oSig struct {
	PubKey    []byte `json:"pubkey"`
	Signature []byte `json:"signature"`
}

type oCmd struct {
	CmdType  string    `json:"cmdtype"`
	Msg      []byte    `json:"msg"`
	SelfSign []byte    `json:"sigs"`
	Time     time.Time `json:"time"`
	Nonce    uint64    `json:"nonce"`
	SInfos   []oSig    `json:"siginfos"`
}

type oAttr struct {
	PubKey []byte `json:"pubKey,omitempty"`
	Power  int64  `json:"power,omitempty"`
	Cmd    string `json:"cmd"`
	Addr   []byte `json:"addr"`
	Nonce  uint64 `json:"nonce"`
}

var precompFE = common.BytesToAddress([]byte{0xfe})

func xKey() ed25519.PrivateKey {
	seed := sha256.Sum256([]byte("c06-validator-X"))
	return ed25519.NewKeyFromSeed(seed[:])
}

func xPub() []byte { return []byte(xKey().Public().(ed25519.PublicKey)) }

// adminOpOf: the request carried by the transaction with this nonce.
func adminOpOf(nonce uint64, selfPub []byte) (cmd string, target []byte, power int64) {
	switch nonce % 4 {
	case 0:
		return "add_peer", xPub(), 1
	case 1:
		return "update_node", xPub(), 2
	case 2:
		return "update_node", selfPub, 10 + int64(nonce/4)%5
	}
	return "remove_node", xPub(), 0
}

// adminTx builds the signed transaction of account C with this nonce.
func adminTx(nonce uint64, selfPriv ed25519.PrivateKey) []byte {
	selfPub := []byte(selfPriv.Public().(ed25519.PublicKey))
	cmd, target, power := adminOpOf(nonce, selfPub)
	from := evmdrive.Addr(keyC).Bytes()
	msg, _ := json.Marshal(oAttr{PubKey: target, Power: power, Cmd: cmd, Addr: from, Nonce: nonce})
	var selfSign []byte
	if cmd == "add_peer" {
		selfSign = ed25519.Sign(xKey(), msg)
	}
	c := oCmd{CmdType: "changeValidator", Msg: msg, SelfSign: selfSign, Time: time.Unix(1500000000, 0).UTC(), SInfos: []oSig{{PubKey: selfPub, Signature: ed25519.Sign(selfPriv, msg)}}}
	b, _ := json.Marshal(c)
	txdata := append([]byte("zaop"), b...)
	// the 0xfe call input: 32-byte length word, 20-byte account, request
	data := make([]byte, 32, 52+len(txdata))
	binary.BigEndian.PutUint64(data[24:], uint64(20+len(txdata)))
	data = append(data, from...)
	data = append(data, txdata...)
	to := precompFE
	return evmdrive.SignedTx(keyC, nonce, &to, 0, 50000000, 0, data)
}

// setView: hex(pubkey) -> power, printable and comparable.
type setView map[string]int64

func viewOf(vs *gtypes.ValidatorSet) setView {
	out := setView{}
	if vs == nil {
		return out
	}
	for _, v := range vs.Validators {
		out[hex.EncodeToString(crypto.GetNodePubkeyBytes(v.PubKey))] = v.VotingPower
	}
	return out
}

func (s setView) String() string {
	var ks []string
	for k := range s {
		ks = append(ks, k)
	}
	sort.Strings(ks)
	out := ""
	for _, k := range ks {
		out += fmt.Sprintf("%s..=%d ", k[:8], s[k])
	}
	return out
}

func (s setView) equal(o setView) bool {
	if len(s) != len(o) {
		return false
	}
	for k, v := range s {
		if w, ok := o[k]; !ok || w != v {
			return false
		}
	}
	return true
}

// modelApply applies the request with this nonce to a set (the sequential model).
func modelApply(s setView, nonce uint64, selfPub []byte) {
	cmd, target, power := adminOpOf(nonce, selfPub)
	k := hex.EncodeToString(target)
	switch cmd {
	case "add_peer":
		if _, ok := s[k]; !ok {
			s[k] = power
		}
	case "update_node":
		if _, ok := s[k]; ok {
			s[k] = power
		}
	case "remove_node":
		delete(s, k)
	}
}

// ---- re-execution with the real plugin (what an uncrashed replica computes) ------------------

type valsetReplica struct {
	cur  *gtypes.ValidatorSet // State.Validators: the plugin holds a pointer to this field
	last *gtypes.ValidatorSet
	plug *plugin.AdminOp
	rl   *refuse_list.RefuseList
}

func newValsetReplica(gen *gtypes.GenesisDoc) *valsetReplica {
	gs := sm.MakeGenesisState(dbm.NewMemDB(), gen)
	r := &valsetReplica{cur: gs.Validators, last: gs.LastValidators}
	r.rl = refuse_list.NewRefuseList("memdb", "")
	sw := p2p.NewSwitch(viper.New())
	r.plug = &plugin.AdminOp{}
	r.plug.Init(&plugin.InitParams{Switch: sw, RefuseList: r.rl, Validators: &r.cur})
	vm.DefaultAdminContract.SetCallback(func(app *vm.AdminDBApp, tx []byte) error { return r.plug.ExecTX(app, tx) })
	return r
}

// endBlock mirrors State.ExecBlock after the transactions of the block were executed.
func (r *valsetReplica) endBlock(blk *gtypes.Block) error {
	valSet := r.cur.Copy()
	next := valSet.Copy()
	if _, err := r.plug.EndBlock(&plugin.EndBlockParams{Block: blk, ChangedValidators: make([]*gtypes.ValidatorAttr, 0), NextValidatorSet: next}); err != nil {
		return err
	}
	next.IncrementAccum(1)
	r.last = valSet
	r.cur = next
	return nil
}
