// C06 — crash-atomic commit: restart after any crash converges to the uncrashed result.
//
// Engine E3: the real node (chain/core.NewNode = Angine + EVM application +
// stores + WAL + signer file) in child processes, killed for real (SIGKILL to
// self from the durable-write failpoint, immediately before the k-th durable
// write after arming) while it commits blocks carrying the workload.
//
// Per crash point:
//
//	run(crash at write k)  ->  raw post-mortem dump of the block store
//	-> run(recovery; optionally crash again at write k2 of the recovery run;
//	   must commit >= 2 further blocks)
//	-> settle dump (NewNode only = the node's own crash recovery, no consensus)
//	-> re-execution of the recovered chain on a fresh application.
//
// Oracle: the node restarts without operator action and without panic and
// commits further blocks; after recovery block store, state and application
// agree on one height and its hashes; exactly-once (nonces, a counter
// contract's storage and key-value history lengths equal what the chain
// contains); every block/commit readable in the post-mortem dump is
// byte-identical afterwards; re-execution reproduces every AppHash/ReceiptsHash.
package main

import (
	"bytes"
	"crypto/ed25519"
	"crypto/sha256"
	"encoding/binary"
	"encoding/hex"
	"encoding/json"
	"fmt"
	"io/ioutil"
	"os"
	"os/exec"
	"path/filepath"
	"strconv"
	"strings"
	"sync"
	"time"

	"github.com/dappledger/AnnChain/chain/app/evm"
	"github.com/dappledger/AnnChain/chain/core"
	ctypes "github.com/dappledger/AnnChain/chain/types"
	"github.com/dappledger/AnnChain/eth/common"
	etypes "github.com/dappledger/AnnChain/eth/core/types"
	"github.com/dappledger/AnnChain/eth/rlp"
	crypto "github.com/dappledger/AnnChain/gemmill/go-crypto"
	wire "github.com/dappledger/AnnChain/gemmill/go-wire"
	"github.com/dappledger/AnnChain/gemmill/modules/verifhook"
	gtypes "github.com/dappledger/AnnChain/gemmill/types"

	"verif/evmdrive"
	"verif/lib"
	"verif/vnode"
)

const prop = "C06"

var (
	keyA = evmdrive.Key("c06-A") // contract deployer / caller
	keyB = evmdrive.Key("c06-B") // key-value writer
	keyC = evmdrive.Key("c06-C") // submitter of administrative requests (kind valset)
)

func counterAddr() common.Address { return evmdrive.ContractAddr(evmdrive.Addr(keyA), 0) }

type plan struct {
	Kind       string `json:"kind"` // empty | evm | kv | mixed | valset (= mixed + one validator-set change per block)
	ArmAt      int64  `json:"arm_at"`
	CrashAt    int64  `json:"crash_at"`     // k-th durable write after arming (0 = never)
	CrashAtAll int64  `json:"crash_at_all"` // k-th durable write counted from process start (second-level crash)
	StopAt     int64  `json:"stop_at"`      // exit(0) once the block store reached this height
	PerBlock   int    `json:"per_block"`
	Filter     string `json:"filter"` // count only durable writes whose site contains this (crash_at)
}

// ---- child: run ---------------------------------------------------------------------

func appNonce(n *core.Node, a common.Address) uint64 {
	r := n.Application.Query(append([]byte{ctypes.QueryType_Nonce}, a.Bytes()...))
	var v uint64
	rlp.DecodeBytes(r.Data, &v)
	return v
}

func childRun(args []string) {
	dir := args[0]
	port, _ := strconv.Atoi(args[1])
	var pl plan
	b, _ := ioutil.ReadFile(args[2])
	json.Unmarshal(b, &pl)
	ev, _ := os.OpenFile(args[3], os.O_CREATE|os.O_WRONLY|os.O_APPEND, 0644)
	logf := func(f string, a ...interface{}) { fmt.Fprintf(ev, f+"\n", a...) }
	if pl.CrashAtAll > 0 {
		verifhook.SetCrashAt(pl.CrashAtAll)
		verifhook.Arm()
	}
	n, _, err := vnode.New(dir, port)
	if err != nil {
		logf("NEWNODE-ERROR %v", err)
		os.Exit(5)
	}
	if err := n.Start(); err != nil {
		logf("START-ERROR %v", err)
		os.Exit(5)
	}
	logf("STARTED height %d", n.Angine.Height())
	nA, nB, nC := appNonce(n, evmdrive.Addr(keyA)), appNonce(n, evmdrive.Addr(keyB)), appNonce(n, evmdrive.Addr(keyC))
	var selfPriv ed25519.PrivateKey
	if pk, ok := n.Angine.PrivValidator().GetPrivKey().(crypto.PrivKeyEd25519); ok {
		selfPriv = ed25519.PrivateKey(pk[:])
	}
	kvN := 0
	submit := func() {
		for i := 0; i < pl.PerBlock; i++ {
			var tx []byte
			switch {
			case pl.Kind == "empty":
				return
			case pl.Kind == "valset" && i == 0:
				tx = adminTx(nC, selfPriv)
				nC++
			case pl.Kind == "kv" || ((pl.Kind == "mixed" || pl.Kind == "valset") && i%2 == 1):
				kvN++
				tx = evmdrive.KVTx(keyB, nB, []byte(fmt.Sprintf("c06-key-%d", kvN%3)), []byte(fmt.Sprintf("v-%d-%d", nB, kvN)))
				nB++
			default:
				if nA == 0 {
					tx = evmdrive.SignedTx(keyA, 0, nil, 0, 3000000, 0, evmdrive.Deploy(evmdrive.CounterRuntime))
				} else {
					to := counterAddr()
					tx = evmdrive.SignedTx(keyA, nA, &to, 0, 3000000, 0, nil)
				}
				nA++
			}
			if err := n.Angine.BroadcastTx(tx); err != nil {
				logf("SUBMIT-ERROR %v", err)
			}
		}
	}
	last := int64(-1)
	armed := false
	sameSince := time.Now()
	for {
		h := n.Angine.Height()
		if h != last {
			last = h
			sameSince = time.Now()
			logf("HEIGHT %d", h)
			if pl.StopAt > 0 && h >= pl.StopAt {
				// leave at a consistent point: wait until the state of that height is saved (the engine
				// publishes it after State.Save), then exit inside the timeout_commit pause
				for i := 0; i < 4000 && n.Angine.VerifState().LastBlockHeight < h; i++ {
					time.Sleep(time.Millisecond)
				}
				logf("STOP %d state %d", h, n.Angine.VerifState().LastBlockHeight)
				ev.Close()
				os.Exit(0)
			}
			submit()
			if !armed && pl.CrashAt > 0 && h >= pl.ArmAt {
				armed = true
				logf("ARMED at height %d", h)
				if pl.Filter != "" {
					verifhook.SetSiteFilter(pl.Filter)
				}
				verifhook.SetCrashAt(pl.CrashAt)
				verifhook.Arm()
			}
		}
		if time.Since(sameSince) > 40*time.Second {
			_, rs := n.Angine.GetConsensusStateInfo()
			logf("STUCK at height %d: %v", h, rs)
			ev.Close()
			os.Exit(7)
		}
		time.Sleep(3 * time.Millisecond)
	}
}

// ---- child: raw inspection of the block store (process must be gone) -------------------

type blockDump struct {
	H          int64    `json:"h"`
	Hash       string   `json:"hash"`
	Bytes      string   `json:"bytes_digest"`
	SeenCommit string   `json:"seen_commit_digest"`
	AppHash    string   `json:"app_hash_in_header"`
	RcptHash   string   `json:"receipts_hash_in_header"`
	Txs        []string `json:"txs"`
}

type dump struct {
	StoreHeight int64       `json:"store_height"`
	StateHeight int64       `json:"state_height"`
	StateApp    string      `json:"state_app_hash"`
	StateRcpt   string      `json:"state_receipts_hash"`
	AppHeight   int64       `json:"app_height"`
	AppHash     string      `json:"app_hash"`
	Blocks      []blockDump `json:"blocks"`
	NonceA      uint64      `json:"nonce_a"`
	NonceB      uint64      `json:"nonce_b"`
	Counter     string      `json:"counter"`
	KVTotals    []uint32    `json:"kv_totals"`
	NonceC      uint64      `json:"nonce_c"`
	Vals        setView     `json:"validators,omitempty"`
	LastVals    setView     `json:"last_validators,omitempty"`
	SelfPub     string      `json:"self_pub,omitempty"`
	Error       string      `json:"error,omitempty"`
}

func digest(b []byte) string { h := sha256.Sum256(b); return hex.EncodeToString(h[:8]) }

func dumpBlocks(load func(h int64) (*gtypes.Block, *gtypes.Commit), height int64) []blockDump {
	var out []blockDump
	for h := int64(1); h <= height; h++ {
		b, sc := load(h)
		if b == nil {
			out = append(out, blockDump{H: h, Hash: "unreadable"})
			continue
		}
		bd := blockDump{H: h, Hash: hex.EncodeToString(b.Hash()), Bytes: digest(wire.BinaryBytes(b)), AppHash: hex.EncodeToString(b.AppHash), RcptHash: hex.EncodeToString(b.ReceiptsHash)}
		if sc != nil {
			bd.SeenCommit = digest(wire.BinaryBytes(sc))
		}
		for _, t := range b.Data.Txs {
			bd.Txs = append(bd.Txs, hex.EncodeToString(t))
		}
		out = append(out, bd)
	}
	return out
}

func childInspect(args []string) {
	dir := args[0]
	port, _ := strconv.Atoi(args[1])
	var d dump
	st, err := vnode.OpenStores(dir, port)
	if err != nil {
		d.Error = err.Error()
	} else {
		d.StoreHeight = st.Store.Height()
		if st.State != nil {
			d.StateHeight, d.StateApp, d.StateRcpt = st.State.LastBlockHeight, hex.EncodeToString(st.State.AppHash), hex.EncodeToString(st.State.ReceiptsHash)
		}
		d.Blocks = dumpBlocks(func(h int64) (*gtypes.Block, *gtypes.Commit) {
			return st.Store.LoadBlock(h), st.Store.LoadSeenCommit(h)
		}, d.StoreHeight)
		st.Close()
		// the application's own commit marker, read raw
		if c, err := vnode.Conf(dir, port); err == nil {
			ba := &gtypes.BaseApplication{}
			if ba.InitBaseApplication(evm.AppName, c.GetString("db_dir")) == nil {
				lb := &evm.LastBlockInfo{AppHash: make([]byte, 0)}
				if res, err := ba.LoadLastBlock(lb); err == nil && res != nil {
					d.AppHeight, d.AppHash = res.(*evm.LastBlockInfo).Height, hex.EncodeToString(res.(*evm.LastBlockInfo).AppHash)
				}
				ba.Stop()
			}
		}
	}
	jb, _ := json.Marshal(d)
	ioutil.WriteFile(args[2], jb, 0644)
}

func appQueries(app interface {
	Query([]byte) gtypes.Result
}, d *dump) {
	appQueriesNoContract(app, d)
	to := counterAddr()
	call := evmdrive.SignedTx(keyA, 0, &to, 0, 1000000, 0, []byte{1})
	r := app.Query(append([]byte{ctypes.QueryType_Contract}, call...))
	d.Counter = hex.EncodeToString(r.Data)
}

// appQueriesNoContract: nonces and key-value history lengths. (A contract read-out needs the
// application's current header, which exists only after it executed a block in this process.)
func appQueriesNoContract(app interface {
	Query([]byte) gtypes.Result
}, d *dump) {
	nonce := func(a common.Address) uint64 {
		r := app.Query(append([]byte{ctypes.QueryType_Nonce}, a.Bytes()...))
		var v uint64
		rlp.DecodeBytes(r.Data, &v)
		return v
	}
	d.NonceA, d.NonceB, d.NonceC = nonce(evmdrive.Addr(keyA)), nonce(evmdrive.Addr(keyB)), nonce(evmdrive.Addr(keyC))
	for i := 0; i < 3; i++ {
		load := make([]byte, 8)
		binary.BigEndian.PutUint32(load[0:4], 1)
		binary.BigEndian.PutUint32(load[4:8], 1)
		load = append(load, []byte(fmt.Sprintf("c06-key-%d", i))...)
		r := app.Query(append([]byte{ctypes.QueryType_Key_Update_History}, load...))
		var res gtypes.ValueHistoryResult
		rlp.DecodeBytes(r.Data, &res)
		d.KVTotals = append(d.KVTotals, res.Total)
	}
}

// ---- child: settle = the node's own recovery (NewNode), then dump, no consensus ---------

func childSettle(args []string) {
	dir := args[0]
	port, _ := strconv.Atoi(args[1])
	var d dump
	n, _, err := vnode.New(dir, port)
	if err != nil {
		d.Error = "NewNode: " + err.Error()
	} else {
		n.Application.Start()
		st := n.Angine.VerifState()
		bs := n.Angine.VerifBlockStore()
		d.StoreHeight = bs.Height()
		d.StateHeight, d.StateApp, d.StateRcpt = st.LastBlockHeight, hex.EncodeToString(st.AppHash), hex.EncodeToString(st.ReceiptsHash)
		d.Vals, d.LastVals = viewOf(st.Validators), viewOf(st.LastValidators)
		d.SelfPub = hex.EncodeToString(crypto.GetNodePubkeyBytes(n.Angine.PrivValidator().GetPubKey()))
		info := n.Application.Info()
		d.AppHeight, d.AppHash = info.LastBlockHeight, hex.EncodeToString(info.LastBlockAppHash)
		d.Blocks = dumpBlocks(func(h int64) (*gtypes.Block, *gtypes.Commit) { return bs.LoadBlock(h), bs.LoadSeenCommit(h) }, d.StoreHeight)
		if d.StoreHeight >= 1 {
			appQueriesNoContract(n.Application, &d)
		}
	}
	jb, _ := json.Marshal(d)
	ioutil.WriteFile(args[2], jb, 0644)
	os.Exit(0)
}

// ---- child: re-execution of the recovered chain on a fresh application ------------------

type reexecOut struct {
	Queries  dump     `json:"queries"`
	Mismatch string   `json:"mismatch"`
	App      []string `json:"app"`
	Rcpt     []string `json:"rcpt"`
	Vals     setView  `json:"validators,omitempty"`      // the set an uncrashed replica holds after the last block
	LastVals setView  `json:"last_validators,omitempty"` // ... and the one before it
	Genesis  setView  `json:"genesis_validators,omitempty"`
	Error    string   `json:"error,omitempty"`
}

func childReexec(args []string) {
	dir := args[0]
	port, _ := strconv.Atoi(args[1])
	fresh := args[3]
	var out reexecOut
	st, err := vnode.OpenStores(dir, port)
	if err != nil {
		out.Error = err.Error()
	} else {
		app, err := evmdrive.Open(fresh, 0)
		if err != nil {
			out.Error = err.Error()
		} else {
			H := st.Store.Height()
			rawH := H
			// the recovered node may hold one block more than it has applied (a run that ended between
			// SaveBlock and the application's commit: the node applies that block when consensus
			// starts): re-execute what the node's own recovery reports as its height
			if len(args) > 4 {
				if lim, err := strconv.ParseInt(args[4], 10, 64); err == nil && lim > 0 && lim < H {
					H = lim
				}
			}
			var vr *valsetReplica
			if st.State != nil && st.State.GenesisDoc != nil {
				vr = newValsetReplica(st.State.GenesisDoc) // the real plugin behind the 0xfe precompile, as in the node
				out.Genesis = viewOf(vr.cur)
			}
			for h := int64(1); h <= H; h++ {
				blk := st.Store.LoadBlock(h)
				if _, err := app.OnExecute(h, 0, blk); err != nil {
					out.Error = fmt.Sprintf("execute %d: %v", h, err)
					break
				}
				if vr != nil {
					if err := vr.endBlock(blk); err != nil {
						out.Error = fmt.Sprintf("end block %d: %v", h, err)
						break
					}
				}
				c, err := app.OnCommit(h, 0, blk)
				if err != nil {
					out.Error = fmt.Sprintf("commit %d: %v", h, err)
					break
				}
				cr := c.(gtypes.CommitResult)
				out.App = append(out.App, hex.EncodeToString(cr.AppHash))
				out.Rcpt = append(out.Rcpt, hex.EncodeToString(cr.ReceiptsHash))
				if h < rawH {
					next := st.Store.LoadBlock(h + 1)
					if !bytes.Equal(next.AppHash, cr.AppHash) || !bytes.Equal(next.ReceiptsHash, cr.ReceiptsHash) {
						out.Mismatch = fmt.Sprintf("block %d records AppHash %X / ReceiptsHash %X for height %d, re-execution gives %X / %X", h+1, next.AppHash, next.ReceiptsHash, h, cr.AppHash, cr.ReceiptsHash)
						break
					}
				} else if st.State != nil && st.State.LastBlockHeight == H {
					if !bytes.Equal(st.State.AppHash, cr.AppHash) || !bytes.Equal(st.State.ReceiptsHash, cr.ReceiptsHash) {
						out.Mismatch = fmt.Sprintf("state records AppHash %X / ReceiptsHash %X for height %d, re-execution gives %X / %X", st.State.AppHash, st.State.ReceiptsHash, H, cr.AppHash, cr.ReceiptsHash)
					}
				}
			}
			if out.Error == "" && H >= 1 {
				appQueries(app, &out.Queries)
			}
			if vr != nil {
				out.Vals, out.LastVals = viewOf(vr.cur), viewOf(vr.last)
			}
			app.Close()
		}
		st.Close()
	}
	jb, _ := json.Marshal(out)
	ioutil.WriteFile(args[2], jb, 0644)
}

// ---- parent ------------------------------------------------------------------------------

type procResult struct {
	out      string
	events   []string
	signaled bool // died by signal (SIGKILL from the failpoint)
	exit     int
	timedOut bool
}

func runProc(dir string, watchdog time.Duration, env []string, args ...string) procResult {
	logfile := filepath.Join(dir, fmt.Sprintf("proc-%s-%d.log", args[0], time.Now().UnixNano()))
	out, to, err := lib.RunCmd(watchdog, logfile, env, os.Getenv("VERIF_SELF"), args...)
	r := procResult{out: out, timedOut: to}
	if ee, ok := err.(*exec.ExitError); ok {
		if ws, ok := ee.Sys().(interface{ Signaled() bool }); ok && ws.Signaled() {
			r.signaled = true
		}
		r.exit = ee.ExitCode()
	} else if err != nil {
		r.exit = -1
	}
	return r
}

func readEvents(path string) []string {
	b, _ := ioutil.ReadFile(path)
	return strings.Split(strings.TrimSpace(string(b)), "\n")
}

func readJSON(path string, v interface{}) bool {
	b, err := ioutil.ReadFile(path)
	if err != nil {
		return false
	}
	return json.Unmarshal(b, v) == nil
}

func copyDir(src, dst string) {
	exec.Command("cp", "-r", src, dst).Run()
}

var panicSiteRe = func(out string) string {
	i := strings.Index(out, "goroutine ")
	if i < 0 {
		return "unknown"
	}
	for _, l := range strings.Split(out[i:], "\n") {
		if strings.HasPrefix(l, "github.com/dappledger/AnnChain/") && !strings.Contains(l, "go-common.Panic") {
			l = strings.TrimPrefix(l, "github.com/dappledger/AnnChain/")
			if k := strings.LastIndex(l, "("); k > 0 {
				l = l[:k]
			}
			return l
		}
	}
	return "unknown"
}

type template struct {
	dir    string
	height int64
}

var portMtx sync.Mutex
var nextPort = 31000

func port() int {
	portMtx.Lock()
	defer portMtx.Unlock()
	nextPort++
	return nextPort
}

// makeTemplate builds a runtime dir with a few committed blocks of the kind's workload.
func makeTemplate(run *lib.Run, base, kind string) *template {
	dir := filepath.Join(base, "tmpl-"+kind)
	p := port()
	r := runProc(base, 2*time.Minute, nil, "init", dir, strconv.Itoa(p), "c06-"+kind)
	if r.exit != 0 {
		run.Inconclusive("init failed: " + r.out)
		return nil
	}
	pl := plan{Kind: kind, StopAt: 3, PerBlock: 3}
	pj, _ := json.Marshal(pl)
	ioutil.WriteFile(filepath.Join(base, "plan-tmpl-"+kind+".json"), pj, 0644)
	ev := filepath.Join(base, "events-tmpl-"+kind+".log")
	r = runProc(base, 3*time.Minute, []string{"VERIF_DISARMED=1"}, "run", dir, strconv.Itoa(p), filepath.Join(base, "plan-tmpl-"+kind+".json"), ev)
	if r.exit != 0 || r.timedOut {
		run.Inconclusive(fmt.Sprintf("template run for %s failed (exit %d): %s %v", kind, r.exit, tail(r.out, 600), readEvents(ev)))
		return nil
	}
	// bring the template to a consistent point: one settle (the node's own recovery) and dump
	var d dump
	runProc(base, 2*time.Minute, []string{"VERIF_DISARMED=1"}, "settle", dir, strconv.Itoa(p), filepath.Join(base, "tmpl-"+kind+".json"))
	if !readJSON(filepath.Join(base, "tmpl-"+kind+".json"), &d) || d.Error != "" || d.StoreHeight != d.StateHeight || d.StoreHeight != d.AppHeight {
		run.Inconclusive(fmt.Sprintf("template for %s is not at a consistent point: %+v", kind, d.Error))
		return nil
	}
	return &template{dir: dir, height: d.StoreHeight}
}

func firstPanicLine(out string) string {
	for _, l := range strings.Split(out, "\n") {
		if strings.HasPrefix(l, "panic:") {
			return l
		}
	}
	return ""
}

func tail(s string, n int) string {
	if len(s) > n {
		return s[len(s)-n:]
	}
	return s
}

type point struct {
	kind   string
	k      int64
	k2     int64
	filter string // count only writes of this site
}

func runPoint(run *lib.Run, base string, t *template, pt point, idx int) {
	dir := filepath.Join(base, fmt.Sprintf("p%d", idx))
	os.MkdirAll(dir, 0755)
	if os.Getenv("VERIF_C06_KEEP") != "" {
		defer exec.Command("cp", "-r", dir, fmt.Sprintf("/tmp/c06-kept-%s-%d-%d", pt.kind, pt.k, idx)).Run()
	}
	defer os.RemoveAll(dir)
	rt := filepath.Join(dir, "rt")
	copyDir(t.dir, rt)
	p := port()
	ps := strconv.Itoa(p)
	run.Eval()
	var ctx = map[string]interface{}{} // what was observed so far (events, heights), added to every witness
	witness := func(extra map[string]interface{}) map[string]interface{} {
		m := map[string]interface{}{"kind": pt.kind, "crash_at_write": pt.k, "counting_only_sites": pt.filter, "second_crash_at_write": pt.k2, "seed": lib.Seed()}
		for k, v := range ctx {
			m[k] = v
		}
		for k, v := range extra {
			m[k] = v
		}
		return m
	}
	// 1. crash run
	pl := plan{Kind: pt.kind, ArmAt: t.height, CrashAt: pt.k, StopAt: t.height + 6, PerBlock: 3, Filter: pt.filter}
	pj, _ := json.Marshal(pl)
	ioutil.WriteFile(filepath.Join(dir, "plan1.json"), pj, 0644)
	wlog := filepath.Join(dir, "writes1.log")
	r := runProc(dir, 3*time.Minute, []string{"VERIF_DISARMED=1", "VERIF_WRITE_LOG=" + wlog}, "run", rt, ps, filepath.Join(dir, "plan1.json"), filepath.Join(dir, "events1.log"))
	ev1 := readEvents(filepath.Join(dir, "events1.log"))
	if r.timedOut {
		run.Inconclusive(fmt.Sprintf("point %s/%d: crash run hit the watchdog", pt.kind, pt.k))
		return
	}
	if !r.signaled {
		if r.exit == 0 {
			run.Count("crash_point_not_reached", 1)
			return
		}
		run.Violation("node-died-by-itself:"+panicSiteRe(r.out), fmt.Sprintf("%s workload: the node process exited with %d before the injected crash: %s", pt.kind, r.exit, tail(r.out, 800)), witness(map[string]interface{}{"events": ev1}))
		return
	}
	site := "unknown"
	if wb, err := ioutil.ReadFile(wlog); err == nil {
		for _, l := range strings.Split(string(wb), "\n") {
			if strings.HasPrefix(l, "! crash before") {
				f := strings.Fields(l)
				site = f[len(f)-1]
			}
		}
	}
	ctx["crash_site"] = site
	ctx["events_before_crash"] = ev1
	run.Count("crash_points_reached", 1)
	run.Count("crash_site_"+site, 1)
	run.Nontrivial(fmt.Sprintf("%s/%s%d/%d", pt.kind, pt.filter, pt.k, pt.k2))
	if pt.filter != "" {
		run.Count("crash_points_by_site_ordinal", 1)
	}
	run.Distinct("crash_kind_site", pt.kind+"/"+site)
	// 2. post-mortem
	var pm dump
	runProc(dir, time.Minute, []string{"VERIF_DISARMED=1"}, "inspect", rt, ps, filepath.Join(dir, "pm.json"))
	if !readJSON(filepath.Join(dir, "pm.json"), &pm) || pm.Error != "" {
		run.Violation("stores-unreadable-after-crash:"+site, fmt.Sprintf("crash before write %d (%s): the block store / state cannot be opened: %s", pt.k, site, pm.Error), witness(nil))
		return
	}
	ctx["post_mortem_heights_store_app_state"] = []int64{pm.StoreHeight, pm.AppHeight, pm.StateHeight}
	// 3. recovery run (optionally crashing again)
	target := pm.StoreHeight + 2
	pl2 := plan{Kind: pt.kind, StopAt: target, PerBlock: 3, CrashAtAll: pt.k2}
	pj2, _ := json.Marshal(pl2)
	ioutil.WriteFile(filepath.Join(dir, "plan2.json"), pj2, 0644)
	env2 := []string{"VERIF_DISARMED=1"}
	r2 := runProc(dir, 3*time.Minute, env2, "run", rt, ps, filepath.Join(dir, "plan2.json"), filepath.Join(dir, "events2.log"))
	ev2 := readEvents(filepath.Join(dir, "events2.log"))
	if pt.k2 > 0 && r2.signaled {
		run.Count("second_level_crashes", 1)
		runProc(dir, time.Minute, []string{"VERIF_DISARMED=1"}, "inspect", rt, ps, filepath.Join(dir, "pm2.json"))
		var pm2 dump
		if readJSON(filepath.Join(dir, "pm2.json"), &pm2) && pm2.Error == "" {
			// blocks readable after the first crash must still be unchanged; then judge from the second crash on
			for i, b := range pm.Blocks {
				if i >= len(pm2.Blocks) || pm2.Blocks[i].Hash != b.Hash || pm2.Blocks[i].Bytes != b.Bytes {
					run.Violation("committed-block-changed-after-crash", fmt.Sprintf("second crash: block %d differs from the first post-mortem", b.H), witness(nil))
					return
				}
			}
			pm = pm2
			if pm.StoreHeight+2 > target {
				target = pm.StoreHeight + 2
			}
		}
		pl3 := plan{Kind: pt.kind, StopAt: target, PerBlock: 3}
		_ = pl3
		pj3, _ := json.Marshal(pl3)
		ioutil.WriteFile(filepath.Join(dir, "plan3.json"), pj3, 0644)
		r2 = runProc(dir, 3*time.Minute, env2, "run", rt, ps, filepath.Join(dir, "plan3.json"), filepath.Join(dir, "events3.log"))
		ev2 = append(ev2, readEvents(filepath.Join(dir, "events3.log"))...)
	}
	ctx["events_after_restart"] = ev2
	if r2.timedOut {
		run.Inconclusive(fmt.Sprintf("point %s/%d (%s): recovery run hit the watchdog", pt.kind, pt.k, site))
		return
	}
	if r2.exit == 7 {
		run.Violation("no-progress-after-restart:"+site, fmt.Sprintf("%s workload, crash before write %d (%s): the restarted node committed nothing for 40 s: %v", pt.kind, pt.k, site, ev2[len(ev2)-1]), witness(map[string]interface{}{"events": ev2}))
		return
	}
	if r2.exit != 0 && pm.AppHeight == pm.StoreHeight && pm.StateHeight == pm.StoreHeight-1 && strings.Contains(r2.out, "is higher than core") {
		// the crash fell between the application's commit marker and State.Save
		run.Count("restart_fails_app_committed_state_not_saved", 1)
		run.Violation("restart-fails:application-committed-but-state-not-saved", fmt.Sprintf("%s workload, crash before write %d (%s): block store %d, application %d, state %d: the node refuses to start (%s)", pt.kind, pt.k, site, pm.StoreHeight, pm.AppHeight, pm.StateHeight, firstPanicLine(r2.out)), witness(map[string]interface{}{"post_mortem_heights": []int64{pm.StoreHeight, pm.AppHeight, pm.StateHeight}}))
		return
	}
	if r2.exit != 0 {
		run.Violation("restart-fails:"+site+":"+panicSiteRe(r2.out), fmt.Sprintf("%s workload, crash before write %d (%s; post-mortem store %d app %d state %d): the restarted node exited with %d: %s", pt.kind, pt.k, site, pm.StoreHeight, pm.AppHeight, pm.StateHeight, r2.exit, tail(r2.out, 1200)), witness(map[string]interface{}{"events": ev2, "output_tail": tail(r2.out, 3000)}))
		return
	}
	run.Count("recoveries_committed_two_more_blocks", 1)
	// 4. settle: the node's own recovery once more, then dump
	var fin dump
	rs := runProc(dir, 2*time.Minute, []string{"VERIF_DISARMED=1"}, "settle", rt, ps, filepath.Join(dir, "final.json"))
	if !readJSON(filepath.Join(dir, "final.json"), &fin) || fin.Error != "" {
		run.Violation("recovery-fails-on-second-restart:"+panicSiteRe(rs.out), fmt.Sprintf("crash before write %d (%s): building the node again failed: %s %s", pt.k, site, fin.Error, tail(rs.out, 800)), witness(nil))
		return
	}
	{
		f2 := fin
		f2.Blocks = nil
		ctx["after_recovery"] = f2
		var hs []string
		for _, b := range fin.Blocks {
			hs = append(hs, fmt.Sprintf("%d:%s app=%s txs=%d", b.H, b.Hash[:8], b.AppHash, len(b.Txs)))
		}
		ctx["recovered_chain"] = hs
	}
	if fin.StoreHeight != fin.StateHeight || fin.StoreHeight != fin.AppHeight {
		run.Violation("heights-disagree-after-recovery", fmt.Sprintf("crash before write %d (%s): after recovery block store %d, state %d, application %d", pt.k, site, fin.StoreHeight, fin.StateHeight, fin.AppHeight), witness(map[string]interface{}{"final": fin}))
		return
	}
	if fin.StateApp != fin.AppHash {
		run.Violation("apphash-disagrees-after-recovery", fmt.Sprintf("crash before write %d (%s): state AppHash %s, application %s at height %d", pt.k, site, fin.StateApp, fin.AppHash, fin.StoreHeight), witness(nil))
		return
	}
	// stability of everything that was readable right after the crash
	for i, b := range pm.Blocks {
		if i >= len(fin.Blocks) || fin.Blocks[i].Hash != b.Hash || fin.Blocks[i].Bytes != b.Bytes || (b.SeenCommit != "" && fin.Blocks[i].SeenCommit != b.SeenCommit) {
			run.Violation("committed-block-changed-after-crash", fmt.Sprintf("crash before write %d (%s): block %d readable right after the crash differs afterwards", pt.k, site, b.H), witness(map[string]interface{}{"post_mortem": b}))
			return
		}
		run.Count("blocks_stable", 1)
	}
	// exactly-once from the chain's content
	model := map[common.Address]uint64{}
	incs, kvs := uint64(0), map[string]uint32{}
	selfPub, _ := hex.DecodeString(fin.SelfPub)
	var adminNonces [][]uint64 // per block: the nonces of the administrative requests it applies
	for _, b := range fin.Blocks {
		adminNonces = append(adminNonces, nil)
		for _, hx := range b.Txs {
			raw, _ := hex.DecodeString(hx)
			tx := new(etypes.Transaction)
			if rlp.DecodeBytes(raw, tx) != nil {
				continue
			}
			from, err := etypes.Sender(etypes.HomesteadSigner{}, tx)
			if err != nil || tx.Nonce() != model[from] {
				continue
			}
			model[from]++
			if from == evmdrive.Addr(keyC) && tx.To() != nil && *tx.To() == precompFE {
				adminNonces[len(adminNonces)-1] = append(adminNonces[len(adminNonces)-1], tx.Nonce())
			}
			if bytes.HasPrefix(tx.Data(), ctypes.KVTxType) {
				var kv ctypes.KV
				if rlp.DecodeBytes(tx.Data()[len(ctypes.KVTxType):], &kv) == nil {
					kvs[string(kv.Key)]++
				}
			} else if tx.To() != nil && *tx.To() == counterAddr() && len(tx.Data()) == 0 {
				incs++
			}
		}
	}
	if fin.NonceA != model[evmdrive.Addr(keyA)] || fin.NonceB != model[evmdrive.Addr(keyB)] || fin.NonceC != model[evmdrive.Addr(keyC)] {
		run.Violation("nonce-not-exactly-once", fmt.Sprintf("crash before write %d (%s): nonces A=%d B=%d C=%d, the chain contains %d / %d / %d applied txs", pt.k, site, fin.NonceA, fin.NonceB, fin.NonceC, model[evmdrive.Addr(keyA)], model[evmdrive.Addr(keyB)], model[evmdrive.Addr(keyC)]), witness(map[string]interface{}{"final": fin}))
		return
	}
	for i := 0; i < 3 && i < len(fin.KVTotals); i++ {
		if fin.KVTotals[i] != kvs[fmt.Sprintf("c06-key-%d", i)] {
			run.Violation("kv-history-not-exactly-once", fmt.Sprintf("crash before write %d (%s): key c06-key-%d has %d history entries, the chain contains %d writes", pt.k, site, i, fin.KVTotals[i], kvs[fmt.Sprintf("c06-key-%d", i)]), witness(nil))
			return
		}
	}
	run.Count("exactly_once_checks", 1)
	// 5. re-execution on a fresh application
	var re reexecOut
	rr := runProc(dir, 3*time.Minute, []string{"VERIF_DISARMED=1"}, "reexec", rt, ps, filepath.Join(dir, "reexec.json"), filepath.Join(dir, "fresh"), strconv.FormatInt(fin.StoreHeight, 10))
	if !readJSON(filepath.Join(dir, "reexec.json"), &re) {
		run.Violation("re-execution-crashed:"+panicSiteRe(rr.out), fmt.Sprintf("crash before write %d (%s): re-executing the recovered chain crashed: %s", pt.k, site, tail(rr.out, 800)), witness(nil))
		return
	}
	ctx["re_execution"] = map[string]interface{}{"app_hashes": re.App, "receipts_hashes": re.Rcpt, "validators": re.Vals, "last_validators": re.LastVals}
	if re.Error != "" || re.Mismatch != "" {
		run.Violation("re-execution-differs", fmt.Sprintf("crash before write %d (%s): %s %s", pt.k, site, re.Mismatch, re.Error), witness(map[string]interface{}{"final": fin}))
		return
	}
	// the recovered state root equals the re-executed one (checked above through headers and state);
	// the re-executed application's storage must hold exactly the chain's increments
	if len(re.App) > 0 && re.App[len(re.App)-1] != fin.StateApp {
		run.Violation("recovered-apphash-differs-from-re-execution", fmt.Sprintf("crash before write %d (%s): recovered AppHash %s, re-execution %s", pt.k, site, fin.StateApp, re.App[len(re.App)-1]), witness(nil))
		return
	}
	if model[evmdrive.Addr(keyA)] > 0 {
		want := fmt.Sprintf("%064x", incs)
		if re.Queries.Counter != want {
			run.Violation("contract-storage-not-exactly-once", fmt.Sprintf("crash before write %d (%s): counter contract holds %s, the chain contains %d increments", pt.k, site, re.Queries.Counter, incs), witness(nil))
			return
		}
		run.Count("contract_storage_checks", 1)
	}
	// validator sets: recovered node = uncrashed replica (re-execution through the real plugin) = request model
	if re.Vals != nil {
		if !fin.Vals.equal(re.Vals) || !fin.LastVals.equal(re.LastVals) {
			run.Violation("validator-set-differs-from-uncrashed-replica", fmt.Sprintf("%s workload, crash before write %d (%s): after recovery the state holds validators {%v} / last {%v} at height %d, a replica that executed the same chain without a crash holds {%v} / {%v}", pt.kind, pt.k, site, fin.Vals, fin.LastVals, fin.StoreHeight, re.Vals, re.LastVals), witness(map[string]interface{}{"final": fin, "admin_request_nonces_per_block": adminNonces}))
			return
		}
		run.Count("validator_set_checks", 1)
		if pt.kind == "valset" && re.Genesis != nil {
			cur, last := setView{}, setView{}
			for k, v := range re.Genesis {
				cur[k] = v
			}
			changes := 0
			for _, ns := range adminNonces {
				last = setView{}
				for k, v := range cur {
					last[k] = v
				}
				for _, n := range ns {
					modelApply(cur, n, selfPub)
					changes++
				}
			}
			run.Count("validator_set_requests_in_recovered_chains", int64(changes))
			run.Distinct("validator_sets_at_recovery", cur.String())
			if !cur.equal(re.Vals) || !last.equal(re.LastVals) {
				run.Violation("validator-set-differs-from-request-model", fmt.Sprintf("valset workload, crash before write %d (%s): the chain's accepted requests give {%v} / last {%v}, the re-executing replica holds {%v} / {%v}", pt.k, site, cur, last, re.Vals, re.LastVals), witness(map[string]interface{}{"final": fin, "admin_request_nonces_per_block": adminNonces}))
				return
			}
			run.Count("validator_set_model_checks", 1)
		}
	}
	run.Count("reexecutions_reproduced", 1)
	run.Count("blocks_reexecuted", int64(len(re.App)))
	if idx < 2 {
		run.Sample(map[string]interface{}{"kind": pt.kind, "crash_before_write": pt.k, "site": site, "post_mortem_store_height": pm.StoreHeight, "final_height": fin.StoreHeight, "nonce_a": fin.NonceA, "nonce_b": fin.NonceB, "counter": re.Queries.Counter, "kv_totals": fin.KVTotals, "events_after_restart": ev2})
	}
}

func main() {
	if len(os.Args) > 1 {
		evmdrive.Quiet()
		switch os.Args[1] {
		case "init":
			p, _ := strconv.Atoi(os.Args[3])
			vnode.Init(os.Args[2], os.Args[4], p)
			return
		case "run":
			childRun(os.Args[2:])
			return
		case "inspect":
			childInspect(os.Args[2:])
			return
		case "settle":
			childSettle(os.Args[2:])
			return
		case "reexec":
			childReexec(os.Args[2:])
			return
		}
	}
	_ = evm.AppName
	run := lib.NewRun(prop, "fault_enumeration")
	run.SetRule("the real single-validator node in child processes; for each workload kind {empty blocks, contract calls (counter contract), key-value txs, mixed} a template chain of 3 blocks, then for crash ordinals k (quick: for the three kinds with transactions every k of one whole commit cycle, 34 consecutive ordinals from a seeded offset, and 5 spread values for empty blocks; thorough: every k in 1..90) the node is killed by SIGKILL immediately before the k-th durable write (LevelDB put/batch of block store, state DB and application DBs, WAL line, signer-file step) after arming at the template height while it keeps committing blocks of that kind; for a subset a second crash before write k2 of the recovery run. Non-trivial = distinct (kind, k, k2) whose crash point was reached.")
	run.Assume("crash = process death (SIGKILL) immediately before a durable write issued by the process; power loss / un-fsynced data is not modelled", "block composition depends on real timers, so ordinal k lands on different writes in different runs: evidence lists the write sites actually hit", "single validator; multi-validator crash recovery is covered with a mock application in C07", "validator-set-change blocks and the raft engine are not covered here")
	base := lib.Scratch(prop)
	defer os.RemoveAll(base)
	kinds := []string{"empty", "evm", "kv", "valset"}
	if lib.Thorough() {
		kinds = append(kinds, "mixed")
	}
	tmpl := map[string]*template{}
	var tm sync.Mutex
	lib.Parallel(len(kinds), 5, func(i int) {
		t := makeTemplate(run, base, kinds[i])
		tm.Lock()
		tmpl[kinds[i]] = t
		tm.Unlock()
	})
	var pts []point
	for ki, kind := range kinds {
		if tmpl[kind] == nil {
			continue
		}
		if lib.Thorough() {
			for k := int64(1); k <= 90; k++ {
				pts = append(pts, point{kind: kind, k: k})
			}
			for k := int64(5); k <= 60; k += 11 {
				for _, k2 := range []int64{1, 3, 6, 10, 15, 25} {
					pts = append(pts, point{kind: kind, k: k, k2: k2})
				}
			}
		} else {
			rng := lib.Rand("c06", int64(ki))
			if kind == "empty" {
				for j := 0; j < 5; j++ {
					pts = append(pts, point{kind: kind, k: int64(1 + j*14 + rng.Intn(14))})
				}
			} else {
				// every ordinal of one whole commit cycle (a block's commit issues ~30 durable
				// writes), starting at a seeded offset: each write of a commit is a crash point once
				a := int64(1 + rng.Intn(20))
				for k := a; k < a+34; k++ {
					pts = append(pts, point{kind: kind, k: k})
				}
			}
			pts = append(pts, point{kind: kind, k: int64(10 + rng.Intn(40)), k2: int64(1 + rng.Intn(20))})
		}
		if kind != "empty" {
			// the database writes of a commit (block store, state, application marker, receipts,
			// key-value history, tries), addressed by site and ordinal so that WAL traffic, whose
			// volume depends on real timers, cannot shift them out of reach
			for _, f := range []struct {
				site string
				n    int64
			}{{"godb.SetSync", 6}, {"godb.BatchWrite", 2}, {"ethdb.BatchWrite", 4}} {
				for k := int64(1); k <= f.n; k++ {
					pts = append(pts, point{kind: kind, k: k, filter: f.site})
				}
			}
		}
	}
	if only := os.Getenv("VERIF_C06_ONLY"); only != "" {
		// replay aid: VERIF_C06_ONLY="kind:k:k2:site[,...]" runs just these crash points (VERIF_C06_KEEP=1 keeps their directories)
		pts = nil
		for _, f := range strings.Split(only, ",") {
			a := strings.Split(f, ":")
			if len(a) == 4 && tmpl[a[0]] != nil {
				k, _ := strconv.ParseInt(a[1], 10, 64)
				k2, _ := strconv.ParseInt(a[2], 10, 64)
				pts = append(pts, point{kind: a[0], k: k, k2: k2, filter: a[3]})
			}
		}
	}
	lib.Parallel(len(pts), 12, func(i int) { runPoint(run, base, tmpl[pts[i].kind], pts[i], i) })
	run.Require("crash_points_reached", int64(len(pts)/2))
	run.Require("recoveries_committed_two_more_blocks", int64(len(pts)/3))
	run.Require("reexecutions_reproduced", int64(len(pts)/3))
	run.Require("crash_kind_site", 8)
	os.Exit(run.Finish())
}
