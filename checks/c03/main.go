// C03 — no equivocation, across restarts.
//
// Oracle: a ledger of *released* signatures (a signature counts as released
// only when SignVote/SignProposal returned it) keyed (height, round, step):
// never two different sign-bytes for one key; released keys never go backwards
// (identical re-release excepted); the same over the union of what was released
// before a crash / write failure and what the reloaded signer releases after.
//
// Workloads: (a) in-process request histories with reloads from the file;
// (b) crash enumeration: a child process replays a history and is killed
// (SIGKILL from the verifhook failpoint) before the k-th durable step of the
// signer file, for every k; the parent reloads the file and asks for
// conflicting and regressing signatures; (c) the k-th durable step fails
// (disk full) instead, the process goes on, then restarts.
package main

import (
	"bufio"
	"encoding/json"
	"fmt"
	"io/ioutil"
	"os"
	"path/filepath"
	"strconv"
	"strings"
	"sync"
	"time"

	"go.uber.org/zap"

	crypto "github.com/dappledger/AnnChain/gemmill/go-crypto"
	glog "github.com/dappledger/AnnChain/gemmill/modules/go-log"
	"github.com/dappledger/AnnChain/gemmill/types"

	"verif/lib"
)

const prop = "C03"
const chainID = "c03-chain"

type req struct {
	Proposal bool  `json:"proposal"`
	H        int64 `json:"h"`
	R        int64 `json:"r"`
	Type     byte  `json:"type"` // vote type when !Proposal
	Block    int   `json:"block"`
}

func (q req) step() int {
	if q.Proposal {
		return 1
	}
	if q.Type == types.VoteTypePrevote {
		return 2
	}
	return 3
}

func (q req) key() string { return fmt.Sprintf("%d/%d/%d", q.H, q.R, q.step()) }

func blockID(b int) types.BlockID {
	if b == 0 {
		return types.BlockID{}
	}
	return types.BlockID{Hash: []byte(fmt.Sprintf("block-hash-%010d", b)), PartsHeader: types.PartSetHeader{Total: b%7 + 1, Hash: []byte(fmt.Sprintf("parts-hash-%010d", b))}}
}

// sign performs one request on the real signer and returns (sign-bytes, signature hex, error).
func sign(pv *types.PrivValidator, q req) (sb []byte, sig string, err error) {
	if q.Proposal {
		p := types.NewProposal(q.H, q.R, blockID(q.Block+1).PartsHeader, -1, types.BlockID{})
		sb = types.SignBytes(chainID, p)
		err = pv.SignProposal(chainID, p)
		if err == nil {
			sig = fmt.Sprintf("%X", p.Signature.Bytes())
		}
		return
	}
	v := &types.Vote{ValidatorAddress: pv.GetAddress(), ValidatorIndex: 0, Height: q.H, Round: q.R, Type: q.Type, BlockID: blockID(q.Block)}
	sb = types.SignBytes(chainID, v)
	err = pv.SignVote(chainID, v)
	if err == nil {
		sig = fmt.Sprintf("%X", v.Signature.Bytes())
	}
	return
}

// ledger of released signatures
type ledger struct {
	released map[string]string // key -> sign-bytes
	maxKey   [3]int64
	have     bool
}

func newLedger() *ledger { return &ledger{released: map[string]string{}} }

func cmpKey(a, b [3]int64) int {
	for i := 0; i < 3; i++ {
		if a[i] < b[i] {
			return -1
		}
		if a[i] > b[i] {
			return 1
		}
	}
	return 0
}

// release records a released signature; returns a violation class or "".
func (l *ledger) release(q req, sb []byte) (string, string) {
	k := [3]int64{q.H, q.R, int64(q.step())}
	if old, ok := l.released[q.key()]; ok && old != string(sb) {
		return "two-signatures-for-one-hrs", fmt.Sprintf("two different sign-bytes released for height/round/step %s", q.key())
	}
	if l.have && cmpKey(k, l.maxKey) < 0 {
		if old, ok := l.released[q.key()]; !(ok && old == string(sb)) {
			return "signed-for-earlier-hrs", fmt.Sprintf("signature released for %s after one for %d/%d/%d", q.key(), l.maxKey[0], l.maxKey[1], l.maxKey[2])
		}
	}
	l.released[q.key()] = string(sb)
	if !l.have || cmpKey(k, l.maxKey) > 0 {
		l.maxKey, l.have = k, true
	}
	return "", ""
}

func genHistory(c int64, n int) []req {
	rng := lib.Rand("c03-hist", c)
	var out []req
	h, r, st := int64(1+rng.Intn(3)), int64(0), 0
	for len(out) < n {
		switch x := rng.Float64(); {
		case x < 0.62: // protocol-like progress: propose -> prevote -> precommit -> next round / height
			switch st {
			case 0:
				if rng.Float64() < 0.4 {
					out = append(out, req{Proposal: true, H: h, R: r, Block: 1 + rng.Intn(3)})
				}
			case 1:
				out = append(out, req{H: h, R: r, Type: types.VoteTypePrevote, Block: rng.Intn(3)})
			case 2:
				out = append(out, req{H: h, R: r, Type: types.VoteTypePrecommit, Block: rng.Intn(3)})
			}
			st++
			if st == 3 {
				st = 0
				if rng.Float64() < 0.4 {
					r++
				} else {
					h, r = h+1, 0
				}
			}
		case x < 0.80: // repeat of an earlier request (identical or conflicting)
			if len(out) > 0 {
				q := out[len(out)-1-rng.Intn(minInt(len(out), 4))]
				if rng.Float64() < 0.5 {
					q.Block = rng.Intn(4)
				}
				out = append(out, q)
			}
		case x < 0.92: // regression / jump
			out = append(out, req{Proposal: rng.Float64() < 0.2, H: h + int64(rng.Intn(3)) - 1, R: int64(rng.Intn(3)), Type: []byte{types.VoteTypePrevote, types.VoteTypePrecommit}[rng.Intn(2)], Block: rng.Intn(3)})
		default:
			h, r, st = h+int64(rng.Intn(2)), r+int64(rng.Intn(2)), 0
		}
	}
	for i := range out {
		if out[i].H < 1 {
			out[i].H = 1
		}
	}
	return out
}

func minInt(a, b int) int {
	if a < b {
		return a
	}
	return b
}

func newSigner(dir string, c int64) (string, error) {
	file := filepath.Join(dir, "priv_validator.json")
	pv, err := types.GenPrivValidator(crypto.CryptoTypeZhongAn, crypto.GenPrivKeyEd25519FromSecret([]byte(fmt.Sprintf("c03-%d", c))))
	if err != nil {
		return "", err
	}
	pv.SetFile(file)
	return file, pv.Save()
}

// ---- child: replays a history on the signer file, logging before/after each request ----

func child(file, histFile, logFile string) {
	glog.SetLog(zap.NewNop())
	b, err := ioutil.ReadFile(histFile)
	if err != nil {
		os.Exit(3)
	}
	var hist []req
	json.Unmarshal(b, &hist)
	lf, err := os.OpenFile(logFile, os.O_CREATE|os.O_WRONLY|os.O_APPEND, 0644)
	if err != nil {
		os.Exit(3)
	}
	pv, err := types.LoadPrivValidator(file)
	if err != nil {
		fmt.Fprintf(lf, "LOADERR %v\n", err)
		os.Exit(4)
	}
	for i, q := range hist {
		fmt.Fprintf(lf, "REQ %d\n", i)
		sb, sig, err := sign(pv, q)
		if err != nil {
			fmt.Fprintf(lf, "ERR %d %s\n", i, strings.Replace(err.Error(), "\n", " ", -1))
		} else {
			fmt.Fprintf(lf, "RES %d %X %s\n", i, sb, sig)
		}
	}
	fmt.Fprintf(lf, "DONE\n")
	lf.Close()
}

type childLog struct {
	lastReq  int
	released map[int]string // request index -> sign-bytes hex
	errs     map[int]string
	done     bool
	loadErr  string
}

func readLog(path string) childLog {
	cl := childLog{lastReq: -1, released: map[int]string{}, errs: map[int]string{}}
	f, err := os.Open(path)
	if err != nil {
		return cl
	}
	defer f.Close()
	sc := bufio.NewScanner(f)
	sc.Buffer(make([]byte, 1<<20), 1<<20)
	for sc.Scan() {
		p := strings.SplitN(sc.Text(), " ", 4)
		switch p[0] {
		case "REQ":
			cl.lastReq, _ = strconv.Atoi(p[1])
		case "RES":
			i, _ := strconv.Atoi(p[1])
			cl.released[i] = p[2]
		case "ERR":
			i, _ := strconv.Atoi(p[1])
			cl.errs[i] = strings.Join(p[2:], " ")
		case "DONE":
			cl.done = true
		case "LOADERR":
			cl.loadErr = strings.Join(p[1:], " ")
		}
	}
	return cl
}

// followUp: after the process is gone, reload the signer file and ask for
// signatures that would contradict what was released. Returns (class, text).
func followUp(file string, hist []req, cl childLog, run *lib.Run) (string, string) {
	pv, err := types.LoadPrivValidator(file)
	if err != nil {
		return "signer-file-unreadable-after-fault", fmt.Sprintf("signer file cannot be loaded: %v", err)
	}
	led := newLedger()
	for i := 0; i <= cl.lastReq && i < len(hist); i++ {
		if sbHex, ok := cl.released[i]; ok {
			var sb []byte
			fmt.Sscanf(sbHex, "%X", &sb)
			if c, t := led.release(hist[i], sb); c != "" {
				return c, "before the fault: " + t
			}
		}
	}
	// ask, in reverse order (most recent first), for a conflicting signature at every released key
	asked := map[string]bool{}
	try := func(q req, why string) (string, string) {
		run.Count("follow_up_requests", 1)
		sb, _, err := sign(pv, q)
		if err != nil {
			run.Count("follow_up_refused", 1)
			return "", ""
		}
		run.Count("follow_up_signed", 1)
		if c, t := led.release(q, sb); c != "" {
			return c + "-after-restart", fmt.Sprintf("%s: reloaded signer signed %+v: %s", why, q, t)
		}
		return "", ""
	}
	for i := cl.lastReq; i >= 0 && i < len(hist); i-- {
		if _, ok := cl.released[i]; !ok {
			continue
		}
		q := hist[i]
		if asked[q.key()] {
			continue
		}
		asked[q.key()] = true
		q.Block += 5 // a different block id -> different sign-bytes
		if c, t := try(q, "conflicting request for a released height/round/step"); c != "" {
			return c, t
		}
	}
	// the request that was in flight when the fault hit: both its own and a conflicting variant may be asked
	if cl.lastReq >= 0 && cl.lastReq < len(hist) {
		q := hist[cl.lastReq]
		if c, t := try(q, "repeat of the request in flight at the fault"); c != "" {
			return c, t
		}
		q.Block += 5
		if c, t := try(q, "conflicting variant of the request in flight at the fault"); c != "" {
			return c, t
		}
	}
	return "", ""
}

// countWrites replays the history in a child without faults and returns the number of durable steps.
func runChild(dir string, env []string, watchdog time.Duration) (childLog, string, bool) {
	self := os.Getenv("VERIF_SELF")
	logf := filepath.Join(dir, "child.log")
	os.Remove(logf)
	out, timedOut, _ := lib.RunCmd(watchdog, filepath.Join(dir, "child.out"), env, self, "child", filepath.Join(dir, "priv_validator.json"), filepath.Join(dir, "hist.json"), logf)
	return readLog(logf), out, timedOut
}

func copyTree(src, dst string) {
	os.MkdirAll(dst, 0755)
	fis, _ := ioutil.ReadDir(src)
	for _, fi := range fis {
		b, err := ioutil.ReadFile(filepath.Join(src, fi.Name()))
		if err == nil {
			ioutil.WriteFile(filepath.Join(dst, fi.Name()), b, 0600)
		}
	}
}

func inProcess(run *lib.Run, c int64, base string) {
	dir := filepath.Join(base, fmt.Sprintf("ip%d", c))
	os.MkdirAll(dir, 0755)
	defer os.RemoveAll(dir)
	file, err := newSigner(dir, c)
	if err != nil {
		run.Inconclusive(err.Error())
		return
	}
	pv, _ := types.LoadPrivValidator(file)
	hist := genHistory(c+1000000, lib.Pick(40, 120))
	rng := lib.Rand("c03-ip", c)
	led := newLedger()
	run.Eval()
	for i, q := range hist {
		if rng.Float64() < 0.1 { // clean restart: reload from the file
			pv, err = types.LoadPrivValidator(file)
			if err != nil {
				run.Violation("signer-file-unreadable", fmt.Sprintf("history %d: reload failed: %v", c, err), hist[:i])
				return
			}
			run.Count("inprocess_reloads", 1)
		}
		sb, _, err := sign(pv, q)
		run.Count("inprocess_requests", 1)
		if err != nil {
			run.Count("inprocess_refused", 1)
			continue
		}
		run.Count("inprocess_signed", 1)
		if cls, t := led.release(q, sb); cls != "" {
			run.Violation(cls, fmt.Sprintf("in-process history %d request %d: %s", c, i, t), map[string]interface{}{"history": hist[:i+1]})
			return
		}
	}
	run.Nontrivial("ip:" + lib.Hash12(hist))
}

func faultCase(run *lib.Run, c int64, base string, mtx *sync.Mutex) {
	dir := filepath.Join(base, fmt.Sprintf("h%d", c))
	os.MkdirAll(dir, 0755)
	defer os.RemoveAll(dir)
	if _, err := newSigner(dir, c); err != nil {
		run.Inconclusive(err.Error())
		return
	}
	hist := genHistory(c, 4+int(c%int64(lib.Pick(9, 27))))
	hb, _ := json.Marshal(hist)
	ioutil.WriteFile(filepath.Join(dir, "hist.json"), hb, 0644)
	pristine := filepath.Join(dir, "pristine")
	os.MkdirAll(pristine, 0755)
	copyTree(dir, pristine)
	wd := 60 * time.Second
	// reference run: how many durable steps does this history issue?
	wlog := filepath.Join(dir, "writes.log")
	ref, out, to := runChild(dir, []string{"VERIF_WRITE_LOG=" + wlog}, wd)
	if to || !ref.done {
		run.Inconclusive(fmt.Sprintf("history %d: reference child did not finish: %s", c, out))
		return
	}
	wb, _ := ioutil.ReadFile(wlog)
	writes := strings.Count(string(wb), "\n")
	run.Eval()
	run.Count("histories", 1)
	run.Count("reference_released", int64(len(ref.released)))
	if c < 2 {
		run.Sample(map[string]interface{}{"history": hist, "durable_steps": writes, "released_in_reference_run": len(ref.released)})
	}
	// the signer file as the complete history leaves it: the start of a second process lifetime
	postref := filepath.Join(dir, "postref")
	os.MkdirAll(postref, 0755)
	if fis, err := ioutil.ReadDir(dir); err == nil {
		for _, fi := range fis {
			if !fi.IsDir() && strings.HasPrefix(fi.Name(), "priv_validator") {
				if b, err := ioutil.ReadFile(filepath.Join(dir, fi.Name())); err == nil {
					ioutil.WriteFile(filepath.Join(postref, fi.Name()), b, 0600)
				}
			}
		}
	}
	restartThenFail(run, c, dir, postref, hist, ref, wd)
	for _, mode := range []string{"crash", "fail"} {
		for k := 1; k <= writes; k++ {
			work := filepath.Join(dir, fmt.Sprintf("%s%d", mode, k))
			copyTree(pristine, work)
			env := []string{"VERIF_CRASH_AT=" + strconv.Itoa(k)}
			if mode == "fail" {
				env = []string{"VERIF_FAIL_AT=" + strconv.Itoa(k)}
			}
			cl, out, to := runChild(work, env, wd)
			if to {
				run.Inconclusive(fmt.Sprintf("history %d %s@%d: watchdog", c, mode, k))
				os.RemoveAll(work)
				continue
			}
			if mode == "crash" && cl.done {
				run.Inconclusive(fmt.Sprintf("history %d crash@%d: child was not killed: %s", c, k, out))
			}
			run.Count("fault_points_"+mode, 1)
			run.Nontrivial(fmt.Sprintf("%s:%d:%d", mode, c, k))
			cls, txt := followUp(filepath.Join(work, "priv_validator.json"), hist, cl, run)
			if cls != "" {
				key := cls
				if mode == "fail" {
					key = cls + ":after-failed-write"
				} else {
					key = cls + ":after-crash"
				}
				run.Violation(key, fmt.Sprintf("history %d, %s at durable step %d of %d (request %d in flight): %s", c, mode, k, writes, cl.lastReq, txt),
					map[string]interface{}{"history": hist, "mode": mode, "k": k, "released_before": len(cl.released), "request_in_flight": cl.lastReq})
			}
			os.RemoveAll(work)
		}
	}
}

// restartThenFail: a second process lifetime starts from the file the first one left; the k-th
// durable step of the new process fails (k = 1.. covers every step of its first save), the
// process goes on and is asked for signatures that contradict what the first lifetime released.
func restartThenFail(run *lib.Run, c int64, dir, postref string, hist []req, ref childLog, wd time.Duration) {
	var maxK [3]int64
	have := false
	var order []int
	for i := range hist {
		if _, ok := ref.released[i]; ok {
			order = append(order, i)
			k := [3]int64{hist[i].H, hist[i].R, int64(hist[i].step())}
			if !have || cmpKey(k, maxK) > 0 {
				maxK, have = k, true
			}
		}
	}
	if !have {
		return
	}
	later := req{H: maxK[0], R: maxK[1] + 1, Type: types.VoteTypePrevote, Block: 1}
	hist2 := []req{later}
	asked := map[string]bool{}
	for j := len(order) - 1; j >= 0 && len(hist2) < 6; j-- {
		q := hist[order[j]]
		if asked[q.key()] {
			continue
		}
		asked[q.key()] = true
		q.Block += 5
		hist2 = append(hist2, q)
	}
	hist2 = append(hist2, later)
	hb, _ := json.Marshal(hist2)
	for k := 1; k <= 4; k++ {
		work := filepath.Join(dir, fmt.Sprintf("gen2-%d", k))
		os.MkdirAll(work, 0755)
		copyTree(postref, work)
		ioutil.WriteFile(filepath.Join(work, "hist.json"), hb, 0644)
		cl, _, to := runChild(work, []string{"VERIF_FAIL_AT=" + strconv.Itoa(k)}, wd)
		if to {
			run.Inconclusive(fmt.Sprintf("history %d restart+fail@%d: watchdog", c, k))
			os.RemoveAll(work)
			continue
		}
		run.Count("fault_points_restart_then_fail", 1)
		run.Nontrivial(fmt.Sprintf("restart-fail:%d:%d", c, k))
		led := newLedger()
		for _, i := range order {
			var sb []byte
			fmt.Sscanf(ref.released[i], "%X", &sb)
			led.release(hist[i], sb)
		}
		for i := range hist2 {
			sbHex, ok := cl.released[i]
			if !ok {
				continue
			}
			run.Count("second_lifetime_signed", 1)
			var sb []byte
			fmt.Sscanf(sbHex, "%X", &sb)
			if cls, txt := led.release(hist2[i], sb); cls != "" {
				run.Violation(cls+"-after-restart:after-failed-write-in-second-lifetime", fmt.Sprintf("history %d: the signer was restarted from its file, durable step %d of the new process failed, and it then signed request %d %+v: %s", c, k, i, hist2[i], txt),
					map[string]interface{}{"first_lifetime": hist, "second_lifetime": hist2, "failed_durable_step": k, "released_in_first_lifetime": len(order)})
				break
			}
		}
		os.RemoveAll(work)
	}
}

func main() {
	if len(os.Args) > 1 && os.Args[1] == "child" {
		child(os.Args[2], os.Args[3], os.Args[4])
		return
	}
	glog.SetLog(zap.NewNop())
	run := lib.NewRun(prop, "fault_enumeration")
	run.SetRule("seeded signing-request histories (protocol-like progress, repeats, conflicting repeats, regressions, jumps) on the real file-backed PrivValidator: (a) in-process with clean reloads; (b) for every history a child process is killed before EVERY durable step of the signer file (bak/new/rename, enumerated from a reference run), (c) the same steps fail with an injected write error instead; after each fault the file is reloaded and a conflicting request is made at every height/round/step released before plus the request in flight. Non-trivial = distinct (mode, history, durable step) fault point, or in-process history.")
	run.Assume("crash = process death between durable steps (SIGKILL at the failpoint placed immediately before each write/rename of WriteFileAtomic); power loss is not modelled", "a signature counts as released only if SignVote/SignProposal returned it (the child logs before the call and after the return)", "exhaustive over the durable steps of each chosen history; histories are sampled")
	base := lib.Scratch(prop)
	defer os.RemoveAll(base)
	nip := lib.Pick(400, 20000)
	lib.Parallel(nip, 16, func(i int) { inProcess(run, int64(i), base) })
	nh := lib.Pick(30, 500)
	var mtx sync.Mutex
	lib.Parallel(nh, 16, func(i int) { faultCase(run, int64(i), base, &mtx) })
	run.SetExhaustive(false)
	run.Require("fault_points_crash", 300)
	run.Require("fault_points_fail", 300)
	run.Require("follow_up_refused", 500)
	run.Require("inprocess_signed", 1000)
	run.Require("fault_points_restart_then_fail", 60)
	os.Exit(run.Finish())
}
