// C15 — vote accounting: a 2/3 majority is reported exactly when it exists.
//
// A reference tally (model.go) is kept next to the real types.VoteSet /
// pbft.HeightVoteSet over the same offered stream of votes and peer claims.
// The reference verifies signatures with crypto/ed25519 over types.SignBytes
// and compares powers with exact 128-bit arithmetic. After every operation all
// read accessors are compared; commits assembled from a majority are recounted
// independently, verified by the real VerifyCommit and then tampered with one
// field at a time. A -race build of this binary runs readers against one writer.
//
// Interpretation (DESIGN section 6): a vote counts for block B if it is for the
// set's height/round/type, index in range and matching the address, validly
// signed, and it is the validator's first vote or a later conflicting vote for a
// block some peer has claimed (each peer names one block). The literal tally
// "any validly signed vote ever offered" is computed too; the gap is a metric.
// A conflicting vote must be reported with ErrVoteConflictingVotes when it is
// offered; when the same vote for the already reported majority block is
// offered again, (false, nil) "duplicate" is accepted as well.
package main

import (
	"fmt"
	"os"
	"runtime"
	"strconv"
	"time"

	crypto "github.com/dappledger/AnnChain/gemmill/go-crypto"
	glog "github.com/dappledger/AnnChain/gemmill/modules/go-log"
	"github.com/dappledger/AnnChain/gemmill/types"
	"go.uber.org/zap"

	"verif/lib"
)

var run *lib.Run

const batch = 64

func sanity() bool {
	// the standard library and the repository agree on signatures made by the harness keys
	for k := 0; k < 4; k++ {
		v := &types.Vote{Height: 5, Round: 1, Type: types.VoteTypePrecommit, BlockID: blocks[1+k]}
		msg := types.SignBytes(chainID, v)
		s := signFor(k, chainID, 5, 1, types.VoteTypePrecommit, 1+k)
		rs := keys[k].priv.Sign(msg).(crypto.SignatureEd25519)
		run.Count("sanity_signatures_compared", 1)
		if rs != s {
			run.Count("sanity_signature_bytes_differ", 1)
		}
		if !keys[k].pub.VerifyBytes(msg, s) || !stdVerify(keys[k].stdPub, msg, rs) {
			run.Inconclusive("harness signatures are not accepted by the repository's verifier (or vice versa)")
			return false
		}
	}
	return true
}

// directCommit: hand-made commits, VerifyCommit accepts iff the signed power for the block exceeds 2/3.
func directCommit(ci int64, lc counters) {
	rng := lib.Rand("c15-direct-commit", ci)
	spec := genSpec(rng, ci)
	h := []int64{1, 9, 1 << 40}[rng.Intn(3)]
	r := int64(rng.Intn(3))
	w := newWorld(spec, h, r, types.VoteTypePrecommit)
	rs := w.realSet()
	A, B := 1+rng.Intn(5), 0
	for B = 1 + rng.Intn(5); B == A; B = 1 + rng.Intn(5) {
	}
	idxOfKey := make([]int, w.n)
	for i, k := range w.order {
		idxOfKey[k] = i
	}
	order := make([]int, w.n)
	for k := range order {
		order[k] = idxOfKey[k] // key order: boundary prefixes
	}
	if rng.Intn(3) == 0 {
		rng.Shuffle(len(order), func(a, b int) { order[a], order[b] = order[b], order[a] })
	}
	othersVoteB := rng.Intn(2) == 0
	run.Eval()
	lc.add("direct_commit_sets", 1)
	for k := 0; k <= w.n; k++ {
		c := &types.Commit{BlockID: blocks[A], Precommits: make([]*types.Vote, w.n)}
		var p uint64
		present := 0
		for j, idx := range order {
			op := opT{Kind: "vote", Val: idx, Block: A}
			if j >= k {
				if !othersVoteB {
					continue
				}
				op.Block = B
			} else {
				p += w.vals[idx].power
			}
			c.Precommits[idx] = w.makeVote(&op, h, r, types.VoteTypePrecommit)
			present++
		}
		if present == 0 {
			continue // all-nil commits are covered by the tamper suite
		}
		want := exceeds23(p, w.totalU)
		err, pval, psite := safeVerify(rs, chainID, blocks[A], h, c)
		lc.add("direct_commits_verified", 1)
		if equals23(p, w.totalU) {
			lc.add("direct_commit_exactly_two_thirds", 1)
		}
		if want && !exceeds23(p-1, w.totalU) {
			lc.add("direct_commit_minimal_exceeding", 1)
		}
		ovf := ""
		if w.overflowRegime() {
			ovf = "-total-power-overflow"
		}
		wit := map[string]interface{}{"origin": "direct-commit", "case": ci, "powers_by_key": spec.Powers, "set_index_to_key": w.order, "signers_for_block": order[:k], "others_vote_other_block": othersVoteB, "power_for_block": p, "total_power": w.totalU, "height": h, "round": r}
		switch {
		case pval != "":
			run.Violation("verifycommit-panics-on-wellformed-commit", fmt.Sprintf("VerifyCommit panicked: %s at %s", pval, psite), wit)
		case want && err != nil:
			lc.add("direct_commit_wrongly_rejected", 1)
			run.Violation("verifycommit-rejects-above-two-thirds"+ovf, fmt.Sprintf("VerifyCommit rejects a commit with power %d of %d for the block: %v", p, w.totalU, err), wit)
		case !want && err == nil:
			lc.add("direct_commit_wrongly_accepted", 1)
			key := "verifycommit-accepts-not-above-two-thirds"
			if equals23(p, w.totalU) {
				key = "verifycommit-accepts-exactly-two-thirds"
			}
			run.Violation(key+ovf, fmt.Sprintf("VerifyCommit accepts a commit with power %d of %d for the block", p, w.totalU), wit)
		case want:
			lc.add("direct_commit_accepted", 1)
		default:
			lc.add("direct_commit_rejected", 1)
		}
	}
	run.Nontrivial("dc-" + lib.Hash12(spec.Powers, order, othersVoteB))
}

func randomStream(i int64) *streamCase {
	rng := lib.Rand("c15-stream", i)
	spec := genSpec(rng, i)
	t := types.VoteTypePrecommit
	if rng.Intn(5) >= 3 {
		t = types.VoteTypePrevote
	}
	sc := &streamCase{Origin: "random", Spec: spec, H: []int64{1, 7, 1 << 40}[rng.Intn(3)], R: []int64{0, 1, 5}[rng.Intn(3)], T: t}
	w := newWorld(spec, sc.H, sc.R, sc.T)
	profile := int((i / int64(len(setCats))) % 6)
	sc.Ops = genStream(rng, w, profile)
	sc.ID = streamID(sc)
	return sc
}

func main() {
	glog.SetLog(zap.NewNop())
	initBlocks()
	if err := initKeys(); err != nil {
		fmt.Println("INCONCLUSIVE property=C15", err)
		os.Exit(2)
	}
	if len(os.Args) >= 3 && os.Args[1] == "racechild" {
		n, _ := strconv.Atoi(os.Args[2])
		raceChild(n)
		return
	}
	run = lib.NewRun("C15", "exploration")
	run.SetRule("validator sets: 12 power categories cycling with the case number (all ones, small, exact-2/3 boundary sets small/mid/2^62-1/MaxInt64-1, dominant validator at 2/3-1|2/3|2/3+1, random, totals MaxInt64 / MaxInt64/2(+1,+2), 1-and-huge mixes), 1..12 validators; streams: 6 seeded profiles (honest, byzantine soup, boundary walk in prefix order, hostile, claimed block overtakes, multi-peer claims) of valid/duplicate/conflicting/mis-signed (9 kinds)/mis-indexed (9 kinds)/wrong-step (6 kinds) votes for 5 block ids + nil with peer claims; every order of 8 hand-written and seeded short op multisets; hand-made commits for every prefix of signers; HeightVoteSet op sequences (votes for current/past/future rounds by 4 peers, SetRound, SetPeerMaj23); one -race child. Non-trivial: a stream in which the reference tally saw a majority, a conflict or an exact-2/3 moment (distinct by hash of powers+ops).")
	run.Assume("signature validity is the verdict of Go's crypto/ed25519 over types.SignBytes(chainID, vote); block ids are drawn from a pool with injective keys (fixed-length hashes)",
		"a vote counts if it is the validator's first valid vote or a valid conflicting vote for a block claimed by a peer (each peer names one block); the literal tally gap is reported as a metric",
		"a re-offered conflicting vote for the already reported majority block may be answered (false, nil)",
		"total voting power up to MaxInt64 is in the domain (the property says: up to the overflow boundary)")
	if !sanity() {
		os.Exit(run.Finish())
	}
	workers := runtime.NumCPU()
	stageStart := time.Now()
	stage := func(name string) { // evidence only, never an oracle input
		run.Extra("stage_wall_s_"+name, time.Since(stageStart).Seconds())
		stageStart = time.Now()
	}

	// ---- every order of short multisets
	bases := handBases()
	nSeeded := lib.Pick(6, 16)
	seededLen := lib.Pick(6, 8)
	for b := 0; b < nSeeded; b++ {
		bases = append(bases, seededBase(lib.Rand("c15-permbase", int64(b)), seededLen))
	}
	if lib.Thorough() { // one longer multiset: 9! orders
		bases = append(bases, seededBase(lib.Rand("c15-permbase-long", 0), 9))
	}
	type permTask struct {
		base     int
		from, to int64
	}
	var ptasks []permTask
	for bi, b := range bases {
		tot := factorial(len(b.Ops))
		for f := int64(0); f < tot; f += 8 * batch {
			to := f + 8*batch
			if to > tot {
				to = tot
			}
			ptasks = append(ptasks, permTask{bi, f, to})
		}
	}
	lib.Parallel(len(ptasks), workers, func(ti int) {
		pt := ptasks[ti]
		b := bases[pt.base]
		lc := counters{}
		perm := make([]int, len(b.Ops))
		for x := pt.from; x < pt.to; x++ {
			nthPermutation(x, len(b.Ops), perm)
			ops := make([]opT, len(perm))
			for j, pj := range perm {
				ops[j] = b.Ops[pj]
			}
			sc := &streamCase{Origin: "permutation", Spec: b.Spec, H: 2, R: 0, T: b.T, Ops: ops}
			sc.ID = streamID(sc) // orders of a multiset with equal elements coincide: distinct by content
			runStream(sc, lc, x%97 == 0)
		}
		lc.flush()
	})
	run.Count("permutation_bases", int64(len(bases)))
	stage("permutations")

	// ---- seeded random streams
	nStreams := int64(lib.Pick(32000, 1500000))
	tamperEvery := int64(lib.Pick(2, 8))
	nb := int((nStreams + batch - 1) / batch)
	lib.Parallel(nb, workers, func(bi int) {
		lc := counters{}
		for i := int64(bi) * batch; i < int64(bi+1)*batch && i < nStreams; i++ {
			runStream(randomStream(i), lc, i%tamperEvery == 0)
		}
		lc.flush()
	})

	stage("random_streams")
	// ---- hand-made commits
	nDirect := lib.Pick(1200, 60000)
	lib.Parallel((nDirect+batch-1)/batch, workers, func(bi int) {
		lc := counters{}
		for i := bi * batch; i < (bi+1)*batch && i < nDirect; i++ {
			directCommit(int64(i), lc)
		}
		lc.flush()
	})

	stage("direct_commits")
	// ---- HeightVoteSet
	nHvs := lib.Pick(1500, 100000)
	lib.Parallel((nHvs+batch-1)/batch, workers, func(bi int) {
		lc := counters{}
		for i := bi * batch; i < (bi+1)*batch && i < nHvs; i++ {
			hvsCase(int64(i), lc)
		}
		lc.flush()
	})

	stage("height_vote_set")
	// ---- readers against one writer under the race detector
	raceStage()
	stage("race_child")

	// minimum observations (all reached deterministically by the fixed workload)
	run.Require("streams", int64(lib.Pick(20000, 2000000)))
	run.Require("votes_offered", 200000)
	run.Require("votes_added", 50000)
	run.Require("majorities_reported", 3000)
	run.Require("majorities_reported_nil_block", 50)
	run.Require("offered_model_duplicate", 5000)
	run.Require("offered_model_conflict-counted", 2000)
	run.Require("offered_model_conflict-uncounted", 5000)
	run.Require("offered_model_invalid-signature", 3000)
	run.Require("offered_model_invalid-index", 1000)
	run.Require("offered_model_invalid-address", 1000)
	run.Require("offered_model_invalid-step", 3000)
	run.Require("offered_gen_misindexed-negative", 300)
	run.Require("offered_gen_misindexed-eq-size", 150)
	run.Require("offered_gen_misindexed-gt-size", 300)
	run.Require("boundary_exactly_two_thirds_hits", 1000)
	run.Require("boundary_minimal_exceeding_hits", 1000)
	run.Require("streams_total_power_above_half_maxint64", 1000)
	run.Require("peer_claims", 5000)
	run.Require("commits_made", 3000)
	run.Require("commits_verified_real", 1000)
	run.Require("commits_tampered", 10000)
	run.Require("direct_commits_verified", 5000)
	run.Require("direct_commit_exactly_two_thirds", 100)
	run.Require("hvs_votes_offered", 20000)
	run.Require("hvs_catchup_limit_drops", 100)
	run.Require("hvs_catchup_rounds_created", 500)
	run.Require("hvs_majorities_reported", 200)
	run.Require("hvs_polinfo_positive", 200)
	run.Require("race_reader_calls", 1000)
	run.Require("race_writer_ops", 500)
	os.Exit(run.Finish())
}
