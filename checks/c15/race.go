package main

// Concurrent readers against one writer under the Go race detector: the child
// (this binary built with -race) runs the schedule, the parent counts and
// classifies "WARNING: DATA RACE" blocks.

import (
	"bytes"
	"fmt"
	"os"
	"os/exec"
	"regexp"
	"runtime"
	"sort"
	"strconv"
	"strings"
	"sync"
	"sync/atomic"
	"time"

	"github.com/dappledger/AnnChain/gemmill/types"

	"verif/lib"
)

func raceChild(iters int) {
	var reads, writes, majorities int64
	for it := 0; it < iters; it++ {
		rng := lib.Rand("c15-race", int64(it))
		n := 4 + it%5
		p := make([]int64, n)
		for i := range p {
			p[i] = int64(1 + rng.Intn(3))
		}
		w := newWorld(setSpec{p, "race"}, 3, 1, types.VoteTypePrecommit)
		rs := w.realSet()
		vs := types.NewVoteSet(chainID, 3, 1, types.VoteTypePrecommit, rs)
		ops := genStream(rng, w, it%6)
		readers := []func(){
			func() { _ = vs.BitArray() },
			func() { _ = vs.GetByIndex(it % n) },
			func() { _ = vs.HasAll() },
			func() { _ = vs.StringShort() },
			func() { _, _ = vs.TwoThirdsMajority() },
			func() { _ = vs.HasTwoThirdsAny() },
			func() { _ = vs.HasTwoThirdsMajority(); _ = vs.IsCommit() },
			func() { _ = vs.BitArrayByBlockID(blocks[1]) },
			func() {
				if vs.HasTwoThirdsMajority() {
					_ = vs.MakeCommit()
				}
			},
			func() { _ = vs.String() },
		}
		var stop int32
		var started, done sync.WaitGroup
		for _, f := range readers {
			f := f
			started.Add(1)
			done.Add(1)
			go func() {
				defer done.Done()
				f()
				atomic.AddInt64(&reads, 1)
				started.Done()
				for atomic.LoadInt32(&stop) == 0 {
					f()
					atomic.AddInt64(&reads, 1)
					runtime.Gosched()
				}
				f()
			}()
		}
		started.Wait()
		for i := range ops {
			op := &ops[i]
			if op.Kind == "claim" {
				vs.SetPeerMaj23(op.Peer, blocks[op.Block])
			} else {
				v := w.makeVote(op, 3, 1, types.VoteTypePrecommit)
				safeCall(func() (bool, error) { return vs.AddVote(v) })
			}
			writes++
			runtime.Gosched()
		}
		atomic.StoreInt32(&stop, 1)
		done.Wait()
		if vs.HasTwoThirdsMajority() {
			majorities++
		}
	}
	fmt.Printf("RACECHILD-DONE iters=%d writes=%d reads=%d majorities=%d\n", iters, writes, atomic.LoadInt64(&reads), majorities)
}

type raceAccess struct {
	Kind   string   `json:"kind"` // read | write
	Frames []string `json:"frames"`
	entry  string
}

type raceReport struct {
	A, B raceAccess
	Key  string
}

var accessRe = regexp.MustCompile(`^(Read|Write|Previous read|Previous write|Atomic read|Atomic write|Previous atomic read|Previous atomic write) at 0x[0-9a-f]+ by `)

func parseRaceLog(log string) []raceReport {
	var out []raceReport
	for _, blk := range strings.Split(log, "==================") {
		if !strings.Contains(blk, "WARNING: DATA RACE") {
			continue
		}
		var acc []raceAccess
		var cur *raceAccess
		for _, l := range strings.Split(blk, "\n") {
			if m := accessRe.FindStringSubmatch(l); m != nil {
				k := "read"
				if strings.Contains(strings.ToLower(m[1]), "write") {
					k = "write"
				}
				acc = append(acc, raceAccess{Kind: k})
				cur = &acc[len(acc)-1]
				continue
			}
			if strings.HasPrefix(l, "Goroutine ") {
				cur = nil
				continue
			}
			if cur != nil && strings.HasPrefix(l, "  ") && !strings.HasPrefix(l, "   ") {
				f := strings.TrimSpace(l)
				if i := strings.LastIndex(f, "("); i > 0 {
					f = f[:i]
				}
				cur.Frames = append(cur.Frames, f)
			}
		}
		if len(acc) < 2 {
			continue
		}
		for i := range acc[:2] {
			a := &acc[i]
			a.entry = "harness"
			for _, f := range a.Frames { // outermost frame inside VoteSet wins; else outermost repository frame
				if j := strings.Index(f, "types.(*VoteSet)."); j >= 0 {
					a.entry = f[j+len("types.(*VoteSet)."):]
				}
			}
			if a.entry == "harness" {
				for _, f := range a.Frames {
					if strings.Contains(f, "dappledger/AnnChain/") {
						a.entry = f[strings.LastIndex(f, "/")+1:]
					}
				}
			}
		}
		a, b := acc[0], acc[1]
		parts := []string{a.Kind + "-" + a.entry, b.Kind + "-" + b.entry}
		sort.Strings(parts) // "read-…" sorts before "write-…"
		out = append(out, raceReport{A: a, B: b, Key: "race-" + parts[0] + "-vs-" + parts[1]})
	}
	return out
}

func raceStage() {
	bin := os.Getenv("VERIF_RACE_BIN")
	if bin == "" {
		run.Inconclusive("VERIF_RACE_BIN not set: the -race child was not run (start through ./check)")
		return
	}
	iters := lib.Pick(60, 600)
	var stdout, stderr bytes.Buffer
	for attempt := 0; attempt < 2; attempt++ {
		stdout.Reset()
		stderr.Reset()
		cmd := exec.Command(bin, "racechild", strconv.Itoa(iters))
		cmd.Env = append(os.Environ(), "GORACE=halt_on_error=0 exitcode=0")
		cmd.Stdout, cmd.Stderr = &stdout, &stderr
		if err := cmd.Start(); err != nil {
			run.Inconclusive("race child did not start: " + err.Error())
			return
		}
		doneCh := make(chan error, 1)
		go func() { doneCh <- cmd.Wait() }()
		allow := time.Duration(10*(attempt+1)) * time.Minute // watchdog only; never enters an oracle
		select {
		case err := <-doneCh:
			if err != nil {
				run.Inconclusive(fmt.Sprintf("race child failed: %v: %s", err, tail(stderr.String(), 400)))
				return
			}
			attempt = 99
		case <-time.After(allow):
			cmd.Process.Kill()
			<-doneCh
			if attempt == 1 {
				run.Inconclusive("race child exceeded its wall-clock allowance twice")
				return
			}
		}
	}
	m := regexp.MustCompile(`RACECHILD-DONE iters=(\d+) writes=(\d+) reads=(\d+) majorities=(\d+)`).FindStringSubmatch(stdout.String())
	if m == nil {
		run.Inconclusive("race child did not finish: " + tail(stderr.String(), 400))
		return
	}
	for i, name := range []string{"race_iterations", "race_writer_ops", "race_reader_calls", "race_iterations_with_majority"} {
		v, _ := strconv.ParseInt(m[i+1], 10, 64)
		run.Count(name, v)
	}
	reports := parseRaceLog(stderr.String())
	run.Count("race_reports", int64(len(reports)))
	run.Count("race_warning_blocks", int64(strings.Count(stderr.String(), "WARNING: DATA RACE")))
	seen := map[string]bool{}
	for _, r := range reports {
		run.Distinct("race_classes", r.Key)
		if strings.Contains(r.Key, "harness") && !strings.Contains(strings.Join(append(r.A.Frames, r.B.Frames...), " "), "dappledger/AnnChain/") {
			run.Count("race_reports_harness_only", 1)
			run.Inconclusive("the race detector reported a race inside the harness itself: " + r.Key)
			continue
		}
		if strings.Contains(r.Key, "read-String-") || strings.Contains(r.Key, "read-StringIndented-") {
			// VoteSet.String()/StringIndented() take no lock at all; they are debugging output, not state an
			// oracle of this property reads (DESIGN 2.4 attribution rule): counted, not judged
			run.Count("race_reports_unattributed_String", 1)
			continue
		}
		if seen[r.Key] {
			continue
		}
		seen[r.Key] = true
		run.Violation(r.Key, fmt.Sprintf("data race between a VoteSet reader and the writer: %s %s / %s %s", r.A.Kind, first(r.A.Frames), r.B.Kind, first(r.B.Frames)),
			map[string]interface{}{"access_1": r.A, "access_2": r.B, "schedule": "racechild: readers BitArray/GetByIndex/HasAll/StringShort/TwoThirdsMajority/HasTwoThirdsAny/HasTwoThirdsMajority/BitArrayByBlockID/MakeCommit/String loop while one goroutine calls AddVote/SetPeerMaj23"})
	}
}

func first(s []string) string {
	if len(s) == 0 {
		return "?"
	}
	return s[0]
}

func tail(s string, n int) string {
	if len(s) > n {
		return s[len(s)-n:]
	}
	return s
}
