package main

// Keys, validator sets, block ids, vote construction and workload generators.

import (
	"bytes"
	"crypto/ed25519"
	"fmt"
	"math"
	"math/rand"
	"sort"
	"sync"

	crypto "github.com/dappledger/AnnChain/gemmill/go-crypto"
	wire "github.com/dappledger/AnnChain/gemmill/go-wire"
	"github.com/dappledger/AnnChain/gemmill/types"
)

const (
	chainID    = "c15-chain"
	otherChain = "c15-other-chain"
	maxVals    = 12
	outsider   = maxVals // key index of a key that is never in a validator set
)

type keyT struct {
	priv    crypto.PrivKeyEd25519
	pub     crypto.PubKey
	stdPriv ed25519.PrivateKey
	stdPub  ed25519.PublicKey
	addr    []byte
}

var keys []keyT

func initKeys() error {
	keys = make([]keyT, maxVals+1)
	for i := range keys {
		priv := crypto.GenPrivKeyEd25519FromSecret([]byte(fmt.Sprintf("c15-key-%d", i)))
		pub := priv.PubKey()
		pe, ok := pub.(crypto.PubKeyEd25519)
		if !ok {
			return fmt.Errorf("unexpected public key type %T", pub)
		}
		std := ed25519.NewKeyFromSeed(priv[:32])
		stdPub := std.Public().(ed25519.PublicKey)
		if !bytes.Equal(stdPub, pe[:]) {
			return fmt.Errorf("standard library derives another public key than the repository for key %d", i)
		}
		keys[i] = keyT{priv: priv, pub: pub, stdPriv: std, stdPub: stdPub, addr: pub.Address()}
	}
	return nil
}

// ---- block ids: 0 = nil, 1..5 non-nil; 5 shares its hash with 1 but has other parts.

var blocks []types.BlockID

func initBlocks() {
	blocks = make([]types.BlockID, 6)
	for b := 1; b <= 5; b++ {
		hb := b
		if b == 5 {
			hb = 1
		}
		blocks[b] = types.BlockID{
			Hash:        bytes.Repeat([]byte{byte(0xA0 + hb)}, 20),
			PartsHeader: types.PartSetHeader{Total: b, Hash: bytes.Repeat([]byte{byte(0xB0 + b)}, 20)},
		}
	}
}

func blockName(b types.BlockID) string {
	for i := range blocks {
		if mkey(blocks[i]) == mkey(b) {
			if i == 0 {
				return "nil"
			}
			return fmt.Sprintf("B%d", i)
		}
	}
	return "?" + mkey(b)
}

// ---- signatures (standard library), cached: sign bytes do not depend on the validator fields.

type sigKey struct {
	key   int
	chain string
	h, r  int64
	t     byte
	block int
}

var sigCache sync.Map

func signFor(key int, chain string, h, r int64, t byte, block int) crypto.SignatureEd25519 {
	k := sigKey{key, chain, h, r, t, block}
	if s, ok := sigCache.Load(k); ok {
		return s.(crypto.SignatureEd25519)
	}
	v := &types.Vote{Height: h, Round: r, Type: t, BlockID: blocks[block]}
	msg := types.SignBytes(chain, v)
	raw := ed25519.Sign(keys[key].stdPriv, msg)
	var out crypto.SignatureEd25519
	copy(out[:], raw)
	sigCache.Store(k, out)
	return out
}

// ---- validator sets

type setSpec struct {
	Powers []int64 `json:"powers"` // by key index 0..n-1
	Cat    string  `json:"category"`
}

type world struct {
	spec   setSpec
	n      int
	order  []int // set index -> key index (ascending address, computed here)
	h, r   int64
	t      byte
	vals   []refVal
	totalU uint64
}

func newWorld(spec setSpec, h, r int64, t byte) *world {
	n := len(spec.Powers)
	w := &world{spec: spec, n: n, h: h, r: r, t: t}
	w.order = make([]int, n)
	for i := range w.order {
		w.order[i] = i
	}
	sort.Slice(w.order, func(a, b int) bool { return bytes.Compare(keys[w.order[a]].addr, keys[w.order[b]].addr) < 0 })
	w.vals = make([]refVal, n)
	for i, k := range w.order {
		w.vals[i] = refVal{addr: keys[k].addr, pub: keys[k].stdPub, power: uint64(spec.Powers[k])}
		w.totalU += uint64(spec.Powers[k])
	}
	return w
}

// realSet builds the repository's ValidatorSet for the spec. Three of four specs (chosen by a hash of
// the powers) do not come straight from NewValidatorSet but from a history, as the set of a running
// chain does: a start set in which some validators are missing or have another power (and, when the
// total leaves room, one extra member), brought to the spec by Add / Update / Remove in a seeded
// order, with Copy() and go-wire round trips (what State.Save/LoadState does) in between. Members
// and powers of the result are exactly the spec's; only the accums differ, which vote accounting
// does not read.
func (w *world) realSet() *types.ValidatorSet {
	mk := func(k int, p int64) *types.Validator {
		return &types.Validator{Address: keys[k].addr, PubKey: keys[k].pub, VotingPower: p}
	}
	var hsh uint64 = 1469598103934665603
	for _, p := range w.spec.Powers {
		hsh = (hsh ^ uint64(p)) * 1099511628211
	}
	if hsh%4 == 0 || w.n == 0 {
		vals := make([]*types.Validator, w.n)
		for k := 0; k < w.n; k++ {
			vals[k] = mk(k, w.spec.Powers[k])
		}
		return types.NewValidatorSet(vals)
	}
	rng := rand.New(rand.NewSource(int64(hsh >> 1)))
	type step struct {
		kind string
		k    int
	}
	var start []*types.Validator
	var steps []step
	for k := 0; k < w.n; k++ {
		target := w.spec.Powers[k]
		switch c := rng.Intn(3); {
		case c == 1 && target > 1:
			start = append(start, mk(k, 1+rng.Int63n(target-1))) // a smaller power, updated later
			steps = append(steps, step{"update", k})
		case c == 2 && (len(start) > 0 || k < w.n-1):
			steps = append(steps, step{"add", k})
		default:
			start = append(start, mk(k, target))
		}
	}
	if len(start) == 0 {
		start = append(start, mk(steps[0].k, w.spec.Powers[steps[0].k]))
		steps = steps[1:]
	}
	if w.totalU < math.MaxInt64/4 {
		start = append(start, &types.Validator{Address: extraKey().addr, PubKey: extraKey().pub, VotingPower: 1 + rng.Int63n(5)})
		steps = append(steps, step{"remove-extra", -1})
	}
	rng.Shuffle(len(steps), func(i, j int) { steps[i], steps[j] = steps[j], steps[i] })
	vs := types.NewValidatorSet(start)
	between := func() {
		switch rng.Intn(5) {
		case 0:
			vs = vs.Copy()
		case 1:
			var n int
			var err error
			bz := wire.BinaryBytes(vs)
			vs = wire.ReadBinary(&types.ValidatorSet{}, bytes.NewReader(bz), 0, &n, &err).(*types.ValidatorSet)
			if err != nil {
				panic("validator set does not survive its own encoding: " + err.Error())
			}
		case 2:
			vs.TotalVotingPower()
		}
	}
	for _, st := range steps {
		between()
		ok := true
		switch st.kind {
		case "update":
			ok = vs.Update(mk(st.k, w.spec.Powers[st.k]))
		case "add":
			ok = vs.Add(mk(st.k, w.spec.Powers[st.k]))
		case "remove-extra":
			_, ok = vs.Remove(extraKey().addr)
		}
		if !ok {
			panic(fmt.Sprintf("building the validator set: %s of key %d refused", st.kind, st.k))
		}
	}
	between()
	return vs
}

var (
	extraOnce sync.Once
	extraK    keyT
)

// extraKey: a member of some start sets that is always removed again.
func extraKey() keyT {
	extraOnce.Do(func() {
		priv := crypto.GenPrivKeyEd25519FromSecret([]byte("c15-key-extra-member"))
		pub := priv.PubKey()
		extraK = keyT{priv: priv, pub: pub, addr: pub.Address()}
	})
	return extraK
}

func (w *world) overflowRegime() bool { return w.totalU > math.MaxInt64/2 }

// ---- operations

type opT struct {
	Kind  string `json:"kind"`            // "vote" | "claim"
	Val   int    `json:"val"`             // set index of the (intended) validator
	Block int    `json:"block"`           // index into blocks (0 = nil)
	Flaw  string `json:"flaw,omitempty"`  // "" = well-formed
	Peer  string `json:"peer,omitempty"`  // claim: peer id
	Round int64  `json:"round,omitempty"` // HeightVoteSet workloads only
	Type  byte   `json:"type,omitempty"`  // HeightVoteSet workloads only
	SetR  int64  `json:"set_round,omitempty"`
}

var flawsSig = []string{"sig-flip-r", "sig-flip-s", "sig-zero", "sig-nil", "sig-secp", "sig-otherkey", "sig-otherchain", "sig-otherblock", "outsider"}
var flawsIdx = []string{"idx-neg", "idx-minint", "idx-eqsize", "idx-gtsize", "idx-huge", "idx-other", "addr-other", "addr-empty", "addr-trunc"}
var flawsStep = []string{"height", "height-minus", "round", "round-minus", "type", "type-invalid"}

func flawGroup(f string) string {
	switch {
	case f == "":
		return "wellformed"
	case f == "idx-neg" || f == "idx-minint":
		return "misindexed-negative"
	case f == "idx-eqsize":
		return "misindexed-eq-size"
	case f == "idx-gtsize" || f == "idx-huge":
		return "misindexed-gt-size"
	case f == "idx-other" || f == "addr-other" || f == "addr-trunc":
		return "index-address-mismatch"
	case f == "addr-empty":
		return "empty-address"
	case f == "height" || f == "height-minus":
		return "wrong-height"
	case f == "round" || f == "round-minus":
		return "wrong-round"
	case f == "type" || f == "type-invalid":
		return "wrong-type"
	}
	return "mis-signed"
}

// makeVote builds a fresh vote for the op in a set at (h, r, t).
func (w *world) makeVote(op *opT, h, r int64, t byte) *types.Vote {
	idx := op.Val
	n := w.n
	key := w.order[idx]
	v := &types.Vote{ValidatorAddress: keys[key].addr, ValidatorIndex: idx, Height: h, Round: r, Type: t, BlockID: blocks[op.Block]}
	signKey, chain, sigBlock := key, chainID, op.Block
	switch op.Flaw {
	case "height":
		v.Height = h + 1
	case "height-minus":
		v.Height = h - 1
	case "round":
		v.Round = r + 1
	case "round-minus":
		v.Round = r - 1
	case "type":
		v.Type = 3 - t // prevote <-> precommit
	case "type-invalid":
		v.Type = 0x03
	case "idx-neg":
		v.ValidatorIndex = -1
	case "idx-minint":
		v.ValidatorIndex = math.MinInt32
	case "idx-eqsize":
		v.ValidatorIndex = n
	case "idx-gtsize":
		v.ValidatorIndex = n + 1 + idx
	case "idx-huge":
		v.ValidatorIndex = 1 << 30
	case "idx-other":
		v.ValidatorIndex = (idx + 1) % n
	case "addr-other":
		v.ValidatorAddress = keys[w.order[(idx+1)%n]].addr
	case "addr-empty":
		v.ValidatorAddress = nil
	case "addr-trunc":
		v.ValidatorAddress = keys[key].addr[:19]
	case "outsider":
		v.ValidatorAddress = keys[outsider].addr
		signKey = outsider
	case "sig-otherkey":
		if n > 1 {
			signKey = w.order[(idx+1)%n]
		} else {
			signKey = outsider
		}
	case "sig-otherchain":
		chain = otherChain
	case "sig-otherblock":
		sigBlock = (op.Block + 1) % len(blocks)
	}
	sig := signFor(signKey, chain, v.Height, v.Round, v.Type, sigBlock)
	switch op.Flaw {
	case "sig-flip-r":
		sig[3] ^= 0x10
	case "sig-flip-s":
		sig[40] ^= 0x01
	case "sig-zero":
		sig = crypto.SignatureEd25519{}
	}
	v.Signature = sig
	switch op.Flaw {
	case "sig-nil":
		v.Signature = nil
	case "sig-secp":
		v.Signature = crypto.SignatureSecp256k1(append([]byte{}, sig[:]...))
	}
	return v
}

// ---- power vectors

const maxI64 = int64(math.MaxInt64)

// splitPositive splits total (>= parts) into `parts` positive summands.
func splitPositive(rng *rand.Rand, total int64, parts int) []int64 {
	out := make([]int64, parts)
	rem := total - int64(parts) // distribute the remainder
	for i := 0; i < parts; i++ {
		out[i] = 1
	}
	for i := 0; i < parts-1 && rem > 0; i++ {
		var x int64
		switch rng.Intn(3) {
		case 0:
			x = rng.Int63n(rem + 1)
		case 1:
			x = rem / int64(parts-i)
		default:
			x = 0
		}
		out[i] += x
		rem -= x
	}
	out[parts-1] += rem
	return out
}

// boundaryPowers builds n >= 2 powers with total 3k such that the first m
// validators (key order) sum to exactly 2k and, when possible, the next one has
// power 1 (2k+1 = the smallest power exceeding two thirds).
func boundaryPowers(rng *rand.Rand, n int, k int64) []int64 {
	if k < int64(n) {
		k = int64(n)
	}
	m := 1 + rng.Intn(n-1)
	p := splitPositive(rng, 2*k, m)
	rest := n - m
	var q []int64
	if rest >= 2 && k >= 2 {
		q = append([]int64{1}, splitPositive(rng, k-1, rest-1)...)
	} else {
		q = splitPositive(rng, k, rest)
	}
	return append(p, q...)
}

var setCats = []string{"ones", "small", "boundary-small", "boundary-mid", "dominant", "random-1000", "huge-half-boundary", "huge-half-random", "huge-max-boundary", "huge-max-random", "one-and-huge", "exact-two-thirds-single"}

// genSpec returns the power vector for case i (category cycles with i).
func genSpec(rng *rand.Rand, i int64) setSpec {
	cat := setCats[int(i%int64(len(setCats)))]
	n := 1 + rng.Intn(maxVals)
	var p []int64
	switch cat {
	case "ones":
		p = make([]int64, n)
		for j := range p {
			p[j] = 1
		}
	case "small":
		p = make([]int64, n)
		for j := range p {
			p[j] = int64(1 + rng.Intn(4))
		}
	case "boundary-small":
		if n < 2 {
			n = 2 + rng.Intn(5)
		}
		p = boundaryPowers(rng, n, int64(1+rng.Intn(12)))
	case "boundary-mid":
		if n < 2 {
			n = 2 + rng.Intn(5)
		}
		p = boundaryPowers(rng, n, int64(100+rng.Intn(1000000)))
	case "dominant":
		// one validator alone exceeds 2/3 (or misses it by one unit)
		if n < 2 {
			n = 2
		}
		rest := splitPositive(rng, int64(n-1+rng.Intn(20)), n-1)
		var s int64
		for _, x := range rest {
			s += x
		}
		p = append([]int64{2*s + int64(rng.Intn(3)) - 1}, rest...) // 2s-1 (<2/3) / 2s (=2/3) / 2s+1 (>2/3)
		if p[0] < 1 {
			p[0] = 1
		}
	case "random-1000":
		p = make([]int64, n)
		for j := range p {
			p[j] = int64(1 + rng.Intn(1000))
		}
	case "huge-half-boundary": // total = 2^62-1 = MaxInt64/2: the largest total for which 2*total fits
		if n < 2 {
			n = 2 + rng.Intn(5)
		}
		p = boundaryPowers(rng, n, (maxI64/2)/3)
	case "huge-half-random":
		p = splitPositive(rng, maxI64/2-int64(rng.Intn(3)), n)
	case "huge-max-boundary": // total = MaxInt64-1 = 3k
		if n < 2 {
			n = 2 + rng.Intn(5)
		}
		p = boundaryPowers(rng, n, maxI64/3)
	case "huge-max-random": // total in {MaxInt64, MaxInt64-1, MaxInt64/2+1, ...}
		tot := []int64{maxI64, maxI64 - 1, maxI64/2 + 1, maxI64/2 + 2, maxI64 / 4 * 3}[rng.Intn(5)]
		p = splitPositive(rng, tot, n)
	case "one-and-huge":
		p = make([]int64, n)
		var s int64
		for j := range p {
			p[j] = 1
			if rng.Intn(3) == 0 {
				p[j] = maxI64 / int64(4*n)
			}
			s += p[j]
		}
	case "exact-two-thirds-single":
		// powers [2x, x] (+ splits): a single validator holds exactly 2/3
		x := int64(1 + rng.Intn(50))
		p = []int64{2 * x}
		if n < 2 {
			n = 2
		}
		p = append(p, splitPositive(rng, x, minInt(n-1, int(x)))...)
	}
	// shuffle key positions so that the boundary prefix is not tied to key 0..m
	if rng.Intn(2) == 0 && cat != "dominant" && cat != "exact-two-thirds-single" {
		rng.Shuffle(len(p), func(a, b int) { p[a], p[b] = p[b], p[a] })
	}
	return setSpec{Powers: p, Cat: cat}
}

func minInt(a, b int) int {
	if a < b {
		return a
	}
	return b
}

// ---- stream generators

var peers = []string{"p1", "p2", "p3", "p4"}

func pickFlaw(rng *rand.Rand) string {
	switch rng.Intn(3) {
	case 0:
		return flawsSig[rng.Intn(len(flawsSig))]
	case 1:
		return flawsIdx[rng.Intn(len(flawsIdx))]
	}
	return flawsStep[rng.Intn(len(flawsStep))]
}

// genStream builds the op list of random case i for a set of n validators whose
// key-order powers are given (used by the boundary walk).
func genStream(rng *rand.Rand, w *world, profile int) []opT {
	n := w.n
	var ops []opT
	// blocks in play: main A, rival B, third C
	perm := rng.Perm(5)
	A, B, C := perm[0]+1, perm[1]+1, perm[2]+1
	if rng.Intn(8) == 0 {
		A = 0 // majority for nil
	} else if rng.Intn(8) == 0 {
		B = 0
	}
	if rng.Intn(6) == 0 { // ids sharing a hash
		A, B = 1, 5
	}
	idxOfKey := make([]int, n)
	for i, k := range w.order {
		idxOfKey[k] = i
	}
	keyOrder := make([]int, n) // set indices in key order (boundary prefix order)
	for k := 0; k < n; k++ {
		keyOrder[k] = idxOfKey[k]
	}
	vote := func(val, block int, flaw string) {
		ops = append(ops, opT{Kind: "vote", Val: val, Block: block, Flaw: flaw})
	}
	claim := func(peer string, block int) { ops = append(ops, opT{Kind: "claim", Peer: peer, Block: block}) }
	noise := func(p int) {
		for rng.Intn(100) < p {
			switch rng.Intn(4) {
			case 0:
				if len(ops) > 0 { // re-offer something seen before
					o := ops[rng.Intn(len(ops))]
					ops = append(ops, o)
				}
			case 1:
				vote(rng.Intn(n), []int{A, B, C}[rng.Intn(3)], pickFlaw(rng))
			case 2:
				claim(peers[rng.Intn(len(peers))], []int{A, B, C}[rng.Intn(3)])
			default:
				vote(rng.Intn(n), []int{A, B, C, rng.Intn(6)}[rng.Intn(4)], "")
			}
		}
	}
	switch profile {
	case 0: // honest majority in random order, light noise
		for _, v := range rng.Perm(n) {
			b := A
			if rng.Intn(5) == 0 {
				b = []int{B, C, 0}[rng.Intn(3)]
			}
			vote(v, b, "")
			noise(25)
		}
	case 1: // byzantine soup
		L := 2*n + 4 + rng.Intn(3*n+6)
		for len(ops) < L {
			noise(95)
			vote(rng.Intn(n), []int{A, B, C}[rng.Intn(3)], "")
		}
	case 2: // boundary walk: A in key order (prefix sums pass exactly 2/3, then 2/3+1), B interleaved
		claimAt := rng.Intn(n + 2)
		for j, v := range keyOrder {
			if j == claimAt {
				claim("p1", B)
			}
			vote(v, A, "")
			if rng.Intn(3) == 0 {
				vote(v, B, "")
			}
			noise(10)
		}
		for _, v := range keyOrder {
			vote(v, B, "")
			noise(10)
		}
	case 3: // hostile: mostly flawed votes around a few good ones
		L := 3*n + 6 + rng.Intn(2*n+4)
		for len(ops) < L {
			if rng.Intn(10) < 7 {
				vote(rng.Intn(n), []int{A, B, C}[rng.Intn(3)], pickFlaw(rng))
			} else {
				vote(rng.Intn(n), []int{A, B}[rng.Intn(2)], "")
			}
		}
	case 4: // a claimed block overtakes: all first vote A but stay short / or reach it, then everybody votes B
		when := rng.Intn(3) // claim before / in the middle / after
		if when == 0 {
			claim("p2", B)
		}
		order := rng.Perm(n)
		stop := rng.Intn(n + 1)
		for j, v := range order {
			if j >= stop {
				break
			}
			vote(v, A, "")
		}
		if when == 1 {
			claim("p2", B)
		}
		for _, v := range rng.Perm(n) {
			vote(v, B, "")
			noise(8)
		}
		if when == 2 {
			claim("p2", B)
			for _, v := range rng.Perm(n) {
				vote(v, B, "")
			}
		}
		for j, v := range order {
			if j >= stop {
				vote(v, A, "")
			}
		}
	default: // peers: repeated / changing claims, several claimed blocks, conflicts for each
		for _, p := range peers {
			if rng.Intn(2) == 0 {
				claim(p, []int{A, B, C}[rng.Intn(3)])
			}
		}
		for _, v := range rng.Perm(n) {
			vote(v, []int{A, B, C}[rng.Intn(3)], "")
		}
		claim(peers[rng.Intn(4)], B) // maybe a second claim of the same peer (ignored by the documented rule)
		for _, v := range rng.Perm(n) {
			vote(v, []int{A, B, C}[rng.Intn(3)], "")
			noise(15)
		}
		for _, v := range rng.Perm(n) {
			vote(v, []int{A, B}[rng.Intn(2)], "")
		}
	}
	return ops
}

// nthPermutation writes the idx-th permutation (factoradic order) of 0..n-1 into out.
func nthPermutation(idx int64, n int, out []int) {
	pool := make([]int, n)
	for i := range pool {
		pool[i] = i
	}
	f := int64(1)
	for i := 2; i < n; i++ {
		f *= int64(i)
	} // (n-1)!
	for i := 0; i < n; i++ {
		q := idx / f
		idx %= f
		out[i] = pool[q]
		pool = append(pool[:q], pool[q+1:]...)
		if n-1-i > 0 {
			f /= int64(n - 1 - i)
		}
	}
}

func factorial(n int) int64 {
	f := int64(1)
	for i := 2; i <= n; i++ {
		f *= int64(i)
	}
	return f
}

// permBase is a short multiset of ops of which every order is run.
type permBase struct {
	Spec setSpec
	T    byte
	Ops  []opT
}

func handBases() []permBase {
	v := func(val, b int) opT { return opT{Kind: "vote", Val: val, Block: b} }
	f := func(val, b int, flaw string) opT { return opT{Kind: "vote", Val: val, Block: b, Flaw: flaw} }
	c := func(p string, b int) opT { return opT{Kind: "claim", Peer: p, Block: b} }
	return []permBase{
		{setSpec{[]int64{1, 1, 1}, "perm"}, 2, []opT{v(0, 1), v(1, 1), v(2, 1), v(0, 2), v(1, 2), c("p1", 2)}},
		{setSpec{[]int64{1, 1, 1}, "perm"}, 2, []opT{v(0, 1), v(1, 1), v(2, 2), v(0, 2), v(1, 2), c("p1", 2)}},
		{setSpec{[]int64{2, 1, 1, 2}, "perm"}, 2, []opT{v(0, 1), v(3, 1), v(1, 1), v(0, 2), v(3, 2), c("p1", 2)}},
		{setSpec{[]int64{2, 1}, "perm"}, 1, []opT{v(0, 1), v(1, 1), v(0, 0), v(1, 0), c("p1", 0), v(0, 1)}},
		{setSpec{[]int64{1, 1, 1, 1}, "perm"}, 2, []opT{v(0, 1), v(1, 1), v(2, 1), v(3, 2), c("p1", 2), c("p1", 3)}},
		{setSpec{[]int64{3, 2, 1}, "perm"}, 2, []opT{v(0, 1), v(1, 1), v(2, 1), f(1, 1, "sig-flip-s"), f(0, 1, "idx-other"), v(1, 5)}},
		{setSpec{[]int64{1, 1, 1}, "perm"}, 1, []opT{v(0, 1), v(1, 1), v(2, 1), v(0, 2), v(1, 2), v(2, 2), c("p1", 2)}},
		{setSpec{[]int64{4, 2, 2, 1}, "perm"}, 2, []opT{v(0, 1), v(1, 1), v(3, 1), v(0, 2), v(1, 2), v(2, 2), c("p2", 2)}},
	}
}

// seededBase draws a random short multiset for permutation runs.
func seededBase(rng *rand.Rand, nops int) permBase {
	n := 2 + rng.Intn(3)
	var p []int64
	if rng.Intn(2) == 0 {
		p = boundaryPowers(rng, n, int64(1+rng.Intn(4)))
	} else {
		p = make([]int64, n)
		for i := range p {
			p[i] = int64(1 + rng.Intn(3))
		}
	}
	b := permBase{Spec: setSpec{p, "perm-seeded"}, T: byte(1 + rng.Intn(2))}
	A, B := 1+rng.Intn(5), 0
	for B = rng.Intn(6); B == A; B = rng.Intn(6) {
	}
	for len(b.Ops) < nops {
		switch x := rng.Intn(10); {
		case x < 5:
			b.Ops = append(b.Ops, opT{Kind: "vote", Val: rng.Intn(n), Block: A})
		case x < 8:
			b.Ops = append(b.Ops, opT{Kind: "vote", Val: rng.Intn(n), Block: B})
		case x < 9:
			b.Ops = append(b.Ops, opT{Kind: "claim", Peer: peers[rng.Intn(2)], Block: []int{A, B}[rng.Intn(2)]})
		default:
			b.Ops = append(b.Ops, opT{Kind: "vote", Val: rng.Intn(n), Block: []int{A, B}[rng.Intn(2)], Flaw: pickFlaw(rng)})
		}
	}
	return b
}
