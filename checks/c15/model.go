package main

// Reference tally, independent of types.VoteSet: own signature verification
// (crypto/ed25519 over types.SignBytes), own 2/3 arithmetic (128-bit exact).

import (
	"bytes"
	"crypto/ed25519"
	"fmt"
	"math/bits"
	"sync"

	crypto "github.com/dappledger/AnnChain/gemmill/go-crypto"
	"github.com/dappledger/AnnChain/gemmill/types"
)

type refVal struct {
	addr  []byte
	pub   ed25519.PublicKey
	power uint64
}

// exceeds23: 3p > 2T without overflow.
func exceeds23(p, T uint64) bool {
	h1, l1 := bits.Mul64(p, 3)
	h2, l2 := bits.Mul64(T, 2)
	return h1 > h2 || (h1 == h2 && l1 > l2)
}

// equals23: 3p == 2T.
func equals23(p, T uint64) bool {
	h1, l1 := bits.Mul64(p, 3)
	h2, l2 := bits.Mul64(T, 2)
	return h1 == h2 && l1 == l2
}

// mkey: the model's own identity of a block id (all three fields).
func mkey(b types.BlockID) string {
	return fmt.Sprintf("%x/%d/%x", b.Hash, b.PartsHeader.Total, b.PartsHeader.Hash)
}

var verifyCache sync.Map

// stdVerify: standard-library verdict on (pub, msg, sig); cached.
func stdVerify(pub ed25519.PublicKey, msg []byte, sig crypto.Signature) bool {
	s, ok := sig.(crypto.SignatureEd25519)
	if !ok {
		return false
	}
	k := string(pub) + string(s[:]) + string(msg)
	if v, ok := verifyCache.Load(k); ok {
		return v.(bool)
	}
	res := ed25519.Verify(pub, msg, s[:])
	verifyCache.Store(k, res)
	return res
}

type refSet struct {
	chain string
	h, r  int64
	t     byte
	vals  []refVal
	total uint64

	hasFirst  []bool
	firstBlk  []string
	sumAny    uint64
	counted   map[string][]bool // block -> validator counted for it
	cpower    map[string]uint64
	literal   map[string][]bool // block -> validator ever offered a validly signed vote for it
	lpower    map[string]uint64
	claimed   map[string]bool
	peerClaim map[string]string
	maj23     *types.BlockID
	atMaj     []bool              // counted set of the majority block at the moment it was reached
	replaced  []bool              // validator offered a valid conflicting vote for the majority block after it was reached
	validSig  []map[string][]byte // per validator: block -> signature of a validly signed offered vote

	// metrics
	exactHits, minimalHits int
	conflicts, uncounted   int
	literalFirst           string // first block whose literal power exceeded 2/3
}

func newRefSet(chain string, h, r int64, t byte, vals []refVal) *refSet {
	m := &refSet{chain: chain, h: h, r: r, t: t, vals: vals}
	n := len(vals)
	for _, v := range vals {
		m.total += v.power
	}
	m.hasFirst = make([]bool, n)
	m.firstBlk = make([]string, n)
	m.replaced = make([]bool, n)
	m.validSig = make([]map[string][]byte, n)
	m.counted = map[string][]bool{}
	m.cpower = map[string]uint64{}
	m.literal = map[string][]bool{}
	m.lpower = map[string]uint64{}
	m.claimed = map[string]bool{}
	m.peerClaim = map[string]string{}
	return m
}

type expect struct {
	class    string // first | duplicate | conflict-counted | conflict-uncounted | invalid-step | invalid-index | invalid-address | invalid-signature
	added    bool
	conflict bool
	dupAlt   bool // (false, nil) is acceptable as well (re-offered conflicting vote for the majority block)
	idx      int
}

// claim applies the documented rule: each peer names one block; later claims of the same peer are ignored.
func (m *refSet) claim(peer string, b types.BlockID) {
	if _, ok := m.peerClaim[peer]; ok {
		return
	}
	k := mkey(b)
	m.peerClaim[peer] = k
	m.claimed[k] = true
}

func (m *refSet) count(k string, idx int) {
	c := m.counted[k]
	if c == nil {
		c = make([]bool, len(m.vals))
		m.counted[k] = c
	}
	c[idx] = true
	m.cpower[k] += m.vals[idx].power
}

// offer classifies a vote and updates the tally.
func (m *refSet) offer(v *types.Vote) expect {
	if v.Height != m.h || v.Round != m.r || v.Type != m.t {
		return expect{class: "invalid-step"}
	}
	idx := v.ValidatorIndex
	if idx < 0 || idx >= len(m.vals) {
		return expect{class: "invalid-index"}
	}
	if !bytes.Equal(v.ValidatorAddress, m.vals[idx].addr) {
		return expect{class: "invalid-address"}
	}
	if !stdVerify(m.vals[idx].pub, types.SignBytes(m.chain, v), v.Signature) {
		return expect{class: "invalid-signature", idx: idx}
	}
	k := mkey(v.BlockID)
	// literal tally: any validly signed vote ever offered
	l := m.literal[k]
	if l == nil {
		l = make([]bool, len(m.vals))
		m.literal[k] = l
	}
	if !l[idx] {
		l[idx] = true
		m.lpower[k] += m.vals[idx].power
		if m.literalFirst == "" && exceeds23(m.lpower[k], m.total) {
			m.literalFirst = k
		}
	}
	if m.validSig[idx] == nil {
		m.validSig[idx] = map[string][]byte{}
	}
	if _, ok := m.validSig[idx][k]; !ok {
		s := v.Signature.(crypto.SignatureEd25519)
		m.validSig[idx][k] = append([]byte{}, s[:]...)
	}

	if c := m.counted[k]; c != nil && c[idx] {
		return expect{class: "duplicate", idx: idx}
	}
	e := expect{idx: idx}
	if !m.hasFirst[idx] {
		m.hasFirst[idx] = true
		m.firstBlk[idx] = k
		m.sumAny += m.vals[idx].power
		m.count(k, idx)
		e.class, e.added = "first", true
	} else {
		m.conflicts++
		e.conflict = true
		if m.maj23 != nil && mkey(*m.maj23) == k {
			// the set prefers votes for the majority block as canonical votes; a
			// re-offer may then be seen as a duplicate
			if m.replaced[idx] {
				e.dupAlt = true
			}
			m.replaced[idx] = true
		}
		if m.claimed[k] {
			m.count(k, idx)
			e.class, e.added = "conflict-counted", true
		} else {
			m.uncounted++
			e.class = "conflict-uncounted"
			return e
		}
	}
	// boundary bookkeeping and majority
	p := m.cpower[k]
	if equals23(p, m.total) {
		m.exactHits++
	}
	if exceeds23(p, m.total) {
		if p == 0 || !exceeds23(p-1, m.total) {
			m.minimalHits++
		}
		if m.maj23 == nil {
			b := v.BlockID
			m.maj23 = &b
			m.atMaj = append([]bool{}, m.counted[k]...)
		}
	}
	return e
}

func (m *refSet) hasAny() bool { return exceeds23(m.sumAny, m.total) }
func (m *refSet) hasAll() bool { return m.sumAny == m.total }
