package main

// HeightVoteSet (rounds, peer claims, catch-up round limits) against one
// reference tally per (round, type).

import (
	"fmt"

	"github.com/dappledger/AnnChain/gemmill/consensus/pbft"
	"github.com/dappledger/AnnChain/gemmill/types"

	"verif/lib"
)

type rtKey struct {
	r int64
	t byte
}

type hvsModel struct {
	w       *world
	h       int64
	cur     int64
	sets    map[rtKey]*refSet
	rounds  map[int64]bool
	catchup map[string][]int64
}

func (hm *hvsModel) addRound(r int64) {
	hm.rounds[r] = true
	hm.sets[rtKey{r, types.VoteTypePrevote}] = newRefSet(chainID, hm.h, r, types.VoteTypePrevote, hm.w.vals)
	hm.sets[rtKey{r, types.VoteTypePrecommit}] = newRefSet(chainID, hm.h, r, types.VoteTypePrecommit, hm.w.vals)
}

func hvsCase(ci int64, lc counters) {
	rng := lib.Rand("c15-hvs", ci)
	n := 1 + rng.Intn(7)
	var spec setSpec
	switch ci % 3 {
	case 0:
		p := make([]int64, n)
		for i := range p {
			p[i] = 1
		}
		spec = setSpec{p, "hvs-ones"}
	case 1:
		if n < 2 {
			n = 2
		}
		spec = setSpec{boundaryPowers(rng, n, int64(1+rng.Intn(9))), "hvs-boundary"}
	default:
		p := make([]int64, n)
		for i := range p {
			p[i] = int64(1 + rng.Intn(5))
		}
		spec = setSpec{p, "hvs-small"}
	}
	h := []int64{1, 2, 1000000007}[rng.Intn(3)]
	w := newWorld(spec, h, 0, 0)
	rs := w.realSet()
	hvs := pbft.NewHeightVoteSet(chainID, h, rs)
	hm := &hvsModel{w: w, h: h, sets: map[rtKey]*refSet{}, rounds: map[int64]bool{}, catchup: map[string][]int64{}}
	hm.addRound(0)
	run.Eval()
	lc.add("hvs_cases", 1)

	A, B := 1+rng.Intn(5), rng.Intn(6)
	nops := 20 + rng.Intn(40)
	var ops []opT
	failed := false
	prevMaj := map[rtKey]types.BlockID{}
	witness := func(step int) map[string]interface{} {
		return map[string]interface{}{"origin": "hvs", "case": ci, "powers_by_key": spec.Powers, "set_index_to_key": w.order, "height": h, "ops": ops, "failing_step": step,
			"note": "ops: vote(val,block,flaw,round,type,peer) / claim(round,type,peer,block) / setround(set_round)"}
	}
	pickRound := func() int64 {
		switch x := rng.Intn(12); {
		case x < 6:
			return hm.cur
		case x < 8:
			if hm.cur > 0 {
				return rng.Int63n(hm.cur + 1)
			}
			return 0
		case x < 10:
			return hm.cur + 1 + rng.Int63n(3)
		case x < 11:
			return 7 + rng.Int63n(3)
		}
		return -1
	}
	for step := 0; step < nops && !failed; step++ {
		var op opT
		switch x := rng.Intn(20); {
		case x < 14:
			op = opT{Kind: "vote", Val: rng.Intn(n), Block: []int{A, A, B, rng.Intn(6)}[rng.Intn(4)], Round: pickRound(), Type: []byte{1, 2, 1, 2, 1, 2, 3, 0}[rng.Intn(8)], Peer: []string{"", "p1", "p2", "p3"}[rng.Intn(4)]}
			if rng.Intn(8) == 0 {
				op.Flaw = pickFlaw(rng)
				if op.Flaw == "type" || op.Flaw == "type-invalid" || op.Flaw == "round" || op.Flaw == "round-minus" {
					op.Flaw = "height" // round/type select the set here; keep the flaw meaningful
				}
			}
		case x < 17:
			op = opT{Kind: "claim", Round: pickRound(), Type: []byte{1, 2, 1, 2, 3}[rng.Intn(5)], Peer: peers[rng.Intn(3)], Block: []int{A, B}[rng.Intn(2)]}
		default:
			op = opT{Kind: "setround", SetR: hm.cur + 1 + rng.Int63n(2)}
		}
		ops = append(ops, op)
		switch op.Kind {
		case "setround":
			hvs.SetRound(op.SetR)
			for r := hm.cur + 1; r <= op.SetR; r++ {
				if !hm.rounds[r] {
					hm.addRound(r)
				}
			}
			hm.cur = op.SetR
			lc.add("hvs_setround", 1)
		case "claim":
			hvs.SetPeerMaj23(op.Round, op.Type, op.Peer, blocks[op.Block])
			if types.IsVoteTypeValid(op.Type) {
				if m := hm.sets[rtKey{op.Round, op.Type}]; m != nil {
					m.claim(op.Peer, blocks[op.Block])
					lc.add("hvs_claims_applied", 1)
				} else {
					lc.add("hvs_claims_for_unknown_round", 1)
				}
			}
		case "vote":
			v := w.makeVote(&op, h, op.Round, op.Type)
			res := safeCall(func() (bool, error) { return hvs.AddVote(v, op.Peer) })
			lc.add("hvs_votes_offered", 1)
			// model
			var e expect
			switch {
			case !types.IsVoteTypeValid(v.Type):
				e = expect{class: "hvs-invalid-type"}
			default:
				if !hm.rounds[v.Round] {
					if len(hm.catchup[op.Peer]) < 2 {
						hm.addRound(v.Round)
						hm.catchup[op.Peer] = append(hm.catchup[op.Peer], v.Round)
						lc.add("hvs_catchup_rounds_created", 1)
					} else {
						e = expect{class: "hvs-catchup-limit"}
						lc.add("hvs_catchup_limit_drops", 1)
					}
				}
				if e.class == "" {
					e = hm.sets[rtKey{v.Round, v.Type}].offer(v)
				}
			}
			lc.add("hvs_model_"+e.class, 1)
			if res.panicked {
				lc.add("addvote_panics", 1)
				key := panicClass(v, n, op.Flaw, res.psite)
				run.Violation(key, fmt.Sprintf("HeightVoteSet.AddVote panicked (%q at %s) on a vote with index %d, address length %d in a set of %d validators", res.pval, res.psite, v.ValidatorIndex, len(v.ValidatorAddress), n), witness(step))
				break
			}
			ek := errKind(res.err)
			ok := false
			switch e.class {
			case "hvs-invalid-type", "hvs-catchup-limit", "duplicate":
				ok = !res.added && res.err == nil
			case "first":
				ok = res.added && res.err == nil
			case "conflict-counted":
				ok = (res.added && ek == "ErrVoteConflictingVotes") || (e.dupAlt && !res.added && res.err == nil)
			case "conflict-uncounted":
				ok = (!res.added && ek == "ErrVoteConflictingVotes") || (e.dupAlt && !res.added && res.err == nil)
			default:
				ok = !res.added
			}
			if res.added {
				lc.add("hvs_votes_added", 1)
			}
			if !ok {
				failed = true
				run.Violation("hvs-addvote-result-"+e.class, fmt.Sprintf("HeightVoteSet.AddVote returned (%v, %v) for a vote the reference classifies as %s", res.added, res.err, e.class), witness(step))
			}
		}
		if failed {
			break
		}
		// compare every round the model knows, and a few it does not
		upper := int64(10)
		if hm.cur+5 > upper {
			upper = hm.cur + 5
		}
		for r := int64(-1); r <= upper; r++ {
			pv, pc := hvs.Prevotes(r), hvs.Precommits(r)
			if (pv != nil) != hm.rounds[r] || (pc != nil) != hm.rounds[r] {
				failed = true
				run.Violation("hvs-round-existence", fmt.Sprintf("round %d: vote sets exist=%v/%v, reference exists=%v (catch-up rounds per peer: %v, current round %d)", r, pv != nil, pc != nil, hm.rounds[r], hm.catchup, hm.cur), witness(step))
				break
			}
			if !hm.rounds[r] {
				continue
			}
			for _, t := range []byte{types.VoteTypePrevote, types.VoteTypePrecommit} {
				vs := pv
				if t == types.VoteTypePrecommit {
					vs = pc
				}
				m := hm.sets[rtKey{r, t}]
				bid, ok := vs.TwoThirdsMajority()
				k := rtKey{r, t}
				if old, had := prevMaj[k]; had && (!ok || !old.Equals(bid)) {
					failed = true
					run.Violation("hvs-maj23-changed", fmt.Sprintf("round %d type %d: majority changed or disappeared", r, t), witness(step))
				}
				if ok {
					if _, had := prevMaj[k]; !had {
						lc.add("hvs_majorities_reported", 1)
					}
					prevMaj[k] = bid
				}
				if ok != (m.maj23 != nil) || (ok && mkey(bid) != mkey(*m.maj23)) {
					failed = true
					run.Violation("hvs-maj23-mismatch", fmt.Sprintf("round %d type %d: TwoThirdsMajority=(%s,%v), reference majority present=%v", r, t, blockName(bid), ok, m.maj23 != nil), witness(step))
				}
				if vs.HasTwoThirdsAny() != m.hasAny() || vs.HasAll() != m.hasAll() {
					failed = true
					run.Violation("hvs-any-all-mismatch", fmt.Sprintf("round %d type %d: HasTwoThirdsAny/HasAll differ from reference", r, t), witness(step))
				}
			}
		}
		if hvs.Round() != hm.cur {
			failed = true
			run.Violation("hvs-round-mismatch", fmt.Sprintf("Round()=%d, reference %d", hvs.Round(), hm.cur), witness(step))
		}
		// POLInfo: last round <= current with a prevote majority
		wantR, wantB := int64(-1), types.BlockID{}
		for r := hm.cur; r >= 0; r-- {
			if m := hm.sets[rtKey{r, types.VoteTypePrevote}]; m.maj23 != nil {
				wantR, wantB = r, *m.maj23
				break
			}
		}
		gotR, gotB := hvs.POLInfo()
		lc.add("hvs_polinfo_checks", 1)
		if wantR >= 0 {
			lc.add("hvs_polinfo_positive", 1)
		}
		if gotR != wantR || mkey(gotB) != mkey(wantB) {
			failed = true
			run.Violation("hvs-polinfo-mismatch", fmt.Sprintf("POLInfo=(%d,%s), reference (%d,%s)", gotR, blockName(gotB), wantR, blockName(wantB)), witness(step))
		}
	}
	nt := false
	for _, m := range hm.sets {
		if m.maj23 != nil || m.conflicts > 0 {
			nt = true
		}
	}
	if nt {
		run.Nontrivial(fmt.Sprintf("hvs-%d-%s", ci, lib.Hash12(spec.Powers, ops)))
	}
	if ci < 2 {
		run.Sample(map[string]interface{}{"origin": "hvs", "powers_by_key": spec.Powers, "ops": len(ops), "rounds": len(hm.rounds), "catchup": hm.catchup})
	}
}
