package main

// Drives the real types.VoteSet next to the reference tally and compares every
// observable after every operation; commit assembly / verification / tampering.

import (
	"fmt"
	"runtime/debug"
	"strings"
	"sync"
	"sync/atomic"

	crypto "github.com/dappledger/AnnChain/gemmill/go-crypto"
	"github.com/dappledger/AnnChain/gemmill/types"

	"verif/lib"
)

// counters local to a worker batch (flushed into the run to avoid lock contention)
type counters map[string]int64

func (c counters) add(k string, n int64) { c[k] += n }
func (c counters) flush() {
	for k, v := range c {
		run.Count(k, v)
		delete(c, k)
	}
}

type addResult struct {
	added    bool
	err      error
	panicked bool
	pval     string
	psite    string
}

func panicSite(stack string) string {
	lines := strings.Split(stack, "\n")
	seenPanic := false
	for _, l := range lines {
		if strings.HasPrefix(l, "panic(") {
			seenPanic = true
			continue
		}
		if seenPanic && strings.HasPrefix(l, "github.com/dappledger/AnnChain/") {
			f := strings.TrimPrefix(l, "github.com/dappledger/AnnChain/gemmill/")
			if i := strings.LastIndex(f, "("); i > 0 {
				f = f[:i]
			}
			if strings.Contains(f, "go-common.Panic") { // PanicSanity wrapper: the caller is the site
				continue
			}
			return f
		}
	}
	return "unknown"
}

func safeCall(fn func() (bool, error)) (res addResult) {
	defer func() {
		if r := recover(); r != nil {
			res.panicked = true
			res.pval = fmt.Sprint(r)
			res.psite = panicSite(string(debug.Stack()))
		}
	}()
	res.added, res.err = fn()
	return
}

func errKind(err error) string {
	switch {
	case err == nil:
		return "nil"
	case err == types.ErrVoteInvalidValidatorIndex:
		return "ErrVoteInvalidValidatorIndex"
	case err == types.ErrVoteInvalidValidatorAddress:
		return "ErrVoteInvalidValidatorAddress"
	case err == types.ErrVoteInvalidSignature:
		return "ErrVoteInvalidSignature"
	case err == types.ErrVoteInvalidBlockHash:
		return "ErrVoteInvalidBlockHash"
	}
	if _, ok := err.(*types.ErrVoteConflictingVotes); ok {
		return "ErrVoteConflictingVotes"
	}
	if strings.HasPrefix(err.Error(), types.ErrVoteUnexpectedStep.Error()) {
		return "ErrVoteUnexpectedStep"
	}
	return "other"
}

// panicClass names the defect class of a panic inside AddVote by input class and site.
func panicClass(v *types.Vote, n int, flaw string, site string) string {
	var cls, want string
	switch {
	case v.ValidatorIndex < 0:
		cls, want = "addvote-negative-index-panic", "types.(*VoteSet).addVote"
	case len(v.ValidatorAddress) == 0:
		cls, want = "addvote-empty-address-panic", "types.(*VoteSet).addVote"
	case v.ValidatorIndex >= n:
		cls, want = "addvote-index-out-of-range-panic", "types.(*ValidatorSet).GetByIndex"
	default:
		cls, want = "addvote-panic-"+flawGroup(flaw), ""
	}
	if site != want {
		cls += "-at-" + site
	}
	return cls
}

type driver struct {
	w      *world
	vs     *types.VoteSet
	rs     *types.ValidatorSet
	m      *refSet
	lc     counters
	ops    []opT
	origin string
	caseID string

	prevMaj   *types.BlockID
	failed    bool
	madeFirst bool
}

func (d *driver) ovf() string {
	if d.w.overflowRegime() {
		return "-total-power-overflow"
	}
	return ""
}

func (d *driver) witness(step int, extra map[string]interface{}) map[string]interface{} {
	wv := map[string]interface{}{
		"origin": d.origin, "case": d.caseID, "powers_by_key": d.w.spec.Powers, "category": d.w.spec.Cat,
		"set_index_to_key": d.w.order, "total_power": d.w.totalU,
		"height": d.w.h, "round": d.w.r, "type": d.w.t, "chain_id": chainID,
		"ops": d.ops, "failing_step": step,
		"note": "validator i of the set uses key secret \"c15-key-<set_index_to_key[i]>\"; block 0 = nil, blocks 1..5 see gen.go initBlocks",
	}
	for k, v := range extra {
		wv[k] = v
	}
	return wv
}

func (d *driver) violate(key, what string, step int, extra map[string]interface{}) {
	d.failed = true
	d.lc.add("violations_"+key, 1)
	run.Violation(key, what, d.witness(step, extra))
}

func bitsOf(ba interface {
	GetIndex(int) bool
}, n int) []bool {
	out := make([]bool, n)
	for i := 0; i < n; i++ {
		out[i] = ba.GetIndex(i)
	}
	return out
}

func sameBits(a, b []bool) bool {
	for i := range a {
		if a[i] != b[i] {
			return false
		}
	}
	return true
}

// step applies one op to the real set and the model and judges the result.
func (d *driver) step(i int, op *opT) {
	if op.Kind == "claim" {
		d.vs.SetPeerMaj23(op.Peer, blocks[op.Block])
		d.m.claim(op.Peer, blocks[op.Block])
		d.lc.add("peer_claims", 1)
		d.observe(i)
		return
	}
	v := d.w.makeVote(op, d.w.h, d.w.r, d.w.t)
	d.lc.add("offered_gen_"+flawGroup(op.Flaw), 1)
	res := safeCall(func() (bool, error) { return d.vs.AddVote(v) })
	e := d.m.offer(v)
	d.lc.add("votes_offered", 1)
	d.lc.add("offered_model_"+e.class, 1)
	d.judge(i, v, op.Flaw, e, res)
	if !d.failed {
		d.observe(i)
	}
}

// judge compares AddVote's return with the model's expectation.
func (d *driver) judge(i int, v *types.Vote, flaw string, e expect, res addResult) {
	if res.panicked {
		d.lc.add("addvote_panics", 1)
		key := panicClass(v, d.w.n, flaw, res.psite)
		d.lc.add("violations_"+key, 1)
		run.Violation(key, fmt.Sprintf("AddVote panicked (%q at %s) on a vote with index %d, address length %d in a set of %d validators (model class %s)", res.pval, res.psite, v.ValidatorIndex, len(v.ValidatorAddress), d.w.n, e.class),
			d.witness(i, map[string]interface{}{"panic": res.pval, "site": res.psite, "vote_index": v.ValidatorIndex, "vote_address_len": len(v.ValidatorAddress), "flaw": flaw}))
		// the panic happens before any mutation and the mutex is released by defer: keep going
		return
	}
	ek := errKind(res.err)
	if res.added {
		d.lc.add("votes_added", 1)
	} else {
		d.lc.add("rejected_"+ek, 1)
	}
	got := "rejected-" + ek
	switch {
	case res.added && res.err == nil:
		got = "added"
	case res.added && ek == "ErrVoteConflictingVotes":
		got = "added-conflict"
	case res.added:
		got = "added-with-" + ek
	case res.err == nil:
		got = "not-added-nil-error"
	}
	ok := false
	switch e.class {
	case "first":
		ok = got == "added"
	case "duplicate":
		ok = got == "not-added-nil-error"
	case "conflict-counted":
		ok = got == "added-conflict" || (e.dupAlt && got == "not-added-nil-error")
	case "conflict-uncounted":
		ok = got == "rejected-ErrVoteConflictingVotes" || (e.dupAlt && got == "not-added-nil-error")
	default: // invalid-*: must not be added; the error kind is counted, not judged
		ok = !res.added
		if res.err == nil {
			d.lc.add("invalid_vote_nil_error", 1)
		}
		d.lc.add("err_for_"+e.class+"="+ek, 1)
	}
	if e.dupAlt && got == "not-added-nil-error" {
		d.lc.add("reoffered_conflict_for_majority_block_seen_as_duplicate", 1)
	}
	if !ok {
		d.violate("addvote-result-"+e.class+"-got-"+got+d.ovf(),
			fmt.Sprintf("AddVote returned (%v, %v) for a vote the reference tally classifies as %s (validator %d, block %s)", res.added, res.err, e.class, v.ValidatorIndex, blockName(v.BlockID)),
			i, map[string]interface{}{"model_class": e.class, "got": got})
		return
	}
	if ce, isC := res.err.(*types.ErrVoteConflictingVotes); isC && e.conflict {
		d.lc.add("conflicts_reported", 1)
		if ce.VoteA == nil || ce.VoteB == nil || ce.VoteA.ValidatorIndex != v.ValidatorIndex || ce.VoteB != v || ce.VoteA.BlockID.Equals(ce.VoteB.BlockID) {
			d.violate("conflict-evidence-malformed", "ErrVoteConflictingVotes does not carry two votes of the same validator for different blocks", i, nil)
		}
	}
}

// observe compares every read accessor with the model.
func (d *driver) observe(i int) {
	vs, m, n := d.vs, d.m, d.w.n
	bid, ok := vs.TwoThirdsMajority()
	// monotonicity, independent of the model
	if d.prevMaj != nil {
		if !ok {
			d.violate("maj23-disappeared", fmt.Sprintf("TwoThirdsMajority reported %s earlier and nothing now", blockName(*d.prevMaj)), i, nil)
		} else if !bid.Equals(*d.prevMaj) {
			d.violate("maj23-changed", fmt.Sprintf("TwoThirdsMajority changed from %s to %s", blockName(*d.prevMaj), blockName(bid)), i, nil)
		}
	}
	if ok && d.prevMaj == nil {
		b := bid
		d.prevMaj = &b
		d.lc.add("majorities_reported", 1)
		if bid.IsZero() {
			d.lc.add("majorities_reported_nil_block", 1)
		}
	}
	switch {
	case ok && m.maj23 == nil:
		d.violate("maj23-reported-without-two-thirds"+d.ovf(), fmt.Sprintf("TwoThirdsMajority reports %s but no block has more than 2/3 of %d (counted powers %v)", blockName(bid), m.total, d.cpowers()), i, map[string]interface{}{"counted_power": d.cpowers()})
	case !ok && m.maj23 != nil:
		d.violate("maj23-missing-with-two-thirds"+d.ovf(), fmt.Sprintf("block %s has counted power %d > 2/3 of %d but TwoThirdsMajority reports nothing", blockName(*m.maj23), m.cpower[mkey(*m.maj23)], m.total), i, map[string]interface{}{"counted_power": d.cpowers()})
	case ok && mkey(bid) != mkey(*m.maj23):
		d.violate("maj23-wrong-block"+d.ovf(), fmt.Sprintf("TwoThirdsMajority reports %s, the first block to exceed 2/3 was %s", blockName(bid), blockName(*m.maj23)), i, map[string]interface{}{"counted_power": d.cpowers()})
	}
	if vs.HasTwoThirdsMajority() != ok || vs.IsCommit() != (ok && d.w.t == types.VoteTypePrecommit) {
		d.violate("has-two-thirds-majority-inconsistent", "HasTwoThirdsMajority/IsCommit disagree with TwoThirdsMajority", i, nil)
	}
	if got := vs.HasTwoThirdsAny(); got != m.hasAny() {
		d.violate("has-two-thirds-any-mismatch"+d.ovf(), fmt.Sprintf("HasTwoThirdsAny=%v, voted power %d of %d", got, m.sumAny, m.total), i, nil)
	}
	if got := vs.HasAll(); got != m.hasAll() {
		d.violate("has-all-mismatch", fmt.Sprintf("HasAll=%v, voted power %d of %d", got, m.sumAny, m.total), i, nil)
	}
	if ba := vs.BitArray(); !sameBits(bitsOf(ba, n), m.hasFirst) {
		d.violate("bitarray-mismatch", fmt.Sprintf("BitArray %v, validators with a counted first vote %v", bitsOf(ba, n), m.hasFirst), i, nil)
	}
	for b := range blocks {
		k := mkey(blocks[b])
		ba := vs.BitArrayByBlockID(blocks[b])
		got := make([]bool, n)
		if ba != nil {
			got = bitsOf(ba, n)
		}
		want := m.counted[k]
		if want == nil {
			want = make([]bool, n)
		}
		if m.maj23 != nil && mkey(*m.maj23) == k {
			// after the majority: everything counted when it was reached, nothing the model does not count
			for j := 0; j < n; j++ {
				if (m.atMaj[j] && !got[j]) || (got[j] && !want[j]) {
					d.violate("block-bitarray-mismatch", fmt.Sprintf("votes tallied for majority block %s: %v, reference %v (at majority %v)", blockName(blocks[b]), got, want, m.atMaj), i, nil)
					break
				}
			}
		} else if !sameBits(got, want) {
			d.violate("block-bitarray-mismatch", fmt.Sprintf("votes tallied for block %s: %v, reference %v", blockName(blocks[b]), got, want), i, nil)
		}
	}
	for j := 0; j < n; j++ {
		cv := vs.GetByIndex(j)
		if (cv != nil) != m.hasFirst[j] {
			d.violate("canonical-vote-mismatch", fmt.Sprintf("GetByIndex(%d) nil=%v but validator has first vote=%v", j, cv == nil, m.hasFirst[j]), i, nil)
			continue
		}
		if cv == nil {
			continue
		}
		sig, _ := cv.Signature.(crypto.SignatureEd25519)
		want, known := m.validSig[j][mkey(cv.BlockID)]
		if cv.ValidatorIndex != j || !known || string(want) != string(sig[:]) || cv.Height != d.w.h || cv.Round != d.w.r || cv.Type != d.w.t {
			d.violate("canonical-vote-not-a-valid-offered-vote", fmt.Sprintf("GetByIndex(%d) returns a vote that was never offered validly signed by that validator", j), i, nil)
		}
	}
	// a commit made at the very moment the majority appears must already recount
	if ok && !d.madeFirst && d.w.t == types.VoteTypePrecommit && !d.failed {
		d.madeFirst = true
		d.recount(i, vs.MakeCommit(), "at-majority")
	}
}

func (d *driver) cpowers() map[string]uint64 {
	out := map[string]uint64{}
	for b := range blocks {
		if p, ok := d.m.cpower[mkey(blocks[b])]; ok {
			out[blockName(blocks[b])] = p
		}
	}
	return out
}

// recount: independent recount of a commit (standard-library signatures, exact arithmetic).
func (d *driver) recount(i int, c *types.Commit, when string) bool {
	d.lc.add("commits_made", 1)
	n := d.w.n
	if len(c.Precommits) != n {
		d.violate("commit-wrong-size", fmt.Sprintf("commit has %d precommits for %d validators", len(c.Precommits), n), i, nil)
		return false
	}
	var p uint64
	for j, pc := range c.Precommits {
		if pc == nil {
			continue
		}
		good := pc.ValidatorIndex == j && string(pc.ValidatorAddress) == string(d.w.vals[j].addr) &&
			pc.Height == d.w.h && pc.Round == d.w.r && pc.Type == types.VoteTypePrecommit &&
			stdVerify(d.w.vals[j].pub, types.SignBytes(chainID, pc), pc.Signature)
		if !good {
			d.violate("commit-has-foreign-vote", fmt.Sprintf("precommit at position %d of the assembled commit is not a validly signed precommit of validator %d for this height/round", j, j), i, map[string]interface{}{"when": when})
			return false
		}
		if mkey(pc.BlockID) == mkey(c.BlockID) {
			p += d.w.vals[j].power
		}
	}
	d.lc.add("commit_recounts", 1)
	if !exceeds23(p, d.w.totalU) {
		d.violate("commit-recount-below-two-thirds"+d.ovf(), fmt.Sprintf("assembled commit (%s) carries power %d for %s, not more than 2/3 of %d", when, p, blockName(c.BlockID), d.w.totalU), i, map[string]interface{}{"when": when})
		return false
	}
	return true
}

func safeVerify(rs *types.ValidatorSet, chain string, b types.BlockID, h int64, c *types.Commit) (err error, pval string, psite string) {
	defer func() {
		if r := recover(); r != nil {
			pval = fmt.Sprint(r)
			if pval == "" {
				pval = "panic"
			}
			psite = panicSite(string(debug.Stack()))
		}
	}()
	err = rs.VerifyCommit(chain, b, h, c)
	return
}

func copyCommit(c *types.Commit) *types.Commit {
	return &types.Commit{BlockID: c.BlockID, Precommits: append([]*types.Vote{}, c.Precommits...)}
}

// finish: end-of-stream commit checks.
func (d *driver) finish(tamper bool) {
	i := len(d.ops)
	if d.failed || d.w.t != types.VoteTypePrecommit || d.prevMaj == nil {
		return
	}
	c := d.vs.MakeCommit()
	if !d.recount(i, c, "at-end") {
		return
	}
	err, pval, psite := safeVerify(d.rs, chainID, c.BlockID, d.w.h, c)
	d.lc.add("commits_verified_real", 1)
	if pval != "" {
		d.violate("verifycommit-panics-on-good-commit", fmt.Sprintf("VerifyCommit panicked on the assembled commit: %s at %s", pval, psite), i, nil)
		return
	}
	if err != nil {
		d.violate("commit-verify-rejects-good-commit"+d.ovf(), fmt.Sprintf("VerifyCommit rejects the commit assembled from the reported majority: %v", err), i, nil)
		return
	}
	if !c.BlockID.IsZero() {
		if e := c.ValidateBasic(); e != nil {
			d.lc.add("commit_validatebasic_errors", 1)
		}
	}
	if tamper {
		d.tamperSuite(i, c)
	}
}

type tamperCase struct {
	name   string
	commit *types.Commit
	block  types.BlockID
	height int64
	chain  string
}

// tamperSuite: every single-field modification of a good commit must fail VerifyCommit.
func (d *driver) tamperSuite(i int, c *types.Commit) {
	n := d.w.n
	B := c.BlockID
	var counted, others, present []int
	for j, pc := range c.Precommits {
		if pc == nil {
			continue
		}
		present = append(present, j)
		if mkey(pc.BlockID) == mkey(B) {
			counted = append(counted, j)
		} else {
			others = append(others, j)
		}
	}
	otherBlock := blocks[1]
	if mkey(B) == mkey(otherBlock) {
		otherBlock = blocks[2]
	}
	sameHash := types.BlockID{Hash: B.Hash, PartsHeader: types.PartSetHeader{Total: B.PartsHeader.Total + 1, Hash: B.PartsHeader.Hash}}
	mod := func(j int, f func(v *types.Vote)) *types.Commit {
		cc := copyCommit(c)
		v := cc.Precommits[j].Copy()
		f(v)
		cc.Precommits[j] = v
		return cc
	}
	flip := func(v *types.Vote) {
		s := v.Signature.(crypto.SignatureEd25519)
		s[7] ^= 0x04
		v.Signature = s
	}
	var cases []tamperCase
	add := func(name string, cc *types.Commit) { cases = append(cases, tamperCase{name, cc, B, d.w.h, chainID}) }
	first, last := present[0], present[len(present)-1]
	cj := counted[len(counted)/2]
	add("signature", mod(cj, flip))
	if len(others) > 0 {
		add("signature-of-vote-for-other-block", mod(others[0], flip))
	}
	add("vote-height-first", mod(first, func(v *types.Vote) { v.Height++ }))
	add("vote-height-last", mod(last, func(v *types.Vote) { v.Height-- }))
	add("vote-round-first", mod(first, func(v *types.Vote) { v.Round++ }))
	add("vote-round-last", mod(last, func(v *types.Vote) { v.Round++ }))
	add("vote-type", mod(cj, func(v *types.Vote) { v.Type = types.VoteTypePrevote }))
	add("vote-blockid", mod(cj, func(v *types.Vote) { v.BlockID = otherBlock }))
	add("vote-blockid-parts", mod(cj, func(v *types.Vote) { v.BlockID = sameHash }))
	cases = append(cases, tamperCase{"arg-height", copyCommit(c), B, d.w.h + 1, chainID})
	cases = append(cases, tamperCase{"arg-chain-id", copyCommit(c), B, d.w.h, otherChain})
	cases = append(cases, tamperCase{"arg-blockid", copyCommit(c), otherBlock, d.w.h, chainID})
	cases = append(cases, tamperCase{"arg-blockid-same-hash-other-parts", copyCommit(c), sameHash, d.w.h, chainID})
	if n >= 2 {
		// swap two positions with different content
		a := cj
		b := (cj + 1) % n
		cc := copyCommit(c)
		cc.Precommits[a], cc.Precommits[b] = cc.Precommits[b], cc.Precommits[a]
		add("index-swap", cc)
		// another validator's vote in place of this validator's (relabelled)
		cc2 := copyCommit(c)
		src := cj
		dst := (cj + 1) % n
		v := c.Precommits[src].Copy()
		v.ValidatorIndex = dst
		v.ValidatorAddress = d.w.vals[dst].addr
		cc2.Precommits[dst] = v
		add("vote-replaced-by-other-validators", cc2)
	}
	{ // nil counted precommits (index order) until the rest is not more than 2/3
		cc := copyCommit(c)
		var p uint64
		for _, j := range counted {
			p += d.w.vals[j].power
		}
		for _, j := range counted {
			if !exceeds23(p, d.w.totalU) {
				break
			}
			cc.Precommits[j] = nil
			p -= d.w.vals[j].power
		}
		left := 0
		for _, pc := range cc.Precommits {
			if pc != nil {
				left++
			}
		}
		if equals23(p, d.w.totalU) {
			d.lc.add("tamper_nil_down_to_exactly_two_thirds", 1)
		}
		if left == 0 {
			add("all-precommits-nil", cc)
		} else {
			add("nil-ed-below-two-thirds", cc)
		}
	}
	{
		cc := copyCommit(c)
		for j := range cc.Precommits {
			cc.Precommits[j] = nil
		}
		add("all-precommits-nil", cc)
	}
	cc := copyCommit(c)
	cc.Precommits = cc.Precommits[:n-1]
	add("size-short", cc)
	cc = copyCommit(c)
	cc.Precommits = append(cc.Precommits, nil)
	add("size-long", cc)

	for _, tc := range cases {
		d.lc.add("commits_tampered", 1)
		d.lc.add("tamper_"+tc.name, 1)
		err, pval, psite := safeVerify(d.rs, tc.chain, tc.block, tc.height, tc.commit)
		switch {
		case pval != "":
			d.lc.add("tamper_panics", 1)
			d.violate("verifycommit-panics-on-"+tc.name, fmt.Sprintf("VerifyCommit panicked (%s at %s) instead of returning an error for a commit with %s", pval, psite, tc.name), i, map[string]interface{}{"tamper": tc.name, "panic": pval, "site": psite})
			d.failed = false // independent sub-cases: keep going
		case err == nil:
			d.violate("verifycommit-accepts-tampered-"+tc.name+d.ovf(), fmt.Sprintf("VerifyCommit accepts a commit with %s", tc.name), i, map[string]interface{}{"tamper": tc.name})
			d.failed = false
		default:
			d.lc.add("tamper_rejected", 1)
		}
	}
}

// streamCase: one stream against one set.
type streamCase struct {
	ID     string
	Origin string
	Spec   setSpec
	H, R   int64
	T      byte
	Ops    []opT
}

func runStream(sc *streamCase, lc counters, tamper bool) {
	w := newWorld(sc.Spec, sc.H, sc.R, sc.T)
	rs := w.realSet()
	for i, v := range rs.Validators { // the model's own ordering must be the set's
		if string(v.Address) != string(w.vals[i].addr) {
			run.Inconclusive("validator order of the real set differs from the harness order")
			return
		}
	}
	d := &driver{w: w, rs: rs, vs: types.NewVoteSet(chainID, sc.H, sc.R, sc.T, rs), m: newRefSet(chainID, sc.H, sc.R, sc.T, w.vals), lc: lc, ops: sc.Ops, origin: sc.Origin, caseID: sc.ID}
	run.Eval()
	lc.add("streams", 1)
	lc.add("streams_"+sc.Origin, 1)
	lc.add("sets_"+sc.Spec.Cat, 1)
	if w.overflowRegime() {
		lc.add("streams_total_power_above_half_maxint64", 1)
	}
	for i := range sc.Ops {
		d.step(i, &sc.Ops[i])
		if d.failed {
			break
		}
	}
	d.finish(tamper)
	m := d.m
	lc.add("boundary_exactly_two_thirds_hits", int64(m.exactHits))
	lc.add("boundary_minimal_exceeding_hits", int64(m.minimalHits))
	lc.add("conflicting_votes_model", int64(m.conflicts))
	lc.add("conflicting_votes_not_counted", int64(m.uncounted))
	if m.literalFirst != "" && (m.maj23 == nil || mkey(*m.maj23) != m.literalFirst) {
		lc.add("literal_tally_gap_streams", 1) // metric, not a violation (DESIGN section 6)
	}
	if m.maj23 != nil || m.conflicts > 0 || m.exactHits > 0 {
		run.Nontrivial(sc.ID)
	}
	if m.maj23 != nil && m.conflicts > 0 && len(sc.Ops) <= 14 && sampleSlot(sc.Origin) {
		run.Sample(map[string]interface{}{"origin": sc.Origin, "powers_by_key": sc.Spec.Powers, "type": sc.T, "ops": opsCompact(sc.Ops), "majority": blockName(*m.maj23), "counted_power": d.cpowers(), "total": m.total})
	}
}

var sampleCount sync.Map // origin -> *int32: at most two samples per origin

func sampleSlot(origin string) bool {
	v, _ := sampleCount.LoadOrStore(origin, new(int32))
	return atomic.AddInt32(v.(*int32), 1) <= 2
}

func opsCompact(ops []opT) []string {
	out := make([]string, len(ops))
	for i, o := range ops {
		switch o.Kind {
		case "claim":
			out[i] = fmt.Sprintf("claim(%s,%s)", o.Peer, blockName(blocks[o.Block]))
		case "setround":
			out[i] = fmt.Sprintf("setround(%d)", o.SetR)
		default:
			out[i] = fmt.Sprintf("v%d:%s", o.Val, blockName(blocks[o.Block]))
			if o.Flaw != "" {
				out[i] += "!" + o.Flaw
			}
		}
	}
	return out
}

func streamID(sc *streamCase) string {
	return lib.Hash12(sc.Spec.Powers, sc.H, sc.R, sc.T, sc.Ops)
}
