package main

import (
	"math/big"
	"math/rand"
)

type addr [20]byte

func mkAddr(prefix []byte, last int) addr {
	var a addr
	copy(a[:], prefix)
	a[18] = byte(last >> 8)
	a[19] = byte(last)
	return a
}

func (a addr) big() *big.Int { return new(big.Int).SetBytes(a[:]) }

var (
	senderAddr   = mkAddr([]byte{0xa1, 0x1c, 0xe0}, 1)
	eoaAddr      = mkAddr([]byte{0xe0, 0xa0}, 1)
	emptyAddr    = mkAddr([]byte{0xe0, 0xa0}, 2) // exists in the pre-state with nonce 0, balance 0, no code
	nonexistAddr = mkAddr([]byte{0xde, 0xad}, 3)
	coinbaseAddr = mkAddr([]byte{0xc0, 0x1b, 0xba, 0x5e}, 4)
	recursorAddr = mkAddr([]byte{0xc0, 0xde}, 0x200)
)

func contractAddr(i int) addr { return mkAddr([]byte{0xc0, 0xde}, 0x100+i) }
func precompileAddr(i int) addr {
	var a addr
	a[19] = byte(i)
	return a
}

type slotVal struct{ K, V [32]byte }

type acct struct {
	Role    string
	Addr    addr
	Balance *big.Int
	Nonce   uint64
	Code    *codeObj
	Storage []slotVal
}

const (
	topCall = iota
	topCreate
	topCreate2
)

// eras of the in-tree chain rules (params.MainnetChainConfig by block number)
const (
	eraFrontier  = iota // < 1,150,000: the rules a real AnnChain runs with for its first weeks
	eraHomestead        // >= 1,150,000
	eraEIP150           // >= 2,463,000
	eraEIP158           // >= 2,675,000
	eraByzantium        // >= 4,370,000
)

var eraNames = []string{"frontier", "homestead", "eip150", "eip158", "byzantium"}

type program struct {
	ID       int64
	Accts    []*acct
	TopKind  int
	To       addr
	Data     []byte
	Value    *big.Int
	Salt     *big.Int
	Init     *codeObj
	Era      int
	Block    int64
	ByzOnly  bool // calls precompiles 5-8 under pre-Byzantium rules: judged against O1 alone, no O1/O2-distinguishing feature generated
	Tags     map[string]bool
	NContr   int
	HasRecur bool
}

func (p *program) tag(t string) { p.Tags[t] = true }

type gen struct {
	rng *rand.Rand
	p   *program
}

// cgen: generation context of one code object
type cgen struct {
	g            *gen
	obj          *codeObj
	rank         int  // may call contracts with index > rank with call data; lower ranks only with empty call data
	locals       int  // values pushed by the prologue, usable through DUP
	calls        bool // may emit calls
	creates      bool // may emit CREATE/CREATE2
	safe         bool // no deliberately hard-failing construct
	initDepth    int
	loopDepth    int
	ncalls       int
	ncreates     int
	memScratch   int64
	forceForward bool // the next call statement targets a higher-ranked contract
}

func (g *gen) intn(n int) int      { return g.rng.Intn(n) }
func (g *gen) chance(pct int) bool { return g.rng.Intn(100) < pct }

// callGasConst: gas operand used by code of the given rank. Strictly decreasing
// with rank so that a hard failure of a callee burns at most 1/16 of what its
// caller got; the in-tree VM ignores the operand.
func callGasConst(rank int) *big.Int {
	if rank < -1 {
		rank = -1
	}
	if rank > 5 {
		rank = 5
	}
	return pow2(uint(56 - 4*rank))
}

const topGas = uint64(1) << 63

// ---------------------------------------------------------------- values

func (c *cgen) constant(b *builder, v *big.Int) {
	if c.g.chance(20) {
		n := len(v.Bytes())
		if n == 0 {
			n = 1
		}
		b.pushW(v, n+c.g.intn(33-n))
		return
	}
	b.push(v)
}

func (c *cgen) poolOrVal(b *builder, pool []*big.Int, d int) {
	r := c.g.intn(100)
	switch {
	case r < 60 || d <= 0:
		c.constant(b, pick(c.g.rng, pool))
	case r < 72:
		c.constant(b, pick(c.g.rng, genPool))
	case r < 80:
		c.constant(b, randWord(c.g.rng))
	default:
		c.val(b, d-1)
	}
}

func (c *cgen) smallOff(b *builder) {
	b.pushInt(memOffPool[c.g.intn(len(memOffPool))])
}

func (c *cgen) universeAddr() addr {
	g := c.g
	r := g.intn(100)
	switch {
	case r < 35:
		return contractAddr(g.intn(g.p.NContr))
	case r < 45:
		return senderAddr
	case r < 55:
		return eoaAddr
	case r < 63:
		return emptyAddr
	case r < 72:
		return nonexistAddr
	case r < 76:
		return coinbaseAddr
	case r < 82:
		return recursorAddr
	case r < 95:
		return precompileAddr(g.intn(10))
	default:
		return precompileAddr(0xfe) // only ever queried (BALANCE/EXTCODE*), never called
	}
}

func (c *cgen) addrOperand(b *builder) {
	g := c.g
	if g.chance(8) {
		b.op(ADDRESS)
		return
	}
	a := c.universeAddr()
	v := a.big()
	if g.chance(20) { // garbage above bit 160 must be ignored
		hi := new(big.Int).Lsh(randWord(g.rng), 160)
		hi.Mod(hi, tt256)
		v = new(big.Int).Or(hi, v)
		b.pushW(v, 32)
		return
	}
	if g.chance(50) {
		b.pushW(v, 20)
	} else {
		b.push(v)
	}
}

func (c *cgen) slot(b *builder) { c.constant(b, pick(c.g.rng, slotPool)) }

var env0 = []byte{ADDRESS, ORIGIN, CALLER, CALLVALUE, CALLDATASIZE, CODESIZE, GASPRICE, COINBASE, TIMESTAMP, NUMBER, DIFFICULTY, GASLIMIT, RETURNDATASIZE, PC, MSIZE}

func (c *cgen) leaf(b *builder) {
	g := c.g
	r := g.intn(100)
	switch {
	case r < 32:
		c.constant(b, pick(g.rng, genPool))
	case r < 40:
		c.constant(b, randWord(g.rng))
	case r < 50:
		if c.locals > 0 {
			pos := 1 + g.intn(c.locals)
			k := b.h - pos + 1
			if k >= 1 && k <= 16 {
				b.op(byte(DUP1 + k - 1))
				return
			}
		}
		c.constant(b, pick(g.rng, genPool))
	case r < 58:
		switch g.intn(6) {
		case 0:
			c.constant(b, pick(g.rng, hugeMem)) // far beyond the call data: reads zeros
		case 1:
			b.op(CALLDATASIZE)
		default:
			b.pushInt(int64(g.intn(70)))
		}
		b.op(CALLDATALOAD)
	case r < 64:
		c.slot(b)
		b.op(SLOAD)
	case r < 69:
		c.smallOff(b)
		b.op(MLOAD)
	case r < 83:
		b.op(env0[g.intn(len(env0))])
	case r < 90:
		c.addrOperand(b)
		b.op([]byte{BALANCE, EXTCODESIZE, EXTCODEHASH}[g.intn(3)])
	case r < 92:
		n := g.p.Block
		c.constant(b, []*big.Int{big.NewInt(n - 1), big.NewInt(n - 2), big.NewInt(n - 256), big.NewInt(n - 257), big.NewInt(n), big.NewInt(n + 1), big.NewInt(0), tt256m1, pow2(64)}[g.intn(9)])
		b.op(BLOCKHASH)
	case r < 95:
		b.pushInt(memSizePool[g.intn(len(memSizePool))])
		c.smallOff(b)
		b.op(SHA3)
	default:
		c.constant(b, pick(g.rng, genPool))
	}
}

// val emits code that leaves exactly one value on the stack.
func (c *cgen) val(b *builder, d int) {
	g := c.g
	if d <= 0 || g.chance(25) {
		c.leaf(b)
		return
	}
	r := g.intn(100)
	switch {
	case r < 12: // shifts: value below, shift amount on top
		c.poolOrVal(b, signPool, d)
		c.poolOrVal(b, shiftPool, d)
		b.op([]byte{SHL, SHR, SAR}[g.intn(3)])
	case r < 18: // SIGNEXTEND: x below, byte index on top
		c.poolOrVal(b, signPool, d)
		c.poolOrVal(b, idxPool, d)
		b.op(SIGNEXTEND)
	case r < 24: // BYTE: value below, index on top
		c.poolOrVal(b, signPool, d)
		c.poolOrVal(b, idxPool, d)
		b.op(BYTE)
	case r < 31: // EXP: exponent below, base on top
		c.poolOrVal(b, expExp, d)
		c.poolOrVal(b, expBase, d)
		b.op(EXP)
	case r < 43: // division family: denominator below, numerator on top
		c.poolOrVal(b, divPool, d)
		c.poolOrVal(b, divPool, d)
		b.op([]byte{DIV, SDIV, MOD, SMOD}[g.intn(4)])
	case r < 50: // ADDMOD/MULMOD: modulus lowest
		c.poolOrVal(b, divPool, d)
		c.poolOrVal(b, genPool, d)
		c.poolOrVal(b, genPool, d)
		b.op([]byte{ADDMOD, MULMOD}[g.intn(2)])
	case r < 62: // comparisons
		c.poolOrVal(b, signPool, d)
		c.poolOrVal(b, signPool, d)
		b.op([]byte{LT, GT, SLT, SGT, EQ}[g.intn(5)])
	case r < 76: // ring arithmetic
		c.poolOrVal(b, genPool, d)
		c.poolOrVal(b, genPool, d)
		b.op([]byte{ADD, MUL, SUB}[g.intn(3)])
	case r < 88:
		c.poolOrVal(b, genPool, d)
		c.poolOrVal(b, signPool, d)
		b.op([]byte{AND, OR, XOR}[g.intn(3)])
	case r < 96:
		c.poolOrVal(b, signPool, d)
		b.op([]byte{ISZERO, NOT}[g.intn(2)])
	default:
		c.leaf(b)
	}
}

// sink consumes the value on top of the stack in an observable way.
func (c *cgen) sink(b *builder) {
	g := c.g
	r := g.intn(100)
	switch {
	case r < 42:
		c.slot(b)
		b.op(SSTORE)
	case r < 67:
		c.smallOff(b)
		b.op(MSTORE)
	case r < 72:
		c.smallOff(b)
		b.op(MSTORE8)
	case r < 82:
		if c.locals > 0 {
			pos := 1 + g.intn(c.locals)
			k := b.h - pos
			if k >= 1 && k <= 16 {
				b.op(byte(SWAP1 + k - 1))
				b.op(POP)
				return
			}
		}
		b.op(POP)
	case r < 90: // as a log topic
		b.pushInt(memSizePool[g.intn(len(memSizePool))])
		c.smallOff(b)
		b.op(LOG0 + 1)
	default:
		b.op(POP)
	}
}

// ---------------------------------------------------------------- statements

func (c *cgen) stSinkExpr(h int) *stmt {
	b := newBuilder("expr", h)
	c.val(b, 1+c.g.intn(3))
	c.sink(b)
	return b.s
}

func (c *cgen) stShuffle(h int) *stmt {
	g := c.g
	b := newBuilder("shuffle", h)
	m := 2 + g.intn(16) // 2..17 own items
	for i := 0; i < m; i++ {
		if g.chance(15) {
			c.val(b, 1)
		} else {
			c.constant(b, big.NewInt(int64(0x101*(i+1))))
		}
	}
	own := m
	for t := 3 + g.intn(12); t > 0; t-- {
		if g.chance(45) && own < 26 {
			k := 1 + g.intn(minInt(own, 16))
			if g.chance(30) {
				k = minInt(own, 16)
			}
			b.op(byte(DUP1 + k - 1))
			own++
		} else if own >= 2 {
			k := 1 + g.intn(minInt(own-1, 16))
			if g.chance(30) {
				k = minInt(own-1, 16)
			}
			b.op(byte(SWAP1 + k - 1))
		}
	}
	fold := []byte{XOR, ADD, SUB, OR, AND, MUL, SUB, XOR}
	for own > 1 {
		b.op(fold[g.intn(len(fold))])
		own--
	}
	c.sink(b)
	return b.s
}

func (c *cgen) stMem(h int) *stmt {
	g := c.g
	b := newBuilder("mem", h)
	big1 := g.chance(6)
	switch g.intn(3) {
	case 0:
		c.val(b, 1)
		if big1 {
			b.pushInt([]int64{0x1000, 0x2000, 0xffe0, 0x10000, 0x1ffe0}[g.intn(5)])
			g.p.tag("memory-growth")
		} else {
			c.smallOff(b)
		}
		b.op(MSTORE)
	case 1:
		c.val(b, 1)
		c.smallOff(b)
		b.op(MSTORE8)
	default:
		if big1 {
			b.pushInt([]int64{0x1000, 0x3000, 0xffff, 0x10000}[g.intn(4)])
			g.p.tag("memory-growth")
		} else {
			c.smallOff(b)
		}
		b.op(MLOAD)
		c.sink(b)
	}
	if g.chance(30) {
		b.op(MSIZE)
		c.sink(b)
	}
	return b.s
}

// hard failing memory access: offset/size whose cost no VM can pay
func (c *cgen) stHugeMem(h int) *stmt {
	g := c.g
	b := newBuilder("hugemem", h)
	g.p.tag("huge-memory-operand")
	switch g.intn(5) {
	case 0:
		c.constant(b, pick(g.rng, hugeMem))
		b.op(MLOAD)
		b.op(POP)
	case 1:
		b.pushInt(1)
		c.constant(b, pick(g.rng, hugeMem))
		b.op(MSTORE)
	case 2:
		c.constant(b, pick(g.rng, hugeMem)) // size
		b.pushInt(0)
		b.op(SHA3)
		b.op(POP)
	case 3:
		c.constant(b, pick(g.rng, hugeMem)) // len
		b.pushInt(0)
		b.pushInt(0)
		b.op(CALLDATACOPY)
	default:
		b.pushInt(1)
		c.constant(b, pick(g.rng, hugeMem))
		b.op(MSTORE8)
	}
	return b.s
}

func (c *cgen) srcOff(b *builder, sizeOp byte) {
	g := c.g
	switch g.intn(8) {
	case 0, 1, 2:
		b.pushInt(int64(g.intn(40)))
	case 3:
		b.op(sizeOp)
	case 4: // size-1 (wraps to 2^256-1 when size is 0)
		b.pushInt(1)
		b.op(sizeOp)
		b.op(SUB)
	case 5:
		b.op(sizeOp)
		b.pushInt(1 + int64(g.intn(40)))
		b.op(ADD)
		c.g.p.tag("copy-out-of-range")
	default:
		c.constant(b, []*big.Int{sub(pow2(64), 1), pow2(64), sub(pow2(64), 31), tt256m1, tt255, pow2(32)}[g.intn(6)])
		c.g.p.tag("copy-out-of-range")
	}
}

func (c *cgen) stCopy(h int) *stmt {
	g := c.g
	b := newBuilder("copy", h)
	ln := memSizePool[g.intn(len(memSizePool))]
	switch g.intn(3) {
	case 0:
		b.pushInt(ln)
		c.srcOff(b, CALLDATASIZE)
		c.smallOff(b)
		b.op(CALLDATACOPY)
	case 1:
		b.pushInt(ln)
		c.srcOff(b, CODESIZE)
		c.smallOff(b)
		b.op(CODECOPY)
	default:
		b.pushInt(ln)
		if g.chance(70) {
			b.pushInt(int64(g.intn(40)))
		} else {
			c.constant(b, []*big.Int{sub(pow2(64), 1), pow2(64), tt256m1, big.NewInt(100000)}[g.intn(4)])
			g.p.tag("copy-out-of-range")
		}
		c.smallOff(b)
		c.addrOperand(b)
		b.op(EXTCODECOPY)
	}
	if g.chance(10) { // zero length with an absurd memory offset: must not expand memory
		b.pushInt(0)
		b.pushInt(int64(g.intn(5)))
		c.constant(b, pick(g.rng, hugeMem))
		b.op([]byte{CALLDATACOPY, CODECOPY}[g.intn(2)])
	}
	return b.s
}

// RETURNDATACOPY against whatever the last call left behind
func (c *cgen) stRetData(h int, allowFail bool) *stmt {
	g := c.g
	b := newBuilder("retdata", h)
	r := g.intn(100)
	switch {
	case r < 45: // everything
		b.op(RETURNDATASIZE)
		b.pushInt(0)
		c.smallOff(b)
		b.op(RETURNDATACOPY)
	case r < 60: // empty copy at the very end: allowed
		b.pushInt(0)
		b.op(RETURNDATASIZE)
		c.smallOff(b)
		b.op(RETURNDATACOPY)
	case r < 88 || !allowFail || c.safe: // zero bytes from offset 0
		b.pushInt(0)
		b.pushInt(0)
		c.smallOff(b)
		b.op(RETURNDATACOPY)
	case r < 92: // one byte past the end: must fail
		b.pushInt(1)
		b.op(RETURNDATASIZE)
		c.smallOff(b)
		b.op(RETURNDATACOPY)
		g.p.tag("returndatacopy-out-of-range")
	case r < 96: // size+1 bytes from 0
		b.op(RETURNDATASIZE)
		b.pushInt(1)
		b.op(ADD)
		b.pushInt(0)
		c.smallOff(b)
		b.op(RETURNDATACOPY)
		g.p.tag("returndatacopy-out-of-range")
	default: // absurd offset, zero length: must fail as well
		b.pushInt(0)
		c.constant(b, []*big.Int{pow2(64), tt256m1, sub(pow2(64), 1)}[g.intn(3)])
		c.smallOff(b)
		b.op(RETURNDATACOPY)
		g.p.tag("returndatacopy-out-of-range")
	}
	b.op(RETURNDATASIZE)
	c.sink(b)
	return b.s
}

func (c *cgen) stLog(h int) *stmt {
	g := c.g
	b := newBuilder("log", h)
	n := g.intn(5)
	for i := 0; i < n; i++ {
		c.val(b, 1)
	}
	if g.chance(8) { // empty data, absurd offset
		b.pushInt(0)
		c.constant(b, pick(g.rng, hugeMem))
	} else {
		b.pushInt(memSizePool[g.intn(len(memSizePool))])
		c.smallOff(b)
	}
	b.op(byte(LOG0 + n))
	g.p.tag("log")
	return b.s
}

func (c *cgen) stIf(h int, depth int) *stmt {
	g := c.g
	b := newBuilder("if", h)
	lElse, lEnd := c.obj.newLabel(), c.obj.newLabel()
	c.val(b, 2)
	b.labelRef(lElse)
	b.op(JUMPI)
	for _, s := range c.block(b.h, 1+g.intn(3), depth+1, true) {
		b.child(s)
	}
	b.labelRef(lEnd)
	if g.chance(25) { // computed destination
		b.pushInt(0)
		b.op([]byte{OR, ADD, XOR}[g.intn(3)])
	}
	b.op(JUMP)
	b.label(lElse)
	for _, s := range c.block(b.h, 1+g.intn(3), depth+1, true) {
		b.child(s)
	}
	b.label(lEnd)
	return b.s
}

func (c *cgen) stLoop(h int, depth int) *stmt {
	g := c.g
	b := newBuilder("loop", h)
	top := c.obj.newLabel()
	n := 1 + g.intn(6)
	b.pushInt(int64(n))
	b.label(top)
	c.loopDepth++
	for _, s := range c.block(b.h, 1+g.intn(3), depth+1, false) {
		b.child(s)
	}
	c.loopDepth--
	b.pushInt(1)
	b.op(SWAP1)
	b.op(SUB)
	b.op(DUP1)
	b.labelRef(top)
	b.op(JUMPI)
	b.op(POP)
	g.p.tag("loop")
	return b.s
}

// jumps that are valid although the surrounding bytes try to mislead the
// jump-destination analysis, and (unless safe) the mirror image that is invalid
func (c *cgen) stTrickyJump(h int) *stmt {
	g := c.g
	b := newBuilder("trickyjump", h)
	l := c.obj.newLabel()
	b.labelRef(l)
	b.op(JUMP)
	if c.safe || g.chance(70) {
		// dead code: a full PUSHn whose data is full of JUMPDEST / PUSH bytes; the real JUMPDEST follows
		n := 1 + g.intn(32)
		d := make([]byte, n+1)
		d[0] = byte(PUSH1 + n - 1)
		for i := 1; i <= n; i++ {
			d[i] = []byte{JUMPDEST, PUSH1, PUSH32, 0x7e, JUMPDEST, 0x00}[g.intn(6)]
		}
		b.raw(d)
		b.label(l)
		g.p.tag("jumpdest-after-push-data")
	} else {
		// the only JUMPDEST is the data byte of a PUSH: jumping there must fail
		n := 1 + g.intn(4)
		d := []byte{byte(PUSH1 + n - 1)}
		if n > 1 {
			d = append(d, make([]byte, n-1)...)
		}
		b.raw(d)
		b.label(l) // this JUMPDEST byte is the last data byte of the PUSH above
		b.op(STOP)
		g.p.tag("jumpdest-inside-push-data")
	}
	return b.s
}

func (c *cgen) stBadJump(h int) *stmt {
	g := c.g
	b := newBuilder("badjump", h)
	l := c.obj.newLabel()
	useJumpi := g.chance(40)
	cond := func() {
		if useJumpi {
			b.pushInt(1 + int64(g.intn(3)))
		}
	}
	jmp := func() {
		if useJumpi {
			b.op(JUMPI)
		} else {
			b.op(JUMP)
		}
	}
	switch g.intn(6) {
	case 0: // JUMPDEST byte inside push data
		cond()
		b.labelRef(l)
		jmp()
		b.rawLabel([]byte{PUSH1 + 2, 0x00, JUMPDEST, 0x00, POP}, l, 2)
		g.p.tag("jumpdest-inside-push-data")
	case 1: // not a JUMPDEST
		cond()
		b.labelRef(l)
		jmp()
		b.rawLabel([]byte{PC, POP}, l, 0)
	case 2: // beyond the code
		cond()
		b.pushInt(0xfff0 + int64(g.intn(15)))
		jmp()
	case 3: // valid position + 2^64 or 2^32: must not be truncated
		cond()
		b.labelRef(l)
		c.constant(b, []*big.Int{pow2(64), pow2(32), pow2(63), pow2(255)}[g.intn(4)])
		b.op(ADD)
		jmp()
		b.label(l)
	case 4:
		cond()
		c.constant(b, []*big.Int{tt256m1, pow2(64), sub(pow2(64), 1), tt255}[g.intn(4)])
		jmp()
	default: // JUMPI with false condition and a bad destination: must fall through
		b.pushInt(0)
		b.pushInt(0xfff0)
		b.op(JUMPI)
	}
	g.p.tag("invalid-jump")
	return b.s
}

// ---------------------------------------------------------------- calls

type target struct {
	a        addr
	kind     string // contract, back, precompile, eoa, empty, nonexist, recursor, other
	idx      int
	useStack bool // address is on the stack (created contract)
}

func (c *cgen) pickTarget(op byte) target {
	g := c.g
	p := g.p
	restrictStatic := p.ByzOnly && op == STATICCALL
	for try := 0; try < 8; try++ {
		r := g.intn(100)
		switch {
		case r < 52:
			if c.rank+1 < p.NContr && !restrictStatic {
				j := c.rank + 1 + g.intn(p.NContr-c.rank-1)
				return target{a: contractAddr(j), kind: "contract", idx: j}
			}
		case r < 66:
			if p.ByzOnly || (p.Era == eraByzantium && g.chance(40)) {
				i := 5 + g.intn(4)
				if g.chance(25) {
					i = 1 + g.intn(4)
				}
				return target{a: precompileAddr(i), kind: "precompile", idx: i}
			}
			i := 1 + g.intn(4)
			return target{a: precompileAddr(i), kind: "precompile", idx: i}
		case r < 72:
			if c.rank >= 0 && !restrictStatic {
				j := g.intn(minInt(c.rank+1, p.NContr))
				return target{a: contractAddr(j), kind: "back", idx: j}
			}
		case r < 75:
			return target{a: eoaAddr, kind: "eoa"}
		case r < 81:
			return target{a: emptyAddr, kind: "empty"}
		case r < 88:
			return target{a: nonexistAddr, kind: "nonexist"}
		case r < 94:
			if p.HasRecur && !(p.ByzOnly && op == STATICCALL) {
				return target{a: recursorAddr, kind: "recursor"}
			}
		case r < 96:
			return target{a: senderAddr, kind: "eoa"}
		case r < 98:
			return target{a: precompileAddr(9 + g.intn(3)), kind: "other"} // just above the precompile range
		default:
			return target{a: coinbaseAddr, kind: "other"}
		}
	}
	return target{a: eoaAddr, kind: "eoa"}
}

func (c *cgen) gasOperand(b *builder) {
	g := c.g
	r := g.intn(100)
	switch {
	case r < 84:
		b.push(callGasConst(c.rank))
	case r < 94:
		b.op(GAS)
	default:
		c.constant(b, []*big.Int{tt256m1, pow2(64), sub(pow2(64), 1)}[g.intn(3)])
	}
}

func (c *cgen) callValue(b *builder) {
	g := c.g
	r := g.intn(100)
	switch {
	case r < 62:
		b.pushInt(0)
	case r < 76:
		b.pushInt(1)
		g.p.tag("value-transfer")
	case r < 88:
		b.pushInt(int64(2 + g.intn(2000)))
		g.p.tag("value-transfer")
	case r < 92: // everything this account owns
		b.op(ADDRESS)
		b.op(BALANCE)
		g.p.tag("value-transfer")
	default: // more than it owns: the call must fail without running
		c.constant(b, []*big.Int{tt256m1, pow2(200), pow2(255)}[g.intn(3)])
		g.p.tag("value-exceeds-balance")
	}
}

// emitCall emits the operands and the call; t.useStack: the callee address is
// the stack item at absolute position addrPos.
func (c *cgen) emitCall(b *builder, op byte, t target, addrPos int, inOff, inSize int64) {
	g := c.g
	retSize := []int64{0, 0, 1, 32, 32, 64, 96, 200}[g.intn(8)]
	retOff := []int64{0x100, 0x120, 0x00, 0x20, 0x1c0}[g.intn(5)]
	b.pushInt(retSize)
	b.pushInt(retOff)
	b.pushInt(inSize)
	b.pushInt(inOff)
	if op == CALL || op == CALLCODE {
		c.callValue(b)
	}
	if t.useStack {
		k := b.h - addrPos + 1
		b.op(byte(DUP1 + k - 1))
	} else {
		v := t.a.big()
		if g.chance(10) {
			hi := new(big.Int).Lsh(randWord(g.rng), 160)
			hi.Mod(hi, tt256)
			b.pushW(new(big.Int).Or(hi, v), 32)
		} else {
			b.push(v)
		}
	}
	c.gasOperand(b)
	b.op(op)
}

func (c *cgen) afterCall(b *builder) {
	g := c.g
	c.sink(b) // success flag
	if g.chance(45) {
		b.child(c.stRetData(b.h, true))
	}
	if g.chance(30) {
		b.pushInt([]int64{0x100, 0x120, 0x00}[g.intn(3)])
		b.op(MLOAD)
		c.sink(b)
	}
}

func pickCallOp(g *gen) byte {
	r := g.intn(100)
	switch {
	case r < 38:
		return CALL
	case r < 52:
		return CALLCODE
	case r < 74:
		return DELEGATECALL
	default:
		return STATICCALL
	}
}

func (c *cgen) stCall(h int) *stmt {
	g := c.g
	b := newBuilder("call", h)
	op := pickCallOp(g)
	t := c.pickTarget(op)
	if c.forceForward && c.rank+1 < g.p.NContr && !(g.p.ByzOnly && op == STATICCALL) {
		j := c.rank + 1 + g.intn(g.p.NContr-c.rank-1)
		t = target{a: contractAddr(j), kind: "contract", idx: j}
	}
	c.forceForward = false
	c.ncalls++
	g.p.tag("call:" + opTable[op].name)
	var inOff, inSize int64
	switch t.kind {
	case "precompile":
		blobData := c.precompileInput(t.idx)
		bi := len(c.obj.blobs)
		c.obj.blobs = append(c.obj.blobs, &blob{raw: blobData})
		inOff = []int64{0x200, 0x220, 0x201}[g.intn(3)]
		b.blobLen(bi)
		b.blobOff(bi)
		b.pushInt(inOff)
		b.op(CODECOPY)
		inSize = int64(len(blobData))
		if g.chance(15) && inSize > 0 { // truncated or over-long input
			inSize = int64(g.intn(int(inSize) + 40))
		}
		if t.idx >= 5 {
			g.p.tag("precompile-5-8")
		} else {
			g.p.tag("precompile-1-4")
		}
		g.p.tag("precompile:" + itoa(t.idx))
	case "back":
		inSize = 0 // empty call data selects the callee's call-free path: recursion ends here
		g.p.tag("reentrant-call")
	case "recursor":
		n := int64(1 + g.intn(12))
		if g.chance(15) {
			n = int64(20 + g.intn(40))
		}
		b.pushInt(n)
		b.pushInt(0x200)
		b.op(MSTORE)
		inOff, inSize = 0x200, 32
		g.p.tag("recursion")
	default:
		nw := g.intn(3)
		inOff = []int64{0x200, 0x204, 0x21f}[g.intn(3)]
		for i := 0; i < nw; i++ {
			c.val(b, 1)
			b.pushInt(0x200 + int64(32*i))
			b.op(MSTORE)
		}
		inSize = []int64{0, 1, 4, 32, 36, 64, 68, 100}[g.intn(8)]
		if t.kind == "empty" || t.kind == "nonexist" {
			g.p.tag("touches-empty-account")
		}
	}
	c.emitCall(b, op, t, 0, inOff, inSize)
	c.afterCall(b)
	return b.s
}

// ---------------------------------------------------------------- creates

// runtime code of created contracts: call-free
func (c *cgen) genRuntime() *codeObj {
	g := c.g
	obj := &codeObj{}
	rc := &cgen{g: g, obj: obj, rank: 99, safe: true}
	n := 1 + g.intn(4)
	obj.body = append(obj.body, rc.block(0, n, 1, false)...)
	obj.body = append(obj.body, rc.terminator(0, true))
	return obj
}

func (c *cgen) genInit() *codeObj {
	g := c.g
	obj := &codeObj{}
	ic := &cgen{g: g, obj: obj, rank: c.rank, initDepth: c.initDepth + 1}
	ic.safe = g.chance(92)
	ic.calls = c.calls && c.initDepth == 0 && g.chance(40)
	ic.creates = c.initDepth == 0 && g.chance(25)
	n := g.intn(4)
	obj.body = append(obj.body, ic.block(0, n, 1, false)...)
	b := newBuilder("init-end", 0)
	r := g.intn(100)
	switch {
	case r < 58: // deploy generated runtime code
		rt := c.genRuntime()
		bi := len(obj.blobs)
		obj.blobs = append(obj.blobs, &blob{obj: rt})
		b.blobLen(bi)
		b.blobOff(bi)
		b.pushInt(0)
		b.op(CODECOPY)
		b.blobLen(bi)
		b.pushInt(0)
		b.op(RETURN)
		g.p.tag("create-returns-code")
	case r < 66: // empty code
		b.pushInt(0)
		b.pushInt(0)
		b.op(RETURN)
	case r < 73: // whatever is in memory
		b.pushInt(int64(1 + g.intn(64)))
		b.pushInt(int64(g.intn(64)))
		b.op(RETURN)
		g.p.tag("create-returns-code")
	case r < 77: // EIP-170: 24576 is the largest allowed size
		sz := []int64{24576, 24577, 24577, 30000}[g.intn(4)]
		b.pushInt(sz)
		b.pushInt(0)
		b.op(RETURN)
		if sz > 24576 {
			g.p.tag("oversize-code")
		} else {
			g.p.tag("max-size-code")
		}
		g.p.tag("create-returns-code")
	case r < 86:
		b.pushInt(memSizePool[g.intn(len(memSizePool))])
		b.pushInt(0)
		b.op(REVERT)
		g.p.tag("create-reverts")
	case r < 90:
		b.op(STOP)
	case r < 94:
		c.addrOperand(b)
		b.op(SELFDESTRUCT)
		g.p.tag("selfdestruct-in-init")
	default:
		if ic.safe {
			b.op(STOP)
		} else {
			b.raw([]byte{INVALID})
			g.p.tag("create-fails-hard")
		}
	}
	obj.body = append(obj.body, b.s)
	return obj
}

func (c *cgen) stCreate(h int) *stmt {
	g := c.g
	b := newBuilder("create", h)
	c.ncreates++
	init := c.genInit()
	bi := len(c.obj.blobs)
	c.obj.blobs = append(c.obj.blobs, &blob{obj: init})
	memOff := int64(0x400 + 0x20*g.intn(4))
	b.blobLen(bi)
	b.blobOff(bi)
	b.pushInt(memOff)
	b.op(CODECOPY)
	op := byte(CREATE)
	if g.chance(40) {
		op = CREATE2
		c.constant(b, []*big.Int{big.NewInt(0), big.NewInt(1), tt256m1, randWord(g.rng)}[g.intn(4)]) // salt
	}
	// size
	switch r := g.intn(100); {
	case r < 88:
		b.blobLen(bi)
	case r < 94:
		b.pushInt(0) // empty init code
	default:
		b.pushInt(int64(1 + g.intn(12))) // a prefix of the init code
	}
	b.pushInt(memOff)
	// endowment
	switch r := g.intn(100); {
	case r < 70:
		b.pushInt(0)
	case r < 90:
		b.pushInt(int64(1 + g.intn(500)))
		g.p.tag("create-with-value")
	default:
		c.constant(b, []*big.Int{tt256m1, pow2(200)}[g.intn(2)])
		g.p.tag("value-exceeds-balance")
	}
	b.op(op)
	g.p.tag("creates")
	g.p.tag("create:" + opTable[op].name)
	if c.rank >= 0 || c.initDepth > 0 {
		g.p.tag("create-in-callee-or-init")
	}
	addrPos := b.h
	// record the address, look at the new account, maybe call it
	b.op(DUP1)
	c.sink(b)
	if g.chance(50) {
		b.op(DUP1)
		b.op([]byte{EXTCODESIZE, EXTCODEHASH, BALANCE}[g.intn(3)])
		c.sink(b)
	}
	if g.chance(55) {
		cop := pickCallOp(g)
		if g.p.ByzOnly && cop == STATICCALL {
			cop = CALL
		}
		nw := g.intn(2)
		for i := 0; i < nw; i++ {
			c.val(b, 1)
			b.pushInt(0x200 + int64(32*i))
			b.op(MSTORE)
		}
		c.emitCall(b, cop, target{useStack: true}, addrPos, 0x200, []int64{0, 4, 32, 64}[g.intn(4)])
		c.afterCall(b)
		g.p.tag("calls-created-contract")
	}
	if op == CREATE2 && g.chance(12) {
		g.p.tag("create2-collision-attempt")
	}
	b.op(POP)
	return b.s
}

// ---------------------------------------------------------------- terminators

func (c *cgen) terminator(h int, soft bool) *stmt {
	g := c.g
	b := newBuilder("end", h)
	r := g.intn(100)
	if (soft || g.chance(45)) && r >= 82 {
		r = g.intn(82)
	}
	switch {
	case r < 50:
		b.pushInt([]int64{0, 1, 31, 32, 32, 33, 64, 64, 100, 0x200, 0x1000}[g.intn(11)])
		c.smallOff(b)
		b.op(RETURN)
	case r < 58:
		b.op(STOP)
	case r < 74:
		b.pushInt([]int64{0, 1, 32, 33, 64, 100, 0x200}[g.intn(7)])
		c.smallOff(b)
		b.op(REVERT)
		g.p.tag("revert")
	case r < 82:
		if g.chance(25) {
			c.val(b, 1)
		} else {
			c.addrOperand(b)
		}
		b.op(SELFDESTRUCT)
		g.p.tag("selfdestruct")
	case r < 86:
		b.raw([]byte{INVALID})
		g.p.tag("invalid-opcode")
	case r < 89:
		b.raw([]byte{[]byte{0x0c, 0x0f, 0x1e, 0x21, 0x2f, 0x46, 0x4f, 0x5c, 0x5f, 0xa5, 0xb0, 0xef, 0xf6, 0xfb, 0xfc}[g.intn(15)]})
		g.p.tag("invalid-opcode")
	case r < 92: // stack underflow
		d := make([]byte, h+1)
		for i := range d {
			d[i] = POP
		}
		if g.chance(50) {
			d[h] = []byte{ADD, MSTORE, DUP1 + 1, SWAP1, SSTORE, LT}[g.intn(6)] // all need two items
			if h > 0 {
				d = d[1:] // one item left
			}
		}
		b.raw(d)
		g.p.tag("stack-underflow")
	case r < 94: // stack overflow: push until the 1024 limit
		l := c.obj.newLabel()
		b.label(l)
		b.raw([]byte{PUSH1, 0x00})
		b.labelRef(l)
		b.op(JUMP)
		g.p.tag("stack-overflow")
	case r < 97:
		b.child(c.stBadJump(h))
	default:
		// nothing: run off the end of the code (the assembler appends STOP)
	}
	return b.s
}

// ---------------------------------------------------------------- blocks

func (c *cgen) block(h int, n int, depth int, allowEnd bool) []*stmt {
	g := c.g
	var out []*stmt
	for i := 0; i < n; i++ {
		r := g.intn(1000)
		var s *stmt
		switch {
		case r < 330:
			s = c.stSinkExpr(h)
		case r < 390:
			s = c.stShuffle(h)
		case r < 450:
			s = c.stMem(h)
		case r < 530:
			s = c.stCopy(h)
		case r < 575:
			s = c.stLog(h)
		case r < 600:
			s = c.stRetData(h, false)
		case r < 680:
			if depth < 3 {
				s = c.stIf(h, depth)
			}
		case r < 720:
			if depth < 3 && c.loopDepth < 2 {
				s = c.stLoop(h, depth)
			}
		case r < 870:
			if c.calls && c.ncalls < 5 && (c.loopDepth == 0 || (c.loopDepth == 1 && c.rank >= g.p.NContr-1)) {
				s = c.stCall(h)
			}
		case r < 930:
			if c.creates && !g.p.ByzOnly && c.ncreates < 2 && c.loopDepth == 0 {
				s = c.stCreate(h)
			}
		case r < 955:
			s = c.stTrickyJump(h)
		case r < 963:
			if !c.safe && allowEnd {
				s = c.stBadJump(h)
			}
		case r < 968:
			if !c.safe && allowEnd {
				s = c.stHugeMem(h)
			}
		case r < 985:
			if allowEnd && depth > 1 {
				s = c.terminator(h, c.safe)
			}
		}
		if s == nil {
			s = c.stSinkExpr(h)
		}
		out = append(out, s)
	}
	return out
}

// genContract builds the code of a pre-installed contract (or of the top-level
// init code when isInit).
func (g *gen) genContract(rank int, nstmts int) *codeObj {
	obj := &codeObj{}
	c := &cgen{g: g, obj: obj, rank: rank, calls: true, creates: true}
	c.safe = g.chance(50)
	// prologue: locals
	pro := newBuilder("prologue", 0)
	pro.s.tag = "prologue"
	c.locals = g.intn(4)
	for i := 0; i < c.locals; i++ {
		switch g.intn(4) {
		case 0:
			pro.pushInt(int64(32 * g.intn(3)))
			pro.op(CALLDATALOAD)
		case 1:
			pro.op([]byte{CALLER, ADDRESS, CALLVALUE, CALLDATASIZE}[g.intn(4)])
		default:
			c.constant(pro, pick(g.rng, genPool))
		}
	}
	obj.body = append(obj.body, pro.s)
	h := c.locals
	// guard: empty call data takes the call-free path (ends reentrant calls)
	lSimple := obj.newLabel()
	gd := newBuilder("guard", h)
	gd.op(CALLDATASIZE)
	gd.op(ISZERO)
	gd.labelRef(lSimple)
	gd.op(JUMPI)
	gd.s.tag = "pinned"
	obj.body = append(obj.body, gd.s)
	main := c.block(h, nstmts, 1, true)
	if rank+1 < g.p.NContr && g.chance(75) { // make sure call chains through the ranks are common
		c.forceForward = true
		at := g.intn(len(main) + 1)
		main = append(main[:at], append([]*stmt{c.stCall(h)}, main[at:]...)...)
	}
	obj.body = append(obj.body, main...)
	obj.body = append(obj.body, c.terminator(h, false))
	sp := newBuilder("pinned", h)
	sp.label(lSimple)
	obj.body = append(obj.body, sp.s)
	sc := &cgen{g: g, obj: obj, rank: rank, locals: c.locals, safe: g.chance(60)}
	obj.body = append(obj.body, sc.block(h, 1+g.intn(4), 1, true)...)
	obj.body = append(obj.body, sc.terminator(h, false))
	return obj
}

// genRecursor: a contract that calls itself n-1 more times, n taken from the
// first call data word (masked to 11 bits): bounded recursion by construction.
func (g *gen) genRecursor(deep bool) *codeObj {
	obj := &codeObj{}
	c := &cgen{g: g, obj: obj, rank: 99, safe: true}
	lDone := obj.newLabel()
	b := newBuilder("pinned", 0)
	b.pushInt(0)
	b.op(CALLDATALOAD)
	b.pushInt(0x7ff)
	b.op(AND)
	b.op(DUP1)
	b.op(ISZERO)
	b.labelRef(lDone)
	b.op(JUMPI)
	b.pushInt(1)
	b.op(SWAP1)
	b.op(SUB)
	b.op(DUP1)
	b.pushInt(0x200)
	b.op(MSTORE) // stack: [n-1]
	nb := 0
	if !deep {
		nb = g.intn(3)
	}
	for _, s := range c.block(b.h, nb, 2, false) {
		b.child(s)
	}
	op := pickCallOp(g)
	if g.p.ByzOnly && op == STATICCALL {
		op = CALL
	}
	g.p.tag("recursor:" + opTable[op].name)
	b.pushInt(32) // ret size
	b.pushInt(0x220)
	b.pushInt(32) // in size
	b.pushInt(0x200)
	if op == CALL || op == CALLCODE {
		b.pushInt(int64(g.intn(2)))
	}
	// its own fixed address, not ADDRESS: when this code runs under DELEGATECALL/CALLCODE in
	// another contract's context, ADDRESS would call that contract and break the rank order
	b.pushW(recursorAddr.big(), 20)
	b.op(GAS)
	b.op(op)
	// stack: [n-1, ok]; fold the result of the inner call into the answer
	b.pushInt(0x220)
	b.op(MLOAD)
	b.op(ADD)
	b.op(ADD)
	b.pushInt(0x240)
	b.op(MSTORE)
	if !deep && g.chance(50) {
		b.child(c.stSinkExpr(b.h))
	}
	// odd levels may revert instead of returning
	endKind := g.intn(3)
	b.pushInt(32)
	b.pushInt(0x240)
	if endKind == 0 {
		b.op(REVERT)
	} else {
		b.op(RETURN)
	}
	b.label(lDone)
	b.op(POP)
	b.pushInt(1)
	b.pushInt(0x240)
	b.op(MSTORE)
	b.pushInt(32)
	b.pushInt(0x240)
	b.op(RETURN)
	obj.body = append(obj.body, b.s)
	return obj
}

func minInt(a, b int) int {
	if a < b {
		return a
	}
	return b
}

func word(v *big.Int) [32]byte {
	var w [32]byte
	b := v.Bytes()
	copy(w[32-len(b):], b)
	return w
}

// genProgram builds program number n of the run (deterministic in seed, n).
func genProgram(rng *rand.Rand, id int64) *program {
	p := &program{ID: id, Tags: map[string]bool{}, Value: new(big.Int)}
	g := &gen{rng: rng, p: p}
	// era / block number
	switch r := g.intn(100); {
	case r < 74:
		p.Era = eraFrontier
		p.Block = []int64{1, 2, 1000, 300000, 1149999}[g.intn(5)]
	case r < 79:
		p.Era = eraHomestead
		p.Block = []int64{1150000, 2000000}[g.intn(2)]
	case r < 83:
		p.Era = eraEIP150
		p.Block = []int64{2463000, 2600000}[g.intn(2)]
	case r < 89:
		p.Era = eraEIP158
		p.Block = []int64{2675000, 4369999}[g.intn(2)]
	default:
		p.Era = eraByzantium
		p.Block = []int64{4370000, 5000000, 7280000, 12000000}[g.intn(4)]
	}
	p.tag("era:" + eraNames[p.Era])
	if p.Era < eraByzantium && g.chance(13) {
		p.ByzOnly = true
		p.tag("byzantium-precompiles-under-older-rules")
	}
	p.NContr = 2 + g.intn(3)
	deep := !p.ByzOnly && g.intn(250) == 0 // probe the 1024 call depth limit
	p.HasRecur = deep || g.chance(30)

	bal := func() *big.Int {
		return []*big.Int{big.NewInt(0), big.NewInt(1), big.NewInt(1000), big.NewInt(123456789), pow2(60)}[g.intn(5)]
	}
	storage := func() []slotVal {
		var s []slotVal
		seen := map[[32]byte]bool{}
		for i := g.intn(4); i > 0; i-- {
			k := word(pick(g.rng, slotPool))
			if seen[k] {
				continue
			}
			seen[k] = true
			v := word(pick(g.rng, genPool))
			if v == ([32]byte{}) {
				v[31] = 7
			}
			s = append(s, slotVal{k, v})
		}
		return s
	}
	p.Accts = append(p.Accts, &acct{Role: "sender", Addr: senderAddr, Balance: pow2(80), Nonce: uint64(g.intn(3))})
	p.Accts = append(p.Accts, &acct{Role: "eoa", Addr: eoaAddr, Balance: big.NewInt(5000), Nonce: 1})
	p.Accts = append(p.Accts, &acct{Role: "empty", Addr: emptyAddr, Balance: new(big.Int)})
	// contracts are generated from the highest rank down so that tags of callees exist first (no dependency, just order)
	for i := 0; i < p.NContr; i++ {
		a := &acct{Role: "contract" + itoa(i), Addr: contractAddr(i), Balance: bal(), Nonce: uint64(g.intn(2)), Storage: storage()}
		a.Code = g.genContract(i, 3+g.intn(10))
		p.Accts = append(p.Accts, a)
	}
	if p.HasRecur {
		a := &acct{Role: "recursor", Addr: recursorAddr, Balance: bal(), Nonce: 1, Storage: storage()}
		a.Code = g.genRecursor(deep)
		p.Accts = append(p.Accts, a)
	}
	// top-level operation
	r := g.intn(100)
	switch {
	case deep:
		p.TopKind = topCall
		p.To = recursorAddr
		w := word(big.NewInt(int64(1020 + g.intn(20))))
		p.Data = w[:]
		p.tag("depth-limit")
	case r < 84 || p.ByzOnly:
		p.TopKind = topCall
		p.To = contractAddr(0)
		if g.chance(6) {
			p.To = contractAddr(g.intn(p.NContr))
		}
		n := []int{0, 1, 4, 32, 36, 64, 68, 100}[g.intn(8)]
		if g.chance(88) && n == 0 {
			n = 4 + g.intn(60)
		}
		p.Data = randBytes(g.rng, n)
		if n >= 32 && g.chance(50) { // a small first word
			w := word(big.NewInt(int64(g.intn(300))))
			copy(p.Data, w[:])
		}
		if g.chance(20) {
			p.Value = big.NewInt(int64(1 + g.intn(100000)))
			p.tag("top-level-value")
		}
	default:
		p.TopKind = topCreate
		if r >= 94 {
			p.TopKind = topCreate2
			p.Salt = randWord(g.rng)
			p.tag("top-level:create2")
		} else {
			p.tag("top-level:create")
		}
		obj := &codeObj{}
		c := &cgen{g: g, obj: obj, rank: -1, calls: true, creates: true, safe: g.chance(60)}
		obj.body = append(obj.body, c.block(0, 2+g.intn(6), 1, true)...)
		// end of the top-level init code: mostly deploy something
		end := newBuilder("init-end", 0)
		switch e := g.intn(100); {
		case e < 60:
			rt := c.genRuntime()
			bi := len(obj.blobs)
			obj.blobs = append(obj.blobs, &blob{obj: rt})
			end.blobLen(bi)
			end.blobOff(bi)
			end.pushInt(0)
			end.op(CODECOPY)
			end.blobLen(bi)
			end.pushInt(0)
			end.op(RETURN)
			p.tag("create-returns-code")
		case e < 68:
			sz := []int64{24576, 24577, 24577, 40000}[g.intn(4)]
			end.pushInt(sz)
			end.pushInt(0)
			end.op(RETURN)
			if sz > 24576 {
				p.tag("oversize-code")
			} else {
				p.tag("max-size-code")
			}
		case e < 78:
			end.pushInt(int64(g.intn(100)))
			end.pushInt(0)
			end.op(RETURN)
		case e < 88:
			end.pushInt(int64(g.intn(100)))
			end.pushInt(0)
			end.op(REVERT)
		case e < 94:
			end.op(STOP)
		default:
			end.raw([]byte{INVALID})
		}
		obj.body = append(obj.body, end.s)
		p.Init = obj
		if g.chance(25) {
			p.Value = big.NewInt(int64(1 + g.intn(100000)))
			p.tag("top-level-value")
		}
		p.tag("creates")
	}
	if p.TopKind == topCall {
		p.tag("top-level:call")
	}
	return p
}
