package main

import (
	"math/big"
	"strings"
)

// rec is the VM-independent part of the tracer: both VMs' Tracer
// implementations forward every step to it.

type frame struct {
	entryOp  byte // opcode that opened the frame (0 for the top-level frame)
	static   bool // STATICCALL somewhere above
	viaCall  bool // a CALL-family opcode somewhere above: in-tree such frames start with contract.Gas = 0 (+stipend)
	isInit   bool // frame runs init code (opened by CREATE/CREATE2 or a top-level create)
	lastOp   byte
	lastAddr addr
}

type s16Event struct {
	Step    int
	Depth   int
	ViaCall bool
	Size    uint64
	Gas     uint64
}

// stepRec: one traced step in diagnosis mode, 16 bytes. Digest covers depth,
// pc, opcode, executing address, error class, the stack (gas operand of calls
// masked) and the memory, so equal digests mean equal steps.
type stepRec struct {
	Digest uint64
	PC     uint32
	Depth  uint16
	Op     uint8
	ErrIdx uint8 // index into rec.errNames, 0 = no error
}

const maxSteps = 3000000

type addrAt struct {
	step int
	a    addr
}

func (r *rec) errAt(i int) string {
	if e := r.trace[i].ErrIdx; e > 0 {
		return r.errNames[e-1]
	}
	return ""
}

func (r *rec) addrAtStep(i int) addr {
	var a addr
	for _, x := range r.addrTrace {
		if x.step > i {
			break
		}
		a = x.a
	}
	return a
}

type rec struct {
	topIsCreate bool
	ops         [256]uint32
	steps       int
	maxDepth    int
	frames      []frame
	errs        map[string]int
	addrs       map[addr]struct{}
	created     map[addr]struct{} // non-zero results of CREATE/CREATE2
	s16         []s16Event
	tags        map[string]bool
	minGas      uint64 // smallest gas seen at a step (references: real remaining gas)
	runaway     bool
	oversize    bool // RETURN of more than 24576 bytes from an init frame
	diag        bool
	trace       []stepRec
	errNames    []string
	addrTrace   []addrAt // executing address, recorded whenever it changes
	lastCreated bool
}

func newRec(topIsCreate, diag bool) *rec {
	return &rec{topIsCreate: topIsCreate, errs: map[string]int{}, addrs: map[addr]struct{}{}, created: map[addr]struct{}{}, tags: map[string]bool{}, minGas: ^uint64(0), diag: diag}
}

func normErr(err error) string {
	if err == nil {
		return ""
	}
	s := err.Error()
	// strip the variable parts ("invalid jump destination (PUSH1) 12", "stack underflow (0 <=> 2)", "invalid opcode 0xfe")
	for _, cut := range []string{" (", " 0x"} {
		if i := strings.Index(s, cut); i > 0 {
			s = s[:i]
		}
	}
	return s
}

func fnv(h uint64, b []byte) uint64 {
	for _, c := range b {
		h ^= uint64(c)
		h *= 1099511628211
	}
	return h
}

// step is called for every CaptureState / CaptureFault. pre: the state is the
// one before the opcode executes (CaptureState without error).
// Returns true when the run must be cancelled.
func (r *rec) step(depth int, pc uint64, op byte, gas uint64, a addr, stack []*big.Int, mem []byte, err error, fault bool) bool {
	r.steps++
	if r.steps > maxSteps {
		r.runaway = true
		return true
	}
	// frame bookkeeping
	for len(r.frames) > depth {
		r.frames = r.frames[:len(r.frames)-1]
	}
	for len(r.frames) < depth {
		f := frame{}
		if n := len(r.frames); n > 0 {
			par := r.frames[n-1]
			f.entryOp = par.lastOp
			f.static = par.static || par.lastOp == STATICCALL
			f.viaCall = par.viaCall || isCallOp(par.lastOp)
			f.isInit = isCreateOp(par.lastOp)
		} else {
			f.isInit = r.topIsCreate
		}
		r.frames = append(r.frames, f)
	}
	if depth > r.maxDepth {
		r.maxDepth = depth
	}
	if depth == 0 {
		return false
	}
	f := &r.frames[depth-1]
	if _, ok := r.addrs[a]; !ok {
		r.addrs[a] = struct{}{}
	}
	if gas < r.minGas {
		r.minGas = gas
	}
	if r.diag {
		h := uint64(14695981039346656037)
		n := len(stack)
		if isCallOp(op) && n > 0 {
			n-- // the gas operand is not compared
		}
		for i := 0; i < n; i++ {
			h = fnv(h, stack[i].Bytes())
			h = fnv(h, []byte{0xff})
		}
		h = fnv(h, []byte{byte(len(mem)), byte(len(mem) >> 8), byte(len(mem) >> 16)})
		if len(mem) <= 8192 {
			h = fnv(h, mem)
		} else { // attribution aid only: sample large memories
			h = fnv(h, mem[:4096])
			h = fnv(h, mem[len(mem)-4096:])
		}
		es := normErr(err)
		if fault {
			es = "fault:" + es
		}
		ei := 0
		if es != "" {
			for i, e := range r.errNames {
				if e == es {
					ei = i + 1
				}
			}
			if ei == 0 && len(r.errNames) < 250 {
				r.errNames = append(r.errNames, es)
				ei = len(r.errNames)
			}
			h = fnv(h, []byte(es))
		}
		h = fnv(h, a[:])
		h = fnv(h, []byte{op, byte(depth), byte(depth >> 8), byte(pc), byte(pc >> 8), byte(pc >> 16)})
		r.trace = append(r.trace, stepRec{Digest: h, PC: uint32(pc), Depth: uint16(depth), Op: op, ErrIdx: uint8(ei)})
		if len(r.addrTrace) == 0 || r.addrTrace[len(r.addrTrace)-1].a != a {
			r.addrTrace = append(r.addrTrace, addrAt{len(r.trace) - 1, a})
		}
	}
	if err != nil {
		r.errs[normErr(err)]++
		return false
	}
	if fault {
		return false
	}
	// an opcode that is about to execute
	r.ops[op]++
	n := len(stack)
	if isCreateOp(f.lastOp) && n > 0 { // result of the CREATE this frame executed last: the new address (or 0)
		var ca addr
		cb := stack[n-1].Bytes()
		if len(cb) <= 20 {
			copy(ca[20-len(cb):], cb)
			r.addrs[ca] = struct{}{}
			if ca != (addr{}) {
				r.created[ca] = struct{}{}
			}
		}
	}
	f.lastOp = op
	back := func(i int) *big.Int { return stack[n-1-i] }
	switch {
	case op == RETURN && f.isInit && n >= 2:
		sz := back(1)
		if sz.Sign() > 0 && sz.IsUint64() {
			s := sz.Uint64()
			if s > 24576 {
				r.oversize = true
			}
			if s < 1<<32 && gas < 200*s {
				r.s16 = append(r.s16, s16Event{Step: r.steps, Depth: depth, ViaCall: f.viaCall, Size: s, Gas: gas})
			}
		}
	case isCallOp(op) && n >= 6:
		t := back(1)
		var ta addr
		tb := t.Bytes()
		if len(tb) > 20 {
			tb = tb[len(tb)-20:]
		}
		copy(ta[20-len(tb):], tb)
		r.addrs[ta] = struct{}{}
		switch {
		case ta == emptyAddr || ta == nonexistAddr:
			r.tags["dyn:call-to-empty-or-missing-account"] = true
		case ta[19] >= 1 && ta[19] <= 4 && isZero(ta[:19]):
			r.tags["dyn:precompile-1-4"] = true
		case ta[19] >= 5 && ta[19] <= 8 && isZero(ta[:19]):
			r.tags["dyn:precompile-5-8"] = true
		}
		if (op == CALL || op == CALLCODE) && back(2).Sign() != 0 {
			r.tags["dyn:call-with-value"] = true
			if f.static {
				r.tags["dyn:write-in-static-context"] = true
			}
		}
		if op == STATICCALL {
			r.tags["dyn:staticcall"] = true
		}
		if depth >= 2 {
			r.tags["dyn:call-at-depth>=2"] = true
		}
	case isCreateOp(op):
		r.tags["dyn:create"] = true
		if f.viaCall {
			r.tags["dyn:create-in-called-frame"] = true
		}
		if depth >= 2 {
			r.tags["dyn:create-at-depth>=2"] = true
		}
		if f.static {
			r.tags["dyn:write-in-static-context"] = true
		}
	case op == REVERT:
		if depth >= 2 {
			r.tags["dyn:revert-at-depth>=2"] = true
		}
		if depth >= 3 {
			r.tags["dyn:revert-at-depth>=3"] = true
		}
	case op == SELFDESTRUCT:
		r.tags["dyn:selfdestruct"] = true
		if f.static {
			r.tags["dyn:write-in-static-context"] = true
		}
	case op == SSTORE || (op >= LOG0 && op <= LOG4):
		if f.static {
			r.tags["dyn:write-in-static-context"] = true
		}
	case op == RETURN && n >= 2:
		if back(1).Sign() == 0 {
			r.tags["dyn:return-empty"] = true
		} else if back(1).IsUint64() && back(1).Uint64() > 64 {
			r.tags["dyn:return-large"] = true
		} else {
			r.tags["dyn:return-small"] = true
		}
	}
	if len(mem) >= 4096 {
		r.tags["dyn:memory>=4KB"] = true
	}
	if len(mem) >= 65536 {
		r.tags["dyn:memory>=64KB"] = true
	}
	return false
}

func isZero(b []byte) bool {
	for _, c := range b {
		if c != 0 {
			return false
		}
	}
	return true
}

// ---- outcome of one VM on one program

type logRec struct {
	Addr   addr
	Topics [][32]byte
	Data   []byte
}

type acctView struct {
	Addr     string
	Exists   bool
	Nonce    uint64
	Balance  string
	CodeLen  int
	CodeHash string
	Code     string            `json:",omitempty"`
	Storage  map[string]string `json:",omitempty"`
	Suicided bool              `json:",omitempty"`
}

type outcome struct {
	VM       string
	Class    string // success | revert | fail
	Err      string
	Ret      []byte
	Root     [32]byte
	Logs     []logRec
	Suicided []addr
	GasUsed  uint64 // in-tree: budget used; references: gas used (informational, never compared)
	rec      *rec
	Accounts []acctView // witness only
	nonces   map[addr]uint64
	exists   map[addr]bool
	query    func(a addr) (bool, uint64) // post-state existence and nonce of any address
}

func classOf(err error) string {
	if err == nil {
		return "success"
	}
	if err.Error() == "evm: execution reverted" {
		return "revert"
	}
	return "fail"
}

// sameOutcome compares everything the property statement lists. Gas is not compared.
func sameOutcome(a, b *outcome) (bool, string) {
	if a.Class != b.Class {
		return false, "result-class"
	}
	if string(a.Ret) != string(b.Ret) {
		return false, "return-data"
	}
	if len(a.Logs) != len(b.Logs) {
		return false, "logs"
	}
	for i := range a.Logs {
		x, y := a.Logs[i], b.Logs[i]
		if x.Addr != y.Addr || string(x.Data) != string(y.Data) || len(x.Topics) != len(y.Topics) {
			return false, "logs"
		}
		for j := range x.Topics {
			if x.Topics[j] != y.Topics[j] {
				return false, "logs"
			}
		}
	}
	if len(a.Suicided) != len(b.Suicided) {
		return false, "self-destructs"
	}
	for i := range a.Suicided {
		if a.Suicided[i] != b.Suicided[i] {
			return false, "self-destructs"
		}
	}
	if a.Root != b.Root {
		return false, "post-state"
	}
	return true, ""
}
