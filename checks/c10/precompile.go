package main

import (
	"math/big"

	icrypto "github.com/dappledger/AnnChain/eth/crypto"
)

// Inputs for calls to the precompiled contracts 1-8: well-formed ones (so the
// success paths run) and hostile ones (wrong lengths, out-of-range field
// elements, points off the curve, zero modulus, absurd length fields).

var (
	bnP  = decBig("21888242871839275222246405745257275088696311157297823662689037894645226208583")
	bnN  = decBig("21888242871839275222246405745257275088548364400416034343698204186575808495617")
	g1x  = big.NewInt(1)
	g1y  = big.NewInt(2)
	g1y2 = new(big.Int).Sub(bnP, big.NewInt(2)) // -G1
	g1dx = decBig("1368015179489954701390400359078579693043519447331113978918064868415326638035")
	g1dy = decBig("9918110051302171585080402603319702774565515993150576347155970296011118125764")
	// G2 generator in EIP-197 encoding order: x imaginary, x real, y imaginary, y real
	g2 = []*big.Int{
		decBig("11559732032986387107991004021392285783925812861821192530917403151452391805634"),
		decBig("10857046999023057135944570762232829481370756359578518086990519993285655852781"),
		decBig("4082367875863433681332203403145435568316851327593401208105741076214120093531"),
		decBig("8495653923123431417604973247489272438418190587263600148770280649306958101930"),
	}
	secpN = hexBig("fffffffffffffffffffffffffffffffebaaedce6af48a03bbfd25e8cd0364141")
)

func decBig(s string) *big.Int {
	v, ok := new(big.Int).SetString(s, 10)
	if !ok {
		panic("bad decimal")
	}
	return v
}

func words(vs ...*big.Int) []byte {
	var out []byte
	for _, v := range vs {
		w := word(new(big.Int).Mod(v, tt256))
		out = append(out, w[:]...)
	}
	return out
}

// valid ecrecover inputs (hash, v, r, s), computed once with the in-tree signer
var ecValid [][]byte

func initPrecompileInputs() {
	for i := 0; i < 4; i++ {
		key, err := icrypto.ToECDSA(icrypto.Keccak256([]byte{byte(i), 'k', 'e', 'y'}))
		if err != nil {
			panic(err)
		}
		h := icrypto.Keccak256([]byte{byte(i), 'm', 's', 'g'})
		sig, err := icrypto.Sign(h, key)
		if err != nil {
			panic(err)
		}
		in := append([]byte{}, h...)
		in = append(in, words(big.NewInt(int64(sig[64])+27))...)
		in = append(in, sig[:64]...)
		ecValid = append(ecValid, in)
	}
}

func g1Point(g *gen) []*big.Int {
	switch g.intn(8) {
	case 0, 1:
		return []*big.Int{g1x, g1y}
	case 2:
		return []*big.Int{g1dx, g1dy}
	case 3:
		return []*big.Int{new(big.Int), new(big.Int)} // infinity
	case 4:
		return []*big.Int{g1x, g1y2}
	case 5:
		return []*big.Int{g1x, big.NewInt(3)} // not on the curve
	case 6:
		return []*big.Int{new(big.Int).Add(bnP, big.NewInt(1)), g1y} // x >= p
	default:
		return []*big.Int{randWord(g.rng), randWord(g.rng)}
	}
}

func (c *cgen) precompileInput(idx int) []byte {
	g := c.g
	switch idx {
	case 1:
		in := append([]byte{}, ecValid[g.intn(len(ecValid))]...)
		switch g.intn(10) {
		case 0: // other recovery id
			if in[63] == 27 {
				in[63] = 28
			} else {
				in[63] = 27
			}
		case 1:
			in[63] = byte(g.intn(256))
		case 2: // v has a non-zero high byte
			in[32+g.intn(31)] = 1
		case 3:
			copy(in[64:96], words(new(big.Int))) // r = 0
		case 4:
			copy(in[96:128], words(secpN)) // s = N
		case 5:
			copy(in[96:128], words(new(big.Int).Sub(secpN, new(big.Int).SetBytes(in[96:128])))) // high s (and wrong)
		case 6:
			in = in[:g.intn(128)]
		case 7:
			in = append(in, randBytes(g.rng, 1+g.intn(40))...)
		case 8:
			in = randBytes(g.rng, 128)
		}
		return in
	case 2, 3, 4:
		return randBytes(g.rng, []int{0, 1, 31, 32, 33, 55, 56, 64, 65, 119, 120, 200}[g.intn(12)])
	case 5:
		small := func() *big.Int { return big.NewInt(int64([]int{0, 0, 1, 2, 31, 32, 33, 64}[g.intn(8)])) }
		absurd := func() *big.Int { return []*big.Int{pow2(64), tt255, tt256m1, add(pow2(64), 1)}[g.intn(4)] }
		bl, el, ml := small(), small(), small()
		switch g.intn(12) {
		case 0:
			bl = absurd()
		case 1:
			ml = absurd()
		case 2:
			el = []*big.Int{tt255, tt256m1}[g.intn(2)] // adjusted exponent length overflows the gas
		case 3:
			bl, ml = new(big.Int), new(big.Int)
			el = []*big.Int{tt255, tt256m1, pow2(64)}[g.intn(3)] // gas 0: base and modulus empty
		}
		in := words(bl, el, ml)
		body := int(0)
		if bl.IsInt64() && el.IsInt64() && ml.IsInt64() && bl.Int64() <= 64 && el.Int64() <= 64 && ml.Int64() <= 64 {
			body = int(bl.Int64() + el.Int64() + ml.Int64())
		}
		data := randBytes(g.rng, body)
		if body > 0 {
			switch g.intn(6) {
			case 0: // zero modulus
				for i := int(bl.Int64() + el.Int64()); i < body; i++ {
					data[i] = 0
				}
			case 1: // exponent with leading zeros
				for i := int(bl.Int64()); i < int(bl.Int64()+el.Int64()) && i < int(bl.Int64())+20; i++ {
					data[i] = 0
				}
			case 2: // modulus 1
				for i := int(bl.Int64() + el.Int64()); i < body; i++ {
					data[i] = 0
				}
				if ml.Int64() > 0 {
					data[body-1] = 1
				}
			}
		}
		in = append(in, data...)
		switch g.intn(8) {
		case 0:
			in = in[:g.intn(len(in)+1)] // truncated: missing bytes read as zero
		case 1:
			in = append(in, randBytes(g.rng, 1+g.intn(20))...)
		}
		return in
	case 6:
		a, b := g1Point(g), g1Point(g)
		in := words(a[0], a[1], b[0], b[1])
		switch g.intn(8) {
		case 0:
			in = in[:g.intn(len(in))]
		case 1:
			in = append(in, randBytes(g.rng, 1+g.intn(40))...)
		}
		return in
	case 7:
		a := g1Point(g)
		k := []*big.Int{new(big.Int), big.NewInt(1), big.NewInt(2), bnN, sub(bnN, 1), tt256m1, randWord(g.rng)}[g.intn(7)]
		in := words(a[0], a[1], k)
		switch g.intn(8) {
		case 0:
			in = in[:g.intn(len(in))]
		case 1:
			in = append(in, randBytes(g.rng, 1+g.intn(40))...)
		}
		return in
	default: // 8: pairing
		pair := func(y *big.Int) []byte { return words(g1x, y, g2[0], g2[1], g2[2], g2[3]) }
		switch g.intn(10) {
		case 0:
			return nil // empty product is one
		case 1, 2:
			return append(pair(g1y), pair(g1y2)...) // e(G1,G2)*e(-G1,G2) = 1
		case 3:
			return pair(g1y) // != 1
		case 4:
			return append(words(new(big.Int), new(big.Int)), words(g2...)...) // infinity in G1
		case 5:
			return append(words(g1x, g1y), words(new(big.Int), new(big.Int), new(big.Int), new(big.Int))...) // infinity in G2
		case 6:
			return append(words(g1x, g1y), words(g2[1], g2[0], g2[2], g2[3])...) // coordinates swapped: not on the twist
		case 7:
			in := pair(g1y)
			return in[:len(in)-1-g.intn(40)] // not a multiple of 192
		case 8:
			return append(words(g1x, big.NewInt(3)), words(g2...)...) // G1 point off the curve
		default:
			return randBytes(g.rng, 192)
		}
	}
}
