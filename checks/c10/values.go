package main

import (
	"math/big"
	"math/rand"
)

func pow2(n uint) *big.Int { return new(big.Int).Lsh(big.NewInt(1), n) }

var (
	tt256   = pow2(256)
	tt256m1 = new(big.Int).Sub(pow2(256), big.NewInt(1))
	tt255   = pow2(255)
)

func neg(v int64) *big.Int { // two's complement of -v
	return new(big.Int).Sub(tt256, big.NewInt(v))
}

func sub(a *big.Int, v int64) *big.Int { return new(big.Int).Sub(a, big.NewInt(v)) }
func add(a *big.Int, v int64) *big.Int { return new(big.Int).Add(a, big.NewInt(v)) }

func hexBig(s string) *big.Int {
	v, ok := new(big.Int).SetString(s, 16)
	if !ok {
		panic("bad hex " + s)
	}
	return v
}

// general boundary values
var genPool = []*big.Int{
	big.NewInt(0), big.NewInt(1), big.NewInt(2), big.NewInt(3), big.NewInt(5), big.NewInt(7), big.NewInt(8),
	big.NewInt(15), big.NewInt(16), big.NewInt(31), big.NewInt(32), big.NewInt(33), big.NewInt(63), big.NewInt(64),
	big.NewInt(127), big.NewInt(128), big.NewInt(255), big.NewInt(256), big.NewInt(257), big.NewInt(0xffff),
	big.NewInt(0x10000), pow2(31), sub(pow2(32), 1), pow2(32), pow2(63), sub(pow2(64), 1), pow2(64), add(pow2(64), 1),
	pow2(127), pow2(128), sub(pow2(128), 1), sub(pow2(160), 1), pow2(160), pow2(192), sub(tt255, 1), tt255, add(tt255, 1),
	tt256m1, sub(tt256m1, 1), neg(2), neg(3), neg(128), neg(129), neg(256), neg(32768),
	hexBig("0102030405060708090a0b0c0d0e0f101112131415161718191a1b1c1d1e1f20"),
	hexBig("80000000000000000000000000000000ffffffffffffffffffffffffffffffff"),
	hexBig("7fffffffffffffffffffffffffffffff00000000000000000000000000000000"),
	hexBig("ff00ff00ff00ff00ff00ff00ff00ff00ff00ff00ff00ff00ff00ff00ff00ff00"),
	hexBig("00000000000000000000000000000000000000000000000000000000000000ff"),
	hexBig("5b5b5b5b5b5b5b5b5b5b5b5b5b5b5b5b5b5b5b5b5b5b5b5b5b5b5b5b5b5b5b5b"),
}

// shift amounts for SHL/SHR/SAR
var shiftPool = []*big.Int{
	big.NewInt(0), big.NewInt(1), big.NewInt(2), big.NewInt(7), big.NewInt(8), big.NewInt(15), big.NewInt(16),
	big.NewInt(31), big.NewInt(32), big.NewInt(63), big.NewInt(64), big.NewInt(127), big.NewInt(128), big.NewInt(248),
	big.NewInt(254), big.NewInt(255), big.NewInt(256), big.NewInt(257), big.NewInt(511), big.NewInt(512), big.NewInt(65536),
	pow2(32), sub(pow2(64), 1), pow2(64), add(pow2(64), 255), tt255, tt256m1,
}

// byte indices for BYTE / SIGNEXTEND
var idxPool = []*big.Int{
	big.NewInt(0), big.NewInt(1), big.NewInt(2), big.NewInt(7), big.NewInt(14), big.NewInt(15), big.NewInt(16),
	big.NewInt(29), big.NewInt(30), big.NewInt(31), big.NewInt(32), big.NewInt(33), big.NewInt(63), big.NewInt(255),
	big.NewInt(256), pow2(32), pow2(64), add(pow2(64), 3), tt255, tt256m1,
}

// operands that expose the sign bit at different byte positions
var signPool = []*big.Int{
	big.NewInt(0x7f), big.NewInt(0x80), big.NewInt(0xff), big.NewInt(0x7fff), big.NewInt(0x8000), big.NewInt(0xff7f),
	big.NewInt(0x80ff), big.NewInt(0x807f), hexBig("7fffffff"), hexBig("80000000"), hexBig("ffffffff7fffffff"),
	hexBig("8000000000000000"), hexBig("80000000000000000000000000000000"), hexBig("7f000000000000000000000000000000"),
	sub(tt255, 1), tt255, tt256m1, neg(2),
	hexBig("0180018001800180018001800180018001800180018001800180018001800180"),
	hexBig("807f807f807f807f807f807f807f807f807f807f807f807f807f807f807f807f"),
	hexBig("0102030405060708090a0b0c0d0e0f101112131415161718191a1b1c1d1e1f20"),
	hexBig("f1f2f3f4f5f6f7f8f9fafbfcfdfeff0102030405060708090a0b0c0d0e0f1011"),
}

// divisors / moduli / numerators
var divPool = []*big.Int{
	big.NewInt(0), big.NewInt(1), big.NewInt(2), big.NewInt(3), big.NewInt(7), big.NewInt(10), big.NewInt(256),
	tt256m1, neg(2), neg(3), neg(7), tt255, add(tt255, 1), sub(tt255, 1), pow2(128), sub(pow2(128), 1), pow2(64),
	hexBig("fffffffffffffffffffffffffffffffffffffffffffffffffffffffffffffffd"),
	hexBig("8000000000000000000000000000000000000000000000000000000000000002"),
}

// EXP bases and exponents
var expBase = []*big.Int{
	big.NewInt(0), big.NewInt(1), big.NewInt(2), big.NewInt(3), big.NewInt(10), big.NewInt(255), big.NewInt(256),
	big.NewInt(257), tt256m1, neg(2), tt255, pow2(128), sub(pow2(128), 1), pow2(64), hexBig("0101010101010101"),
}
var expExp = []*big.Int{
	big.NewInt(0), big.NewInt(1), big.NewInt(2), big.NewInt(3), big.NewInt(7), big.NewInt(8), big.NewInt(31), big.NewInt(32),
	big.NewInt(33), big.NewInt(64), big.NewInt(127), big.NewInt(128), big.NewInt(255), big.NewInt(256), big.NewInt(257),
	pow2(64), tt255, tt256m1, neg(2), hexBig("0100000000000000000000000000000001"),
}

// storage slots: few, so that reads hit earlier writes and pre-state
var slotPool = []*big.Int{
	big.NewInt(0), big.NewInt(1), big.NewInt(2), big.NewInt(3), big.NewInt(4), big.NewInt(5), tt256m1, tt255,
	hexBig("c0ffee"), pow2(160),
}

// memory offsets that cost next to nothing
var memOffPool = []int64{0, 0, 1, 31, 32, 33, 63, 64, 96, 0x80, 0xa0, 0x100, 0x1ff, 0x200, 0x3e0, 0x400}
var memSizePool = []int64{0, 0, 1, 2, 31, 32, 32, 33, 64, 65, 100, 128, 200, 0x200}

// operands that make any memory expansion fail in every VM (memory gas is
// astronomically larger than any budget, or overflows uint64). Nothing between
// 128 KB and 2^41 is ever generated: such sizes would be affordable for the
// references' (huge) gas but not for the in-tree per-transaction budget, which
// is the documented deviation and not the subject of this check.
var hugeMem = []*big.Int{pow2(41), pow2(63), sub(pow2(64), 1), pow2(64), add(pow2(64), 32), tt255, tt256m1, sub(tt256m1, 31)}

func pick(r *rand.Rand, p []*big.Int) *big.Int { return p[r.Intn(len(p))] }

func randWord(r *rand.Rand) *big.Int {
	b := make([]byte, 32)
	r.Read(b)
	switch r.Intn(4) {
	case 0: // short
		n := 1 + r.Intn(8)
		for i := 0; i < 32-n; i++ {
			b[i] = 0
		}
	case 1: // negative small
		n := 1 + r.Intn(8)
		for i := 0; i < 32-n; i++ {
			b[i] = 0xff
		}
	}
	return new(big.Int).SetBytes(b)
}

func randBytes(r *rand.Rand, n int) []byte {
	b := make([]byte, n)
	r.Read(b)
	return b
}
