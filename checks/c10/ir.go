package main

import "math/big"

// A generated contract is a tree of statements. Every statement leaves the
// stack height unchanged (unless it terminates the frame), so the shrinker can
// drop any statement and re-assemble. Jump targets and data-section offsets are
// symbolic until assembly.

type itemKind uint8

const (
	kOp       itemKind = iota // one opcode
	kPush                     // PUSHn, n = len(data)
	kLabelRef                 // PUSH2 <position of label n>
	kLabel                    // JUMPDEST, defines label n
	kChild                    // nested statement
	kBlobOff                  // PUSH2 <offset of data blob n in this code>
	kBlobLen                  // PUSH2 <length of data blob n>
	kRaw                      // raw bytes, optionally defining label n at data[lblOff]
)

type item struct {
	k      itemKind
	op     byte
	data   []byte
	n      int
	lblOff int
	child  *stmt
}

type stmt struct {
	tag   string
	items []item
	dead  bool
}

type blob struct {
	raw []byte
	obj *codeObj // nested init code, assembled recursively
}

type codeObj struct {
	body    []*stmt
	blobs   []*blob
	nlabels int
}

func (c *codeObj) newLabel() int { c.nlabels++; return c.nlabels }

type fixup struct {
	pos  int // position of the two bytes to patch
	kind itemKind
	n    int
}

type assembler struct {
	b      []byte
	labels map[int]int
	fix    []fixup
}

func (as *assembler) emit(s *stmt) {
	if s == nil || s.dead {
		return
	}
	for i := range s.items {
		it := &s.items[i]
		switch it.k {
		case kOp:
			as.b = append(as.b, it.op)
		case kPush:
			as.b = append(as.b, byte(PUSH1+len(it.data)-1))
			as.b = append(as.b, it.data...)
		case kLabelRef, kBlobOff, kBlobLen:
			as.b = append(as.b, PUSH2, 0, 0)
			as.fix = append(as.fix, fixup{pos: len(as.b) - 2, kind: it.k, n: it.n})
		case kLabel:
			as.labels[it.n] = len(as.b)
			as.b = append(as.b, JUMPDEST)
		case kChild:
			as.emit(it.child)
		case kRaw:
			if it.n > 0 {
				as.labels[it.n] = len(as.b) + it.lblOff
			}
			as.b = append(as.b, it.data...)
		}
	}
}

func (c *codeObj) assemble() []byte {
	as := &assembler{labels: map[int]int{}}
	for _, s := range c.body {
		as.emit(s)
	}
	as.b = append(as.b, STOP) // falling off the body never runs into the data section
	offs := make([]int, len(c.blobs))
	lens := make([]int, len(c.blobs))
	for i, bl := range c.blobs {
		raw := bl.raw
		if bl.obj != nil {
			raw = bl.obj.assemble()
		}
		offs[i] = len(as.b)
		lens[i] = len(raw)
		as.b = append(as.b, raw...)
	}
	for _, f := range as.fix {
		v := 0
		switch f.kind {
		case kLabelRef:
			p, ok := as.labels[f.n]
			if !ok {
				p = 0xffff // label inside a dropped statement: an invalid destination
			}
			v = p
		case kBlobOff:
			v = offs[f.n]
		case kBlobLen:
			v = lens[f.n]
		}
		if v > 0xffff {
			v = 0xffff
		}
		as.b[f.pos] = byte(v >> 8)
		as.b[f.pos+1] = byte(v)
	}
	return as.b
}

// allStmts lists every statement of the object, nested ones and the ones in
// nested init-code blobs included (pre-order).
func (c *codeObj) allStmts(out []*stmt) []*stmt {
	var walk func(s *stmt)
	walk = func(s *stmt) {
		out = append(out, s)
		for i := range s.items {
			if s.items[i].k == kChild {
				walk(s.items[i].child)
			}
		}
	}
	for _, s := range c.body {
		walk(s)
	}
	for _, bl := range c.blobs {
		if bl.obj != nil {
			out = bl.obj.allStmts(out)
		}
	}
	return out
}

// builder appends items to one statement and tracks the absolute stack height
// of the frame, so DUP/SWAP indices are known when the code is generated.
type builder struct {
	s *stmt
	h int
}

func newBuilder(tag string, h int) *builder { return &builder{s: &stmt{tag: tag}, h: h} }

func (b *builder) op(o byte) {
	b.s.items = append(b.s.items, item{k: kOp, op: o})
	inf := opTable[o]
	if inf.valid {
		b.h += inf.pushes - inf.pops
	}
}

// pushBytes emits PUSHn with exactly these bytes (1..32).
func (b *builder) pushBytes(d []byte) {
	if len(d) == 0 {
		d = []byte{0}
	}
	if len(d) > 32 {
		d = d[len(d)-32:]
	}
	b.s.items = append(b.s.items, item{k: kPush, data: d})
	b.h++
}

// push emits the shortest PUSH for v (PUSH1 0 for zero).
func (b *builder) push(v *big.Int) { b.pushBytes(v.Bytes()) }

// pushW emits PUSHw with v left-padded to w bytes (w >= needed).
func (b *builder) pushW(v *big.Int, w int) {
	raw := v.Bytes()
	if w < len(raw) {
		w = len(raw)
	}
	if w < 1 {
		w = 1
	}
	if w > 32 {
		w = 32
	}
	d := make([]byte, w)
	copy(d[w-len(raw):], raw)
	b.pushBytes(d)
}

func (b *builder) pushInt(v int64) { b.push(big.NewInt(v)) }

func (b *builder) labelRef(l int) {
	b.s.items = append(b.s.items, item{k: kLabelRef, n: l})
	b.h++
}
func (b *builder) label(l int) { b.s.items = append(b.s.items, item{k: kLabel, n: l}) }
func (b *builder) blobOff(i int) {
	b.s.items = append(b.s.items, item{k: kBlobOff, n: i})
	b.h++
}
func (b *builder) blobLen(i int) {
	b.s.items = append(b.s.items, item{k: kBlobLen, n: i})
	b.h++
}
func (b *builder) raw(d []byte) { b.s.items = append(b.s.items, item{k: kRaw, data: d}) }
func (b *builder) rawLabel(d []byte, l, off int) {
	b.s.items = append(b.s.items, item{k: kRaw, data: d, n: l, lblOff: off})
}
func (b *builder) child(c *stmt) {
	if c != nil {
		b.s.items = append(b.s.items, item{k: kChild, child: c})
	}
}
