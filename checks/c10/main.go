// C10 — EVM semantics conform to reference go-ethereum (Constantinople rules).
//
// Differential monitor. Every generated program (2-4 contracts + optional
// bounded recursor, pre-state, call data, top-level Call/Create/Create2) is run
// from the same pre-state and Context on
//
//	in-tree  github.com/dappledger/AnnChain/eth/core/vm, configured as chain/app/evm does
//	O1       go-ethereum v1.8.27 core/vm, every fork incl. Constantinople at block 0 (literal property)
//	O2       the same reference code with the rule flags the in-tree VM really runs with:
//	         mainnet fork heights (so pre-Homestead rules at realistic heights) + Constantinople table
//
// and decided: in-tree = O1 -> held; in-tree = O2 != O1 -> the reference itself
// produces the difference under those rule flags (class
// "constantinople-opcodes-under-pre-homestead-rules:<rule>"); in-tree != O2 ->
// deviation (S16 shape or "deviation:<opcode>:<how>").
// Compared: result class, return data, Commit(true) state root, logs,
// self-destructed set. Never compared: gas used, refunds.
package main

import (
	"fmt"
	"io/ioutil"
	"math/big"
	"os"
	"runtime"
	"runtime/debug"
	"runtime/pprof"
	"sort"
	"strings"
	"sync"

	glog "github.com/dappledger/AnnChain/gemmill/modules/go-log"
	rparams "github.com/ethereum/go-ethereum/params"
	"go.uber.org/zap"

	"verif/lib"
)

var run *lib.Run

// O1: the literal reading of the property. PetersburgBlock far away = "no
// Petersburg" (in v1.8.27 a nil PetersburgBlock means "with Constantinople");
// it only changes SSTORE gas, which is not compared.
var cfgO1 = &rparams.ChainConfig{
	ChainID: big.NewInt(1), HomesteadBlock: big.NewInt(0), EIP150Block: big.NewInt(0), EIP155Block: big.NewInt(0),
	EIP158Block: big.NewInt(0), ByzantiumBlock: big.NewInt(0), ConstantinopleBlock: big.NewInt(0),
	PetersburgBlock: big.NewInt(1 << 62),
}

// O2: the reference under the rule flags of the in-tree VM. In-tree =
// params.MainnetChainConfig (Constantinople nil) + forced Constantinople jump
// table and gas table. With ConstantinopleBlock = 0 the reference interpreter
// picks constantinopleInstructionSet first (interpreter.go NewEVMInterpreter)
// and GasTableConstantinople (params.GasTable), while IsHomestead / IsEIP158 /
// IsByzantium follow the mainnet heights, i.e. are all false below 1,150,000.
// EIP150Block is 0 on purpose: in core/vm that flag is read in two places only,
// opCreate's "all but one 64th" and gasSuicide — both pure gas forwarding /
// pricing, which the in-tree VM does not have at all (it meters against
// evm.gasLeft). Leaving it off would make a hard-failing init code burn the
// creator's whole (reference) gas, a gas effect the property excludes.
var cfgO2 = &rparams.ChainConfig{
	ChainID: big.NewInt(1), HomesteadBlock: big.NewInt(1150000), DAOForkBlock: big.NewInt(1920000), DAOForkSupport: true,
	EIP150Block: big.NewInt(0), EIP155Block: big.NewInt(2675000), EIP158Block: big.NewInt(2675000),
	ByzantiumBlock: big.NewInt(4370000), ConstantinopleBlock: big.NewInt(0),
}

type built struct {
	p        *program
	codes    [][]byte
	initCode []byte
}

func build(p *program) *built {
	b := &built{p: p, codes: make([][]byte, len(p.Accts))}
	for i, a := range p.Accts {
		if a.Code != nil {
			b.codes[i] = a.Code.assemble()
		}
	}
	if p.Init != nil {
		b.initCode = p.Init.assemble()
	}
	return b
}

const (
	brHeld    = "held"
	brPreHom  = "pre-homestead-rules"
	brS16     = "code-deposit-on-contract-gas"
	brDev     = "deviation"
	brDiscard = "discarded"
)

type verdict struct {
	branch string
	key    string
	what   string
	rules  []string
	in     *outcome
	o1     *outcome
	o2     *outcome
	diag   *diagnosis
}

const refStarved = uint64(1) << 31

// gasNormalised: the generator promises ample gas in every VM; this verifies
// it for the run at hand. A program that is not normalised is not judged.
func gasNormalised(in, o1, o2 *outcome) string {
	for _, o := range []*outcome{in, o1, o2} {
		if o != nil && o.rec.runaway {
			return "runaway-" + o.VM
		}
	}
	if in.GasUsed > inTreeBudget/2 {
		return "in-tree-budget"
	}
	for _, o := range []*outcome{o1, o2} {
		if o != nil && o.rec.steps > 0 && o.rec.minGas < refStarved {
			return "reference-gas-starved"
		}
	}
	return ""
}

func evaluate(p *program, witness bool) *verdict {
	b := build(p)
	v := &verdict{}
	v.in = runInTree(b, false, witness)
	v.o1 = runRef(b, cfgO1, "O1", false, witness)
	if why := gasNormalised(v.in, v.o1, nil); why != "" {
		v.branch, v.key = brDiscard, why
		return v
	}
	same1, diff1 := sameOutcome(v.in, v.o1)
	if same1 && !witness {
		v.branch = brHeld
		return v
	}
	if p.ByzOnly {
		if same1 {
			v.branch = brHeld
			return v
		}
		v.diag = diagnose(b, cfgO1, "O1", witness)
		v.branch, v.key, v.what = classifyDeviation(v.diag, diff1, "O1")
		return v
	}
	v.o2 = runRef(b, cfgO2, "O2", false, witness)
	if why := gasNormalised(v.in, v.o1, v.o2); why != "" {
		v.branch, v.key = brDiscard, why
		return v
	}
	if same1 {
		v.branch = brHeld
		return v
	}
	same2, diff2 := sameOutcome(v.in, v.o2)
	if same2 {
		v.branch = brPreHom
		v.rules = explainRules(p, v.in, v.o1)
		v.key = "constantinople-opcodes-under-pre-homestead-rules:" + v.rules[0]
		v.what = fmt.Sprintf("in-tree differs from the reference with Constantinople rules (O1) in %s and equals the reference run with the in-tree rule flags at block %d (O2); rules that explain it: %s", diff1, p.Block, strings.Join(v.rules, ", "))
		return v
	}
	v.diag = diagnose(b, cfgO2, "O2", witness)
	v.branch, v.key, v.what = classifyDeviation(v.diag, diff2, "O2")
	return v
}

// explainRules names the fork rules that make O1 differ from the in-tree VM
// (which equals O2 here); most specific first.
func explainRules(p *program, in, o1 *outcome) []string {
	var rules []string
	if o1.rec.oversize || o1.Err == "evm: max code size exceeded" { // O1 itself got as far as returning > 24576 bytes of code
		rules = append(rules, "eip170-code-size")
	}
	if o1.rec.errs["evm: write protection"] > 0 {
		rules = append(rules, "static-write-protection")
	}
	if in.Err == "contract creation code storage out of gas" || in.rec.errs["contract creation code storage out of gas"] > 0 {
		rules = append(rules, "homestead-code-store")
	}
	uni := map[addr]struct{}{}
	for a := range in.rec.addrs {
		uni[a] = struct{}{}
	}
	for a := range o1.rec.addrs {
		uni[a] = struct{}{}
	}
	for a := range in.exists {
		uni[a] = struct{}{}
	}
	nonce, exist := false, false
	for a := range uni {
		ei, ni := in.query(a)
		e1, n1 := o1.query(a)
		if ei != e1 {
			exist = true
		} else if ni != n1 {
			nonce = true
		}
	}
	if exist {
		rules = append(rules, "eip158-empty-accounts")
	}
	// EIP-158 starts new contracts at nonce 1, so contracts they create get other addresses
	if len(in.rec.created) != len(o1.rec.created) {
		nonce = true
	}
	for a := range in.rec.created {
		if _, ok := o1.rec.created[a]; !ok {
			nonce = true
		}
	}
	if nonce {
		rules = append(rules, "eip158-nonce")
	}
	if len(rules) == 0 && (len(in.rec.created) > 0 || p.TopKind != topCall) {
		// a CREATE succeeded: the new account has nonce 0 here and 1 under EIP-158, which code can
		// observe (EXTCODEHASH of an otherwise empty account is 0 vs keccak256("")) even if
		// everything is reverted afterwards
		rules = append(rules, "eip158-nonce")
	}
	if len(rules) == 0 {
		rules = append(rules, "other")
	}
	return rules
}

// ---- diagnosis of an in-tree run that no reference configuration reproduces

type diagnosis struct {
	in, ref    *outcome
	refName    string
	FirstDiff  int // index of the first differing trace step, -1: traces are identical
	InStep     *stepView
	RefStep    *stepView
	PrevOp     string
	How        string
	S16        []s16Event
	S16Explain bool
}

type stepView struct {
	Depth int
	PC    uint64
	Op    string
	Addr  string
	Err   string `json:",omitempty"`
}

func viewStep(r *rec, i int) *stepView {
	s := r.trace[i]
	a := r.addrAtStep(i)
	return &stepView{Depth: int(s.Depth), PC: uint64(s.PC), Op: opName(s.Op), Addr: hexs(a[:]), Err: r.errAt(i)}
}

func diagnose(b *built, cfg *rparams.ChainConfig, name string, witness bool) *diagnosis {
	d := &diagnosis{refName: name, FirstDiff: -1}
	d.in = runInTree(b, true, witness)
	d.ref = runRef(b, cfg, name, true, witness)
	ta, tb := d.in.rec.trace, d.ref.rec.trace
	n := len(ta)
	if len(tb) < n {
		n = len(tb)
	}
	for i := 0; i < n; i++ {
		if ta[i].Digest != tb[i].Digest {
			d.FirstDiff = i
			break
		}
	}
	if d.FirstDiff < 0 && len(ta) != len(tb) {
		d.FirstDiff = n
	}
	if i := d.FirstDiff; i >= 0 {
		if i < len(ta) {
			d.InStep = viewStep(d.in.rec, i)
		}
		if i < len(tb) {
			d.RefStep = viewStep(d.ref.rec, i)
		}
		if i == 0 {
			d.PrevOp = "entry"
		} else {
			d.PrevOp = opName(ta[i-1].Op)
		}
		ie, re := "", ""
		if d.InStep != nil {
			ie = d.InStep.Err
		}
		if d.RefStep != nil {
			re = d.RefStep.Err
		}
		switch {
		case ie != "" && re == "":
			d.How = "in-tree-fails(" + ie + ")"
		case ie == "" && re != "":
			d.How = "in-tree-continues(ref:" + re + ")"
		case ie != re:
			d.How = "other-error(" + ie + "|ref:" + re + ")"
		default:
			d.How = "result-differs"
		}
	}
	d.S16 = d.in.rec.s16
	// the code-deposit defect can only explain differences that start after the
	// first starved RETURN of an init frame
	if len(d.S16) > 0 && (d.FirstDiff < 0 || d.FirstDiff >= d.S16[0].Step) {
		d.S16Explain = true
	}
	return d
}

func classifyDeviation(d *diagnosis, field, refName string) (branch, key, what string) {
	if d.in.Class == "panic" {
		msg := d.in.Err
		for _, c := range "0123456789" {
			msg = strings.Replace(msg, string(c), "", -1)
		}
		return brDev, "in-tree-panic:" + msg, "the in-tree VM panicked: " + d.in.Err
	}
	if d.S16Explain {
		e := d.S16[0]
		key = "create-after-gas-burn-code-deposit-fails"
		why := "no CALL-family frame above it: contract.Gas was emptied by an earlier hard-failing CREATE, to which the in-tree VM forwards all of contract.Gas"
		if e.ViaCall {
			key = "nested-create-code-deposit-fails"
			why = "a CALL-family frame above it: the in-tree VM never funds contract.Gas of called frames (callGasTemp is never set)"
		}
		what = fmt.Sprintf("init code running at depth %d returns %d bytes of code while its contract.Gas is %d (< 200*%d) although the per-transaction budget is far from spent; the in-tree VM charges the code deposit to contract.Gas (%s); %s deploys the code. First differing field: %s", e.Depth, e.Size, e.Gas, e.Size, why, refName, field)
		return brS16, key, what
	}
	if d.FirstDiff < 0 {
		key = "deviation:outcome-only:" + field
		what = fmt.Sprintf("in-tree and %s execute the same opcode trace but end with different %s", refName, field)
		return brDev, key, what
	}
	key = "deviation:" + d.PrevOp + ":" + d.How
	what = fmt.Sprintf("in-tree differs from %s (and from O1) in %s; traces diverge at step %d, right after %s: %s", refName, field, d.FirstDiff, d.PrevOp, d.How)
	return brDev, key, what
}

// ---- witness

func hexs(b []byte) string { return fmt.Sprintf("%x", b) }

func disasm(code []byte) string {
	if len(code) > 400 {
		return ""
	}
	var sb strings.Builder
	for i := 0; i < len(code); i++ {
		op := code[i]
		if i > 0 {
			sb.WriteByte(' ')
		}
		sb.WriteString(opName(op))
		if n := opTable[op].immediate; n > 0 {
			end := i + 1 + n
			if end > len(code) {
				end = len(code)
			}
			sb.WriteString(" 0x" + hexs(code[i+1:end]))
			i = end - 1
		}
	}
	return sb.String()
}

type outView struct {
	Class    string
	Err      string `json:",omitempty"`
	Ret      string
	Root     string
	Logs     []map[string]interface{}
	Suicided []string
	GasUsed  uint64
	Steps    int
	MaxDepth int
	Errors   map[string]int
	Accounts []acctView
}

func viewOutcome(o *outcome) *outView {
	if o == nil {
		return nil
	}
	v := &outView{Class: o.Class, Err: o.Err, Ret: hexs(o.Ret), Root: hexs(o.Root[:]), GasUsed: o.GasUsed, Steps: o.rec.steps, MaxDepth: o.rec.maxDepth, Errors: o.rec.errs, Accounts: o.Accounts}
	if len(v.Ret) > 400 {
		v.Ret = v.Ret[:400] + fmt.Sprintf("...(%d bytes)", len(o.Ret))
	}
	for _, l := range o.Logs {
		var ts []string
		for _, t := range l.Topics {
			ts = append(ts, hexs(t[:]))
		}
		v.Logs = append(v.Logs, map[string]interface{}{"address": hexs(l.Addr[:]), "topics": ts, "data": hexs(l.Data)})
	}
	for _, a := range o.Suicided {
		v.Suicided = append(v.Suicided, hexs(a[:]))
	}
	return v
}

func makeWitness(p *program, v *verdict, removed, total int) map[string]interface{} {
	b := build(p)
	var accts []map[string]interface{}
	for i, a := range p.Accts {
		m := map[string]interface{}{"role": a.Role, "address": hexs(a.Addr[:]), "balance": a.Balance.String(), "nonce": a.Nonce}
		if len(b.codes[i]) > 0 {
			m["code"] = hexs(b.codes[i])
			if s := disasm(b.codes[i]); s != "" {
				m["asm"] = s
			}
		}
		if len(a.Storage) > 0 {
			st := map[string]string{}
			for _, kv := range a.Storage {
				st[hexs(kv.K[:])] = hexs(kv.V[:])
			}
			m["storage"] = st
		}
		accts = append(accts, m)
	}
	top := map[string]interface{}{"from": hexs(senderAddr[:]), "value": p.Value.String(), "gas": topGas}
	switch p.TopKind {
	case topCall:
		top["op"] = "evm.Call"
		top["to"] = hexs(p.To[:])
		top["calldata"] = hexs(p.Data)
	case topCreate:
		top["op"] = "evm.Create"
		top["initcode"] = hexs(b.initCode)
		top["asm"] = disasm(b.initCode)
	default:
		top["op"] = "evm.Create2"
		top["initcode"] = hexs(b.initCode)
		top["asm"] = disasm(b.initCode)
		top["salt"] = hexs(p.Salt.Bytes())
	}
	var tags []string
	for t := range p.Tags {
		tags = append(tags, t)
	}
	sort.Strings(tags)
	w := map[string]interface{}{
		"program_id": p.ID, "era": eraNames[p.Era], "block_number": p.Block, "judged_against_O1_only": p.ByzOnly,
		"context":   map[string]interface{}{"origin": hexs(senderAddr[:]), "coinbase": hexs(coinbaseAddr[:]), "gasprice": 7, "time": 1600000000, "difficulty": 131072, "gaslimit": "2^64-1", "blockhash(n)": "keccak256(\"blockhash\" ++ bigendian(n))"},
		"pre_state": accts, "top_level": top, "generator_tags": tags,
		"statements_removed_by_shrinking": fmt.Sprintf("%d of %d", removed, total),
		"in_tree":                         viewOutcome(v.in), "O1": viewOutcome(v.o1), "O2": viewOutcome(v.o2),
		"rules": v.rules,
	}
	if v.diag != nil {
		w["in_tree"] = viewOutcome(v.diag.in)
		w[v.diag.refName] = viewOutcome(v.diag.ref)
		w["diagnosis"] = map[string]interface{}{
			"compared_with": v.diag.refName, "first_differing_step": v.diag.FirstDiff, "in_tree_step": v.diag.InStep, "reference_step": v.diag.RefStep,
			"previous_opcode": v.diag.PrevOp, "how": v.diag.How, "starved_init_returns": v.diag.S16, "explained_by_code_deposit_defect": v.diag.S16Explain,
		}
	}
	return w
}

// ---- shrinking: drop statements while the same class key results

func allProgramStmts(p *program) []*stmt {
	var out []*stmt
	for _, a := range p.Accts {
		if a.Code != nil {
			out = a.Code.allStmts(out)
		}
	}
	if p.Init != nil {
		out = p.Init.allStmts(out)
	}
	return out
}

func shrink(p *program, key string) (removed, total int) {
	sts := allProgramStmts(p)
	total = len(sts)
	budget := 600
	for pass := 0; pass < 2 && budget > 0; pass++ {
		progress := false
		for i := len(sts) - 1; i >= 0 && budget > 0; i-- {
			s := sts[i]
			if s.dead || s.tag == "pinned" {
				continue
			}
			s.dead = true
			budget--
			v := evaluate(p, false)
			if v.key == key {
				removed++
				progress = true
			} else {
				s.dead = false
			}
		}
		if !progress {
			break
		}
	}
	return
}

// ---- run

type local struct {
	c   map[string]int64
	ops [256]int64
}

func (l *local) add(k string, n int64) { l.c[k] += n }

var (
	keyMtx   sync.Mutex
	keyCount = map[string]int{}
	keyLater = map[string]string{}
	opsMtx   sync.Mutex
	opsTotal [256]int64
	maxGasIn uint64
)

func depthBucket(d int) string {
	switch {
	case d <= 9:
		return fmt.Sprintf("depth:%02d", d)
	case d <= 16:
		return "depth:10-16"
	case d <= 64:
		return "depth:17-64"
	case d <= 1023:
		return "depth:65-1023"
	default:
		return fmt.Sprintf("depth:%d", d)
	}
}

func handle(p *program, v *verdict, loc *local) {
	loc.add("branch:"+v.branch, 1)
	loc.add("era-branch:"+eraNames[p.Era]+":"+v.branch, 1)
	in := v.in
	switch v.branch {
	case brDiscard:
		loc.add("discard:"+v.key, 1)
		if os.Getenv("C10_DEBUG") != "" {
			var tg []string
			for t := range p.Tags {
				tg = append(tg, t)
			}
			sort.Strings(tg)
			o1min := uint64(0)
			if v.o1 != nil {
				o1min = v.o1.rec.minGas
			}
			fmt.Printf("DISCARD %d %s intreeGas=%d steps=%d depth=%d o1min=%d errs=%v tags=%v\n", p.ID, v.key, in.GasUsed, in.rec.steps, in.rec.maxDepth, o1min, in.rec.errs, tg)
		}
		return
	}
	for t := range p.Tags {
		loc.add("tag:"+t, 1)
	}
	for t := range in.rec.tags {
		loc.add("tag:"+t, 1)
	}
	loc.add(depthBucket(in.rec.maxDepth), 1)
	loc.add("class:"+in.Class, 1)
	loc.add("steps_in_tree", int64(in.rec.steps))
	for i, n := range in.rec.ops {
		loc.ops[i] += int64(n)
	}
	for e := range in.rec.errs {
		loc.add("vmerr:"+e, 1)
	}
	if in.rec.steps >= 20 {
		h := uint64(14695981039346656037)
		b := build(p)
		for _, c := range b.codes {
			h = fnv(h, c)
		}
		h = fnv(h, b.initCode)
		h = fnv(h, p.Data)
		run.Nontrivial(fmt.Sprintf("%016x", h))
	}
	opsMtx.Lock()
	if in.GasUsed > maxGasIn {
		maxGasIn = in.GasUsed
	}
	opsMtx.Unlock()
	if v.branch == brHeld {
		return
	}
	for _, r := range v.rules {
		loc.add("rule:"+r, 1)
	}
	loc.add("key:"+v.key, 1)
	keyMtx.Lock()
	keyCount[v.key]++
	n := keyCount[v.key]
	keyMtx.Unlock()
	if n > 3 { // reported after the run, so that the three shrunk witnesses are the ones lib writes out
		keyMtx.Lock()
		if _, ok := keyLater[v.key]; !ok {
			keyLater[v.key] = v.what
		}
		keyMtx.Unlock()
		return
	}
	removed, total := shrink(p, v.key)
	fv := evaluate(p, true)
	if fv.key != v.key { // cannot happen: shrinking only keeps steps with the same key
		fv = v
	}
	run.Violation(v.key, fv.what, makeWitness(p, fv, removed, total))
}

var requiredTags = []string{
	"call:CALL", "call:CALLCODE", "call:DELEGATECALL", "call:STATICCALL", "create:CREATE", "create:CREATE2",
	"creates", "create-in-callee-or-init", "create-returns-code", "create-reverts", "create-fails-hard", "create-with-value", "calls-created-contract",
	"selfdestruct", "selfdestruct-in-init", "revert", "log", "loop", "invalid-jump", "jumpdest-inside-push-data", "jumpdest-after-push-data",
	"memory-growth", "huge-memory-operand", "copy-out-of-range", "returndatacopy-out-of-range", "value-transfer", "value-exceeds-balance",
	"precompile:1", "precompile:2", "precompile:3", "precompile:4", "precompile:5", "precompile:6", "precompile:7", "precompile:8",
	"precompile-1-4", "precompile-5-8", "byzantium-precompiles-under-older-rules", "oversize-code", "max-size-code", "touches-empty-account",
	"recursion", "reentrant-call", "depth-limit", "top-level:call", "top-level:create", "top-level:create2", "top-level-value",
	"stack-underflow", "stack-overflow", "invalid-opcode",
	"era:frontier", "era:homestead", "era:eip150", "era:eip158", "era:byzantium",
	"dyn:write-in-static-context", "dyn:staticcall", "dyn:create", "dyn:create-in-called-frame", "dyn:create-at-depth>=2", "dyn:call-at-depth>=2",
	"dyn:revert-at-depth>=2", "dyn:revert-at-depth>=3", "dyn:selfdestruct", "dyn:call-with-value", "dyn:call-to-empty-or-missing-account",
	"dyn:precompile-1-4", "dyn:precompile-5-8", "dyn:memory>=4KB", "dyn:memory>=64KB", "dyn:return-empty", "dyn:return-small", "dyn:return-large",
}

func main() {
	glog.SetLog(zap.NewNop())
	debug.SetGCPercent(300)       // three VMs allocate an 8KB stack per call frame; collect less often ...
	debug.SetMemoryLimit(6 << 30) // ... but never let the heap run away on a machine shared with other checks
	run = lib.NewRun("C10", "exploration")
	run.SetRule("program i of the run is generated from PRNG(VERIF_SEED,\"c10-prog\",i): 2-4 pre-installed contracts (DAG-ranked: call data only flows to higher ranks, empty call data selects a call-free path, so every call tree is finite) plus an optional self-recursive contract with a call-data counter; bodies are trees of stack-neutral statements over all Constantinople opcodes with boundary operands (expressions, DUP/SWAP shuffles, memory, copies in/out of range, logs, if/loop, valid/invalid/misleading jumps, calls of all four kinds to contracts/precompiles/EOAs/empty/missing accounts with and without value, CREATE/CREATE2 with generated init and runtime code, terminators incl. REVERT/SELFDESTRUCT/INVALID/underflow/overflow); top level is evm.Call (84%), evm.Create or evm.Create2; block number drawn from all five mainnet rule eras (74% below Homestead). Gas is normalised by the generator (rank-dependent constant call gas, GAS only as call operand, memory operands either < 128KB or unpayable everywhere) and verified per run (in-tree budget use < 50%, reference frames never below 2^31 gas, step limit); programs failing that are discarded and counted. Non-trivial: in-tree executed >= 20 opcodes; distinct by hash of all code, init code and call data.")
	run.Assume("go-ethereum v1.8.27 core/vm + core/state from the module cache are the reference; O1 = all forks incl. Constantinople at 0",
		"equal Commit(true) roots <=> equal nonce/balance/code/storage of every account (eth/core/state is byte-identical to the reference's)",
		"O2 (reference with mainnet fork heights + Constantinople at 0, EIP150 gas forwarding on) is the in-tree rule-flag mirror; EIP150 only moves gas",
		"gas used, refunds and out-of-gas behaviour are outside the property (documented deviation); 0xfe is never a call target here")
	if f := os.Getenv("C10_PROF"); f != "" { // developer aid, not used by the registered command
		if fh, err := os.Create(f); err == nil {
			pprof.StartCPUProfile(fh)
			defer pprof.StopCPUProfile()
		}
	}
	initPrecompileInputs()
	if why := precompileSelfTest(); why != "" {
		run.Inconclusive("self-test: " + why)
		os.Exit(run.Finish())
	}
	n := lib.Pick(100000, 5000000)
	if s := os.Getenv("C10_PROGRAMS"); s != "" {
		fmt.Sscan(s, &n)
	}
	const chunk = 100
	workers := runtime.NumCPU()
	if workers > 16 {
		workers = 16
	}
	lib.Parallel((n+chunk-1)/chunk, workers, func(ci int) {
		loc := &local{c: map[string]int64{}}
		for j := 0; j < chunk && ci*chunk+j < n; j++ {
			id := int64(ci*chunk + j)
			p := genProgram(lib.Rand("c10-prog", id), id)
			v := evaluate(p, false)
			run.Eval()
			handle(p, v, loc)
			if id < 4 {
				b := build(p)
				var cs []string
				for _, c := range b.codes {
					if len(c) > 0 {
						cs = append(cs, hexs(c))
					}
				}
				run.Sample(map[string]interface{}{"id": id, "block": p.Block, "codes": cs, "calldata": hexs(p.Data), "initcode": hexs(b.initCode), "branch": v.branch, "key": v.key, "in_tree_class": v.in.Class, "steps": v.in.rec.steps})
			}
		}
		for k, c := range loc.c {
			run.Count(k, c)
		}
		if os.Getenv("C10_DEBUG") != "" && ci%100 == 0 {
			var ms runtime.MemStats
			runtime.ReadMemStats(&ms)
			fmt.Printf("MEM chunk=%d heapAlloc=%dMB heapInuse=%dMB heapIdle=%dMB released=%dMB nextGC=%dMB heapObjects=%d sys=%dMB stacks=%dMB goroutines=%d numGC=%d\n", ci, ms.HeapAlloc>>20, ms.HeapInuse>>20, ms.HeapIdle>>20, ms.HeapReleased>>20, ms.NextGC>>20, ms.HeapObjects, ms.Sys>>20, ms.StackSys>>20, runtime.NumGoroutine(), ms.NumGC)
		}
		opsMtx.Lock()
		for i, c := range loc.ops {
			opsTotal[i] += c
		}
		opsMtx.Unlock()
	})
	for k, what := range keyLater {
		for i := keyCount[k] - 3; i > 0; i-- {
			run.Violation(k, what, nil)
		}
	}
	// opcode coverage: every valid Constantinople opcode must have executed in the in-tree VM
	cov := map[string]int64{}
	var missing []string
	for _, op := range validOps() {
		cov[opTable[op].name] = opsTotal[op]
		if opsTotal[op] > 0 {
			run.Count("opcodes_covered", 1)
		} else {
			missing = append(missing, opTable[op].name)
		}
	}
	run.Extra("opcodes_executed_in_tree", cov)
	run.Extra("opcodes_valid_in_constantinople", len(validOps()))
	run.Extra("opcodes_never_executed", missing)
	run.Extra("max_in_tree_gas_used", maxGasIn)
	if b, err := ioutil.ReadFile("/proc/self/status"); err == nil { // informational
		for _, l := range strings.Split(string(b), "\n") {
			if strings.HasPrefix(l, "VmHWM:") {
				run.Extra("peak_rss", strings.TrimSpace(strings.TrimPrefix(l, "VmHWM:")))
			}
		}
	}
	keyMtx.Lock()
	run.Extra("class_keys", keyCount)
	keyMtx.Unlock()
	run.Require("opcodes_covered", int64(len(validOps())))
	for _, t := range requiredTags {
		run.Require("tag:"+t, 1)
	}
	run.Require("branch:"+brHeld, int64(n/10))
	// discarded programs must stay rare, or the gas normalisation is broken
	if d := run.Get("branch:" + brDiscard); d*50 > int64(n) {
		run.Inconclusive(fmt.Sprintf("%d of %d programs discarded by the gas-normalisation check (> 2%%)", d, n))
	}
	if len(missing) > 0 {
		fmt.Printf("opcodes never executed: %v\n", missing)
	}
	code := run.Finish()
	pprof.StopCPUProfile()
	if f := os.Getenv("C10_MEMPROF"); f != "" {
		if fh, err := os.Create(f); err == nil {
			pprof.Lookup("allocs").WriteTo(fh, 0)
			fh.Close()
		}
	}
	os.Exit(code)
}
