package main

// Opcode numbers, stack effects and the list of opcodes that are valid in the
// Constantinople instruction set. Kept independent of both VM packages.

const (
	STOP       = 0x00
	ADD        = 0x01
	MUL        = 0x02
	SUB        = 0x03
	DIV        = 0x04
	SDIV       = 0x05
	MOD        = 0x06
	SMOD       = 0x07
	ADDMOD     = 0x08
	MULMOD     = 0x09
	EXP        = 0x0a
	SIGNEXTEND = 0x0b

	LT     = 0x10
	GT     = 0x11
	SLT    = 0x12
	SGT    = 0x13
	EQ     = 0x14
	ISZERO = 0x15
	AND    = 0x16
	OR     = 0x17
	XOR    = 0x18
	NOT    = 0x19
	BYTE   = 0x1a
	SHL    = 0x1b
	SHR    = 0x1c
	SAR    = 0x1d

	SHA3 = 0x20

	ADDRESS        = 0x30
	BALANCE        = 0x31
	ORIGIN         = 0x32
	CALLER         = 0x33
	CALLVALUE      = 0x34
	CALLDATALOAD   = 0x35
	CALLDATASIZE   = 0x36
	CALLDATACOPY   = 0x37
	CODESIZE       = 0x38
	CODECOPY       = 0x39
	GASPRICE       = 0x3a
	EXTCODESIZE    = 0x3b
	EXTCODECOPY    = 0x3c
	RETURNDATASIZE = 0x3d
	RETURNDATACOPY = 0x3e
	EXTCODEHASH    = 0x3f

	BLOCKHASH  = 0x40
	COINBASE   = 0x41
	TIMESTAMP  = 0x42
	NUMBER     = 0x43
	DIFFICULTY = 0x44
	GASLIMIT   = 0x45

	POP      = 0x50
	MLOAD    = 0x51
	MSTORE   = 0x52
	MSTORE8  = 0x53
	SLOAD    = 0x54
	SSTORE   = 0x55
	JUMP     = 0x56
	JUMPI    = 0x57
	PC       = 0x58
	MSIZE    = 0x59
	GAS      = 0x5a
	JUMPDEST = 0x5b

	PUSH1  = 0x60
	PUSH2  = 0x61
	PUSH32 = 0x7f
	DUP1   = 0x80
	DUP16  = 0x8f
	SWAP1  = 0x90
	SWAP16 = 0x9f
	LOG0   = 0xa0
	LOG4   = 0xa4

	CREATE       = 0xf0
	CALL         = 0xf1
	CALLCODE     = 0xf2
	RETURN       = 0xf3
	DELEGATECALL = 0xf4
	CREATE2      = 0xf5
	STATICCALL   = 0xfa
	REVERT       = 0xfd
	INVALID      = 0xfe
	SELFDESTRUCT = 0xff
)

type opInfo struct {
	valid     bool
	pops      int
	pushes    int
	name      string
	immediate int // bytes of immediate data (PUSHn)
}

var opTable [256]opInfo

func def(op int, name string, pops, pushes int) {
	opTable[op] = opInfo{valid: true, pops: pops, pushes: pushes, name: name}
}

func init() {
	def(STOP, "STOP", 0, 0)
	def(ADD, "ADD", 2, 1)
	def(MUL, "MUL", 2, 1)
	def(SUB, "SUB", 2, 1)
	def(DIV, "DIV", 2, 1)
	def(SDIV, "SDIV", 2, 1)
	def(MOD, "MOD", 2, 1)
	def(SMOD, "SMOD", 2, 1)
	def(ADDMOD, "ADDMOD", 3, 1)
	def(MULMOD, "MULMOD", 3, 1)
	def(EXP, "EXP", 2, 1)
	def(SIGNEXTEND, "SIGNEXTEND", 2, 1)
	def(LT, "LT", 2, 1)
	def(GT, "GT", 2, 1)
	def(SLT, "SLT", 2, 1)
	def(SGT, "SGT", 2, 1)
	def(EQ, "EQ", 2, 1)
	def(ISZERO, "ISZERO", 1, 1)
	def(AND, "AND", 2, 1)
	def(OR, "OR", 2, 1)
	def(XOR, "XOR", 2, 1)
	def(NOT, "NOT", 1, 1)
	def(BYTE, "BYTE", 2, 1)
	def(SHL, "SHL", 2, 1)
	def(SHR, "SHR", 2, 1)
	def(SAR, "SAR", 2, 1)
	def(SHA3, "SHA3", 2, 1)
	def(ADDRESS, "ADDRESS", 0, 1)
	def(BALANCE, "BALANCE", 1, 1)
	def(ORIGIN, "ORIGIN", 0, 1)
	def(CALLER, "CALLER", 0, 1)
	def(CALLVALUE, "CALLVALUE", 0, 1)
	def(CALLDATALOAD, "CALLDATALOAD", 1, 1)
	def(CALLDATASIZE, "CALLDATASIZE", 0, 1)
	def(CALLDATACOPY, "CALLDATACOPY", 3, 0)
	def(CODESIZE, "CODESIZE", 0, 1)
	def(CODECOPY, "CODECOPY", 3, 0)
	def(GASPRICE, "GASPRICE", 0, 1)
	def(EXTCODESIZE, "EXTCODESIZE", 1, 1)
	def(EXTCODECOPY, "EXTCODECOPY", 4, 0)
	def(RETURNDATASIZE, "RETURNDATASIZE", 0, 1)
	def(RETURNDATACOPY, "RETURNDATACOPY", 3, 0)
	def(EXTCODEHASH, "EXTCODEHASH", 1, 1)
	def(BLOCKHASH, "BLOCKHASH", 1, 1)
	def(COINBASE, "COINBASE", 0, 1)
	def(TIMESTAMP, "TIMESTAMP", 0, 1)
	def(NUMBER, "NUMBER", 0, 1)
	def(DIFFICULTY, "DIFFICULTY", 0, 1)
	def(GASLIMIT, "GASLIMIT", 0, 1)
	def(POP, "POP", 1, 0)
	def(MLOAD, "MLOAD", 1, 1)
	def(MSTORE, "MSTORE", 2, 0)
	def(MSTORE8, "MSTORE8", 2, 0)
	def(SLOAD, "SLOAD", 1, 1)
	def(SSTORE, "SSTORE", 2, 0)
	def(JUMP, "JUMP", 1, 0)
	def(JUMPI, "JUMPI", 2, 0)
	def(PC, "PC", 0, 1)
	def(MSIZE, "MSIZE", 0, 1)
	def(GAS, "GAS", 0, 1)
	def(JUMPDEST, "JUMPDEST", 0, 0)
	for i := 0; i < 32; i++ {
		def(PUSH1+i, "PUSH"+itoa(i+1), 0, 1)
		opTable[PUSH1+i].immediate = i + 1
	}
	for i := 0; i < 16; i++ {
		def(DUP1+i, "DUP"+itoa(i+1), i+1, i+2)
		def(SWAP1+i, "SWAP"+itoa(i+1), i+2, i+2)
	}
	for i := 0; i <= 4; i++ {
		def(LOG0+i, "LOG"+itoa(i), 2+i, 0)
	}
	def(CREATE, "CREATE", 3, 1)
	def(CALL, "CALL", 7, 1)
	def(CALLCODE, "CALLCODE", 7, 1)
	def(RETURN, "RETURN", 2, 0)
	def(DELEGATECALL, "DELEGATECALL", 6, 1)
	def(CREATE2, "CREATE2", 4, 1)
	def(STATICCALL, "STATICCALL", 6, 1)
	def(REVERT, "REVERT", 2, 0)
	def(SELFDESTRUCT, "SELFDESTRUCT", 1, 0)
}

func itoa(i int) string {
	if i == 0 {
		return "0"
	}
	s := ""
	for i > 0 {
		s = string(rune('0'+i%10)) + s
		i /= 10
	}
	return s
}

func opName(op byte) string {
	if opTable[op].valid {
		return opTable[op].name
	}
	if op == INVALID {
		return "INVALID"
	}
	const hexd = "0123456789abcdef"
	return "UNDEFINED_0x" + string(hexd[op>>4]) + string(hexd[op&15])
}

func isCallOp(op byte) bool {
	return op == CALL || op == CALLCODE || op == DELEGATECALL || op == STATICCALL
}

func isCreateOp(op byte) bool { return op == CREATE || op == CREATE2 }

// state-modifying opcodes (the ones Byzantium's static mode forbids)
func isWriteOp(op byte) bool {
	return op == SSTORE || (op >= LOG0 && op <= LOG4) || op == CREATE || op == CREATE2 || op == SELFDESTRUCT
}

// validOps lists every opcode of the Constantinople instruction set.
func validOps() []byte {
	var l []byte
	for i := 0; i < 256; i++ {
		if opTable[i].valid {
			l = append(l, byte(i))
		}
	}
	return l
}
