package main

// Execution of one program on the in-tree VM (github.com/dappledger/AnnChain/eth/core/vm),
// configured exactly as chain/app/evm does: params.MainnetChainConfig,
// vm.Config{EVMGasLimit: 100000000}, block number = chain height.
// exec_ref.go is the same code over the reference packages; keep both in step.

import (
	"fmt"
	"math"
	"math/big"
	"os"
	"sort"
	"time"

	icommon "github.com/dappledger/AnnChain/eth/common"
	istate "github.com/dappledger/AnnChain/eth/core/state"
	ivm "github.com/dappledger/AnnChain/eth/core/vm"
	icrypto "github.com/dappledger/AnnChain/eth/crypto"
	iethdb "github.com/dappledger/AnnChain/eth/ethdb"
	iparams "github.com/dappledger/AnnChain/eth/params"
)

const inTreeBudget = uint64(100000000) // chain/app/evm.EVMGasLimit

// chain configuration chain/app/evm.NewEVMApp installs (unexported field there): keep in step with it
var inTreeChainConfig = iparams.MainnetChainConfig

func init() {
	// developer aid (never set by the registered command): what if the application installed a
	// configuration with every fork at block 0 instead of MainnetChainConfig?
	if os.Getenv("C10_INTREE_CONFIG") == "allforks" {
		z := big.NewInt(0)
		inTreeChainConfig = &iparams.ChainConfig{ChainID: big.NewInt(1), HomesteadBlock: z, EIP150Block: z, EIP155Block: z, EIP158Block: z, ByzantiumBlock: z, ConstantinopleBlock: z}
	}
}

type itracer struct{ r *rec }

func (t *itracer) CaptureStart(from icommon.Address, to icommon.Address, call bool, input []byte, gas uint64, value *big.Int) error {
	return nil
}
func (t *itracer) CaptureState(env *ivm.EVM, pc uint64, op ivm.OpCode, gas, cost uint64, memory *ivm.Memory, stack *ivm.Stack, contract *ivm.Contract, depth int, err error) error {
	if t.r.step(depth, pc, byte(op), gas, addr(contract.Address()), stack.Data(), memory.Data(), err, false) {
		env.Cancel()
	}
	return nil
}
func (t *itracer) CaptureFault(env *ivm.EVM, pc uint64, op ivm.OpCode, gas, cost uint64, memory *ivm.Memory, stack *ivm.Stack, contract *ivm.Contract, depth int, err error) error {
	if t.r.step(depth, pc, byte(op), gas, addr(contract.Address()), stack.Data(), memory.Data(), err, true) {
		env.Cancel()
	}
	return nil
}
func (t *itracer) CaptureEnd(output []byte, gasUsed uint64, tm time.Duration, err error) error {
	return nil
}

// runInTree never lets a panic of the VM under test escape: it becomes an
// outcome of class "panic", which no reference reproduces.
func runInTree(b *built, diag bool, witness bool) (o *outcome) {
	defer func() {
		if r := recover(); r != nil {
			o = &outcome{VM: "in-tree", Class: "panic", Err: fmt.Sprint(r), rec: newRec(b.p.TopKind != topCall, diag),
				query: func(a addr) (bool, uint64) { return false, 0 }}
		}
	}()
	return runInTree1(b, diag, witness)
}

func runInTree1(b *built, diag bool, witness bool) *outcome {
	p := b.p
	db := istate.NewDatabase(iethdb.NewMemDatabase())
	st, err := istate.New(icommon.Hash{}, db)
	if err != nil {
		panic(err)
	}
	for i, a := range p.Accts {
		ad := icommon.Address(a.Addr)
		st.CreateAccount(ad)
		st.SetBalance(ad, new(big.Int).Set(a.Balance))
		st.SetNonce(ad, a.Nonce)
		if len(b.codes[i]) > 0 {
			st.SetCode(ad, b.codes[i])
		}
		for _, kv := range a.Storage {
			st.SetState(ad, icommon.Hash(kv.K), icommon.Hash(kv.V))
		}
	}
	if _, err := st.Commit(false); err != nil {
		panic(err)
	}
	st.Prepare(icommon.Hash{0x77}, icommon.Hash{0x88}, 0)
	r := newRec(p.TopKind != topCall, diag)
	ctx := ivm.Context{
		CanTransfer: func(db ivm.StateDB, a icommon.Address, amount *big.Int) bool {
			return db.GetBalance(a).Cmp(amount) >= 0
		},
		Transfer: func(db ivm.StateDB, from, to icommon.Address, amount *big.Int) {
			db.SubBalance(from, amount)
			db.AddBalance(to, amount)
		},
		GetHash: func(n uint64) icommon.Hash {
			return icommon.BytesToHash(icrypto.Keccak256([]byte("blockhash"), new(big.Int).SetUint64(n).Bytes()))
		},
		Origin:      icommon.Address(senderAddr),
		GasPrice:    big.NewInt(7),
		Coinbase:    icommon.Address(coinbaseAddr),
		GasLimit:    math.MaxUint64,
		BlockNumber: big.NewInt(p.Block),
		Time:        big.NewInt(1600000000),
		Difficulty:  big.NewInt(131072),
	}
	evm := ivm.NewEVM(ctx, st, inTreeChainConfig, ivm.Config{EVMGasLimit: inTreeBudget, Debug: true, Tracer: &itracer{r}})
	sender := ivm.AccountRef(icommon.Address(senderAddr))
	var (
		ret     []byte
		created icommon.Address
		verr    error
	)
	switch p.TopKind {
	case topCall:
		st.SetNonce(sender.Address(), st.GetNonce(sender.Address())+1)
		ret, _, verr = evm.Call(sender, icommon.Address(p.To), p.Data, topGas, p.Value)
	case topCreate:
		ret, created, _, verr = evm.Create(sender, b.initCode, topGas, p.Value)
	default:
		ret, created, _, verr = evm.Create2(sender, b.initCode, topGas, p.Value, p.Salt)
	}
	o := &outcome{VM: "in-tree", Class: classOf(verr), Ret: append([]byte{}, ret...), rec: r, GasUsed: inTreeBudget - evm.GasLeft()}
	if verr != nil {
		o.Err = verr.Error()
		if o.Class == "fail" {
			o.Ret = nil
		}
	}
	for _, l := range st.Logs() {
		lr := logRec{Addr: addr(l.Address), Data: append([]byte{}, l.Data...)}
		for _, t := range l.Topics {
			lr.Topics = append(lr.Topics, [32]byte(t))
		}
		o.Logs = append(o.Logs, lr)
	}
	uni := map[addr]struct{}{}
	for a := range r.addrs {
		uni[a] = struct{}{}
	}
	for _, a := range p.Accts {
		uni[a.Addr] = struct{}{}
	}
	uni[nonexistAddr] = struct{}{}
	uni[coinbaseAddr] = struct{}{}
	if p.TopKind != topCall {
		uni[addr(created)] = struct{}{}
	}
	for a := range uni {
		if st.HasSuicided(icommon.Address(a)) {
			o.Suicided = append(o.Suicided, a)
		}
	}
	sort.Slice(o.Suicided, func(i, j int) bool { return string(o.Suicided[i][:]) < string(o.Suicided[j][:]) })
	root, err := st.Commit(true)
	if err != nil {
		panic(err)
	}
	o.Root = [32]byte(root)
	o.query = func(a addr) (bool, uint64) {
		ia := icommon.Address(a)
		return st.Exist(ia), st.GetNonce(ia)
	}
	o.nonces = map[addr]uint64{}
	o.exists = map[addr]bool{}
	for a := range uni {
		ia := icommon.Address(a)
		o.exists[a] = st.Exist(ia)
		o.nonces[a] = st.GetNonce(ia)
	}
	if witness {
		var keys []addr
		for a := range uni {
			keys = append(keys, a)
		}
		sort.Slice(keys, func(i, j int) bool { return string(keys[i][:]) < string(keys[j][:]) })
		sui := map[addr]bool{}
		for _, a := range o.Suicided {
			sui[a] = true
		}
		for _, a := range keys {
			ia := icommon.Address(a)
			if !st.Exist(ia) && !sui[a] {
				continue
			}
			v := acctView{Addr: hexs(a[:]), Exists: st.Exist(ia), Nonce: st.GetNonce(ia), Balance: st.GetBalance(ia).String(), Suicided: sui[a]}
			code := st.GetCode(ia)
			v.CodeLen = len(code)
			h := st.GetCodeHash(ia)
			v.CodeHash = hexs(h[:])
			if len(code) <= 96 {
				v.Code = hexs(code)
			}
			v.Storage = map[string]string{}
			st.ForEachStorage(ia, func(k, val icommon.Hash) bool {
				rv := st.GetState(ia, k) // ForEachStorage hands out the RLP-encoded trie value
				v.Storage[hexs(k[:])] = hexs(rv[:])
				return len(v.Storage) < 40
			})
			o.Accounts = append(o.Accounts, v)
		}
	}
	return o
}

// precompileSelfTest checks the hard-coded curve constants of precompile.go
// against the in-tree precompiles, so that the success paths of 6, 7 and 8 are
// known to be reached.
func precompileSelfTest() string {
	pc := func(i int) ivm.PrecompiledContract {
		return ivm.PrecompiledContractsByzantium[icommon.BytesToAddress([]byte{byte(i)})]
	}
	in := append(words(g1x, g1y, g2[0], g2[1], g2[2], g2[3]), words(g1x, g1y2, g2[0], g2[1], g2[2], g2[3])...)
	out, err := pc(8).Run(in)
	if err != nil || len(out) != 32 || out[31] != 1 {
		return "pairing e(G1,G2)e(-G1,G2) is not one: G2 constants wrong"
	}
	out, err = pc(6).Run(words(g1x, g1y, g1x, g1y))
	if err != nil || string(out) != string(words(g1dx, g1dy)) {
		return "G1+G1 != 2G1 constant"
	}
	out, err = pc(7).Run(words(g1x, g1y, big.NewInt(2)))
	if err != nil || string(out) != string(words(g1dx, g1dy)) {
		return "2*G1 != 2G1 constant"
	}
	for _, e := range ecValid {
		out, err = pc(1).Run(e)
		if err != nil || len(out) != 32 {
			return "generated ecrecover input does not recover"
		}
	}
	return ""
}
