package main

// Execution of one program on the reference VM: go-ethereum v1.8.27 core/vm,
// core/state from the module cache, with the chain configuration handed in
// (O1 or O2, see main.go). Mirrors exec_intree.go line by line.

import (
	"math"
	"math/big"
	"sort"
	"time"

	rcommon "github.com/ethereum/go-ethereum/common"
	rstate "github.com/ethereum/go-ethereum/core/state"
	rvm "github.com/ethereum/go-ethereum/core/vm"
	rcrypto "github.com/ethereum/go-ethereum/crypto"
	rethdb "github.com/ethereum/go-ethereum/ethdb"
	rparams "github.com/ethereum/go-ethereum/params"
)

type rtracer struct{ r *rec }

func (t *rtracer) CaptureStart(from rcommon.Address, to rcommon.Address, call bool, input []byte, gas uint64, value *big.Int) error {
	return nil
}
func (t *rtracer) CaptureState(env *rvm.EVM, pc uint64, op rvm.OpCode, gas, cost uint64, memory *rvm.Memory, stack *rvm.Stack, contract *rvm.Contract, depth int, err error) error {
	if t.r.step(depth, pc, byte(op), gas, addr(contract.Address()), stack.Data(), memory.Data(), err, false) {
		env.Cancel()
	}
	return nil
}
func (t *rtracer) CaptureFault(env *rvm.EVM, pc uint64, op rvm.OpCode, gas, cost uint64, memory *rvm.Memory, stack *rvm.Stack, contract *rvm.Contract, depth int, err error) error {
	if t.r.step(depth, pc, byte(op), gas, addr(contract.Address()), stack.Data(), memory.Data(), err, true) {
		env.Cancel()
	}
	return nil
}
func (t *rtracer) CaptureEnd(output []byte, gasUsed uint64, tm time.Duration, err error) error {
	return nil
}

func runRef(b *built, cfg *rparams.ChainConfig, name string, diag bool, witness bool) *outcome {
	p := b.p
	db := rstate.NewDatabase(rethdb.NewMemDatabase())
	st, err := rstate.New(rcommon.Hash{}, db)
	if err != nil {
		panic(err)
	}
	for i, a := range p.Accts {
		ad := rcommon.Address(a.Addr)
		st.CreateAccount(ad)
		st.SetBalance(ad, new(big.Int).Set(a.Balance))
		st.SetNonce(ad, a.Nonce)
		if len(b.codes[i]) > 0 {
			st.SetCode(ad, b.codes[i])
		}
		for _, kv := range a.Storage {
			st.SetState(ad, rcommon.Hash(kv.K), rcommon.Hash(kv.V))
		}
	}
	if _, err := st.Commit(false); err != nil {
		panic(err)
	}
	st.Prepare(rcommon.Hash{0x77}, rcommon.Hash{0x88}, 0)
	r := newRec(p.TopKind != topCall, diag)
	ctx := rvm.Context{
		CanTransfer: func(db rvm.StateDB, a rcommon.Address, amount *big.Int) bool {
			return db.GetBalance(a).Cmp(amount) >= 0
		},
		Transfer: func(db rvm.StateDB, from, to rcommon.Address, amount *big.Int) {
			db.SubBalance(from, amount)
			db.AddBalance(to, amount)
		},
		GetHash: func(n uint64) rcommon.Hash {
			return rcommon.BytesToHash(rcrypto.Keccak256([]byte("blockhash"), new(big.Int).SetUint64(n).Bytes()))
		},
		Origin:      rcommon.Address(senderAddr),
		GasPrice:    big.NewInt(7),
		Coinbase:    rcommon.Address(coinbaseAddr),
		GasLimit:    math.MaxUint64,
		BlockNumber: big.NewInt(p.Block),
		Time:        big.NewInt(1600000000),
		Difficulty:  big.NewInt(131072),
	}
	evm := rvm.NewEVM(ctx, st, cfg, rvm.Config{Debug: true, Tracer: &rtracer{r}})
	sender := rvm.AccountRef(rcommon.Address(senderAddr))
	var (
		ret     []byte
		created rcommon.Address
		verr    error
		left    uint64
	)
	switch p.TopKind {
	case topCall:
		st.SetNonce(sender.Address(), st.GetNonce(sender.Address())+1)
		ret, left, verr = evm.Call(sender, rcommon.Address(p.To), p.Data, topGas, p.Value)
	case topCreate:
		ret, created, left, verr = evm.Create(sender, b.initCode, topGas, p.Value)
	default:
		ret, created, left, verr = evm.Create2(sender, b.initCode, topGas, p.Value, p.Salt)
	}
	o := &outcome{VM: name, Class: classOf(verr), Ret: append([]byte{}, ret...), rec: r, GasUsed: topGas - left}
	if verr != nil {
		o.Err = verr.Error()
		if o.Class == "fail" {
			o.Ret = nil
		}
	}
	for _, l := range st.Logs() {
		lr := logRec{Addr: addr(l.Address), Data: append([]byte{}, l.Data...)}
		for _, t := range l.Topics {
			lr.Topics = append(lr.Topics, [32]byte(t))
		}
		o.Logs = append(o.Logs, lr)
	}
	uni := map[addr]struct{}{}
	for a := range r.addrs {
		uni[a] = struct{}{}
	}
	for _, a := range p.Accts {
		uni[a.Addr] = struct{}{}
	}
	uni[nonexistAddr] = struct{}{}
	uni[coinbaseAddr] = struct{}{}
	if p.TopKind != topCall {
		uni[addr(created)] = struct{}{}
	}
	for a := range uni {
		if st.HasSuicided(rcommon.Address(a)) {
			o.Suicided = append(o.Suicided, a)
		}
	}
	sort.Slice(o.Suicided, func(i, j int) bool { return string(o.Suicided[i][:]) < string(o.Suicided[j][:]) })
	root, err := st.Commit(true)
	if err != nil {
		panic(err)
	}
	o.Root = [32]byte(root)
	o.query = func(a addr) (bool, uint64) {
		ia := rcommon.Address(a)
		return st.Exist(ia), st.GetNonce(ia)
	}
	o.nonces = map[addr]uint64{}
	o.exists = map[addr]bool{}
	for a := range uni {
		ia := rcommon.Address(a)
		o.exists[a] = st.Exist(ia)
		o.nonces[a] = st.GetNonce(ia)
	}
	if witness {
		var keys []addr
		for a := range uni {
			keys = append(keys, a)
		}
		sort.Slice(keys, func(i, j int) bool { return string(keys[i][:]) < string(keys[j][:]) })
		sui := map[addr]bool{}
		for _, a := range o.Suicided {
			sui[a] = true
		}
		for _, a := range keys {
			ia := rcommon.Address(a)
			if !st.Exist(ia) && !sui[a] {
				continue
			}
			v := acctView{Addr: hexs(a[:]), Exists: st.Exist(ia), Nonce: st.GetNonce(ia), Balance: st.GetBalance(ia).String(), Suicided: sui[a]}
			code := st.GetCode(ia)
			v.CodeLen = len(code)
			h := st.GetCodeHash(ia)
			v.CodeHash = hexs(h[:])
			if len(code) <= 96 {
				v.Code = hexs(code)
			}
			v.Storage = map[string]string{}
			st.ForEachStorage(ia, func(k, val rcommon.Hash) bool {
				rv := st.GetState(ia, k) // ForEachStorage hands out the RLP-encoded trie value
				v.Storage[hexs(k[:])] = hexs(rv[:])
				return len(v.Storage) < 40
			})
			o.Accounts = append(o.Accounts, v)
		}
	}
	return o
}
