// C02 — every committed block is valid and carries a verifiable +2/3 commit.
//
// Engine E1 (deterministic network of real ConsensusStates). After every
// commit of every honest node an independent oracle re-derives, from the
// node's block store and the harness' own validator model (genesis + the
// validator changes contained in committed blocks):
//
//	height/previous-block id, AppHash/ReceiptsHash = what the application
//	returned for h-1, DataHash/LastCommitHash/ValidatorsHash = hash of what
//	they commit to, the seen commit and the LastCommit embedded in the block:
//	one height, one round, type precommit, block id, every signature verified
//	with crypto/ed25519 against the validator at that index of the set in
//	force, > 2/3 of that set's power.
//
// Workload: Byzantine proposers (< 1/3 power) offering blocks with exactly one
// defect each (header fields, commit shapes), backed by Byzantine votes;
// validator-set changes between heights; random adversarial schedules.
package main

import (
	"bytes"
	"crypto/ed25519"
	"fmt"
	"os"
	"path/filepath"
	"runtime/debug"
	"sort"
	"strconv"
	"strings"
	"time"

	crypto "github.com/dappledger/AnnChain/gemmill/go-crypto"
	"github.com/dappledger/AnnChain/gemmill/types"

	"verif/lib"
	"verif/sim"
)

const prop = "C02"

// ---- harness-side validator model -----------------------------------------

type mval struct {
	addr  string
	pub   []byte
	power int64
}

type mset []mval // sorted by address

func (s mset) total() int64 {
	var t int64
	for _, v := range s {
		t += v.power
	}
	return t
}

func (s mset) copy() mset { return append(mset(nil), s...) }

func (s mset) find(addr string) int {
	for i, v := range s {
		if v.addr == addr {
			return i
		}
	}
	return -1
}

func sorted(s mset) mset {
	sort.Slice(s, func(i, j int) bool { return s[i].addr < s[j].addr })
	return s
}

func pubBytes(pk crypto.PubKey) []byte {
	p := pk.(crypto.PubKeyEd25519)
	return append([]byte(nil), p[:]...)
}

func (m *monitor) applyVC(s mset, tx []byte) mset {
	f := strings.Split(string(tx), "|")
	if len(f) != 4 || f[0] != "VC" {
		return s
	}
	idx, err1 := strconv.Atoi(f[2])
	power, err2 := strconv.ParseInt(f[3], 10, 64)
	if err1 != nil || err2 != nil || idx < 0 || idx >= len(m.net.Keys) {
		return s
	}
	pk := m.net.Keys[idx].PubKey()
	addr := string(pk.Address())
	k := s.find(addr)
	switch f[1] {
	case "add":
		if k < 0 {
			s = sorted(append(s, mval{addr, pubBytes(pk), power}))
		}
	case "upd":
		if k >= 0 {
			s[k].power = power
		}
	case "rem":
		if k >= 0 && len(s) > 1 {
			s = append(s[:k:k], s[k+1:]...)
		}
	}
	return s
}

// ---- monitor ---------------------------------------------------------------

type monitor struct {
	run    *lib.Run
	c      int64
	net    *sim.Net
	sets   map[int64]mset // validator set in force at height h
	idAt   map[int64]types.BlockID
	last   []int64
	failed bool
	label  string
}

func (m *monitor) viol(key, what string) {
	if m.failed {
		return
	}
	m.failed = true
	tr := m.net.Trace
	if len(tr) > 500 {
		tr = tr[len(tr)-500:]
	}
	m.run.ChildViolation(key, fmt.Sprintf("case %d (%s): %s", m.c, m.label, what), map[string]interface{}{"case": m.c, "seed": lib.Seed(), "label": m.label, "powers": m.net.Cfg.Powers, "real": m.net.Cfg.Real, "trace_tail": tr})
}

// verifyCommit is the independent recount.
func (m *monitor) verifyCommit(cm *types.Commit, h int64, id types.BlockID, set mset, what string) string {
	if cm == nil {
		return what + ": commit missing"
	}
	if len(cm.Precommits) != len(set) {
		return fmt.Sprintf("%s: %d precommit slots for a set of %d validators", what, len(cm.Precommits), len(set))
	}
	var tally int64
	round := int64(-1)
	for i, v := range cm.Precommits {
		if v == nil {
			continue
		}
		if v.Type != types.VoteTypePrecommit {
			return fmt.Sprintf("%s: vote %d is not a precommit", what, i)
		}
		if v.Height != h {
			return fmt.Sprintf("%s: vote %d is for height %d, not %d", what, i, v.Height, h)
		}
		if round == -1 {
			round = v.Round
		} else if v.Round != round {
			return fmt.Sprintf("%s: votes from rounds %d and %d", what, round, v.Round)
		}
		if v.ValidatorIndex != i || string(v.ValidatorAddress) != set[i].addr {
			return fmt.Sprintf("%s: vote at slot %d claims validator %d/%X", what, i, v.ValidatorIndex, v.ValidatorAddress)
		}
		sig, ok := v.Signature.(crypto.SignatureEd25519)
		if !ok || !ed25519.Verify(ed25519.PublicKey(set[i].pub), types.SignBytes(m.net.Cfg.ChainID, v), sig[:]) {
			return fmt.Sprintf("%s: signature of vote %d does not verify for the validator at that index", what, i)
		}
		if !bytes.Equal(v.BlockID.Hash, id.Hash) || !v.BlockID.PartsHeader.Equals(id.PartsHeader) {
			continue // a precommit for something else: allowed, does not count
		}
		tally += set[i].power
	}
	if tally*3 <= set.total()*2 {
		return fmt.Sprintf("%s: precommits for the block hold %d of %d power (not > 2/3)", what, tally, set.total())
	}
	return ""
}

func (m *monitor) onStep(n *sim.Net, i int) {
	nd := n.Nodes[i]
	if !nd.Up || m.failed {
		return
	}
	sh := nd.Store.Height()
	for h := m.last[i] + 1; h <= sh; h++ {
		m.checkBlock(nd, h)
		if m.failed {
			return
		}
	}
	m.last[i] = sh
}

func (m *monitor) checkBlock(nd *sim.Node, h int64) {
	blk := nd.Store.LoadBlock(h)
	meta := nd.Store.LoadBlockMeta(h)
	seen := nd.Store.LoadSeenCommit(h)
	if blk == nil || meta == nil {
		m.viol("committed-block-unreadable", fmt.Sprintf("node %d height %d", nd.Idx, h))
		return
	}
	m.run.Count("commits_checked", 1)
	id := types.BlockID{Hash: blk.Hash(), PartsHeader: meta.PartsHeader}
	if first, ok := m.idAt[h]; !ok {
		m.idAt[h] = id
		// the set in force at h+1 follows from the set at h and this block's txs
		next := m.sets[h].copy()
		for _, tx := range blk.Data.Txs {
			next = m.applyVC(next, tx)
		}
		m.sets[h+1] = next
		if len(next) != len(m.sets[h]) || next.total() != m.sets[h].total() {
			m.run.Count("validator_set_changes", 1)
		}
	} else if !bytes.Equal(first.Hash, id.Hash) {
		return // disagreement is C01's verdict; the per-block checks below need one chain
	}
	set := m.sets[h]
	bad := func(key, what string) {
		m.viol(key, fmt.Sprintf("node %d committed block %d (%X): %s", nd.Idx, h, blk.Hash(), what))
	}
	if blk.Height != h {
		bad("header-height", fmt.Sprintf("header height %d", blk.Height))
		return
	}
	if blk.ChainID != m.net.Cfg.ChainID {
		bad("header-chainid", "chain id "+blk.ChainID)
		return
	}
	if blk.NumTxs != int64(len(blk.Data.Txs)+len(blk.Data.ExTxs)) {
		bad("header-numtxs", fmt.Sprintf("NumTxs %d for %d txs", blk.NumTxs, len(blk.Data.Txs)+len(blk.Data.ExTxs)))
		return
	}
	if h == 1 {
		if !blk.LastBlockID.IsZero() {
			bad("header-lastblockid", "block 1 names a predecessor")
			return
		}
	} else {
		prev := m.idAt[h-1]
		if !bytes.Equal(blk.LastBlockID.Hash, prev.Hash) || !blk.LastBlockID.PartsHeader.Equals(prev.PartsHeader) {
			bad("header-lastblockid", fmt.Sprintf("names %X, block %d is %X", blk.LastBlockID.Hash, h-1, prev.Hash))
			return
		}
	}
	// application hashes of the prior state, as recorded by this node's application
	var wantApp, wantRcpt []byte
	if h >= 2 {
		if int(h-2) >= len(nd.App.History) {
			bad("app-history", "application has no record for the prior height")
			return
		}
		wantApp, wantRcpt = nd.App.History[h-2].AppHash, nd.App.History[h-2].ReceiptsHash
	}
	if !bytes.Equal(blk.AppHash, wantApp) {
		bad("header-apphash", fmt.Sprintf("AppHash %X, application returned %X for %d", blk.AppHash, wantApp, h-1))
		return
	}
	if !bytes.Equal(blk.ReceiptsHash, wantRcpt) {
		bad("header-receiptshash", fmt.Sprintf("ReceiptsHash %X, application returned %X for %d", blk.ReceiptsHash, wantRcpt, h-1))
		return
	}
	// header commitments (the loaded block has no cached hashes)
	if !bytes.Equal(blk.DataHash, blk.Data.Hash()) {
		bad("header-datahash", "DataHash is not the hash of the block's transactions")
		return
	}
	if !bytes.Equal(blk.LastCommitHash, blk.LastCommit.Hash()) {
		bad("header-lastcommithash", "LastCommitHash is not the hash of the embedded commit")
		return
	}
	// validator-set hash: the node's set in force must match the model, and the header must commit to it
	vs := valsetFor(m, set)
	if vs != nil && !bytes.Equal(blk.ValidatorsHash, m.valHash(nd, h, set)) {
		bad("header-validatorshash", fmt.Sprintf("ValidatorsHash %X is not the hash of the validator set in force at height %d", blk.ValidatorsHash, h))
		return
	}
	if why := m.verifyCommit(seen, h, id, set, "seen commit"); why != "" {
		bad("seen-commit-invalid", why)
		return
	}
	if h >= 2 {
		if why := m.verifyCommit(blk.LastCommit, h-1, m.idAt[h-1], m.sets[h-1], "embedded last commit"); why != "" {
			bad("last-commit-invalid", why)
			return
		}
		// what the store returns as the commit of h-1 is that embedded commit
		if bc := nd.Store.LoadBlockCommit(h - 1); bc == nil || !bytes.Equal(bc.Hash(), blk.LastCommit.Hash()) {
			bad("stored-block-commit-differs", "LoadBlockCommit(h-1) is not the LastCommit of block h")
			return
		}
	} else if len(blk.LastCommit.Precommits) != 0 {
		bad("last-commit-invalid", "block 1 carries precommits")
		return
	}
}

func valsetFor(m *monitor, set mset) mset { return set }

// valHash: hash of the validator set in force at height h. The accumulators
// are part of the hashed validator encoding, so the hash is taken from a set
// that the harness evolves itself: the node's own state is only used to
// cross-check membership and powers against the model.
func (m *monitor) valHash(nd *sim.Node, h int64, set mset) []byte {
	vs := m.evolved(h)
	// cross-check membership/power of the harness-evolved set with the model
	if len(vs.Validators) != len(set) {
		m.viol("validator-model-mismatch", fmt.Sprintf("height %d: evolved set has %d validators, model %d", h, len(vs.Validators), len(set)))
		return nil
	}
	for i, v := range vs.Validators {
		if string(v.Address) != set[i].addr || v.VotingPower != set[i].power {
			m.viol("validator-model-mismatch", fmt.Sprintf("height %d: validator %d differs from model", h, i))
			return nil
		}
	}
	return vs.Hash()
}

var evolvedCache = map[*monitor]map[int64]*types.ValidatorSet{}

// evolved re-derives the validator set object for height h from genesis by the
// documented rule: one proposer selection per height, changes of block h-1
// applied before the selection.
func (m *monitor) evolved(h int64) *types.ValidatorSet {
	c := evolvedCache[m]
	if c == nil {
		c = map[int64]*types.ValidatorSet{}
		evolvedCache[m] = c
	}
	if vs, ok := c[h]; ok {
		return vs
	}
	var vs *types.ValidatorSet
	if h == 1 {
		var vals []*types.Validator
		for _, gv := range m.net.Genesis.Validators {
			vals = append(vals, &types.Validator{Address: gv.PubKey.Address(), PubKey: gv.PubKey, VotingPower: gv.Amount, IsCA: gv.IsCA})
		}
		vs = types.NewValidatorSet(vals)
	} else {
		prev := m.evolved(h - 1).Copy()
		blk := m.blockAt(h - 1)
		if blk != nil {
			for _, tx := range blk.Data.Txs {
				sim.ApplyValChangeTx(m.net, tx, prev)
			}
		}
		prev.IncrementAccum(1)
		vs = prev
	}
	c[h] = vs
	return vs
}

func (m *monitor) blockAt(h int64) *types.Block {
	for _, nd := range m.net.Nodes {
		if nd.Real && nd.Up && nd.Store.Height() >= h {
			return nd.Store.LoadBlock(h)
		}
	}
	return nil
}

// ---- malformed block mutations ----------------------------------------------

type mutation struct {
	name  string
	minH  int64
	apply func(b *types.Block, ref *sim.Node, n *sim.Net, byz []int) bool
}

func recommit(b *types.Block, c *types.Commit) {
	b.LastCommit = &types.Commit{BlockID: c.BlockID, Precommits: c.Precommits}
	b.LastCommitHash = nil
	b.FillHeader()
}

func cloneVotes(c *types.Commit) []*types.Vote {
	out := make([]*types.Vote, len(c.Precommits))
	for i, v := range c.Precommits {
		if v != nil {
			out[i] = v.Copy()
		}
	}
	return out
}

func firstByzSlot(b *types.Block, ref *sim.Node, n *sim.Net, byz []int) (slot, node int) {
	lv := ref.CS.VerifRoundState().LastValidators
	for _, x := range byz {
		if k := n.ValIndex(lv, x); k >= 0 {
			return k, x
		}
	}
	return -1, -1
}

func mutations() []mutation {
	garbage := []byte("garbage-garbage-garb")
	return []mutation{
		{"none", 1, func(b *types.Block, _ *sim.Node, _ *sim.Net, _ []int) bool { return true }},
		{"height+1", 1, func(b *types.Block, _ *sim.Node, _ *sim.Net, _ []int) bool { b.Height++; return true }},
		{"height-1", 2, func(b *types.Block, _ *sim.Node, _ *sim.Net, _ []int) bool { b.Height--; return true }},
		{"chainid", 1, func(b *types.Block, _ *sim.Node, _ *sim.Net, _ []int) bool { b.ChainID = "othernet"; return true }},
		{"numtxs", 1, func(b *types.Block, _ *sim.Node, _ *sim.Net, _ []int) bool { b.NumTxs++; return true }},
		{"lastblockid-hash", 1, func(b *types.Block, _ *sim.Node, _ *sim.Net, _ []int) bool {
			b.LastBlockID.Hash = append([]byte(nil), garbage...)
			return true
		}},
		{"lastblockid-parts", 2, func(b *types.Block, _ *sim.Node, _ *sim.Net, _ []int) bool {
			b.LastBlockID.PartsHeader.Total++
			return true
		}},
		{"datahash", 1, func(b *types.Block, _ *sim.Node, _ *sim.Net, _ []int) bool {
			b.DataHash = append([]byte(nil), garbage...)
			return true
		}},
		{"data-changed-hash-stale", 1, func(b *types.Block, _ *sim.Node, _ *sim.Net, _ []int) bool {
			b.Data = &types.Data{Txs: append(append(types.Txs{}, b.Data.Txs...), types.Tx("smuggled")), ExTxs: b.Data.ExTxs}
			b.NumTxs++
			return true
		}},
		{"apphash", 1, func(b *types.Block, _ *sim.Node, _ *sim.Net, _ []int) bool {
			b.AppHash = append([]byte(nil), garbage...)
			return true
		}},
		{"receiptshash", 1, func(b *types.Block, _ *sim.Node, _ *sim.Net, _ []int) bool {
			b.ReceiptsHash = append([]byte(nil), garbage...)
			return true
		}},
		{"validatorshash", 1, func(b *types.Block, _ *sim.Node, _ *sim.Net, _ []int) bool {
			b.ValidatorsHash = append([]byte(nil), garbage...)
			return true
		}},
		{"lastcommithash", 1, func(b *types.Block, _ *sim.Node, _ *sim.Net, _ []int) bool {
			b.LastCommitHash = append([]byte(nil), garbage...)
			return true
		}},
		{"commit-missing", 2, func(b *types.Block, _ *sim.Node, _ *sim.Net, _ []int) bool {
			recommit(b, &types.Commit{})
			return true
		}},
		{"commit-all-nil", 2, func(b *types.Block, _ *sim.Node, _ *sim.Net, _ []int) bool {
			recommit(b, &types.Commit{BlockID: b.LastCommit.BlockID, Precommits: make([]*types.Vote, len(b.LastCommit.Precommits))})
			return true
		}},
		{"commit-undersigned", 2, func(b *types.Block, ref *sim.Node, _ *sim.Net, _ []int) bool {
			lv := ref.CS.VerifRoundState().LastValidators
			vs := cloneVotes(b.LastCommit)
			var tally int64
			for i, v := range vs {
				if v != nil {
					tally += lv.Validators[i].VotingPower
				}
			}
			for i, v := range vs { // drop votes until exactly <= 2/3 remains
				if tally*3 <= lv.TotalVotingPower()*2 {
					break
				}
				if v != nil {
					tally -= lv.Validators[i].VotingPower
					vs[i] = nil
				}
			}
			recommit(b, &types.Commit{BlockID: b.LastCommit.BlockID, Precommits: vs})
			return true
		}},
		{"commit-duplicated-vote", 2, func(b *types.Block, _ *sim.Node, _ *sim.Net, _ []int) bool {
			vs := cloneVotes(b.LastCommit)
			src := -1
			for i, v := range vs {
				if v != nil {
					src = i
					break
				}
			}
			if src < 0 || len(vs) < 2 {
				return false
			}
			dst := (src + 1) % len(vs)
			vs[dst] = vs[src].Copy()
			recommit(b, &types.Commit{BlockID: b.LastCommit.BlockID, Precommits: vs})
			return true
		}},
		{"commit-bad-signature", 2, func(b *types.Block, _ *sim.Node, _ *sim.Net, _ []int) bool {
			vs := cloneVotes(b.LastCommit)
			for _, v := range vs {
				if v != nil {
					s := v.Signature.(crypto.SignatureEd25519)
					s[5] ^= 0x40
					v.Signature = s
					recommit(b, &types.Commit{BlockID: b.LastCommit.BlockID, Precommits: vs})
					return true
				}
			}
			return false
		}},
		{"commit-foreign-height", 3, func(b *types.Block, ref *sim.Node, n *sim.Net, byz []int) bool {
			slot, node := firstByzSlot(b, ref, n, byz)
			if slot < 0 {
				return false
			}
			vs := cloneVotes(b.LastCommit)
			lv := ref.CS.VerifRoundState().LastValidators
			vs[slot] = n.SignVote(lv, node, b.Height-2, b.LastCommit.Round(), types.VoteTypePrecommit, b.LastCommit.BlockID)
			recommit(b, &types.Commit{BlockID: b.LastCommit.BlockID, Precommits: vs})
			return true
		}},
		{"commit-foreign-round", 2, func(b *types.Block, ref *sim.Node, n *sim.Net, byz []int) bool {
			slot, node := firstByzSlot(b, ref, n, byz)
			if slot < 0 {
				return false
			}
			vs := cloneVotes(b.LastCommit)
			lv := ref.CS.VerifRoundState().LastValidators
			vs[slot] = n.SignVote(lv, node, b.Height-1, b.LastCommit.Round()+1, types.VoteTypePrecommit, b.LastCommit.BlockID)
			recommit(b, &types.Commit{BlockID: b.LastCommit.BlockID, Precommits: vs})
			return true
		}},
		{"commit-prevote-inside", 2, func(b *types.Block, ref *sim.Node, n *sim.Net, byz []int) bool {
			slot, node := firstByzSlot(b, ref, n, byz)
			if slot < 0 {
				return false
			}
			vs := cloneVotes(b.LastCommit)
			lv := ref.CS.VerifRoundState().LastValidators
			vs[slot] = n.SignVote(lv, node, b.Height-1, b.LastCommit.Round(), types.VoteTypePrevote, b.LastCommit.BlockID)
			recommit(b, &types.Commit{BlockID: b.LastCommit.BlockID, Precommits: vs})
			return true
		}},
		{"commit-too-many-slots", 2, func(b *types.Block, _ *sim.Node, _ *sim.Net, _ []int) bool {
			vs := append(cloneVotes(b.LastCommit), nil)
			recommit(b, &types.Commit{BlockID: b.LastCommit.BlockID, Precommits: vs})
			return true
		}},
	}
}

// ---- cases -------------------------------------------------------------------

func runCase(run *lib.Run, c int64, base string) {
	rng := lib.Rand("c02", c)
	muts := mutations()
	ns := []int{4, 4, 5, 7}
	n := ns[rng.Intn(len(ns))]
	powers := make([]int64, n)
	for i := range powers {
		if c%2 == 0 {
			powers[i] = 10
		} else {
			powers[i] = int64(5 + rng.Intn(6))
		}
	}
	var total int64
	for _, p := range powers {
		total += p
	}
	real := make([]bool, n)
	for i := range real {
		real[i] = true
	}
	var byz []int
	var bp int64
	for _, i := range rng.Perm(n) {
		if (bp+powers[i])*3 < total {
			bp += powers[i]
			byz = append(byz, i)
			real[i] = false
		}
	}
	kind := "badblock"
	if c%5 == 4 {
		kind = "valchange"
	}
	if c%10 == 7 {
		// scripted: a commit that needs the second (conflicting) precommit of an equivocating validator
		kind = "eqvcommit"
		n = 4
		pw := []int64{1, 10, 7}[(c/10)%3]
		powers, real, byz = []int64{pw, pw, pw, pw}, []bool{true, true, true, true}, []int{rng.Intn(4)}
		real[byz[0]] = false
	}
	if c%10 == 2 {
		// scripted: a malformed relative of a well-formed block the honest validators validated
		// earlier in the same height (seven equal validators, two of them Byzantine)
		kind = "aftervalid"
		n = 7
		pw := []int64{1, 10, 7}[(c/10)%3]
		powers, real, byz = make([]int64, 7), make([]bool, 7), nil
		for i := range powers {
			powers[i], real[i] = pw, true
		}
		for _, i := range rng.Perm(7)[:2] {
			byz = append(byz, i)
			real[i] = false
		}
	}
	spare := -1
	if kind == "valchange" {
		powers = append(powers, 0) // a full node that may be added as validator
		real = append(real, true)
		spare = len(powers) - 1
	}
	dir := filepath.Join(base, fmt.Sprintf("c%d", c))
	os.MkdirAll(dir, 0755)
	defer lib.RemoveLater(dir)
	run.Eval()
	net, err := sim.NewNet(sim.Config{Powers: powers, Real: real, Dir: dir, Label: "c02"})
	if err != nil {
		run.Inconclusive(fmt.Sprintf("case %d: %v", c, err))
		return
	}
	net.KeepTrace = true
	m := &monitor{run: run, c: c, net: net, sets: map[int64]mset{}, idAt: map[int64]types.BlockID{}, last: make([]int64, len(net.Nodes))}
	defer func() {
		if r := recover(); r != nil {
			run.Count("runs_aborted_by_panic", 1)
			run.Distinct("panic_sites", fmt.Sprint(r))
			tr := net.Trace
			if len(tr) > 120 {
				tr = tr[len(tr)-120:]
			}
			lib.WriteObservation(prop, fmt.Sprintf("panic-case%d", c), map[string]interface{}{"panic": fmt.Sprint(r), "stack": string(debug.Stack()), "case": c, "label": m.label, "powers": powers, "byz": byz, "trace_tail": tr})
		}
		delete(evolvedCache, m)
		func() { defer func() { recover() }(); net.Close() }()
	}()
	var g mset
	for _, gv := range net.Genesis.Validators {
		g = append(g, mval{string(gv.PubKey.Address()), pubBytes(gv.PubKey), gv.Amount})
	}
	m.sets[1] = sorted(g)
	net.OnStep = m.onStep
	adv := sim.NewAdversary(net, rng, byz)
	adv.PCrash = 0
	target := int64(3)
	if kind == "valchange" {
		m.label = "valchange"
		for _, nd := range net.Nodes {
			if nd.Real {
				nd.App.ValChanges = true
			}
		}
		// feed validator changes through honest proposers' pools
		ops := []string{}
		var honest []int
		for i, r := range real {
			if r && powers[i] > 0 {
				honest = append(honest, i)
			}
		}
		for k := 0; k < 3; k++ {
			switch rng.Intn(4) {
			case 0:
				ops = append(ops, fmt.Sprintf("VC|upd|%d|%d", honest[rng.Intn(len(honest))], 10+rng.Intn(15)))
			case 1:
				ops = append(ops, fmt.Sprintf("VC|add|%d|%d", spare, 3+rng.Intn(5)))
			case 2:
				if len(byz) > 0 {
					ops = append(ops, fmt.Sprintf("VC|rem|%d|0", byz[rng.Intn(len(byz))]))
				}
			default:
				ops = append(ops, fmt.Sprintf("VC|upd|%d|%d", spare, 1+rng.Intn(4)))
			}
		}
		target = 6
		for hgt := int64(1); hgt <= target && !m.failed; hgt++ {
			if int(hgt-1) < len(ops) {
				for _, nd := range net.Nodes {
					if nd.Real {
						nd.Pool.Extra = [][]byte{[]byte(ops[hgt-1])}
					}
				}
			}
			if hgt%2 == 0 {
				adv.RunUntil(hgt, 1500)
			}
			if _, ok := adv.FairSuffix(hgt, 8000); !ok {
				break
			}
		}
	} else if kind == "aftervalid" {
		// mutations that leave the header alone give B the hash of A; the others are ordinary
		// malformed blocks offered late in a height
		names := []string{"body-changed-header-kept", "data-changed-hash-stale", "lastcommit-changed-hash-stale", "body-changed-header-kept", "none"}
		want := names[int(c/10)%len(names)]
		mu := muts[0]
		for _, x := range muts {
			if x.name == want {
				mu = x
			}
		}
		if want == "body-changed-header-kept" {
			mu = mutation{want, 1, func(b *types.Block, _ *sim.Node, _ *sim.Net, _ []int) bool {
				// the header, hence the block hash, is that of the well-formed block, byte for byte
				b.Data = &types.Data{Txs: append(append(types.Txs{}, b.Data.Txs...), types.Tx("smuggled")), ExTxs: b.Data.ExTxs}
				return true
			}}
		}
		if want == "lastcommit-changed-hash-stale" {
			mu = mutation{want, 2, func(b *types.Block, _ *sim.Node, _ *sim.Net, _ []int) bool {
				// the header keeps LastCommitHash; the embedded commit loses all but one precommit
				if b.LastCommit == nil || len(b.LastCommit.Precommits) < 2 {
					return false
				}
				pcs := cloneVotes(b.LastCommit)
				kept := false
				for i := range pcs {
					if pcs[i] != nil && !kept {
						kept = true
						continue
					}
					pcs[i] = nil
				}
				b.LastCommit = &types.Commit{BlockID: b.LastCommit.BlockID, Precommits: pcs}
				return true
			}}
		}
		m.label = "aftervalid:" + mu.name
		run.Count("after_valid_cases", 1)
		if mu.minH > 1 {
			adv.FairSuffix(mu.minH-1, 8000)
		}
		staged, h, id := adv.AttackBadBlockAfterValid(func(b *types.Block, ref *sim.Node) bool { return mu.apply(b, ref, net, byz) })
		if staged {
			run.Count("after_valid_staged", 1)
			run.Count("after_valid_offered_"+mu.name, 1)
			run.Count("after_valid_honest_validators_still_remembering_the_valid_block", int64(adv.AfterValidHolders))
			committed := false
			for _, nd := range net.Nodes {
				if nd.Real && nd.Up && nd.Store.Height() >= h {
					if b := nd.Store.LoadBlock(h); b != nil && bytes.Equal(b.Hash(), id.Hash) && nd.Store.LoadBlockMeta(h).PartsHeader.Equals(id.PartsHeader) {
						committed = true
					}
				}
			}
			if mu.name != "none" && committed {
				m.viol("malformed-block-committed-after-valid-relative:"+mu.name, fmt.Sprintf("a block with defect %q, offered at height %d after the honest validators had validated its well-formed relative, was committed by an honest node", mu.name, h))
			} else if mu.name != "none" {
				run.Count("malformed_rejected", 1)
			}
			run.Nontrivial(fmt.Sprintf("av/%s/%d/%d", mu.name, c, h))
		} else {
			run.Count("attack_not_staged", 1)
		}
		adv.RunUntil(target, 1500)
		adv.FairSuffix(target, 8000)
	} else if kind == "eqvcommit" {
		m.label = "eqvcommit"
		run.Count("equivocal_commit_cases", 1)
		if adv.AttackEquivocalCommit() {
			run.Count("equivocal_commit_staged", 1)
			run.Nontrivial(fmt.Sprintf("eqc/%d", c))
		}
		adv.RunUntil(target, 1500)
		adv.FairSuffix(target, 8000)
	} else {
		mu := muts[int(c/5*4+c%5)%len(muts)]
		m.label = "badblock:" + mu.name
		// get past the minimum height fairly
		if mu.minH > 1 {
			adv.FairSuffix(mu.minH-1, 8000)
		}
		staged, h, id := adv.AttackBadBlock(10, func(b *types.Block, ref *sim.Node) bool {
			if b.Height < mu.minH {
				return false
			}
			return mu.apply(b, ref, net, byz)
		})
		if staged {
			run.Count("malformed_offered_"+mu.name, 1)
			committed := false
			for _, nd := range net.Nodes {
				if nd.Real && nd.Up && nd.Store.Height() >= h {
					if b := nd.Store.LoadBlock(h); b != nil && bytes.Equal(b.Hash(), id.Hash) {
						committed = true
					}
				}
			}
			if mu.name == "none" {
				if committed {
					run.Count("wellformed_byzantine_block_committed", 1)
				}
			} else if committed {
				m.viol("malformed-block-committed:"+mu.name, fmt.Sprintf("a block with defect %q proposed by a Byzantine validator at height %d was committed by an honest node", mu.name, h))
			} else {
				run.Count("malformed_rejected", 1)
			}
			run.Nontrivial(fmt.Sprintf("%s/%v/%d", mu.name, powers, h))
		} else {
			run.Count("attack_not_staged", 1)
		}
		adv.RunUntil(target, 1500)
		adv.FairSuffix(target, 8000)
	}
	if kind == "valchange" {
		run.Nontrivial(fmt.Sprintf("vc/%d/%v", c, powers))
	}
	run.Count("steps", int64(net.Steps))
	run.Distinct("schedules", lib.Hash12(net.Trace))
	if c < 2 {
		tr := net.Trace
		if len(tr) > 20 {
			tr = tr[:20]
		}
		run.Sample(map[string]interface{}{"case": c, "label": m.label, "powers": powers, "byz": byz, "first_actions": tr})
	}
}

func worker(args []string) {
	i, _ := strconv.Atoi(args[0])
	wn, _ := strconv.Atoi(args[1])
	out := args[2]
	run := lib.NewChildRun(prop)
	base := lib.Scratch(prop)
	defer os.RemoveAll(base)
	total := int64(lib.Pick(300, 10000))
	for c := int64(i); c < total; c += int64(wn) {
		runCase(run, c, base)
	}
	run.MarkComplete()
	if err := run.ExportTo(out); err != nil {
		fmt.Println("export failed:", err)
		os.Exit(1)
	}
}

func main() {
	if len(os.Args) > 1 && os.Args[1] == "worker" {
		worker(os.Args[2:])
		return
	}
	run := lib.NewRun(prop, "exploration")
	run.SetRule("seeded cases on 4-7 validators with a Byzantine subset (< 1/3 power): 4 of 5 cases stage a Byzantine round-0 proposer offering a block with exactly one defect (22 kinds: each header field, 9 commit shapes; kind 'none' is the well-formed control) backed by Byzantine prevotes/precommits, then a random adversarial schedule; 1 of 5 cases drives validator-set changes (power update, add, remove) through committed blocks. Every commit of every honest node is re-verified independently. Non-trivial = distinct (defect kind, powers, height) staged, or a validator-change case.")
	run.Assume("hash functions (Merkle, go-wire binary) are the definition of 'hash of what it commits to' (their correctness is C17/C18)", "ValidatorsHash is compared against a validator set the harness evolves from genesis by the documented rule; membership and powers are cross-checked against an independent map model", "signatures are verified with crypto/ed25519 of the Go standard library")
	run.RunWorkers(16, time.Duration(lib.Pick(20, 60))*time.Minute, nil, nil)
	run.Require("commits_checked", 1000)
	run.Require("malformed_rejected", 100)
	run.Require("wellformed_byzantine_block_committed", 5)
	run.Require("validator_set_changes", 20)
	run.Require("equivocal_commit_staged", 10)
	if n := run.Get("runs_aborted_by_panic"); n > 0 {
		// a case that ended in a panic of the code under test was not judged: never a silent pass
		// (what a peer can make a node panic with is C08's subject; the sites are in the evidence)
		run.Inconclusive(fmt.Sprintf("%d cases were aborted by a panic of the code under test and could not be judged (distinct sites: evidence, set panic_sites)", n))
	}
	os.Exit(run.Finish())
}
