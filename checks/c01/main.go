// C01 — agreement and chain linearity, observed on a deterministic network of
// real ConsensusState instances (engine E1) under seeded adversarial schedules:
// reordering, duplication, loss (never delivering), premature timeouts,
// Byzantine validators (< 1/3 power) signing conflicting proposals and votes,
// honest crash/restart from WAL + stores + signer file.
//
// Oracle (harness-side map, never calls AnnChain validation code):
//
//	(a) all honest nodes that show a block at height h show the same hash
//	(b) block h+1 of a node names that node's block h (hash and parts header)
//	(c) what a node has shown for h never changes, also across restarts, and
//	    its store height never goes backwards.
package main

import (
	"bytes"
	"fmt"
	"os"
	"path/filepath"
	"strconv"
	"strings"
	"time"

	"github.com/dappledger/AnnChain/gemmill/types"

	"verif/lib"
	"verif/sim"
)

const prop = "C01"

type caseCfg struct {
	Case    int64
	Powers  []int64
	Real    []bool
	Byz     []int
	Heights int64
	Profile string
	Silent  int // tmpl-valset-eqv: the validator that never runs
}

func genCase(c int64) caseCfg {
	rng := lib.Rand("c01-cfg", c)
	ns := []int{1, 2, 3, 4, 4, 4}
	if lib.Thorough() {
		ns = []int{1, 2, 3, 4, 4, 4, 5, 5, 7}
	}
	n := ns[rng.Intn(len(ns))]
	p := make([]int64, n)
	switch rng.Intn(5) {
	case 0:
		for i := range p {
			p[i] = 1
		}
	case 1:
		for i := range p {
			p[i] = 10
		}
	case 2: // one heavier
		for i := range p {
			p[i] = 2
		}
		p[rng.Intn(n)] = 3
	case 3: // geometric-ish
		v := int64(1)
		for i := range p {
			p[i] = v
			if i%2 == 1 {
				v *= 2
			}
		}
	default: // near the 1/3 boundary
		for i := range p {
			p[i] = 33
		}
		p[rng.Intn(n)] = 34
		if n >= 4 {
			p[rng.Intn(n)] = 11
		}
	}
	var total int64
	for _, v := range p {
		total += v
	}
	// Byzantine subset with power*3 < total
	real := make([]bool, n)
	for i := range real {
		real[i] = true
	}
	var byz []int
	var bp int64
	if rng.Float64() < 0.75 {
		for _, i := range rng.Perm(n) {
			if (bp+p[i])*3 < total && rng.Float64() < 0.8 {
				bp += p[i]
				byz = append(byz, i)
				real[i] = false
			}
		}
	}
	cc := caseCfg{Case: c, Powers: p, Real: real, Byz: byz, Heights: int64(2 + rng.Intn(lib.Pick(2, 4)))}
	cc.Profile = []string{"balanced", "timeouts", "crashy", "byzheavy", "lossy", "partition", "partition-byz", "tmpl-eqv", "tmpl-eqv", "tmpl-amnesia", "tmpl-amnesia-crash"}[rng.Intn(11)]
	if len(cc.Profile) > 5 && cc.Profile[:5] == "tmpl-" && len(cc.Byz) == 0 {
		// templates need a Byzantine validator: smallest node whose power is < 1/3
		for i := range p {
			if p[i]*3 < total {
				cc.Byz = []int{i}
				cc.Real[i] = false
				break
			}
		}
	}
	if c%8 == 3 {
		// scripted: four equal validators, one Byzantine (stale-polka template)
		z := rng.Intn(4)
		pw := []int64{1, 10, 33}[(c/8)%3]
		cc.Powers, cc.Real, cc.Byz, cc.Profile = []int64{pw, pw, pw, pw}, []bool{true, true, true, true}, []int{z}, "tmpl-stale-polka"
		cc.Real[z] = false
		return cc
	}
	if c%8 == 5 {
		// scripted: five validators (three honest and one Byzantine of power 10, one of power 4 that never runs); the first block removes
		// the one that never runs and raises an honest validator's power - two membership operations
		// applied one after the other to the same next set - then the Byzantine validator equivocates
		// as proposer with split delivery
		z := rng.Intn(5)
		s := (z + 1 + rng.Intn(4)) % 5
		cc.Powers, cc.Real, cc.Byz, cc.Profile = []int64{10, 10, 10, 10, 10}, []bool{true, true, true, true, true}, []int{z}, "tmpl-valset-eqv"
		cc.Real[z], cc.Real[s] = false, false
		cc.Powers[s] = 4 // the three honest ones hold 30 of 44, afterwards 40 of 50; the Byzantine one 10
		cc.Silent = s
		cc.Heights = 4
		return cc
	}
	// optionally a full node that is not a validator
	if rng.Float64() < 0.15 {
		cc.Powers = append(cc.Powers, 0)
		cc.Real = append(cc.Real, true)
	}
	return cc
}

type monitor struct {
	run      *lib.Run
	cc       caseCfg
	net      *sim.Net
	byHeight map[int64]sim.Commit
	byWho    map[int64]int
	last     []int64
	flags    map[string]bool
	locked   []string
	failed   bool
}

func (m *monitor) witness(extra map[string]interface{}) map[string]interface{} {
	tr := m.net.Trace
	if len(tr) > 600 {
		tr = tr[len(tr)-600:]
	}
	w := map[string]interface{}{"case": m.cc, "seed": lib.Seed(), "tier": lib.Tier(), "steps": m.net.Steps, "trace_tail": tr}
	for k, v := range extra {
		w[k] = v
	}
	return w
}

func (m *monitor) viol(key, what string, extra map[string]interface{}) {
	m.failed = true
	m.run.ChildViolation(key, fmt.Sprintf("case %d: %s", m.cc.Case, what), m.witness(extra))
}

func (m *monitor) readCommit(nd *sim.Node, h int64) (sim.Commit, bool) {
	meta := nd.Store.LoadBlockMeta(h)
	blk := nd.Store.LoadBlock(h)
	if meta == nil || blk == nil {
		return sim.Commit{}, false
	}
	return sim.Commit{Height: h, Hash: blk.Hash(), PartsHeader: meta.PartsHeader, LastBlockID: blk.LastBlockID}, true
}

func (m *monitor) onStep(n *sim.Net, i int) {
	nd := n.Nodes[i]
	if !nd.Up || m.failed {
		return
	}
	sh := nd.Store.Height()
	if sh < m.last[i] {
		m.viol("store-height-went-backwards", fmt.Sprintf("node %d store height %d after %d", i, sh, m.last[i]), nil)
		return
	}
	for h := m.last[i] + 1; h <= sh; h++ {
		cm, ok := m.readCommit(nd, h)
		if !ok {
			m.viol("committed-block-unreadable", fmt.Sprintf("node %d height %d not readable although store height is %d", i, h, sh), nil)
			return
		}
		m.run.Count("commits_observed", 1)
		if first, seen := m.byHeight[h]; seen {
			if !bytes.Equal(first.Hash, cm.Hash) {
				m.viol("fork", fmt.Sprintf("height %d: node %d committed %X, node %d committed %X", h, m.byWho[h], first.Hash, i, cm.Hash),
					map[string]interface{}{"height": h, "a": fmt.Sprintf("%X", first.Hash), "b": fmt.Sprintf("%X", cm.Hash)})
				return
			}
		} else {
			m.byHeight[h], m.byWho[h] = cm, i
		}
		if h == 1 {
			if !cm.LastBlockID.IsZero() {
				m.viol("nonlinear-chain", fmt.Sprintf("node %d block 1 names a predecessor", i), nil)
			}
		} else if prev, ok := nd.Shown[h-1]; ok {
			if !bytes.Equal(cm.LastBlockID.Hash, prev.Hash) || !cm.LastBlockID.PartsHeader.Equals(prev.PartsHeader) {
				m.viol("nonlinear-chain", fmt.Sprintf("node %d block %d names %X as predecessor, its block %d is %X", i, h, cm.LastBlockID.Hash, h-1, prev.Hash), nil)
				return
			}
		}
		nd.Shown[h] = cm
	}
	m.last[i] = sh
	// non-triviality flags from the live round state
	rs := nd.CS.VerifRoundState()
	if rs.Round > 0 {
		m.flags["round>0"] = true
	}
	if rs.Round > 2 {
		m.flags["round>2"] = true
	}
	lk := ""
	if rs.LockedBlock != nil {
		lk = fmt.Sprintf("%d/%X", rs.Height, rs.LockedBlock.Hash())
		m.flags["locked"] = true
		if rs.Round > rs.LockedRound {
			m.flags["locked-across-rounds"] = true
		}
	}
	if m.locked[i] != "" && lk == "" && len(m.locked[i]) > 0 && m.locked[i][:len(strconv.FormatInt(rs.Height, 10))+1] == fmt.Sprintf("%d/", rs.Height) {
		m.flags["unlocked"] = true
	}
	m.locked[i] = lk
}

// stability: everything shown earlier is still there, unchanged.
func (m *monitor) recheck(i int, when string) {
	nd := m.net.Nodes[i]
	if !nd.Up || m.failed {
		return
	}
	for h, was := range nd.Shown {
		cm, ok := m.readCommit(nd, h)
		m.run.Count("stability_rereads", 1)
		if !ok || !bytes.Equal(cm.Hash, was.Hash) || !cm.PartsHeader.Equals(was.PartsHeader) {
			m.viol("shown-block-changed", fmt.Sprintf("node %d height %d changed or vanished (%s)", i, h, when), nil)
			return
		}
	}
}

func runCase(run *lib.Run, c int64, base string) {
	cc := genCase(c)
	dir := filepath.Join(base, fmt.Sprintf("c%d", c))
	os.MkdirAll(dir, 0755)
	defer lib.RemoveLater(dir)
	run.Eval()
	var net *sim.Net
	var m *monitor
	defer func() {
		if r := recover(); r != nil {
			run.Count("runs_aborted_by_panic", 1)
			run.Distinct("panic_sites", fmt.Sprint(r))
			if net != nil {
				func() { defer func() { recover() }(); net.Close() }()
			}
		}
	}()
	var err error
	net, err = sim.NewNet(sim.Config{Powers: cc.Powers, Real: cc.Real, Dir: dir, Label: "c01"})
	if err != nil {
		run.Inconclusive(fmt.Sprintf("case %d: cannot build network: %v", c, err))
		return
	}
	net.KeepTrace = true
	m = &monitor{run: run, cc: cc, net: net, byHeight: map[int64]sim.Commit{}, byWho: map[int64]int{}, last: make([]int64, len(net.Nodes)), flags: map[string]bool{}, locked: make([]string, len(net.Nodes))}
	net.OnStep = func(n *sim.Net, i int) {
		if n.Nodes[i].Restarts > 0 && m.last[i] == 0 && n.Nodes[i].Up && n.Nodes[i].Store.Height() > 0 {
			// fresh boot with a non-empty store: handled below by recheck
		}
		m.onStep(n, i)
	}
	rng := lib.Rand("c01-run", c)
	adv := sim.NewAdversary(net, rng, cc.Byz)
	switch cc.Profile {
	case "timeouts":
		adv.PTimeout = 0.15
	case "crashy":
		adv.PCrash, adv.PRestart, adv.MaxCrashes = 0.02, 0.08, 8
	case "byzheavy":
		adv.PByz = 0.12
	case "lossy":
		adv.PDeliver, adv.PTimeout = 0.2, 0.12
	case "partition":
		adv.PPart, adv.PTimeout = 0.01, 0.08
	case "partition-byz":
		adv.PPart, adv.PTimeout, adv.PByz = 0.01, 0.08, 0.1
	}
	if len(cc.Byz) == 0 {
		adv.PByz = 0
	}
	restartsSeen := 0
	hook := net.OnStep
	net.OnStep = func(n *sim.Net, i int) {
		hook(n, i)
		if r := n.Nodes[i].Restarts; r > 0 {
			tot := 0
			for _, nd := range n.Nodes {
				tot += nd.Restarts
			}
			if tot != restartsSeen {
				restartsSeen = tot
				m.recheck(i, "after restart")
			}
		}
	}
	if cc.Profile == "tmpl-eqv" && c%3 == 0 {
		adv.Relabel = true
	}
	switch cc.Profile {
	case "tmpl-valset-eqv":
		run.Count("template_valset_history_cases", 1)
		raised := -1
		for i, r := range cc.Real {
			if r {
				raised = i
			}
		}
		for _, nd := range net.Nodes {
			if nd.Real {
				nd.App.ValChanges = true
				nd.Pool.Extra = [][]byte{[]byte(fmt.Sprintf("VC|rem|%d|0", cc.Silent)), []byte(fmt.Sprintf("VC|upd|%d|20", raised))}
			}
		}
		if _, ok := adv.FairSuffix(2, 8000); ok {
			if adv.AttackEquivocation(8) {
				run.Count("template_valset_history_then_equivocation_staged", 1)
			}
		}
	case "tmpl-eqv":
		if adv.AttackEquivocation(8) {
			run.Count("template_equivocation_staged", 1)
		}
	case "tmpl-amnesia":
		if adv.AttackLockAmnesia(false) {
			run.Count("template_amnesia_staged", 1)
		}
	case "tmpl-stale-polka":
		run.Count("template_stale_polka_cases", 1)
		if adv.AttackStalePolka() {
			run.Count("template_stale_polka_staged", 1)
		}
	case "tmpl-amnesia-crash":
		if adv.AttackLockAmnesia(true) {
			run.Count("template_amnesia_crash_staged", 1)
		}
		if adv.LateCrashes > 0 {
			run.Count("template_amnesia_late_crash_with_byzantine_echo", 1)
		}
	}
	reached := adv.RunUntil(cc.Heights, lib.Pick(2500, 6000))
	if !reached && !m.failed {
		_, reached = adv.FairSuffix(cc.Heights, 6000)
	}
	for i := range net.Nodes {
		m.recheck(i, "end of run")
	}
	for _, nd := range net.Nodes {
		if nd.Real {
			for _, a := range nd.App.Anomalies {
				m.viol("app-saw-block-out-of-order", fmt.Sprintf("node %d application: %s", nd.Idx, a), nil)
			}
		}
	}
	if reached {
		run.Count("runs_reached_target", 1)
	}
	if d := os.Getenv("VERIF_C01_DUMP"); d != "" {
		// replay aid: the action trace of every case of this profile goes to the file
		if f, err := os.OpenFile(d, os.O_CREATE|os.O_APPEND|os.O_WRONLY, 0644); err == nil {
			fmt.Fprintf(f, "=== case %d profile %s powers %v byz %v\n%s\n", c, cc.Profile, cc.Powers, cc.Byz, strings.Join(net.Trace, "\n"))
			f.Close()
		}
	}
	run.Count("steps", int64(net.Steps))
	run.Count("byz_votes", int64(adv.ByzVotes))
	run.Count("byz_proposals", int64(adv.ByzProposals))
	run.Count("template_amnesia_rejected_proposal_first", int64(adv.RejectedFirst))
	run.Count("template_byzantine_votes_relabelled_with_other_indices", int64(adv.Relabelled))
	run.Count("crashes", int64(adv.Crashes))
	run.Count("duplicates_delivered", int64(adv.Dups))
	run.Count("timeouts_fired", int64(adv.Fired))
	run.Count("partitions", int64(adv.Partitions))
	run.Count("byz_maj23_claims", int64(adv.Claims))
	for f := range m.flags {
		run.Count("runs_with_"+f, 1)
	}
	if len(adv.Trk.ByH) > 0 {
		for _, bs := range adv.Trk.ByH {
			if len(bs) > 1 {
				run.Count("heights_with_competing_blocks", 1)
			}
		}
	}
	run.Distinct("configs", fmt.Sprint(cc.Powers, cc.Real))
	th := lib.Hash12(net.Trace)
	run.Distinct("schedules", th)
	if net.Steps > 20 && (m.flags["round>0"] || adv.Crashes > 0 || adv.ByzVotes+adv.ByzProposals > 0) {
		run.Nontrivial(th)
	}
	if c < 2 {
		tr := net.Trace
		if len(tr) > 25 {
			tr = tr[:25]
		}
		run.Sample(map[string]interface{}{"case": cc, "steps": net.Steps, "first_actions": tr})
	}
	net.Close()
}

func worker(args []string) {
	i, _ := strconv.Atoi(args[0])
	w, _ := strconv.Atoi(args[1])
	out := args[2]
	run := lib.NewChildRun(prop)
	base := lib.Scratch(prop)
	defer os.RemoveAll(base)
	total := int64(lib.Pick(320, 6000))
	for c := int64(i); c < total; c += int64(w) {
		runCase(run, c, base)
	}
	run.MarkComplete()
	if err := run.ExportTo(out); err != nil {
		fmt.Println("export failed:", err)
		os.Exit(1)
	}
}

func main() {
	if len(os.Args) > 1 && os.Args[1] == "worker" {
		worker(os.Args[2:])
		return
	}
	run := lib.NewRun(prop, "exploration")
	run.SetRule("seeded cases: N in {1..4} (quick) / {1..7} (thorough) real ConsensusStates with power vectors {equal, one heavier, geometric, near-1/3}, a Byzantine subset with < 1/3 power whose keys the adversary uses to sign conflicting proposals/votes, 2-5 heights, seven random schedule profiles (balanced, premature timeouts, crash/restart, Byzantine-heavy, lossy, partitions, partitions with Byzantine traffic) and three scripted attack templates (equivocating proposer with split delivery; lock in round 0 + one early committer + Byzantine push of another block in round 1, with and without crash/restart of the locked nodes) followed by a random schedule; each case is one action trace. Non-trivial = distinct action trace that reached round > 0, contained a crash, or contained Byzantine messages.")
	run.Assume("crash = process death between two processed inputs (power loss not modelled)", "the network is the harness: it only delivers messages some node produced or the adversary signed with Byzantine keys", "safety only: runs that do not reach the target height still count for agreement")
	_ = types.VoteTypePrevote
	run.RunWorkers(16, time.Duration(lib.Pick(20, 60))*time.Minute, nil, nil)
	run.Require("commits_observed", 500)
	run.Require("runs_with_round>0", 10)
	run.Require("runs_with_locked", 10)
	run.Require("byz_votes", 100)
	run.Require("crashes", 20)
	run.Require("template_stale_polka_staged", 10)
	if n := run.Get("runs_aborted_by_panic"); n > 0 {
		// a case that ended in a panic of the code under test was not judged: never a silent pass
		// (what a peer can make a node panic with is C08's subject; the sites are in the evidence)
		run.Inconclusive(fmt.Sprintf("%d cases were aborted by a panic of the code under test and could not be judged (distinct sites: evidence, set panic_sites)", n))
	}
	os.Exit(run.Finish())
}
