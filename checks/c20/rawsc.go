package main

// Independent, hand-rolled implementation of the SecretConnection wire
// protocol (written from the protocol description: ephemeral X25519 exchange,
// shared secret = box.Precompute, nonces = RIPEMD160(lo||hi) zero-padded to 24
// bytes with the last bit distinguishing the directions, challenge =
// SHA256(lo||hi), fixed 1042-byte secretbox frames, length-prefixed auth
// message).  It is used (1) as the man in the middle / hostile client and
// (2) as a second opinion on what the real code must compute.

import (
	"bytes"
	crand "crypto/rand"
	"crypto/sha256"
	"encoding/binary"
	"errors"
	"fmt"
	"io"

	"golang.org/x/crypto/nacl/box"
	"golang.org/x/crypto/nacl/secretbox"
	"golang.org/x/crypto/ripemd160"
)

const (
	frameData   = 1024
	frameTotal  = frameData + 2
	frameSealed = frameTotal + secretbox.Overhead // 1042
	tagSize     = secretbox.Overhead              // 16
)

type rawSC struct {
	rw        io.ReadWriter
	locEphPub *[32]byte
	locEphPrv *[32]byte
	remEphPub *[32]byte
	secret    *[32]byte
	sendNonce *[24]byte
	recvNonce *[24]byte
	challenge [32]byte
	rbuf      []byte
	// ownPubSecret: derive the secret from our own (low-order) public key the
	// way the victim will: X25519(anything, 0) = 0.
	ownPubSecret bool
}

func genEph() (pub, prv *[32]byte) {
	pub, prv, err := box.GenerateKey(crand.Reader)
	if err != nil {
		panic(err)
	}
	return
}

// rawEph performs the ephemeral-key exchange with the given (possibly
// adversarial) local ephemeral key pair and derives secret, nonces, challenge.
func rawEph(rw io.ReadWriter, ephPub, ephPrv *[32]byte) (*rawSC, error) {
	sc := &rawSC{rw: rw, locEphPub: ephPub, locEphPrv: ephPrv}
	if *ephPub == ([32]byte{}) {
		sc.ownPubSecret = true
	}
	if _, err := rw.Write(ephPub[:]); err != nil {
		return nil, err
	}
	sc.remEphPub = new([32]byte)
	if _, err := io.ReadFull(rw, sc.remEphPub[:]); err != nil {
		return nil, err
	}
	sc.derive()
	return sc, nil
}

func (sc *rawSC) derive() {
	sc.secret = new([32]byte)
	if sc.ownPubSecret {
		box.Precompute(sc.secret, sc.locEphPub, sc.locEphPrv)
	} else {
		box.Precompute(sc.secret, sc.remEphPub, sc.locEphPrv)
	}
	lo, hi := sc.locEphPub, sc.remEphPub
	locIsLo := true
	if bytes.Compare(lo[:], hi[:]) >= 0 {
		lo, hi = hi, lo
		locIsLo = false
	}
	cat := append(append([]byte{}, lo[:]...), hi[:]...)
	h := ripemd160.New()
	h.Write(cat)
	n1 := new([24]byte)
	copy(n1[:], h.Sum(nil))
	n2 := new([24]byte)
	*n2 = *n1
	n2[23] ^= 1
	if locIsLo {
		sc.recvNonce, sc.sendNonce = n1, n2
	} else {
		sc.recvNonce, sc.sendNonce = n2, n1
	}
	sc.challenge = sha256.Sum256(cat)
}

func incr2(n *[24]byte) {
	for k := 0; k < 2; k++ {
		for i := 23; i >= 0; i-- {
			n[i]++
			if n[i] != 0 {
				break
			}
		}
	}
}

// seal builds one sealed frame carrying chunk (len <= 1024) and advances the
// send nonce. lenField overrides the 2-byte length when >= 0.
func (sc *rawSC) seal(chunk []byte, lenField int) []byte {
	fr := make([]byte, frameTotal)
	l := len(chunk)
	if lenField >= 0 {
		l = lenField
	}
	binary.BigEndian.PutUint16(fr, uint16(l))
	copy(fr[2:], chunk)
	out := secretbox.Seal(nil, fr, sc.sendNonce, sc.secret)
	incr2(sc.sendNonce)
	return out
}

func (sc *rawSC) writeChunk(chunk []byte) error {
	_, err := sc.rw.Write(sc.seal(chunk, -1))
	return err
}

// Write splits like the real protocol: 1024-byte chunks.
func (sc *rawSC) Write(p []byte) (int, error) {
	n := 0
	for len(p) > 0 {
		c := p
		if len(c) > frameData {
			c = c[:frameData]
		}
		if err := sc.writeChunk(c); err != nil {
			return n, err
		}
		n += len(c)
		p = p[len(c):]
	}
	return n, nil
}

var errRawOpen = errors.New("raw: frame does not open")

func (sc *rawSC) readChunk() ([]byte, error) {
	sealed := make([]byte, frameSealed)
	if _, err := io.ReadFull(sc.rw, sealed); err != nil {
		return nil, err
	}
	fr, ok := secretbox.Open(nil, sealed, sc.recvNonce, sc.secret)
	if !ok {
		return nil, errRawOpen
	}
	incr2(sc.recvNonce)
	l := int(binary.BigEndian.Uint16(fr))
	if l > frameData {
		return nil, fmt.Errorf("raw: chunk length %d", l)
	}
	return fr[2 : 2+l], nil
}

// Read is a correct stream read (never loses buffered bytes).
func (sc *rawSC) Read(p []byte) (int, error) {
	for len(sc.rbuf) == 0 {
		c, err := sc.readChunk()
		if err != nil {
			return 0, err
		}
		sc.rbuf = c
	}
	n := copy(p, sc.rbuf)
	sc.rbuf = sc.rbuf[n:]
	return n, nil
}

// ---- go-wire encodings written by hand (type byte + raw arrays, varint =
// size byte + big-endian bytes) ------------------------------------------------

func wVarint(b *bytes.Buffer, i int) {
	if i == 0 {
		b.WriteByte(0)
		return
	}
	var tmp [8]byte
	binary.BigEndian.PutUint64(tmp[:], uint64(i))
	k := 0
	for k < 8 && tmp[k] == 0 {
		k++
	}
	b.WriteByte(byte(8 - k))
	b.Write(tmp[k:])
}

func wBytes(b *bytes.Buffer, p []byte) {
	wVarint(b, len(p))
	b.Write(p)
}

func wString(b *bytes.Buffer, s string) { wBytes(b, []byte(s)) }

// authMsg encodes authSigMessage{Key, Sig}. key/sig nil => nil interface (0x00).
func authMsg(key []byte, sig []byte) []byte {
	var b bytes.Buffer
	if key == nil {
		b.WriteByte(0)
	} else {
		b.WriteByte(1) // PubKeyTypeEd25519
		b.Write(key)
	}
	if sig == nil {
		b.WriteByte(0)
	} else {
		b.WriteByte(1) // SignatureTypeEd25519
		b.Write(sig)
	}
	return b.Bytes()
}

// sendAuth sends the 4-byte little-endian length frame and the body frame(s).
func (sc *rawSC) sendAuth(body []byte) error {
	l := make([]byte, 4)
	binary.LittleEndian.PutUint32(l, uint32(len(body)))
	if _, err := sc.Write(l); err != nil {
		return err
	}
	_, err := sc.Write(body)
	return err
}

// recvAuth reads the peer's auth message; returns key bytes and signature.
func (sc *rawSC) recvAuth() (key, sig []byte, raw []byte, err error) {
	l, err := sc.readChunk()
	if err != nil {
		return nil, nil, nil, err
	}
	if len(l) != 4 {
		return nil, nil, nil, fmt.Errorf("raw: auth length chunk of %d bytes", len(l))
	}
	n := int(binary.LittleEndian.Uint32(l))
	body, err := sc.readChunk()
	if err != nil {
		return nil, nil, nil, err
	}
	if len(body) != n || n != 98 || body[0] != 1 || body[33] != 1 {
		return nil, nil, body, fmt.Errorf("raw: unexpected auth body (%d/%d bytes)", len(body), n)
	}
	return body[1:33], body[34:98], body, nil
}

// nodeInfoSpec is what a hand-rolled client announces.
type nodeInfoSpec struct {
	PubKeyType byte   // 0 = nil interface, 1 = ed25519 (32 bytes), 2 = secp256k1 (64 bytes)
	PubKey     []byte // raw
	Signd      string
	Moniker    string
	ListenAddr string
	Other      []string
}

func (s nodeInfoSpec) encode() []byte {
	var b bytes.Buffer
	b.WriteByte(1) // non-nil *NodeInfo
	b.WriteByte(s.PubKeyType)
	if s.PubKeyType != 0 {
		b.Write(s.PubKey)
	}
	wString(&b, s.Signd)
	wString(&b, s.Moniker)
	wString(&b, "c20net")     // Network
	wString(&b, "")           // RemoteAddr
	wString(&b, s.ListenAddr) // ListenAddr
	wString(&b, "0.0.0")      // Version
	wVarint(&b, len(s.Other)) // Other
	for _, o := range s.Other {
		wString(&b, o)
	}
	return b.Bytes()
}

func exchangeDataBytes(genesis []byte) []byte {
	var b bytes.Buffer
	b.WriteByte(1) // non-nil *ExchangeData
	wBytes(&b, genesis)
	return b.Bytes()
}
