package main

import "verif/lib"

func monitorMConn(o *rec)                          {}
func monitorAdmission(o *rec)                      {}
func monitorHostile(o *rec, self, scratch string)  {}
func nodeChild(args []string)                      {}
func collectRaces(run *lib.Run, raceLog string)    {}
