package main

// Monitor (d): admission. Real p2p.Switch objects with the real refuse-list
// filter (gemmill.refuseListFilter over a real RefuseList) and the real
// authByCA closure (gemmill.VerifAuthByCA), against an independent decision
// table written from the property text.

import (
	"crypto/ed25519"
	"encoding/hex"
	"errors"
	"fmt"
	"io"
	"net"
	"sync"
	"time"

	"github.com/spf13/viper"

	"github.com/dappledger/AnnChain/gemmill"
	crypto "github.com/dappledger/AnnChain/gemmill/go-crypto"
	wire "github.com/dappledger/AnnChain/gemmill/go-wire"
	"github.com/dappledger/AnnChain/gemmill/p2p"
	"github.com/dappledger/AnnChain/gemmill/refuse_list"
	"github.com/dappledger/AnnChain/gemmill/types"

	"verif/lib"
)

var (
	privSUT    = crypto.GenPrivKeyEd25519FromSecret([]byte("c20-sut-node"))
	privCAcur  = crypto.GenPrivKeyEd25519FromSecret([]byte("c20-ca-current"))
	privCArem  = crypto.GenPrivKeyEd25519FromSecret([]byte("c20-ca-removed"))
	privCAnew  = crypto.GenPrivKeyEd25519FromSecret([]byte("c20-ca-added-later"))
	privVnon   = crypto.GenPrivKeyEd25519FromSecret([]byte("c20-validator-not-ca"))
	privPeer   = crypto.GenPrivKeyEd25519FromSecret([]byte("c20-peer"))
	privVictim = crypto.GenPrivKeyEd25519FromSecret([]byte("c20-victim-identity"))
	privCanary = crypto.GenPrivKeyEd25519FromSecret([]byte("c20-canary"))
)

// caSign: what `gtool sign` does: ed25519 over the raw 32-byte node key.
// Uses the standard library, not the code under test.
func caSign(ca crypto.PrivKeyEd25519, nodePub []byte) []byte {
	return ed25519.Sign(ed25519.PrivateKey(ca[:]), nodePub)
}

func caVerify(caPub []byte, nodePub, sig []byte) bool {
	return len(sig) == 64 && ed25519.Verify(ed25519.PublicKey(caPub), nodePub, sig)
}

type tReactor struct {
	p2p.BaseReactor
}

func newTReactor() *tReactor {
	r := &tReactor{}
	r.BaseReactor = *p2p.NewBaseReactor("c20", r)
	return r
}

func (r *tReactor) GetChannels() []*p2p.ChannelDescriptor {
	return []*p2p.ChannelDescriptor{{ID: 0x77, Priority: 1}}
}

// sutConfig: what the node under test is configured with.
type sutConfig struct {
	AuthByCA    bool
	NVNA        bool     // non_validator_node_auth
	RefuseKeys  [][]byte // raw ed25519 keys put on the refuse list (through AddRefuseKey(key.Bytes()), as the admin plugin does)
	Validators0 []*types.Validator
	Validators1 []*types.Validator // the set the state machine installs after the switch was created (nil: same content, fresh copy)
	Listener    bool
}

type sut struct {
	sw   *p2p.Switch
	rl   *refuse_list.RefuseList
	pp   *types.ValidatorSet // the node's State.Validators
	addr string
}

func pubOf(k crypto.PrivKeyEd25519) crypto.PubKeyEd25519 { return k.PubKey().(crypto.PubKeyEd25519) }

func buildSUT(cfg *sutConfig) (*sut, error) {
	conf := viper.New()
	conf.Set("auth_by_ca", cfg.AuthByCA)
	conf.Set("non_validator_node_auth", cfg.NVNA)
	conf.Set("handshake_timeout_seconds", 20)
	s := &sut{}
	s.sw = p2p.NewSwitch(conf)
	s.sw.AddReactor("c20", newTReactor())
	laddr := "127.0.0.1:1"
	if cfg.Listener {
		l, err := p2p.NewDefaultListener("tcp", "127.0.0.1:0", true)
		if err != nil {
			return nil, err
		}
		dl, ok := l.(*p2p.DefaultListener)
		if !ok {
			return nil, errors.New("unexpected listener type")
		}
		s.addr = dl.NetListener().Addr().String()
		laddr = s.addr
		s.sw.AddListener(l)
	}
	// as gemmill.prepareP2P does
	s.sw.SetNodeInfo(&p2p.NodeInfo{PubKey: pubOf(privSUT), Moniker: "sut", Network: "c20net", Version: "0.0.0", ListenAddr: laddr})
	s.sw.SetNodePrivKey(privSUT)
	s.sw.SetExchangeData(&p2p.ExchangeData{GenesisJSON: []byte(`{"chain_id":"c20"}`)})
	s.rl = refuse_list.NewRefuseList("memdb", "")
	for _, k := range cfg.RefuseKeys {
		var pk crypto.PubKeyEd25519
		copy(pk[:], k)
		s.rl.AddRefuseKey(pk.Bytes())
	}
	s.sw.SetAddToRefuselist(addToRefuselist(s.rl))
	s.sw.SetRefuseListFilter(refuseListFilter(s.rl))
	// as gemmill.NewAngine does
	s.pp = types.NewValidatorSet(cfg.Validators0)
	if cfg.AuthByCA {
		s.sw.SetAuthByCA(gemmill.VerifAuthByCA(conf, &s.pp))
	}
	if _, err := s.sw.Start(); err != nil {
		return nil, err
	}
	// the state machine installs a new *ValidatorSet after every block
	if cfg.Validators1 != nil {
		s.pp = types.NewValidatorSet(cfg.Validators1)
	} else {
		s.pp = s.pp.Copy()
	}
	return s, nil
}

func (s *sut) stop() {
	s.sw.Stop()
	s.rl.Stop()
}

// ---- hand-rolled client -------------------------------------------------------

type clientSpec struct {
	Priv     crypto.PrivKeyEd25519
	Announce nodeInfoSpec
}

// byteFrames sends p one byte per sealed frame: whatever read sizes the other
// side uses, a frame never leaves a remainder behind.
func (sc *rawSC) byteFrames(p []byte) error {
	for i := range p {
		if err := sc.writeChunk(p[i : i+1]); err != nil {
			return err
		}
	}
	return nil
}

// rawClient speaks the whole admission handshake as a peer would. Returns the
// stage reached ("eph","auth","nodeinfo","exchange","done") and the error that
// stopped it.
func rawClient(conn net.Conn, spec *clientSpec) (string, error) {
	ep, es := genEph()
	sc, err := rawEph(conn, ep, es)
	if err != nil {
		return "eph", err
	}
	if err := sc.sendAuth(authMsg(pubRaw(spec.Priv), sigRaw(spec.Priv, sc.challenge[:]))); err != nil {
		return "auth", err
	}
	if _, _, _, err := sc.recvAuth(); err != nil {
		return "auth", err
	}
	// like the real peer: write and read each message concurrently
	werr := make(chan error, 1)
	go func() { werr <- sc.byteFrames(spec.Announce.encode()) }()
	var n int
	var rerr error
	wire.ReadBinary(&p2p.NodeInfo{}, sc, 10240, &n, &rerr)
	if e := <-werr; e != nil {
		return "nodeinfo", e
	}
	if rerr != nil {
		return "nodeinfo", rerr
	}
	go func() { werr <- sc.byteFrames(exchangeDataBytes([]byte(`{"chain_id":"c20"}`))) }()
	n, rerr = 0, nil
	wire.ReadBinary(&p2p.ExchangeData{}, sc, 10240, &n, &rerr)
	if e := <-werr; e != nil {
		return "exchange", e
	}
	if rerr != nil {
		return "exchange", rerr
	}
	return "done", nil
}

// ---- the matrix -------------------------------------------------------------

type row struct {
	Refused   bool   `json:"key_on_refuse_list"`
	Mismatch  bool   `json:"announced_key_differs_from_connection_key"`
	AuthByCA  bool   `json:"auth_by_ca"`
	NVNA      bool   `json:"non_validator_node_auth"`
	Validator string `json:"peer_validator_status"` // no | yes | removed (validator when the switch started, removed since)
	Sig       string `json:"authority_signature"`
	Outbound  bool   `json:"sut_is_dialer"`
	Transport string `json:"transport"` // pipe-raw | pipe-switch | tcp-raw | tcp-switch
}

var sigKinds = []string{"valid-current-ca", "by-validator-not-ca", "by-removed-ca", "garbage-hex", "wrong-length-63", "absent", "random-64-bytes", "valid-plus-trailing-byte", "by-ca-added-later"}

func mkSig(kind string, announced []byte) string {
	switch kind {
	case "valid-current-ca":
		return hex.EncodeToString(caSign(privCAcur, announced))
	case "by-validator-not-ca":
		return hex.EncodeToString(caSign(privVnon, announced))
	case "by-removed-ca":
		return hex.EncodeToString(caSign(privCArem, announced))
	case "by-ca-added-later":
		return hex.EncodeToString(caSign(privCAnew, announced))
	case "garbage-hex":
		return "zz-not-hex-" + hex.EncodeToString(announced[:8])
	case "wrong-length-63":
		return hex.EncodeToString(caSign(privCAcur, announced)[:63])
	case "random-64-bytes":
		b := make([]byte, 64)
		lib.Rand("c20-d-sig", int64(announced[0])).Read(b)
		return hex.EncodeToString(b)
	case "valid-plus-trailing-byte":
		return hex.EncodeToString(append(caSign(privCAcur, announced), 0x01))
	}
	return ""
}

// decision table, from the property text. returns mustRefuse and the class key
// a wrongful admission gets; dontCare rows are observed, not judged.
func decide(r *row, sigStr string, announced []byte, current []*types.Validator) (mustRefuse bool, key string, dontCare bool) {
	if r.Refused {
		return true, "admitted-key-on-refuse-list", false
	}
	if r.Mismatch {
		return true, "admitted-identity-mismatch", false
	}
	if !r.AuthByCA {
		return false, "", false
	}
	isValidatorNow := r.Validator == "yes"
	applies := !(isValidatorNow && !r.NVNA)
	if !applies {
		return false, "", false
	}
	// a valid signature by a CURRENT authority over the peer's key?
	sig, err := hex.DecodeString(sigStr)
	valid := false
	if err == nil {
		for _, v := range current {
			if v.IsCA {
				pk := v.PubKey.(crypto.PubKeyEd25519)
				if caVerify(pk[:], announced, sig) {
					valid = true
				}
			}
		}
	}
	if valid {
		return false, "", false
	}
	if r.Sig == "valid-plus-trailing-byte" {
		// the peer does hold a valid signature (first 64 bytes); whether trailing bytes disqualify it is not stated
		return false, "", true
	}
	switch {
	case r.Sig == "by-removed-ca":
		return true, "ca-signature-of-removed-authority-accepted", false
	case r.Validator == "removed" && !r.NVNA:
		return true, "removed-validator-bypasses-ca-admission", false
	}
	return true, "admitted-without-valid-ca-signature:" + r.Sig, false
}

func allRows() []row {
	var out []row
	for _, refused := range []bool{false, true} {
		for _, mism := range []bool{false, true} {
			for _, ca := range []bool{false, true} {
				for _, nvna := range []bool{false, true} {
					for _, val := range []string{"no", "yes", "removed"} {
						for _, sig := range sigKinds {
							for _, outb := range []bool{false, true} {
								out = append(out, row{Refused: refused, Mismatch: mism, AuthByCA: ca, NVNA: nvna, Validator: val, Sig: sig, Outbound: outb})
							}
						}
					}
				}
			}
		}
	}
	return out
}

func waitPeer(sw *p2p.Switch, key string, wd time.Duration) bool {
	deadline := time.After(wd)
	for {
		if sw.Peers().Has(key) {
			return true
		}
		select {
		case <-deadline:
			return false
		case <-time.After(time.Millisecond):
		}
	}
}

func evalRow(o *rec, r row) {
	connPriv := privPeer
	announced := pubRaw(privPeer)
	if r.Mismatch {
		announced = pubRaw(privVictim) // the identity of somebody else (who may be a validator / hold a CA signature)
	}
	var annKey crypto.PubKeyEd25519
	copy(annKey[:], announced)
	mkVal := func(k crypto.PrivKeyEd25519, ca bool) *types.Validator { return types.NewValidator(pubOf(k), 10, ca) }
	v0 := []*types.Validator{mkVal(privCAcur, true), mkVal(privCArem, true), mkVal(privVnon, false)}
	v1 := []*types.Validator{mkVal(privCAcur, true), mkVal(privVnon, false), mkVal(privCAnew, true)}
	if r.Validator == "yes" || r.Validator == "removed" {
		v0 = append(v0, types.NewValidator(annKey, 10, false))
	}
	if r.Validator == "yes" {
		v1 = append(v1, types.NewValidator(annKey, 10, false))
	}
	cfg := &sutConfig{AuthByCA: r.AuthByCA, NVNA: r.NVNA, Validators0: v0, Validators1: v1}
	if r.Refused {
		cfg.RefuseKeys = [][]byte{pubRaw(connPriv)}
	}
	tcp := r.Transport == "tcp-raw" || r.Transport == "tcp-switch"
	cfg.Listener = tcp
	s, err := buildSUT(cfg)
	if err != nil {
		o.Inconcl("admission: cannot build the switch under test: " + err.Error())
		return
	}
	defer stopAsync(o, "d_switch_stop_did_not_return", s.stop)
	sigStr := mkSig(r.Sig, announced)
	mustRefuse, key, dontCare := decide(&r, sigStr, announced, v1)

	spec := &clientSpec{Priv: connPriv, Announce: nodeInfoSpec{PubKeyType: 1, PubKey: announced, Signd: sigStr, Moniker: "peer", ListenAddr: "127.0.0.1:2"}}
	var remote *p2p.Switch
	if r.Transport == "pipe-switch" || r.Transport == "tcp-switch" {
		rc := viper.New()
		remote = p2p.NewSwitch(rc)
		remote.AddReactor("c20", newTReactor())
		remote.SetNodeInfo(&p2p.NodeInfo{PubKey: pubOf(connPriv), SigndPubKey: sigStr, Moniker: "peer", Network: "c20net", Version: "0.0.0", ListenAddr: "127.0.0.1:2"})
		remote.SetNodePrivKey(connPriv)
		remote.SetExchangeData(&p2p.ExchangeData{GenesisJSON: []byte(`{"chain_id":"c20"}`)})
		remote.Start()
		defer stopAsync(o, "d_switch_stop_did_not_return", func() { remote.Stop() })
	}
	var hold []net.Conn
	defer func() {
		for _, c := range hold {
			c.Close()
		}
	}()
	var sutErr error
	stage := ""
	switch r.Transport {
	case "pipe-raw", "pipe-switch":
		c1, c2 := net.Pipe()
		hold = append(hold, c2)
		var wg sync.WaitGroup
		wg.Add(2)
		go func() {
			defer wg.Done()
			_, sutErr = s.sw.AddPeerWithConnection(c1, r.Outbound)
		}()
		go func() {
			defer wg.Done()
			if remote != nil {
				remote.AddPeerWithConnection(c2, !r.Outbound)
			} else {
				var e error
				stage, e = rawClient(c2, spec)
				if e != nil {
					c2.Close()
				}
			}
		}()
		wg.Wait()
	case "tcp-raw", "tcp-switch":
		// inbound through the real listenerRoutine; a canary that must be admitted is the barrier:
		// the listener routine handles one connection at a time.
		if remote != nil {
			na, _ := p2p.NewNetAddressString(s.addr)
			remote.DialPeerWithAddress(na)
		} else {
			c, err := net.Dial("tcp", s.addr)
			if err != nil {
				o.Inconcl("admission: dial: " + err.Error())
				return
			}
			hold = append(hold, c)
			var e error
			stage, e = rawClient(c, spec)
			if e != nil {
				c.Close()
			}
		}
		cc, err := net.Dial("tcp", s.addr)
		if err != nil {
			o.Inconcl("admission: canary dial: " + err.Error())
			return
		}
		hold = append(hold, cc)
		cspec := &clientSpec{Priv: privCanary, Announce: nodeInfoSpec{PubKeyType: 1, PubKey: pubRaw(privCanary), Signd: mkSig("valid-current-ca", pubRaw(privCanary)), Moniker: "canary", ListenAddr: "127.0.0.1:3"}}
		if _, e := rawClient(cc, cspec); e != nil {
			o.Inconcl(fmt.Sprintf("admission: canary handshake failed (%v) in row %+v", e, r))
			return
		}
		if !waitPeer(s.sw, pubOf(privCanary).KeyString(), 60*time.Second) {
			o.Inconcl(fmt.Sprintf("admission: watchdog waiting for the canary in row %+v", r))
			return
		}
	}
	peers := s.sw.Peers()
	admitted := peers.Has(pubOf(connPriv).KeyString()) || peers.Has(annKey.KeyString())
	n := peers.Size()
	if tcp {
		n--
	}
	if n > 0 {
		admitted = true
	}
	o.Eval()
	o.Count("d_rows", 1)
	o.Count("d_rows:"+r.Transport, 1)
	o.Nontrivial(fmt.Sprintf("d:%+v", r))
	if admitted {
		o.Count("d_admitted", 1)
	} else {
		o.Count("d_refused", 1)
	}
	wit := map[string]interface{}{"row": r, "connection_key": fmt.Sprintf("%X", pubRaw(connPriv)), "announced_key": fmt.Sprintf("%X", announced), "signd_pub_key": sigStr,
		"client_stage": stage, "sut_error": fmt.Sprint(sutErr), "peers": n,
		"validators_at_switch_creation": valNames(v0), "validators_current": valNames(v1)}
	switch {
	case dontCare:
		if admitted {
			o.Count("d_unjudged_admitted:"+r.Sig, 1)
		} else {
			o.Count("d_unjudged_refused:"+r.Sig, 1)
		}
	case mustRefuse && admitted:
		o.Violation(key, fmt.Sprintf("a peer that must never be admitted is in Switch.Peers(): %+v", r), wit)
	case mustRefuse:
		o.Count("d_must_refuse_refused", 1)
	case admitted:
		o.Count("d_admissible_admitted", 1)
	default:
		o.Count("d_admissible_refused", 1)
		o.Count("d_admissible_refused:"+r.Sig+"/val="+r.Validator, 1)
	}
	if mustRefuse && !admitted && (r.Sig == "by-removed-ca" || r.Refused && r.Mismatch) {
		o.Sample(map[string]interface{}{"monitor": "d", "row": r, "admitted": admitted, "sut_error": fmt.Sprint(sutErr)})
	}
}

// stopAsync: Switch.Stop() stops the peers' MConnections, and
// MConnection.Stop() can block forever (an unconsumed chStatsTimer/pingTimer
// tick blocks RepeatTimer.Stop()). Liveness of Stop is not C20's subject: the
// hang is counted, the goroutine abandoned.
func stopAsync(o *rec, counter string, f func()) {
	done := make(chan struct{})
	go func() { f(); close(done) }()
	select {
	case <-done:
	case <-time.After(5 * time.Second):
		o.Count(counter, 1)
	}
}

func valNames(vs []*types.Validator) []string {
	names := map[string]string{
		pubOf(privCAcur).KeyString(): "CA-current", pubOf(privCArem).KeyString(): "CA-removed", pubOf(privCAnew).KeyString(): "CA-added-later",
		pubOf(privVnon).KeyString(): "validator-not-CA", pubOf(privPeer).KeyString(): "peer", pubOf(privVictim).KeyString(): "victim-identity",
	}
	var out []string
	for _, v := range vs {
		out = append(out, fmt.Sprintf("%s(isCA=%v)", names[v.PubKey.KeyString()], v.IsCA))
	}
	return out
}

func monitorAdmission(o *rec) {
	{ // harness self-test: the hand-written encodings are what go-wire produces
		spec := nodeInfoSpec{PubKeyType: 1, PubKey: pubRaw(privPeer), Signd: "ab", Moniker: "peer", ListenAddr: "127.0.0.1:2", Other: []string{"x", ""}}
		ni := &p2p.NodeInfo{PubKey: pubOf(privPeer), SigndPubKey: "ab", Moniker: "peer", Network: "c20net", ListenAddr: "127.0.0.1:2", Version: "0.0.0", Other: []string{"x", ""}}
		ed := &p2p.ExchangeData{GenesisJSON: []byte("{}")}
		if string(spec.encode()) != string(wire.BinaryBytes(ni)) || string(exchangeDataBytes([]byte("{}"))) != string(wire.BinaryBytes(ed)) {
			o.Inconcl("harness self-test: hand encoding of NodeInfo / ExchangeData differs from go-wire")
			return
		}
	}
	rows := allRows()
	var jobs []row
	rng := lib.Rand("c20-d", 0)
	for _, r := range rows {
		a := r
		a.Transport = "pipe-raw"
		jobs = append(jobs, a)
		if !r.Mismatch { // an honest switch always announces its own key
			b := r
			b.Transport = "pipe-switch"
			if lib.Thorough() || rng.Intn(3) == 0 {
				jobs = append(jobs, b)
			}
		}
		if !r.Outbound {
			c := r
			c.Transport = "tcp-raw"
			if lib.Thorough() || rng.Intn(8) == 0 {
				jobs = append(jobs, c)
			}
			if !r.Mismatch && (lib.Thorough() || rng.Intn(24) == 0) {
				d := r
				d.Transport = "tcp-switch"
				jobs = append(jobs, d)
			}
		}
	}
	lib.Parallel(len(jobs), 16, func(i int) { evalRow(o, jobs[i]) })
}

var _ = io.EOF
