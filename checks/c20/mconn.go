package main

// Monitor (c): two real MConnections, concurrent senders on several channels.
// Runs inside the -race build (child process of the parent).

import (
	"bytes"
	"encoding/binary"
	"fmt"
	"math/rand"
	"net"
	"sync"
	"sync/atomic"
	"time"

	"github.com/spf13/viper"

	wire "github.com/dappledger/AnnChain/gemmill/go-wire"
	"github.com/dappledger/AnnChain/gemmill/p2p"

	"verif/lib"
)

type chanPlan struct {
	ID       byte `json:"id"`
	Priority int  `json:"priority"`
	SendQ    int  `json:"send_queue"`
	RecvCap  int  `json:"recv_msg_capacity"` // 0 = package default (21 MB)
	Senders  int  `json:"senders"`
}

func (c chanPlan) capacity() int {
	if c.RecvCap == 0 {
		return 22020096
	}
	return c.RecvCap
}

type msgPlan struct {
	Size int  `json:"size"` // encoded size
	Try  bool `json:"try"`
}

type senderPlan struct {
	Ch     byte      `json:"ch"`
	Sender int       `json:"sender"`
	Msgs   []msgPlan `json:"msgs"`
}

type sessPlan struct {
	ID        int          `json:"id"`
	Transport string       `json:"transport"`
	Chans     []chanPlan   `json:"channels"`
	AB        []senderPlan `json:"senders_ab"`
	BA        []senderPlan `json:"senders_ba"`
	Overflow  int          `json:"overflow_channel_index"` // -1: none; else index into Chans: capacity+1 message at the end, A->B
	Status    bool         `json:"status_observer"`
	Seed      int64        `json:"seed"`
}

// sizeToPayload: payload length n such that the go-wire encoding of a []byte
// of n bytes (size byte + big-endian length + bytes) has exactly T bytes.
// ok=false when no []byte has that encoded size (T=0, T=2).
func sizeToPayload(T int) (n int, ok bool) {
	switch {
	case T == 1:
		return 0, true
	case T >= 3 && T <= 257:
		return T - 2, true
	case T >= 259 && T <= 65538:
		return T - 3, true
	case T >= 65540 && T <= 16777219:
		return T - 4, true
	case T >= 16777221:
		return T - 5, true
	}
	return 0, false
}

func handEncode(p []byte) []byte {
	var b bytes.Buffer
	wBytes(&b, p)
	return b.Bytes()
}

type emptyMsg struct{}

// buildMsg returns the value handed to Send and the bytes that must arrive.
// marker: 12-byte id placed at the END of the payload (as far as it fits).
func buildMsg(T int, marker [12]byte, rng *rand.Rand) (msg interface{}, expect []byte) {
	if T == 0 {
		return emptyMsg{}, []byte{}
	}
	if T == 2 {
		v := uint16(marker[10])<<8 | uint16(marker[11])
		return v, []byte{byte(v >> 8), byte(v)}
	}
	n, ok := sizeToPayload(T)
	if !ok {
		n, _ = sizeToPayload(T + 1)
	}
	p := make([]byte, n)
	rng.Read(p)
	if n >= 12 {
		copy(p[n-12:], marker[:])
	} else {
		copy(p, marker[12-n:])
	}
	return p, handEncode(p)
}

func mkMarker(dir byte, ch byte, sender int, seq uint32) (m [12]byte) {
	m[0], m[1], m[2], m[3] = 0xC2, 0x0C, dir, ch
	m[4] = byte(sender)
	binary.BigEndian.PutUint32(m[5:], seq)
	m[9], m[10], m[11] = 0x5E, byte(seq>>8)^0xA5, byte(seq)^0x5A
	return
}

const sentinelSeq = 0xFFFFFFFF

func genSizes(rng *rand.Rand, capacity int, n int, minSize int) []msgPlan {
	out := make([]msgPlan, n)
	for i := range out {
		var s int
		switch rng.Intn(20) {
		case 0, 1, 2, 3, 4, 5, 6, 7, 8, 9:
			s = rng.Intn(200)
		case 10, 11, 12:
			s = 1024*(1+rng.Intn(4)) + rng.Intn(7) - 3 // around a packet boundary
		case 13, 14:
			s = 1024 * (1 + rng.Intn(4)) // exactly N packets
		case 15, 16, 17:
			s = rng.Intn(4097)
		case 18:
			s = capacity - rng.Intn(2) // the channel's capacity and one below
			if capacity > 300000 {
				s = 65536 + rng.Intn(8) - 4 // default capacity (21 MB): stay around the 3-byte length boundary instead
			}
		default:
			s = rng.Intn(20001)
		}
		if s > capacity {
			s = capacity
		}
		if s < minSize {
			s = minSize
		}
		if s < 0 {
			s = 0
		}
		out[i] = msgPlan{Size: s, Try: rng.Intn(10) < 3}
	}
	return out
}

func genSession(i int) *sessPlan {
	rng := lib.Rand("c20-c", int64(i))
	p := &sessPlan{ID: i, Seed: rng.Int63(), Overflow: -1}
	p.Transport = []string{"pipe", "tcp", "secret", "pipe"}[rng.Intn(4)]
	caps := []int{1024, 2048, 3000, 4096, 10240, 65536, 131072}
	prios := rng.Perm(4)
	for c := 0; c < 4; c++ {
		cp := chanPlan{ID: byte(0x10 * (c + 1)), Priority: 1 + prios[c]*3, SendQ: 1 + rng.Intn(4), Senders: 1}
		if rng.Intn(3) == 0 {
			cp.SendQ = 1
		}
		if c == 3 {
			cp.RecvCap = 0
			cp.Senders = 2
		} else {
			cp.RecvCap = caps[rng.Intn(len(caps))]
		}
		p.Chans = append(p.Chans, cp)
	}
	mk := func() []senderPlan {
		var out []senderPlan
		for _, c := range p.Chans {
			for s := 0; s < c.Senders; s++ {
				n := 3 + rng.Intn(18)
				min := 0
				if c.Senders > 1 {
					min = 16 // the marker must fit: messages of different senders must be distinguishable
				}
				out = append(out, senderPlan{Ch: c.ID, Sender: s, Msgs: genSizes(rng, c.capacity(), n, min)})
			}
		}
		return out
	}
	p.AB, p.BA = mk(), mk()
	if rng.Intn(5) == 0 {
		p.Overflow = rng.Intn(3)
	}
	p.Status = rng.Intn(2) == 0
	return p
}

// ---- one end ------------------------------------------------------------------

type mend struct {
	name   string
	mc     *p2p.MConnection
	mtx    sync.Mutex
	recvd  map[byte][][]byte
	sents  int // sentinels seen
	errs   []string
	notify chan struct{}
}

func (e *mend) onReceive(ch byte, msg []byte) {
	cp := append([]byte{}, msg...) // arrival = the bytes at the time of the callback
	e.mtx.Lock()
	e.recvd[ch] = append(e.recvd[ch], cp)
	if len(cp) >= 12 && cp[len(cp)-12] == 0xC2 && cp[len(cp)-11] == 0x0C && binary.BigEndian.Uint32(cp[len(cp)-7:]) == sentinelSeq {
		e.sents++
	}
	e.mtx.Unlock()
	select {
	case e.notify <- struct{}{}:
	default:
	}
}

func (e *mend) onError(r interface{}) {
	e.mtx.Lock()
	e.errs = append(e.errs, fmt.Sprint(r))
	e.mtx.Unlock()
	select {
	case e.notify <- struct{}{}:
	default:
	}
}

func mconnConfig() *viper.Viper {
	v := viper.New()
	v.Set("send_rate", 1<<30)
	v.Set("recv_rate", 1<<30)
	v.Set("connection_reset_wait", 10)
	return v
}

func descs(p *sessPlan) []*p2p.ChannelDescriptor {
	var d []*p2p.ChannelDescriptor
	for _, c := range p.Chans {
		d = append(d, &p2p.ChannelDescriptor{ID: c.ID, Priority: c.Priority, SendQueueCapacity: c.SendQ, RecvMessageCapacity: c.RecvCap})
	}
	return d
}

func connPair(kind string) (net.Conn, net.Conn, error) {
	switch kind {
	case "tcp":
		l, err := net.Listen("tcp", "127.0.0.1:0")
		if err != nil {
			return nil, nil, err
		}
		defer l.Close()
		type ar struct {
			c   net.Conn
			err error
		}
		ch := make(chan ar, 1)
		go func() { c, err := l.Accept(); ch <- ar{c, err} }()
		c1, err := net.Dial("tcp", l.Addr().String())
		if err != nil {
			return nil, nil, err
		}
		a := <-ch
		if a.err != nil {
			c1.Close()
			return nil, nil, a.err
		}
		return c1, a.c, nil
	case "secret":
		p1, p2 := net.Pipe()
		var s1, s2 *p2p.SecretConnection
		var e1, e2 error
		var wg sync.WaitGroup
		wg.Add(2)
		go func() { defer wg.Done(); s1, e1 = p2p.MakeSecretConnection(p1, privA) }()
		go func() { defer wg.Done(); s2, e2 = p2p.MakeSecretConnection(p2, privB) }()
		wg.Wait()
		if e1 != nil || e2 != nil {
			p1.Close()
			p2.Close()
			return nil, nil, fmt.Errorf("secret handshake: %v %v", e1, e2)
		}
		return s1, s2, nil
	default:
		c1, c2 := net.Pipe()
		return c1, c2, nil
	}
}

// mconnAPI: the calls go through an interface so that the p2p functions are
// not inlined into harness functions (race reports then name the p2p frame).
type mconnAPI interface {
	Send(chID byte, msg interface{}) bool
	TrySend(chID byte, msg interface{}) bool
	CanSend(chID byte) bool
	IsRunning() bool
	Status() p2p.ConnectionStatus
}

// The calls are made from functions that are not inlined and see only the
// interface, so the compiler cannot devirtualise and inline the p2p methods
// into harness code.

//go:noinline
func doSend(m mconnAPI, try bool, ch byte, msg interface{}) bool {
	if try {
		return m.TrySend(ch, msg)
	}
	return m.Send(ch, msg)
}

//go:noinline
func doCanSend(m mconnAPI, ch byte) bool { return m.CanSend(ch) }

//go:noinline
func doStatus(m mconnAPI) p2p.ConnectionStatus { return m.Status() }

type sentRec struct {
	mtx      sync.Mutex
	accepted map[string][][]byte // key ch/sender
	refused  map[byte][][]byte
}

func skey(ch byte, s int) string { return fmt.Sprintf("%02X/%d", ch, s) }

// runSender performs one sender's plan on mc and then sends its sentinel.
func runSender(o *rec, mc mconnAPI, dir byte, sp senderPlan, seed int64, sr *sentRec, dead *int32) {
	rng := rand.New(rand.NewSource(seed ^ int64(sp.Ch)<<8 ^ int64(sp.Sender)<<20 ^ int64(dir)<<24))
	var acc [][]byte
	var ref [][]byte
	for i, m := range sp.Msgs {
		if atomic.LoadInt32(dead) != 0 {
			break
		}
		msg, expect := buildMsg(m.Size, mkMarker(dir, sp.Ch, sp.Sender, uint32(i)), rng)
		var ok bool
		if m.Try {
			if i%2 == 0 {
				doCanSend(mc, sp.Ch)
			}
			ok = doSend(mc, true, sp.Ch, msg)
			o.Count("c_trysend_calls", 1)
		} else {
			ok = doSend(mc, false, sp.Ch, msg)
			o.Count("c_send_calls", 1)
		}
		if ok {
			acc = append(acc, expect)
			if len(expect) > 1024 {
				o.Count("c_multi_packet_msgs", 1)
			}
			if len(expect) > 0 && len(expect)%1024 == 0 {
				o.Count("c_msgs_exact_multiple_of_1024", 1)
			}
		} else {
			ref = append(ref, expect)
			if m.Try {
				o.Count("c_trysend_refused", 1)
			} else {
				o.Count("c_send_refused", 1)
			}
		}
	}
	// sentinel: must get through unless the connection died
	mk := mkMarker(dir, sp.Ch, sp.Sender, sentinelSeq)
	msg, expect := buildMsg(18, mk, rng)
	for atomic.LoadInt32(dead) == 0 {
		if doSend(mc, false, sp.Ch, msg) {
			acc = append(acc, expect)
			break
		}
		if !mc.IsRunning() {
			break
		}
	}
	sr.mtx.Lock()
	sr.accepted[skey(sp.Ch, sp.Sender)] = acc
	sr.refused[sp.Ch] = append(sr.refused[sp.Ch], ref...)
	sr.mtx.Unlock()
}

// classify a mismatch at position i of a channel.
func classifyMismatch(got []byte, exp [][]byte, i int, refused [][]byte) string {
	for _, r := range refused {
		if bytes.Equal(got, r) && len(r) > 12 {
			return "mconn-refused-message-delivered"
		}
	}
	if i < len(exp) {
		e := exp[i]
		if len(e) == 0 {
			for j := i + 1; j < len(exp); j++ {
				if bytes.Equal(got, exp[j]) {
					return "mconn-zero-length-message-lost"
				}
			}
		}
		if i+1 < len(exp) && bytes.Equal(got, append(append([]byte{}, e...), exp[i+1]...)) {
			return "mconn-messages-merged"
		}
		if len(got) < len(e) && bytes.Equal(got, e[:len(got)]) {
			return "mconn-message-truncated"
		}
		if len(got) > len(e) && bytes.Equal(got[:len(e)], e) {
			return "mconn-message-extended"
		}
		for j := i + 1; j < len(exp); j++ {
			if bytes.Equal(got, exp[j]) {
				return "mconn-message-lost-or-reordered"
			}
		}
		for j := 0; j < i; j++ {
			if bytes.Equal(got, exp[j]) && len(got) > 12 {
				return "mconn-message-duplicated"
			}
		}
		if len(got) == len(e) {
			return "mconn-message-modified"
		}
	}
	return "mconn-unexpected-message"
}

func brief(b []byte) string {
	if len(b) > 24 {
		return fmt.Sprintf("%d bytes %X..%X", len(b), b[:8], b[len(b)-12:])
	}
	return fmt.Sprintf("%d bytes %X", len(b), b)
}

// checkDir: received (at `to`) versus accepted (by senders of `plans`).
func checkDir(o *rec, p *sessPlan, dirName string, plans []senderPlan, sr *sentRec, to *mend, complete bool) {
	to.mtx.Lock()
	defer to.mtx.Unlock()
	byCh := map[byte][]senderPlan{}
	for _, sp := range plans {
		byCh[sp.Ch] = append(byCh[sp.Ch], sp)
	}
	for ch, sps := range byCh {
		got := to.recvd[ch]
		o.Count("c_msgs_received", int64(len(got)))
		o.Count(fmt.Sprintf("c_msgs_received:ch%02X", ch), int64(len(got)))
		exp := make([][][]byte, len(sps))
		pos := make([]int, len(sps))
		total := 0
		for k, sp := range sps {
			exp[k] = sr.accepted[skey(sp.Ch, sp.Sender)]
			total += len(exp[k])
		}
		o.Count("c_msgs_accepted", int64(total))
		o.Count(fmt.Sprintf("c_msgs_accepted:ch%02X", ch), int64(total))
		bad := false
		for gi, g := range got {
			o.Count("c_bytes_compared", int64(len(g)))
			matched := false
			for k := range sps {
				if pos[k] < len(exp[k]) && bytes.Equal(g, exp[k][pos[k]]) {
					pos[k]++
					matched = true
					break
				}
			}
			if matched {
				continue
			}
			// which sender's stream does it claim to belong to?
			k := 0
			if len(sps) > 1 && len(g) >= 12 && int(g[len(g)-8]) < len(sps) {
				k = int(g[len(g)-8])
			}
			key := classifyMismatch(g, exp[k], pos[k], sr.refused[ch])
			var want string
			if pos[k] < len(exp[k]) {
				want = brief(exp[k][pos[k]])
			}
			o.Violation(key, fmt.Sprintf("%s channel %02X: message #%d received is not the next accepted message (got %s, expected %s)", dirName, ch, gi, brief(g), want),
				map[string]interface{}{"session": p, "direction": dirName, "channel": ch, "position": gi, "got": brief(g), "expected": want})
			bad = true
			break
		}
		if bad {
			continue
		}
		if complete {
			for k := range sps {
				if pos[k] != len(exp[k]) {
					o.Violation("mconn-accepted-message-never-arrived", fmt.Sprintf("%s channel %02X sender %d: %d messages accepted by Send/TrySend, only %d arrived although the sender's final message arrived / the connection reported no error", dirName, ch, k, len(exp[k]), pos[k]),
						map[string]interface{}{"session": p, "direction": dirName, "channel": ch, "sender": k, "accepted": len(exp[k]), "arrived": pos[k]})
				}
			}
		}
	}
}

func runSession(o *rec, p *sessPlan) {
	c1, c2, err := connPair(p.Transport)
	if err != nil {
		o.Inconcl("mconn: cannot create connection pair: " + err.Error())
		return
	}
	A := &mend{name: "A", recvd: map[byte][][]byte{}, notify: make(chan struct{}, 1)}
	B := &mend{name: "B", recvd: map[byte][][]byte{}, notify: make(chan struct{}, 1)}
	A.mc = p2p.NewMConnection(mconnConfig(), c1, descs(p), A.onReceive, A.onError)
	B.mc = p2p.NewMConnection(mconnConfig(), c2, descs(p), B.onReceive, B.onError)
	A.mc.Start()
	B.mc.Start()
	var dead int32
	srAB := &sentRec{accepted: map[string][][]byte{}, refused: map[byte][][]byte{}}
	srBA := &sentRec{accepted: map[string][][]byte{}, refused: map[byte][][]byte{}}
	var wg sync.WaitGroup
	for _, sp := range p.AB {
		wg.Add(1)
		go func(sp senderPlan) { defer wg.Done(); runSender(o, A.mc, 'a', sp, p.Seed, srAB, &dead) }(sp)
	}
	for _, sp := range p.BA {
		wg.Add(1)
		go func(sp senderPlan) { defer wg.Done(); runSender(o, B.mc, 'b', sp, p.Seed, srBA, &dead) }(sp)
	}
	stopObs := make(chan struct{})
	var obsWg sync.WaitGroup
	if p.Status {
		obsWg.Add(1)
		go func() {
			defer obsWg.Done()
			for {
				select {
				case <-stopObs:
					return
				case <-time.After(3 * time.Millisecond):
					for _, m := range []mconnAPI{A.mc, B.mc} {
						_ = doStatus(m)
					}
					o.Count("c_status_calls", 2)
				}
			}
		}()
	}
	sendersDone := make(chan struct{})
	go func() { wg.Wait(); close(sendersDone) }()

	watchdog := time.After(180 * time.Second)
	state := func() (sa, sb, ea, eb int) {
		A.mtx.Lock()
		sa, ea = A.sents, len(A.errs)
		A.mtx.Unlock()
		B.mtx.Lock()
		sb, eb = B.sents, len(B.errs)
		B.mtx.Unlock()
		return
	}
	timedOut := false
	failed := false
	sdone := false
	// idle detection: once every sender has returned from its last Send, the bytes received on both
	// sides must keep moving until the last message is in. 60 polls (15 s) in a row without a single
	// byte received on either side, no error reported and final messages still missing = the
	// connection went idle with accepted messages undelivered. (The 180 s watchdog stays: inconclusive.)
	idle := ""
	idlePolls := 0
	var lastBytes int64 = -1
	poll := time.NewTicker(250 * time.Millisecond)
	defer poll.Stop()
	for {
		sa, sb, ea, eb := state()
		if ea+eb > 0 {
			failed = true
			break
		}
		if sdone && sb >= len(p.AB) && sa >= len(p.BA) {
			break
		}
		select {
		case <-A.notify:
		case <-B.notify:
		case <-sendersDone:
			sdone = true
			sendersDone = nil
		case <-poll.C:
			if sdone {
				stA, stB := doStatus(A.mc), doStatus(B.mc)
				b := stA.RecvMonitor.Bytes + stB.RecvMonitor.Bytes
				if b == lastBytes {
					idlePolls++
				} else {
					idlePolls, lastBytes = 0, b
				}
				if idlePolls >= 60 {
					q := ""
					for _, st := range []p2p.ConnectionStatus{stA, stB} {
						for _, c := range st.Channels {
							q += fmt.Sprintf(" ch%02X:queue=%d", c.ID, c.SendQueueSize)
						}
						q += " |"
					}
					idle = fmt.Sprintf("every Send had returned, %d of %d final messages A->B and %d of %d B->A had arrived, then not one byte was received on either side during 60 status polls 250 ms apart and no error was reported; send queues:%s", sb, len(p.AB), sa, len(p.BA), q)
				}
			}
		case <-watchdog:
			timedOut = true
		}
		if timedOut || idle != "" {
			break
		}
	}
	atomic.StoreInt32(&dead, 1)
	if failed || timedOut || idle != "" {
		stopConns(o, A.mc, B.mc)
		c1.Close()
		c2.Close()
	}
	if !sdone {
		<-sendersDoneOrNil(sendersDone)
	}
	o.Eval()
	o.Count("c_sessions", 1)
	o.Count("c_sessions:"+p.Transport, 1)
	o.Nontrivial("c:" + lib.Hash12(p.ID, p.Transport, p.Seed))
	if timedOut {
		o.Inconcl(fmt.Sprintf("mconn session %d: watchdog (final messages of some sender never arrived and no error was reported)", p.ID))
	}
	if idle != "" {
		o.Violation("accepted-message-never-arrived:connection-idle-with-undelivered-messages", fmt.Sprintf("mconn session %d: %s", p.ID, idle), map[string]interface{}{"session": p})
	}
	if failed {
		A.mtx.Lock()
		B.mtx.Lock()
		es := append(append([]string{}, A.errs...), B.errs...)
		B.mtx.Unlock()
		A.mtx.Unlock()
		short := es[0]
		if len(short) > 300 {
			short = short[:300]
		}
		o.Violation("mconn-connection-failed-without-fault", "an MConnection pair over a fault-free link with all messages within capacity reported an error: "+short,
			map[string]interface{}{"session": p, "errors": es})
	}
	complete := !failed && !timedOut
	checkDir(o, p, "A->B", p.AB, srAB, B, complete)
	checkDir(o, p, "B->A", p.BA, srBA, A, complete)

	// capacity+1 at the very end (A->B): must not be delivered garbled
	if complete && p.Overflow >= 0 {
		cp := p.Chans[p.Overflow]
		rng := rand.New(rand.NewSource(p.Seed ^ 0x0f0f))
		msg, expect := buildMsg(cp.capacity()+1, mkMarker('a', cp.ID, 0, 0xFFFFFFF0), rng)
		B.mtx.Lock()
		before := len(B.recvd[cp.ID])
		B.mtx.Unlock()
		ok := doSend(A.mc, false, cp.ID, msg)
		o.Count("c_overflow_cases", 1)
		if ok {
			wd := time.After(120 * time.Second)
		WAIT:
			for {
				B.mtx.Lock()
				n, e := len(B.recvd[cp.ID]), len(B.errs)
				var g []byte
				if n > before {
					g = B.recvd[cp.ID][before]
				}
				B.mtx.Unlock()
				switch {
				case n > before:
					if bytes.Equal(g, expect) {
						o.Count("c_overflow_delivered_intact", 1)
					} else {
						o.Violation("mconn-over-capacity-message-delivered-garbled", fmt.Sprintf("a message of capacity+1 = %d bytes on channel %02X arrived as %s", len(expect), cp.ID, brief(g)),
							map[string]interface{}{"session": p, "got": brief(g), "sent": brief(expect)})
					}
					break WAIT
				case e > 0:
					o.Count("c_overflow_rejected_connection_ended", 1)
					break WAIT
				}
				select {
				case <-B.notify:
				case <-A.notify:
					A.mtx.Lock()
					ae := len(A.errs)
					A.mtx.Unlock()
					if ae > 0 {
						o.Count("c_overflow_sender_side_error", 1)
						break WAIT
					}
				case <-wd:
					o.Inconcl(fmt.Sprintf("mconn session %d: no outcome for the capacity+1 message", p.ID))
					break WAIT
				}
			}
		} else {
			o.Count("c_overflow_send_refused", 1)
		}
	}
	close(stopObs)
	obsWg.Wait()
	stopConns(o, A.mc, B.mc)
	c1.Close()
	c2.Close()
	if p.ID < 2 {
		o.Sample(map[string]interface{}{"monitor": "c", "session": p})
	}
}

// stopConns stops the connections without trusting Stop() to return: a tick
// of chStatsTimer/pingTimer that nobody consumes any more blocks
// RepeatTimer.Stop() forever (liveness of Stop is not C20's subject; the hang
// is counted and reported, the goroutine is abandoned).
func stopConns(o *rec, ms ...*p2p.MConnection) {
	done := make(chan struct{}, len(ms))
	for _, m := range ms {
		go func(m *p2p.MConnection) { m.Stop(); done <- struct{}{} }(m)
	}
	wd := time.After(3 * time.Second)
	for range ms {
		select {
		case <-done:
		case <-wd:
			o.Count("c_stop_did_not_return", 1)
			return
		}
	}
}

func sendersDoneOrNil(c chan struct{}) chan struct{} {
	if c == nil {
		c = make(chan struct{})
		close(c)
	}
	return c
}

func mconnSelfTest(o *rec) bool {
	rng := rand.New(rand.NewSource(1))
	for _, T := range []int{0, 1, 2, 3, 4, 17, 257, 258, 259, 1023, 1024, 1025, 2048, 65538, 65539, 65540, 70000} {
		msg, expect := buildMsg(T, mkMarker('a', 1, 0, 7), rng)
		got := wire.BinaryBytes(msg)
		if !bytes.Equal(got, expect) {
			o.Inconcl(fmt.Sprintf("harness self-test: hand encoding of a %d-byte message differs from go-wire", T))
			return false
		}
		if _, ok := sizeToPayload(T); (ok || T == 0 || T == 2) && len(expect) != T {
			o.Inconcl(fmt.Sprintf("harness self-test: encoded size %d for target %d", len(expect), T))
			return false
		}
	}
	return true
}

func monitorMConn(o *rec) {
	if !mconnSelfTest(o) {
		return
	}
	n := lib.Pick(120, 2000)
	lib.Parallel(n, lib.Pick(24, 32), func(i int) {
		runSession(o, genSession(i))
	})
}
