package main

// The refuse-list closures installed by gemmill.prepareP2P are unexported and
// not (yet) part of gemmill/verif_shim.go; they are reached by symbol name so
// that the monitor runs the REAL filter, not a restatement of it.

import (
	_ "unsafe"

	_ "github.com/dappledger/AnnChain/gemmill"
	crypto "github.com/dappledger/AnnChain/gemmill/go-crypto"
	"github.com/dappledger/AnnChain/gemmill/refuse_list"
)

//go:linkname refuseListFilter github.com/dappledger/AnnChain/gemmill.refuseListFilter
func refuseListFilter(refuseList *refuse_list.RefuseList) func(crypto.PubKey) error

//go:linkname addToRefuselist github.com/dappledger/AnnChain/gemmill.addToRefuselist
func addToRefuselist(refuseList *refuse_list.RefuseList) func([]byte) error
