package main

// The refuse-list closures installed by gemmill.prepareP2P are unexported; the
// verif shim of package gemmill exports them, so that the monitor runs the REAL
// filter, not a restatement of it.

import (
	"github.com/dappledger/AnnChain/gemmill"
	crypto "github.com/dappledger/AnnChain/gemmill/go-crypto"
	"github.com/dappledger/AnnChain/gemmill/refuse_list"
)

func refuseListFilter(refuseList *refuse_list.RefuseList) func(crypto.PubKey) error {
	return gemmill.VerifRefuseListFilter(refuseList)
}

func addToRefuselist(refuseList *refuse_list.RefuseList) func([]byte) error {
	return gemmill.VerifAddToRefuselist(refuseList)
}
