package main

// Monitor (b), handshake part: an ACTIVE man in the middle that terminates
// the ephemeral exchange on both sides with its own ephemeral keys and then
// tries to present the other party's long-term key.

import (
	"bytes"
	"fmt"
	"io"
	"sync"

	crypto "github.com/dappledger/AnnChain/gemmill/go-crypto"
	"github.com/dappledger/AnnChain/gemmill/p2p"

	"verif/lib"
)

var mitmVariants = []string{
	"own-key",                // control: M authenticates as itself -> completes with RemotePubKey = M
	"forward-auth",           // victim's peer's genuine auth message, re-encrypted (signed over the OTHER session's challenge)
	"peer-key-own-sig",       // peer's key, M's signature over the right challenge
	"peer-key-zero-sig",      // peer's key, all-zero signature
	"peer-key-flipped-sig",   // peer's genuine signature with one bit flipped
	"replayed-other-session", // peer's genuine auth message recorded in an earlier honest session with M
	"zero-eph-forward-auth",  // low-order ephemeral key on both sides (secret known without any private key), then forward-auth
	"peer-key-nil-sig-type",  // peer's key with an absent signature (nil interface)
}

// recordOldAuth: an honest session between `victimPeer` (real code) and M as
// itself; returns the auth message victimPeer sent (its key and its signature
// over THAT session's challenge).
func recordOldAuth(priv crypto.PrivKeyEd25519) (key, sig []byte, err error) {
	x, y := newPlainPair()
	var wg sync.WaitGroup
	wg.Add(1)
	go func() {
		defer wg.Done()
		sc, e := p2p.MakeSecretConnection(x, priv)
		_ = sc
		_ = e
		x.Close()
	}()
	ep, es := genEph()
	sc, err := rawEph(y, ep, es)
	if err == nil {
		err = sc.sendAuth(authMsg(pubRaw(privM), sigRaw(privM, sc.challenge[:])))
	}
	if err == nil {
		key, sig, _, err = sc.recvAuth()
	}
	wg.Wait()
	y.Close()
	return
}

type mitmOutcome struct {
	ok        bool
	err       string
	remotePub []byte
}

func victim(conn io.ReadWriteCloser, priv crypto.PrivKeyEd25519, out *mitmOutcome) {
	sc, err := p2p.MakeSecretConnection(conn, priv)
	if err != nil {
		out.err = err.Error()
		conn.Close()
		return
	}
	out.ok = true
	if k, ok := sc.RemotePubKey().(crypto.PubKeyEd25519); ok {
		out.remotePub = append([]byte{}, k[:]...)
	}
	conn.Close()
}

func runMITM(o *rec, variant string, idx int) {
	var oldKeyA, oldSigA, oldKeyB, oldSigB []byte
	if variant == "replayed-other-session" {
		var e1, e2 error
		oldKeyA, oldSigA, e1 = recordOldAuth(privA)
		oldKeyB, oldSigB, e2 = recordOldAuth(privB)
		if e1 != nil || e2 != nil {
			o.Inconcl(fmt.Sprintf("mitm: could not record an honest session: %v %v", e1, e2))
			return
		}
	}
	aEnd, mA := newPlainPair()
	bEnd, mB := newPlainPair()
	var outA, outB mitmOutcome
	var wg sync.WaitGroup
	wg.Add(2)
	go func() { defer wg.Done(); victim(aEnd, privA, &outA) }()
	go func() { defer wg.Done(); victim(bEnd, privB, &outB) }()

	var mErr error
	func() {
		var e1p, e1s, e2p, e2s *[32]byte
		if variant == "zero-eph-forward-auth" {
			e1p, e1s = new([32]byte), new([32]byte)
			e2p, e2s = new([32]byte), new([32]byte)
			e1s[0], e2s[0] = 8, 16
		} else {
			e1p, e1s = genEph()
			e2p, e2s = genEph()
		}
		scA, err := rawEph(mA, e1p, e1s)
		if err != nil {
			mErr = err
			return
		}
		scB, err := rawEph(mB, e2p, e2s)
		if err != nil {
			mErr = err
			return
		}
		keyA, sigA, _, err := scA.recvAuth()
		if err != nil {
			mErr = fmt.Errorf("reading A's auth: %v", err)
			return
		}
		keyB, sigB, _, err := scB.recvAuth()
		if err != nil {
			mErr = fmt.Errorf("reading B's auth: %v", err)
			return
		}
		if !bytes.Equal(keyA, pubRaw(privA)) || !bytes.Equal(keyB, pubRaw(privB)) {
			mErr = fmt.Errorf("victims announced unexpected keys")
			return
		}
		var toA, toB []byte // what M tells A (claiming to be B) and B (claiming to be A)
		switch variant {
		case "own-key":
			toA = authMsg(pubRaw(privM), sigRaw(privM, scA.challenge[:]))
			toB = authMsg(pubRaw(privM), sigRaw(privM, scB.challenge[:]))
		case "forward-auth", "zero-eph-forward-auth":
			toA, toB = authMsg(keyB, sigB), authMsg(keyA, sigA)
		case "peer-key-own-sig":
			toA = authMsg(keyB, sigRaw(privM, scA.challenge[:]))
			toB = authMsg(keyA, sigRaw(privM, scB.challenge[:]))
		case "peer-key-zero-sig":
			toA, toB = authMsg(keyB, make([]byte, 64)), authMsg(keyA, make([]byte, 64))
		case "peer-key-flipped-sig":
			fa, fb := append([]byte{}, sigA...), append([]byte{}, sigB...)
			fa[idx%64] ^= 1 << uint(idx%8)
			fb[(idx+7)%64] ^= 1 << uint(idx%8)
			toA, toB = authMsg(keyB, fb), authMsg(keyA, fa)
		case "replayed-other-session":
			toA, toB = authMsg(oldKeyB, oldSigB), authMsg(oldKeyA, oldSigA)
		case "peer-key-nil-sig-type":
			toA, toB = authMsg(keyB, nil), authMsg(keyA, nil)
		}
		if err := scA.sendAuth(toA); err != nil {
			mErr = err
		}
		if err := scB.sendAuth(toB); err != nil {
			mErr = err
		}
	}()
	if mErr != nil {
		mA.Close()
		mB.Close()
	}
	wg.Wait()
	mA.Close()
	mB.Close()
	o.Eval()
	o.Count("mitm_cases", 1)
	o.Count("mitm_cases:"+variant, 1)
	if mErr != nil {
		o.Inconcl("mitm harness error in " + variant + ": " + mErr.Error())
		return
	}
	o.Nontrivial("mitm:" + variant)
	for _, v := range []struct {
		name string
		out  *mitmOutcome
		peer []byte
	}{{"A", &outA, pubRaw(privB)}, {"B", &outB, pubRaw(privA)}} {
		if !v.out.ok {
			o.Count("mitm_rejected:"+variant, 1)
			continue
		}
		o.Count("remote_pubkey_checked", 1)
		switch {
		case bytes.Equal(v.out.remotePub, pubRaw(privM)):
			o.Count("mitm_completed_as_itself:"+variant, 1)
		case bytes.Equal(v.out.remotePub, v.peer):
			o.Violation("mitm-"+variant+"-impersonates-peer",
				fmt.Sprintf("a man in the middle without %s's peer's private key completed the handshake with %s and RemotePubKey() is the peer's key (variant %s)", v.name, v.name, variant),
				map[string]interface{}{"variant": variant, "victim": v.name, "remote_pubkey": fmt.Sprintf("%X", v.out.remotePub)})
		default:
			o.Violation("remote-pubkey-not-the-signer", "handshake completed with a key nobody signed with",
				map[string]interface{}{"variant": variant, "victim": v.name, "remote_pubkey": fmt.Sprintf("%X", v.out.remotePub)})
		}
	}
}

func monitorMITM(o *rec) {
	reps := lib.Pick(12, 150)
	n := reps * len(mitmVariants)
	lib.Parallel(n, 16, func(i int) {
		runMITM(o, mitmVariants[i%len(mitmVariants)], i/len(mitmVariants))
	})
}
