package main

// Monitors (a) stream integrity and (b) tamper evidence over two REAL
// p2p.SecretConnection objects joined by the frame-aware relay.

import (
	"bytes"
	"fmt"
	"io"
	"math/rand"
	"sync"

	crypto "github.com/dappledger/AnnChain/gemmill/go-crypto"
	"github.com/dappledger/AnnChain/gemmill/p2p"

	"verif/lib"
)

var (
	privA = crypto.GenPrivKeyEd25519FromSecret([]byte("c20-party-A"))
	privB = crypto.GenPrivKeyEd25519FromSecret([]byte("c20-party-B"))
	privM = crypto.GenPrivKeyEd25519FromSecret([]byte("c20-man-in-the-middle"))
)

func pubRaw(k crypto.PrivKeyEd25519) []byte {
	p := k.PubKey().(crypto.PubKeyEd25519)
	return append([]byte{}, p[:]...)
}

func sigRaw(k crypto.PrivKeyEd25519, msg []byte) []byte {
	s := k.Sign(msg).(crypto.SignatureEd25519)
	return append([]byte{}, s[:]...)
}

// ---- one party's view of a conversation ------------------------------------

type sideResult struct {
	HandshakeErr string `json:"handshake_err,omitempty"`
	handshakeOK  bool
	remotePub    []byte
	got          []byte // bytes its reader returned
	readErr      error
	reads        int
	beyondN      string // "", or a description of a Read that modified the buffer beyond n
	beyondNZero  bool   // ... with n == 0 and err == nil
	writeErr     error
	written      int // bytes its Write calls reported
}

type bufGen func() int

func mkBufGen(mode string, rng *rand.Rand) bufGen {
	switch mode {
	case "tiny":
		return func() int { return 1 + rng.Intn(8) }
	case "sub":
		return func() int { return 1 + rng.Intn(1023) }
	case "large":
		return func() int { return 1024 + rng.Intn(3073) }
	case "exact":
		return func() int { return 1024 }
	default: // mixed
		return func() int {
			switch rng.Intn(6) {
			case 0:
				return 1 + rng.Intn(4)
			case 1:
				return []int{1023, 1024, 1025, 4096, 7, 512}[rng.Intn(6)]
			default:
				return 1 + rng.Intn(4096)
			}
		}
	}
}

// party runs one end: handshake on the real SecretConnection, then a writer
// and a reader concurrently. conn is closed on every failure, as the switch
// does.
func party(conn io.ReadWriteCloser, closeWrite func(), priv crypto.PrivKeyEd25519, stream []byte, writes []int, nextBuf bufGen, res *sideResult) {
	sc, err := p2p.MakeSecretConnection(conn, priv)
	if err != nil {
		res.HandshakeErr = err.Error()
		conn.Close()
		return
	}
	res.handshakeOK = true
	if k, ok := sc.RemotePubKey().(crypto.PubKeyEd25519); ok {
		res.remotePub = append([]byte{}, k[:]...)
	}
	var wg sync.WaitGroup
	wg.Add(2)
	go func() { // writer
		defer wg.Done()
		off := 0
		for _, w := range writes {
			n, err := sc.Write(stream[off : off+w])
			res.written += n
			off += w
			if err != nil {
				res.writeErr = err
				break
			}
		}
		closeWrite()
	}()
	go func() { // reader
		defer wg.Done()
		buf := make([]byte, 4096)
		for {
			sz := nextBuf()
			p := buf[:sz]
			s := byte(res.reads*37 + 11)
			for i := range p {
				p[i] = s
			}
			n, err := sc.Read(p)
			res.reads++
			if n < 0 || n > sz {
				res.beyondN = fmt.Sprintf("Read returned n=%d for a buffer of %d", n, sz)
				res.readErr = fmt.Errorf("invalid n")
				break
			}
			if res.beyondN == "" {
				for i := n; i < sz; i++ {
					if p[i] != s {
						res.beyondN = fmt.Sprintf("Read #%d with a %d-byte buffer returned n=%d err=%v but modified the buffer at offset %d (stream offset %d)", res.reads, sz, n, err, i, len(res.got))
						res.beyondNZero = n == 0 && err == nil
						break
					}
				}
			}
			res.got = append(res.got, p[:n]...)
			if err != nil {
				res.readErr = err
				break
			}
		}
		if res.readErr != io.EOF {
			conn.Close() // a consumer ends the connection on the first error
		}
	}()
	wg.Wait()
}

type convSpec struct {
	ID       string  `json:"id"`
	WritesAB []int   `json:"writes_ab"`
	WritesBA []int   `json:"writes_ba"`
	ModeA    string  `json:"read_mode_a"` // A's reader (B->A stream)
	ModeB    string  `json:"read_mode_b"`
	PlanAB   *tamper `json:"tamper_ab,omitempty"`
	PlanBA   *tamper `json:"tamper_ba,omitempty"`
	Seed     int64   `json:"seed"`
	streamAB []byte
	streamBA []byte
}

func sum(l []int) int {
	t := 0
	for _, v := range l {
		t += v
	}
	return t
}

func (c *convSpec) fill() {
	rng := rand.New(rand.NewSource(c.Seed))
	c.streamAB = make([]byte, sum(c.WritesAB))
	c.streamBA = make([]byte, sum(c.WritesBA))
	rng.Read(c.streamAB)
	rng.Read(c.streamBA)
}

type convResult struct {
	A, B      sideResult
	appliedAB bool
	appliedBA bool
	framesAB  int
	framesBA  int
}

func runConv(c *convSpec) *convResult {
	a, b, ab, ba := newRelayedPair(c.PlanAB, c.PlanBA)
	r := &convResult{}
	rngA := rand.New(rand.NewSource(c.Seed ^ 0x5151))
	rngB := rand.New(rand.NewSource(c.Seed ^ 0x7272))
	var wg sync.WaitGroup
	wg.Add(2)
	go func() {
		defer wg.Done()
		party(a, ab.CloseWrite, privA, c.streamAB, c.WritesAB, mkBufGen(c.ModeA, rngA), &r.A)
	}()
	go func() {
		defer wg.Done()
		party(b, ba.CloseWrite, privB, c.streamBA, c.WritesBA, mkBufGen(c.ModeB, rngB), &r.B)
	}()
	wg.Wait()
	r.appliedAB, r.appliedBA = ab.wasApplied(), ba.wasApplied()
	r.framesAB, r.framesBA = ab.frames, ba.frames
	return r
}

// chunkSizes: data-frame payload sizes produced by a list of writes.
func chunkSizes(writes []int) []int {
	var out []int
	for _, w := range writes {
		for w > 0 {
			c := w
			if c > frameData {
				c = frameData
			}
			out = append(out, c)
			w -= c
		}
	}
	return out
}

func firstDiff(a, b []byte) int {
	n := len(a)
	if len(b) < n {
		n = len(b)
	}
	for i := 0; i < n; i++ {
		if a[i] != b[i] {
			return i
		}
	}
	return -1
}

const keyReadZero = "read-returns-0-after-copying-buffered-bytes"
const keyReadBeyond = "read-modifies-buffer-beyond-returned-n"

// checkReader applies the stream oracle to one reader. allowed < 0: the
// direction is untampered and complete delivery is demanded when
// completeRequired; otherwise at most `allowed` bytes may have been returned.
func checkReader(o *rec, c *convSpec, who string, rd *sideResult, sent []byte, allowed int, completeRequired bool, t *tamper) {
	wit := func(extra map[string]interface{}) map[string]interface{} {
		m := map[string]interface{}{"conversation": c, "reader": who, "bytes_sent": len(sent), "bytes_read": len(rd.got), "reads": rd.reads}
		if rd.readErr != nil {
			m["read_err"] = rd.readErr.Error()
		}
		for k, v := range extra {
			m[k] = v
		}
		return m
	}
	o.Count("stream_bytes_compared", int64(len(rd.got)))
	explained := false
	if rd.beyondN != "" {
		explained = true
		k := keyReadBeyond
		if rd.beyondNZero {
			k = keyReadZero
		}
		o.Violation(k, "SecretConnection.Read copied stream bytes into the caller's buffer beyond the count it returned; the bytes are lost to the caller: "+rd.beyondN,
			wit(map[string]interface{}{"detail": rd.beyondN}))
	}
	d := firstDiff(rd.got, sent)
	if d >= 0 || len(rd.got) > len(sent) {
		if explained {
			o.Count("stream_mismatch_explained_by_read_defect", 1)
		} else if t == nil {
			o.Violation("stream-bytes-differ", fmt.Sprintf("untampered stream: reader %s got a byte that differs from the sender's stream at offset %d", who, d), wit(map[string]interface{}{"first_diff": d}))
		} else {
			o.Violation("tamper-"+t.Kind+classSfx(t)+"-wrong-byte-delivered", fmt.Sprintf("after %s of frame %d the reader was handed a byte that differs from the sender's stream at offset %d", t.Kind, t.Frame, d), wit(map[string]interface{}{"first_diff": d}))
		}
		return
	}
	if allowed >= 0 {
		if len(rd.got) > allowed {
			if explained {
				o.Count("stream_mismatch_explained_by_read_defect", 1)
				return
			}
			o.Violation("tamper-"+t.Kind+classSfx(t)+"-accepted", fmt.Sprintf("%s of frame %d went undetected: reader got %d bytes, only the %d bytes of the frames before the tampered one may be delivered", t.Kind, t.Frame, len(rd.got), allowed),
				wit(map[string]interface{}{"allowed": allowed}))
			return
		}
		o.Count("tamper_detected:"+t.Kind+classSfx(t), 1)
		return
	}
	if completeRequired {
		if len(rd.got) != len(sent) {
			if explained {
				o.Count("stream_mismatch_explained_by_read_defect", 1)
				return
			}
			if rd.readErr == io.EOF {
				o.Violation("stream-short-at-clean-close", fmt.Sprintf("untampered stream: reader %s saw EOF after %d of %d bytes", who, len(rd.got), len(sent)), wit(nil))
			} else {
				o.Violation("stream-error-without-tampering", fmt.Sprintf("untampered stream: reader %s got error %v after %d of %d bytes", who, rd.readErr, len(rd.got), len(sent)), wit(nil))
			}
			return
		}
		if rd.readErr != io.EOF {
			o.Violation("stream-error-without-tampering", fmt.Sprintf("untampered stream: reader %s got error %v instead of EOF", who, rd.readErr), wit(nil))
		}
	}
}

func classSfx(t *tamper) string {
	if t.Class != "" {
		return "-" + t.Class
	}
	return ""
}

func checkRemoteKeys(o *rec, c *convSpec, r *convResult) {
	if r.A.handshakeOK {
		o.Count("remote_pubkey_checked", 1)
		if !bytes.Equal(r.A.remotePub, pubRaw(privB)) {
			o.Violation("remote-pubkey-not-the-signer", "A completed the handshake but RemotePubKey() is not B's key", map[string]interface{}{"conversation": c, "got": fmt.Sprintf("%X", r.A.remotePub)})
		}
	}
	if r.B.handshakeOK {
		o.Count("remote_pubkey_checked", 1)
		if !bytes.Equal(r.B.remotePub, pubRaw(privA)) {
			o.Violation("remote-pubkey-not-the-signer", "B completed the handshake but RemotePubKey() is not A's key", map[string]interface{}{"conversation": c, "got": fmt.Sprintf("%X", r.B.remotePub)})
		}
	}
}

// ---- (a) -------------------------------------------------------------------

var specialSizes = []int{0, 1, 2, 3, 1022, 1023, 1024, 1025, 1026, 2047, 2048, 2049, 3072, 4096, 65535, 65536, 10240}

func genWrites(rng *rand.Rand, maxWrites int) []int {
	n := 1 + rng.Intn(maxWrites)
	w := make([]int, n)
	for i := range w {
		switch rng.Intn(5) {
		case 0:
			w[i] = specialSizes[rng.Intn(len(specialSizes))]
		case 1:
			w[i] = rng.Intn(65) // tiny
		case 2:
			w[i] = rng.Intn(4097)
		case 3:
			w[i] = 1024 * (1 + rng.Intn(8)) // frame aligned
		default:
			w[i] = rng.Intn(65537)
		}
	}
	return w
}

var readModes = []string{"tiny", "sub", "mixed", "large", "exact", "mixed"}

func monitorStreamIntegrity(o *rec) {
	n := lib.Pick(400, 6000)
	lib.Parallel(n, 16, func(i int) {
		rng := lib.Rand("c20-a", int64(i))
		c := &convSpec{ID: fmt.Sprintf("a-%d", i), Seed: rng.Int63()}
		maxW := 10
		c.ModeA = readModes[rng.Intn(len(readModes))]
		c.ModeB = readModes[rng.Intn(len(readModes))]
		c.WritesAB = genWrites(rng, maxW)
		c.WritesBA = genWrites(rng, maxW)
		if c.ModeA == "tiny" { // 1..8-byte reads: keep the volume sane
			for j := range c.WritesBA {
				c.WritesBA[j] %= 8192
			}
		}
		if c.ModeB == "tiny" {
			for j := range c.WritesAB {
				c.WritesAB[j] %= 8192
			}
		}
		c.fill()
		r := runConv(c)
		o.Eval()
		o.Count("a_conversations", 1)
		o.Count("a_frames_relayed", int64(r.framesAB+r.framesBA))
		o.Count("a_bytes_written", int64(len(c.streamAB)+len(c.streamBA)))
		o.Count("a_reads", int64(r.A.reads+r.B.reads))
		o.Count("a_writes", int64(len(c.WritesAB)+len(c.WritesBA)))
		o.Distinct("a_read_modes", c.ModeA+"/"+c.ModeB)
		if len(chunkSizes(c.WritesAB)) > 1 || len(chunkSizes(c.WritesBA)) > 1 {
			o.Nontrivial("a:" + lib.Hash12(c.WritesAB, c.WritesBA, c.ModeA, c.ModeB))
		}
		if !r.A.handshakeOK || !r.B.handshakeOK {
			o.Violation("handshake-fails-honest", "two honest ends over an untampered link did not complete the handshake: A="+r.A.HandshakeErr+" B="+r.B.HandshakeErr, map[string]interface{}{"conversation": c})
			return
		}
		checkRemoteKeys(o, c, r)
		if r.A.written != len(c.streamAB) || r.B.written != len(c.streamBA) {
			o.Violation("write-count-wrong", fmt.Sprintf("Write reported %d/%d bytes for %d/%d", r.A.written, r.B.written, len(c.streamAB), len(c.streamBA)), map[string]interface{}{"conversation": c})
		}
		checkReader(o, c, "B", &r.B, c.streamAB, -1, true, nil)
		checkReader(o, c, "A", &r.A, c.streamBA, -1, true, nil)
		if i < 2 {
			o.Sample(map[string]interface{}{"monitor": "a", "conversation": c, "bytes_ab": len(c.streamAB), "bytes_ba": len(c.streamBA), "read_by_B": len(r.B.got), "read_by_A": len(r.A.got)})
		}
	})
}

// ---- (b) passive tampering --------------------------------------------------

// shape: writes that give exactly nData data frames with a mix of full and
// partial chunks.
func genShape(rng *rand.Rand, nData int) []int {
	var w []int
	frames := 0
	for frames < nData {
		var s int
		switch rng.Intn(6) {
		case 0:
			s = 1 + rng.Intn(3)
		case 1:
			s = 1024
		case 2:
			s = 1 + rng.Intn(1023)
		case 3:
			s = 1023
		case 4:
			s = 1025 + rng.Intn(2048)
		default:
			s = 2048
		}
		f := (s + frameData - 1) / frameData
		if frames+f > nData {
			s = 1 + rng.Intn(1024)
			f = 1
		}
		w = append(w, s)
		frames += f
	}
	return w
}

type tcase struct {
	dir string // "ab" | "ba"
	t   tamper
}

// tamperCases: for every frame k of one direction (auth frames 0,1 and the
// data frames) every byte class and every frame-level operation.
func tamperCases(rng *rand.Rand, dir string, writes []int, perClass int) []tcase {
	chunks := append([]int{4, 98}, chunkSizes(writes)...)
	var out []tcase
	for k, cl := range chunks {
		classes := []struct {
			name   string
			lo, hi int
		}{{"tag", 0, tagSize - 1}, {"length", tagSize, tagSize + 1}}
		if cl > 0 {
			classes = append(classes, struct {
				name   string
				lo, hi int
			}{"data", tagSize + 2, tagSize + 2 + cl - 1})
		}
		if cl < frameData {
			classes = append(classes, struct {
				name   string
				lo, hi int
			}{"padding", tagSize + 2 + cl, frameSealed - 1})
		}
		for _, c := range classes {
			offs := map[int]bool{c.lo: true, c.hi: true}
			for j := 0; j < perClass; j++ {
				offs[c.lo+rng.Intn(c.hi-c.lo+1)] = true
			}
			for off := range offs {
				out = append(out, tcase{dir, tamper{Kind: "flip", Frame: k, Offset: off, Bit: uint(rng.Intn(8)), Class: c.name}})
			}
		}
		out = append(out, tcase{dir, tamper{Kind: "drop", Frame: k}})
		out = append(out, tcase{dir, tamper{Kind: "replay", Frame: k}})
		if k+1 < len(chunks) {
			out = append(out, tcase{dir, tamper{Kind: "swap", Frame: k}})
		}
		if k >= 2 {
			// reflection: the reader's own frame k-1 / k / k+1 in the place of the sender's frame k
			out = append(out, tcase{dir, tamper{Kind: "reflect", Frame: k, Dist: []int{-1, 0, 1}[rng.Intn(3)]}})
		}
		out = append(out, tcase{dir, tamper{Kind: "trunc-mid", Frame: k, Offset: 1 + rng.Intn(frameSealed-1)}})
		out = append(out, tcase{dir, tamper{Kind: "trunc-boundary", Frame: k}})
	}
	// the ephemeral key itself
	for j := 0; j < 2; j++ {
		out = append(out, tcase{dir, tamper{Kind: "eph-flip", Frame: -1, Offset: rng.Intn(32), Bit: uint(rng.Intn(8))}})
	}
	return out
}

// allowedBytes: how many stream bytes may reach the reader when frame k is hit.
func allowedBytes(t *tamper, writes []int) int {
	chunks := chunkSizes(writes)
	upto := t.Frame - 2 // data frames strictly before k
	if t.Kind == "replay" {
		upto = t.Frame - 1 // frame k itself is genuine, its copy is not
	}
	if t.Kind == "replay-far" {
		upto = t.Frame + t.Dist - 2 // everything before the place the copy was put in is genuine
	}
	a := 0
	for i := 0; i < len(chunks) && i < upto; i++ {
		a += chunks[i]
	}
	return a
}

func monitorTamper(o *rec) {
	shapes := lib.Pick(10, 36)
	nData := lib.Pick(10, 38)
	perClass := lib.Pick(1, 2)
	type job struct {
		shape int
		wAB   []int
		wBA   []int
		tc    tcase
		seed  int64
	}
	var jobs []job
	for s := 0; s < shapes; s++ {
		rng := lib.Rand("c20-b-shape", int64(s))
		nd := nData
		if s%4 == 3 {
			nd = 1 + rng.Intn(4) // short conversations as well
		}
		wAB, wBA := genShape(rng, nd), genShape(rng, nd)
		cs := append(tamperCases(rng, "ab", wAB, perClass), tamperCases(rng, "ba", wBA, perClass)...)
		for _, tc := range cs {
			jobs = append(jobs, job{s, wAB, wBA, tc, rng.Int63()})
		}
	}
	// replay at a distance: a recorded data frame put in the place of a much later one (the
	// nonce must never come back, whatever the distance; 128 and 256 are where a byte wraps)
	{
		rng := lib.Rand("c20-b-far", 0)
		wAB, wBA := genShape(rng, 300), genShape(rng, 300)
		for _, dir := range []string{"ab", "ba"} {
			for _, k := range []int{2, 3 + rng.Intn(20)} {
				for _, d := range []int{64, 127, 128, 129, 255, 256, 257} {
					jobs = append(jobs, job{1000, wAB, wBA, tcase{dir, tamper{Kind: "replay-far", Frame: k, Dist: d}}, rng.Int63()})
				}
			}
		}
	}
	lib.Parallel(len(jobs), 16, func(i int) {
		j := jobs[i]
		rng := rand.New(rand.NewSource(j.seed))
		c := &convSpec{ID: fmt.Sprintf("b-%d-%d", j.shape, i), WritesAB: j.wAB, WritesBA: j.wBA, Seed: j.seed}
		modes := []string{"large", "exact", "mixed", "sub"}
		c.ModeA, c.ModeB = modes[rng.Intn(len(modes))], modes[rng.Intn(len(modes))]
		t := j.tc.t
		var sent []byte
		var rd *sideResult
		var other *sideResult
		var otherSent []byte
		var writes []int
		if j.tc.dir == "ab" {
			c.PlanAB = &t
		} else {
			c.PlanBA = &t
		}
		c.fill()
		r := runConv(c)
		applied := r.appliedAB
		who, otherWho := "B", "A"
		if j.tc.dir == "ab" {
			sent, rd, writes = c.streamAB, &r.B, c.WritesAB
			other, otherSent = &r.A, c.streamBA
		} else {
			applied = r.appliedBA
			who, otherWho = "A", "B"
			sent, rd, writes = c.streamBA, &r.A, c.WritesBA
			other, otherSent = &r.B, c.streamAB
		}
		o.Eval()
		o.Count("b_cases", 1)
		o.Count("b_frames_relayed", int64(r.framesAB+r.framesBA))
		kindKey := t.Kind + classSfx(&t)
		o.Count("b_cases:"+kindKey, 1)
		if !applied {
			// the sender never got as far as frame k (its own handshake failed first): nothing was tampered
			o.Count("b_not_applied:"+kindKey, 1)
			return
		}
		o.Nontrivial(fmt.Sprintf("b:%s:k=%d:%s:%d", kindKey, t.Frame, j.tc.dir, j.shape))
		o.Distinct("b_kind_frame", fmt.Sprintf("%s@%d", kindKey, t.Frame))
		checkRemoteKeys(o, c, r)
		allowed := allowedBytes(&t, writes)
		if t.Frame < 2 {
			if rd.handshakeOK {
				o.Count("b_auth_frame_cases_handshake_completed:"+kindKey, 1) // legitimate only for replay of frame 1 (the copy is met by the first data read)
			} else {
				o.Count("b_detected_in_handshake", 1)
			}
		}
		if rd.handshakeOK {
			checkReader(o, c, who, rd, sent, allowed, false, &t)
		} else {
			o.Count("tamper_detected:"+kindKey, 1)
			if t.Frame >= 2 {
				// data-frame tampering cannot be the reason for a handshake failure
				o.Violation("handshake-fails-untampered", fmt.Sprintf("%s failed the handshake (%s) although only data frame %d was tampered", who, rd.HandshakeErr, t.Frame), map[string]interface{}{"conversation": c})
			}
		}
		// the untampered direction: prefix only (the parties may hang up early)
		if other.handshakeOK {
			checkReader(o, c, otherWho, other, otherSent, -1, false, nil)
		}
		if i%997 == 0 {
			o.Sample(map[string]interface{}{"monitor": "b", "tamper": t, "dir": j.tc.dir, "allowed_bytes": allowed, "reader_got": len(rd.got), "reader_err": fmt.Sprint(rd.readErr), "handshake_err": rd.HandshakeErr})
		}
	})
}
