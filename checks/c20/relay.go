package main

import (
	"errors"
	"io"
	"sync"
	"time"
)

// queue: unbounded byte queue with close; the reading side of a link.
type queue struct {
	mtx    sync.Mutex
	cond   *sync.Cond
	buf    []byte
	closed bool
}

func newQueue() *queue {
	q := &queue{}
	q.cond = sync.NewCond(&q.mtx)
	return q
}

func (q *queue) Read(p []byte) (int, error) {
	q.mtx.Lock()
	defer q.mtx.Unlock()
	for len(q.buf) == 0 && !q.closed {
		q.cond.Wait()
	}
	if len(q.buf) == 0 {
		return 0, io.EOF
	}
	n := copy(p, q.buf)
	q.buf = q.buf[n:]
	return n, nil
}

func (q *queue) put(p []byte) {
	q.mtx.Lock()
	if !q.closed {
		q.buf = append(q.buf, p...)
	}
	q.cond.Broadcast()
	q.mtx.Unlock()
}

func (q *queue) close() {
	q.mtx.Lock()
	q.closed = true
	q.cond.Broadcast()
	q.mtx.Unlock()
}

// tamper describes what the man in the middle does to one direction.
// Frames are numbered from 0 after the 32-byte ephemeral key; frames 0 and 1
// carry the auth message (length, body), data frames start at 2.
type tamper struct {
	Kind   string `json:"kind"`   // flip | swap | replay | drop | trunc-mid | trunc-boundary | eph-flip | replay-far | reflect
	Frame  int    `json:"frame"`  // k
	Offset int    `json:"offset"` // byte offset inside the sealed frame (flip), bytes kept (trunc-mid), byte of the eph key (eph-flip)
	Bit    uint   `json:"bit"`
	Class  string `json:"class"` // tag | length | data | padding (flip)
	Dist   int    `json:"dist"`  // replay-far: the recorded frame k is put in the place of frame k+dist; reflect: frame k is replaced by the READER's own frame k+dist (recorded in the other direction)
}

// relayDir is one direction of the relay: the sender's Write lands here, the
// relay cuts the stream at sealed-frame boundaries, applies the plan and puts
// the result into the reader's queue. Synchronous, hence deterministic.
type relayDir struct {
	mtx     sync.Mutex
	out     *queue
	plan    *tamper
	pend    []byte
	ephDone bool
	idx     int    // index of the next frame to arrive
	held    []byte // frame held back for a swap
	saved   []byte // frame recorded for a replay at a distance
	dead    bool   // after truncation
	closed  bool
	applied bool // the plan's action has been executed
	frames  int  // frames forwarded (statistics)
	peer    *relayDir // the opposite direction (reflect)
	seen    [][]byte  // every frame that arrived in this direction (reflect reads the peer's)
}

var errLinkClosed = errors.New("link closed")

func (r *relayDir) Write(p []byte) (int, error) {
	r.mtx.Lock()
	defer r.mtx.Unlock()
	if r.closed {
		return 0, errLinkClosed
	}
	if r.dead {
		return len(p), nil // swallowed by the adversary
	}
	r.pend = append(r.pend, p...)
	if !r.ephDone {
		if len(r.pend) < 32 {
			return len(p), nil
		}
		eph := append([]byte{}, r.pend[:32]...)
		r.pend = r.pend[32:]
		if r.plan != nil && r.plan.Kind == "eph-flip" {
			eph[r.plan.Offset] ^= 1 << r.plan.Bit
			r.applied = true
		}
		r.out.put(eph)
		r.ephDone = true
	}
	for len(r.pend) >= frameSealed && !r.dead {
		fr := append([]byte{}, r.pend[:frameSealed]...)
		r.pend = r.pend[frameSealed:]
		r.frame(fr)
	}
	return len(p), nil
}

func (r *relayDir) emit(fr []byte) {
	r.out.put(fr)
	r.frames++
}

// seenFrame returns frame j of this direction once it has arrived (bounded wait: the other party
// may not have written it yet; not getting it only means the plan is reported as not applied).
func (r *relayDir) seenFrame(j int) []byte {
	for try := 0; try < 300; try++ {
		r.mtx.Lock()
		if j >= 0 && j < len(r.seen) {
			f := append([]byte{}, r.seen[j]...)
			r.mtx.Unlock()
			return f
		}
		r.mtx.Unlock()
		if j < 0 {
			return nil
		}
		time.Sleep(time.Millisecond)
	}
	return nil
}

func (r *relayDir) frame(fr []byte) {
	k := r.idx
	r.idx++
	r.seen = append(r.seen, append([]byte{}, fr...))
	t := r.plan
	if t == nil || t.Kind == "eph-flip" {
		r.emit(fr)
		return
	}
	switch t.Kind {
	case "flip":
		if k == t.Frame {
			fr[t.Offset] ^= 1 << t.Bit
			r.applied = true
		}
		r.emit(fr)
	case "drop":
		if k == t.Frame {
			r.applied = true
			return
		}
		r.emit(fr)
	case "replay":
		r.emit(fr)
		if k == t.Frame {
			r.emit(append([]byte{}, fr...))
			r.applied = true
		}
	case "replay-far":
		if k == t.Frame {
			r.saved = append([]byte{}, fr...)
		}
		if k == t.Frame+t.Dist && r.saved != nil {
			r.emit(r.saved) // the genuine frame k+dist is withheld
			r.applied = true
			return
		}
		r.emit(fr)
	case "reflect":
		// the reader is handed one of its OWN sealed frames (taken from the other direction) in the
		// place of the sender's frame k
		if k == t.Frame && r.peer != nil {
			if own := r.peer.seenFrame(k + t.Dist); own != nil {
				r.emit(own)
				r.applied = true
				return
			}
		}
		r.emit(fr)
	case "swap":
		if k == t.Frame {
			r.held = fr
			return
		}
		if k == t.Frame+1 && r.held != nil {
			r.emit(fr)
			r.emit(r.held)
			r.held = nil
			r.applied = true
			return
		}
		r.emit(fr)
	case "trunc-mid":
		if k == t.Frame {
			r.out.put(fr[:t.Offset])
			r.applied = true
			r.dead = true
			r.out.close()
			return
		}
		r.emit(fr)
	case "trunc-boundary":
		if k == t.Frame {
			r.applied = true
			r.dead = true
			r.out.close()
			return
		}
		r.emit(fr)
	default:
		r.emit(fr)
	}
}

// CloseWrite: the sender is done; whatever is held back is flushed (a swap
// whose second frame never came degenerates to plain delivery and is reported
// as not applied).
func (r *relayDir) CloseWrite() {
	r.mtx.Lock()
	if !r.closed {
		r.closed = true
		if r.held != nil && !r.dead {
			r.emit(r.held)
			r.held = nil
		}
		r.out.close()
	}
	r.mtx.Unlock()
}

func (r *relayDir) wasApplied() bool {
	r.mtx.Lock()
	defer r.mtx.Unlock()
	return r.applied
}

// endConn is what one party holds: io.ReadWriteCloser.
type endConn struct {
	in  *queue
	out *relayDir
}

func (c *endConn) Read(p []byte) (int, error)  { return c.in.Read(p) }
func (c *endConn) Write(p []byte) (int, error) { return c.out.Write(p) }
func (c *endConn) Close() error {
	c.out.CloseWrite()
	c.in.close()
	return nil
}

// newRelayedPair returns the two ends of a relayed duplex link. planAB tampers
// the A->B direction, planBA the other.
func newRelayedPair(planAB, planBA *tamper) (a, b *endConn, ab, ba *relayDir) {
	qa, qb := newQueue(), newQueue()
	ab = &relayDir{out: qb, plan: planAB}
	ba = &relayDir{out: qa, plan: planBA}
	ab.peer, ba.peer = ba, ab
	a = &endConn{in: qa, out: ab}
	b = &endConn{in: qb, out: ba}
	return
}

// plainPair: two raw duplex ends without relay (used between a party and an
// active man in the middle).
type plainEnd struct {
	in, out *queue
}

func (c *plainEnd) Read(p []byte) (int, error) { return c.in.Read(p) }
func (c *plainEnd) Write(p []byte) (int, error) {
	c.out.mtx.Lock()
	cl := c.out.closed
	c.out.mtx.Unlock()
	if cl {
		return 0, errLinkClosed
	}
	c.out.put(p)
	return len(p), nil
}
func (c *plainEnd) Close() error {
	c.out.close()
	c.in.close()
	return nil
}

func newPlainPair() (x, y *plainEnd) {
	q1, q2 := newQueue(), newQueue()
	return &plainEnd{in: q1, out: q2}, &plainEnd{in: q2, out: q1}
}
