// empty: allows body-less (linknamed) function declarations in this package
