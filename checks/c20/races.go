package main

import (
	"fmt"
	"io/ioutil"
	"path/filepath"
	"regexp"
	"sort"
	"strings"

	"verif/lib"
)

var reAccess = regexp.MustCompile(`^(Read|Write|Previous read|Previous write|Atomic read|Atomic write|Previous atomic read|Previous atomic write) at 0x[0-9a-f]+ by (main goroutine|goroutine \d+):`)

type raceStack struct {
	kind   string
	frames []string // function names, innermost first
	lines  []string // file:line per frame, for the witness
}

// firstOf: the innermost frame whose function starts with prefix.
func (s *raceStack) firstOf(prefix string) string {
	for _, f := range s.frames {
		if strings.HasPrefix(f, prefix) {
			return f
		}
	}
	return ""
}

func parseRaceBlock(block string) []raceStack {
	var out []raceStack
	lines := strings.Split(block, "\n")
	for i := 0; i < len(lines); i++ {
		m := reAccess.FindStringSubmatch(lines[i])
		if m == nil {
			continue
		}
		st := raceStack{kind: m[1]}
		j := i + 1
		for ; j < len(lines) && strings.TrimSpace(lines[j]) != ""; j++ {
			l := lines[j]
			if strings.HasPrefix(l, "      ") { // file:line
				st.lines = append(st.lines, strings.TrimSpace(l))
				continue
			}
			f := strings.TrimSpace(l)
			if k := strings.LastIndex(f, "("); k > 0 {
				f = f[:k]
			}
			st.frames = append(st.frames, f)
		}
		out = append(out, st)
		i = j
	}
	return out
}

const annPrefix = "github.com/dappledger/AnnChain/"

func shortFn(f string) string {
	f = strings.TrimPrefix(f, annPrefix)
	return strings.TrimPrefix(f, "gemmill/")
}

// collectRaces reads the race detector's log files, de-duplicates the reports
// by the pair of innermost frames in the code under test and attributes a
// report to C20 when a racing access is inside gemmill/p2p.
func collectRaces(run *lib.Run, raceLog string) {
	files, _ := filepath.Glob(raceLog + ".*")
	type agg struct {
		n        int
		example  string
		p2p      bool
		harness  bool
		observer bool
	}
	byKey := map[string]*agg{}
	total := 0
	for _, f := range files {
		b, err := ioutil.ReadFile(f)
		if err != nil {
			continue
		}
		for _, block := range strings.Split(string(b), "==================") {
			if !strings.Contains(block, "WARNING: DATA RACE") {
				continue
			}
			total++
			st := parseRaceBlock(block)
			if len(st) < 2 {
				run.Inconclusive("race report could not be parsed: " + tail(block, 300))
				continue
			}
			var fs []string
			p2p, harness, observer := false, false, false
			for _, s := range st[:2] {
				f := s.firstOf(annPrefix)
				if f == "" {
					f = s.firstOf("main.")
					switch f {
					case "main.doSend", "main.doCanSend", "main.doStatus":
						// these harness functions do nothing but call one MConnection method; when the
						// report shows no p2p frame below them the access is inside that (frame-less) call
						f = annPrefix + "gemmill/p2p.(*MConnection)." + map[string]string{"main.doSend": "Send|TrySend", "main.doCanSend": "CanSend", "main.doStatus": "Status"}[f]
					default:
						// no frame of the code under test: the access is made by the harness itself
						harness = true
						if f == "" && len(s.frames) > 0 {
							f = s.frames[0]
						}
					}
				}
				if strings.HasPrefix(f, annPrefix+"gemmill/p2p.") {
					p2p = true
				}
				if f == annPrefix+"gemmill/p2p.(*MConnection).Status" {
					observer = true
				}
				fs = append(fs, shortFn(f))
			}
			sort.Strings(fs)
			key := "race:" + fs[0] + "|" + fs[1]
			a := byKey[key]
			if a == nil {
				a = &agg{example: strings.TrimSpace(block)}
				byKey[key] = a
			}
			a.n++
			a.p2p = a.p2p || p2p
			a.harness = a.harness || harness
			a.observer = a.observer || observer
		}
	}
	run.Count("race_reports", int64(total))
	run.Count("race_reports_distinct", int64(len(byKey)))
	keys := make([]string, 0, len(byKey))
	for k := range byKey {
		keys = append(keys, k)
	}
	sort.Strings(keys)
	summary := map[string]int{}
	for _, k := range keys {
		a := byKey[k]
		summary[k] = a.n
		switch {
		case a.harness:
			run.Inconclusive(fmt.Sprintf("race report with an access made by the harness itself (%s): %s", k, tail(a.example, 1200)))
		case a.observer:
			// MConnection.Status() (the RPC net_info snapshot) reads Channel.sendQueueSize / recentlySent without
			// synchronisation: a genuine data race on channel STATISTICS. Delivery, integrity and order - what
			// C20's oracle depends on - do not read these fields (DESIGN 2.4: attributed only when the racing
			// location is state the property's oracle depends on). Counted and shown, not a C20 violation.
			run.Count("race_reports_status_observer", int64(a.n))
			fmt.Printf("OBSERVED (not judged): %s x%d - unsynchronised statistics read in MConnection.Status()\n", k, a.n)
			run.Sample(map[string]interface{}{"monitor": "c-race-status-observer", "key": k, "reports": a.n, "report": tail(a.example, 1500)})
		case a.p2p:
			run.Violation(k, fmt.Sprintf("data race on MConnection / channel state inside gemmill/p2p, reported %d times", a.n), map[string]interface{}{"reports": a.n, "report": a.example})
		default:
			run.Count("race_reports_outside_p2p", int64(a.n))
			run.Sample(map[string]interface{}{"monitor": "c-race-outside-p2p", "key": k, "reports": a.n, "report": tail(a.example, 1500)})
		}
	}
	run.Extra("race_reports_by_pair", summary)
}
