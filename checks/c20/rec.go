package main

import (
	"encoding/json"
	"fmt"
	"io/ioutil"
	"sort"
	"sync"

	"verif/lib"
)

// rec is the child-side recorder: the monitors run in child processes (so that
// a crash of the code under test is an observation, not the end of the check)
// and write what they saw to a JSON file that the parent merges into lib.Run.
type violation struct {
	Key     string      `json:"key"`
	What    string      `json:"what"`
	Witness interface{} `json:"witness"`
}

type rec struct {
	mtx          sync.Mutex
	Counters     map[string]int64           `json:"counters"`
	Sets         map[string]map[string]bool `json:"-"`
	SetsOut      map[string][]string        `json:"sets"`
	Samples      []interface{}              `json:"samples"`
	Violations   []violation                `json:"violations"`
	ViolCount    map[string]int64           `json:"viol_count"`
	Inconclusive []string                   `json:"inconclusive"`
	Extra        map[string]interface{}     `json:"extra"`
}

func newRec() *rec {
	return &rec{Counters: map[string]int64{}, Sets: map[string]map[string]bool{}, ViolCount: map[string]int64{}, Extra: map[string]interface{}{}}
}

func (r *rec) Count(k string, n int64) {
	r.mtx.Lock()
	r.Counters[k] += n
	r.mtx.Unlock()
}

func (r *rec) Get(k string) int64 {
	r.mtx.Lock()
	defer r.mtx.Unlock()
	return r.Counters[k]
}

func (r *rec) Eval() { r.Count("evaluations", 1) }

func (r *rec) Distinct(set, val string) {
	if len(val) > 60 {
		val = lib.Hash12(val)
	}
	r.mtx.Lock()
	m := r.Sets[set]
	if m == nil {
		m = map[string]bool{}
		r.Sets[set] = m
	}
	m[val] = true
	r.mtx.Unlock()
}

func (r *rec) Nontrivial(id string) { r.Distinct("nontrivial", id) }

func (r *rec) Sample(v interface{}) {
	r.mtx.Lock()
	if len(r.Samples) < 3 {
		r.Samples = append(r.Samples, v)
	}
	r.mtx.Unlock()
}

func (r *rec) Violation(key, what string, witness interface{}) {
	r.mtx.Lock()
	r.ViolCount[key]++
	if r.ViolCount[key] <= 3 {
		r.Violations = append(r.Violations, violation{key, what, witness})
	}
	r.mtx.Unlock()
}

func (r *rec) Inconcl(s string) {
	r.mtx.Lock()
	if len(r.Inconclusive) < 20 {
		r.Inconclusive = append(r.Inconclusive, s)
	}
	r.mtx.Unlock()
}

func (r *rec) SetExtra(k string, v interface{}) {
	r.mtx.Lock()
	r.Extra[k] = v
	r.mtx.Unlock()
}

func (r *rec) write(path string) error {
	r.mtx.Lock()
	defer r.mtx.Unlock()
	r.SetsOut = map[string][]string{}
	for k, m := range r.Sets {
		l := make([]string, 0, len(m))
		for v := range m {
			l = append(l, v)
		}
		sort.Strings(l)
		r.SetsOut[k] = l
	}
	b, err := json.Marshal(r)
	if err != nil {
		// a witness that cannot be marshalled must not lose the verdict
		for i := range r.Violations {
			r.Violations[i].Witness = fmt.Sprintf("%+v", r.Violations[i].Witness)
		}
		r.Samples = nil
		b, err = json.Marshal(r)
		if err != nil {
			return err
		}
	}
	return ioutil.WriteFile(path, b, 0644)
}

func readRec(path string) (*rec, error) {
	b, err := ioutil.ReadFile(path)
	if err != nil {
		return nil, err
	}
	r := newRec()
	if err := json.Unmarshal(b, r); err != nil {
		return nil, err
	}
	return r, nil
}

// mergeInto adds a child's observations to the run. prefix-less: counter names
// are already unique per monitor.
func (r *rec) mergeInto(run *lib.Run) {
	for k, v := range r.Counters {
		run.Count(k, v)
	}
	for set, l := range r.SetsOut {
		for _, v := range l {
			run.Distinct(set, v)
		}
	}
	for _, s := range r.Samples {
		run.Sample(s)
	}
	for _, v := range r.Violations {
		run.Violation(v.Key, v.What, v.Witness)
	}
	for k, n := range r.ViolCount {
		run.Count("violations_by_class:"+k, n)
	}
	for _, s := range r.Inconclusive {
		run.Inconclusive(s)
	}
	for k, v := range r.Extra {
		run.Extra(k, v)
	}
}
