package main

// Monitor (d), hostile handshake input. A node child process runs a real
// Switch (listener on 127.0.0.1, real refuse-list filter, real authByCA); the
// parent is the hostile client. A dead child is a violation
// "handshake-<what>-kills-node@<panic site>".

import (
	"bufio"
	"bytes"
	"encoding/binary"
	"encoding/hex"
	"fmt"
	"io"
	"io/ioutil"
	"net"
	"os"
	"os/exec"
	"path/filepath"
	"strconv"
	"strings"
	"sync"
	"syscall"
	"time"

	"github.com/dappledger/AnnChain/gemmill/types"

	"verif/lib"
)

// ---- the node child -----------------------------------------------------------

func nodeChild(args []string) {
	if v := os.Getenv("C20_NODE_RLIMIT_AS"); v != "" {
		if n, err := strconv.ParseUint(v, 10, 64); err == nil {
			lim := syscall.Rlimit{Cur: n, Max: n}
			if err := syscall.Setrlimit(syscall.RLIMIT_AS, &lim); err != nil {
				fmt.Println("ERROR setrlimit", err)
				os.Exit(3)
			}
		}
	}
	cfg := &sutConfig{
		AuthByCA: os.Getenv("C20_NODE_AUTHCA") == "1",
		NVNA:     true,
		Listener: true,
		Validators0: []*types.Validator{
			types.NewValidator(pubOf(privCAcur), 10, true),
			types.NewValidator(pubOf(privVnon), 10, false),
		},
	}
	s, err := buildSUT(cfg)
	if err != nil {
		fmt.Println("ERROR", err)
		os.Exit(3)
	}
	fmt.Println("LISTEN", s.addr)
	in := bufio.NewReader(os.Stdin)
	for {
		line, err := in.ReadString('\n')
		if err != nil {
			break
		}
		f := strings.Fields(line)
		if len(f) == 0 {
			continue
		}
		switch f[0] {
		case "peers":
			var ks []string
			for _, p := range s.sw.Peers().List() {
				ks = append(ks, p.Key)
			}
			fmt.Println("PEERS", len(ks), strings.Join(ks, " "))
		case "dial":
			// the way a node reaches its seeds (goroutine without recover inside DialSeeds)
			s.sw.DialSeeds([]string{f[1]})
			fmt.Println("DIALING")
		case "quit":
			os.Exit(0)
		}
	}
	os.Exit(0)
}

// ---- hostile scripts ----------------------------------------------------------

type hostileCase struct {
	Name     string `json:"name"`
	AuthCA   bool   `json:"auth_by_ca"`
	RlimitAS uint64 `json:"rlimit_as_bytes,omitempty"`
	Outbound bool   `json:"node_dials_hostile_listener,omitempty"`
	Sent     string `json:"hostile_message_hex,omitempty"`
	script   func(c net.Conn, hc *hostileCase) error
}

func hx(b []byte) string {
	if len(b) > 160 {
		return hex.EncodeToString(b[:160]) + fmt.Sprintf("...(%d bytes)", len(b))
	}
	return hex.EncodeToString(b)
}

func ephOnly(c net.Conn) (*rawSC, error) {
	ep, es := genEph()
	return rawEph(c, ep, es)
}

// authThen: complete the secret-connection handshake honestly with our own
// key, then run next.
func authThen(next func(sc *rawSC, hc *hostileCase) error) func(net.Conn, *hostileCase) error {
	return func(c net.Conn, hc *hostileCase) error {
		sc, err := ephOnly(c)
		if err != nil {
			return err
		}
		if err := sc.sendAuth(authMsg(pubRaw(privPeer), sigRaw(privPeer, sc.challenge[:]))); err != nil {
			return err
		}
		if _, _, _, err := sc.recvAuth(); err != nil {
			return err
		}
		return next(sc, hc)
	}
}

func rawAuth(lenField uint32, body func(sc *rawSC) []byte, emptyChunk bool) func(net.Conn, *hostileCase) error {
	return func(c net.Conn, hc *hostileCase) error {
		sc, err := ephOnly(c)
		if err != nil {
			return err
		}
		b := body(sc)
		l := make([]byte, 4)
		binary.LittleEndian.PutUint32(l, lenField)
		hc.Sent = "auth length prefix (LE) " + hx(l) + " body " + hx(b)
		if err := sc.writeChunk(l); err != nil {
			return err
		}
		if emptyChunk {
			hc.Sent = "auth length prefix (LE) " + hx(l) + " followed by a sealed frame carrying a zero-length chunk"
			return sc.writeChunk(nil)
		}
		_, err = sc.Write(b)
		return err
	}
}

func sendNodeInfo(enc func() []byte) func(net.Conn, *hostileCase) error {
	return authThen(func(sc *rawSC, hc *hostileCase) error {
		b := enc()
		hc.Sent = "NodeInfo bytes " + hx(b)
		if err := sc.byteFrames(b); err != nil {
			return err
		}
		// give the node what it waits for next, so that it is not the read timeout that ends the attempt
		sc.byteFrames(exchangeDataBytes([]byte("{}")))
		return nil
	})
}

func varintRaw(size byte, v uint64) []byte {
	var tmp [8]byte
	binary.BigEndian.PutUint64(tmp[:], v)
	return append([]byte{size}, tmp[8-int(size&0x0F):]...)
}

func hostileCases() []*hostileCase {
	goodSig := func(sc *rawSC) []byte { return sigRaw(privPeer, sc.challenge[:]) }
	ni := func(mod func(*nodeInfoSpec)) func() []byte {
		return func() []byte {
			s := nodeInfoSpec{PubKeyType: 1, PubKey: pubRaw(privPeer), Signd: mkSig("valid-current-ca", pubRaw(privPeer)), Moniker: "hostile", ListenAddr: "127.0.0.1:2"}
			mod(&s)
			return s.encode()
		}
	}
	base := []*hostileCase{
		{Name: "control-honest-only"},
		{Name: "auth-nil-key", script: rawAuth(66, func(sc *rawSC) []byte { return authMsg(nil, goodSig(sc)) }, false)},
		{Name: "auth-nil-key-nil-sig", script: rawAuth(2, func(sc *rawSC) []byte { return authMsg(nil, nil) }, false)},
		{Name: "auth-nil-sig", script: rawAuth(34, func(sc *rawSC) []byte { return authMsg(pubRaw(privPeer), nil) }, false)},
		{Name: "auth-body-zero-length-chunk", script: rawAuth(98, func(sc *rawSC) []byte { return nil }, true)},
		{Name: "auth-len-0", script: rawAuth(0, func(sc *rawSC) []byte { return authMsg(pubRaw(privPeer), goodSig(sc)) }, false)},
		{Name: "auth-len-4g", RlimitAS: 3 << 30, script: rawAuth(0xFFFFFFFF, func(sc *rawSC) []byte { return authMsg(pubRaw(privPeer), goodSig(sc)) }, false)},
		{Name: "auth-len-4g-no-rlimit", script: rawAuth(0xFFFFFFFF, func(sc *rawSC) []byte { return authMsg(pubRaw(privPeer), goodSig(sc)) }, false)},
		{Name: "control-honest-only-rlimit", RlimitAS: 3 << 30},
		{Name: "auth-unknown-key-type", script: rawAuth(98, func(sc *rawSC) []byte { b := authMsg(pubRaw(privPeer), goodSig(sc)); b[0] = 7; return b }, false)},
		{Name: "auth-secp-key-type-ed-sig", script: rawAuth(130, func(sc *rawSC) []byte {
			var b bytes.Buffer
			b.WriteByte(2)
			b.Write(make([]byte, 64))
			b.WriteByte(1)
			b.Write(goodSig(sc))
			return b.Bytes()
		}, false)},
		{Name: "auth-truncated-body", script: rawAuth(98, func(sc *rawSC) []byte { return authMsg(pubRaw(privPeer), goodSig(sc))[:40] }, false)},
		{Name: "eph-short-close", script: func(c net.Conn, hc *hostileCase) error { _, err := c.Write(make([]byte, 10)); return err }},
		{Name: "frame-garbage", script: func(c net.Conn, hc *hostileCase) error {
			sc, err := ephOnly(c)
			if err != nil {
				return err
			}
			g := make([]byte, frameSealed*2)
			lib.Rand("c20-h-garbage", 0).Read(g)
			_, err = sc.rw.Write(g)
			return err
		}},
		{Name: "frame-chunk-length-65535", script: func(c net.Conn, hc *hostileCase) error {
			sc, err := ephOnly(c)
			if err != nil {
				return err
			}
			_, err = sc.rw.Write(sc.seal([]byte{1, 2, 3, 4}, 65535))
			return err
		}},
		{Name: "frame-chunk-length-1025", script: func(c net.Conn, hc *hostileCase) error {
			sc, err := ephOnly(c)
			if err != nil {
				return err
			}
			_, err = sc.rw.Write(sc.seal([]byte{1, 2, 3, 4}, 1025))
			return err
		}},
	}
	perCA := []*hostileCase{
		{Name: "nodeinfo-nil-pointer", script: sendNodeInfo(func() []byte { return []byte{0} })},
		{Name: "nodeinfo-nil-pubkey", script: sendNodeInfo(ni(func(s *nodeInfoSpec) { s.PubKeyType = 0 }))},
		{Name: "nodeinfo-secp256k1-pubkey", script: sendNodeInfo(ni(func(s *nodeInfoSpec) { s.PubKeyType = 2; s.PubKey = make([]byte, 64) }))},
		{Name: "nodeinfo-unknown-pubkey-type", script: sendNodeInfo(ni(func(s *nodeInfoSpec) { s.PubKeyType = 9 }))},
		{Name: "nodeinfo-huge-string-length", script: sendNodeInfo(func() []byte {
			return append(append([]byte{1, 1}, pubRaw(privPeer)...), varintRaw(6, 1<<40)...)
		})},
		{Name: "nodeinfo-negative-string-length", script: sendNodeInfo(func() []byte {
			return append(append([]byte{1, 1}, pubRaw(privPeer)...), varintRaw(0xF2, 300)...)
		})},
		{Name: "nodeinfo-varint-size-9", script: sendNodeInfo(func() []byte {
			return append(append([]byte{1, 1}, pubRaw(privPeer)...), 9, 1, 1, 1, 1, 1, 1, 1, 1, 1)
		})},
		{Name: "nodeinfo-huge-other-count", script: sendNodeInfo(func() []byte {
			s := nodeInfoSpec{PubKeyType: 1, PubKey: pubRaw(privPeer), Signd: mkSig("valid-current-ca", pubRaw(privPeer)), Moniker: "hostile", ListenAddr: "127.0.0.1:2"}
			b := s.encode()
			b = b[:len(b)-1] // drop the zero count
			return append(b, varintRaw(6, 1<<40)...)
		})},
		{Name: "nodeinfo-signd-odd-hex", script: sendNodeInfo(ni(func(s *nodeInfoSpec) { s.Signd = "abc" }))},
		{Name: "nodeinfo-signd-10k", script: sendNodeInfo(ni(func(s *nodeInfoSpec) { s.Signd = strings.Repeat("ab", 5200) }))},
		{Name: "exchange-huge-length", script: authThen(func(sc *rawSC, hc *hostileCase) error {
			s := nodeInfoSpec{PubKeyType: 1, PubKey: pubRaw(privPeer), Signd: mkSig("valid-current-ca", pubRaw(privPeer)), Moniker: "hostile", ListenAddr: "127.0.0.1:2"}
			if err := sc.byteFrames(s.encode()); err != nil {
				return err
			}
			b := append([]byte{1}, varintRaw(6, 1<<40)...)
			hc.Sent = "ExchangeData bytes " + hx(b)
			return sc.byteFrames(b)
		})},
	}
	var out []*hostileCase
	out = append(out, base...)
	for _, ca := range []bool{false, true} {
		for _, c := range perCA {
			cc := *c
			cc.AuthCA = ca
			out = append(out, &cc)
		}
	}
	// the same inputs when the NODE dials a hostile address (seed / address-book entry)
	for _, n := range []string{"auth-nil-key", "auth-body-zero-length-chunk"} {
		for _, c := range base {
			if c.Name == n {
				cc := *c
				cc.Outbound = true
				out = append(out, &cc)
			}
		}
	}
	for _, c := range perCA {
		if c.Name == "nodeinfo-nil-pubkey" {
			cc := *c
			cc.Outbound = true
			cc.AuthCA = true
			out = append(out, &cc)
		}
	}
	return out
}

// ---- driver -------------------------------------------------------------------

type nodeProc struct {
	cmd    *exec.Cmd
	stdin  io.WriteCloser
	out    *bufio.Reader
	errf   string
	addr   string
	waitCh chan error
	dead   bool
	mtx    sync.Mutex
}

func startNode(self, scratch string, id int, hc *hostileCase) (*nodeProc, error) {
	np := &nodeProc{errf: filepath.Join(scratch, fmt.Sprintf("node-%d.stderr", id)), waitCh: make(chan error, 1)}
	np.cmd = exec.Command(self, "child", "node")
	np.cmd.Env = append(os.Environ(), "C20_NODE_AUTHCA="+map[bool]string{true: "1", false: "0"}[hc.AuthCA])
	if hc.RlimitAS > 0 {
		np.cmd.Env = append(np.cmd.Env, fmt.Sprintf("C20_NODE_RLIMIT_AS=%d", hc.RlimitAS))
	}
	ef, err := os.Create(np.errf)
	if err != nil {
		return nil, err
	}
	np.cmd.Stderr = ef
	np.stdin, _ = np.cmd.StdinPipe()
	so, _ := np.cmd.StdoutPipe()
	np.out = bufio.NewReader(so)
	if err := np.cmd.Start(); err != nil {
		ef.Close()
		return nil, err
	}
	ef.Close()
	line, err := np.out.ReadString('\n')
	if err != nil || !strings.HasPrefix(line, "LISTEN ") {
		np.cmd.Process.Kill()
		np.cmd.Wait()
		b, _ := ioutil.ReadFile(np.errf)
		return nil, fmt.Errorf("node child did not come up: %q %v %s", line, err, tail(string(b), 500))
	}
	np.addr = strings.TrimSpace(strings.TrimPrefix(line, "LISTEN "))
	return np, nil
}

// peers asks the child; ok=false when the child is gone.
func (np *nodeProc) peers() (keys []string, ok bool) {
	if _, err := io.WriteString(np.stdin, "peers\n"); err != nil {
		return nil, false
	}
	for {
		line, err := np.out.ReadString('\n')
		if err != nil {
			return nil, false
		}
		if strings.HasPrefix(line, "PEERS ") {
			f := strings.Fields(line)
			return f[2:], true
		}
	}
}

func (np *nodeProc) finish() (stderr string, exitErr error) {
	io.WriteString(np.stdin, "quit\n")
	np.stdin.Close()
	done := make(chan error, 1)
	go func() { done <- np.cmd.Wait() }()
	select {
	case exitErr = <-done:
	case <-time.After(20 * time.Second):
		np.cmd.Process.Kill()
		exitErr = <-done
	}
	b, _ := ioutil.ReadFile(np.errf)
	return string(b), exitErr
}

func runHostile(o *rec, self, scratch string, id int, hc *hostileCase) {
	np, err := startNode(self, scratch, id, hc)
	if err != nil {
		if hc.RlimitAS > 0 && hc.script == nil {
			o.Inconcl("hostile: the node child does not even start under the address-space limit: " + err.Error())
		} else {
			o.Inconcl("hostile: " + err.Error())
		}
		return
	}
	o.Eval()
	o.Count("h_cases", 1)
	o.Nontrivial(fmt.Sprintf("h:%s:ca=%v:out=%v", hc.Name, hc.AuthCA, hc.Outbound))
	scriptErr := ""
	if hc.script != nil {
		if hc.Outbound {
			l, err := net.Listen("tcp", "127.0.0.1:0")
			if err != nil {
				o.Inconcl("hostile: listen: " + err.Error())
				np.finish()
				return
			}
			io.WriteString(np.stdin, "dial "+l.Addr().String()+"\n")
			type ar struct {
				c   net.Conn
				err error
			}
			ch := make(chan ar, 1)
			go func() { c, err := l.Accept(); ch <- ar{c, err} }()
			select {
			case a := <-ch:
				if a.err == nil {
					if err := hc.script(a.c, hc); err != nil {
						scriptErr = err.Error()
					}
					drainUntilClosed(a.c)
				}
			case <-time.After(30 * time.Second):
				scriptErr = "node never dialled"
			}
			l.Close()
		} else {
			c, err := net.Dial("tcp", np.addr)
			if err != nil {
				scriptErr = err.Error()
			} else {
				if err := hc.script(c, hc); err != nil {
					scriptErr = err.Error()
				}
				drainUntilClosed(c)
			}
		}
	}
	// the canary: an honest, admissible peer. It is admitted iff the node is still alive and serving.
	canaryOK := false
	cc, err := net.Dial("tcp", np.addr)
	var canaryErr string
	if err == nil {
		cspec := &clientSpec{Priv: privCanary, Announce: nodeInfoSpec{PubKeyType: 1, PubKey: pubRaw(privCanary), Signd: mkSig("valid-current-ca", pubRaw(privCanary)), Moniker: "canary", ListenAddr: "127.0.0.1:3"}}
		cc.SetDeadline(time.Now().Add(60 * time.Second))
		if st, e := rawClient(cc, cspec); e != nil {
			canaryErr = st + ": " + e.Error()
		}
		defer cc.Close()
	} else {
		canaryErr = err.Error()
	}
	var keys []string
	alive := true
	deadline := time.Now().Add(40 * time.Second)
	for {
		var ok bool
		keys, ok = np.peers()
		if !ok {
			alive = false
			break
		}
		for _, k := range keys {
			if k == pubOf(privCanary).KeyString() {
				canaryOK = true
			}
		}
		if canaryOK || canaryErr != "" || time.Now().After(deadline) {
			break
		}
		time.Sleep(5 * time.Millisecond)
	}
	stderr, exitErr := np.finish()
	crashed := !alive || strings.Contains(stderr, "panic:") || strings.Contains(stderr, "fatal error:")
	wit := map[string]interface{}{"case": hc, "script_error": scriptErr, "canary_error": canaryErr, "exit": fmt.Sprint(exitErr), "panic_trace": panicHead(stderr, 3500)}
	outcome := "survived"
	if crashed {
		outcome = "died"
	}
	lbl := hc.Name
	if hc.Outbound {
		lbl += "(node dials)"
	}
	o.Count(fmt.Sprintf("h_outcome:%s:ca=%v:%s", lbl, hc.AuthCA, outcome), 1)
	switch {
	case crashed:
		site := crashSite(stderr)
		o.Count("h_node_died", 1)
		what := hc.Name
		if hc.Outbound {
			what += "-from-dialled-address"
		}
		lim := ""
		if hc.RlimitAS > 0 {
			lim = fmt.Sprintf(" (address space limited to %d MiB)", hc.RlimitAS>>20)
		}
		o.Violation("handshake-"+what+"-kills-node@"+site, fmt.Sprintf("one unauthenticated connection sending %s terminates the node process%s: %s", hc.Name, lim, firstLine(stderr)), wit)
	case !canaryOK:
		if hc.script == nil {
			o.Inconcl("hostile: control case: the canary was not admitted: " + canaryErr)
		} else {
			o.Inconcl(fmt.Sprintf("hostile %s: node alive but the canary was not admitted (%s)", hc.Name, canaryErr))
		}
	default:
		o.Count("h_node_survived", 1)
		o.Count("h_canary_admitted", 1)
	}
	if alive {
		for _, k := range keys {
			if k != pubOf(privCanary).KeyString() {
				o.Violation("hostile-handshake-admitted:"+hc.Name, "a malformed handshake ended with a peer in Switch.Peers()", wit)
			}
		}
	}
	if hc.Name == "auth-nil-sig" || hc.Name == "control-honest-only" {
		o.Sample(map[string]interface{}{"monitor": "hostile", "case": hc, "node_alive": alive, "canary_admitted": canaryOK})
	}
}

// drainUntilClosed: we are done sending (half-close); wait until the node has
// dealt with the input and hung up (or died), so that the verdict does not
// depend on timing. The deadline is only a watchdog.
func drainUntilClosed(c net.Conn) {
	if t, ok := c.(*net.TCPConn); ok {
		t.CloseWrite()
	}
	c.SetReadDeadline(time.Now().Add(10 * time.Second))
	io.Copy(ioutil.Discard, c)
	c.Close()
}

// panicHead: the trace from the panic / fatal error line on.
func panicHead(stderr string, n int) string {
	i := strings.Index(stderr, "panic:")
	if j := strings.Index(stderr, "fatal error:"); j >= 0 && (i < 0 || j < i) {
		i = j
	}
	if i < 0 {
		return tail(stderr, n)
	}
	s := stderr[i:]
	if len(s) > n {
		s = s[:n]
	}
	return s
}

func firstLine(stderr string) string {
	for _, mark := range []string{"panic:", "fatal error:"} {
		if i := strings.Index(stderr, mark); i >= 0 {
			s := stderr[i:]
			if j := strings.Index(s, "\n"); j > 0 {
				s = s[:j]
			}
			return s
		}
	}
	return "(no panic line)"
}

func monitorHostile(o *rec, self, scratch string) {
	cases := hostileCases()
	lib.Parallel(len(cases), 8, func(i int) { runHostile(o, self, scratch, i, cases[i]) })
}
