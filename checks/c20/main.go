// C20 — P2P transport is authenticated, ordered and intact; admission rules hold.
//
// Four monitors on the real p2p objects, each in its own child process (a
// crash of the code under test is an observation, not the end of the check):
//
//	stream     (a) stream integrity and (b) tamper evidence: two real
//	           SecretConnections over a frame-aware man-in-the-middle relay;
//	           active MITM handshakes with a hand-rolled protocol implementation
//	mconn      (c) two real MConnections, concurrent senders on several
//	           channels; runs in the -race build
//	admission  (d) real Switch objects, full admission matrix against an
//	           independent decision table
//	hostile    (d) hostile handshake input against a node child process
//	           (listener on 127.0.0.1); a dead child is a violation
package main

import (
	"bytes"
	"fmt"
	"io/ioutil"
	"os"
	"os/exec"
	"path/filepath"
	"strings"
	"sync"
	"time"

	glog "github.com/dappledger/AnnChain/gemmill/modules/go-log"
	"go.uber.org/zap"

	"verif/lib"
)

func main() {
	glog.SetLog(zap.NewNop())
	if len(os.Args) >= 3 && os.Args[1] == "child" {
		childMain(os.Args[2], os.Args[3:])
		return
	}
	parentMain()
}

// childMain runs one monitor and writes its observations to the result file.
func childMain(part string, args []string) {
	if part == "node" {
		nodeChild(args)
		return
	}
	if len(args) < 1 {
		fmt.Fprintln(os.Stderr, "usage: child <part> <resultfile>")
		os.Exit(3)
	}
	o := newRec()
	switch part {
	case "stream":
		monitorStreamIntegrity(o)
		monitorTamper(o)
		monitorMITM(o)
	case "mconn":
		monitorMConn(o)
	case "admission":
		monitorAdmission(o)
	case "hostile": // development aid; the registered run drives this monitor from the parent
		self, _ := os.Executable()
		sc := lib.Scratch("C20")
		monitorHostile(o, self, sc)
		os.RemoveAll(sc)
	default:
		fmt.Fprintln(os.Stderr, "unknown part", part)
		os.Exit(3)
	}
	if err := o.write(args[0]); err != nil {
		fmt.Fprintln(os.Stderr, "cannot write result:", err)
		os.Exit(3)
	}
}

type childRun struct {
	part    string
	bin     string
	env     []string
	wdog    time.Duration
	res     *rec
	err     error
	timeout bool
	stderr  string
	wall    time.Duration
}

func runChild(scratch string, c *childRun) {
	out := filepath.Join(scratch, c.part+".json")
	errf := filepath.Join(scratch, c.part+".stderr")
	for attempt := 0; attempt < 2; attempt++ {
		os.Remove(out)
		ef, _ := os.Create(errf)
		cmd := exec.Command(c.bin, "child", c.part, out)
		cmd.Env = append(os.Environ(), c.env...)
		cmd.Stdout = ef
		cmd.Stderr = ef
		start := time.Now()
		c.timeout = false
		if err := cmd.Start(); err != nil {
			c.err = err
			ef.Close()
			return
		}
		done := make(chan error, 1)
		go func() { done <- cmd.Wait() }()
		wd := c.wdog * time.Duration(attempt+1)
		select {
		case c.err = <-done:
		case <-time.After(wd):
			c.timeout = true
			cmd.Process.Signal(os.Interrupt)
			cmd.Process.Kill()
			<-done
		}
		c.wall = time.Since(start)
		ef.Close()
		b, _ := ioutil.ReadFile(errf)
		c.stderr = string(b)
		if !c.timeout {
			break
		}
	}
	if r, err := readRec(out); err == nil {
		c.res = r
	}
}

// fnOfTraceLine: "pkg.(*T).Method(0x1, ...)" -> "pkg.(*T).Method" for frames of the code under test / the harness.
func fnOfTraceLine(l string) string {
	if !strings.HasPrefix(l, "github.com/dappledger/AnnChain/") && !strings.HasPrefix(l, "main.") {
		return ""
	}
	for i := 0; i < len(l); i++ {
		if l[i] == '(' && (i+1 >= len(l) || l[i+1] != '*') {
			return l[:i]
		}
	}
	return ""
}

// crashSite: first frame of the code under test in a Go panic / fatal trace.
func crashSite(stderr string) string {
	i := strings.Index(stderr, "panic:")
	if j := strings.Index(stderr, "fatal error:"); j >= 0 && (i < 0 || j < i) {
		i = j
	}
	if i < 0 {
		return "no-trace"
	}
	for _, l := range strings.Split(stderr[i:], "\n") {
		f := fnOfTraceLine(l)
		if f == "" || strings.HasPrefix(f, "github.com/dappledger/AnnChain/gemmill/modules/go-common.Panic") {
			continue
		}
		if k := strings.Index(f, "authByCA"); k >= 0 && strings.HasPrefix(f, "main.") {
			// the closure is created in a function inlined into the harness; name it by its origin
			return "gemmill." + f[k:]
		}
		return strings.TrimPrefix(f, "github.com/dappledger/AnnChain/")
	}
	return "no-frame"
}

func tail(s string, n int) string {
	if len(s) > n {
		return s[len(s)-n:]
	}
	return s
}

func parentMain() {
	run := lib.NewRun("C20", "exploration")
	run.SetRule("fixed case lists from VERIF_SEED and tier. (a) conversations = seeded lists of writes (0..64 KiB, frame-aligned and off-by-one sizes) in both directions, read with seeded buffer sizes 1..4096; non-trivial = more than one sealed frame. " +
		"(b) for every frame k (auth frames 0,1 and all data frames) of seeded conversation shapes: one bit flipped in each byte class (tag, length, data, padding; first, last and random offsets), drop, replay, swap with k+1, truncation inside and at the frame; a recorded data frame put in the place of the frame 64, 127, 128, 129, 255, 256 and 257 frames later in 300-frame conversations; bit flips in the ephemeral key; active MITM handshake variants; distinct = (kind,class,k,direction,shape). " +
		"(c) sessions of two MConnections (pipe, TCP loopback, or over two SecretConnections), 4 channels with different priorities / queue capacities / receive capacities, concurrent senders using Send and TrySend, sizes 0..capacity incl. multiples of 1024 and capacity+1; distinct = session plan. " +
		"(d) the full matrix refuse-list x identity x auth_by_ca x non_validator_node_auth x validator x signature kind x direction x transport against real Switch objects; hostile handshake inputs against a node child process.")
	run.Assume("the in-memory relay delivers bytes in order and unmodified except for the planned tampering",
		"ed25519 / X25519 / XSalsa20-Poly1305 primitives are sound; the adversary does not hold the honest parties' long-term private keys",
		"message arrival for MConnection means the bytes passed to the onReceive callback at the time of the call",
		"CA signature validity is ed25519 verification of the peer's raw 32-byte node key (what `gtool sign` produces) against the CURRENT validator set's CA members; 'admission applies' is read from authByCA: every peer unless it is a current validator and non_validator_node_auth is false")
	scratch := lib.Scratch("C20")

	self := os.Getenv("VERIF_SELF")
	if self == "" {
		self, _ = os.Executable()
	}
	raceBin := os.Getenv("VERIF_RACE_BIN")
	raceLog := filepath.Join(scratch, "race")
	children := []*childRun{
		{part: "stream", bin: self, wdog: time.Duration(lib.Pick(10, 40)) * time.Minute},
		{part: "admission", bin: self, wdog: time.Duration(lib.Pick(10, 40)) * time.Minute},
	}
	if raceBin != "" {
		children = append(children, &childRun{part: "mconn", bin: raceBin, wdog: time.Duration(lib.Pick(10, 40)) * time.Minute,
			env: []string{"GORACE=halt_on_error=0 exitcode=0 log_path=" + raceLog}})
	} else {
		run.Inconclusive("VERIF_RACE_BIN not set: the MConnection monitor needs the -race build (run through ./check)")
	}
	var wg sync.WaitGroup
	for _, c := range children {
		wg.Add(1)
		go func(c *childRun) {
			defer wg.Done()
			runChild(scratch, c)
		}(c)
	}
	// the hostile-handshake driver runs in the parent (it only talks TCP to node children)
	hostileRec := newRec()
	wg.Add(1)
	go func() {
		defer wg.Done()
		monitorHostile(hostileRec, self, scratch)
	}()
	wg.Wait()
	hostileRec.write(filepath.Join(scratch, "hostile.json"))
	if hr, err := readRec(filepath.Join(scratch, "hostile.json")); err == nil {
		hr.mergeInto(run)
	} else {
		run.Inconclusive("hostile monitor result unreadable: " + err.Error())
	}

	for _, c := range children {
		run.Extra("wall_s:"+c.part, c.wall.Seconds())
		if c.timeout {
			run.Inconclusive(fmt.Sprintf("watchdog: child %s did not finish; goroutine dump tail: %s", c.part, tail(c.stderr, 1500)))
			continue
		}
		if c.res == nil {
			// the monitor process died: the code under test panicked outside any recover
			site := crashSite(c.stderr)
			run.Violation("monitor-"+c.part+"-crashed@"+site, fmt.Sprintf("the %s monitor process died (%v) at %s", c.part, c.err, site),
				map[string]interface{}{"panic_trace": panicHead(c.stderr, 4000)})
			continue
		}
		c.res.mergeInto(run)
		if c.err != nil {
			run.Inconclusive(fmt.Sprintf("child %s exited with %v: %s", c.part, c.err, tail(c.stderr, 600)))
		}
	}
	if raceBin != "" {
		collectRaces(run, raceLog)
	}

	// minimum observations
	run.Require("a_conversations", int64(lib.Pick(300, 5000)))
	run.Require("b_cases", int64(lib.Pick(2000, 30000)))
	run.Require("mitm_cases", int64(lib.Pick(80, 1000)))
	run.Require("mitm_completed_as_itself:own-key", 10)
	run.Require("remote_pubkey_checked", 1000)
	if raceBin != "" {
		run.Require("c_sessions", int64(lib.Pick(100, 1800)))
		run.Require("c_msgs_received", int64(lib.Pick(5000, 100000)))
		run.Require("c_trysend_refused", 1)
		run.Require("c_multi_packet_msgs", 100)
	}
	run.Require("d_rows", int64(lib.Pick(900, 1900)))
	run.Require("d_admitted", 50)
	run.Require("d_refused", 300)
	run.Require("h_cases", 10)
	run.Require("h_canary_admitted", 5)
	os.RemoveAll(scratch)
	os.Exit(run.Finish())
}

var _ = bytes.Equal
